(* C18 at system level, client side: the C-ABI client as a front end of the verified client core.

   Model/FfiClient.v: the eight rodbus_client_channel_<request> functions (`c_function`: return code + completion-callback
   invocations, interpreting the statement order REGENERATED from ffi client.rs / rodbus ffi_channel.rs), the value lists
   (list.rs) and value iterators (iterator.rs) through which values cross the boundary, `to_call` (the same call through
   the Rust API), `c_deliver` (FutureType::complete on the client core's result), `c_callbacks` (callback invocations
   caused by a run of the client task). Composed with p1's codec / submit-path model (C03, C04: ViaFfi = FfiChannel,
   ViaChannel = the async Rust API) and p4's task model (C10, C11: submit style SFfi = try_send).
   Only statements, closed by `exact`, each followed by Print Assumptions. *)
From Coq Require Import NArith List String Bool.
From Rodbus Require Import Base.Outcome Base.ClientTypes Model.Format Model.ClientRequest Model.ClientPaths Model.ClientSession
  Spec.ClientCodecSpec Gen.ClientTables Gen.SessionErrors Gen.FfiTables Model.Ffi Spec.FfiSpec Proofs.FfiProofs Model.FfiClient
  Proofs.ClientPathsProofs Proofs.ClientSessionProofs.
From Rodbus Require Model.ClientTask Proofs.C10Proofs Proofs.FfiClientSystemProofs.
Import ListNotations.
Local Open Scope N_scope.
Module P := Rodbus.Proofs.FfiClientSystemProofs.
Module CT := Rodbus.Model.ClientTask.
Module P10 := Rodbus.Proofs.C10Proofs.

(* ---- values cross the boundary unchanged, in both directions ---- *)
(* a list built with rodbus_*_list_add holds exactly the added values, in order (client write-multiple arguments) *)
Theorem C18_system_list_values : forall A (items : list A), list_of_adds items = items.
Proof. exact P.list_of_adds_id. Qed.
Print Assumptions C18_system_list_values.

(* a Bit/RegisterValueIterator hands the callback exactly the elements of the inner Rust iterator, one per `next`, in
   order, and NULL exactly at the end (client read results; the server's write-multiple callbacks use the same type) *)
Theorem C18_system_iterator_values : forall A (l : list (N * A)) z, vi_all l z = l.
Proof. exact P.vi_all_id. Qed.
Print Assumptions C18_system_iterator_values.

Theorem C18_system_iterator_order : forall A (l : list (N * A)) z k,
  P.vi_nth k (vi_new l z) = nth_error l k /\ (P.vi_nth k (vi_new l z) = None <-> (List.length l <= k)%nat).
Proof. exact P.vi_next_in_order. Qed.
Print Assumptions C18_system_iterator_order.

(* ---- a C call with valid parameters = the same call through the Rust API ---- *)
(* it queues exactly the request the Rust API queues; return code and callback by how the queue answers try_send:
   accepted -> Ok and ONE callback with the first completion; full -> TooManyRequests + one on_failure(Shutdown);
   closed -> Shutdown + one on_failure(Shutdown) *)
Theorem C18_system_client_submit : forall cc c r snd_ task_, to_call cc = Some c -> build c = Ok r ->
  submit_via ViaFfi c = Queued r /\ submit_via ViaChannel c = Queued r /\
  c_function false cc snd_ task_ = expected (ft_of cc) (is_read (c_name cc)) (env_of false cc snd_ task_) /\
  c_function false cc snd_ task_ =
    match snd_ with
    | Accepted => (FPE_Ok, [fire (ft_of cc) (first_completion task_)])
    | QueueFull => (FPE_TooManyRequests, [OnFailure FRE_Shutdown])
    | ChannelClosed => (FPE_Shutdown, [OnFailure FRE_Shutdown])
    end.
Proof. exact P.c_submit_queued. Qed.
Print Assumptions C18_system_client_submit.

(* parameters the Rust API rejects are rejected by the C function too, nothing is queued; the completion callback:
   none for an empty / overflowing range or list (rejected before sfio_promise::wrap), exactly one on_failure(Shutdown)
   for a read above the Modbus count limit (rejected inside FfiChannel, after the wrap) *)
Theorem C18_system_client_rejected : forall cc c e snd_ task_, to_call cc = Some c -> build c = Err e ->
  submit_via ViaChannel c = Rejected {| rj_returned := Some e; rj_completion := None |} /\
  submit_via ViaFfi c = Rejected (rejection_of ViaFfi c e) /\
  match cc with
  | CcReadCoils _ _ | CcReadDiscreteInputs _ _ | CcReadHoldingRegisters _ _ | CcReadInputRegisters _ _ =>
      ((e = ECountOfZero \/ e = EAddressOverflow) /\ c_function false cc snd_ task_ = (FPE_InvalidRange, [])) \/
      (e = ECountTooLargeForType /\ c_function false cc snd_ task_ = (FPE_InvalidRange, [OnFailure FRE_Shutdown]))
  | CcWriteMultipleCoils _ _ | CcWriteMultipleRegisters _ _ =>
      (e = ECountTooBigForU16 \/ e = ECountOfZero \/ e = EAddressOverflow) /\
      c_function false cc snd_ task_ = (FPE_InvalidRequest, [])
  | CcWriteSingleCoil _ _ | CcWriteSingleRegister _ _ => False
  end.
Proof. exact P.c_submit_rejected. Qed.
Print Assumptions C18_system_client_rejected.

(* the over-limit read in full: FfiChannel::read_bits drops the Rust closure UNCALLED (C03_rejection_signals: no completion),
   FfiChannel::read_registers calls it with Shutdown - at the C level both end in exactly one on_failure(Shutdown), because
   the closure owns the sfio promise. (A seeded change that moved sfio_promise::wrap inside the closure loses the callback of
   read_coils / read_discrete_inputs with count 2001..65535: the regenerated statement order then has no WrapPromise
   step before the send and this theorem - like C18_once - stops compiling.) *)
Theorem C18_system_client_over_limit : forall cc c snd_ task_, to_call cc = Some c -> build c = Err ECountTooLargeForType ->
  c_function false cc snd_ task_ = (FPE_InvalidRange, [OnFailure FRE_Shutdown]) /\
  P.cc_is_read cc = true /\
  exists rj, submit_via ViaFfi c = Rejected rj /\ rj_returned rj = Some ECountTooLargeForType /\
    rj_completion rj = match cc with CcReadCoils _ _ | CcReadDiscreteInputs _ _ => None | _ => Some CShutdown end.
Proof. exact P.c_over_limit_exactly_one. Qed.
Print Assumptions C18_system_client_over_limit.

Theorem C18_system_client_null : forall cc snd_ task_,
  c_function true cc snd_ task_ = (FPE_NullParameter, []) /\
  (items_null cc = true -> c_function false cc snd_ task_ = (FPE_NullParameter, [])).
Proof. exact P.c_null. Qed.
Print Assumptions C18_system_client_null.

(* ---- bytes on the wire ---- *)
(* one call: whichever API submits it the transport sees the protocol encoding of the call (when within the limits) or nothing *)
Theorem C18_system_client_wire : forall cc c tx uid, to_call cc = Some c -> call_wf c ->
  path_wire ViaFfi Tcp tx uid c = path_wire ViaChannel Tcp tx uid c /\
  path_wire ViaFfi Tcp tx uid c = submit_wire Tcp tx uid c /\
  (within_limits c -> path_wire ViaFfi Tcp tx uid c = [ref_encode_tcp tx uid c]) /\
  (~ within_limits c -> path_wire ViaFfi Tcp tx uid c = []).
Proof. exact P.c_wire. Qed.
Print Assumptions C18_system_client_wire.

(* a whole sequence of C calls on a connected channel, from any point k of the session: the wire log is the Spec's
   (ref_session_wire: the frames of the calls within the limits, in order, the k-th request reaching the task stamped
   k mod 65536) and equals the log of the same calls through the Rust API *)
Theorem C18_system_client : forall l k, Forall (fun x => call_wf (snd x)) (P.rust_calls l) ->
  session_wire Tcp (k mod 65536) (P.via ViaFfi (P.rust_calls l)) = ref_session_wire true k (P.rust_calls l) /\
  session_wire Tcp (k mod 65536) (P.via ViaFfi (P.rust_calls l)) = session_wire Tcp (k mod 65536) (P.via ViaChannel (P.rust_calls l)).
Proof. exact P.c_session_wire_from. Qed.
Print Assumptions C18_system_client.

Theorem C18_system_client_ids : forall k, CT.txid_next (k mod 65536) = ((k + 1) mod 65536, k mod 65536).
Proof. exact P.c_session_ids. Qed.
Print Assumptions C18_system_client_ids.

(* ---- the value delivered to the C callback ---- *)
(* for every reply PDU: what the callback receives is FutureType::complete of the RUST API's result (handle_response):
   success values element by element; never a panic *)
Theorem C18_system_client_values : forall r pdu, request_wf r -> Forall is_u8 pdu ->
  (forall l, handle_response r pdu = Ok (RespBits l) -> c_deliver (deliver_via ViaFfi r pdu) = Some (CvBits l)) /\
  (forall l, handle_response r pdu = Ok (RespRegisters l) -> c_deliver (deliver_via ViaFfi r pdu) = Some (CvRegisters l)) /\
  (forall i v, handle_response r pdu = Ok (RespCoil i v) -> c_deliver (deliver_via ViaFfi r pdu) = Some CvNothing) /\
  (forall i v, handle_response r pdu = Ok (RespRegister i v) -> c_deliver (deliver_via ViaFfi r pdu) = Some CvNothing) /\
  (forall s n, handle_response r pdu = Ok (RespRange s n) -> c_deliver (deliver_via ViaFfi r pdu) = Some CvNothing).
Proof. exact P.c_deliver_values. Qed.
Print Assumptions C18_system_client_values.

Theorem C18_system_client_error : forall r pdu e, request_wf r -> Forall is_u8 pdu -> handle_response r pdu = Err e ->
  c_deliver (deliver_via ViaFfi r pdu) = Some (CvFailure (request_error_to_ffi (class_of_codec e))) /\
  P.ffi_error_same_named (class_of_codec e) = true /\
  request_error_to_ffi (class_of_codec e) <> FRE_Ok.
Proof. exact P.c_deliver_error. Qed.
Print Assumptions C18_system_client_error.

Theorem C18_system_client_total : forall r pdu, request_wf r -> Forall is_u8 pdu -> c_deliver (deliver_via ViaFfi r pdu) <> None.
Proof. exact P.c_deliver_total. Qed.
Print Assumptions C18_system_client_total.

(* all 256 exception codes, end to end: an exception reply with code b reaches the C callback as on_failure(ModbusException<name of b>) *)
Theorem C18_system_client_exception_bytes : forall r b, request_wf r -> b < 256 ->
  c_deliver (deliver_via ViaFfi r [reply_fc r + 128; b]) =
    Some (CvFailure (request_error_to_ffi (RRE_Exception (exception_from_u8 b)))) /\
  name_ffi_request_error (request_error_to_ffi (RRE_Exception (exception_from_u8 b))) =
    ("ModbusException" ++ standard_exception_name b)%string.
Proof. exact P.c_deliver_exception_bytes. Qed.
Print Assumptions C18_system_client_exception_bytes.

(* every error class the client task can complete a request with (C10_class) has its same-named C value *)
Theorem C18_system_client_task_errors : forall e ex,
  P.ffi_error_same_named (class_of_task e ex) = true /\
  request_error_to_ffi (class_of_task e ex) <> FRE_Ok /\
  name_rust_request_error (class_of_task e ex) =
    match e with
    | ReIo => "Io" | ReException => "Exception" | ReBadRequest => "BadRequest" | ReBadFrame => "BadFrame"
    | ReBadResponse => "BadResponse" | ReInternal => "Internal" | ReResponseTimeout => "ResponseTimeout"
    | ReNoConnection => "NoConnection" | ReShutdown => "Shutdown"
    end%string.
Proof. exact P.class_of_task_names. Qed.
Print Assumptions C18_system_client_task_errors.

(* ---- exactly once, under every interleaving (C18_once composed with C10) ---- *)
(* es ranges over ALL event lists of the task model (submits in any style incl. SFfi with a full or closed queue, enable /
   disable, shutdown, dropped handles, abort, connects, frames, garbage, EOF, write faults, timers ...). The C callback of a
   request submitted through the C ABI never fires twice ... *)
Theorem C18_system_client_once_at_most : forall ft kind ex cfg hn mt rmin rmax es,
  shape_ok ft -> promise_drop_error kind = Some RRE_Shutdown ->
  NoDup (P10.all_accepted cfg (CT.init hn mt rmin rmax) es) ->
  forall id, (List.length (c_callbacks ft kind ex (snd (CT.run cfg (CT.init hn mt rmin rmax) es)) id) <= 1)%nat.
Proof. exact P.c_once_at_most. Qed.
Print Assumptions C18_system_client_once_at_most.

(* ... while the task runs an accepted request has fired once or is still pending; once nothing is pending (in particular
   when the task is gone) every accepted request's callback has fired EXACTLY once, with the same-named counterpart of
   the task's result, and no other callback has fired *)
Theorem C18_system_client_once : forall ft kind ex cfg hn mt rmin rmax es,
  shape_ok ft -> promise_drop_error kind = Some RRE_Shutdown ->
  NoDup (P10.all_accepted cfg (CT.init hn mt rmin rmax) es) ->
  CT.pending (fst (CT.run cfg (CT.init hn mt rmin rmax) es)) = [] ->
  forall id,
    (In id (P10.all_accepted cfg (CT.init hn mt rmin rmax) es) ->
       exists ev, c_callbacks ft kind ex (snd (CT.run cfg (CT.init hn mt rmin rmax) es)) id = [ev] /\ ev <> ShapeUnknown /\
                  exists res, In (CT.OComplete id res) (snd (CT.run cfg (CT.init hn mt rmin rmax) es)) /\ ev = P.cb_of ex res) /\
    (~ In id (P10.all_accepted cfg (CT.init hn mt rmin rmax) es) ->
       c_callbacks ft kind ex (snd (CT.run cfg (CT.init hn mt rmin rmax) es)) id = []).
Proof. exact P.c_once_terminal. Qed.
Print Assumptions C18_system_client_once.

Theorem C18_system_client_once_done : forall ft kind ex cfg hn mt rmin rmax es,
  shape_ok ft -> promise_drop_error kind = Some RRE_Shutdown ->
  NoDup (P10.all_accepted cfg (CT.init hn mt rmin rmax) es) ->
  CT.ph (fst (CT.run cfg (CT.init hn mt rmin rmax) es)) = CT.PDone ->
  forall id,
    (In id (P10.all_accepted cfg (CT.init hn mt rmin rmax) es) ->
       exists ev, c_callbacks ft kind ex (snd (CT.run cfg (CT.init hn mt rmin rmax) es)) id = [ev] /\ ev <> ShapeUnknown /\
                  exists res, In (CT.OComplete id res) (snd (CT.run cfg (CT.init hn mt rmin rmax) es)) /\ ev = P.cb_of ex res) /\
    (~ In id (P10.all_accepted cfg (CT.init hn mt rmin rmax) es) ->
       c_callbacks ft kind ex (snd (CT.run cfg (CT.init hn mt rmin rmax) es)) id = []).
Proof. exact P.c_once_done. Qed.
Print Assumptions C18_system_client_once_done.

Theorem C18_system_client_once_accounted : forall ft kind ex cfg hn mt rmin rmax es,
  shape_ok ft -> promise_drop_error kind = Some RRE_Shutdown ->
  NoDup (P10.all_accepted cfg (CT.init hn mt rmin rmax) es) ->
  forall id,
    (In id (P10.all_accepted cfg (CT.init hn mt rmin rmax) es) ->
       (exists ev, c_callbacks ft kind ex (snd (CT.run cfg (CT.init hn mt rmin rmax) es)) id = [ev] /\ ev <> ShapeUnknown) \/
       (c_callbacks ft kind ex (snd (CT.run cfg (CT.init hn mt rmin rmax) es)) id = [] /\
        In id (CT.pending (fst (CT.run cfg (CT.init hn mt rmin rmax) es))))) /\
    (~ In id (P10.all_accepted cfg (CT.init hn mt rmin rmax) es) ->
       c_callbacks ft kind ex (snd (CT.run cfg (CT.init hn mt rmin rmax) es)) id = []).
Proof. exact P.c_once_accounted. Qed.
Print Assumptions C18_system_client_once_accounted.

(* the hypotheses on ft / kind hold for every C call (generated FutureType shapes and promise Drop impls) *)
Theorem C18_system_client_once_hypotheses :
  (forall cc, shape_ok (ft_of cc)) /\ (forall ft, In ft future_types -> shape_ok ft) /\
  (forall cc, promise_drop_error (promise_kind (channel_method_of (c_name cc))) = Some RRE_Shutdown).
Proof. exact P.c_once_hypotheses. Qed.
Print Assumptions C18_system_client_once_hypotheses.
