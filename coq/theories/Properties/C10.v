(* C10 - Every client request completes exactly once, under every interleaving.
   Only statements, closed by `exact`, each followed by Print Assumptions.
   The model is the transition system of Model/ClientTask.v; `es` ranges over ALL lists of events
   (submit in any style, enable, disable, set-decode, shutdown, drop handle, abort, connect results,
   frames / partial frames / garbage / EOF / read error, write faults and delays, timer, tick, and
   the recv step of the task in any position: every interleaving of queueing and processing).
   pending s = in flight ++ queued ++ senders waiting for a queue slot;
   accepted s e = the request id a Submit event introduces (made through a live handle; after the
   task is gone it completes at once with Shutdown). *)
From Coq Require Import NArith List Permutation.
From Rodbus Require Import Model.Retry Spec.Lifecycle Spec.ClientSpec Gen.SessionErrors Model.ClientTask Proofs.ClientBase Proofs.C10Proofs.
Import ListNotations.
Local Open Scope N_scope.

(* the conservation law: a step neither loses nor duplicates a request *)
Theorem C10_step_conserve : forall cfg s e, done_empty s ->
  let '(s', o) := step cfg s e in
  Permutation (pending s' ++ completed o) (pending s ++ accepted s e) /\ done_empty s'.
Proof. exact step_conserve. Qed.
Print Assumptions C10_step_conserve.

Theorem C10_run_conserve : forall cfg es s, done_empty s ->
  let '(s', o) := run cfg s es in
  Permutation (pending s' ++ completed o) (pending s ++ all_accepted cfg s es) /\ done_empty s'.
Proof. exact run_conserve. Qed.
Print Assumptions C10_run_conserve.

(* never completed twice *)
Theorem C10_at_most_once : forall cfg hn mt rmin rmax es,
  NoDup (all_accepted cfg (init hn mt rmin rmax) es) -> NoDup (completed (snd (run cfg (init hn mt rmin rmax) es))).
Proof. exact at_most_once. Qed.
Print Assumptions C10_at_most_once.

(* never lost: an accepted request has completed or is still queued / waiting for a slot / in flight *)
Theorem C10_accounted : forall cfg hn mt rmin rmax es id,
  NoDup (all_accepted cfg (init hn mt rmin rmax) es) -> In id (all_accepted cfg (init hn mt rmin rmax) es) ->
  In id (completed (snd (run cfg (init hn mt rmin rmax) es))) \/ In id (pending (fst (run cfg (init hn mt rmin rmax) es))).
Proof. exact accounted. Qed.
Print Assumptions C10_accounted.

(* a completed request is no longer pending, and only submitted requests complete *)
Theorem C10_completed_is_final : forall cfg hn mt rmin rmax es id,
  NoDup (all_accepted cfg (init hn mt rmin rmax) es) ->
  In id (completed (snd (run cfg (init hn mt rmin rmax) es))) ->
  ~ In id (pending (fst (run cfg (init hn mt rmin rmax) es))) /\ In id (all_accepted cfg (init hn mt rmin rmax) es).
Proof. exact not_both. Qed.
Print Assumptions C10_completed_is_final.

(* once nothing is pending, submitted = completed; a terminated (or aborted) task has nothing pending *)
Theorem C10_terminal : forall cfg hn mt rmin rmax es,
  NoDup (all_accepted cfg (init hn mt rmin rmax) es) ->
  (pending (fst (run cfg (init hn mt rmin rmax) es)) = [] ->
     forall id, In id (all_accepted cfg (init hn mt rmin rmax) es) <-> In id (completed (snd (run cfg (init hn mt rmin rmax) es)))) /\
  (ph (fst (run cfg (init hn mt rmin rmax) es)) = PDone -> pending (fst (run cfg (init hn mt rmin rmax) es)) = []).
Proof. exact terminal. Qed.
Print Assumptions C10_terminal.

Theorem C10_submit_accepted : forall s r st, (handles s > 0)%nat -> accepted s (EvSubmit (CReq r) st) = [rq_id r].
Proof. exact submit_accepted. Qed.
Print Assumptions C10_submit_accepted.

(* not left pending forever: an in-flight request has a finite deadline and the timer step at that
   instant completes it; a write in progress ends; a listening phase takes the request at the head
   of its queue *)
Theorem C10_no_stuck_in_flight : forall cfg s r tx d, ph s = PInFlight r tx d ->
  let s1 := fst (step cfg s (EvTick (fire cfg d - now s))) in
  In (rq_id r) (completed (snd (step cfg s1 EvTimer))).
Proof. exact inflight_not_stuck. Qed.
Print Assumptions C10_no_stuck_in_flight.

(* a write in progress ends however long the transport takes nothing (a peer that does not read): when the clock reaches
   the timer instant of the transmission bound (write start + request timeout, `wdl`) the timer step finds the write
   done - the request is then in flight - or completes the request; no release of the transport is needed *)
Theorem C10_no_stuck_writing : forall cfg s r tx u, ph s = PWriting r tx u ->
  let s1 := fst (step cfg s (EvTick (fire cfg (wdl s) - now s))) in
  (exists d, ph (fst (step cfg s1 EvTimer)) = PInFlight r tx d) \/ In (rq_id r) (completed (snd (step cfg s1 EvTimer))).
Proof. exact writing_not_stuck. Qed.
Print Assumptions C10_no_stuck_writing.

(* a slow write on a transport that is not parked is done at its own instant *)
Theorem C10_slow_write_done : forall cfg s r tx u, ph s = PWriting r tx u -> wpark s = 0%nat ->
  let s1 := fst (step cfg s (EvTick (fire cfg u - now s))) in
  exists d, ph (fst (step cfg s1 EvTimer)) = PInFlight r tx d.
Proof. exact slow_write_done. Qed.
Print Assumptions C10_slow_write_done.

(* the error tells what happened (see `explains` in Proofs/C10Proofs.v, repeated here in words):
   NoConnection    <-> the request was taken from the queue by a not-connected phase
   ResponseTimeout <-> the deadline branch of the outstanding request, at or after its timer instant
   Io / BadFrame   <-> the read error / EOF / failed write / write not done at its bound (write start + request
                       timeout) / rejected header that ended that connection
                       (the same step reports the session end with that reason)
   Ok / Exception / BadResponse <-> the frame carrying the outstanding transaction id
   BadRequest      <-> rejected by the encoder when taken from the queue while connected
   Shutdown        <-> the task is gone after this step (terminated, aborted, was gone already), or the
                       submitting try_send itself was rejected (full queue)
   Internal        never *)
Theorem C10_class : forall cfg s e id res, In (OComplete id res) (snd (step cfg s e)) ->
  explains cfg s e (fst (step cfg s e)) (snd (step cfg s e)) id res.
Proof. exact step_class. Qed.
Print Assumptions C10_class.

(* non-vacuity: shutdown queued behind an in-flight request with more requests behind it *)
Example C10_nonvacuous :
  let cfg := {| cfg_cap := 4; cfg_res := 1 |} in
  let rq i := CReq {| rq_id := i; rq_kind := KRead; rq_timeout := 100 |} in
  let r := run cfg (init 1 None 5 9)
        [EvSubmit CEnable SFuture; EvRecv; EvConnect true; EvSubmit (rq 1%nat) SFuture; EvRecv; EvSubmit CShutdown SFuture;
         EvSubmit (rq 2%nat) SCallback; EvSubmit (rq 3%nat) SFfi; EvFrame 0 RpGenuine; EvRecv; EvSubmit (rq 4%nat) SFfi] in
  completed (snd r) = [1; 2; 3; 4]%nat /\ ph (fst r) = PDone /\ pending (fst r) = [].
Proof. vm_compute. repeat split. Qed.
