(* C09 - TLS admits only authenticated peers at or above the minimum protocol version.
   Only statements, closed by `exact`, each followed by Print Assumptions.
   Tables: Gen/TlsVersions.v, Gen/TlsModes.v are regenerated from the Rust source on every run, so
   these theorems are re-checked against what the code says now. Certificate validity itself
   (chain, signatures, validity period, name matching, byte comparison) is rustls / webpki /
   sfio-rustls-config's: it enters as oracles (cv, nv, sv) with the stated hypotheses. *)
From Coq Require Import List String Bool.
From Rodbus Require Import Base.Outcome Spec.TlsSpec Gen.TlsVersions Gen.TlsModes Model.Tls Proofs.TlsProofs.
Import ListNotations.

(* a configured minimum enables exactly the versions at or above it (this is what F2 broke) *)
Theorem C09_versions : forall m v, enabled (versions_of m) v = true <-> vle (min_meaning m) v = true.
Proof. exact versions_correct. Qed.
Print Assumptions C09_versions.

(* never negotiated below the minimum; always negotiated when the peer offers a version at or above it *)
Theorem C09_never_below_minimum : forall m p v, negotiate (versions_of m) p = Some v ->
  vle (min_meaning m) v = true /\ offered p v = true.
Proof. exact never_below_minimum. Qed.
Print Assumptions C09_never_below_minimum.

Theorem C09_always_at_or_above_minimum : forall m p v, offered p v = true -> vle (min_meaning m) v = true ->
  exists v', negotiate (versions_of m) p = Some v'.
Proof. exact always_at_or_above_minimum. Qed.
Print Assumptions C09_always_at_or_above_minimum.

(* certificate mode -> verifier, server side (Rust constructor; the C ABI forwards mode and version) *)
Theorem C09_server_mode : forall cv nv sv m c,
  verifier_accepts cv nv sv (server_new m) c = match mode_meaning m with ModeAuthority => cv c | ModeSelfSigned => sv c end
  /\ snd (server_new m) = true.
Proof. exact server_mode_correct. Qed.
Print Assumptions C09_server_mode.

(* client side: authority mode checks the chain and, iff a server name is configured, the name;
   self-signed mode uses the byte-identical verifier; the minimum version is forwarded *)
Theorem C09_client_mode : forall cv nv sv m name_given c,
  verifier_accepts cv nv sv (client_use m name_given) c =
    match mode_meaning m with
    | ModeAuthority => cv c && (if name_given then nv c else true)
    | ModeSelfSigned => sv c
    end
  /\ snd (client_use m name_given) = true.
Proof. exact client_mode_correct. Qed.
Print Assumptions C09_client_mode.

Theorem C09_legacy_client_new : forall m, client_new m = client_use m true.
Proof. exact legacy_client_new. Qed.
Print Assumptions C09_legacy_client_new.

Theorem C09_ffi_client : forall m name_given, ffi_client m name_given = (client_use m name_given, true).
Proof. exact ffi_client_correct. Qed.
Print Assumptions C09_ffi_client.

Theorem C09_ffi_tables :
  ffi_min_tls_version = [("V12", "V1_2"); ("V13", "V1_3")]%string /\
  ffi_certificate_mode = [("AuthorityBased", "AuthorityBased"); ("SelfSigned", "SelfSigned")]%string /\
  ffi_server_forwards_min_version = true /\ ffi_server_forwards_certificate_mode = true /\
  ffi_server_with_authz_handler_spawns = "spawn_tls_server_task_with_authz"%string /\
  ffi_server_without_authz_handler_spawns = "spawn_tls_server_task"%string /\
  client_connects_with_configured_name = true.
Proof. exact ffi_tables_correct. Qed.
Print Assumptions C09_ffi_tables.

(* the role is exactly the single Modbus role extension; none or several are refused *)
Theorem C09_role : forall l r, extract_role (Some l) = Ok r <-> (In (ModbusRole r) l /\ role_count l = 1).
Proof. exact role_exactly_one. Qed.
Print Assumptions C09_role.

Theorem C09_role_no_extensions : forall r, extract_role None <> Ok r.
Proof. exact role_none_refused. Qed.
Print Assumptions C09_role_no_extensions.

Theorem C09_role_agrees_with_spec : forall c r, extract_role (cert_exts c) = Ok r <-> single_role c = Some r.
Proof. exact role_agrees_with_spec. Qed.
Print Assumptions C09_role_agrees_with_spec.

(* admission, every cell of the grid at once: for every verifier triple that computes the ground
   truth, every minimum version, mode, authorization setting, name setting and every peer, the
   endpoint's decision is the Spec's *)
Theorem C09_server_admission : forall cv nv sv,
  (forall c, cv c = chains_to_authority c && within_validity c) ->
  (forall c, sv c = identical_to_configured c && within_validity c) ->
  forall min mode authz ng p,
  server_handshake cv nv sv min mode authz p = expected (endpoint_of ServerSide min mode authz ng) p.
Proof. exact server_admission. Qed.
Print Assumptions C09_server_admission.

Theorem C09_client_admission : forall cv nv sv,
  (forall c, cv c = chains_to_authority c && within_validity c) ->
  (forall c, nv c = name_matches c) ->
  (forall c, sv c = identical_to_configured c && within_validity c) ->
  forall min mode authz ng p,
  client_handshake cv nv sv min mode ng p = expected (endpoint_of ClientSide min mode authz ng) p.
Proof. exact client_admission. Qed.
Print Assumptions C09_client_admission.

(* and that decision is one the property allows: valid certificate, offered version at or above
   the minimum, role = the single role extension in authorization mode; refused only for an
   invalid certificate, no admissible version, or a missing / ambiguous role *)
Theorem C09_allowed : forall s min mode authz ng p,
  allowed (endpoint_of s min mode authz ng) p (handshake s min mode authz ng p).
Proof. exact handshake_allowed. Qed.
Print Assumptions C09_allowed.

(* no Modbus byte is processed before the handshake (incl. role extraction) has succeeded *)
Theorem C09_no_bytes_before : forall pre post,
  forallb (fun e => negb (establishes e)) pre = true ->
  (exists rest, snd (srun AwaitHandshake (pre ++ post)) = snd (srun AwaitHandshake pre) ++ rest) /\
  forall l, In l (snd (srun AwaitHandshake pre)) -> is_modbus_activity l = false.
Proof. exact no_bytes_before. Qed.
Print Assumptions C09_no_bytes_before.

Theorem C09_auth_role_is_handshake_role : forall evs ph role n,
  In (AuthCall role n) (snd (srun ph evs)) ->
  ph = InSession (Some role) \/ (ph = AwaitHandshake /\ exists v, In (HandshakeDone (Established v (Some role))) evs).
Proof. exact auth_role_is_handshake_role. Qed.
Print Assumptions C09_auth_role_is_handshake_role.

(* non-vacuity *)
Example C09_cell_ok :
  handshake ServerSide V1_3 AuthorityBased true false
    {| offers12 := true; offers13 := true;
       presented := {| chains_to_authority := true; identical_to_configured := false; within_validity := true;
                       name_matches := false; cert_exts := Some [OtherExtension 1; ModbusRole "operator"] |} |}
  = Established TLS13 (Some "operator"%string).
Proof. vm_compute. reflexivity. Qed.

Example C09_cell_f2 :
  handshake ServerSide V1_3 AuthorityBased true false
    {| offers12 := true; offers13 := false;
       presented := {| chains_to_authority := true; identical_to_configured := false; within_validity := true;
                       name_matches := false; cert_exts := Some [ModbusRole "operator"] |} |}
  = Refused.
Proof. vm_compute. reflexivity. Qed.

Example C09_two_roles_refused : extract_role (Some [ModbusRole "a"; OtherExtension 3; ModbusRole "b"]) = Err MoreThanOneRole.
Proof. vm_compute. reflexivity. Qed.

Example C09_quiet_before_handshake :
  snd (srun AwaitHandshake [BytesFromPeer 12; HandshakeDone Refused; BytesFromPeer 12]) = [Dropped]
  /\ snd (srun AwaitHandshake [BytesFromPeer 12; HandshakeDone (Established TLS13 (Some "operator"%string)); BytesFromPeer 12])
     = [FrameParsed 12; AuthCall "operator" 12; HandlerCall 12].
Proof. vm_compute. split; reflexivity. Qed.
