(* C01 for the server as a whole WITH its command channel: chunked byte stream -> production reader
   -> SessionTask::run with ChangeDecoding / Shutdown / closed channel / pending reply writes.
   Composition of the reader refinement (C05/C06), the session refinement (C01_frame) and the
   command layer (C01_Commands). Only statements, closed by `exact`, each followed by Print Assumptions.

   The schedule of select! outcomes is a list of CNext (run_one's reader branch: it gets the next
   frame the reader delivers) | CCommand c | CClosed | CWriteDone. The statement is over the frames
   the reader delivers from the stream; that a next_frame cancelled by the command branch loses no
   bytes is the reader's cancel-safety (C05/C06). *)
From Coq Require Import NArith List.
From Rodbus Require Base.Frame Base.ServerTypes Base.ServerRun Model.Reader Model.Server Model.ServerRun Spec.Framing Spec.Modbus
  Model.SystemServer Model.SystemServerRun Spec.SystemSpec Proofs.SystemProofs Proofs.SystemRunProofs.
Import ListNotations.
Module F := Rodbus.Base.Frame.
Module S := Rodbus.Base.ServerTypes.
Module R := Rodbus.Base.ServerRun.
Import SystemServer SystemServerRun SystemSpec SystemRunProofs.

(* TCP / TLS: every byte stream, every cut into non-empty reads, every schedule of select! outcomes,
   every handler machine, policy and unit map: the whole server = cut by the framing rule, then the
   same schedule over the reference Modbus server *)
Theorem C01_system_commands_tcp : forall (St : Type) (H : S.handler St) a units d s chunks fi cevs,
  Framing.bytes s -> concat chunks = s -> Forall (fun c => c <> []) chunks ->
  server_system_run H S.LTcp a units d chunks fi cevs = ref_server_system_run H S.LTcp a units d s fi cevs.
Proof. exact @server_system_run_tcp. Qed.
Print Assumptions C01_system_commands_tcp.

Theorem C01_system_commands_rtu : forall (St : Type) (H : S.handler St) a units d s chunks fi cevs,
  Framing.bytes s -> concat chunks = s -> Forall (fun c => c <> []) chunks ->
  server_system_run H S.LRtu a units d chunks fi cevs = ref_server_system_run H S.LRtu a units d s fi cevs.
Proof. exact @server_system_run_rtu. Qed.
Print Assumptions C01_system_commands_rtu.

Theorem C01_system_commands_chunking_independent : forall (St : Type) (H : S.handler St) l a units d c1 c2 fi cevs,
  Framing.bytes (concat c1) -> concat c1 = concat c2 -> Forall (fun c => c <> []) c1 -> Forall (fun c => c <> []) c2 ->
  server_system_run H l a units d c1 fi cevs = server_system_run H l a units d c2 fi cevs.
Proof. exact @server_system_run_chunking_independent. Qed.
Print Assumptions C01_system_commands_chunking_independent.

(* decode level changes at any positions of the schedule: same replies, calls, states, same ending *)
Theorem C01_system_commands_unobservable : forall (St : Type) (H : S.handler St) l a units d d' chunks fi cevs,
  let x := server_system_run H l a units d chunks fi cevs in
  let y := server_system_run H l a units d' chunks fi (cstrip cevs) in
  R.observable (fst x) = R.observable (fst y) /\ snd x = snd y.
Proof. exact @server_system_run_unobservable. Qed.
Print Assumptions C01_system_commands_unobservable.
