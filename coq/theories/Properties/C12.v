(* C12 - Response timeouts fire exactly at the deadline; N in a row drop the connection.
   Only statements, closed by `exact`, each followed by Print Assumptions.
   `fire cfg d` = Spec.fires_at (cfg_res cfg) d is the instant the runtime's timer for deadline d
   fires: d itself for resolution 1 (C12_timer_resolution), the next multiple of the resolution
   otherwise (tokio's wheel: 1 ms).  All statements hold for every configuration and state. *)
From Coq Require Import NArith List Bool.
From Rodbus Require Import Model.Retry Spec.Lifecycle Spec.ClientSpec Gen.SessionErrors Model.ClientTask Model.ClientEager
  Proofs.ClientBase Proofs.C11Proofs Proofs.C12Proofs.
Import ListNotations.
Local Open Scope N_scope.

(* --- exact deadline --- *)
(* the deadline of a transmitted request is the instant its write completed plus its own timeout *)
Theorem C12_deadline : forall cfg s e id, In id (wire_ids (snd (step cfg s e))) ->
  exists r tx, ph (fst (step cfg s e)) = PInFlight r tx (now s + rq_timeout r) /\ rq_id r = id.
Proof. exact deadline_is_write_plus_timeout. Qed.
Print Assumptions C12_deadline.

(* the deadline branch completes the in-flight request with Timeout exactly from the instant the
   timer fires; strictly before it the branch is not enabled (no output, no state change) *)
Theorem C12_exact_timer : forall cfg s r tx d, ph s = PInFlight r tx d ->
  (fire cfg d <= now s -> exists o, snd (step cfg s EvTimer) = OComplete (rq_id r) (RErr ReResponseTimeout) :: o) /\
  (now s < fire cfg d -> step cfg s EvTimer = (s, [])).
Proof. exact timer_exact. Qed.
Print Assumptions C12_exact_timer.

(* a complete frame with the outstanding tx id completes the request with the reply's result, never
   with Timeout, at whatever instant it is taken while the request is still in flight (at an
   instant >= the deadline both this step and the timer step are enabled: both outcomes allowed) *)
Theorem C12_exact_frame : forall cfg s r tx d k, ph s = PInFlight r tx d -> partial s = None ->
  exists o, snd (step cfg s (EvFrame tx k)) = OComplete (rq_id r) (respond k) :: o /\ respond k <> RErr ReResponseTimeout.
Proof. exact frame_completes. Qed.
Print Assumptions C12_exact_frame.

(* under the eager schedule (a due timer fires before the next environment event is taken - what
   the real runtime does) a request that is still in flight is strictly before its deadline: so a
   reply is accepted iff it completes strictly before the deadline, and the Timeout completion
   happens at the first instant at or after it *)
Theorem C12_exact_eager : forall cfg es s, es <> [] ->
  let '(s', o, ok) := run_eager cfg s es in ok = true ->
  forall r tx d, ph s' = PInFlight r tx d -> now s' < fire cfg d.
Proof. exact eager_in_flight_before_deadline. Qed.
Print Assumptions C12_exact_eager.

Theorem C12_timer_resolution : (forall d, fires_at 1 d = d) /\
  (forall res d, 1 <= res -> d <= fires_at res d < d + res /\ fires_at res d mod res = 0).
Proof. exact (conj fires_at_exact fires_at_bounds). Qed.
Print Assumptions C12_timer_resolution.

(* a reply split across the deadline: the first part completes nothing, the timer completes the
   request with Timeout, and the remainder is consumed later without completing anything
   (C11_idle_drop / C11_mismatch state this for the tail) *)
Theorem C12_partial : forall cfg s r tx d k, ph s = PInFlight r tx d -> partial s = None ->
  step cfg s (EvHead tx k) = (set_partial s (Some (tx, k)), []).
Proof. exact head_is_silent. Qed.
Print Assumptions C12_partial.

(* --- usable after a timeout --- *)
Theorem C12_usable : forall cfg s r tx d, ph s = PInFlight r tx d -> fire cfg d <= now s ->
  snd (tc_increment (tcount s)) = false ->
  step cfg s EvTimer = (set_tc (set_ph s PIdle) (fst (tc_increment (tcount s))), [OComplete (rq_id r) (RErr ReResponseTimeout)]).
Proof. exact timeout_usable. Qed.
Print Assumptions C12_usable.

(* --- N consecutive timeouts --- *)
(* for every limit m >= 1 and every outcome list over {timeout, success, exception, bad reply}:
   the counter as driven by run_one_request ends the session exactly at the Spec's drop index
   (first position that completes m timeouts in a row); `c` timeouts already counted *)
Theorem C12_counter : forall m, 1 <= m -> m <= usize_max ->
  forall os c, c < m -> ends_at (TcEnabled c m) os = drop_index m c os.
Proof. exact counter_spec. Qed.
Print Assumptions C12_counter.

Theorem C12_counter_from_start : forall m os, 1 <= m -> m <= usize_max ->
  ends_at (tc_new (Some m)) os = drop_index_opt (Some m) os.
Proof. exact counter_from_new. Qed.
Print Assumptions C12_counter_from_start.

(* without a limit, timeouts never drop the connection *)
Theorem C12_unlimited : forall os, ends_at (tc_new None) os = drop_index_opt None os.
Proof. exact counter_unlimited. Qed.
Print Assumptions C12_unlimited.

(* the task uses exactly this counter: a finished request with outcome oc makes one tc_step; the
   session ends (MaxTimeouts) iff tc_step says so, otherwise the task is idle on the same connection *)
Theorem C12_counter_in_task : forall s r oc,
  finish s r (outcome_result oc) =
  let '(t', stop) := tc_step (tcount s) oc in
  if stop then let '(s', o) := end_session (set_tc (set_ph s PIdle) t') SeMaxTimeouts in (s', [OComplete (rq_id r) (outcome_result oc)] ++ o)
  else (set_tc (set_ph s PIdle) t', [OComplete (rq_id r) (outcome_result oc)]).
Proof. exact finish_counter. Qed.
Print Assumptions C12_counter_in_task.

(* the count starts from zero on every connection (and the reader starts empty: finding F5) *)
Theorem C12_reset_at_start : forall cfg s s1 d, ph s = PConnecting -> retry_call s Reset = Some (s1, d) ->
  let s' := fst (step cfg s (EvConnect true)) in
  ph s' = PIdle /\ tcount s' = tc_reset (tcount s) /\ partial s' = None.
Proof. exact reset_at_start. Qed.
Print Assumptions C12_reset_at_start.

(* --- the transmission is bounded too, and its bound is not a response timeout ---
   execute_request: timeout(request.timeout, io.write(..)), then `deadline = Instant::now() + request.timeout`.
   The bound is set when the write begins (write start + request timeout) ... *)
Theorem C12_write_bound_set : forall s r, ph s = PIdle ->
  forall r' tx u, ph (fst (transmit s r)) = PWriting r' tx u -> r' = r /\ wdl (fst (transmit s r)) = now s + rq_timeout r.
Proof. exact write_bound_set. Qed.
Print Assumptions C12_write_bound_set.

(* ... stays as it is while that write is in progress, under every event ... *)
Theorem C12_write_bound_kept : forall cfg s e r tx u, ph s = PWriting r tx u ->
  forall r' tx' u', ph (fst (step cfg s e)) = PWriting r' tx' u' -> (r', tx', u') = (r, tx, u) /\ wdl (fst (step cfg s e)) = wdl s.
Proof. exact write_bound_kept. Qed.
Print Assumptions C12_write_bound_kept.

(* ... and when the write is not done at its timer instant the request fails with Io and the session ends with IoError -
   whatever the timeout counter says and without touching it (it does not count towards "N in a row"; the connection
   is dropped anyway); before that instant the branch is not enabled *)
Theorem C12_write_timeout_is_io : forall cfg s r tx u, ph s = PWriting r tx u ->
  Nat.eqb (wpark s) 0 && (fire cfg u <=? now s) = false ->
  (fire cfg (wdl s) <= now s ->
     step cfg s EvTimer = (let '(s', o) := end_session (set_ph s PIdle) SeIoError in (s', [OComplete (rq_id r) (RErr ReIo)] ++ o))) /\
  (now s < fire cfg (wdl s) -> step cfg s EvTimer = (s, [])).
Proof. exact write_timeout_exact. Qed.
Print Assumptions C12_write_timeout_is_io.

(* a write that can finish does - also at or after the bound - and the reply deadline counts from the END of the write
   (C12_deadline); releasing the transport finishes a parked write at once *)
Theorem C12_write_done_first : forall cfg s r tx u, ph s = PWriting r tx u -> wpark s = 0%nat -> fire cfg u <= now s ->
  step cfg s EvTimer = (set_ph s (PInFlight r tx (now s + rq_timeout r)), [OWire tx (rq_id r)]).
Proof. exact write_done_first. Qed.
Print Assumptions C12_write_done_first.

Theorem C12_release_finishes_write : forall cfg s r tx u, ph s = PWriting r tx u -> wpark s = 1%nat -> fire cfg u <= now s ->
  step cfg s EvWriteRelease = (set_ph (set_wpark s 0) (PInFlight r tx (now s + rq_timeout r)), [OWire tx (rq_id r)]).
Proof. exact release_finishes. Qed.
Print Assumptions C12_release_finishes_write.

(* non-vacuity: limit 1; a parked write times out at 0 + 50 (Io, not counted: the session ends with IoError, not
   MaxTimeouts); on the next connection a write parked for 30 is released, the reply deadline is 130 + 50 *)
Example C12_write_example :
  let cfg := {| cfg_cap := 4; cfg_res := 1 |} in
  let rq i := CReq {| rq_id := i; rq_kind := KRead; rq_timeout := 50 |} in
  snd (run cfg (init 1 (Some 1) 20 40)
    [EvSubmit CEnable SFuture; EvRecv; EvConnect true; EvWritePark; EvSubmit (rq 1%nat) SFuture; EvRecv; EvTick 49; EvTimer; EvTick 1; EvTimer;
     EvWriteRelease; EvTick 20; EvTimer; EvConnect true; EvTick 30; EvWritePark; EvSubmit (rq 2%nat) SFuture; EvRecv; EvTick 30; EvWriteRelease;
     EvTick 49; EvTimer; EvTick 1; EvTimer])
  = [OListen LConnecting; ODial; OListen LConnected; OStamp 0 1; OComplete 1 (RErr ReIo); OEnd SeIoError; OListen (LWaitDisc 20);
     OListen LConnecting; ODial; OListen LConnected; OStamp 1 2; OWire 1 2; OComplete 2 (RErr ReResponseTimeout); OEnd SeMaxTimeouts; OListen (LWaitDisc 20)].
Proof. vm_compute. reflexivity. Qed.

(* non-vacuity *)
Example C12_counter_example :
  ends_at (tc_new (Some 2)) [Timeout; Success; Timeout; BadReply; Timeout; Timeout; Timeout] = Some 5%nat /\
  drop_index_opt (Some 2) [Timeout; Success; Timeout; BadReply; Timeout; Timeout; Timeout] = Some 5%nat /\
  fires_at 1000000 1500001 = 2000000.
Proof. vm_compute. repeat split. Qed.
