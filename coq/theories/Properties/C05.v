(* C05 - placeholder while the proofs are being ported *)
From Coq Require Import NArith List String.
From Rodbus Require Import Base.Frame Model.Reader Spec.Framing Model.FramingEval.
Import ListNotations.
Local Open Scope N_scope.
Example C05_nonvacuous :
  eval_case (KTcp, false, FinEof, [[0;7;0]; [0;0;4;42;1;202]; [254;0;8;0;0;0;1;9]; [0;9]])
  = "F(7,42,0,01CAFE) F(8,9,0,) Io(UnexpectedEof)|F(7,42,0,01CAFE) F(8,9,0,) Io(UnexpectedEof)"%string.
Proof. vm_compute. reflexivity. Qed.
