(* C05 - MBAP framing is segmentation-independent and rejects malformed headers.
   Only statements, closed by `exact`, each followed by Print Assumptions.
   Model: Model/{Buffer,Mbap,Reader}.v (ReadBuffer indices, MbapParser, FramedReader::next_frame
   over a chunk schedule). Spec: Spec/Framing.v `ref_frames` (cut by the length field only). *)
From Coq Require Import NArith List.
From Rodbus Require Import Base.Outcome Base.Frame Model.Buffer Model.Mbap Model.Reader Spec.Framing Model.FramingEval
  Gen.Consts Gen.ParserShape Gen.ClientFatal Proofs.BufferProofs Proofs.ReaderGeneric Proofs.MbapProofs Proofs.C05Proofs Proofs.ShapeProofs.
Import ListNotations.

(* For EVERY byte stream s and EVERY way of cutting it into network reads (each read hands over
   1 <= k <= min(|chunk|, free buffer space) bytes), with the stream ending in EOF, an I/O error or
   silence: the reader delivers exactly the frames the length fields prescribe and stops with the
   same terminal error at the same point. No bound on sizes, counts or chunk lengths. *)
Theorem C05_chunking : forall (s : list N) (chunks : list (list N)) (fi : fin),
  concat chunks = s -> Forall (fun c => c <> []) chunks ->
  run_session KTcp false chunks fi = (map IFrame (fst (ref_frames s fi)), snd (ref_frames s fi)).
Proof. exact tcp_chunking. Qed.
Print Assumptions C05_chunking.

(* the same without any condition on the schedule: an empty chunk is a 0-byte read, i.e. the stream ends there with EOF *)
Theorem C05_chunking_any_schedule : forall (chunks : list (list N)) (fi : fin),
  run_session KTcp false chunks fi =
  (map IFrame (fst (ref_frames (fst (sched_stream chunks fi)) (snd (sched_stream chunks fi)))),
   snd (ref_frames (fst (sched_stream chunks fi)) (snd (sched_stream chunks fi)))).
Proof. exact tcp_any_schedule. Qed.
Print Assumptions C05_chunking_any_schedule.

Theorem C05_chunking_independent : forall c1 c2 fi,
  concat c1 = concat c2 -> Forall (fun c => c <> []) c1 -> Forall (fun c => c <> []) c2 ->
  run_session KTcp false c1 fi = run_session KTcp false c2 fi.
Proof. exact tcp_chunking_independent. Qed.
Print Assumptions C05_chunking_independent.

(* the Spec itself: a stream of complete, well-formed frames is cut into exactly those frames *)
Theorem C05_spec_frames : forall pre fs fi, framed pre fs -> ref_frames pre fi = (fs, end_of fi).
Proof. exact ref_frames_framed. Qed.
Print Assumptions C05_spec_frames.

(* After any number of complete frames, a header with protocol id <> 0, length 0 or length > 254
   ends the run exactly there with a BadFrame error (never an internal error), whatever follows
   it and however the stream is cut; the frames before it are all delivered. The session (server)
   / connection (client) then ends: SessionTask::run and ClientLoop::run return on that error. *)
Theorem C05_reject : forall pre fs h rest chunks fi,
  framed pre fs -> bad_header h -> concat chunks = pre ++ h ++ rest -> Forall (fun c => c <> []) chunks ->
  exists e, e <> InternalError /\ run_session KTcp false chunks fi = (map IFrame fs, EndBad e).
Proof. exact tcp_reject. Qed.
Print Assumptions C05_reject.

(* No byte lost or re-read, step by step: a parse call removes a prefix of the pending bytes and
   nothing else; a read appends a non-empty prefix of what the source offers behind the pending
   bytes and leaves the rest first in line. (C05_chunking is the end-to-end consequence.) *)
Theorem C05_no_loss_parse : forall st b st' b' r, wf b -> st_ok st -> mbap_parse st b = (st', b', r) ->
  exists k, k <= buf_len b /\ b' = consume k b /\ b_pend b = firstn k (b_pend b) ++ b_pend b' /\ wf b' /\ st_ok st'.
Proof. exact tcp_parse_consumes_prefix. Qed.
Print Assumptions C05_no_loss_parse.

Theorem C05_no_loss_read : forall b c, wf b -> buf_len b < cap -> c <> [] ->
  exists k b'', read_some b c = (b'', RsOk k (skipn k c)) /\ 1 <= k <= length c /\
                b_pend b'' ++ skipn k c = b_pend b ++ c /\ wf b''.
Proof. exact read_appends. Qed.
Print Assumptions C05_no_loss_read.

(* ... and over a whole next_frame call, for every chunk schedule: consumed ++ pending ++ undelivered is invariant *)
Theorem C05_no_loss : forall st b n fi r' n' res, wf b -> st_ok st ->
  next_frame (nf_fuel n) {| r_parser := PTcp st; r_buf := b |} n fi = (r', n', res) ->
  match res with
  | NfFrame _ | NfEnd (EndBad _) =>
      exists consumed, b_pend b ++ fst (sched_stream n fi) = consumed ++ b_pend (r_buf r') ++ fst (sched_stream n' fi)
  | _ => True
  end.
Proof. exact tcp_no_loss'. Qed.
Print Assumptions C05_no_loss.

(* The 1.5.0 buffer-shift bug class: whenever the parser asks for more bytes, fewer than
   `capacity` bytes are pending, so after reset / compaction the next read has room for >= 1 byte. *)
Theorem C05_never_full : forall st b st' b', wf b -> st_ok st -> mbap_parse st b = (st', b', Ok None) ->
  buf_len b' < cap /\
  forall c, c <> [] -> exists k b'', read_some b' c = (b'', RsOk k (skipn k c)) /\ 1 <= k <= length c.
Proof. exact tcp_never_full. Qed.
Print Assumptions C05_never_full.

(* CANCEL-SAFETY. reader.next_frame(..) is one branch of a tokio::select! in SessionTask::run_one,
   ClientLoop::poll and ClientLoop::execute_request; when another branch fires the future is dropped
   while it waits for bytes and a new call starts later from the reader's state. For EVERY reachable
   reader state and EVERY split n1 ++ n2 of a schedule: a call over n1 that is abandoned while waiting,
   followed by a fresh call over n2 from the reader it left behind, returns the same frame / error,
   the same reader and the same rest of the schedule as ONE uninterrupted call over n1 ++ n2. *)
Theorem C05_cancel_safe : forall st b n1 n2 fi r1 n1',
  wf b -> st_ok st ->
  next_frame (nf_fuel n1) {| r_parser := PTcp st; r_buf := b |} n1 FinPending = (r1, n1', NfEnd EndPending) ->
  next_frame (nf_fuel n2) r1 n2 fi = next_frame (nf_fuel (n1 ++ n2)) {| r_parser := PTcp st; r_buf := b |} (n1 ++ n2) fi /\
  n1' = [] /\ exists st1 b1, r1 = {| r_parser := PTcp st1; r_buf := b1 |} /\ wf b1 /\ st_ok st1.
Proof. exact tcp_cancel_safe. Qed.
Print Assumptions C05_cancel_safe.

(* ... and for whole sessions: abandoning the waiting call at EVERY chunk boundary (Model/Reader.run_cancel) changes nothing *)
Theorem C05_cancel_safe_session : forall chunks fi,
  run_cancel (reader_new KTcp) chunks fi = run_session KTcp false chunks fi.
Proof. exact tcp_cancel_safe_session. Qed.
Print Assumptions C05_cancel_safe_session.

(* COMPOSITIONALITY (Spec): the frames of s1 ++ s2 in terms of the frames of s1 alone, as if the stream
   paused after s1: if s1 ends inside (or exactly at the end of) a frame, what follows is read after the
   incomplete last frame `mbap_tail s1`; if s1 already contains a malformed header, s2 is never looked at *)
Theorem C05_spec_app : forall s1 s2 fi,
  ref_frames (s1 ++ s2) fi =
  match ref_frames s1 FinPending with
  | (fs1, EndPending) => (fs1 ++ fst (ref_frames (mbap_tail s1 ++ s2) fi), snd (ref_frames (mbap_tail s1 ++ s2) fi))
  | x => x
  end.
Proof. exact ref_frames_app. Qed.
Print Assumptions C05_spec_app.

(* COMPOSITIONALITY (reader): a connection that goes on. `tcp_represents r t`: the reader r is waiting and
   the future looks to it exactly as it looks to the Spec after the unconsumed bytes t. A fresh reader
   represents []; from a representing reader the run over ANY further schedule is the Spec on t ++ new
   bytes; and when that run ends waiting, the reader it leaves behind represents the Spec's new leftover.
   (Exchange after exchange on one connection: apply _step per exchange, _run for the last one.) *)
Theorem C05_continue_fresh : tcp_represents (reader_new KTcp) [].
Proof. exact tcp_represents_fresh. Qed.
Print Assumptions C05_continue_fresh.
Theorem C05_continue_run : forall r t n fi, tcp_represents r t ->
  run_reader (run_fuel r n) false r n fi =
    (map IFrame (fst (ref_frames (t ++ fst (sched_stream n fi)) (snd (sched_stream n fi)))),
     snd (ref_frames (t ++ fst (sched_stream n fi)) (snd (sched_stream n fi)))).
Proof. intros r t n fi H. rewrite ReaderGeneric.sched_stream_eq. exact (proj1 (tcp_run_represents r t n fi H)). Qed.
Print Assumptions C05_continue_run.
Theorem C05_continue_step : forall r t n r1 l1, tcp_represents r t ->
  run_reader_st (run_fuel r n) r n FinPending = (r1, (l1, EndPending)) ->
  tcp_represents r1 (mbap_tail (t ++ fst (sched_stream n FinPending))) /\
  l1 = map IFrame (fst (ref_frames (t ++ fst (sched_stream n FinPending)) FinPending)) /\
  snd (ref_frames (t ++ fst (sched_stream n FinPending)) FinPending) = EndPending.
Proof. intros r t n r1 l1 H E. rewrite ReaderGeneric.sched_stream_eq. exact (tcp_represents_step r t n r1 l1 H E). Qed.
Print Assumptions C05_continue_step.

(* PARSER SKELETON TIE. Gen/ParserShape.v lists, regenerated from tcp/frame.rs on every run, the reads and
   checks of MbapParser::parse_header and the steps of the two arms of MbapParser::parse IN THE CODE'S ORDER.
   The model's parser is the interpretation of those lists: header = four reads (7 bytes, all before any
   check), then protocol id, then length > MAX_LENGTH_FIELD, then length = 0; a re-ordered or dropped check in
   the code changes the generated list and these statements stop compiling. *)
Theorem C05_header_shape : forall h, length h = 7 -> hdr h = run_hsteps mbap_header_steps h hfields0.
Proof. exact mbap_header_shape. Qed.
Print Assumptions C05_header_shape.
Theorem C05_header_consumes : hsteps_read_bytes mbap_header_steps = Consts.mbap_header_length /\ no_read_after_check mbap_header_steps false = true.
Proof. exact mbap_header_consumes. Qed.
Print Assumptions C05_header_consumes.
Theorem C05_parser_shape : forall st b, wf b -> st_ok st ->
  mbap_parse st b =
  (let '(st', b', r) :=
     match st with
     | Header tx u n => run_header_arm mbap_header_arm tx u n (Header tx u n) b []
     | Begin => match run_begin_arm mbap_begin_arm b None with
                | inl res => res
                | inr (tx, u, n, b') => run_header_arm mbap_header_arm tx u n (Header tx u n) b' []
                end
     end in (st', b', lift_s r)).
Proof. exact mbap_model_shape. Qed.
Print Assumptions C05_parser_shape.

(* THE CLIENT ENDS THE CONNECTION AT A MALFORMED HEADER. Gen/ClientFatal.v lists, regenerated from client/task.rs
   SessionError::from_request_err, for every FrameParseError kind (and Io) whether a request error of that kind also
   ends the client session. Every one does; so after any complete frames a header with protocol id <> 0, length 0 or
   length > 254 makes the reader report BadFrame exactly there AND the client end the connection: nothing behind it
   is interpreted, in flight or idle, whatever follows. *)
Theorem C05_client_framing_errors_fatal : (forall k, frame_error_ends_session k = true) /\ io_error_ends_session = true.
Proof. exact client_framing_errors_fatal. Qed.
Print Assumptions C05_client_framing_errors_fatal.
Theorem C05_client_ends_at_malformed_header : forall pre fs h rest chunks fi,
  framed pre fs -> bad_header h -> concat chunks = pre ++ h ++ rest -> Forall (fun c => c <> []) chunks ->
  exists e, run_session KTcp false chunks fi = (map IFrame fs, EndBad e) /\ client_connection_survives (EndBad e) = false.
Proof. exact client_ends_at_malformed_header. Qed.
Print Assumptions C05_client_ends_at_malformed_header.

(* every error exit of the MBAP parser leaves it in its initial state (no stale-state analogue of the RTU parser's
   ReadFullBody after a too long frame; next_frame's parser.reset() on error is a no-op for MBAP) *)
Theorem C05_error_exit_state : forall st b st' b' e, wf b -> st_ok st -> mbap_parse st b = (st', b', Err e) -> st' = Begin.
Proof. exact mbap_error_leaves_begin. Qed.
Print Assumptions C05_error_exit_state.

(* Client role: ONE reader serves all connections of a channel and ClientLoop::run resets it when
   a connection starts (the repaired F5). Whatever state an earlier connection left behind, every
   connection's stream is cut on its own. *)
Theorem C05_client : forall conns r, is_tcp r ->
  client_connections true r conns =
  map (fun c => (map IFrame (fst (ref_frames (fst (sched_stream (fst c) (snd c))) (snd (sched_stream (fst c) (snd c))))),
                 snd (ref_frames (fst (sched_stream (fst c) (snd c))) (snd (sched_stream (fst c) (snd c)))))) conns.
Proof. exact client_every_connection_fresh. Qed.
Print Assumptions C05_client.

(* ... and without that reset the statement is false (the code before commit be7c4a6): connection 1
   dies after 9 of 11 reply bytes, connection 2 receives a correct reply and rejects it. *)
Theorem C05_client_stale_refuted : exists conns,
  client_connections false (reader_new KTcp) conns <>
  map (fun c => (map IFrame (fst (ref_frames (fst (sched_stream (fst c) (snd c))) (snd (sched_stream (fst c) (snd c))))),
                 snd (ref_frames (fst (sched_stream (fst c) (snd c))) (snd (sched_stream (fst c) (snd c)))))) conns.
Proof. exact client_stale_refuted. Qed.
Print Assumptions C05_client_stale_refuted.

(* non-vacuity *)
Example C05_nonvacuous :
  run_session KTcp false [[0;7;0]; [0;0;4;42;1;202]; [254;0;8;0;0;0;1;9]; [0;9]]%N FinEof
  = ([IFrame {| f_tx := Some 7%N; f_dest := 42%N; f_bcast := false; f_pdu := [1;202;254]%N |};
      IFrame {| f_tx := Some 8%N; f_dest := 9%N; f_bcast := false; f_pdu := [] |}], EndIo UnexpectedEof).
Proof. vm_compute. reflexivity. Qed.
Example C05_reject_nonvacuous :
  framed [0;1;0;0;0;2;9;7]%N [{| f_tx := Some 1%N; f_dest := 9%N; f_bcast := false; f_pdu := [7%N] |}] /\ bad_header [0;2;0;5;0;2;9]%N.
Proof.
  split.
  - exact (framed_cons 0 1 0 2 9 [7%N] [] [] eq_refl ltac:(cbn; repeat constructor) framed_nil).
  - exists 0%N, 2%N, 0%N, 5%N, 0%N, 2%N, 9%N. split; [reflexivity|]. left. discriminate.
Qed.
