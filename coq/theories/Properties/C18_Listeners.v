(* C18: the state listeners of the C ABI receive every notification the Rust API listener receives.
   Only statements, closed by `exact`, each followed by Print Assumptions. *)
From Coq Require Import NArith List String Bool.
From Rodbus Require Import Gen.FfiTables Spec.FfiSpec.
From Rodbus Require Proofs.FfiListenerProofs.
Import ListNotations.
Local Open Scope string_scope.

(* both adapters of ffi client.rs (ClientStateListener, PortStateListener; regenerated) hold only the C callbacks and
   forward every update unconditionally through the same-named conversion (C18_names): the C listener sees the sequence
   the Rust listener sees, repeated equal states (one Wait per failed attempt to open a serial port) included *)
Theorem C18_listeners_forward_every_update :
  map (fun r => (fst (fst r), listener_adapter_ok r)) listener_adapters = [("ClientStateListener", true); ("PortStateListener", true)].
Proof. exact Rodbus.Proofs.FfiListenerProofs.listeners_forward. Qed.
Print Assumptions C18_listeners_forward_every_update.

(* FfiChannel::enable / disable (regenerated) are nothing but the try_send of the setting, and FfiChannel has no field besides
   the queue sender: a call that returned Ok HAS queued the command, a call that returned TooManyRequests can simply be
   repeated - there is no remembered "enabled" state that could get out of step with the channel task *)
Theorem C18_settings_always_sent : ffi_channel_settings = ffi_settings_spec /\ ffi_channel_fields = ["tx"].
Proof. exact Rodbus.Proofs.FfiListenerProofs.settings_always_sent. Qed.
Print Assumptions C18_settings_always_sent.
