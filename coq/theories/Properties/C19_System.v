(* C19 at system level: the C-ABI point database behind the verified server core.

   Model/FfiServer.v instantiates the application interface of the server core (Base/ServerTypes.v `handler`,
   for which C01 / C02 / C17 are proved for EVERY handler state machine) with the RequestHandlerWrapper of
   ffi/rodbus-ffi/src/server.rs: unit state = (Database, application state), reads from the four maps,
   writes through the application's C callbacks (ARBITRARY functions W). The statements below are corollaries
   of C01_frame / C01_tcp / C01_rtu / C01_system_tcp / C01_system_rtu and C19_read_exception_iff &c.
   `abs d t` is the partial function the map of type t denotes (Proofs/DatabaseProofs.v); `read_pdu` is the
   Spec-side response (Spec/FfiServerSpec.v over Spec/MapSpec.v and Spec/Modbus.v).
   Only statements, closed by `exact`, each followed by Print Assumptions. *)
From Coq Require Import NArith List String Bool.
From Rodbus Require Import Base.Outcome Base.ServerTypes Model.Server Spec.Modbus Proofs.ServerProofs Proofs.ServerProps
  Model.DbTypes Spec.MapSpec Spec.FfiServerSpec Model.FfiServerDefs.
From Rodbus Require Model.Database Proofs.DatabaseProofs Model.FfiServer Proofs.FfiServerSystemProofs
  Model.SystemServer Spec.SystemSpec Base.Frame Proofs.SystemProofs.
Import ListNotations.
Local Open Scope N_scope.

Module P := Rodbus.Proofs.FfiServerSystemProofs.
Notation abs := DatabaseProofs.abs.
Notation ffi_handler := FfiServer.ffi_handler.
Notation database := Database.database.
Notation c_write_handler := FfiServer.c_write_handler.

(* ONE FRAME, any link (TCP/TLS or serial), any application W, any unit map, any authorization: a permitted,
   well-formed read request (any of the four read functions) addressed to a served unit is answered with ONE
   ADU echoing transaction id and unit id whose PDU is: the values of the addressed points in ascending address
   order (bits packed LSB first / registers big-endian) when every point of the range is present in that unit's
   database, exception 02 otherwise; the database is unchanged. *)
Theorem C19_system_read_frame : forall (A : Type) (W : c_write_handler A) l a (units : list (N * (database * A))) fr u d app fc r t s n,
  frame_ok l fr -> f_dest fr = DUnit u -> lookup u units = Some (d, app) ->
  decode (f_pdu fr) = Valid fc r -> read_target r = Some (t, s, n) -> fst (authorize a u r) = true ->
  reply_of (handle_frame (ffi_handler W) l a units fr) = Ok (adu l (f_tx fr) u (read_pdu fc t (abs d t) s n)) /\
  units_of (handle_frame (ffi_handler W) l a units fr) = units.
Proof. exact P.system_read_frame. Qed.
Print Assumptions C19_system_read_frame.

(* C19_read_exception_iff lifted to wire bytes: the reply is an exception reply iff the read touches an absent
   point, and then the code is 02 *)
Theorem C19_system_read_exception_iff : forall (A : Type) (W : c_write_handler A) l a (units : list (N * (database * A))) fr u d app fc r t s n e,
  frame_ok l fr -> f_dest fr = DUnit u -> lookup u units = Some (d, app) ->
  decode (f_pdu fr) = Valid fc r -> read_target r = Some (t, s, n) -> fst (authorize a u r) = true ->
  (reply_of (handle_frame (ffi_handler W) l a units fr) = Ok (adu l (f_tx fr) u (exception_pdu fc e)) <->
   e = 2 /\ exists k, (k < N.to_nat n)%nat /\ abs d t (s + N.of_nat k) = None).
Proof. exact P.system_read_exception_iff. Qed.
Print Assumptions C19_system_read_exception_iff.

(* ... and when every point is present the reply carries exactly their values *)
Theorem C19_system_read_present : forall (A : Type) (W : c_write_handler A) l a (units : list (N * (database * A))) fr u d app fc r t s n,
  frame_ok l fr -> f_dest fr = DUnit u -> lookup u units = Some (d, app) ->
  decode (f_pdu fr) = Valid fc r -> read_target r = Some (t, s, n) -> fst (authorize a u r) = true ->
  (forall k, (k < N.to_nat n)%nat -> abs d t (s + N.of_nat k) <> None) ->
  exists vs, map Some vs = map (fun k => abs d t (s + N.of_nat k)) (seq 0 (N.to_nat n)) /\
             reply_of (handle_frame (ffi_handler W) l a units fr) = Ok (adu l (f_tx fr) u (values_pdu fc t vs)).
Proof. exact P.system_read_present. Qed.
Print Assumptions C19_system_read_present.

(* A CONNECTION: in the code model of a session, the k-th frame being such a read of a unit served at that point
   (units_before = the unit map after the first k frames, i.e. after every earlier write callback): the k-th
   reply is that answer, computed from the database the unit holds at that point; nothing changes. *)
Theorem C19_system_read_session : forall (A : Type) (W : c_write_handler A) l a (units : list (N * (database * A))) frames k fr u d app fc r t s n,
  Forall (frame_ok l) frames -> nth_error frames k = Some fr ->
  f_dest fr = DUnit u -> lookup u (units_before (ffi_handler W) l a units frames k) = Some (d, app) ->
  decode (f_pdu fr) = Valid fc r -> read_target r = Some (t, s, n) -> fst (authorize a u r) = true ->
  nth_error (replies_of (session (ffi_handler W) l a units frames)) k = Some (adu l (f_tx fr) u (read_pdu fc t (abs d t) s n)) /\
  units_before (ffi_handler W) l a units frames (S k) = units_before (ffi_handler W) l a units frames k.
Proof. exact P.system_read_session. Qed.
Print Assumptions C19_system_read_session.

(* THE SERVER AS A WHOLE, byte level: ANY byte stream bs arriving in ANY non-empty read chunks, through the
   production reader (ReadBuffer + MBAP / RTU parser) into the session task: the frames are those the framing rule
   alone cuts from bs, and for every k-th of them that is a permitted read of a served unit, the k-th reply the
   server writes is the database's answer. *)
Theorem C19_system_read : forall (A : Type) (W : c_write_handler A) l a (units : list (N * (database * A))) bs chunks fi k fr u d app fc r t s n,
  Forall (fun b => b < 256) bs -> List.concat chunks = bs -> Forall (fun c => c <> []) chunks ->
  let frames := P.cut_frames l bs fi in
  nth_error frames k = Some fr ->
  f_dest fr = DUnit u -> lookup u (units_before (ffi_handler W) l a units frames k) = Some (d, app) ->
  decode (f_pdu fr) = Valid fc r -> read_target r = Some (t, s, n) -> fst (authorize a u r) = true ->
  nth_error (replies_of (fst (SystemServer.server_system (ffi_handler W) l a units chunks fi))) k
    = Some (adu l (f_tx fr) u (read_pdu fc t (abs d t) s n)) /\
  units_before (ffi_handler W) l a units frames (S k) = units_before (ffi_handler W) l a units frames k.
Proof. exact P.system_read_stream. Qed.
Print Assumptions C19_system_read.

(* the framing rule: cut_frames is the reference cut of the byte stream (Spec/Framing.v), nothing else *)
Theorem C19_system_frames_are_the_reference_cut : forall l bs fi,
  P.cut_frames l bs fi = map SystemServer.to_server_frame (fst (SystemSpec.ref_cut l bs fi)).
Proof. exact (fun l bs fi => eq_refl). Qed.
Print Assumptions C19_system_frames_are_the_reference_cut.

(* Multi-drop discipline inherited from C17 (NoAuth is the only configuration of a serial server): a C-ABI server
   answers only frames addressed to a unit id of its device map ... *)
Theorem C19_system_silent : forall (A : Type) (W : c_write_handler A) l (units : list (N * (database * A))) fr, frame_ok l fr ->
  reply_of (handle_frame (ffi_handler W) l NoAuth units fr) <> Ok [] -> exists u, f_dest fr = DUnit u /\ lookup u units <> None.
Proof. exact P.ffi_silent. Qed.
Print Assumptions C19_system_silent.

(* ... and a broadcast read (or a malformed / unsupported broadcast) touches no database *)
Theorem C19_system_broadcast_other : forall (A : Type) (W : c_write_handler A) l (units : list (N * (database * A))) fr, frame_ok l fr ->
  f_dest fr = DBroadcast -> (forall fc r, decode (f_pdu fr) = Valid fc r -> is_write r = false) ->
  let x := handle_frame (ffi_handler W) l NoAuth units fr in reply_of x = Ok [] /\ log_of x = [] /\ units_of x = units.
Proof. exact P.ffi_broadcast_other. Qed.
Print Assumptions C19_system_broadcast_other.
