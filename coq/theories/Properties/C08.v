(* C08 - A denied request has no effect and is answered with exception 01.
   Only statements, closed by `exact`, each followed by Print Assumptions.

   The authorization handler is an ARBITRARY policy p : kind -> unit id -> (range | index) -> role
   -> bool and an arbitrary role string (its provenance from the client certificate is C09). The
   request variant -> callback/argument dispatch and the default / read-only decisions are the
   tables regenerated from server/task.rs and server/handler.rs (Gen/AuthzTable.v); the model's
   is_authorized goes through them, so these theorems are re-checked against what the code says. *)
From Coq Require Import NArith Arith List String.
From Rodbus Require Import Base.Outcome Base.ServerTypes Model.Server Model.ServerRender Model.ServerExec Gen.AuthzTable Spec.Modbus
  Proofs.ServerParse Proofs.ServerProofs Proofs.ServerProps Proofs.ServerTheorems Proofs.AuthzTies.
Import ListNotations.
Local Open Scope N_scope.

(* every well-formed request is submitted exactly once and first - before any handler call - with
   its kind, the frame's unit id, its address range or index, and the session's role *)
Theorem C08_query : forall (St : Type) (H : handler St) p role l units fr fc r, frame_ok l fr ->
  decode (f_pdu fr) = Valid fc r ->
  exists rest, log_of (handle_frame H l (AuthHandler p role) units fr)
                 = EvAuth (kind_of r) (dest_value (f_dest fr)) (arg_of r) role :: rest /\ auth_events rest = [].
Proof. exact @query. Qed.
Print Assumptions C08_query.

(* anything that is not a well-formed request is never submitted (and, by C02, reaches no handler) *)
Theorem C08_no_query : forall (St : Type) (H : handler St) p role l units fr, frame_ok l fr ->
  (forall fc r, decode (f_pdu fr) <> Valid fc r) -> log_of (handle_frame H l (AuthHandler p role) units fr) = [].
Proof. exact @no_query. Qed.
Print Assumptions C08_no_query.

(* deny: no point handler is invoked, no state changes, the client gets exception 01 for that
   function code (nothing on a broadcast) *)
Theorem C08_deny : forall (St : Type) (H : handler St) p role l units fr fc r, frame_ok l fr ->
  decode (f_pdu fr) = Valid fc r -> p (kind_of r) (dest_value (f_dest fr)) (arg_of r) role = false ->
  let x := handle_frame H l (AuthHandler p role) units fr in
  handler_events (log_of x) = [] /\ units_of x = units /\
  reply_of x = Ok (if dest_is_broadcast (f_dest fr) then [] else adu l (f_tx fr) (dest_value (f_dest fr)) (exception_pdu fc 1)).
Proof. exact @deny. Qed.
Print Assumptions C08_deny.

(* the veto comes before the unit lookup: a denied request for an unconfigured unit id is answered
   with exception 01 (the carve-out in C01's statement) *)
Theorem C08_deny_unconfigured : forall (St : Type) (H : handler St) p role l units fr fc r u, frame_ok l fr ->
  decode (f_pdu fr) = Valid fc r -> f_dest fr = DUnit u -> lookup u (u_map units) = None -> p (kind_of r) u (arg_of r) role = false ->
  reply_of (handle_frame H l (AuthHandler p role) units fr) = Ok (adu l (f_tx fr) u (exception_pdu fc 1)).
Proof. exact @deny_unconfigured. Qed.
Print Assumptions C08_deny_unconfigured.

(* allow: exactly the behaviour without authorization (same reply, same new states, same handler calls) *)
Theorem C08_allow : forall (St : Type) (H : handler St) p role l units fr fc r, frame_ok l fr ->
  decode (f_pdu fr) = Valid fc r -> p (kind_of r) (dest_value (f_dest fr)) (arg_of r) role = true ->
  let x := handle_frame H l (AuthHandler p role) units fr in
  let y := handle_frame H l NoAuth units fr in
  reply_of x = reply_of y /\ units_of x = units_of y /\ handler_events (log_of x) = log_of y.
Proof. exact @allow. Qed.
Print Assumptions C08_allow.

(* per request: two policies that answer each request of a sequence alike (at that request's own
   query) produce the same session - replies, states, log. The outcome of request i depends on the
   policy only through its value at request i; an earlier allow never carries over. *)
Theorem C08_per_request : forall (St : Type) (H : handler St) l p p' role units frames, Forall (frame_ok l) frames ->
  Forall (same_decision p p' role) frames ->
  session H l (AuthHandler p role) units frames = session H l (AuthHandler p' role) units frames.
Proof. exact @per_request. Qed.
Print Assumptions C08_per_request.

(* the built-in read-only policy (table regenerated from impl AuthorizationHandler for
   ReadOnlyAuthorizationHandler) allows every read and denies every write *)
Theorem C08_read_only : forall k, authz_read_only (kind_cb k) = if kind_is_read k then Allow else Deny.
Proof. exact read_only_table. Qed.
Print Assumptions C08_read_only.

Theorem C08_read_only_policy : forall k u arg r, read_only_policy k u arg r = kind_is_read k.
Proof. exact read_only_policy_spec. Qed.
Print Assumptions C08_read_only_policy.

(* every default method body of trait AuthorizationHandler denies *)
Theorem C08_default_deny : forall c, authz_default c = Deny.
Proof. exact default_table. Qed.
Print Assumptions C08_default_deny.

(* each request kind is dispatched to the callback of its own name *)
Theorem C08_dispatch : forall k, cb_kind (kind_cb k) = k.
Proof. exact cb_kind_cb. Qed.
Print Assumptions C08_dispatch.

(* outside the session task: the C-ABI adapter calls, for each request kind, the C callback of its own name with
   the unit id and the role of this very call and keeps no state (table regenerated from
   ffi/rodbus-ffi/src/server.rs) ... *)
Theorem C08_ffi_wrapper_forwards :
  Forall forwards_faithfully Gen.FfiTables.authz_wrappers /\
  map Gen.FfiTables.aw_method Gen.FfiTables.authz_wrappers =
    ["read_coils"; "read_discrete_inputs"; "read_holding_registers"; "read_input_registers";
     "write_single_coil"; "write_single_register"; "write_multiple_coils"; "write_multiple_registers"]%string /\
  Gen.FfiTables.authz_wrapper_fields = ["inner"]%string.
Proof. exact ffi_wrapper_forwards. Qed.
Print Assumptions C08_ffi_wrapper_forwards.

(* ... and the TLS server never turns authorization off: with a handler configured a session runs under it with
   the role of the client certificate, or the connection is refused (regenerated from tcp/tls/server.rs) *)
Theorem C08_tls_role_required :
  Gen.TlsAuthz.tls_with_handler_on_role_failure = Gen.TlsAuthz.RefuseConnection /\
  Gen.TlsAuthz.tls_with_handler_session_uses_certificate_role = true /\
  Gen.TlsAuthz.tls_role_requires_exactly_one_extension = true /\ Gen.TlsAuthz.tls_without_handler_is_unauthorized_mode = true.
Proof. exact tls_role_required. Qed.
Print Assumptions C08_tls_role_required.

(* non-vacuity: read-only policy, role "op": the read is served, the write is denied with exception
   01 and reaches no handler, the next read is served again (per request) *)
Example C08_nonvacuous :
  run_model (LTcp, [(1, 1)], [mku 1 3 5 [] [] [] [] [] []], CRo [111; 112],
             [mkf (Some 1) (DUnit 1) [3; 0; 0; 0; 1]; mkf (Some 2) (DUnit 1) [6; 0; 0; 18; 52]; mkf (Some 3) (DUnit 1) [3; 0; 0; 0; 1];
              mkf (Some 4) (DUnit 7) [6; 0; 0; 18; 52]])
  = "00010000000501030207A7,000200000003018601,00030000000501030207A7,000400000003078601|au.2.1.r0.1.6F70;rh.1.0-0;au.5.1.i0.6F70;au.2.1.r0.1.6F70;rh.1.0-0;au.5.7.i0.6F70|open"%string.
Proof. vm_compute. reflexivity. Qed.
