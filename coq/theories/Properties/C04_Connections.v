(* C04 / C05 / C10 / C13 end to end across RECONNECTS: one channel, several connections, ONE reader
   that ClientLoop::run resets when a connection starts (the repaired finding F5; p2's C05_client).
   - a request in flight when the connection dies completes with the error that ended it
     (C04_system_connection_ends: verdict VIo / VBadFrame, session end reported);
   - requests taken during the wait before the next attempt fail at once with NoConnection
     (C13_fail_fast);
   - every connection is decided by ITS OWN bytes alone: whatever the dead connection left in the
     reader - in particular the beginning of a frame it died in - is not part of the next one
     (C04_connections below: the verdicts of connection j are `ref_session_fi []` of its exchanges).
   Only statements, closed by `exact`, each followed by Print Assumptions. *)
From Coq Require Import NArith List.
From Rodbus Require Import Base.Outcome.
From Rodbus Require Base.Frame Base.ClientTypes Model.Reader Model.ClientTask Spec.Framing Spec.SystemClientSpec
  Spec.SystemClientSessionSpec Model.SystemClient Model.SystemClientSession Proofs.C05Proofs Proofs.ClientSessionSystemProofs.
Import ListNotations.
Module F := Rodbus.Base.Frame.
Module CT := Rodbus.Base.ClientTypes.
Module T := Rodbus.Model.ClientTask.
Module SS := Rodbus.Spec.SystemClientSpec.
Module XS := Rodbus.Spec.SystemClientSessionSpec.
Import SystemClient SystemClientSession ClientSessionSystemProofs.

(* one connection whose exchanges may see the stream end: verdicts = the Spec's, from ANY reader that
   holds the leftover `left`; the reader stays an MBAP reader *)
Theorem C04_connection : forall cfg reqs xs rd left, C05Proofs.tcp_represents rd left -> C05Proofs.is_tcp rd -> Forall (xchg_ok reqs) xs ->
  snd (session_fi cfg reqs rd xs) = XS.ref_session_fi left (map (spec_xchg reqs) xs) /\ C05Proofs.is_tcp (fst (session_fi cfg reqs rd xs)).
Proof. exact session_fi_ref. Qed.
Print Assumptions C04_connection.

(* EVERY sequence of connections, whatever state the reader was left in by the previous one: each
   connection's requests are decided by that connection's bytes alone *)
Theorem C04_connections : forall cfg reqs conns rd, C05Proofs.is_tcp rd -> Forall (Forall (xchg_ok reqs)) conns ->
  connections_from cfg reqs rd conns = XS.ref_connections (map (map (spec_xchg reqs)) conns).
Proof. exact connections_ref. Qed.
Print Assumptions C04_connections.

(* non-vacuity (the F5 scenario at system level): on connection 1 request 0 (tx 0) receives 9 of the 11
   bytes of its reply, then the connection is closed by the peer: Io.  On connection 2 request 1 (tx 1)
   receives a correct, complete reply: it is accepted (before the repair the stale 9 bytes made the
   reader reject it with UnknownProtocolId) *)
Example C04_connections_nonvacuous :
  let cfg := {| T.cfg_cap := 4; T.cfg_res := 1 |} in
  let st k := T.set_ph (T.set_enabled (T.init 1 None 5 9) true)
                (T.PInFlight {| T.rq_id := k; T.rq_kind := T.KRead; T.rq_timeout := 1000 |} (N.of_nat k) 1000) in
  connections_from cfg (fun _ => CT.RReadHoldingRegisters (16, 1)%N) (Reader.reader_new Reader.KTcp)
    [[(st 0%nat, 0%nat, [[0;0;0;0;0;5]; [1;3;2]]%N, F.FinEof)];
     [(st 1%nat, 1%nat, [[0;1;0;0;0;5;1;3]; [2;190;239]]%N, F.FinPending)]]
  = [[SS.VIo]; [SS.VValue (CT.RespRegisters [(16, 48879)]%N)]].
Proof. vm_compute. reflexivity. Qed.
