(* C09 / C13 / C14 - the CLIENT FRONT-END as one composed model (Model/ClientFront.v): p4's channel
   task (Model/ClientTask.v: phases, command queue, requests, listener, waits), the doubling
   strategy (Model/Retry.v, C14) and the TLS client handshake on the generated version / mode
   tables (Model/Tls.v, C09). p4's single "connection attempt yields" event is refined for TLS
   clients into: TCP connect yields -> parked in the handshake await -> handshake resolves; all
   other behaviour is p4's step, unchanged.
   Only statements, closed by `exact`, each followed by Print Assumptions.
   cfg = any channel configuration, tr = plain TCP or TLS with any minimum version / certificate
   mode / name setting; event lists are arbitrary. *)
From Coq Require Import NArith List Bool.
From Rodbus Require Import Model.Retry Spec.RetrySpec Spec.Lifecycle Spec.ClientSpec Gen.SessionErrors Model.ClientTask
  Spec.TlsSpec Gen.TlsVersions Gen.TlsModes Model.Tls Model.RetryTask Model.ClientFront Proofs.C13Live Proofs.ClientFrontProofs.
Import ListNotations.
Local Open Scope N_scope.

(* the invariant of every run: while parked in the handshake the task is in its Connecting phase,
   and whenever a connection is up it was established with a server the admission Spec accepts *)
Theorem ClientFront_invariant : forall cfg tr h mt mn mx es, finv tr (fst (crun cfg tr (cinit h mt mn mx) es)).
Proof. intros. apply crun_inv. apply cinit_inv. Qed.
Print Assumptions ClientFront_invariant.

(* ClientFront_no_bytes_before_handshake: in every reachable state, whatever happens next, a request
   byte is written (OStamp / OWire / OWireFail) or a reply frame interpreted (completion with Ok,
   Exception or BadResponse) only on a connection that is up, which was admitted: for a TLS client a
   server with `expected (client endpoint) p = Established`; in particular never while the handshake
   is pending *)
Theorem ClientFront_no_bytes_before_handshake : forall cfg tr f e, finv tr f ->
  existsb is_traffic (snd (cstep cfg tr f e)) = true ->
  connected (ph (core f)) = true /\ hs f = None /\ admitted_server tr (last_server f).
Proof. exact traffic_only_when_admitted. Qed.
Print Assumptions ClientFront_no_bytes_before_handshake.

Theorem ClientFront_silent_while_handshaking : forall cfg tr f e k, finv tr f -> hs f = Some k ->
  existsb is_traffic (snd (cstep cfg tr f e)) = false.
Proof. exact no_traffic_while_handshaking. Qed.
Print Assumptions ClientFront_silent_while_handshaking.

(* a failed handshake is handled exactly like a failed connect (p4's step on EvConnect false): the
   listener hears WaitAfterFailedConnect with the NEXT doubling delay, the strategy advances and is
   not reset (the seeded change c14_3 broke exactly this) *)
Theorem ClientFront_failed_handshake_is_failed_connect : forall cfg tr f k, hs f = Some k -> k <> SrvStalls ->
  handshake_ok tr k = false ->
  cstep cfg tr f CHandshake =
    (let '(s', o) := ClientTask.step cfg (core f) (EvConnect false) in ({| core := s'; hs := None; last_server := last_server f |}, o)).
Proof. exact failed_handshake_is_failed_connect. Qed.
Print Assumptions ClientFront_failed_handshake_is_failed_connect.

Theorem ClientFront_failed_handshake_waits_next_delay : forall cfg tr f k, finv tr f -> hs f = Some k -> k <> SrvStalls ->
  handshake_ok tr k = false -> 2 * cur (retry (core f)) <= dur_max ->
  snd (cstep cfg tr f CHandshake) = [OListen (LWaitFailed (cur (retry (core f))))] /\
  retry (core (fst (cstep cfg tr f CHandshake))) =
    {| dmin := dmin (retry (core f)); dmax := dmax (retry (core f)); cur := N.min (2 * cur (retry (core f))) (dmax (retry (core f))) |}.
Proof. exact failed_handshake_waits_next_delay. Qed.
Print Assumptions ClientFront_failed_handshake_waits_next_delay.

(* ClientFront_admits_iff: Connected is announced exactly when the task is in its Connecting phase
   and either (plain TCP) the TCP connect succeeds, or (TLS) the pending handshake resolves with a
   server the C09 admission Spec accepts: version at or above the minimum, chain (and name, iff one
   is configured) or byte-identical self-signed certificate *)
Theorem ClientFront_admits_iff : forall cfg tr f e, finv tr f ->
  (In (OListen LConnected) (snd (cstep cfg tr f e)) <->
   ph (core f) = PConnecting /\
   ((tr = CPlain /\ hs f = None /\ exists k, e = CTcp true k) \/
    (exists k, hs f = Some k /\ e = CHandshake /\ handshake_ok tr k = true))).
Proof. exact connected_front_iff. Qed.
Print Assumptions ClientFront_admits_iff.

Theorem ClientFront_handshake_ok_is_admission : forall tr k, handshake_ok tr k = true <->
  exists min mode ng p v, tr = CTls min mode ng /\ k = SrvTls p /\
    expected (endpoint_of ClientSide min mode false ng) p = Established v None.
Proof. exact handshake_ok_spec. Qed.
Print Assumptions ClientFront_handshake_ok_is_admission.

(* ClientFront_retry: over ANY event list (connect outcomes, handshake failures, lost connections,
   disable / enable, requests, ticks, ...) the delays announced to the listener are the Spec's delays
   for the sequence Connected |-> reset, WaitAfterFailedConnect |-> failed connect,
   WaitAfterDisconnect |-> disconnect read off the same listener trace: the k-th failure since the
   last Connected announces min * 2^(k-1) capped at max, a disconnect announces min, and the
   sequence restarts exactly at a Connected announcement (not at a disable / enable) *)
Theorem ClientFront_retry : forall mn mx, mn <= mx -> 2 * mx <= dur_max -> forall cfg tr h mt es,
  let l := listens_of (snd (crun cfg tr (cinit h mt mn mx) es)) in
  waits l = somes (spec mn mx 0 (sops l)).
Proof. exact front_retry. Qed.
Print Assumptions ClientFront_retry.

(* every step of the composed model is a step of p4's task model on its core (or does nothing), so
   p4's theorems about single steps (C10 - C13) apply to it *)
Theorem ClientFront_is_task_step : forall cfg tr f e,
  (exists ev, (core (fst (cstep cfg tr f e)), snd (cstep cfg tr f e)) = ClientTask.step cfg (core f) ev) \/
  (core (fst (cstep cfg tr f e)) = core f /\ snd (cstep cfg tr f e) = []).
Proof. exact cstep_is_step. Qed.
Print Assumptions ClientFront_is_task_step.

(* The handshake is raced with the command queue (repo fix "a TLS client waiting in its handshake ignored
   shutdown, disable and queued requests"; before it this was ClientFront_handshake_not_raced_observation):
   while the handshake is pending every event of the task model is handled exactly as p4's Connecting
   phase handles it ... *)
Theorem ClientFront_parked_is_connecting : forall cfg tr f ev, (forall b, ev <> EvConnect b) ->
  (core (fst (cstep cfg tr f (CE ev))), snd (cstep cfg tr f (CE ev))) = ClientTask.step cfg (core f) ev.
Proof. exact parked_is_connecting. Qed.
Print Assumptions ClientFront_parked_is_connecting.

(* ... so a Shutdown taken from the queue while the handshake is pending ends the task at once with
   exactly one Shutdown notification and drops the handshake (the socket), a queued request fails at
   once with NoConnection and the handshake goes on ... *)
Theorem ClientFront_shutdown_during_handshake : forall cfg tr f k q, finv tr f -> hs f = Some k -> queue (core f) = CShutdown :: q ->
  let f' := fst (cstep cfg tr f (CE EvRecv)) in
  ph (core f') = PDone /\ hs f' = None /\ listens_of (snd (cstep cfg tr f (CE EvRecv))) = [LShutdown].
Proof. exact shutdown_during_handshake. Qed.
Print Assumptions ClientFront_shutdown_during_handshake.

Theorem ClientFront_request_during_handshake_fails_fast : forall cfg tr f k r q, finv tr f -> hs f = Some k ->
  queue (core f) = CReq r :: q ->
  snd (cstep cfg tr f (CE EvRecv)) = [OComplete (rq_id r) (RErr ReNoConnection)] /\ hs (fst (cstep cfg tr f (CE EvRecv))) = Some k.
Proof. exact request_during_handshake_fails_fast. Qed.
Print Assumptions ClientFront_request_during_handshake_fails_fast.

(* ... and p4's liveness theorem C13_shutdown_from_every_state carries over to the composed TLS client in
   EVERY state, the pending handshake included (before the fix it did not: in the parked phase the
   task's own steps did nothing): once a Shutdown command is queued, the task's own steps (recv, its
   timers, the clock) lead to termination *)
Theorem ClientFront_shutdown_from_every_state : forall cfg tr f,
  (queue (core f) = [] -> blocked (core f) = []) -> In CShutdown (queue (core f) ++ blocked (core f)) -> ph (core f) <> PDone ->
  exists es, forallb Proofs.C13Live.internal es = true /\ ph (core (fst (crun cfg tr f (map CE es)))) = PDone.
Proof. exact front_shutdown_from_every_state. Qed.
Print Assumptions ClientFront_shutdown_from_every_state.

(* non-vacuity: a TLS server that accepts the TCP connection and stays silent; Shutdown is honoured at once *)
Example ClientFront_silent_server :
  let cfg := {| cfg_cap := 4%nat; cfg_res := 1 |} in
  let tr := CTls V1_2 AuthorityBased true in
  let '(f, o) := crun cfg tr (cinit 1 None 20 70)
                   [CE (EvSubmit CEnable SFuture); CE EvRecv; CTcp true SrvStalls; CE (EvSubmit CShutdown SFuture); CE EvRecv] in
  hs f = None /\ ph (core f) = PDone /\ listens_of o = [LConnecting; LShutdown].
Proof. exact handshake_raced_witness. Qed.
