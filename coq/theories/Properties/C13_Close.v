(* C13 - "Disabled after a disable, which also closes an open connection" / a lost connection / shutdown: the listener is
   told AFTER the connection is closed.  Only statements, closed by `exact`, each followed by Print Assumptions.

   The listener callback is awaited by the task (`listener.update(..).get().await`): whoever uses it as a gate sees the
   world as it is at that await point.  `ClientLoop::run(&mut phys)` returning is the model output `OEnd e`;
   Gen/ClientScope.v records, for the TCP / TLS task (run_connection) and the serial task (try_open_and_run), what the arm
   taken for `e` does, in order, until the owner of the PhysLayer returns - drop(phys), listener.update, fail_requests_for -
   and checks that run_inner reports Disabled, and run reports Shutdown, only after that call has returned.
   `notified_closed arm o` (Model/ClientClose.v) walks the outputs: open from the Connected notification to the OEnd whose
   arm closes the connection before it notifies or waits; true iff every other notification finds it closed. *)
From Coq Require Import NArith List.
From Rodbus Require Import Model.Retry Spec.Lifecycle Gen.SessionErrors Gen.ClientScope Model.ClientTask Model.SerialTask Model.ClientClose
  Proofs.C13Serial Proofs.C13Close.
Import ListNotations.
Local Open Scope N_scope.

(* the source: every arm closes the connection before it notifies the listener or starts to wait *)
Theorem C13_tcp_arms_close_first : forall e, closed_first (tcp_arm e) = true.
Proof. exact tcp_arms_close_first. Qed.
Print Assumptions C13_tcp_arms_close_first.

Theorem C13_serial_arms_close_first : forall e, closed_first (serial_arm e) = true.
Proof. exact serial_arms_close_first. Qed.
Print Assumptions C13_serial_arms_close_first.

(* one step, from any state: if the connection is open only in a connected phase (or the task is gone), the step's
   notifications are in order and the same holds afterwards *)
Theorem C13_close_step : forall cfg arm, (forall e, closed_first (arm e) = true) -> forall s e open, Inv open s -> P arm open (step cfg s e).
Proof. exact step_P. Qed.
Print Assumptions C13_close_step.

(* all event lists: Disabled, WaitAfterFailedConnect, WaitAfterDisconnect, Connecting and Shutdown are never reported while
   a connection is open; Connected is the only notification made with one *)
Theorem C13_notified_with_connection_closed : forall cfg hn mt rmin rmax es,
  notified_closed tcp_arm (init_outputs ++ snd (run cfg (init hn mt rmin rmax) es)) = true.
Proof. exact tcp_notified_closed. Qed.
Print Assumptions C13_notified_with_connection_closed.

Theorem C13_serial_notified_with_port_closed : forall cfg hn rmin rmax es,
  notified_closed serial_arm (init_outputs ++ snd (srun cfg (sinit hn rmin rmax) es)) = true.
Proof. exact serial_notified_closed. Qed.
Print Assumptions C13_serial_notified_with_port_closed.

(* non-vacuity: the scan rejects a Disabled made before the close (an arm that notifies first), accepts the real order *)
Example C13_close_nonvacuous :
  let bad := fun e : session_error => match e with SeDisabled => [FxNotify; FxScopeEnd] | _ => tcp_arm e end in
  let o := [OListen LDisabled; OListen LConnecting; ODial; OListen LConnected; OEnd SeDisabled; OListen LDisabled] in
  notified_closed tcp_arm o = true /\ notified_closed bad o = false.
Proof. vm_compute. split; reflexivity. Qed.
