(* C01 at full strength: the server as a whole - bytes arriving in arbitrary read chunks, the
   production reader (ReadBuffer + parser + next_frame loop), then SessionTask::handle_frame per
   frame - equals the reference: cut the stream by the framing rule alone (MBAP length field /
   RTU function code + byte count + CRC gate), apply the reference Modbus server to the frames in
   order. Composition of the C05/C06 reader refinement with the C01 session refinement.
   Only statements, closed by `exact`, each followed by Print Assumptions. *)
From Coq Require Import NArith List.
From Rodbus Require Base.Frame Base.ServerTypes Model.Reader Model.Server Spec.Framing Spec.Modbus
  Model.SystemServer Spec.SystemSpec Proofs.SystemProofs.
Import ListNotations.
Module F := Rodbus.Base.Frame.
Module S := Rodbus.Base.ServerTypes.
Import SystemServer SystemSpec SystemProofs.

(* TCP / TLS: every byte stream, every cut into non-empty reads, every handler machine, policy, unit map *)
Theorem C01_system_tcp : forall (St : Type) (H : S.handler St) a units s chunks fi,
  bytes s -> concat chunks = s -> Forall (fun c => c <> []) chunks ->
  server_system H S.LTcp a units chunks fi =
    (let '(replies, units', log) := ref_server_system_result H S.LTcp a units s fi in (replies, units', log, Server.SOpen),
     snd (ref_cut S.LTcp s fi)).
Proof. exact @server_system_tcp. Qed.
Print Assumptions C01_system_tcp.

(* serial *)
Theorem C01_system_rtu : forall (St : Type) (H : S.handler St) a units s chunks fi,
  bytes s -> concat chunks = s -> Forall (fun c => c <> []) chunks ->
  server_system H S.LRtu a units chunks fi =
    (let '(replies, units', log) := ref_server_system_result H S.LRtu a units s fi in (replies, units', log, Server.SOpen),
     snd (ref_cut S.LRtu s fi)).
Proof. exact @server_system_rtu. Qed.
Print Assumptions C01_system_rtu.

(* replies, handler calls and final state do not depend on how the network segments the stream *)
Theorem C01_system_chunking_independent : forall (St : Type) (H : S.handler St) l a units c1 c2 fi,
  bytes (concat c1) -> concat c1 = concat c2 -> Forall (fun c => c <> []) c1 -> Forall (fun c => c <> []) c2 ->
  server_system H l a units c1 fi = server_system H l a units c2 fi.
Proof. exact @server_system_chunking_independent. Qed.
Print Assumptions C01_system_chunking_independent.
