(* C03 - Client transmits exactly the protocol encoding of a request, or nothing.
   Only statements, closed by `exact`, each followed by Print Assumptions.

   `call` is one Channel API call with its arguments (for reads the raw public fields start/count
   of the AddressRange handed to Channel::read_* - ANY pair in u16 x u16, whether or not it went
   through AddressRange::try_from -; the value vector as given to WriteMultiple::from); `call_wf`
   says the arguments have their Rust types (u16). `client_submit f tx uid c` is the model of construction
   + Channel method + FrameWriter::format_request into the shared 260-byte buffer;
   `submit_wire` is what execute_request hands to the transport. `ref_encode` / `within_limits`
   are the oracle of Spec/ClientCodecSpec.v. Value vectors are unbounded lists. *)
From Coq Require Import NArith List Arith.
From Rodbus Require Import Base.Outcome Base.ClientTypes Model.Format Model.Range Model.ClientRequest
  Model.ClientPaths Model.ClientSession Spec.ClientCodecSpec Proofs.ClientCodecProofs Proofs.PackProofs Proofs.ClientBytesProofs
  Proofs.ClientPathsProofs Proofs.ClientSessionProofs.
From Rodbus Require Model.ClientTask Spec.ClientSpec.
Import ListNotations.
Local Open Scope N_scope.

(* Whatever is transmitted is exactly the protocol encoding (and the request was within limits). *)
Theorem C03_exact : forall f tx uid c bs, call_wf c ->
  client_submit f tx uid c = Ok bs ->
  bs = match f with Tcp => ref_encode_tcp tx uid c | Rtu => ref_encode_rtu uid c end /\ within_limits c.
Proof. exact submit_exact. Qed.
Print Assumptions C03_exact.

(* Conversely every request within the limits IS transmitted (so C03_exact is not vacuous and no
   in-limit request is lost to a buffer overflow). *)
Theorem C03_complete : forall f tx uid c, call_wf c -> within_limits c ->
  client_submit f tx uid c = Ok (match f with Tcp => ref_encode_tcp tx uid c | Rtu => ref_encode_rtu uid c end).
Proof. exact submit_within. Qed.
Print Assumptions C03_complete.

(* Requests outside the protocol limits (empty or overflowing range, > 2000 bits / 125 registers
   read, > 1968 coils / 123 registers written, > 65535 values) are rejected with an error and the
   transport sees nothing. *)
Theorem C03_limits : forall f tx uid c, call_wf c -> ~ within_limits c ->
  exists e, client_submit f tx uid c = Err e /\ submit_wire f tx uid c = [].
Proof. exact submit_outside. Qed.
Print Assumptions C03_limits.

(* Exactly one frame or nothing reaches the transport, according to the result. *)
Theorem C03_one_frame_or_nothing : forall f tx uid c,
  submit_wire f tx uid c = match client_submit f tx uid c with Ok bs => [bs] | _ => [] end.
Proof. exact submit_wire_spec. Qed.
Print Assumptions C03_one_frame_or_nothing.

(* No frame longer than 260 bytes (TCP/TLS) or 256 bytes (serial) is ever emitted. *)
Theorem C03_size : forall f tx uid c bs, call_wf c -> client_submit f tx uid c = Ok bs ->
  (length bs <= match f with Tcp => 260 | Rtu => 256 end)%nat.
Proof. exact submit_size. Qed.
Print Assumptions C03_size.

(* What is emitted is a string of bytes (every element below 256), for u16 tx ids and u8 unit ids. *)
Theorem C03_bytes : forall f tx uid c bs, call_wf c -> tx < 65536 -> uid < 256 ->
  client_submit f tx uid c = Ok bs -> Forall is_u8 bs.
Proof. exact submit_bytes. Qed.
Print Assumptions C03_bytes.

(* Construction and encoding never panic. *)
Theorem C03_total : forall f tx uid c, call_wf c -> client_submit f tx uid c <> Panic.
Proof. exact submit_total. Qed.
Print Assumptions C03_total.

(* ---- the three submit paths (Model/ClientPaths.v): async Channel, deprecated CallbackSession,
   FfiChannel (the C bindings). For every call they queue the SAME request - or all reject -, so
   the bytes on the wire are those of `client_submit` whichever API is used; all theorems above
   therefore hold for each path. ---- *)
Theorem C03_paths_agree : forall p q f tx uid c,
  path_encode p f tx uid c = path_encode q f tx uid c /\ path_wire p f tx uid c = path_wire q f tx uid c.
Proof. exact paths_agree. Qed.
Print Assumptions C03_paths_agree.

Theorem C03_path_wire : forall p f tx uid c, path_wire p f tx uid c = submit_wire f tx uid c.
Proof. exact path_wire_spec. Qed.
Print Assumptions C03_path_wire.

(* what each path does with a call: queue exactly the request `build` constructs, or - exactly when
   `build` fails with e - signal the rejection as the code does (rejection_of, below) *)
Theorem C03_path_submit : forall p c,
  submit_via p c = match build c with
                   | Ok r => Queued r
                   | Err e => Rejected (rejection_of p c e)
                   | Panic => Rejected {| rj_returned := None; rj_completion := None |}
                   end.
Proof. exact submit_via_spec. Qed.
Print Assumptions C03_path_submit.

(* The rejection signals, stated as what the code does: the error is returned by the call
   (Channel: as the value of the future; Ffi: as FfiChannelError::BadRange; WriteMultiple::from) or
   handed to the callback (CallbackSession reads). Two asymmetries of FfiChannel: read_bits checks
   the range BEFORE it builds its promise, so the completion callback of a rejected read_coils /
   read_discrete_inputs is never invoked (the only signal is the return value); read_registers
   builds the promise first, so a rejected call returns the error AND its dropped promise invokes
   the callback with Shutdown. *)
Theorem C03_rejection_signals : forall p c e,
  rejection_of p c e =
  match c with
  | CReadCoils _ _ | CReadDiscreteInputs _ _ =>
      match p with
      | ViaChannel | ViaFfi => {| rj_returned := Some e; rj_completion := None |}
      | ViaCallback => {| rj_returned := None; rj_completion := Some (CErr e) |}
      end
  | CReadHoldingRegisters _ _ | CReadInputRegisters _ _ =>
      match p with
      | ViaChannel => {| rj_returned := Some e; rj_completion := None |}
      | ViaCallback => {| rj_returned := None; rj_completion := Some (CErr e) |}
      | ViaFfi => {| rj_returned := Some e; rj_completion := Some CShutdown |}
      end
  | _ => {| rj_returned := Some e; rj_completion := None |}
  end.
Proof. reflexivity. Qed.
Print Assumptions C03_rejection_signals.

Example C03_ffi_read_coils_rejection_has_no_callback :
  submit_via ViaFfi (CReadCoils 0 2001) = Rejected {| rj_returned := Some ECountTooLargeForType; rj_completion := None |}.
Proof. vm_compute. reflexivity. Qed.
Example C03_ffi_read_registers_rejection_calls_back_with_shutdown :
  submit_via ViaFfi (CReadHoldingRegisters 0 126) = Rejected {| rj_returned := Some ECountTooLargeForType; rj_completion := Some CShutdown |}.
Proof. vm_compute. reflexivity. Qed.

(* ---- C03 over a whole session (Model/ClientSession.v): calls executed one after the other on a
   connected, enabled channel, through any mix of the three APIs. The wire log is the Spec's
   ref_session_wire: exactly the frames of the calls within the limits, in order; the i-th request
   that REACHES THE TASK carries transaction id i mod 65536. What the code does with ids: the task
   takes the id (TxId::next) before it formats the frame, so a write-multiple request that could be
   constructed but exceeds its function's limit consumes an id although nothing is sent
   (Spec reaches_task); a call rejected by the API before queueing consumes none. The counter is
   the task model's (C11_txid: the k-th request taken from the queue is stamped k mod 65536). ---- *)
Theorem C03_session_wire : forall f calls, Forall (fun x => call_wf (snd x)) calls ->
  session_wire f 0 calls = ref_session_wire (is_tcp f) 0 (strip calls).
Proof. exact session_wire_from_start. Qed.
Print Assumptions C03_session_wire.

(* ... from any point of a session on (k requests have reached the task before), without bound on k *)
Theorem C03_session_wire_from : forall f calls k, Forall (fun x => call_wf (snd x)) calls ->
  session_wire f (k mod 65536) calls = ref_session_wire (is_tcp f) k (strip calls).
Proof. exact session_wire_ref. Qed.
Print Assumptions C03_session_wire_from.

Theorem C03_session_ids : forall k,
  ClientTask.txid_next (k mod 65536) = ((k + 1) mod 65536, ClientSpec.txid_spec k).
Proof. exact txid_next_mod. Qed.
Print Assumptions C03_session_ids.

(* a call reaches the task (and takes an id) iff its request can be constructed *)
Theorem C03_reaches_task : forall c, call_wf c ->
  match build c with Ok _ => reaches_task c = true | Err _ => reaches_task c = false | Panic => False end.
Proof. exact build_reaches. Qed.
Print Assumptions C03_reaches_task.

(* which API submits each call does not matter for the wire log *)
Theorem C03_session_paths : forall f calls calls' v,
  map (fun x => (snd (fst x), snd x)) calls = map (fun x => (snd (fst x), snd x)) calls' ->
  session_wire f v calls = session_wire f v calls'.
Proof. exact session_wire_paths. Qed.
Print Assumptions C03_session_paths.

(* non-vacuity: read (id 0), 1969 coils (constructible, over the limit: takes id 1, nothing sent),
   2001 coils read via FfiChannel (rejected before queueing: no id), read via callback API (id 2) *)
Example C03_session_example :
  session_wire Tcp 0 [(ViaChannel, 1, CReadHoldingRegisters 16 2); (ViaChannel, 1, CWriteMultipleCoils 0 (repeat true 1969));
                      (ViaFfi, 1, CReadCoils 0 2001); (ViaCallback, 9, CReadCoils 7 3)]
  = [[0;0; 0;0; 0;6; 1; 3; 0;16; 0;2]; [0;2; 0;0; 0;6; 9; 1; 0;7; 0;3]].
Proof. vm_compute. reflexivity. Qed.

(* ---- the COMPLETE byte stream of a connection, with a peer and a transport (Model/ClientSession.v
   session_stream: execute_request = format, ONE write bounded by the request's timeout BEFORE the
   receive loop, then the loop, which never writes). Whatever the peer sends while a request is in
   flight - stale or foreign transaction ids, duplicates, partial replies, nothing - the stream is
   the Spec's ref_session_stream: one serialisation per accepted call, in order, nothing else. A
   frame the transport did not take within the timeout appears as a PREFIX of its encoding and is
   the LAST thing on the connection (Io(TimedOut) ends the session); nothing follows a lost
   connection. ---- *)
Theorem C03_session_stream : forall f calls k, Forall (fun x => call_wf (snd (fst (fst x)))) calls ->
  session_stream f (k mod 65536) calls = ref_session_stream (is_tcp f) k (strip_fates calls).
Proof. exact session_stream_ref. Qed.
Print Assumptions C03_session_stream.

(* a frame with another transaction id arriving while a request waits changes nothing on the wire *)
Theorem C03_session_stream_peer_independent : forall f v pre p uid c fate evs1 evs2 post,
  session_stream f v (pre ++ (p, uid, c, fate, evs1 ++ RxSkip :: evs2) :: post) =
  session_stream f v (pre ++ (p, uid, c, fate, evs1 ++ evs2) :: post).
Proof. exact session_stream_peer_independent. Qed.
Print Assumptions C03_session_stream_peer_independent.

(* no stall, no lost connection: the stream is the concatenation of the frames of session_wire *)
Theorem C03_session_stream_concat : forall f calls v,
  Forall (fun x => snd (fst x) = TxAll /\ rx_loses_connection (snd x) = false) calls ->
  session_stream f v calls = concat (session_wire f v (map (fun x => fst (fst x)) calls)).
Proof. exact session_stream_concat. Qed.
Print Assumptions C03_session_stream_concat.

(* a partial frame is only ever followed by the connection being closed, never by another frame *)
Theorem C03_partial_frame_is_last : forall (tcp : bool) (uid : N) (c : call) (j : nat) pre k post,
  within_limits_b c = true ->
  (forall t, (j < length (if tcp then ref_encode_tcp t uid c else ref_encode_rtu uid c))%nat) ->
  ref_session_stream tcp k (pre ++ (uid, c, FateCut j) :: post) = ref_session_stream tcp k (pre ++ [(uid, c, FateCut j)]).
Proof. exact ref_stream_cut_is_last. Qed.
Print Assumptions C03_partial_frame_is_last.

Example C03_stream_example :
  session_stream Tcp 0 [(ViaChannel, 1, CReadHoldingRegisters 16 2, TxAll, [RxSkip; RxSkip; RxReply]);
                        (ViaChannel, 1, CReadHoldingRegisters 16 1, TxCut 5, []);
                        (ViaChannel, 1, CReadCoils 0 1, TxAll, [RxReply])]
  = [0;0; 0;0; 0;6; 1; 3; 0;16; 0;2] ++ [0;1; 0;0; 0].
Proof. vm_compute. reflexivity. Qed.

(* The Spec's coil packing, stated bitwise: coil k is bit (k mod 8) of byte (k / 8) - LSB first -,
   every padding bit is 0 (k beyond the vector reads `false`), and there are ceil(n/8) bytes. *)
Theorem C03_pack_lsb_first : forall bits k,
  N.testbit (nth (k / 8)%nat (pack bits) 0) (N.of_nat (k mod 8)%nat) = nth k bits false.
Proof. exact pack_bit. Qed.
Print Assumptions C03_pack_lsb_first.

Theorem C03_pack_length : forall bits, len (pack bits) = bytes_for_bits (len bits).
Proof. exact pack_length. Qed.
Print Assumptions C03_pack_length.

(* AddressRange::try_from accepts exactly the non-empty ranges inside the 16 bit address space,
   for all 2^32 constructor arguments (arithmetic, no enumeration). *)
Theorem C03_range_total : forall start count, start < 65536 -> count < 65536 ->
  (try_from start count = inr (start, count) <-> 1 <= count /\ start + count <= 65536).
Proof. exact try_from_total. Qed.
Print Assumptions C03_range_total.

(* non-vacuity: the standard's write-multiple-coils example (10 coils from address 19: CD 01) and
   the largest frames *)
Example C03_example_coils :
  client_submit Tcp 1 17 (CWriteMultipleCoils 19 [true;false;true;true;false;false;true;true;true;false])
  = Ok [0;1; 0;0; 0;9; 17; 15; 0;19; 0;10; 2; 205;1].
Proof. vm_compute. reflexivity. Qed.
Example C03_example_max_tcp :
  omap (@length N) (client_submit Tcp 65535 255 (CWriteMultipleCoils 0 (repeat true 1968))) = Ok 259%nat.
Proof. vm_compute. reflexivity. Qed.
Example C03_example_max_rtu :
  omap (@length N) (client_submit Rtu 0 1 (CWriteMultipleRegisters 65413 (repeat 65535 123))) = Ok 255%nat.
Proof. vm_compute. reflexivity. Qed.
Example C03_example_over_limit :
  client_submit Tcp 0 1 (CWriteMultipleCoils 0 (repeat true 1969)) = Err ECountTooBigForType.
Proof. vm_compute. reflexivity. Qed.
(* AddressRange has public fields, so Channel::read_* can be handed ANY (start, count) pair. The
   repaired limited_count (3d39d18, finding F10) validates it: an empty or overflowing range is
   rejected before anything is queued - these are instances of C03_limits. *)
Example C03_empty_range_literal_is_rejected :
  client_submit Tcp 0 1 (CReadCoils 0 0) = Err ECountOfZero /\ submit_wire Tcp 0 1 (CReadCoils 0 0) = [].
Proof. vm_compute. split; reflexivity. Qed.
Example C03_overflowing_range_literal_is_rejected :
  client_submit Tcp 1 1 (CReadHoldingRegisters 65535 10) = Err EAddressOverflow
  /\ submit_wire Rtu 1 1 (CReadHoldingRegisters 65535 10) = [].
Proof. vm_compute. split; reflexivity. Qed.
