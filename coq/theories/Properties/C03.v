(* C03 - Client transmits exactly the protocol encoding of a request, or nothing.
   Only statements, closed by `exact`, each followed by Print Assumptions. *)
From Coq Require Import NArith List.
From Rodbus Require Import Base.Outcome Base.ClientTypes Model.Format Model.Range Model.ClientRequest
  Spec.ClientCodecSpec Proofs.ClientCodecProofs.
Import ListNotations.
Local Open Scope N_scope.

(* AddressRange::try_from accepts exactly the non-empty ranges inside the 16 bit address space,
   for all 2^32 constructor arguments (arithmetic, no enumeration). *)
Theorem C03_range_total : forall start count, start < 65536 -> count < 65536 ->
  (try_from start count = inr (start, count) <-> 1 <= count /\ start + count <= 65536).
Proof. exact try_from_total. Qed.
Print Assumptions C03_range_total.
