(* C12 - "N consecutive timeouts drop the connection": dropped means closed, at once.
   Only statements, closed by `exact`, each followed by Print Assumptions.

   Gen/ClientScope.v records what the arm of run_connection taken for SessionError::MaxTimeouts does, in order, until the
   owner of the PhysLayer returns.  The peer must see the end of the connection when the N-th timeout in a row has
   completed its request - not a retry delay later. *)
From Coq Require Import NArith List.
From Rodbus Require Import Model.Retry Spec.Lifecycle Spec.ClientSpec Gen.SessionErrors Gen.ClientScope Model.ClientTask Model.ClientClose
  Proofs.C12Proofs Proofs.C12Close.
Import ListNotations.
Local Open Scope N_scope.

(* the source: the MaxTimeouts arm closes the connection before it notifies the listener or starts the reconnect wait *)
Theorem C12_limit_arm_closes_first : closed_first (tcp_arm SeMaxTimeouts) = true /\ closed_first (serial_arm SeMaxTimeouts) = true.
Proof. exact limit_arm_closes_first. Qed.
Print Assumptions C12_limit_arm_closes_first.

(* the step in which the counter reaches the limit: completion of the request, end of the session (MaxTimeouts), close, and
   only then WaitAfterDisconnect - scanned from "connection open" the notification finds it closed, and it stays closed *)
Theorem C12_limit_drop_closes : forall s r t', tc_step (tcount s) Timeout = (t', true) ->
  scan tcp_arm true (snd (finish s r (RErr ReResponseTimeout))) = (false, true) /\
  In (OEnd SeMaxTimeouts) (snd (finish s r (RErr ReResponseTimeout))).
Proof. exact limit_drop_closes. Qed.
Print Assumptions C12_limit_drop_closes.
