(* C15 - Server sessions: bounded, oldest evicted, isolated, all closed on shutdown.
   Only statements, closed by `exact`, each followed by Print Assumptions.
   The model (Model/Tracker.v) is the SessionTracker and the accept loop of rodbus/src/tcp/server.rs;
   `init m` is a server created with max_sessions = m; theorems quantify over ALL event lists
   (every interleaving of accepts, session ends, end notifications, requests, commands, shutdown,
   handle drop - including schedules that cannot occur) and all m. *)
From Coq Require Import NArith List.
From Rodbus Require Import Model.Tracker Spec.TrackerSpec Proofs.TrackerProofs.
Import ListNotations.
Local Open Scope N_scope.

(* never more than max(1, max_sessions) entries in the tracker, hence never more running sessions *)
Theorem C15_bound : forall m evs s o, run (init m) evs = Some (s, o) ->
  (length (sessions (trk s)) <= Nat.max 1 m)%nat /\ (length (live_ids (sessions (trk s))) <= Nat.max 1 m)%nat.
Proof. exact bound. Qed.
Print Assumptions C15_bound.

(* when an Accept evicts (v, a) in any reachable state: the tracker was exactly at the limit, v is
   the minimum id present, every id present is smaller than the new id, everything else is kept
   and the new session appended, v is gone; the new id is the number of connections accepted so
   far, so "minimum id" = "accepted earliest" *)
Theorem C15_oldest : forall m evs s o t' id v a,
  run (init m) evs = Some (s, o) -> add (trk s) = Some (t', id, Some (v, a)) ->
  length (sessions (trk s)) = Nat.max 1 m /\
  In (v, a) (sessions (trk s)) /\
  (forall j b, In (j, b) (sessions (trk s)) -> v <= j) /\
  (forall j b, In (j, b) (sessions (trk s)) -> j < id) /\
  sessions t' = tl (sessions (trk s)) ++ [(id, true)] /\
  ~ In v (ids (sessions t')) /\
  id = accepts_processed (init m) evs.
Proof. exact oldest. Qed.
Print Assumptions C15_oldest.

(* a connection arriving while the server runs is always accepted (a session is spawned for it and
   runs), also at the limit *)
Theorem C15_accept_always_spawns : forall m evs s o s' o', run (init m) evs = Some (s, o) -> running s = true ->
  step s (Accept true) = Some (s', o') ->
  In (Spawned (next_id (trk s))) o' /\ alive s' (next_id (trk s)) = true /\ running s' = true.
Proof. exact accept_spawns. Qed.
Print Assumptions C15_accept_always_spawns.

(* an Accept evicts nothing iff the tracker is below the limit *)
Theorem C15_evicts_only_at_limit : forall m evs s o t' id ev,
  run (init m) evs = Some (s, o) -> add (trk s) = Some (t', id, ev) ->
  (ev = None <-> (length (sessions (trk s)) < Nat.max 1 m)%nat).
Proof. exact evicts_iff. Qed.
Print Assumptions C15_evicts_only_at_limit.

(* Shutdown / HandleDropped in a running server: every running session gets closed, the listener
   is closed, nothing is alive afterwards and every later event list is ignored (no Accept is
   processed, no output produced, state unchanged) *)
Theorem C15_shutdown : forall s e s' o, running s = true -> (e = Shutdown \/ e = HandleDropped) ->
  step s e = Some (s', o) ->
  running s' = false /\ sessions (trk s') = [] /\ (forall id, alive s' id = false) /\
  (forall id, alive s id = true -> In (Closed id) o) /\ In ListenerClosed o /\
  (forall evs, run s' evs = Some (s', [])).
Proof. exact shutdown_closes_all. Qed.
Print Assumptions C15_shutdown.

Theorem C15_stopped_means_empty : forall m evs s o, run (init m) evs = Some (s, o) -> running s = false ->
  sessions (trk s) = [] /\ forall id, alive s id = false.
Proof. exact after_stop. Qed.
Print Assumptions C15_stopped_means_empty.

(* no session is leaked: every session ever spawned is, at any later time and under every
   schedule, still running, or has been closed by the server, or has ended on its own; hence once
   the server has stopped every spawned session has been closed or had ended by itself *)
Theorem C15_no_session_leaked : forall m evs s o, run (init m) evs = Some (s, o) ->
  forall id, In (Spawned id) o -> alive s id = true \/ In (Closed id) o \/ In (PeerGone id) evs.
Proof. exact no_session_leaked. Qed.
Print Assumptions C15_no_session_leaked.

Theorem C15_all_closed_when_stopped : forall m evs s o, run (init m) evs = Some (s, o) -> running s = false ->
  forall id, In (Spawned id) o -> In (Closed id) o \/ In (PeerGone id) evs.
Proof. exact all_closed_when_stopped. Qed.
Print Assumptions C15_all_closed_when_stopped.

(* isolation, as far as this model carries it: in any reachable state the only events that end a
   running session b are its own end, the notification of its end, a stop of the server, or an
   Accept arriving at the limit while b is the oldest entry. Events of other sessions (their end,
   their notification, their requests, commands) leave b running. *)
Theorem C15_isolation : forall m evs s o e s' o' b,
  run (init m) evs = Some (s, o) -> step s e = Some (s', o') ->
  alive s b = true -> alive s' b = false ->
  e = PeerGone b \/ e = SessionEnded b \/ e = Shutdown \/ e = HandleDropped \/
  (e = Accept true /\ length (sessions (trk s)) = Nat.max 1 m /\ forall j c, In (j, c) (sessions (trk s)) -> b <= j).
Proof. exact isolation. Qed.
Print Assumptions C15_isolation.

(* a request reaches the handler exactly once iff its session is running; otherwise nothing changes *)
Theorem C15_request_effect : forall s id v s' o, step s (Request id v) = Some (s', o) ->
  (alive s id = true /\ running s = true -> o = [HandlerCall id v] /\ store s' = v /\ trk s' = trk s) /\
  (alive s id = false -> o = [] /\ s' = s).
Proof. exact request_effect. Qed.
Print Assumptions C15_request_effect.

(* nothing but a request produces a handler call or changes the handler's state *)
Theorem C15_no_foreign_handler_call : forall s e s' o, step s e = Some (s', o) ->
  (forall id v, e <> Request id v) -> store s' = store s /\ forall id v, ~ In (HandlerCall id v) o.
Proof. exact no_handler_call_unless_request. Qed.
Print Assumptions C15_no_foreign_handler_call.

(* the u128 id counter cannot overflow (panic) in fewer than 2^128 events *)
Theorem C15_no_panic : forall m evs, N.of_nat (length evs) <= u128_max -> run (init m) evs <> None.
Proof. exact no_panic. Qed.
Print Assumptions C15_no_panic.

(* on prompt schedules (each end of a session is notified before the next operation) the model IS
   the Spec's bounded queue with oldest-first eviction, for all scripts over the property's
   alphabet and all max_sessions: same served set, same accepting state, same handler value after
   every operation *)
Theorem C15_refines_spec : forall m ops t, trace (init m) ops = Some t -> t = strace m sinit ops.
Proof. exact refines. Qed.
Print Assumptions C15_refines_spec.

(* max_sessions = 0 behaves as 1 *)
Theorem C15_zero_is_one : tracker_new 0 = tracker_new 1.
Proof. exact eq_refl. Qed.
Print Assumptions C15_zero_is_one.

(* OBSERVATION, not a finding (documents the model's behaviour under this event order; see the
   manifest note and docs/notes/p6.md): a session that has ended but whose end the server has not
   processed yet still occupies a tracker slot - the server is, from its own point of view, still at
   its limit - so an Accept arriving in that window evicts the oldest running session although
   fewer than max sessions are running. The Spec refinement is therefore stated for prompt
   schedules; bound / oldest / shutdown / isolation hold for all schedules. *)
Theorem C15_stale_slot_observation :
  exists evs s o, run (init 2) evs = Some (s, o) /\ In (Closed 0) o /\ live_ids (sessions (trk s)) = [2].
Proof. exact stale_slot_witness. Qed.
Print Assumptions C15_stale_slot_observation.

(* non-vacuity *)
Example C15_nonvacuous :
  trace (init 2) [Connect; Connect; Connect; Garbage 1; Req 2 7; Connect; Stop; Connect]
  = Some [([0], true, 0); ([0; 1], true, 0); ([1; 2], true, 0); ([2], true, 0); ([2], true, 7);
          ([2; 3], true, 7); ([], false, 7); ([], false, 7)].
Proof. vm_compute. reflexivity. Qed.
