(* C11 - Replies are matched to requests by transaction id; no cross-talk.
   Only statements, closed by `exact`, each followed by Print Assumptions.
   The model is Model/ClientTask.v (TCP/TLS framing: every frame carries a transaction id; on RTU
   there is no transaction id and these statements do not apply).  `cfg` (queue capacity, timer
   resolution) and the initial parameters are arbitrary; `es` ranges over ALL event lists. *)
From Coq Require Import NArith List.
From Rodbus Require Import Model.Retry Spec.Lifecycle Spec.ClientSpec Gen.SessionErrors Model.ClientTask Proofs.ClientBase Proofs.C11Proofs Proofs.C10Proofs Proofs.C11Alt Proofs.C11Rtu.
Import ListNotations.
Local Open Scope N_scope.

(* at most one request outstanding: while a request is in flight no step writes another one ... *)
Theorem C11_one_outstanding : forall cfg s e r tx d,
  ph s = PInFlight r tx d -> wire_ids (snd (step cfg s e)) = [].
Proof. exact c11_one_outstanding. Qed.
Print Assumptions C11_one_outstanding.

(* ... a step writes at most one request, and the written request is then the one in flight ... *)
Theorem C11_one_write_per_step : forall cfg s e,
  (length (wire_ids (snd (step cfg s e))) <= 1)%nat /\
  (forall id, In id (wire_ids (snd (step cfg s e))) ->
     exists r tx d, ph (fst (step cfg s e)) = PInFlight r tx d /\ rq_id r = id).
Proof. exact c11_one_write_per_step. Qed.
Print Assumptions C11_one_write_per_step.

(* ... and the in-flight request stays in flight until the step that completes it *)
Theorem C11_in_flight_until_completed : forall cfg s e r tx d, ph s = PInFlight r tx d ->
  let '(s', o) := step cfg s e in ph s' = PInFlight r tx d \/ In (rq_id r) (completed o).
Proof. exact inflight_progress. Qed.
Print Assumptions C11_in_flight_until_completed.

(* run level: in the output of ANY run (distinct request ids) writes and completions alternate - a
   request is written only after the previously written one has completed (`scan` returns None as
   soon as a second OWire occurs while the id of an earlier OWire has not been completed) *)
Theorem C11_alternates : forall cfg hn mt rmin rmax es,
  NoDup (all_accepted cfg (init hn mt rmin rmax) es) ->
  scan None (snd (run cfg (init hn mt rmin rmax) es)) <> None.
Proof. exact alternates. Qed.
Print Assumptions C11_alternates.

(* what is on the wire is what was stamped: in ANY run every written request (OWire tx id) was given
   exactly that transaction id by tx_id.next() (OStamp tx id) - immediately, or when its slow write
   began - so C11_txid / C11_system_encode speak about the wire *)
Theorem C11_wire_is_stamped : forall cfg hn mt rmin rmax es tx id,
  In (OWire tx id) (snd (run cfg (init hn mt rmin rmax) es)) -> In (OStamp tx id) (snd (run cfg (init hn mt rmin rmax) es)).
Proof. exact wire_is_stamped. Qed.
Print Assumptions C11_wire_is_stamped.

(* requests are transmitted in submission order: the ids on the wire are a subsequence (order
   preserved) of the ids in the order of the Submit events *)
Theorem C11_fifo : forall cfg mt hn rmin rmax es,
  Subseq (wire_ids (snd (run cfg (init hn mt rmin rmax) es))) (submitted es).
Proof. exact c11_fifo. Qed.
Print Assumptions C11_fifo.

(* the k-th request taken from the queue while connected (k = 0, 1, ...; OStamp is emitted by
   every tx_id.next() of run_one_request, whether or not the request then reaches the wire) is
   stamped k mod 65536 - for every k, so also beyond 65536 requests *)
Theorem C11_txid : forall cfg mt hn rmin rmax es k t,
  nth_error (stamps (snd (run cfg (init hn mt rmin rmax) es))) k = Some t -> t = txid_spec (N.of_nat k).
Proof. exact c11_txid. Qed.
Print Assumptions C11_txid.

(* TxId::next itself: n calls from 0 leave the counter at n mod 65536, for every n : N *)
Theorem C11_txid_next_n : forall n : N, N.iter n (fun v => fst (txid_next v)) 0 = txid_spec n.
Proof. exact txid_iter. Qed.
Print Assumptions C11_txid_next_n.

(* consecutive requests never share a transaction id *)
Theorem C11_distinct : forall cfg mt hn rmin rmax es k a b,
  let st := stamps (snd (run cfg (init hn mt rmin rmax) es)) in
  nth_error st k = Some a -> nth_error st (S k) = Some b -> a <> b.
Proof. exact c11_distinct. Qed.
Print Assumptions C11_distinct.

(* a frame whose transaction id differs from the outstanding one changes nothing: no output at all
   (in particular no completion), the request stays in flight with the same deadline *)
Theorem C11_mismatch : forall cfg s r t d tx k, ph s = PInFlight r t d -> tx <> t ->
  (partial s = None -> step cfg s (EvFrame tx k) = (s, [])) /\
  (partial s = Some (tx, k) -> step cfg s EvTail = (set_partial s None, [])).
Proof. exact c11_mismatch. Qed.
Print Assumptions C11_mismatch.

(* frames arriving while no request is outstanding are dropped *)
Theorem C11_idle_drop : forall cfg s tx k, ph s = PIdle ->
  step cfg s (EvFrame tx k) = (s, []) /\
  (forall p, partial s = Some p -> step cfg s EvTail = (set_partial s None, [])).
Proof. exact c11_idle_drop. Qed.
Print Assumptions C11_idle_drop.

(* no cross-talk: a reply result (success, exception, bad reply) is only ever produced by the frame
   that carries the outstanding transaction id, and only for the outstanding request; a stale,
   duplicate, future or unsolicited frame never becomes the result of any request *)
Theorem C11_no_crosstalk : forall cfg s e id res, In (OComplete id res) (snd (step cfg s e)) ->
  res = ROk \/ res = RErr ReException \/ res = RErr ReBadResponse ->
  exists r tx d k, ph s = PInFlight r tx d /\ rq_id r = id /\ res = respond k /\
    ((e = EvFrame tx k /\ partial s = None) \/ (e = EvTail /\ partial s = Some (tx, k))).
Proof. exact no_crosstalk. Qed.
Print Assumptions C11_no_crosstalk.

(* --- serial (RTU) framing: no transaction id ---
   The statements above are about TCP / TLS, as the property text says ("stamps each TCP/TLS
   request with a 16-bit transaction id").  On a serial line frames carry no id: `rtu_step` is the
   same task with frame.header.tx_id = None.  What the code does there, as theorems about the model:
   the FIRST frame delivered while a request is outstanding decides it (whatever it is a reply to) ... *)
Theorem C11_rtu_first_frame_decides : forall cfg s r t d tx k, ph s = PInFlight r t d -> partial s = None ->
  exists o, snd (rtu_step cfg s (EvFrame tx k)) = OComplete (rq_id r) (respond k) :: o /\ respond k <> RErr ReResponseTimeout.
Proof. exact rtu_first_frame_decides. Qed.
Print Assumptions C11_rtu_first_frame_decides.

(* ... also a frame whose first part arrived earlier, e.g. while the previous (timed-out) request was
   outstanding: it completes the request that is outstanding when its last byte arrives ... *)
Theorem C11_rtu_tail_decides : forall cfg s r t d tx k, ph s = PInFlight r t d -> partial s = Some (tx, k) ->
  exists o, snd (rtu_step cfg s EvTail) = OComplete (rq_id r) (respond k) :: o.
Proof. exact rtu_tail_decides. Qed.
Print Assumptions C11_rtu_tail_decides.

(* ... frames arriving while nothing is outstanding are dropped, and every other event is handled
   exactly as on TCP (so deadline, counter, exactly-once and life-cycle theorems carry over) *)
Theorem C11_rtu_idle_drop : forall cfg s tx k, ph s = PIdle -> rtu_step cfg s (EvFrame tx k) = (s, []).
Proof. exact rtu_idle_drop. Qed.
Print Assumptions C11_rtu_idle_drop.

Theorem C11_rtu_other_events : forall cfg s e, (forall tx k, e <> EvFrame tx k) -> e <> EvTail -> rtu_step cfg s e = step cfg s e.
Proof. exact rtu_other. Qed.
Print Assumptions C11_rtu_other_events.

(* the consequence on a serial line: the late reply to a timed-out request is taken as the reply to
   the NEXT request (request 7 times out, its reply arrives when request 8 is outstanding) *)
Example C11_rtu_late_reply_goes_to_the_next_request :
  let cfg := {| cfg_cap := 4; cfg_res := 1 |} in
  let rq i := CReq {| rq_id := i; rq_kind := KRead; rq_timeout := 100 |} in
  let s := fst (run cfg (init 1 None 5 9)
        [EvSubmit CEnable SFuture; EvRecv; EvConnect true; EvSubmit (rq 7%nat) SFuture; EvSubmit (rq 8%nat) SFuture; EvRecv;
         EvTick 100; EvTimer; EvRecv]) in
  snd (rtu_step cfg s (EvFrame 0 RpGenuine)) = [OComplete 8%nat ROk].
Proof. vm_compute. reflexivity. Qed.

(* non-vacuity: a run that crosses a mismatching (stale) frame and then takes the genuine one *)
Example C11_nonvacuous :
  let cfg := {| cfg_cap := 4; cfg_res := 1 |} in
  let rq i := CReq {| rq_id := i; rq_kind := KRead; rq_timeout := 100 |} in
  snd (run cfg (init 1 None 5 9)
        [EvSubmit CEnable SFuture; EvRecv; EvConnect true; EvSubmit (rq 7%nat) SFuture; EvSubmit (rq 8%nat) SFfi; EvRecv;
         EvFrame 65535 RpGenuine; EvFrame 0 RpException; EvRecv; EvFrame 0 RpGenuine; EvFrame 1 RpGenuine])
  = [OListen LConnecting; ODial; OListen LConnected; OStamp 0 7%nat; OWire 0 7%nat; OComplete 7%nat (RErr ReException);
     OStamp 1 8%nat; OWire 1 8%nat; OComplete 8%nat ROk].
Proof. vm_compute. reflexivity. Qed.
