(* C11 - placeholder while the proofs are being ported; replaced below *)
From Coq Require Import NArith List.
From Rodbus Require Import Model.ClientTask.
