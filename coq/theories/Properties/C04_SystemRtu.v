(* C04 for the RTU client as a whole (with C06): bytes of one serial connection arriving in
   arbitrary read chunks, the production reader in its RTU response role (ReadBuffer +
   RtuParser(Response) + next_frame loop, Model/Reader.v), then the client task's execute_request
   loop (Model/ClientTask.v) with request r in flight, calling Request::handle_response
   (Model/ClientRequest.v) on the FIRST frame the reader delivers - there is no transaction id on
   a serial line - equals the reference of Spec/SystemClientRtuSpec.v: cut the stream by the RTU
   rule for responses; the first frame decides (genuine reply -> its value; well-formed exception
   reply -> its code; otherwise bad reply); an unknown function code, an over-long frame or a CRC
   that does not verify before a complete frame is BadFrame and ends the connection; EOF / I/O
   error ends it; silence leaves the request pending (its timer: C12).
   Composition of C06_chunking (reader = ref_rtu_frames for every chunk schedule), C04_ok_iff /
   C04_exception_only / C04_exception / C04_total and C12_exact_frame / C10 (the task completes on
   the frame, fails on a read error). `st` is ANY task state with r in flight; `reqs` gives the
   Modbus content of each request id; the stream consists of bytes; all chunks arrive before the
   request's timer instant. The reply's address byte is not compared with the request's unit id
   (the code does not; C04_system_rtu_first_frame makes that explicit).
   Only statements, closed by `exact`, each followed by Print Assumptions. *)
From Coq Require Import NArith List.
From Rodbus Require Import Base.Outcome Gen.SessionErrors.
From Rodbus Require Base.Frame Base.ClientTypes Model.Crc Model.Reader Model.ClientRequest Model.ClientTask
  Spec.Framing Spec.ClientCodecSpec Spec.SystemClientSpec Spec.SystemClientRtuSpec Model.SystemClient Model.SystemClientRtu
  Proofs.ClientSystemRtuProofs.
Import ListNotations.
Module F := Rodbus.Base.Frame.
Module CT := Rodbus.Base.ClientTypes.
Module CS := Rodbus.Spec.ClientCodecSpec.
Module T := Rodbus.Model.ClientTask.
Module SS := Rodbus.Spec.SystemClientSpec.
Module SR := Rodbus.Spec.SystemClientRtuSpec.
Import SystemClient SystemClientRtu ClientSystemRtuProofs.
Local Open Scope N_scope.

(* EVERY byte stream s, EVERY cut of s into non-empty reads, every way the stream behaves after s:
   what the caller of r observes is the Spec's verdict, and the task model's own completion record
   for r is the class of that verdict *)
Theorem C04_system_rtu : forall cfg reqs st r t d,
  T.ph st = T.PInFlight r t d -> T.partial st = None -> CT.request_wf (reqs (T.rq_id r)) ->
  forall s chunks fi, Framing.bytes s -> concat chunks = s -> Forall (fun c => c <> []) chunks ->
  verdict_for (T.rq_id r) (client_system_rtu cfg reqs st chunks fi) = SR.ref_client_result_rtu (reqs (T.rq_id r)) s fi /\
  first_completion (T.rq_id r) (snd (fst (client_system_rtu cfg reqs st chunks fi))) = task_class (SR.ref_client_result_rtu (reqs (T.rq_id r)) s fi).
Proof. exact client_system_rtu_ref. Qed.
Print Assumptions C04_system_rtu.

(* the verdict, clause by clause (`first_rtu_frame s fi` is the first frame the RTU rule cuts from s) *)
Theorem C04_system_rtu_ok_iff : forall mr s fi v, SR.ref_client_result_rtu mr s fi = SS.VValue v <->
  exists f, first_rtu_frame s fi = Some f /\ CS.ref_reply mr (F.f_pdu f) = Some v.
Proof. exact rtu_ref_ok_iff. Qed.
Print Assumptions C04_system_rtu_ok_iff.

Theorem C04_system_rtu_exception_iff : forall mr s fi c, SR.ref_client_result_rtu mr s fi = SS.VException c <->
  exists f, first_rtu_frame s fi = Some f /\ CS.ref_reply mr (F.f_pdu f) = None /\ CS.ref_exception mr (F.f_pdu f) = Some c.
Proof. exact rtu_ref_exception_iff. Qed.
Print Assumptions C04_system_rtu_exception_iff.

Theorem C04_system_rtu_bad_frame_iff : forall mr s fi, SR.ref_client_result_rtu mr s fi = SS.VBadFrame <->
  first_rtu_frame s fi = None /\ exists e, snd (Framing.ref_rtu_frames Framing.Responses s fi) = F.EndBad e.
Proof. exact rtu_ref_bad_frame_iff. Qed.
Print Assumptions C04_system_rtu_bad_frame_iff.

(* a first frame (address, delimited PDU) whose CRC bytes lo, hi are not the CRC of address and PDU:
   BadFrame, whatever follows on the line ... *)
Theorem C04_system_rtu_crc_failure : forall mr addr pdu lo hi rest fi,
  Framing.bytes (addr :: pdu ++ [lo; hi] ++ rest) -> Framing.delimited Framing.Responses pdu -> (length pdu <= 253)%nat ->
  (lo + 256 * hi) <> Crc.crc (addr :: pdu) ->
  SR.ref_client_result_rtu mr (addr :: pdu ++ [lo; hi] ++ rest) fi = SS.VBadFrame.
Proof. exact rtu_ref_crc_failure. Qed.
Print Assumptions C04_system_rtu_crc_failure.

(* ... and BadFrame (like EOF / an I/O error) before a complete frame ends the connection *)
Theorem C04_system_rtu_connection_ends : forall cfg reqs st r t d,
  T.ph st = T.PInFlight r t d -> T.partial st = None -> CT.request_wf (reqs (T.rq_id r)) ->
  forall s chunks fi, Framing.bytes s -> concat chunks = s -> Forall (fun c => c <> []) chunks ->
  (SR.ref_client_result_rtu (reqs (T.rq_id r)) s fi = SS.VBadFrame -> In (T.OEnd SeBadFrame) (snd (fst (client_system_rtu cfg reqs st chunks fi)))) /\
  (SR.ref_client_result_rtu (reqs (T.rq_id r)) s fi = SS.VIo -> In (T.OEnd SeIoError) (snd (fst (client_system_rtu cfg reqs st chunks fi)))).
Proof. exact client_system_rtu_connection_ends. Qed.
Print Assumptions C04_system_rtu_connection_ends.

(* a first frame with the correct CRC decides by its PDU alone, whatever its address byte is and
   whatever follows it *)
Theorem C04_system_rtu_first_frame : forall mr addr pdu rest fi,
  Framing.bytes (Framing.rtu_frame_of addr pdu ++ rest) -> Framing.delimited Framing.Responses pdu -> (length pdu <= 253)%nat ->
  SR.ref_client_result_rtu mr (Framing.rtu_frame_of addr pdu ++ rest) fi = SS.ref_reply_verdict mr pdu.
Proof. exact rtu_ref_first_frame. Qed.
Print Assumptions C04_system_rtu_first_frame.

(* the result does not depend on how the serial driver hands over the bytes *)
Theorem C04_system_rtu_chunking_independent : forall cfg reqs st r t d,
  T.ph st = T.PInFlight r t d -> T.partial st = None -> CT.request_wf (reqs (T.rq_id r)) ->
  forall c1 c2 fi, Framing.bytes (concat c1) -> concat c1 = concat c2 -> Forall (fun c => c <> []) c1 -> Forall (fun c => c <> []) c2 ->
  verdict_for (T.rq_id r) (client_system_rtu cfg reqs st c1 fi) = verdict_for (T.rq_id r) (client_system_rtu cfg reqs st c2 fi).
Proof. exact client_system_rtu_chunking_independent. Qed.
Print Assumptions C04_system_rtu_chunking_independent.

(* non-vacuity: read 2 holding registers from 16 sent to unit 1; the line delivers the genuine reply
   (from "unit" 9: not checked) byte by byte in odd chunks, followed by noise; then the same frame
   with one CRC byte damaged *)
Example C04_system_rtu_nonvacuous :
  let cfg := {| T.cfg_cap := 4; T.cfg_res := 1 |} in
  let rq := {| T.rq_id := 3; T.rq_kind := T.KRead; T.rq_timeout := 1000 |} in
  let st := T.set_ph (T.init 1 None 5 9) (T.PInFlight rq 7 1000) in
  let frame := Framing.rtu_frame_of 9 [3; 4; 171; 205; 0; 5] in
  verdict_for 3 (client_system_rtu cfg (fun _ => CT.RReadHoldingRegisters (16, 2)) st
                   [firstn 2 frame; firstn 3 (skipn 2 frame); skipn 5 frame ++ [1; 2]] F.FinPending)
  = SS.VValue (CT.RespRegisters [(16, 43981); (17, 5)])
  /\
  verdict_for 3 (client_system_rtu cfg (fun _ => CT.RReadHoldingRegisters (16, 2)) st
                   [firstn 8 frame; [N.lxor (nth 8 frame 0) 1]] F.FinPending)
  = SS.VBadFrame.
Proof. vm_compute. split; reflexivity. Qed.
