(* C18, client side: the caller's value list is unchanged by being passed to a call.
   Only statements, closed by `exact`, each followed by Print Assumptions. *)
From Coq Require Import NArith List String Bool.
From Rodbus Require Import Gen.FfiTables Spec.FfiSpec Model.FfiClient.
From Rodbus Require Proofs.FfiListProofs.
Import ListNotations.
Local Open Scope N_scope.
Module P := Rodbus.Proofs.FfiListProofs.

(* a list object is unchanged by being passed to a call: for any interleaving of rodbus_*_list_add and write-multiple
   calls on ONE list object, every call reads exactly the values added so far, in order (the second periodic write of
   a prepared block carries the same block; a value added between two calls is appended to it). Over the regenerated
   `list_args` (how client_channel_write_multiple_coils / _registers borrow the object and take its values). *)
Theorem C18_list_unchanged : forall fn, In fn ["write_multiple_coils"; "write_multiple_registers"]%string -> forall A (l : list A),
  list_read fn l = Some l /\ list_left fn l = Some l.
Proof. exact P.list_unchanged. Qed.
Print Assumptions C18_list_unchanged.

Theorem C18_list_reuse : forall fn, In fn ["write_multiple_coils"; "write_multiple_registers"]%string -> forall A (steps : list (list_step A)) (l : list A),
  list_calls fn (Some l) steps = map (fun p => (fst p, Some (snd p))) (list_calls_spec l steps).
Proof. exact P.list_reuse. Qed.
Print Assumptions C18_list_reuse.

Theorem C18_list_borrow : map (fun r => fst (fst r)) list_args = ["write_multiple_coils"; "write_multiple_registers"]%string /\
  forall fn, In fn ["write_multiple_coils"; "write_multiple_registers"]%string -> fst (list_use fn) = "as_ref"%string.
Proof. exact (conj P.list_args_complete P.list_borrowed_immutably). Qed.
Print Assumptions C18_list_borrow.
