(* C19 - The C-ABI point database is a per-type map with atomic transactions.
   Only statements, closed by `exact`, each followed by Print Assumptions. *)
From Coq Require Import NArith List String Bool.
From Rodbus Require Import Model.DbTypes Model.Database Spec.MapSpec Spec.AtomicSpec Model.Atomic.
From Rodbus Require Import Gen.LockScope.
From Rodbus Require Proofs.DatabaseProofs Proofs.AtomicProofs Proofs.LockScopeProofs.
Import ListNotations.
Local Open Scope N_scope.

Module DP := Rodbus.Proofs.DatabaseProofs.
Module AP := Rodbus.Proofs.AtomicProofs.

(* ---------- the map ---------- *)
(* For EVERY sequence of add / update / delete / get / client-read operations over the four point
   types, starting from the empty database: the model of ffi/rodbus-ffi/src/database.rs (four
   association lists, Entry::Vacant / Entry::Occupied logic) returns exactly the results of four
   partial functions, and ends in a state that denotes the same four partial functions. *)
Theorem C19_refine : forall ops, Forall DP.op_ok_prop ops ->
  let (d, rs) := Database.run db_empty ops in
  let (s, rs') := spec_run spec_empty ops in
  rs = rs' /\ (forall t i, DP.abs d t i = s t i) /\ DP.wf d.
Proof. exact DP.C19_refine. Qed.
Print Assumptions C19_refine.

Theorem C19_refine_from : forall ops d s, DP.related d s -> Forall DP.op_ok_prop ops ->
  snd (Database.run d ops) = snd (spec_run s ops) /\ DP.related (fst (Database.run d ops)) (fst (spec_run s ops)).
Proof. exact DP.C19_refine_from. Qed.
Print Assumptions C19_refine_from.

(* add succeeds only for absent indices *)
Theorem C19_add_iff : forall d t i v, value_ok t v = true ->
  (snd (exec d (Add t i v)) = RBool true <-> DP.abs d t i = None).
Proof. exact DP.C19_add_iff. Qed.
Print Assumptions C19_add_iff.

Theorem C19_add_effect : forall d t i v, value_ok t v = true -> DP.abs d t i = None ->
  DP.abs (fst (exec d (Add t i v))) t i = Some v /\
  forall t' i', (t', i') <> (t, i) -> DP.abs (fst (exec d (Add t i v))) t' i' = DP.abs d t' i'.
Proof. exact DP.C19_add_effect. Qed.
Print Assumptions C19_add_effect.

(* update and delete only for present ones *)
Theorem C19_update_iff : forall d t i v, value_ok t v = true ->
  (snd (exec d (Update t i v)) = RBool true <-> DP.abs d t i <> None).
Proof. exact DP.C19_update_iff. Qed.
Print Assumptions C19_update_iff.

Theorem C19_update_effect : forall d t i v, value_ok t v = true -> DP.abs d t i <> None ->
  DP.abs (fst (exec d (Update t i v))) t i = Some v /\
  forall t' i', (t', i') <> (t, i) -> DP.abs (fst (exec d (Update t i v))) t' i' = DP.abs d t' i'.
Proof. exact DP.C19_update_effect. Qed.
Print Assumptions C19_update_effect.

Theorem C19_delete_iff : forall d t i, snd (exec d (Delete t i)) = RBool true <-> DP.abs d t i <> None.
Proof. exact DP.C19_delete_iff. Qed.
Print Assumptions C19_delete_iff.

Theorem C19_delete_effect : forall d t i, DP.abs (fst (exec d (Delete t i))) t i = None /\
  forall t' i', (t', i') <> (t, i) -> DP.abs (fst (exec d (Delete t i))) t' i' = DP.abs d t' i'.
Proof. exact DP.C19_delete_effect. Qed.
Print Assumptions C19_delete_effect.

(* a failed operation changes nothing *)
Theorem C19_fail_identical : forall d o, DP.op_ok_prop o -> snd (exec d o) = RBool false -> fst (exec d o) = d.
Proof. exact DP.C19_fail_identical. Qed.
Print Assumptions C19_fail_identical.

(* get fails for absent ones *)
Theorem C19_get_iff : forall d t i, snd (exec d (Get t i)) = RGet None <-> DP.abs d t i = None.
Proof. exact DP.C19_get_iff. Qed.
Print Assumptions C19_get_iff.

(* a client read touching an absent point is answered with exception 02 - and only then *)
Theorem C19_read_absent : forall d t start count,
  (exists k, (k < count)%nat /\ DP.abs d t (start + N.of_nat k) = None) -> snd (exec d (Read t start count)) = RRead (inr 2).
Proof. exact DP.C19_read_absent. Qed.
Print Assumptions C19_read_absent.

Theorem C19_read_exception_iff : forall d t start count e,
  snd (exec d (Read t start count)) = RRead (inr e) <->
  e = 2 /\ exists k, (k < count)%nat /\ DP.abs d t (start + N.of_nat k) = None.
Proof. exact DP.C19_read_exception_iff. Qed.
Print Assumptions C19_read_exception_iff.

Theorem C19_read_values_iff : forall d t start count vs,
  snd (exec d (Read t start count)) = RRead (inl vs) <->
  map Some vs = map (fun k => DP.abs d t (start + N.of_nat k)) (seq 0 count).
Proof. exact DP.C19_read_values_iff. Qed.
Print Assumptions C19_read_values_iff.

Theorem C19_read_unchanged : forall d t start count, fst (exec d (Read t start count)) = d.
Proof. exact DP.C19_read_unchanged. Qed.
Print Assumptions C19_read_unchanged.

(* ---------- atomicity (lock-granular interleaving model) ---------- *)
(* Threads run jobs under ONE mutex: a transaction applies its writes one by one, a request reads its
   addresses one by one; the scheduler is an ARBITRARY list of thread indices (every interleaving of
   micro-steps, including blocked attempts). For every initial database, job list and schedule: every
   finished request observed the database exactly as it is after a prefix of the complete
   transactions, in commit order - never part of a transaction. *)
Theorem C19_atomic : forall d0 jobs sched j t addrs,
  let w := Atomic.run (init d0 jobs) sched in
  nth_error (threads w) j = Some t -> finished t = true -> tjob t = Req addrs ->
  atomic_obs d0 (committed w) addrs (obs t).
Proof. exact AP.C19_atomic. Qed.
Print Assumptions C19_atomic.

Theorem C19_atomic_committed_are_txns : forall d0 jobs sched ws,
  let w := Atomic.run (init d0 jobs) sched in
  In ws (committed w) ->
  exists j t, nth_error (threads w) j = Some t /\ finished t = true /\ tjob t = Txn ws /\
              nth_error jobs j = Some (Txn ws).
Proof. exact AP.C19_atomic_committed_are_txns. Qed.
Print Assumptions C19_atomic_committed_are_txns.

(* The same statement for the step function selected by the lock scopes the translator reads off the
   code (Gen/LockScope.v: a reply = one `handler.lock()` temporary spanning get_reply in task.rs; a
   transaction = one guard spanning the callback in server_update_database; the wrapper takes no lock). *)
Theorem C19_atomic_code : forall d0 jobs sched j t addrs,
  let w := Rodbus.Proofs.LockScopeProofs.code_run (init d0 jobs) sched in
  nth_error (threads w) j = Some t -> finished t = true -> tjob t = Req addrs ->
  atomic_obs d0 (committed w) addrs (obs t).
Proof. exact Rodbus.Proofs.LockScopeProofs.atomic_for_the_code. Qed.
Print Assumptions C19_atomic_code.

(* The lock scope as read off the sources (Gen/LockScope.v, regenerated on every run):
   - unicast request (server/task.rs handle_frame): the statement `let reply = request.get_reply(header,
     handler.lock().unwrap().as_mut(), &mut self.writer, decode)?;` is ONE critical section of the unit's mutex;
     the FrameWriter is an argument of that call, so EVERY reply byte is computed under the lock: MBAP / RTU
     header, function code, byte count and data (all handler read_* calls) or the write echo (after the one
     write_* call) or the exception code, and the CRC on serial. The statement contains no await (get_reply is
     not async). The socket write (`write_reply(io, reply, ..).await`, F11) is the NEXT statement: it happens
     after the guard is dropped, on bytes that are already final - a slow or stalled peer never holds the lock.
   - the authorization handler is consulted before the lock is taken.
   - C-ABI transaction (ffi server.rs server_update_database): one guard spans the whole callback.
   - broadcast (serial): `for handler in self.handlers.iter_mut() { request.execute(handler.lock()..) }` takes each
     unit's lock separately: a broadcast write is atomic PER UNIT, not across units. With the C ABI every unit has
     its own Database and a request reads exactly one unit, so no single request can observe a half-applied
     broadcast; two requests to two units can (documented, not a property violation). *)
Theorem C19_lock_scope :
  reply_in_one_critical_section = true /\ reply_bytes_formatted_under_lock = true /\
  locked_statement_is_synchronous = true /\ socket_write_after_unlock = true /\
  authorization_before_lock = true /\ transaction_in_one_critical_section = true /\
  wrapper_takes_no_lock = true /\ broadcast_locks_each_unit_separately = true.
Proof. exact Rodbus.Proofs.LockScopeProofs.lock_scope_facts. Qed.
Print Assumptions C19_lock_scope.

(* The theorem is about the lock scope: with per-point locking (each single point access atomic, the
   job as a whole not) the same statement is REFUTED by a concrete schedule (reader sees [7;1;1]). *)
Theorem C19_atomic_needs_lock : exists d0 jobs sched j t addrs,
  let w := run_pp (init d0 jobs) sched in
  nth_error (threads w) j = Some t /\ finished t = true /\ tjob t = Req addrs /\
  ~ atomic_obs d0 (committed w) addrs (obs t).
Proof. exact AP.C19_atomic_needs_lock. Qed.
Print Assumptions C19_atomic_needs_lock.

(* non-vacuity *)
Example C19_demo : show_results (snd (Database.run db_empty DP.demo))
  = "T;F;b1;F;T;[b1,b0];E2;T;r65535;-;-;T;F;E2;T;[r12];T;T;[r3];[b1];[]"%string.
Proof. vm_compute. reflexivity. Qed.

Example C19_atomic_example :
  let w := Atomic.run (init [] [Txn [(0,7);(1,7);(2,7)]; Req [0;1;2]; Txn [(0,9);(1,9);(2,9)]])
                      [0;1;0;1;2;0;1;0;0;1;1;1;1;2;2;2;2;2;1;2;2;2;2;2]%nat in
  map (fun t => (finished t, obs t)) (threads w)
  = [(true, []); (true, [Some 7; Some 7; Some 7]); (true, [])].
Proof. vm_compute. reflexivity. Qed.
