(* C18 - The C ABI reports and forwards exactly what the Rust API would.
   Only statements, closed by `exact`, each followed by Print Assumptions.
   All tables are REGENERATED from the sources on every run (Gen/FfiTables.v). *)
From Coq Require Import NArith List String Bool.
From Rodbus Require Import Gen.FfiTables Model.Ffi Spec.FfiSpec Proofs.FfiProofs.
Import ListNotations.
Local Open Scope string_scope.

(* Every value of every enum that crosses the boundary is converted to its same-named counterpart
   (names compared modulo '_' and case; RequestError admits the three aliases Io/IoError,
   BadFrame/BadFraming, Internal/InternalError; an exception e becomes ModbusException<e>; parameter
   errors admit the documented renamings of Spec/FfiSpec.v). Exhaustive case analysis on the
   generated inductives: Rust-side variants from the rodbus sources, C-side variants from the schema. *)
Theorem C18_names :
  (forall e, exception_name_ok (name_rust_exception_code e) (name_ffi_request_error (exception_to_ffi e)) = true) /\
  (forall e, match e with
             | RRE_Exception x => exception_name_ok (name_rust_exception_code x) (name_ffi_request_error (request_error_to_ffi e))
             | _ => request_error_name_ok (name_rust_request_error e) (name_ffi_request_error (request_error_to_ffi e))
             end = true) /\
  (forall s, same_name (name_rust_client_state s) (name_ffi_client_state (client_state_to_ffi s)) = true) /\
  (forall s, same_name (name_rust_port_state s) (name_ffi_port_state (port_state_to_ffi s)) = true) /\
  (forall l, same_name (name_ffi_app_decode_level l) (name_rust_app_decode_level (app_decode_from_ffi l)) = true) /\
  (forall l, same_name (name_ffi_frame_decode_level l) (name_rust_frame_decode_level (frame_decode_from_ffi l)) = true) /\
  (forall l, same_name (name_ffi_phys_decode_level l) (name_rust_phys_decode_level (physical_decode_from_ffi l)) = true) /\
  (forall a, same_name (name_ffi_authorization a) (name_rust_authorization (authorization_from_ffi a)) = true) /\
  (forall v, same_name (name_ffi_min_tls_version v) (name_rust_min_tls_version (min_tls_from_ffi v)) = true) /\
  (forall m, same_name (name_ffi_certificate_mode m) (name_rust_certificate_mode (cert_mode_from_ffi m)) = true) /\
  (forall x, same_name (name_ffi_data_bits x) (name_rust_data_bits (data_bits_from_ffi x)) = true) /\
  (forall x, same_name (name_ffi_flow_control x) (name_rust_flow_control (flow_control_from_ffi x)) = true) /\
  (forall x, same_name (name_ffi_parity x) (name_rust_parity (parity_from_ffi x)) = true) /\
  (forall x, same_name (name_ffi_stop_bits x) (name_rust_stop_bits (stop_bits_from_ffi x)) = true) /\
  (forall e, param_error_name_ok (name_rust_tls_error e) (name_ffi_param_error (tls_error_to_ffi e)) = true) /\
  (forall e, param_error_name_ok (name_rust_ffi_channel_error e) (name_ffi_param_error (ffi_channel_error_to_ffi e)) = true).
Proof. exact names_all. Qed.
Print Assumptions C18_names.

(* the theorem above covers every conversion table the translator found *)
Theorem C18_names_cover_all_tables : conversion_tables =
  ["data_bits_from_ffi"; "flow_control_from_ffi"; "parity_from_ffi"; "stop_bits_from_ffi"; "exception_to_ffi"; "request_error_to_ffi";
   "client_state_to_ffi"; "port_state_to_ffi"; "app_decode_from_ffi"; "frame_decode_from_ffi"; "physical_decode_from_ffi";
   "authorization_from_ffi"; "min_tls_from_ffi"; "cert_mode_from_ffi"; "tls_error_to_ffi"].
Proof. exact tables_covered. Qed.
Print Assumptions C18_names_cover_all_tables.

(* All 256 exception bytes: a reply with exception code b reaches the C callback as
   ModbusException<standard name of b> (Unknown outside the nine standard codes), and the byte
   survives ExceptionCode::from / u8::from unchanged. *)
Theorem C18_exception_bytes : forall b, (b < 256)%N ->
  name_rust_exception_code (exception_from_u8 b) = standard_exception_name b /\
  name_ffi_request_error (request_error_to_ffi (RRE_Exception (exception_from_u8 b))) = "ModbusException" ++ standard_exception_name b /\
  exception_to_u8 (exception_from_u8 b) = b.
Proof. exact exception_bytes. Qed.
Print Assumptions C18_exception_bytes.

(* no error is ever reported as Ok; distinct error kinds stay distinct; distinct client states stay distinct *)
Theorem C18_errors_stay_errors : forall e, request_error_to_ffi e <> FRE_Ok.
Proof. exact request_error_never_ok. Qed.
Print Assumptions C18_errors_stay_errors.

Theorem C18_error_kinds_distinct : forall a b,
  request_error_to_ffi a = request_error_to_ffi b -> name_rust_request_error a = name_rust_request_error b.
Proof. exact request_error_injective_on_names. Qed.
Print Assumptions C18_error_kinds_distinct.

Theorem C18_client_states_distinct : forall a b, client_state_to_ffi a = client_state_to_ffi b -> a = b.
Proof. exact client_state_injective. Qed.
Print Assumptions C18_client_states_distinct.

(* For all four write methods of the server wrapper and EVERY WriteResult (success flag, C-side
   exception, raw byte): the handler result is convert_to_result of the callback's value, and the
   exception byte put on the wire is the Spec's: none on success, the standard code of the
   same-named exception, or the raw byte for Unknown. (This is the theorem the F4 defect broke.) *)
Theorem C18_write_result : forall w, In w write_wrappers -> forall s e r,
  wrapper_result w (Some (s, e, r)) = Some (convert_to_result s e r) /\
  option_map reply_exception_byte (wrapper_result w (Some (s, e, r))) = write_result_spec s (name_ffi_modbus_exception e) r /\
  ww_callback w = ww_method w.
Proof. exact write_result_forwarded. Qed.
Print Assumptions C18_write_result.

Theorem C18_write_wrappers_are_the_four :
  map ww_method write_wrappers = ["write_single_coil"; "write_single_register"; "write_multiple_coils"; "write_multiple_registers"].
Proof. exact (proj1 wrappers_shape). Qed.
Print Assumptions C18_write_wrappers_are_the_four.

Theorem C18_write_callback_unset : forall w, In w write_wrappers -> wrapper_result w None = Some (Some REC_IllegalFunction).
Proof. exact write_result_callback_unset. Qed.
Print Assumptions C18_write_callback_unset.

(* what a client decodes from that reply is the callback's exception again (or ExceptionCode::from(raw)) *)
Theorem C18_write_result_roundtrip : forall e raw, (raw < 256)%N ->
  match convert_to_result false e raw with
  | Some r => exception_from_u8 (exception_to_u8 r) =
              (if String.eqb (name_ffi_modbus_exception e) "Unknown" then exception_from_u8 raw else r)
  | None => False
  end.
Proof. exact write_result_roundtrip. Qed.
Print Assumptions C18_write_result_roundtrip.

(* Completion callbacks. For each of the eight client request functions (statement order regenerated
   from ffi client.rs and rodbus ffi_channel.rs), every callback kind, and every call that passes
   parameter validation - count above the read limit or not, queue accepted / full / closed, and ANY
   behaviour of the client task on an accepted command (complete it once or several times, drop it
   early, never touch it) - the returned code and the callback invocations are exactly:
     over the read limit -> InvalidRange + one on_failure(Shutdown)
     queue full          -> TooManyRequests + one on_failure(Shutdown)
     channel closed      -> Shutdown + one on_failure(Shutdown)
     accepted            -> Ok + ONE invocation carrying the first completion (the Rust API's result,
                            errors mapped by request_error_to_ffi), or on_failure(Shutdown) if dropped. *)
Theorem C18_once : forall rq, In rq client_calls -> forall ft, In ft future_types -> forall env,
  null_args env = [] /\ failing_validation env = None ->
  ffi_call ft rq env = expected ft (is_read (fst rq)) env.
Proof. exact (fun rq Hin ft Hft => once_all rq Hin ft (future_types_ok ft Hft)). Qed.
Print Assumptions C18_once.

Theorem C18_once_exactly : forall rq, In rq client_calls -> forall ft, In ft future_types -> forall env,
  null_args env = [] /\ failing_validation env = None ->
  exists ev, snd (ffi_call ft rq env) = [ev] /\ ev <> ShapeUnknown.
Proof. exact (fun rq Hin ft Hft => once_exactly rq Hin ft (future_types_ok ft Hft)). Qed.
Print Assumptions C18_once_exactly.

(* Calls rejected by parameter validation (null channel, AddressRange::try_from / WriteMultiple::from
   failing) return the error code and invoke NO completion callback (observation, DESIGN.md section 7). *)
Theorem C18_param_error : forall rq, In rq client_calls -> forall ft env,
  (In "channel" (null_args env) -> ffi_call ft rq env = (FPE_NullParameter, [])) /\
  (null_args env = [] -> forall w, failing_validation env = Some w -> In (Validate w) (snd rq) ->
     ffi_call ft rq env = (validation_error w, []) /\ validation_error w <> FPE_Ok).
Proof. exact param_error_no_callback. Qed.
Print Assumptions C18_param_error.

Theorem C18_client_calls_are_the_eight : map fst client_calls =
  ["read_coils"; "read_discrete_inputs"; "read_holding_registers"; "read_input_registers";
   "write_single_coil"; "write_single_register"; "write_multiple_coils"; "write_multiple_registers"].
Proof. exact client_calls_are_the_eight. Qed.
Print Assumptions C18_client_calls_are_the_eight.

(* Plain data crossing the boundary (index/value pairs, address ranges, unit id, response timeout, retry
   delays): every Rust-side field or constructor parameter is fed by the C-side field the Spec names
   (table regenerated from conversions.rs / client.rs, parameter names from types.rs / retry.rs). *)
Theorem C18_fields : field_forwarding = field_spec.
Proof. exact fields_forwarded. Qed.
Print Assumptions C18_fields.

(* The C-ABI constructors (client tcp / rtu / tls, server tcp / rtu / tls with and without authorization): every
   parameter of the Rust constructor they call is fed by the same-named C argument through .into() / `as usize` /
   the address helpers (table regenerated from ffi client.rs / server.rs with the parameter names of
   rodbus client/mod.rs and server/mod.rs): max_queued_requests, max_sessions, retry, decode level, listener,
   serial settings, TLS config, handler map, filter. *)
Theorem C18_ctor_plumbing :
  forallb plumbing_row_ok ctor_plumbing = true /\
  forallb (fun c => existsb (fun row : string * string * string * string => let '(f, callee, _, _) := row in
                                String.eqb f (fst c) && String.eqb callee (snd c)) ctor_plumbing) ctor_spec = true /\
  List.length (dedup (map (fun row : string * string * string * string => let '(f, callee, _, _) := row in (f, callee)) ctor_plumbing))
    = List.length ctor_spec.
Proof. exact ctor_plumbing_ok. Qed.
Print Assumptions C18_ctor_plumbing.

(* non-vacuity *)
Example C18_once_example :
  let env := {| null_args := []; failing_validation := None; over_limit := false; send := Accepted;
                task := [TComplete (RErr (RRE_Exception (REC_Unknown 200))); TComplete ROk] |} in
  map (fun rq => ffi_call (hd (Build_future_type "" None false false) future_types) rq env) (firstn 1 client_calls)
  = [(FPE_Ok, [OnFailure FRE_ModbusExceptionUnknown])].
Proof. vm_compute. reflexivity. Qed.

Example C18_write_example :
  map (fun w => wrapper_result w (Some (false, FME_ServerDeviceBusy, 0%N))) write_wrappers
  = [Some (Some REC_ServerDeviceBusy); Some (Some REC_ServerDeviceBusy); Some (Some REC_ServerDeviceBusy); Some (Some REC_ServerDeviceBusy)].
Proof. vm_compute. reflexivity. Qed.
