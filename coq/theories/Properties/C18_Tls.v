(* C18: the TLS configuration passes through the C ABI unchanged.
   Only statements, closed by `exact`, each followed by Print Assumptions. *)
From Coq Require Import NArith List String Bool.
From Rodbus Require Import Gen.FfiTables Spec.FfiSpec Model.FfiTls.
From Rodbus Require Proofs.FfiTlsProofs.
Import ListNotations.
Local Open Scope string_scope.
Module P := Rodbus.Proofs.FfiTlsProofs.

(* For EVERY C-side client configuration (certificate mode, dns_name, allow_server_name_wildcard, password, minimum
   version; valid UTF-8) and whatever the Rust constructors answer (R): rodbus_client_channel_create_tls - the conversion
   regenerated from client.rs - returns the result of the ONE Rust API call the Spec names (full_pki with the name
   verbatim, None only for "*" with the flag set; self_signed; empty password = none; same-named minimum version):
   Ok when it succeeds, else the ParamError named like its TlsError (BadConfig -> BadTlsConfig, the documented renaming). *)
Theorem C18_tls_client_config : forall R c, exists call,
  tls_client_spec (client_in c) = Some call /\ ffi_tls_client_create R c = Some (ffi_result (R call)).
Proof. exact P.tls_client_create_is_rust. Qed.
Print Assumptions C18_tls_client_config.

(* in particular "*" WITHOUT the flag is handed to full_pki as the expected name (which the Rust API refuses with
   InvalidDnsName - the live runs show that); only with the flag is name verification switched off *)
Theorem C18_tls_wildcard_needs_flag : forall R dns wc pw mn,
  ffi_tls_client_create R {| cc_mode := FCM_AuthorityBased; cc_dns_name := dns; cc_wildcard := wc; cc_password := pw; cc_min := mn |}
  = Some (ffi_result (R {| tc_ctor := "full_pki"; tc_name := if wc && String.eqb dns "*" then None else Some dns; tc_files := tls_files;
                           tc_password := opt_of_string pw; tc_min := name_rust_min_tls_version (min_tls_from_ffi mn); tc_mode := None |})).
Proof. exact P.tls_wildcard_needs_flag. Qed.
Print Assumptions C18_tls_wildcard_needs_flag.

(* the same for rodbus_server_create_tls / _with_authz and TlsServerConfig::new (same-named certificate mode) *)
Theorem C18_tls_server_config : forall R c, exists call,
  tls_server_spec (server_in c) = Some call /\ ffi_tls_server_config R c = Some (ffi_result (R call)).
Proof. exact P.tls_server_config_is_rust. Qed.
Print Assumptions C18_tls_server_config.

Theorem C18_tls_result_names :
  ffi_result None = FPE_Ok /\ forall e, param_error_name_ok (name_rust_tls_error e) (name_ffi_param_error (ffi_result (Some e))) = true /\ ffi_result (Some e) <> FPE_Ok.
Proof. exact P.tls_result_same_named. Qed.
Print Assumptions C18_tls_result_names.
