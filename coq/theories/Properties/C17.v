(* C17 - Multi-drop discipline: silent unless addressed; broadcast writes reach all units.
   Only statements, closed by `exact`, each followed by Print Assumptions.

   dest = DBroadcast iff the address byte of a serial frame is 0 (serial/frame.rs; on TCP 0 is an
   ordinary unit id). NoAuth is the only configuration an RTU server can have; with an
   authorization handler the single exception to C17_silent is the deny veto (C08_deny_unconfigured). *)
From Coq Require Import NArith Arith List String.
From Rodbus Require Import Base.Outcome Base.ServerTypes Model.Server Model.ServerRender Model.ServerExec Spec.Modbus
  Proofs.ServerParse Proofs.ServerProofs Proofs.ServerProps Proofs.ServerTheorems.
Import ListNotations.
Local Open Scope N_scope.

(* a reply implies a frame addressed to a configured unit id - whatever the frame carries (valid,
   failing in the handler, malformed, unsupported function, empty) *)
Theorem C17_silent : forall (St : Type) (H : handler St) l units fr, frame_ok l fr ->
  reply_of (handle_frame H l NoAuth units fr) <> Ok [] -> exists u, f_dest fr = DUnit u /\ lookup u units <> None.
Proof. exact @silent. Qed.
Print Assumptions C17_silent.

(* over a whole connection, against the unit ids the server was configured with *)
Theorem C17_silent_session : forall (St : Type) (H : handler St) l units frames, Forall (frame_ok l) frames ->
  Forall2 (fun fr reply => reply <> [] -> exists u, f_dest fr = DUnit u /\ In u (map fst units))
          frames (fst (fst (fst (session H l NoAuth units frames)))).
Proof. exact @silent_session. Qed.
Print Assumptions C17_silent_session.

(* a broadcast is never answered - not even with an exception - under any authorization *)
Theorem C17_broadcast_never_answered : forall (St : Type) (H : handler St) l a units fr, frame_ok l fr ->
  f_dest fr = DBroadcast -> reply_of (handle_frame H l a units fr) = Ok [].
Proof. exact @broadcast_never_answered. Qed.
Print Assumptions C17_broadcast_never_answered.

(* a valid broadcast write: every configured unit's handler receives exactly one call with the
   decoded arguments, in unit id order, each unit's state is the handler's new state - whether or
   not the handler returned an exception - and nothing is answered *)
Theorem C17_broadcast_write : forall (St : Type) (H : handler St) l units fr fc r, frame_ok l fr ->
  f_dest fr = DBroadcast -> decode (f_pdu fr) = Valid fc r -> is_write r = true ->
  let x := handle_frame H l NoAuth units fr in
  reply_of x = Ok [] /\ log_of x = flat_map (fun us => write_call (fst us) r) units /\
  units_of x = map (fun us => (fst us, fst (apply_write H (snd us) r))) units.
Proof. exact @broadcast_write. Qed.
Print Assumptions C17_broadcast_write.

(* a broadcast read, or a malformed / unsupported / empty broadcast: no call, no change, no answer *)
Theorem C17_broadcast_other : forall (St : Type) (H : handler St) l units fr, frame_ok l fr ->
  f_dest fr = DBroadcast -> (forall fc r, decode (f_pdu fr) = Valid fc r -> is_write r = false) ->
  let x := handle_frame H l NoAuth units fr in reply_of x = Ok [] /\ log_of x = [] /\ units_of x = units.
Proof. exact @broadcast_other. Qed.
Print Assumptions C17_broadcast_other.

(* non-vacuity: units 1 and 5 (unit 5 refuses register 0 with exception 4). Broadcast write single
   register reaches both, once, in order, no answer; broadcast read ignored; malformed request to
   the unconfigured unit 2 is not answered; unit 5 then reports the refusal only for its own request *)
Example C17_nonvacuous :
  run_model (LRtu, [mku 1 3 5 [] [] [] [] [] []; mku 5 3 5 [] [(1, 0, 4)] [] [] [] []], CNone,
             [mkf None DBroadcast [6; 0; 0; 18; 52]; mkf None DBroadcast [3; 0; 0; 0; 1]; mkf None (DUnit 2) [1; 0; 0; 0; 0];
              mkf None (DUnit 5) [6; 0; 0; 18; 52]; mkf None (DUnit 1) [3; 0; 0; 0; 1]])
  = "-,-,-,0586040262,0103021234B533|wsr.1.0.4660;wsr.5.0.4660;wsr.5.0.4660;rh.1.0-0|open"%string.
Proof. vm_compute. reflexivity. Qed.
