(* C17 - Multi-drop discipline: silent unless addressed; broadcast writes reach all units.
   Only statements, closed by `exact`, each followed by Print Assumptions.

   dest = DBroadcast iff the address byte of a serial frame is 0 (serial/frame.rs; on TCP 0 is an
   ordinary unit id). NoAuth is the only configuration an RTU server can have; with an
   authorization handler the single exception to C17_silent is the deny veto (C08_deny_unconfigured). *)
From Coq Require Import NArith Arith List String.
From Rodbus Require Import Base.Outcome Base.ServerTypes Model.Server Model.ServerRender Model.ServerExec Spec.Modbus
  Proofs.ServerParse Proofs.ServerProofs Proofs.ServerProps Proofs.ServerTheorems Proofs.ReaderTies.
Import ListNotations.
Local Open Scope N_scope.

(* a reply implies a frame addressed to a configured unit id - whatever the frame carries (valid,
   failing in the handler, malformed, unsupported function, empty) *)
Theorem C17_silent : forall (St : Type) (H : handler St) l units fr, frame_ok l fr ->
  reply_of (handle_frame H l NoAuth units fr) <> Ok [] -> exists u, f_dest fr = DUnit u /\ lookup u (u_map units) <> None.
Proof. exact @silent. Qed.
Print Assumptions C17_silent.

(* over a whole connection, against the unit ids the server was configured with *)
Theorem C17_silent_session : forall (St : Type) (H : handler St) l units frames, Forall (frame_ok l) frames ->
  Forall2 (fun fr reply => reply <> [] -> exists u, f_dest fr = DUnit u /\ In u (map fst (u_map units)))
          frames (fst (fst (fst (session H l NoAuth units frames)))).
Proof. exact @silent_session. Qed.
Print Assumptions C17_silent_session.

(* a broadcast is never answered - not even with an exception - under any authorization *)
Theorem C17_broadcast_never_answered : forall (St : Type) (H : handler St) l a units fr, frame_ok l fr ->
  f_dest fr = DBroadcast -> reply_of (handle_frame H l a units fr) = Ok [].
Proof. exact @broadcast_never_answered. Qed.
Print Assumptions C17_broadcast_never_answered.

(* a valid broadcast write: one call with the decoded arguments per configured UNIT ID, in unit id
   order, each on the handler object that unit id maps to; the states are those of applying the
   write unit id by unit id (broadcast_store) - whether or not a handler returned an exception -
   and nothing is answered *)
Theorem C17_broadcast_write : forall (St : Type) (H : handler St) l units fr fc r, frame_ok l fr ->
  f_dest fr = DBroadcast -> decode (f_pdu fr) = Valid fc r -> is_write r = true ->
  let x := handle_frame H l NoAuth units fr in
  reply_of x = Ok [] /\ log_of x = flat_map (fun uh => write_call (snd uh) r) (u_map units) /\
  units_of x = with_store units (broadcast_store H r (u_map units) (u_store units)).
Proof. exact @broadcast_write. Qed.
Print Assumptions C17_broadcast_write.

(* "applied exactly once to every configured unit": when no two unit ids share a handler object,
   every configured object gets the write exactly once and nothing else changes *)
Theorem C17_broadcast_once : forall (St : Type) (H : handler St) r m g h, NoDup (map snd m) ->
  broadcast_store H r m g h = if in_dec N.eq_dec h (map snd m) then fst (apply_write H (g h) r) else g h.
Proof. exact @broadcast_store_distinct. Qed.
Print Assumptions C17_broadcast_once.

(* ... and what the code does when two unit ids DO share one object (ServerHandlerMap allows it;
   `handlers.values_mut()` visits map entries): the object is written twice, the second time on the
   state the first write left. Stated, not judged: "once to every configured unit" is met per unit
   id, not per object. *)
Theorem C17_broadcast_shared_twice : forall (St : Type) (H : handler St) r u1 u2 h g,
  broadcast_store H r [(u1, h); (u2, h)] g h = fst (apply_write H (fst (apply_write H (g h) r)) r).
Proof. exact @broadcast_store_shared. Qed.
Print Assumptions C17_broadcast_shared_twice.

(* a broadcast read, or a malformed / unsupported / empty broadcast: no call, no change, no answer *)
Theorem C17_broadcast_other : forall (St : Type) (H : handler St) l units fr, frame_ok l fr ->
  f_dest fr = DBroadcast -> (forall fc r, decode (f_pdu fr) = Valid fc r -> is_write r = false) ->
  let x := handle_frame H l NoAuth units fr in reply_of x = Ok [] /\ log_of x = [] /\ units_of x = units.
Proof. exact @broadcast_other. Qed.
Print Assumptions C17_broadcast_other.

(* a request addressed to a unit id acts on exactly the handler object that unit id maps to; every
   other object is untouched. So a write through unit 1 is visible through unit 2 iff both map to
   the same object. *)
Theorem C17_unit_effect : forall (St : Type) (H : handler St) l units fr fc r u h, frame_ok l fr ->
  f_dest fr = DUnit u -> lookup u (u_map units) = Some h -> decode (f_pdu fr) = Valid fc r ->
  let x := handle_frame H l NoAuth units fr in
  u_map (units_of x) = u_map units /\
  u_store (units_of x) h = fst (fst (ref_exec H fc h (u_store units h) r)) /\
  (forall k, k <> h -> u_store (units_of x) k = u_store units k).
Proof. exact @unit_effect. Qed.
Print Assumptions C17_unit_effect.

(* across RTU port re-opens the SAME reader is used: a framing error resets the parser, so the destination of a
   damaged frame is never attached to the next frame on the bus (regenerated from common/frame.rs) *)
Theorem C17_reader_resets_on_error :
  Gen.ReaderLoop.next_frame_resets_parser_on_entry = false /\ Gen.ReaderLoop.next_frame_resets_parser_on_error = true /\
  Gen.ReaderLoop.read_some_compaction =
    ["let length = self.len()"; "self.buffer.copy_within(self.begin..self.end, 0)"; "self.begin = 0"; "self.end = length"]%string.
Proof. exact reader_loop_shape. Qed.
Print Assumptions C17_reader_resets_on_error.

(* non-vacuity: units 1 and 5 (unit 5 refuses register 0 with exception 4). Broadcast write single
   register reaches both, once, in order, no answer; broadcast read ignored; malformed request to
   the unconfigured unit 2 is not answered; unit 5 then reports the refusal only for its own request *)
Example C17_nonvacuous :
  run_model (LRtu, [(1, 1); (5, 5)], [mku 1 3 5 [] [] [] [] [] []; mku 5 3 5 [] [(1, 0, 4)] [] [] [] []], CNone,
             [mkf None DBroadcast [6; 0; 0; 18; 52]; mkf None DBroadcast [3; 0; 0; 0; 1]; mkf None (DUnit 2) [1; 0; 0; 0; 0];
              mkf None (DUnit 5) [6; 0; 0; 18; 52]; mkf None (DUnit 1) [3; 0; 0; 0; 1]])
  = "-,-,-,0586040262,0103021234B533|wsr.1.0.4660;wsr.5.0.4660;wsr.5.0.4660;rh.1.0-0|open"%string.
Proof. vm_compute. reflexivity. Qed.

(* non-vacuity, shared object: unit ids 1 and 2 hold the same handler object (index 1), unit 3 its
   own. A write through unit 1 is read back through unit 2 (0x1234) but not through unit 3; a
   broadcast write calls the shared object twice and unit 3's once. *)
Example C17_shared_nonvacuous :
  run_model (LRtu, [(1, 1); (2, 1); (3, 3)], [mku 1 3 5 [] [] [] [] [] []; mku 3 3 5 [] [] [] [] [] []], CNone,
             [mkf None (DUnit 1) [6; 0; 0; 18; 52]; mkf None (DUnit 2) [3; 0; 0; 0; 1]; mkf None (DUnit 3) [3; 0; 0; 0; 1];
              mkf None DBroadcast [6; 0; 9; 0; 1]])
  = "01060000123484BD,0203021234F133,03030207A7820E,-|wsr.1.0.4660;rh.1.0-0;rh.3.0-0;wsr.1.9.1;wsr.1.9.1;wsr.3.9.1|open"%string.
Proof. vm_compute. reflexivity. Qed.
