(* C01 for servers created through the C ABI (rodbus_server_create_tcp / _tls / _rtu with C callbacks).
   Model/FfiServer.v `ffi_handler W` (p5) is the C-ABI request handler - the database reads and the four write callbacks
   with their WriteResult turned into the handler result through the conversion tables regenerated in Gen/FfiTables.v -
   as an INSTANCE of the application interface of the server core. So the C01 refinement applies to it, and the
   reply to a write is the Spec's reply for the exception the callback returned: success -> echo, a standard
   exception -> its protocol code, Unknown -> the raw code, callback not set -> 01.
   Only statements, closed by `exact`, each followed by Print Assumptions. *)
From Coq Require Import NArith List String.
From Rodbus Require Import Base.Outcome Base.ServerTypes Model.Server Spec.Modbus Proofs.ServerParse Proofs.ServerProofs Proofs.ServerProps
  Gen.FfiTables Model.DbTypes Spec.FfiServerSpec Model.FfiServerDefs.
From Rodbus Require Model.Database Model.FfiServer Proofs.FfiServerSystemProofs.
Import ListNotations.
Local Open Scope N_scope.
Module P := Rodbus.Proofs.FfiServerSystemProofs.
Notation ffi_handler := FfiServer.ffi_handler.
Notation database := Database.database.
Notation c_write_handler := FfiServer.c_write_handler.

(* every frame, every application (C callbacks over any application state), every unit map and policy: the C-ABI
   server replies exactly as the reference server does over that handler *)
Theorem C01_ffi_server_frame : forall (A : Type) (W : c_write_handler A) l a (units : ucfg (database * A)) fr, frame_ok l fr ->
  handle_frame (ffi_handler W) l a units fr = lift3 (ref_handle_frame (ffi_handler W) l a units fr).
Proof. exact (fun A W => @handle_frame_refines _ (ffi_handler W)). Qed.
Print Assumptions C01_ffi_server_frame.

(* the reply to a permitted, well-formed write to a served unit, spelled out over the C enum *)
Theorem C01_ffi_write_reply : forall (A : Type) (W : c_write_handler A) l a (units : ucfg (database * A)) fr u h d app fc r,
  frame_ok l fr -> f_dest fr = DUnit u -> lookup u (u_map units) = Some h -> u_store units h = (d, app) ->
  decode (f_pdu fr) = Valid fc r -> is_write r = true -> fst (authorize a u r) = true ->
  reply_of (handle_frame (ffi_handler W) l a units fr) =
    Ok (adu l (f_tx fr) u
          match callback_outcome W app d r with
          | None => exception_pdu fc 1
          | Some (_, _, (true, _, _)) => fc :: write_echo r
          | Some (_, _, (false, FME_Unknown, raw)) => exception_pdu fc raw
          | Some (_, _, (false, e, _)) => exception_pdu fc (ffi_modbus_exception_value e)
          end).
Proof. exact P.system_write_reply_cases. Qed.
Print Assumptions C01_ffi_write_reply.
