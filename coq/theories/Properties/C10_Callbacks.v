(* C10 on the submit paths: every call of a request method - through the future-style Channel, the callback-style
   CallbackSession or the C ABI - delivers exactly one completion, also when the arguments are rejected BEFORE anything
   is queued, when the queue is full and when the channel task is gone.
   Only statements, closed by `exact`, each followed by Print Assumptions. *)
From Coq Require Import NArith List String Bool.
From Rodbus Require Import Gen.FfiTables Gen.SubmitPaths Model.Ffi Model.SubmitPaths Spec.SubmitSpec.
From Rodbus Require Proofs.SubmitPathsProofs.
Import ListNotations.
Local Open Scope string_scope.
Module P := Rodbus.Proofs.SubmitPathsProofs.

(* CallbackSession (statement order regenerated from client/channel.rs): for each of the eight request methods, for
   arguments that pass or fail the pre-queue validation, a live or dead channel task and ANY behaviour of the task on the
   command, the caller's callback is invoked exactly once, with: BadRequest when the range is rejected (nothing is
   queued), Shutdown when the task is gone, else the task's first completion (Shutdown if the task drops it). *)
Theorem C10_callback_once : forall m, In m request_methods -> forall env,
  delivered_exactly cb_out (cb_call m env)
    (Done (submit_spec result (RErr RRE_BadRequest) (RErr RRE_Shutdown) (valid env || negb (validated m)) (reaches_task env)
                       (first_completion (stask env)))).
Proof. exact P.callback_once. Qed.
Print Assumptions C10_callback_once.

(* Channel (future style): the awaited call returns that same completion *)
Theorem C10_future_once : forall m, In m request_methods -> forall env,
  fut_call m env = Some (submit_spec result (RErr RRE_BadRequest) (RErr RRE_Shutdown) (valid env || negb (validated m)) (reaches_task env)
                                     (first_completion (stask env))).
Proof. exact P.future_once. Qed.
Print Assumptions C10_future_once.

(* C ABI (Model/Ffi.v over the statement order regenerated from ffi client.rs and FfiChannel): for every call with
   non-null arguments - valid or not, over the read limit, queue accepted / full / closed, any task behaviour - the
   completion callback fires at most once, exactly once when the function returned Ok, and a call that fires nothing
   returned an error code *)
Theorem C10_ffi_once : forall rq, In rq client_calls -> forall ft, In ft future_types -> forall env,
  null_args env = [] ->
  (failing_validation env = None \/ exists w, failing_validation env = Some w /\ In (Validate w) (snd rq)) ->
  c_abi_completion_ok (match fst (ffi_call ft rq env) with FPE_Ok => true | _ => false end) (List.length (snd (ffi_call ft rq env))).
Proof. exact P.ffi_completion. Qed.
Print Assumptions C10_ffi_once.

(* the three tables cover the same eight methods *)
Theorem C10_submit_paths_cover :
  map fst callback_methods = request_methods /\ map fst future_methods = request_methods /\ map fst client_calls = request_methods.
Proof. exact P.methods_complete. Qed.
Print Assumptions C10_submit_paths_cover.

(* "Shutdown only when the task is gone" needs the task not to go by itself: every `return Shutdown` of
   TcpChannelTask::run_inner (regenerated) is guarded by Err(Shutdown) of wait_for_enabled / try_connect_and_run -
   a disable, a failed connect or a lost connection never ends the channel task *)
Theorem C10_tcp_task_ends_only_on_shutdown : exits_only_on_shutdown tcp_run_inner_exits = true /\ tcp_run_inner_exits <> [].
Proof. exact P.task_exits. Qed.
Print Assumptions C10_tcp_task_ends_only_on_shutdown.
