(* C14 - Reconnect delays follow the retry strategy: doubling, capped, reset on success.
   Only statements, closed by `exact`, each followed by Print Assumptions. *)
From Coq Require Import NArith List.
From Rodbus Require Import Model.Retry Spec.RetrySpec Proofs.RetryProofs Gen.Defaults.
Import ListNotations.
Local Open Scope N_scope.

(* For every min <= max (with 2*max representable as a Duration) and EVERY sequence of
   after_failed_connect / after_disconnect / reset calls, the strategy object returns exactly the
   Spec's values: failed connect number k since the last reset -> min(min * 2^(k-1), max);
   disconnect -> min; reset restarts the sequence. *)
Theorem C14_strategy : forall mn mx, mn <= mx -> 2 * mx <= dur_max ->
  forall ops, run (create mn mx) ops = Some (spec mn mx 0 ops).
Proof. exact strategy_from_create. Qed.
Print Assumptions C14_strategy.

Theorem C14_invariant : forall mn mx, mn <= mx -> 2 * mx <= dur_max ->
  forall ops k d, dmin d = mn -> dmax d = mx -> cur d = delay_spec mn mx k ->
  run d ops = Some (spec mn mx k ops).
Proof. exact strategy_refines. Qed.
Print Assumptions C14_invariant.

Theorem C14_no_panic : forall mn mx, mn <= mx -> 2 * mx <= dur_max ->
  forall ops, run (create mn mx) ops <> None.
Proof. exact strategy_no_panic. Qed.
Print Assumptions C14_no_panic.

Theorem C14_bounds : forall mn mx k, mn <= mx -> mn <= delay_spec mn mx k <= mx.
Proof. exact delay_bounds. Qed.
Print Assumptions C14_bounds.

(* the default strategy (constants regenerated from retry.rs) satisfies the hypotheses *)
Theorem C14_default_ok : default_retry_min <= default_retry_max /\ 2 * default_retry_max <= dur_max.
Proof. vm_compute. split; discriminate. Qed.
Print Assumptions C14_default_ok.

(* non-vacuity: a concrete run *)
Example C14_nonvacuous : run (create 1000 60000) [Fail; Fail; Disc; Fail; Reset; Fail]
  = Some [Some 1000; Some 2000; Some 1000; Some 4000; None; Some 1000].
Proof. vm_compute. reflexivity. Qed.
