(* C14 - Reconnect delays follow the retry strategy: doubling, capped, reset on success.
   Only statements, closed by `exact`, each followed by Print Assumptions. *)
From Coq Require Import NArith List.
From Rodbus Require Import Model.Retry Spec.RetrySpec Proofs.RetryProofs Gen.Defaults Gen.RetryArms Model.RetryTask Proofs.RetryTaskProofs.
Import ListNotations.
Local Open Scope N_scope.

(* For every min <= max (with 2*max representable as a Duration) and EVERY sequence of
   after_failed_connect / after_disconnect / reset calls, the strategy object returns exactly the
   Spec's values: failed connect number k since the last reset -> min(min * 2^(k-1), max);
   disconnect -> min; reset restarts the sequence. *)
Theorem C14_strategy : forall mn mx, mn <= mx -> 2 * mx <= dur_max ->
  forall ops, run (create mn mx) ops = Some (spec mn mx 0 ops).
Proof. exact strategy_from_create. Qed.
Print Assumptions C14_strategy.

Theorem C14_invariant : forall mn mx, mn <= mx -> 2 * mx <= dur_max ->
  forall ops k d, dmin d = mn -> dmax d = mx -> cur d = delay_spec mn mx k ->
  run d ops = Some (spec mn mx k ops).
Proof. exact strategy_refines. Qed.
Print Assumptions C14_invariant.

Theorem C14_no_panic : forall mn mx, mn <= mx -> 2 * mx <= dur_max ->
  forall ops, run (create mn mx) ops <> None.
Proof. exact strategy_no_panic. Qed.
Print Assumptions C14_no_panic.

Theorem C14_bounds : forall mn mx k, mn <= mx -> mn <= delay_spec mn mx k <= mx.
Proof. exact delay_bounds. Qed.
Print Assumptions C14_bounds.

(* the default strategy (constants regenerated from retry.rs) satisfies the hypotheses *)
Theorem C14_default_ok : default_retry_min <= default_retry_max /\ 2 * default_retry_max <= dur_max.
Proof. vm_compute. split; discriminate. Qed.
Print Assumptions C14_default_ok.

(* non-vacuity: a concrete run *)
Example C14_nonvacuous : run (create 1000 60000) [Fail; Fail; Disc; Fail; Reset; Fail]
  = Some [Some 1000; Some 2000; Some 1000; Some 4000; None; Some 1000].
Proof. vm_compute. reflexivity. Qed.

(* ---------------------------------------------------------------------------------------------
   Task level (Model/RetryTask.v: TCP/TLS client task, serial client task, RTU server task).
   The theorems hold for every variant, every task state and every event. *)

(* the delay announced to the listener is the delay armed, in the same step, right after it *)
Theorem C14_task_announced_is_armed : forall v t e t' o k d, tstep v t e = Some (t', o) -> In (OAnnounce k d) o ->
  (exists pre, o = pre ++ [OAnnounce k d; OArm d]) /\ phase t' = Waiting d.
Proof. exact announce_then_arm. Qed.
Print Assumptions C14_task_announced_is_armed.

(* a client task arms no timer it has not announced (the RTU server has no listener) *)
Theorem C14_task_armed_was_announced : forall v t e t' o d, v <> RtuServer -> tstep v t e = Some (t', o) -> In (OArm d) o ->
  exists k pre, o = pre ++ [OAnnounce k d; OArm d].
Proof. exact arm_was_announced. Qed.
Print Assumptions C14_task_armed_was_announced.

(* while a delay d is pending nothing happens until that timer fires (or the channel is disabled):
   in particular no connect / open attempt *)
Theorem C14_task_waiting_is_quiet : forall v t e t' o d, phase t = Waiting d -> tstep v t e = Some (t', o) ->
  (t' = t /\ o = []) \/
  (e = Elapsed /\ o = [OElapsed d] /\ phase t' = Idle /\ strat t' = strat t) \/
  (e = Interrupt /\ o = [ODisabled] /\ phase t' = Idle /\ strat t' = strat t).
Proof. exact waiting_is_quiet. Qed.
Print Assumptions C14_task_waiting_is_quiet.

Theorem C14_task_attempt_only_when_idle : forall v t e t' o, tstep v t e = Some (t', o) -> In OAttempt o -> phase t = Idle.
Proof. exact attempt_only_when_idle. Qed.
Print Assumptions C14_task_attempt_only_when_idle.

(* reset happens exactly on a successful connect / open, together with the Connected / Open announcement *)
Theorem C14_task_reset_iff_success : forall v t e t' o, tstep v t e = Some (t', o) ->
  (In OReset o <-> (phase t = Idle /\ e = AttemptOk)) /\
  (In OReset o -> o = OAttempt :: on_success v /\ cur (strat t') = dmin (strat t') /\ phase t' = Up).
Proof. exact reset_iff_success. Qed.
Print Assumptions C14_task_reset_iff_success.

Theorem C14_task_up_iff_reset : forall v t e t' o, v <> RtuServer -> tstep v t e = Some (t', o) -> (In OUp o <-> In OReset o).
Proof. exact up_iff_success. Qed.
Print Assumptions C14_task_up_iff_reset.

(* for all min <= max and ALL event lists the task never panics, the delays it arms are exactly the
   Spec's delays for the strategy calls the event list amounts to, and (clients) the announced
   delays are the armed delays *)
Theorem C14_task : forall v mn mx, mn <= mx -> 2 * mx <= dur_max -> forall evs,
  exists t' o, trun v (tinit mn mx) evs = Some (t', o) /\
    armed o = somes (spec mn mx 0 (calls_of KIdle evs)) /\
    (v <> RtuServer -> announced o = armed o).
Proof. exact task_delays_from_init. Qed.
Print Assumptions C14_task.

(* the model's step function is defined from the generated table of the arms of the `match` on the session result in
   tcp/client.rs run_connection, serial/client.rs try_open_and_run and serial/server.rs run (Gen/RetryArms.v). In every
   task: every way a live session is lost (I/O error, bad frame, too many response timeouts) takes its delay from
   after_disconnect(), a failed attempt from after_failed_connect(), a disabled channel calls neither and does not wait,
   a closed channel ends the task, and a success resets. C14_task above is proved from these rows: a source in which one
   arm calls the other method regenerates the table and the proof stops compiling. *)
Theorem C14_task_arms : forall v,
  (forall k, session_arm v (end_of k) = ArmWait CallAfterDisconnect) /\
  session_arm v EndDisabled = ArmNoWait /\
  session_arm v EndShutdown = ArmShutdown /\
  failed_call v = CallAfterFailedConnect /\
  resets_on_success v = true.
Proof. exact (fun v => conj (lost_arm_is_after_disconnect v) (conj (disabled_arm_does_not_wait v) (conj (shutdown_arm_ends_the_task v)
              (conj (failed_attempt_is_after_failed_connect v) (success_resets v))))). Qed.
Print Assumptions C14_task_arms.

(* after a connection that ended in ANY of the three ways the next waits are min (after the disconnect), then
   min, 2 min, 4 min .. for the failed connects that follow: the success reset the back-off and the disconnect
   does not advance it *)
Theorem C14_task_after_any_loss : forall v mn mx k, mn <= mx -> 2 * mx <= dur_max ->
  exists t' o, trun v (tinit mn mx) [AttemptFails; Elapsed; AttemptFails; Elapsed; AttemptOk; Lost k; Elapsed; AttemptFails; Elapsed; AttemptFails; Elapsed; AttemptFails] = Some (t', o) /\
    armed o = [mn; N.min (2 * mn) mx; mn; mn; N.min (2 * mn) mx; N.min (4 * mn) mx].
Proof. exact after_any_loss. Qed.
Print Assumptions C14_task_after_any_loss.

Example C14_task_nonvacuous :
  option_map snd (trun TcpClient (tinit 20 70) [AttemptFails; Elapsed; AttemptFails; Elapsed; AttemptOk; Lost LMaxTimeouts; Elapsed; AttemptFails])
  = Some [OAttempt; OAnnounce AfterFailedConnect 20; OArm 20; OElapsed 20;
          OAttempt; OAnnounce AfterFailedConnect 40; OArm 40; OElapsed 40;
          OAttempt; OUp; OReset; OAnnounce AfterDisconnect 20; OArm 20; OElapsed 20;
          OAttempt; OAnnounce AfterFailedConnect 20; OArm 20].
Proof. vm_compute. reflexivity. Qed.
