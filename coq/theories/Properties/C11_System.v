(* C11 end to end: transaction ids on the wire and in the byte stream.
   Only statements, closed by `exact`, each followed by Print Assumptions. *)
From Coq Require Import NArith List.
From Rodbus Require Import Base.Outcome.
From Rodbus Require Base.Frame Base.ClientTypes Model.ClientRequest Model.ClientTask Model.Format
  Spec.ClientCodecSpec Spec.SystemClientSpec Model.SystemClient Proofs.C05Proofs Proofs.ClientSystemProofs.
Import ListNotations.
Module F := Rodbus.Base.Frame.
Module CT := Rodbus.Base.ClientTypes.
Module CR := Rodbus.Model.ClientRequest.
Module CS := Rodbus.Spec.ClientCodecSpec.
Module T := Rodbus.Model.ClientTask.
Module SS := Rodbus.Spec.SystemClientSpec.
Import SystemClient ClientSystemProofs.
Local Open Scope N_scope.

(* the encode direction (C11_txid composed with C03_exact): in ANY run of the task model the k-th
   request taken from the queue while connected (k = 0, 1, 2, ... without bound) is stamped with
   a transaction id tx such that, whatever the request is (unit id, API call with u16 arguments),
   if the encoder accepts it the bytes handed to the transport are exactly the protocol encoding
   with transaction id k mod 65536 - and the request was within the protocol limits *)
Theorem C11_system_encode : forall cfg mt hn rmin rmax es k tx id uid c bs,
  nth_error (stamp_pairs (snd (T.run cfg (T.init hn mt rmin rmax) es))) k = Some (tx, id) ->
  CT.call_wf c -> CR.client_submit Format.Tcp tx uid c = Ok bs ->
  bs = CS.ref_encode_tcp (N.of_nat k mod 65536) uid c /\ CS.within_limits c.
Proof. exact encode_kth. Qed.
Print Assumptions C11_system_encode.

(* frames with other transaction ids change nothing, at the level of bytes: any prefix of complete
   MBAP frames none of which carries the request's transaction id (stale replies, duplicates of
   earlier replies, unsolicited frames) can be deleted from the stream without changing what the
   request's caller observes (by C04_system this is what the real pipeline delivers) *)
Theorem C11_system_other_tx_skipped : forall mr t pre fs s fi,
  C05Proofs.framed pre fs -> Forall (fun f => SS.tx_is t f = false) fs ->
  SS.ref_client_result mr t (pre ++ s) fi = SS.ref_client_result mr t s fi.
Proof. exact other_tx_skipped. Qed.
Print Assumptions C11_system_other_tx_skipped.
