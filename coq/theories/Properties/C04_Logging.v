(* C04 / C07 / C20 on the logging paths: at decode levels above Nothing the library walks requests
   and replies - peer-controlled data - in Display impls (Model/ClientLogging.v: BitIteratorDisplay,
   RegisterIteratorDisplay, RequestDetailsDisplay / WriteMultipleIterator, the per-request
   handle_response logging, format_bytes). For every well-formed request / reply and EVERY
   AppDecodeLevel (Gen/DecodeLevels.v, regenerated from decode.rs) the walk returns without Panic,
   writes exactly the elements the decoder yields, and does not change the result.
   The iterator walks are shared with the server side (RequestDisplay of write-multiple requests,
   Loggable for BitWriter / RegisterWriter): C04_log_bits_walk / C04_log_registers_walk are stated
   for any validated range and any data of the right length.
   Only statements, closed by `exact`, each followed by Print Assumptions. *)
From Coq Require Import NArith List Arith.
From Rodbus Require Import Base.Outcome Base.ClientTypes Model.ClientRequest Model.ClientPaths Model.ClientLogging
  Spec.ClientCodecSpec Gen.DecodeLevels Proofs.ClientLoggingProofs.
Import ListNotations.
Local Open Scope N_scope.

(* BitIteratorDisplay over a validated range (also one ending at address 65535) and ceil(n/8) data
   bytes: the range, and at data_values exactly the n decoded bits at start .. start+n-1 *)
Theorem C04_log_bits_walk : forall lv bytes s n, range_wf (s, n) -> len bytes = bytes_for_bits n ->
  bit_iter_display lv bytes (s, n) = Ok (bits_log lv (s, n) (indexed s (bit_at bytes) n)).
Proof. exact bit_iter_display_spec. Qed.
Print Assumptions C04_log_bits_walk.

(* RegisterIteratorDisplay (RegisterIterator::next: exhaustion check first, then the index) *)
Theorem C04_log_registers_walk : forall lv bytes s n, range_wf (s, n) -> Forall is_u8 bytes -> len bytes = 2 * n ->
  reg_iter_display lv bytes (s, n) = Ok (regs_log lv (s, n) (indexed s (reg_at bytes) n)).
Proof. exact reg_iter_display_spec. Qed.
Print Assumptions C04_log_registers_walk.

(* "PDU TX": logging a request the API constructed (write-multiple: WriteMultipleIterator) never
   panics and writes the range and, at data_values, every value at its address *)
Theorem C04_log_request : forall lv c r, call_wf c -> build c = Ok r -> request_display lv r = Ok (request_log lv r).
Proof. exact request_display_spec. Qed.
Print Assumptions C04_log_request.

Theorem C04_log_request_elements : forall A (values : list A) start pos k d dv, (k < length values)%nat ->
  nth k (numbered start pos values) d = (start + pos + N.of_nat k, nth k values dv).
Proof. exact @numbered_nth. Qed.
Print Assumptions C04_log_request_elements.

(* "PDU RX": handle_response with its logging equals handle_response plus exactly the expected log
   (reads: the range and at data_values the very elements returned; writes: the echo at data_headers) *)
Theorem C04_log_response : forall lv r pdu, request_wf r -> Forall is_u8 pdu ->
  handle_response_logged lv r pdu =
  match handle_response r pdu with
  | Ok v => Ok (v, response_log lv r v)
  | Err e => Err e
  | Panic => Panic
  end.
Proof. exact handle_response_logged_spec. Qed.
Print Assumptions C04_log_response.

(* ... so it never panics, at any level ... *)
Theorem C04_log_no_panic : forall lv r pdu, request_wf r -> Forall is_u8 pdu -> handle_response_logged lv r pdu <> Panic.
Proof. exact logging_no_panic. Qed.
Print Assumptions C04_log_no_panic.

(* ... and the level has no effect on what the caller gets (C20 for this path) *)
Theorem C04_log_no_effect : forall lv lv' r pdu, request_wf r -> Forall is_u8 pdu ->
  omap fst (handle_response_logged lv r pdu) = omap fst (handle_response_logged lv' r pdu) /\
  omap fst (handle_response_logged lv r pdu) = handle_response r pdu.
Proof. exact logging_no_effect. Qed.
Print Assumptions C04_log_no_effect.

(* format_bytes (frame / physical level dumps): every byte once, in order *)
Theorem C04_log_format_bytes : forall bytes, concat (format_bytes bytes) = bytes.
Proof. exact format_bytes_concat. Qed.
Print Assumptions C04_log_format_bytes.

(* non-vacuity: a reply whose range ends at address 65535, logged at DataValues; 10 coils (not a
   multiple of 8) *)
Example C04_log_example_registers :
  handle_response_logged AlDataValues (RReadHoldingRegisters (65534, 2)) [3; 4; 1; 2; 3; 4]
  = Ok (RespRegisters [(65534, 258); (65535, 772)], [LgRange (65534, 2); LgReg (65534, 258); LgReg (65535, 772)]).
Proof. vm_compute. reflexivity. Qed.
Example C04_log_example_bits :
  omap (fun x => length (snd x)) (handle_response_logged AlDataValues (RReadCoils (65526, 10)) [1; 2; 205; 1]) = Ok 11%nat.
Proof. vm_compute. reflexivity. Qed.
Example C04_log_example_headers_only :
  omap snd (handle_response_logged AlDataHeaders (RReadCoils (65526, 10)) [1; 2; 205; 1]) = Ok [LgRange (65526, 10)].
Proof. vm_compute. reflexivity. Qed.
