(* C03 for C callers: requests submitted through the extern "C" layer (ffi/rodbus-ffi/src/client.rs
   rodbus_client_channel_*, Model/ClientCAbi.v) put on the wire exactly the protocol encoding of
   the call - in particular a write-multiple call transmits the values its caller-owned list
   (rodbus_bit_list / rodbus_register_list) holds AT CALL TIME, also when the same list object is
   used for several calls and grows in between. How each C function takes its list is regenerated
   into Gen/FfiTables.v `list_args`; the theorems are re-checked against it.
   Only statements, closed by `exact`, each followed by Print Assumptions. *)
From Coq Require Import NArith List String.
From Rodbus Require Import Base.Outcome Base.ClientTypes Model.Format Model.ClientRequest Model.ClientPaths Model.ClientSession
  Model.ClientCAbi Spec.ClientCodecSpec Gen.FfiTables Proofs.ClientSessionProofs Proofs.ClientCAbiProofs.
Import ListNotations.
Local Open Scope N_scope.

(* every C-ABI request function queues exactly the request the Channel API constructs for the same
   arguments, or nothing - so C03_exact / C03_limits / C03_size / C03_paths_agree carry over to it *)
Theorem C03_cabi_queues_the_same_request : forall c, cabi_queued c = match build c with Ok r => Some r | _ => None end.
Proof. exact cabi_queued_spec. Qed.
Print Assumptions C03_cabi_queues_the_same_request.

(* the regenerated table says: both write-multiple functions borrow the caller's list and clone its values *)
Theorem C03_cabi_lists_kept : list_kept "write_multiple_coils" = true /\ list_kept "write_multiple_registers" = true.
Proof. exact lists_kept. Qed.
Print Assumptions C03_cabi_lists_kept.

(* a caller-owned list through ANY sequence of add / write steps (steps: inl values = add them,
   inr (unit, start) = one write call): the wire log of the connection is the Spec's - the i-th
   write call that reaches the task carries transaction id i and the encoding of everything added so far *)
Theorem C03_cabi_coil_list : forall f steps,
  Forall (fun st => match st with inl _ => True | inr (uid, start) => start < 65536 end) steps ->
  cabi_coil_list_wire f steps = ref_session_wire (is_tcp f) 0 (ref_list_calls CWriteMultipleCoils [] steps).
Proof. exact cabi_coil_list_wire_ref. Qed.
Print Assumptions C03_cabi_coil_list.

Theorem C03_cabi_register_list : forall f steps,
  Forall (fun st => match st with inl vs => Forall is_u16 vs | inr (uid, start) => start < 65536 end) steps ->
  cabi_register_list_wire f steps = ref_session_wire (is_tcp f) 0 (ref_list_calls CWriteMultipleRegisters [] steps).
Proof. exact cabi_register_list_wire_ref. Qed.
Print Assumptions C03_cabi_register_list.

(* non-vacuity: fill [1;2], write, append 3, write again: the second frame carries all three values *)
Example C03_cabi_list_example :
  cabi_register_list_wire Tcp [inl [1; 2]; inr (9, 16); inl [3]; inr (9, 16)]
  = [[0;0; 0;0; 0;11; 9; 16; 0;16; 0;2; 4; 0;1; 0;2]; [0;1; 0;0; 0;13; 9; 16; 0;16; 0;3; 6; 0;1; 0;2; 0;3]].
Proof. vm_compute. reflexivity. Qed.
