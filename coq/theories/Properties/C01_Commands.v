(* C01 with the session's command channel (also the proof-level counterpart of C20's "a level change
   never interrupts or reorders" and of C15/C07's "a session ends when told to").
   Only statements, closed by `exact`, each followed by Print Assumptions.

   session_run (Model/ServerRun.v over Base/ServerRun.v) is SessionTask::run as a transition system
   over the list of select! outcomes: parked in run_one: EFrame f (next_frame returned f) |
   ECommand c | EClosed (recv() = None); parked in write_reply: EWriteDone | EWriteFailed | ECommand c | EClosed.
   Every arrival order and every tie-break of select! is some event list; all statements are for
   ALL event lists, handler machines, unit maps, policies. The frames are "frames delivered by the
   reader" (C05/C06). *)
From Coq Require Import NArith Arith List String.
From Rodbus Require Import Base.Outcome Base.ServerTypes Base.ServerRun Model.Server Model.ServerRun Model.ServerRender Model.ServerExec
  Spec.Modbus Proofs.ServerProofs Proofs.ServerRunProofs.
Import ListNotations.
Local Open Scope N_scope.

(* ChangeDecoding, at ANY positions and in any number - between requests or while a reply write is
   pending - changes no reply byte, no handler call, no handler state and not how the session ends:
   the run equals the run of the event list with every ChangeDecoding removed, from any initial level *)
Theorem C01_commands_unobservable : forall (St : Type) (H : handler St) l a units d d' evs,
  observable (session_run H l a units d evs) = observable (session_run H l a units d' (strip evs)).
Proof. exact @session_unobservable. Qed.
Print Assumptions C01_commands_unobservable.

Theorem C01_command_insert_unobservable : forall (St : Type) (H : handler St) l a units d pre post lvl,
  observable (session_run H l a units d (pre ++ ECommand (ChangeDecoding lvl) :: post)) =
  observable (session_run H l a units d (pre ++ post)).
Proof. exact @session_insert_unobservable. Qed.
Print Assumptions C01_command_insert_unobservable.

(* after Shutdown, or once the command channel is closed, nothing that follows matters: no further
   frame is handled, nothing further is written, a pending reply is dropped, the session has ended *)
Theorem C01_shutdown_ends : forall (St : Type) (H : handler St) l a units d pre ev post, ends ev ->
  session_run H l a units d (pre ++ ev :: post) = close (session_run H l a units d pre).
Proof. exact @session_shutdown_ends. Qed.
Print Assumptions C01_shutdown_ends.

(* write_reply: a request whose reply write is pending has had its effect on the handlers; decode
   level changes that arrive meanwhile are applied; Shutdown / a closed channel then end the session
   WITHOUT the reply ... *)
Theorem C01_write_cut : forall (St : Type) (H : handler St) l a units d f b bs units' lg levels ev post,
  handle_frame H l a units f = (Ok (b :: bs), units', lg) -> ends ev ->
  session_run H l a units d (EFrame f :: changes levels ++ ev :: post) = ([], units', lg, last levels d, RShutdown).
Proof. exact @session_write_cut. Qed.
Print Assumptions C01_write_cut.

(* ... if io.write returns an error the session ends with it (RequestError::Io): handler effects in
   place, reply not delivered, nothing further handled ... *)
Theorem C01_write_failed : forall (St : Type) (H : handler St) l a units d f b bs units' lg levels post,
  handle_frame H l a units f = (Ok (b :: bs), units', lg) ->
  session_run H l a units d (EFrame f :: changes levels ++ EWriteFailed :: post) = ([], units', lg, last levels d, RIo).
Proof. exact @session_write_failed. Qed.
Print Assumptions C01_write_failed.

(* the write step of the model and the code's write_reply (shape regenerated in Gen/WritePath.v): ONE write per
   reply, raced against the command loop - a decode level change leaves the same write pending (nothing is
   re-sent), its completion delivers the reply exactly once *)
Theorem C01_write_reply_shape : forall (St E : Type) (hf : ucfg St -> frame -> outcome E (list N) * ucfg St * list event) units d r lvl rest,
  Rodbus.Gen.WritePath.write_reply_shape = Rodbus.Gen.WritePath.WriteOnceRacedAgainstCommands /\
  run hf units d (MWriting r) (ECommand (ChangeDecoding lvl) :: rest) = run hf units lvl (MWriting r) rest /\
  run hf units d (MWriting r) (EWriteDone :: rest) =
    (let '(ws, u, lg, dd, e) := run hf units d MIdle rest in (r :: ws, u, lg, dd, e)).
Proof. exact @write_step_once. Qed.
Print Assumptions C01_write_reply_shape.

(* ... and if the write completes first, the reply is delivered and the loop goes on *)
Theorem C01_write_done : forall (St : Type) (H : handler St) l a units d f b bs units' lg levels rest,
  handle_frame H l a units f = (Ok (b :: bs), units', lg) ->
  session_run H l a units d (EFrame f :: changes levels ++ EWriteDone :: rest) =
    (let '(ws, u, lg', dd, e) := session_run H l a units' (last levels d) rest in ((b :: bs) :: ws, u, lg ++ lg', dd, e)).
Proof. exact @session_write_done. Qed.
Print Assumptions C01_write_done.

(* the loop over the code's frame handler = the same loop over the reference server (C01_frame) *)
Theorem C01_commands_refine : forall (St : Type) (H : handler St) l a units d evs, events_ok l evs ->
  session_run H l a units d evs = run (fun u f => ok_result (ref_handle_frame H l a u f)) units d MIdle evs.
Proof. exact @session_run_refines. Qed.
Print Assumptions C01_commands_refine.

Theorem C01_commands_never_fail : forall (St : Type) (H : handler St) l a units d evs, events_ok l evs ->
  no_failure (snd (session_run H l a units d evs)).
Proof. exact @session_run_never_fails. Qed.
Print Assumptions C01_commands_never_fail.

(* without commands and with every write completing at once this is the session of C01_tcp / C01_rtu
   (`delivered` drops the silent entries) *)
Theorem C01_plain_session : forall (St : Type) (H : handler St) l a d frames units,
  observable (session_run H l a units d (plain frames)) =
    (let '(rs, u, lg, e) := session H l a units frames in (delivered rs, u, lg, end_of e)).
Proof. exact @plain_run_is_session. Qed.
Print Assumptions C01_plain_session.
