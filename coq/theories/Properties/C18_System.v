(* C18 at system level: what a client receives on the wire for a write handled by an application's C callback.

   Same composition as Properties/C19_System.v: ffi_handler W is the RequestHandlerWrapper of
   ffi/rodbus-ffi/src/server.rs as an instance of the server core's `handler`; the application's four write
   callbacks W are ARBITRARY functions of (application state, database, arguments) returning (application state,
   database, WriteResult), or NULL. `callback_outcome W app d r` is what the callback reached by request r did;
   `write_pdu` (Spec/FfiServerSpec.v over Spec/FfiSpec.write_result_spec) is the response PDU the property
   prescribes: echo on success, the standard code of the named exception, the raw code for Unknown, exception 01
   when no callback is registered. Corollaries of C01_frame / C01_tcp / C01_system_* and C18_write_result.
   Only statements, closed by `exact`, each followed by Print Assumptions. *)
From Coq Require Import NArith List String Bool.
From Rodbus Require Import Base.Outcome Base.ServerTypes Model.Server Spec.Modbus Proofs.ServerProofs Proofs.ServerProps
  Gen.FfiTables Model.DbTypes Spec.FfiServerSpec Model.FfiServerDefs.
From Rodbus Require Model.Database Model.FfiServer Proofs.FfiServerSystemProofs Model.SystemServer Spec.SystemSpec.
Import ListNotations.
Local Open Scope N_scope.

Module P := Rodbus.Proofs.FfiServerSystemProofs.
Notation ffi_handler := FfiServer.ffi_handler.
Notation database := Database.database.
Notation c_write_handler := FfiServer.c_write_handler.

(* ONE FRAME, any link, any application, any unit map, any authorization: a permitted, well-formed write (any of
   the four write functions) to a served unit is answered with one ADU whose PDU is write_pdu of the callback's
   WriteResult, and the unit continues with the application state and database the callback left - whatever it
   answered. *)
Theorem C18_system_write_frame : forall (A : Type) (W : c_write_handler A) l a (units : list (N * (database * A))) fr u d app fc r,
  frame_ok l fr -> f_dest fr = DUnit u -> lookup u units = Some (d, app) ->
  decode (f_pdu fr) = Valid fc r -> is_write r = true -> fst (authorize a u r) = true ->
  let cb := callback_outcome W app d r in
  reply_of (handle_frame (ffi_handler W) l a units fr) = Ok (adu l (f_tx fr) u (write_pdu fc r (option_map client_view cb))) /\
  units_of (handle_frame (ffi_handler W) l a units fr) = update u (state_after d app cb) units.
Proof. exact P.system_write_frame. Qed.
Print Assumptions C18_system_write_frame.

(* the same reply spelled out over the C enum: success -> echo of the request; a standard exception -> its
   protocol code; Unknown -> the raw code, whatever it is; callback not set -> 01 *)
Theorem C18_system_write_reply_cases : forall (A : Type) (W : c_write_handler A) l a (units : list (N * (database * A))) fr u d app fc r,
  frame_ok l fr -> f_dest fr = DUnit u -> lookup u units = Some (d, app) ->
  decode (f_pdu fr) = Valid fc r -> is_write r = true -> fst (authorize a u r) = true ->
  reply_of (handle_frame (ffi_handler W) l a units fr) =
    Ok (adu l (f_tx fr) u
          match callback_outcome W app d r with
          | None => exception_pdu fc 1
          | Some (_, _, (true, _, _)) => fc :: write_echo r
          | Some (_, _, (false, FME_Unknown, raw)) => exception_pdu fc raw
          | Some (_, _, (false, e, _)) => exception_pdu fc (ffi_modbus_exception_value e)
          end).
Proof. exact P.system_write_reply_cases. Qed.
Print Assumptions C18_system_write_reply_cases.

(* A CONNECTION: the k-th frame being such a write: the k-th reply is the answer for what the callback returned
   when run on the state the unit holds at that point, and the next frame finds what the callback left. *)
Theorem C18_system_write_session : forall (A : Type) (W : c_write_handler A) l a (units : list (N * (database * A))) frames k fr u d app fc r,
  Forall (frame_ok l) frames -> nth_error frames k = Some fr ->
  f_dest fr = DUnit u -> lookup u (units_before (ffi_handler W) l a units frames k) = Some (d, app) ->
  decode (f_pdu fr) = Valid fc r -> is_write r = true -> fst (authorize a u r) = true ->
  let cb := callback_outcome W app d r in
  nth_error (replies_of (session (ffi_handler W) l a units frames)) k
    = Some (adu l (f_tx fr) u (write_pdu fc r (option_map client_view cb))) /\
  units_before (ffi_handler W) l a units frames (S k) = update u (state_after d app cb) (units_before (ffi_handler W) l a units frames k).
Proof. exact P.system_write_session. Qed.
Print Assumptions C18_system_write_session.

(* THE SERVER AS A WHOLE, byte level (any stream, any chunking; frames = the reference cut of the stream) *)
Theorem C18_system_write : forall (A : Type) (W : c_write_handler A) l a (units : list (N * (database * A))) bs chunks fi k fr u d app fc r,
  Forall (fun b => b < 256) bs -> List.concat chunks = bs -> Forall (fun c => c <> []) chunks ->
  let frames := P.cut_frames l bs fi in
  nth_error frames k = Some fr ->
  f_dest fr = DUnit u -> lookup u (units_before (ffi_handler W) l a units frames k) = Some (d, app) ->
  decode (f_pdu fr) = Valid fc r -> is_write r = true -> fst (authorize a u r) = true ->
  let cb := callback_outcome W app d r in
  nth_error (replies_of (fst (SystemServer.server_system (ffi_handler W) l a units chunks fi))) k
    = Some (adu l (f_tx fr) u (write_pdu fc r (option_map client_view cb))) /\
  units_before (ffi_handler W) l a units frames (S k) = update u (state_after d app cb) (units_before (ffi_handler W) l a units frames k).
Proof. exact P.system_write_stream. Qed.
Print Assumptions C18_system_write.

(* Broadcast (serial), inherited from C17: never answered; a valid broadcast write runs, in unit id order, every
   unit's callback exactly once on that unit's own application state and database, which become what it left;
   every WriteResult is dropped. *)
Theorem C18_system_broadcast_never_answered : forall (A : Type) (W : c_write_handler A) l a (units : list (N * (database * A))) fr, frame_ok l fr ->
  f_dest fr = DBroadcast -> reply_of (handle_frame (ffi_handler W) l a units fr) = Ok [].
Proof. exact P.ffi_broadcast_never_answered. Qed.
Print Assumptions C18_system_broadcast_never_answered.

Theorem C18_system_broadcast_write : forall (A : Type) (W : c_write_handler A) l (units : list (N * (database * A))) fr fc r, frame_ok l fr ->
  f_dest fr = DBroadcast -> decode (f_pdu fr) = Valid fc r -> is_write r = true ->
  let x := handle_frame (ffi_handler W) l NoAuth units fr in
  reply_of x = Ok [] /\
  log_of x = flat_map (fun us => write_call (fst us) r) units /\
  units_of x = map (fun us : N * (database * A) =>
                      let '(u, (d, app)) := us in (u, state_after d app (callback_outcome W app d r))) units.
Proof. exact P.ffi_broadcast_write. Qed.
Print Assumptions C18_system_broadcast_write.
