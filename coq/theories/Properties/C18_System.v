(* C18 at system level: what a client receives on the wire for a write handled by an application's C callback.

   Same composition as Properties/C19_System.v: ffi_handler W is the RequestHandlerWrapper of
   ffi/rodbus-ffi/src/server.rs as an instance of the server core's `handler`; the application's four write
   callbacks W are ARBITRARY functions of (application state, database, arguments) returning (application state,
   database, WriteResult), or NULL. `callback_outcome W app d r` is what the callback reached by request r did;
   `write_pdu` (Spec/FfiServerSpec.v over Spec/FfiSpec.write_result_spec) is the response PDU the property
   prescribes: echo on success, the standard code of the named exception, the raw code for Unknown, exception 01
   when no callback is registered. Corollaries of C01_frame / C01_tcp / C01_system_* and C18_write_result.
   Only statements, closed by `exact`, each followed by Print Assumptions. *)
From Coq Require Import NArith List String Bool.
From Rodbus Require Import Base.Outcome Base.ServerTypes Model.Server Spec.Modbus Proofs.ServerProofs Proofs.ServerProps
  Gen.FfiTables Model.DbTypes Spec.FfiServerSpec Model.FfiServerDefs.
From Rodbus Require Model.Database Model.FfiServer Proofs.FfiServerSystemProofs Model.SystemServer Spec.SystemSpec.
Import ListNotations.
Local Open Scope N_scope.

Module P := Rodbus.Proofs.FfiServerSystemProofs.
Notation ffi_handler := FfiServer.ffi_handler.
Notation database := Database.database.
Notation c_write_handler := FfiServer.c_write_handler.

(* ONE FRAME, any link, any application, any unit map, any authorization: a permitted, well-formed write (any of
   the four write functions) to a served unit is answered with one ADU whose PDU is write_pdu of the callback's
   WriteResult, and the unit continues with the application state and database the callback left - whatever it
   answered. *)
Theorem C18_system_write_frame : forall (A : Type) (W : c_write_handler A) l a (units : ucfg (database * A)) fr u h d app fc r,
  frame_ok l fr -> f_dest fr = DUnit u -> lookup u (u_map units) = Some h -> u_store units h = (d, app) ->
  decode (f_pdu fr) = Valid fc r -> is_write r = true -> fst (authorize a u r) = true ->
  let cb := callback_outcome W app d r in
  let x := handle_frame (ffi_handler W) l a units fr in
  reply_of x = Ok (adu l (f_tx fr) u (write_pdu fc r (option_map client_view cb))) /\
  u_map (units_of x) = u_map units /\ u_store (units_of x) h = state_after d app cb /\
  forall k, k <> h -> u_store (units_of x) k = u_store units k.
Proof. exact P.system_write_frame. Qed.
Print Assumptions C18_system_write_frame.

(* the same reply spelled out over the C enum: success -> echo of the request; a standard exception -> its
   protocol code; Unknown -> the raw code, whatever it is; callback not set -> 01 *)
Theorem C18_system_write_reply_cases : forall (A : Type) (W : c_write_handler A) l a (units : ucfg (database * A)) fr u h d app fc r,
  frame_ok l fr -> f_dest fr = DUnit u -> lookup u (u_map units) = Some h -> u_store units h = (d, app) ->
  decode (f_pdu fr) = Valid fc r -> is_write r = true -> fst (authorize a u r) = true ->
  reply_of (handle_frame (ffi_handler W) l a units fr) =
    Ok (adu l (f_tx fr) u
          match callback_outcome W app d r with
          | None => exception_pdu fc 1
          | Some (_, _, (true, _, _)) => fc :: write_echo r
          | Some (_, _, (false, FME_Unknown, raw)) => exception_pdu fc raw
          | Some (_, _, (false, e, _)) => exception_pdu fc (ffi_modbus_exception_value e)
          end).
Proof. exact P.system_write_reply_cases. Qed.
Print Assumptions C18_system_write_reply_cases.

(* A CONNECTION: the k-th frame being such a write: the k-th reply is the answer for what the callback returned
   when run on the state the unit holds at that point, and the next frame finds what the callback left. *)
Theorem C18_system_write_session : forall (A : Type) (W : c_write_handler A) l a (units : ucfg (database * A)) frames k fr u h d app fc r,
  Forall (frame_ok l) frames -> nth_error frames k = Some fr ->
  f_dest fr = DUnit u -> lookup u (u_map (units_before (ffi_handler W) l a units frames k)) = Some h ->
  u_store (units_before (ffi_handler W) l a units frames k) h = (d, app) ->
  decode (f_pdu fr) = Valid fc r -> is_write r = true -> fst (authorize a u r) = true ->
  let cb := callback_outcome W app d r in
  nth_error (replies_of (session (ffi_handler W) l a units frames)) k
    = Some (adu l (f_tx fr) u (write_pdu fc r (option_map client_view cb))) /\
  u_map (units_before (ffi_handler W) l a units frames (S k)) = u_map (units_before (ffi_handler W) l a units frames k) /\
  u_store (units_before (ffi_handler W) l a units frames (S k)) h = state_after d app cb /\
  forall j, j <> h -> u_store (units_before (ffi_handler W) l a units frames (S k)) j = u_store (units_before (ffi_handler W) l a units frames k) j.
Proof. exact P.system_write_session. Qed.
Print Assumptions C18_system_write_session.

(* THE SERVER AS A WHOLE, byte level (any stream, any chunking; frames = the reference cut of the stream) *)
Theorem C18_system_write : forall (A : Type) (W : c_write_handler A) l a (units : ucfg (database * A)) bs chunks fi k fr u h d app fc r,
  Forall (fun b => b < 256) bs -> List.concat chunks = bs -> Forall (fun c => c <> []) chunks ->
  let frames := P.cut_frames l bs fi in
  nth_error frames k = Some fr ->
  f_dest fr = DUnit u -> lookup u (u_map (units_before (ffi_handler W) l a units frames k)) = Some h ->
  u_store (units_before (ffi_handler W) l a units frames k) h = (d, app) ->
  decode (f_pdu fr) = Valid fc r -> is_write r = true -> fst (authorize a u r) = true ->
  let cb := callback_outcome W app d r in
  nth_error (replies_of (fst (SystemServer.server_system (ffi_handler W) l a units chunks fi))) k
    = Some (adu l (f_tx fr) u (write_pdu fc r (option_map client_view cb))) /\
  u_map (units_before (ffi_handler W) l a units frames (S k)) = u_map (units_before (ffi_handler W) l a units frames k) /\
  u_store (units_before (ffi_handler W) l a units frames (S k)) h = state_after d app cb /\
  forall j, j <> h -> u_store (units_before (ffi_handler W) l a units frames (S k)) j = u_store (units_before (ffi_handler W) l a units frames k) j.
Proof. exact P.system_write_stream. Qed.
Print Assumptions C18_system_write.

(* Broadcast (serial), inherited from C17 (C17_broadcast_write + C17_broadcast_once): never answered; on a C-ABI device
   map (one handler object per unit id, `device_map ids store` with distinct ids) a valid broadcast write runs, in
   unit id order, every unit's callback exactly once on that unit's own application state and database, which become
   what it left; every WriteResult is dropped; nothing else changes. (The core's ServerHandlerMap would allow two unit
   ids to share one handler object - C17_broadcast_shared_twice - the C ABI cannot build such a map.) *)
Theorem C18_system_broadcast_never_answered : forall (A : Type) (W : c_write_handler A) l a (units : ucfg (database * A)) fr, frame_ok l fr ->
  f_dest fr = DBroadcast -> reply_of (handle_frame (ffi_handler W) l a units fr) = Ok [].
Proof. exact P.ffi_broadcast_never_answered. Qed.
Print Assumptions C18_system_broadcast_never_answered.

Theorem C18_system_broadcast_write : forall (A : Type) (W : c_write_handler A) l ids (store : N -> database * A) fr fc r, frame_ok l fr ->
  NoDup ids -> f_dest fr = DBroadcast -> decode (f_pdu fr) = Valid fc r -> is_write r = true ->
  let x := handle_frame (ffi_handler W) l NoAuth (device_map ids store) fr in
  reply_of x = Ok [] /\
  log_of x = flat_map (fun u => write_call u r) ids /\
  u_map (units_of x) = map (fun u => (u, u)) ids /\
  forall h d app, store h = (d, app) ->
    u_store (units_of x) h = if in_dec N.eq_dec h ids then state_after d app (callback_outcome W app d r) else (d, app).
Proof. exact P.ffi_broadcast_write. Qed.
Print Assumptions C18_system_broadcast_write.

(* The session's command channel, inherited from Properties/C01_Commands.v for the C-ABI handler: decode-level
   changes (rodbus_server_set_decode_level) at any positions change no reply byte, no callback invocation and no
   database; Shutdown / a closed command channel (rodbus_server_destroy) end the session; a write whose reply is
   still being written when the session is told to end HAS run its callback (the database and application state are
   those the callback left) although the client never sees the reply. *)
From Rodbus Require Import Base.ServerRun Model.ServerRun Proofs.ServerRunProofs.

Theorem C18_system_commands_unobservable : forall (A : Type) (W : c_write_handler A) l a (units : ucfg (database * A)) d d' evs,
  observable (session_run (ffi_handler W) l a units d evs) = observable (session_run (ffi_handler W) l a units d' (strip evs)).
Proof. exact (fun A W => @session_unobservable _ (ffi_handler W)). Qed.
Print Assumptions C18_system_commands_unobservable.

Theorem C18_system_shutdown_ends : forall (A : Type) (W : c_write_handler A) l a (units : ucfg (database * A)) d pre ev post, ends ev ->
  session_run (ffi_handler W) l a units d (pre ++ ev :: post) = close (session_run (ffi_handler W) l a units d pre).
Proof. exact (fun A W => @session_shutdown_ends _ (ffi_handler W)). Qed.
Print Assumptions C18_system_shutdown_ends.

Theorem C18_system_write_cut : forall (A : Type) (W : c_write_handler A) l a (units : ucfg (database * A)) d f b bs units' lg levels ev post,
  handle_frame (ffi_handler W) l a units f = (Ok (b :: bs), units', lg) -> ends ev ->
  session_run (ffi_handler W) l a units d (EFrame f :: changes levels ++ ev :: post) = ([], units', lg, last levels d, RShutdown).
Proof. exact (fun A W => @session_write_cut _ (ffi_handler W)). Qed.
Print Assumptions C18_system_write_cut.

(* ---- the C authorization callbacks (rodbus_server_create_tls_with_authz) ---- *)
(* AuthorizationHandlerWrapper is ONE object per server, shared by all its sessions. Regenerated from ffi server.rs: it
   holds nothing but the C callbacks (no field in which the role of one session could survive into another - the seeded
   change c08_3 added `role: OnceLock<CString>`), and each of its eight methods builds the role string from the role
   parameter of the very call, calls the same-named callback with the unit id and the range / index, and denies when the
   callback is not set. *)
Theorem C18_authz_wrapper :
  authz_wrapper_fields = ["inner"]%string /\
  map aw_method authz_wrappers = ["read_coils"; "read_discrete_inputs"; "read_holding_registers"; "read_input_registers";
                                  "write_single_coil"; "write_single_register"; "write_multiple_coils"; "write_multiple_registers"]%string /\
  forallb (fun w => String.eqb (aw_callback w) (aw_method w) && match aw_role w with RoleOfThisCall => true | _ => false end
                    && String.eqb (aw_unit w) "unit_id.value" && (String.eqb (aw_arg w) "range.into()" || String.eqb (aw_arg w) "idx")
                    && aw_result_into w && aw_unset_denies w) authz_wrappers = true.
Proof. exact P.authz_wrapper_shape. Qed.
Print Assumptions C18_authz_wrapper.

(* As a policy of the server core (FfiServer.ffi_policy, interpreting those rows): in a session whose TLS handshake
   established role r - `AuthHandler pol r` is how the core carries it (C09_auth_role_is_handshake_role, Front_role) -
   EVERY authorization query shows the C callback of the request's kind exactly (the frame's unit id, the request's range
   or index, r), and the decision is the callback's answer (Deny when it is not set). With C08 (deny before anything
   else) this is the whole path from certificate role to the application's decision. *)
Theorem C18_system_authz_role : forall (C : FfiServer.c_authz_handler) r u req,
  authorize (AuthHandler (FfiServer.ffi_policy C) r) u req =
    (match C (kind_of req) with Some f => f u (arg_of req) r | None => false end,
     [EvAuth (kind_of req) u (arg_of req) r]).
Proof. exact P.ffi_authorize_role. Qed.
Print Assumptions C18_system_authz_role.
