(* C04 - Client accepts only the genuine matching reply and returns exactly its data.
   Only statements, closed by `exact`, each followed by Print Assumptions.

   `handle_response r pdu` is the model of Request::handle_response on the payload of the frame
   that matched the request (function byte check, get_error_for, the request-specific parser,
   collection of the iterator into the returned vector). `request_wf r` says r is a request as the
   API constructs it (ranges validated by AddressRange::try_from; see C04_built_requests_wf).
   `ref_reply r pdu = Some v` is the Spec's "pdu is the genuine reply to r and carries v";
   `ref_exception r pdu = Some c` is "pdu is a well-formed exception reply with code c".
   pdu is an unbounded list of arbitrary numbers (the 253-byte bound is not needed). *)
From Coq Require Import NArith List Arith.
From Rodbus Require Import Base.Outcome Base.ClientTypes Model.ClientRequest Model.ClientPaths Spec.ClientCodecSpec
  Proofs.ClientReplyProofs Proofs.ClientPathsProofs Gen.ClientTables.
Import ListNotations.
Local Open Scope N_scope.

(* Success iff the reply carries the request's function code, has exactly the length implied by
   the request and (writes) echoes address and value/quantity; the value returned is the Spec's. *)
Theorem C04_ok_iff : forall r pdu v, request_wf r ->
  (handle_response r pdu = Ok v <-> ref_reply r pdu = Some v).
Proof. exact ok_iff. Qed.
Print Assumptions C04_ok_iff.

(* The values of a successful bit read: exactly `count` of them, the k-th is bit (k mod 8) of data
   byte (k / 8), indexed upward from the requested start; the byte-count byte bc is not constrained. *)
Theorem C04_read_bits_data : forall s n pdu v r,
  r = RReadCoils (s, n) \/ r = RReadDiscreteInputs (s, n) -> request_wf r ->
  handle_response r pdu = Ok v ->
  exists bc data l, pdu = reply_fc r :: bc :: data /\ len data = bytes_for_bits n /\ v = RespBits l /\
    length l = N.to_nat n /\
    forall k d, (k < N.to_nat n)%nat ->
      nth k l d = (s + N.of_nat k, N.testbit (nth (k / 8)%nat data 0) (N.of_nat (k mod 8)%nat)).
Proof. exact read_bits_data. Qed.
Print Assumptions C04_read_bits_data.

Theorem C04_read_registers_data : forall s n pdu v r,
  r = RReadHoldingRegisters (s, n) \/ r = RReadInputRegisters (s, n) -> request_wf r ->
  handle_response r pdu = Ok v ->
  exists bc data l, pdu = reply_fc r :: bc :: data /\ len data = 2 * n /\ v = RespRegisters l /\
    length l = N.to_nat n /\
    forall k d, (k < N.to_nat n)%nat ->
      nth k l d = (s + N.of_nat k, nth (2 * k)%nat data 0 * 256 + nth (2 * k + 1)%nat data 0).
Proof. exact read_registers_data. Qed.
Print Assumptions C04_read_registers_data.

(* Round trip with the encoding a conforming server produces (Spec `pack` = LSB-first, padding 0;
   registers big-endian): any vector of the requested length comes back unchanged, whatever the
   byte-count byte. *)
Theorem C04_roundtrip_bits : forall r s bits bc,
  r = RReadCoils (s, len bits) \/ r = RReadDiscreteInputs (s, len bits) -> request_wf r ->
  handle_response r (reply_fc r :: bc :: pack bits) = Ok (RespBits (indexed s (fun k => nth k bits false) (len bits))).
Proof. exact roundtrip_bits. Qed.
Print Assumptions C04_roundtrip_bits.

Theorem C04_roundtrip_registers : forall r s regs bc,
  r = RReadHoldingRegisters (s, len regs) \/ r = RReadInputRegisters (s, len regs) -> request_wf r ->
  handle_response r (reply_fc r :: bc :: flat_map be regs) = Ok (RespRegisters (indexed s (fun k => nth k regs 0) (len regs))).
Proof. exact roundtrip_registers. Qed.
Print Assumptions C04_roundtrip_registers.

(* A well-formed exception reply (function code + 0x80, one code byte) yields exactly that
   exception code: the returned ExceptionCode converts back to the byte that was received. *)
Theorem C04_exception : forall r c,
  handle_response r [reply_fc r + 128; c] = Err (EException (excode_of_u8 c)).
Proof. exact exception_reply. Qed.
Print Assumptions C04_exception.

Theorem C04_exception_code : forall c, u8_of_excode (excode_of_u8 c) = c.
Proof. exact excode_roundtrip. Qed.
Print Assumptions C04_exception_code.

(* ... and an exception is reported only for such a reply. *)
Theorem C04_exception_only : forall r pdu ex, request_wf r ->
  handle_response r pdu = Err (EException ex) ->
  exists c, ref_exception r pdu = Some c /\ ex = excode_of_u8 c.
Proof. exact exception_only. Qed.
Print Assumptions C04_exception_only.

(* Every other reply fails the request with an error that is not an exception: never data. *)
Theorem C04_otherwise : forall r pdu, request_wf r ->
  ref_reply r pdu = None -> ref_exception r pdu = None ->
  exists e, handle_response r pdu = Err e /\ ~ is_exception e.
Proof. exact otherwise_error. Qed.
Print Assumptions C04_otherwise.

(* ... and never a panic (u16 additions in the iterators cannot overflow for a validated range). *)
Theorem C04_total : forall r pdu, request_wf r -> handle_response r pdu <> Panic.
Proof. exact response_total. Qed.
Print Assumptions C04_total.

(* The callback APIs (CallbackSession, FfiChannel) hand read callbacks the iterator instead of the
   collected Vec. Driving RegisterIterator::next to exhaustion (`bytes.get(pos..pos+2)`,
   `(high << 8) | low`, index `pos + start`) yields exactly what the Channel path's collect_vec
   yields; bit reads use BitIterator::next on both paths; writes pass the parsed echo. So for a
   reply made of bytes every theorem above holds for what a callback computes. *)
Theorem C04_paths_agree : forall r pdu, request_wf r -> Forall is_u8 pdu ->
  handle_response_iter r pdu = handle_response r pdu.
Proof. exact handle_response_iter_eq. Qed.
Print Assumptions C04_paths_agree.

Theorem C04_paths_deliver_same : forall p q r pdu, request_wf r -> Forall is_u8 pdu ->
  deliver_via p r pdu = deliver_via q r pdu.
Proof. exact deliver_via_eq. Qed.
Print Assumptions C04_paths_deliver_same.

(* every request the API constructs from u16 arguments is well-formed - including read requests
   given an arbitrary (start, count) struct literal, which limited_count validates *)
Theorem C04_built_requests_wf : forall c r, call_wf c -> build c = Ok r -> request_wf r.
Proof. exact build_wf. Qed.
Print Assumptions C04_built_requests_wf.

(* non-vacuity: the standard's read-coils example reply (CD 6B 05 for 19 coils from 19), an echo,
   and the unvalidated-range witness of finding F10 *)
Example C04_example_bits :
  handle_response (RReadCoils (19, 19)) [1; 3; 205; 107; 5]
  = Ok (RespBits (map (fun '(k, b) => (19 + k, b))
      [(0,true);(1,false);(2,true);(3,true);(4,false);(5,false);(6,true);(7,true);
       (8,true);(9,true);(10,false);(11,true);(12,false);(13,true);(14,true);(15,false);
       (16,true);(17,false);(18,true)])).
Proof. vm_compute. reflexivity. Qed.
Example C04_example_echo : handle_response (RWriteMultipleRegisters (1, 2) [10; 258]) [16; 0; 1; 0; 2] = Ok (RespRange 1 2).
Proof. vm_compute. reflexivity. Qed.
(* the iterators' u16 additions do overflow for a range that was never validated ... *)
Example C04_unvalidated_range_would_panic : handle_response (RReadCoils (65535, 2)) [1; 1; 3] = Panic.
Proof. vm_compute. reflexivity. Qed.
(* ... but the repaired API (limited_count re-validates, 3d39d18 / F10) cannot construct such a request
   from any (start, count) literal: C04_built_requests_wf, here on the witness *)
Example C04_unvalidated_range_not_constructible : build (CReadCoils 65535 2) = Err EAddressOverflow.
Proof. vm_compute. reflexivity. Qed.
