(* C04 - Client accepts only the genuine matching reply and returns exactly its data.
   Only statements, closed by `exact`, each followed by Print Assumptions. *)
From Coq Require Import NArith List.
From Rodbus Require Import Base.Outcome Base.ClientTypes Model.ClientRequest Spec.ClientCodecSpec
  Proofs.ClientReplyProofs Gen.ClientTables.
Import ListNotations.
Local Open Scope N_scope.

(* A well-formed exception reply (function code + 0x80, one code byte) yields exactly that
   exception code: the returned ExceptionCode converts back to the byte that was received. *)
Theorem C04_exception : forall r c,
  handle_response r [reply_fc r + 128; c] = Err (EException (excode_of_u8 c)).
Proof. exact exception_reply. Qed.
Print Assumptions C04_exception.

Theorem C04_exception_code : forall c, u8_of_excode (excode_of_u8 c) = c.
Proof. exact excode_roundtrip. Qed.
Print Assumptions C04_exception_code.
