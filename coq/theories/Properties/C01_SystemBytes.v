(* C01 for the server at BYTE level with its command channel: a command that arrives while
   next_frame waits wins run_one's select!, the next_frame future is dropped and re-entered from the
   reader's state. Uses the reader's cancel-safety (C05_cancel_safe_session / C06_cancel_safe_session).
   Only statements, closed by `exact`, each followed by Print Assumptions.

   Events in temporal order: BChunk c (bytes become readable) | BCommand c | BClosed; then the
   stream ends as `fi` says (Some fi) or the session is still waiting (None). run_bytes:
   Model/SystemServerBytes.v. server_system: the command-free system of C01_System (which equals
   the reference: cut by the framing rule, reference Modbus server). *)
From Coq Require Import NArith List.
From Rodbus Require Base.Frame Base.ServerTypes Base.ServerRun Model.Reader Model.Server Model.SystemServer Model.SystemServerBytes
  Spec.Framing Proofs.SystemBytesProofs.
Import ListNotations.
Module F := Rodbus.Base.Frame.
Module S := Rodbus.Base.ServerTypes.
Module R := Rodbus.Base.ServerRun.
Import SystemServer SystemServerBytes SystemBytesProofs.

(* decode level changes at ANY positions between the chunks - each one drops a waiting next_frame in
   the middle of whatever frame is being received - leave replies, handler calls, handler states
   exactly those of the command-free server on the same chunks, and the session ends with the
   same reader ending: nothing is lost, duplicated or reordered *)
Theorem C01_bytes_commands_tcp : forall (St : Type) (H : S.handler St) a units d evs fi, no_end evs ->
  let x := run_bytes H S.LTcp a (Reader.reader_new Reader.KTcp) units d evs (Some fi) in
  let y := server_system H S.LTcp a units (chunks_of evs) fi in
  obs4 x = fst y /\ (snd (fst y) = Server.SOpen -> bend_of x = BReader (snd y)).
Proof. exact @run_bytes_is_server_system_tcp. Qed.
Print Assumptions C01_bytes_commands_tcp.

Theorem C01_bytes_commands_rtu : forall (St : Type) (H : S.handler St) a units d evs fi, no_end evs ->
  Forall Framing.bytes (chunks_of evs) ->
  let x := run_bytes H S.LRtu a (Reader.reader_new Reader.KRtuRequest) units d evs (Some fi) in
  let y := server_system H S.LRtu a units (chunks_of evs) fi in
  obs4 x = fst y /\ (snd (fst y) = Server.SOpen -> bend_of x = BReader (snd y)).
Proof. exact @run_bytes_is_server_system_rtu. Qed.
Print Assumptions C01_bytes_commands_rtu.

(* from any reader state, with any other events around: the run does not depend on the level changes *)
Theorem C01_bytes_unobservable : forall (St : Type) (H : S.handler St) l a evs r units d d' fi,
  let '(rs, u, lg, _, se, b) := run_bytes H l a r units d evs fi in
  let '(rs2, u2, lg2, _, se2, b2) := run_bytes H l a r units d' (bstrip evs) fi in
  (rs, u, lg, se, b) = (rs2, u2, lg2, se2, b2).
Proof. exact @run_bytes_strip. Qed.
Print Assumptions C01_bytes_unobservable.

(* Shutdown / closed channel at event position k: the run is the run on the events before k (still
   waiting), ended by Shutdown - the frames completed by the chunks before k have been handled and
   answered, no later byte is looked at, however the stream goes on *)
Theorem C01_bytes_shutdown_cuts : forall (St : Type) (H : S.handler St) l a ev post fi, bends ev ->
  forall pre r units d,
  run_bytes H l a r units d (pre ++ ev :: post) fi = cut (run_bytes H l a r units d pre None).
Proof. exact @run_bytes_shutdown. Qed.
Print Assumptions C01_bytes_shutdown_cuts.
