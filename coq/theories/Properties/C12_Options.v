(* C12 - the timeout limit reaches the client task: the ClientOptions builder.
   Only statements, closed by `exact`, each followed by Print Assumptions.

   `max_response_timeouts(Some n)` is the only public way to switch the "N timeouts in a row drop the connection"
   rule on (C12_drop_rule etc. are about a task that HAS the limit).  ClientOptions is a by-value builder: every
   method is `Self { field, ..base }`.  Gen/ClientOptions.v records, for every public method, the field it assigns
   and the struct-update base (self or default); Model/OptionsBuilder.v executes that table; Spec/OptionsSpec.v is
   the documented behaviour, written by setter / option NAME.  `cs` ranges over ALL chains of calls. *)
From Coq Require Import NArith List String Permutation.
From Rodbus Require Import Gen.ClientOptions Spec.OptionsSpec Model.OptionsBuilder Proofs.OptionsProofs.
Import ListNotations.

(* a call sets its field to the argument ... *)
Theorem C12_builder_sets : forall o b v, apply_builder o (b, v) (builder_field b) = v.
Proof. exact apply_sets. Qed.
Print Assumptions C12_builder_sets.

(* ... and preserves every other field *)
Theorem C12_builder_preserves_the_others : forall o b v f, f <> builder_field b -> apply_builder o (b, v) f = o f.
Proof. exact apply_preserves. Qed.
Print Assumptions C12_builder_preserves_the_others.

(* calls on distinct fields commute ... *)
Theorem C12_builder_calls_commute : forall o b1 v1 b2 v2, builder_field b1 <> builder_field b2 ->
  forall f, apply_builder (apply_builder o (b1, v1)) (b2, v2) f = apply_builder (apply_builder o (b2, v2)) (b1, v1) f.
Proof. exact apply_commute. Qed.
Print Assumptions C12_builder_calls_commute.

(* ... so any order of calls (one per field) yields the same options *)
Theorem C12_builder_any_order : forall cs cs', Permutation cs cs' -> NoDup (map field_of cs) -> forall f, build cs f = build cs' f.
Proof. exact build_any_order. Qed.
Print Assumptions C12_builder_any_order.

(* every chain - any length, repeated setters - yields the documented value of every option: the argument of the
   last call of its setter, the documented default if there is none *)
Theorem C12_builder_is_documented : forall cs f, build cs f = spec_value (named cs) (field_name f).
Proof. exact build_spec. Qed.
Print Assumptions C12_builder_is_documented.

(* the limit handed to the task is the documented one ... *)
Theorem C12_limit_is_documented : forall cs, limit_of (build cs) = spec_limit (named cs).
Proof. exact limit_spec. Qed.
Print Assumptions C12_limit_is_documented.

(* ... in particular it survives every later call of the other setters *)
Theorem C12_limit_survives_later_calls : forall cs1 b v cs2, builder_field b = tcp_limit_field ->
  (forall c, In c cs2 -> field_of c <> tcp_limit_field) ->
  limit_of (build (cs1 ++ (b, v) :: cs2)) = match v with 0%N => None | n => Some n end.
Proof. exact limit_survives. Qed.
Print Assumptions C12_limit_survives_later_calls.

(* non-vacuity *)
Example C12_options_nonvacuous :
  limit_of (build [(BMaxResponseTimeouts, 3%N); (BChannelLogging, 1%N); (BDecodeLevel, 2%N)]) = Some 3%N /\
  limit_of (build [(BChannelLogging, 1%N); (BMaxQueuedRequests, 4%N)]) = None /\
  show_options (build [(BMaxQueuedRequests, 64%N); (BMaxResponseTimeouts, 2%N); (BChannelLogging, 1%N)])
    = "channel_logging=1 max_queued_requests=64 decode_level=0 max_timeouts=2"%string.
Proof. vm_compute. repeat split. Qed.
