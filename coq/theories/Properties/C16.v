(* C16 - Only peers matching the address filter are ever served, in every server variant.
   Only statements, closed by `exact`, each followed by Print Assumptions. *)
From Coq Require Import NArith List String.
From Rodbus Require Import Gen.ServerCtors Model.Filter Spec.FilterSpec Proofs.FilterProofs.
Import ListNotations.
Local Open Scope N_scope.

(* For EVERY byte string s: WildcardIPv4::from_str accepts s with result w exactly when s is four
   '.'-separated dot-free fields, each "*" (pattern None) or a numeral of value <= 255 (pattern Some v).
   Numeral = what u8::from_str accepts: ASCII digits with an optional single leading '+', leading
   zeros allowed (observation recorded in DESIGN.md section 7). *)
Theorem C16_parse : forall s w, parse_wildcard s = Some w <-> wildcard_string s w.
Proof. exact parse_iff. Qed.
Print Assumptions C16_parse.

Theorem C16_parse_rejects : forall s, parse_wildcard s = None <-> forall w, ~ wildcard_string s w.
Proof. exact parse_rejects. Qed.
Print Assumptions C16_parse_rejects.

Theorem C16_parse_octets : forall s w, parse_wildcard s = Some w ->
  forall v, In (Some v) [b3 w; b2 w; b1 w; b0 w] -> v <= 255.
Proof. exact parse_octets. Qed.
Print Assumptions C16_parse_octets.

(* For every filter value and every peer address: AddressFilter::matches is true exactly for Any,
   the exact address, members of the set, and IPv4 addresses agreeing with every literal octet of
   the wildcard; a wildcard never matches an IPv6 peer. *)
Theorem C16_match : forall f peer, matches f peer = true <-> admits f peer.
Proof. exact matches_iff. Qed.
Print Assumptions C16_match.

(* a set filter admits exactly its members - the empty set admits nobody *)
Theorem C16_match_set : forall s peer, matches (AnyOf s) peer = true <-> In peer s.
Proof. exact match_set. Qed.
Print Assumptions C16_match_set.

Theorem C16_match_empty_set : forall peer, matches (AnyOf []) peer = false.
Proof. exact match_empty_set. Qed.
Print Assumptions C16_match_empty_set.

Theorem C16_match_v6 : forall w segs, matches (WildcardIpv4 w) (V6 segs) = false.
Proof. exact wildcard_never_matches_v6. Qed.
Print Assumptions C16_match_v6.

(* The accept arm of ServerTask::run (shape regenerated from tcp/server.rs): any call that touches
   the accepted socket - in particular self.handle, the only entry to session spawn and the TLS
   handshake - is made only for admitted peers; for the others the arm only logs, so the socket is
   dropped without a byte. Admitted peers are handed to self.handle. *)
Theorem C16_gate : forall f peer c,
  In c (on_accept accept_arm f peer) -> uses_socket c = true -> admits f peer.
Proof. exact gate_served_only_if_admitted. Qed.
Print Assumptions C16_gate.

Theorem C16_gate_serves : forall f peer, admits f peer -> In CallHandle (on_accept accept_arm f peer).
Proof. exact gate_admitted_is_handled. Qed.
Print Assumptions C16_gate_serves.

(* The accept DECISION is a function of (filter, peer address) only. The guard of the accept arm is regenerated as the
   list of conjuncts of its condition; a conjunct that is not the filter test is interpreted by an ARBITRARY function `o`
   of the connections accepted so far and the current peer (Model/Filter.v `served`). For every such `o` and every
   history the connection is served exactly when the filter admits the peer - so the k-th of ANY sequence of connections
   to one listener (the same stranger again and again, strangers alternating, permitted peers in between) is judged
   as if it were the first. *)
Theorem C16_gate_decision : forall o hist f peer,
  served accept_guard accept_guard_kind o hist f peer = true <-> admits f peer.
Proof. exact gate_decision_admits. Qed.
Print Assumptions C16_gate_decision.

Theorem C16_gate_history_free : forall o o' hist hist' f peer,
  served accept_guard accept_guard_kind o hist f peer = served accept_guard accept_guard_kind o' hist' f peer.
Proof. exact gate_history_free. Qed.
Print Assumptions C16_gate_history_free.

Theorem C16_gate_sequence : forall o f peers hist k p, nth_error peers k = Some p ->
  exists b, nth_error (serve_seq accept_guard accept_guard_kind o hist f peers) k = Some b /\ (b = true <-> admits f p).
Proof. exact gate_sequence_admits. Qed.
Print Assumptions C16_gate_sequence.

(* In the generated call-site table of tcp/server.rs, session spawn (tokio::spawn/run_session), the
   TLS handshake (handle_connection inside the connection handler) and SessionTask::new are reachable
   from the accept loop only through the guarded call, and each of them has a call site. *)
Theorem C16_gate_callgraph :
  forallb (fun fn => negb (reach_unguarded 8 fn))
          ["handle"; "run_session"; "tokio::spawn"; "conn_handler.handle"; "tls_handshake"; "SessionTask::new"]%string = true
  /\ forallb (fun fn => match callers_of fn with [] => false | _ => true end)
          ["handle"; "run_session"; "tokio::spawn"; "conn_handler.handle"; "tls_handshake"; "SessionTask::new"]%string = true.
Proof. exact gate_callgraph. Qed.
Print Assumptions C16_gate_callgraph.

(* Every server constructor of rodbus/src/server/mod.rs and ffi/rodbus-ffi/src/server.rs passes the
   caller's filter (table regenerated from the sources) ... *)
Theorem C16_forward : forall c, In c ctor_calls -> cc_arg c = Forwarded.
Proof. exact forward_table. Qed.
Print Assumptions C16_forward.

(* ... so that from every public constructor, along every call path, the server task is built with
   exactly the filter the caller supplied (and at least one path builds it). *)
Theorem C16_forward_paths : forall fn, In fn public_ctors ->
  forall f : afilter, effective 8 fn f <> [] /\ Forall (fun r => r = Some f) (effective 8 fn f).
Proof. exact forward_public. Qed.
Print Assumptions C16_forward_paths.

(* ServerTask::new hands the accept loop the very filter it is given: between its parameter list and the struct literal
   no statement rebinds or assigns `filter` (every such statement is regenerated into sink_filter_rebindings) and the
   field is initialised with the parameter itself *)
Theorem C16_sink_untransformed : sink_filter_rebindings = [] /\ sink_filter_field = "filter"%string.
Proof. exact sink_untransformed. Qed.
Print Assumptions C16_sink_untransformed.

Theorem C16_forward_misc : sink_stores_filter = true /\ ffi_filter_conversion_is_identity = true
  /\ (6 <= List.length public_ctors)%nat.
Proof. exact forward_misc. Qed.
Print Assumptions C16_forward_misc.

(* Through the C ABI a filter is given as a string: rodbus_address_filter_create first tries an IP literal
   (one-element set), else the wildcard parser. For the IPv4 part (model of Ipv4Addr::from_str: 1-3 digits,
   no leading zero, <= 255): every accepted string is a well-formed wildcard string and the filter built
   admits exactly the peers of that wildcard - so an IPv4 literal means "exactly this address". *)
Theorem C16_ffi_filter_string : forall s f, ffi_filter_v4 s = Some f ->
  exists w, wildcard_string s w /\ forall peer, matches f peer = matches (WildcardIpv4 w) peer.
Proof. exact ffi_filter_is_wildcard_semantics. Qed.
Print Assumptions C16_ffi_filter_string.

(* A string containing ':' is never a wildcard string and never an IPv4 literal: through the C ABI it can only be
   taken as an IPv6 literal (or rejected). *)
Theorem C16_colon_never_wildcard : forall s, In 58 s -> parse_wildcard s = None /\ parse_ipv4 s = None.
Proof. exact (fun s H => conj (colon_never_wildcard s H) (colon_never_ipv4 s H)). Qed.
Print Assumptions C16_colon_never_wildcard.

(* The C-ABI filter string in full (IPv4 literal, else IPv6 literal, else wildcard), for ANY IPv6 literal parser
   that accepts only strings containing a colon: the filter built either has the semantics of the well-formed
   wildcard string s, or s is an IPv6 literal, not a wildcard, and exactly that address is admitted. *)
Theorem C16_ffi_filter_full : forall parse_v6 : str -> option ip,
  (forall s a, parse_v6 s = Some a -> In 58 s) ->
  forall s f, ffi_filter parse_v6 s = Some f ->
  (exists w, wildcard_string s w /\ forall peer, matches f peer = matches (WildcardIpv4 w) peer) \/
  (exists a, parse_v6 s = Some a /\ parse_wildcard s = None /\ forall peer, matches f peer = true <-> peer = a).
Proof. exact ffi_filter_semantics. Qed.
Print Assumptions C16_ffi_filter_full.

(* non-vacuity *)
Example C16_parse_examples :
  map show_parse [[49;55;50;46;49;55;46;50;48;46;42]; [43;49;46;48;48;55;46;42;46;51]; [49;46;50;46;51];
                  [49;46;50;46;51;46;52;46;53]; [49;46;50;46;51;46;50;53;54]; [42;42;46;49;46;49;46;49]]
  = ["172.17.20.*"; "1.7.*.3"; "ERR"; "ERR"; "ERR"; "ERR"]%string.
Proof. vm_compute. reflexivity. Qed.

Example C16_match_examples :
  let w := {| b3 := Some 127; b2 := Some 0; b1 := Some 0; b0 := None |} in
  (matches (WildcardIpv4 w) (V4 127 0 0 2), matches (WildcardIpv4 w) (V4 127 0 1 2),
   matches (AnyOf [V4 127 0 0 2; V6 [0;0;0;0;0;0;0;1]]) (V6 [0;0;0;0;0;0;0;1]), matches (Exact (V4 127 0 0 2)) (V4 127 0 0 1))
  = (true, false, true, false).
Proof. vm_compute. reflexivity. Qed.

Example C16_forward_example :
  effective 8 "rodbus_ffi::server_create_tls" (Exact (V4 127 0 0 2)) = [Some (Exact (V4 127 0 0 2)); Some (Exact (V4 127 0 0 2))].
Proof. vm_compute. reflexivity. Qed.
