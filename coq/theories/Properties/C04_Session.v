(* C04 / C05 / C11 end to end for a SEQUENCE of requests on one connection (TCP / TLS).
   ONE production reader serves the connection (whatever it holds of an incomplete frame when an
   exchange ends stays in its buffer: the tcp_represents / C05_continue theorems); in exchange k the task
   has request k in flight under transaction id t_k and hands the first matching frame to
   Request::handle_response.  Reference (Spec/SystemClientSessionSpec.v): request k is decided by
   the FIRST frame with id t_k that the MBAP length fields complete after it was written - the
   connection's bytes are cut as ONE stream, the incomplete frame at the end of exchange k being
   continued by the bytes of exchange k+1 -; frames with other ids, among them the late remainder of
   a reply to a timed-out request, are skipped; a framing error ends the connection.
   `exchange_ok`: the task state of the exchange has a request in flight (ANY such state), the
   request is one the API constructs, chunks are non-empty.  Transaction ids: by C11_txid request k
   of a run is stamped k mod 65536 (C11_system_encode, C11_wire_is_stamped).
   Only statements, closed by `exact`, each followed by Print Assumptions. *)
From Coq Require Import NArith List.
From Rodbus Require Import Base.Outcome.
From Rodbus Require Base.Frame Base.ClientTypes Model.Reader Model.ClientTask Spec.Framing Spec.SystemClientSpec
  Spec.SystemClientSessionSpec Model.SystemClient Model.SystemClientSession Proofs.C05Proofs Proofs.ClientSystemProofs Proofs.ClientSessionSystemProofs.
Import ListNotations.
Module F := Rodbus.Base.Frame.
Module CT := Rodbus.Base.ClientTypes.
Module T := Rodbus.Model.ClientTask.
Module SS := Rodbus.Spec.SystemClientSpec.
Module XS := Rodbus.Spec.SystemClientSessionSpec.
Import SystemClient SystemClientSession ClientSessionSystemProofs.

(* one exchange from a reader that holds the leftover `left` of everything received so far: the
   verdict is the Spec's on left ++ new bytes, the reader run ends as the Spec's cut ends, and if the
   stream merely falls silent the reader afterwards holds the Spec's new leftover *)
Theorem C04_exchange_continued : forall cfg reqs rd left st r t d chunks fi,
  C05Proofs.tcp_represents rd left ->
  T.ph st = T.PInFlight r t d -> T.partial st = None -> CT.request_wf (reqs (T.rq_id r)) ->
  Forall (fun c => c <> []) chunks ->
  let '(rd1, e, res) := exchange_from cfg reqs rd st chunks fi in
  verdict_for (T.rq_id r) res = SS.ref_client_result (reqs (T.rq_id r)) t (left ++ concat chunks) fi /\
  e = snd (Framing.ref_frames (left ++ concat chunks) fi) /\
  (fi = F.FinPending -> e = F.EndPending -> C05Proofs.tcp_represents rd1 (Framing.mbap_tail (left ++ concat chunks))).
Proof. exact exchange_from_ref. Qed.
Print Assumptions C04_exchange_continued.

(* EVERY sequence of exchanges, every cut of every exchange's bytes into non-empty reads *)
Theorem C04_session : forall cfg reqs xs rd left, C05Proofs.tcp_represents rd left -> Forall (exchange_ok reqs) xs ->
  session_from cfg reqs rd xs = XS.ref_session left (map (spec_exchange reqs) xs).
Proof. exact session_from_ref. Qed.
Print Assumptions C04_session.

(* from the start of a connection (ClientLoop::run resets the reader) *)
Theorem C04_session_from_connect : forall cfg reqs xs, Forall (exchange_ok reqs) xs ->
  client_session cfg reqs xs = XS.ref_session [] (map (spec_exchange reqs) xs).
Proof. exact client_session_ref. Qed.
Print Assumptions C04_session_from_connect.

(* readings of the Spec: at a frame boundary nothing is carried over ... *)
Theorem C04_session_frame_boundary : forall left fs r t rest, Framing.framed left fs ->
  XS.ref_session left ((r, t, []) :: rest) = SS.ref_client_result r t left F.FinPending :: XS.ref_session [] rest.
Proof. exact ref_session_framed. Qed.
Print Assumptions C04_session_frame_boundary.

(* ... and the late remainder of a reply to a timed-out request is consumed as the rest of THAT frame:
   it completes a frame with the OLD transaction id, which the next request skips *)
Theorem C11_late_remainder_skipped : forall r t left rest_of_frame fs s,
  Framing.framed (left ++ rest_of_frame) fs -> Forall (fun f => SS.tx_is t f = false) fs ->
  SS.ref_client_result r t (left ++ rest_of_frame ++ s) F.FinPending = SS.ref_client_result r t s F.FinPending.
Proof. exact late_remainder_skipped. Qed.
Print Assumptions C11_late_remainder_skipped.

(* non-vacuity: request 0 (tx 0) receives 9 of the 11 bytes of its reply and times out; request 1
   (tx 1) then receives the remaining 2 bytes followed by its own reply, in odd chunks *)
Example C04_session_nonvacuous :
  let cfg := {| T.cfg_cap := 4; T.cfg_res := 1 |} in
  let st k := T.set_ph (T.init 1 None 5 9) (T.PInFlight {| T.rq_id := k; T.rq_kind := T.KRead; T.rq_timeout := 1000 |} (N.of_nat k) 1000) in
  client_session cfg (fun _ => CT.RReadHoldingRegisters (16, 1)%N)
    [(st 0%nat, 0%nat, [[0;0;0;0;0;5]; [1;3;2]]%N); (st 1%nat, 1%nat, [[171]; [205;0;1;0]; [0;0;5;1;3;2;190;239]]%N)]
  = [SS.VPending; SS.VValue (CT.RespRegisters [(16, 48879)]%N)].
Proof. vm_compute. reflexivity. Qed.
