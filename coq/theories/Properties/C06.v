(* C06 - RTU frames are emitted with a correct CRC and accepted only if the CRC verifies.
   Only statements, closed by `exact`, each followed by Print Assumptions.
   Model: Model/{Buffer,Rtu,Reader,Format,Crc}.v with the length table of Gen/RtuLengths.v
   (regenerated from serial/frame.rs::length_mode). Spec: Spec/Framing.v `ref_rtu_frames`,
   `rtu_frame_of`. A byte is an N below 256 (`bytes`). *)
From Coq Require Import NArith List.
From Rodbus Require Import Base.Outcome Base.Cursor Base.Frame Gen.RtuLengths Model.Buffer Model.Rtu Model.Crc Model.Reader Model.Format Spec.Framing
  Gen.ParserShape Gen.WritePath Gen.ClientFatal Model.WritePath Proofs.WritePathProofs Proofs.BufferProofs Proofs.ReaderGeneric Proofs.CrcProofs Proofs.MbapProofs Proofs.RtuProofs Proofs.C06Proofs Proofs.ShapeProofs.
Import ListNotations.

(* Every frame written by format_rtu_pdu (any destination, any function byte, any body serializer
   that appends to the cursor, any buffer capacity) is address, PDU, CRC-16/MODBUS of address and
   PDU low byte first; it fits the buffer, and a PDU of at most 253 bytes gives at most 256 bytes. *)
Theorem C06_emit : forall {E} (ew : E) cap dest fcv (body : wcur -> outcome E wcur) bs,
  appends body -> rtu_format ew cap dest fcv body = Ok bs ->
  exists pdu_body, bs = rtu_frame_of dest (fcv :: pdu_body) /\ length bs <= cap /\
                   (length (fcv :: pdu_body) <= 253 -> length bs <= 256).
Proof. exact @rtu_emit. Qed.
Print Assumptions C06_emit.

(* The gate, for all streams, all chunkings, both parser roles: every frame the reader delivers
   sits in the received stream as address, PDU and the CORRECT CRC of address and PDU. *)
Theorem C06_gate : forall p chunks fi f, Forall bytes chunks ->
  In (IFrame f) (fst (run_session (kind_of p) false chunks fi)) ->
  exists pre post, fst (sched_stream chunks fi) = pre ++ rtu_frame_of (f_dest f) (f_pdu f) ++ post.
Proof. exact rtu_gate. Qed.
Print Assumptions C06_gate.

(* The length of a frame is derived from function code / byte count identically for every
   chunking: the reader delivers exactly the Spec's frames and terminal error. *)
Theorem C06_chunking : forall p (s : list N) (chunks : list (list N)) (fi : fin),
  bytes s -> concat chunks = s -> Forall (fun c => c <> []) chunks ->
  run_session (kind_of p) false chunks fi =
  (map IFrame (fst (ref_rtu_frames (role_of p) s fi)), snd (ref_rtu_frames (role_of p) s fi)).
Proof. exact rtu_chunking. Qed.
Print Assumptions C06_chunking.

Theorem C06_chunking_independent : forall p c1 c2 fi,
  bytes (concat c1) -> concat c1 = concat c2 -> Forall (fun c => c <> []) c1 -> Forall (fun c => c <> []) c2 ->
  run_session (kind_of p) false c1 fi = run_session (kind_of p) false c2 fi.
Proof. exact rtu_chunking_independent. Qed.
Print Assumptions C06_chunking_independent.

(* the length table regenerated from the code is the Modbus length rule, for every function byte *)
Theorem C06_length_table : forall p fc, (fc < 256)%N -> lrule_of (length_mode p fc) = length_rule (role_of p) fc.
Proof. exact length_mode_spec. Qed.
Print Assumptions C06_length_table.

(* Detection, algebraically (CRC linear over xor; three finite sweeps by vm_compute): a valid
   frame body ++ [CRC lo; CRC hi] of ANY length hit by an error pattern of the same length whose
   bits (wire order: byte by byte, LSB first) are a single 1, two 1s at most 2100 bits apart
   (every pair inside a 256-byte frame), or confined to a span of at most 16 bits (any burst
   <= 16, anywhere in the frame, trailer included), never verifies. *)
Theorem C06_detect : forall body lo hi eb elo ehi,
  bytes (body ++ [lo; hi]) -> bytes (eb ++ [elo; ehi]) -> length eb = length body ->
  (lo + 256 * hi)%N = crc body ->
  err_class (bits_of (eb ++ [elo; ehi])) ->
  xor_bytes (body ++ [lo; hi]) (eb ++ [elo; ehi]) = xor_bytes body eb ++ [N.lxor lo elo; N.lxor hi ehi] /\
  (N.lxor lo elo + 256 * N.lxor hi ehi)%N <> crc (xor_bytes body eb).
Proof. exact detect_frame. Qed.
Print Assumptions C06_detect.

(* more generally: a corrupted frame verifies iff the error pattern has zero syndrome *)
Theorem C06_detect_iff_syndrome : forall body eb e, bytes body -> length eb = length body -> (e < 65536)%N ->
  bytes (xor_bytes body eb) ->
  (N.lxor (crc body) e = crc (xor_bytes body eb) <-> syn (bits_of eb ++ bits16 e) = 0%N).
Proof. exact detect_iff_syndrome. Qed.
Print Assumptions C06_detect_iff_syndrome.

(* Session level, length-preserving corruptions (the delimiting bytes - function code, byte count
   - still describe the PDU): a frame whose CRC does not verify (by C06_detect: every corrupted
   valid frame of the three classes) yields CrcValidationFailure and NO frame, for every chunking;
   so no handler call, no reply (server) and no accepted response (client). *)
Theorem C06_detect_session : forall p addr pdu lo hi rest chunks fi,
  bytes (addr :: pdu ++ [lo; hi] ++ rest) -> delimited (role_of p) pdu -> length pdu <= 253 ->
  (lo + 256 * hi)%N <> crc (addr :: pdu) ->
  concat chunks = addr :: pdu ++ [lo; hi] ++ rest -> Forall (fun c => c <> []) chunks ->
  run_session (kind_of p) false chunks fi = ([], EndBad (CrcValidationFailure (lo + 256 * hi) (crc (addr :: pdu)))).
Proof. exact rtu_detect_session. Qed.
Print Assumptions C06_detect_session.

(* C06_detect and C06_detect_session in one statement: a VALID frame hit by a length-preserving
   error pattern of one of the classes (single bit, double bit, burst <= 16 - anywhere, address and
   trailer included) is rejected with CrcValidationFailure and nothing is delivered, whatever
   follows it and however the bytes are cut into reads. *)
Theorem C06_corrupted_frame_rejected : forall p addr pdu lo hi ea epdu elo ehi rest chunks fi,
  bytes (addr :: pdu ++ [lo; hi]) -> bytes (ea :: epdu ++ [elo; ehi]) -> bytes rest -> length epdu = length pdu ->
  (lo + 256 * hi)%N = crc (addr :: pdu) ->
  err_class (bits_of (ea :: epdu ++ [elo; ehi])) ->
  delimited (role_of p) (xor_bytes pdu epdu) -> length pdu <= 253 ->
  concat chunks = xor_bytes (addr :: pdu ++ [lo; hi]) (ea :: epdu ++ [elo; ehi]) ++ rest -> Forall (fun c => c <> []) chunks ->
  exists received expected, received <> expected /\
    run_session (kind_of p) false chunks fi = ([], EndBad (CrcValidationFailure received expected)).
Proof. exact rtu_corrupted_frame_rejected. Qed.
Print Assumptions C06_corrupted_frame_rejected.

(* the gate is not vacuous: a delimited frame with the right CRC is delivered *)
Theorem C06_accept : forall p addr pdu chunks fi,
  bytes (rtu_frame_of addr pdu) -> delimited (role_of p) pdu -> length pdu <= 253 ->
  concat chunks = rtu_frame_of addr pdu -> Forall (fun c => c <> []) chunks ->
  run_session (kind_of p) false chunks fi =
  ([IFrame {| f_tx := None; f_dest := addr; f_bcast := N.eqb addr 0; f_pdu := pdu |}], end_of fi).
Proof. exact rtu_accept. Qed.
Print Assumptions C06_accept.

(* CANCEL-SAFETY (both parser roles), as C05_cancel_safe: a next_frame call abandoned while it waits,
   followed by a fresh call from the reader it left behind = one uninterrupted call. For every
   reachable reader state and every split n1 ++ n2 of a schedule of bytes. *)
Theorem C06_cancel_safe : forall p st b n1 n2 fi r1 n1',
  wf b -> bytes (b_pend b) -> Forall bytes n1 -> Forall bytes n2 -> rst_ok st ->
  next_frame (nf_fuel n1) {| r_parser := PRtu p st; r_buf := b |} n1 FinPending = (r1, n1', NfEnd EndPending) ->
  next_frame (nf_fuel n2) r1 n2 fi = next_frame (nf_fuel (n1 ++ n2)) {| r_parser := PRtu p st; r_buf := b |} (n1 ++ n2) fi /\
  n1' = [] /\ exists st1 b1, r1 = {| r_parser := PRtu p st1; r_buf := b1 |} /\ wf b1 /\ bytes (b_pend b1) /\ rst_ok st1.
Proof. exact rtu_cancel_safe. Qed.
Print Assumptions C06_cancel_safe.

Theorem C06_cancel_safe_session : forall p chunks fi, Forall bytes chunks ->
  run_cancel (reader_new (kind_of p)) chunks fi = run_session (kind_of p) false chunks fi.
Proof. exact rtu_cancel_safe_session. Qed.
Print Assumptions C06_cancel_safe_session.

(* COMPOSITIONALITY (Spec and reader), as C05_spec_app / C05_continue_* *)
Theorem C06_spec_app : forall r s1 s2 fi,
  ref_rtu_frames r (s1 ++ s2) fi =
  match ref_rtu_frames r s1 FinPending with
  | (fs1, EndPending) => (fs1 ++ fst (ref_rtu_frames r (rtu_tail r s1 ++ s2) fi), snd (ref_rtu_frames r (rtu_tail r s1 ++ s2) fi))
  | x => x
  end.
Proof. exact ref_rtu_frames_app. Qed.
Print Assumptions C06_spec_app.

Theorem C06_continue_fresh : forall p, rtu_reader_represents p (reader_new (kind_of p)) [].
Proof. exact rtu_represents_fresh'. Qed.
Print Assumptions C06_continue_fresh.
Theorem C06_continue_run : forall p r t n fi, rtu_reader_represents p r t -> Forall bytes n ->
  run_reader (run_fuel r n) false r n fi =
    (map IFrame (fst (ref_rtu_frames (role_of p) (t ++ fst (sched_stream n fi)) (snd (sched_stream n fi)))),
     snd (ref_rtu_frames (role_of p) (t ++ fst (sched_stream n fi)) (snd (sched_stream n fi)))).
Proof. intros p r t n fi H Hb. rewrite ReaderGeneric.sched_stream_eq. exact (proj1 (rtu_run_represents' p r t n fi H Hb)). Qed.
Print Assumptions C06_continue_run.
Theorem C06_continue_step : forall p r t n r1 l1, rtu_reader_represents p r t -> Forall bytes n ->
  run_reader_st (run_fuel r n) r n FinPending = (r1, (l1, EndPending)) ->
  rtu_reader_represents p r1 (rtu_tail (role_of p) (t ++ fst (sched_stream n FinPending))) /\
  l1 = map IFrame (fst (ref_rtu_frames (role_of p) (t ++ fst (sched_stream n FinPending)) FinPending)) /\
  snd (ref_rtu_frames (role_of p) (t ++ fst (sched_stream n FinPending)) FinPending) = EndPending.
Proof. intros p r t n r1 l1 H Hb E. rewrite ReaderGeneric.sched_stream_eq. exact (rtu_represents_step' p r t n r1 l1 H Hb E). Qed.
Print Assumptions C06_continue_step.

(* THE RTU SERVER ACROSS PORT RE-OPENS. RtuServerTask keeps one reader for the life of the server; a framing
   error ends a port session, the port is re-opened and the same reader is polled again (resume = true). The
   reader delivers exactly what Spec/Framing.ref_rtu_reopen prescribes: session after session, every session
   cut on its own FROM A CLEAN PARSER on what is left of the stream (the buffer is not cleared: after a CRC
   failure the failed frame is gone, after an unknown function code / too long frame only its address byte). *)
Theorem C06_reopen : forall p chunks fi, Forall bytes chunks ->
  run_session (kind_of p) true chunks fi =
  ref_rtu_reopen (role_of p) (fst (sched_stream chunks fi)) (snd (sched_stream chunks fi)).
Proof. exact rtu_reopen. Qed.
Print Assumptions C06_reopen.

(* ... and so, across any number of errors and re-opens, a frame is acted on only if it sits in the received
   stream with ITS OWN address and the correct CRC of that address and its PDU (C06_gate for the server's life) *)
Theorem C06_reopen_gate : forall p chunks fi f, Forall bytes chunks ->
  In (IFrame f) (fst (run_session (kind_of p) true chunks fi)) ->
  exists pre post, fst (sched_stream chunks fi) = pre ++ rtu_frame_of (f_dest f) (f_pdu f) ++ post.
Proof. exact rtu_reopen_gate. Qed.
Print Assumptions C06_reopen_gate.

(* PARSER SKELETON TIE. Gen/ParserShape.v lists, regenerated from serial/frame.rs on every run, the steps of the
   three arms of RtuParser::parse in the code's order: Start (two bytes; the address is consumed, the function
   code only looked at; by length_mode to ReadFullBody / ReadToOffsetForLength, unknown = error),
   ReadToOffsetForLength (wait, look at the byte count, go to ReadFullBody(offset + count)), ReadFullBody (the
   `1 + len > 253` check FIRST, then the wait, the two reads, the CRC over address ++ payload, the comparison).
   The model's parser is the interpretation of those lists on every reachable state. *)
Theorem C06_parser_shape : forall p st b, wf b -> bytes (b_pend b) -> rst_ok st ->
  rtu_parse p st b =
  (let '(st', b', r) :=
     match st with
     | Start => run_start_arm p rtu_start_arm b 0%N 0%N None
     | ReadToOffsetForLength d off => run_offset_arm rtu_offset_arm d off b 0 None
     | ReadFullBody d len => run_full_arm rtu_full_arm d len (racc0 (ReadFullBody d len) b)
     end in (st', b', lift_s r)).
Proof. exact rtu_model_shape. Qed.
Print Assumptions C06_parser_shape.

(* THE TRANSMIT SIDE. Gen/WritePath.v lists, regenerated from common/phys.rs, the I/O call of EVERY transport arm of
   PhysLayer::write (and read), and from server/task.rs the shape of write_reply. With the transport modelled as a
   script of partial acceptances: on every arm, what has been handed to the transport is a prefix of the frame, and
   when the write returns Ok it is the whole frame (all arms are write_all with the result returned; a single `write`
   whose count is dropped loses bytes: C06_write_once_refuted). *)
Theorem C06_phys_write_complete : forall v data ts out r, phys_write v data ts = (out, r) ->
  exists rest, data = out ++ rest /\ (r = WDone -> out = data).
Proof. exact phys_write_complete. Qed.
Print Assumptions C06_phys_write_complete.
Theorem C06_write_once_refuted : exists data ts out, write_once data ts = (out, WDone) /\ out <> data.
Proof. exact write_once_loses_bytes. Qed.
Print Assumptions C06_write_once_refuted.

(* CANCEL-SAFETY OF THE REPLY WRITE (server/task.rs write_reply: the write raced against the command channel): for every
   reply and every interleaving of transport progress and commands, what has been emitted is a prefix of the ONE
   serialisation of the reply - the reply itself, exactly once, when the write completes - and it is the same as if no
   decode-level change had arrived. False when the write is re-created after every command (C06_write_reply_recreated_refuted). *)
Theorem C06_write_reply_cancel_safe : forall data evs out r, server_write_reply data evs = (out, r) ->
  (exists rest, data = out ++ rest /\ (r = RDone -> out = data)) /\
  server_write_reply data (filter is_take evs) = (out, r).
Proof. exact server_write_reply_safe. Qed.
Print Assumptions C06_write_reply_cancel_safe.
Theorem C06_write_reply_recreated_refuted : exists data evs out,
  write_reply WriteRecreatedAfterEveryCommand data data evs = (out, RDone) /\ out <> data.
Proof. exact write_reply_recreated_refuted. Qed.
Print Assumptions C06_write_reply_recreated_refuted.

(* THE CLIENT'S REQUEST WRITE (execute_request; bounded by the request timeout since F14 - Gen/WritePath.client_write_shape,
   regenerated): what is handed to the transport is a prefix of the one frame, the frame itself when the write completes; once
   the timeout has elapsed the call is over (a transport that stops taking bytes cannot hold the client); and on a connection
   the emitted bytes are complete frames followed by at most one cut frame - if a frame was cut by the timeout the session ends
   (Io(TimedOut) is fatal, Gen/ClientFatal) and NO further frame is emitted on that connection. *)
Theorem C06_client_write_prefix : forall data evs out r, client_request_write data evs = (out, r) ->
  exists rest, data = out ++ rest /\ (r = CDone -> out = data).
Proof. exact client_request_write_prefix. Qed.
Print Assumptions C06_client_write_prefix.
Theorem C06_client_write_bounded : forall data evs out r, client_request_write data evs = (out, r) -> In CTimeout evs -> r <> CParked.
Proof. exact client_request_write_bounded. Qed.
Print Assumptions C06_client_write_bounded.
Theorem C06_client_connection_emits : forall reqs out alive, client_conn_emit ClientFatal.io_error_ends_session reqs = (out, alive) ->
  exists k cut rest, out = concat (map fst (firstn k reqs)) ++ cut /\
                     (cut = [] \/ fst (nth k reqs ([], [])) = cut ++ rest) /\
                     (alive = false -> exists evs, In CTimeout evs /\ snd (nth k reqs ([], [])) = evs).
Proof. exact client_conn_emit_shape. Qed.
Print Assumptions C06_client_connection_emits.

(* The RTU client (and any other user of one FramedReader across port reopenings that resets it
   at connection start, as ClientLoop::run does): every connection's stream is delimited and
   CRC-gated on its own, whatever an earlier connection left in the buffer or the parser. *)
Theorem C06_client : forall p conns r, is_rtu p r -> Forall (fun c => Forall bytes (fst c)) conns ->
  client_connections true r conns =
  map (fun c => (map IFrame (fst (ref_rtu_frames (role_of p) (fst (sched_stream (fst c) (snd c))) (snd (sched_stream (fst c) (snd c))))),
                 snd (ref_rtu_frames (role_of p) (fst (sched_stream (fst c) (snd c))) (snd (sched_stream (fst c) (snd c)))))) conns.
Proof. exact rtu_client_every_connection_fresh. Qed.
Print Assumptions C06_client.

(* non-vacuity / sanity: the check value of CRC-16/MODBUS and the crate's read-coils vector *)
Example C06_crc_check_value : crc [49;50;51;52;53;54;55;56;57]%N = 0x4B37%N.
Proof. vm_compute. reflexivity. Qed.
Example C06_nonvacuous :
  run_session KRtuRequest false [[42;1;0]; [16;0;19;122]; [25; 42]]%N FinPending
  = ([IFrame {| f_tx := None; f_dest := 42%N; f_bcast := false; f_pdu := [1;0;16;0;19]%N |}], EndPending).
Proof. vm_compute. reflexivity. Qed.
Example C06_detect_nonvacuous : err_class (bits_of [0;4;0;0]%N) /\ delimited Requests [1;0;16;0;19]%N.
Proof. split; [left; exists 10, 21; reflexivity|reflexivity]. Qed.
(* a 9-bit burst over the last payload byte and the first CRC byte *)
Example C06_detect_burst_nonvacuous : err_class (bits_of [0;0;128;255;0]%N).
Proof.
  right; right; right. exists 23, [true;true;true;true;true;true;true;true;true], 8.
  split; [cbn; repeat constructor|]. split; [discriminate|]. split; [cbn; repeat constructor|reflexivity].
Qed.
