(* C06 - placeholder while the proofs are being ported *)
From Coq Require Import NArith List.
From Rodbus Require Import Base.Frame Model.Reader Spec.Framing.
Import ListNotations.
Example C06_nonvacuous :
  run_session KRtuRequest false [[42;1;0]; [16;0;19;122]; [25; 42]]%N FinPending
  = ([IFrame {| f_tx := None; f_dest := 42%N; f_bcast := false; f_pdu := [1;0;16;0;19]%N |}], EndPending).
Proof. vm_compute. reflexivity. Qed.
