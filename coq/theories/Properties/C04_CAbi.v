(* C04 for C callers: "a well-formed exception reply yields exactly that exception code" through
   the C ABI. Every C-ABI completion callback (BitReadCallback, RegisterReadCallback,
   WriteCallback: on_failure(err.into())) receives the error through
   `impl From<rodbus::ExceptionCode> for ffi::RequestError` (conversions.rs), regenerated into
   Gen/FfiTables.v together with exception.rs' From<u8>. For EVERY code byte the name the callback
   receives is the Spec's (Modbus standard name, otherwise Unknown).
   Only statements, closed by `exact`, each followed by Print Assumptions. *)
From Coq Require Import NArith List String.
From Rodbus Require Import Base.Outcome Base.ClientTypes Model.ClientRequest Spec.ClientCodecSpec Spec.CAbiSpec
  Model.ClientCAbi Gen.ClientTables Gen.FfiTables Proofs.ClientCAbiProofs.
Import ListNotations.
Local Open Scope N_scope.

Theorem C04_cabi_exception_name : forall c, cabi_callback_exception c = cabi_exception_name c.
Proof. exact cabi_exception_name_ok. Qed.
Print Assumptions C04_cabi_exception_name.

Theorem C04_cabi_exception_reply : forall r c ex,
  handle_response r [reply_fc r + 128; c] = Err (EException ex) ->
  name_ffi_request_error (exception_to_ffi (exception_from_u8 (u8_of_excode ex))) = cabi_exception_name c.
Proof. exact cabi_exception_reply. Qed.
Print Assumptions C04_cabi_exception_reply.

Theorem C04_cabi_tables_agree : forall c, exception_to_u8 (exception_from_u8 c) = u8_of_excode (excode_of_u8 c).
Proof. exact tables_agree. Qed.
Print Assumptions C04_cabi_tables_agree.

Example C04_cabi_busy : cabi_callback_exception 6 = "ModbusExceptionServerDeviceBusy"%string.
Proof. reflexivity. Qed.
