(* C04 (and the error-class clauses of C03 / C10): the error CLASS a caller sees, derived from the
   code's own conversion tables. Gen/ErrorMaps.v is regenerated on every run from the `From` impls
   of rodbus/src/error.rs (scursor ReadError / WriteError / TrailingBytes, AduParseError,
   InternalError, InvalidRange, InvalidRequest, FrameParseError, io::Error -> RequestError) and
   Gen/SessionErrors.v from SessionError::from_request_err; `class_of e` sends each error of the
   codec model through them (Proofs/ClientErrorProofs.v full_of: where the error originates in the
   code). A swapped arm in error.rs or client/task.rs therefore breaks these theorems, besides the
   correspondence (the harness prints names that are specific to the RequestError variant).
   Only statements, closed by `exact`, each followed by Print Assumptions. *)
From Coq Require Import NArith List.
From Rodbus Require Import Base.Outcome Base.ClientTypes Model.Format Model.ClientRequest Spec.ClientCodecSpec
  Gen.SessionErrors Gen.ErrorMaps Proofs.ClientErrorProofs.
From Rodbus Require Base.Frame.
Import ListNotations.
Local Open Scope N_scope.

(* the flat error names of the model are these RequestError values of the code *)
Theorem C04_error_table :
  full_of ECountOfZero = RqBadRequest (IqBadRange IrCountOfZero) /\
  full_of EAddressOverflow = RqBadRequest (IqBadRange IrAddressOverflow) /\
  full_of ECountTooLargeForType = RqBadRequest (IqBadRange IrCountTooLargeForType) /\
  full_of ECountTooBigForU16 = RqBadRequest IqCountTooBigForU16 /\
  full_of ECountTooBigForType = RqBadRequest IqCountTooBigForType /\
  full_of EInsufficientWriteSpace = RqInternal InInsufficientWriteSpace /\
  full_of EBadByteCount = RqInternal InBadByteCount /\
  full_of EInsufficientBytes = RqBadResponse ApInsufficientBytes /\
  full_of ETrailingBytes = RqBadResponse ApTrailingBytes /\
  full_of EReplyEchoMismatch = RqBadResponse ApReplyEchoMismatch /\
  full_of EUnknownResponseFunction = RqBadResponse ApUnknownResponseFunction /\
  full_of EUnknownCoilState = RqBadResponse ApUnknownCoilState /\
  (forall ex, full_of (EException ex) = RqException).
Proof. exact full_of_table. Qed.
Print Assumptions C04_error_table.

(* Every failure of reply decoding is RequestError::Exception (by C04_exception_only: exactly for
   a well-formed exception reply) or a BadResponse - or BadRequest(BadRange), which is what
   AddressRange::parse produces for an echoed range that is empty / overflows - never Internal,
   BadFrame or Io; and it never ends the session. *)
Theorem C04_decode_error_class : forall r pdu e, request_wf r -> handle_response r pdu = Err e ->
  (class_of e = ReException \/ class_of e = ReBadResponse \/ class_of e = ReBadRequest) /\
  from_request_err (class_of e) = None.
Proof. exact decode_error_class. Qed.
Print Assumptions C04_decode_error_class.

Theorem C04_exception_class : forall e, class_of e = ReException <-> is_exception e.
Proof. exact class_exception. Qed.
Print Assumptions C04_exception_class.

(* Every rejected call (C03_limits) is a BadRequest; the session goes on. *)
Theorem C04_submit_error_class : forall f tx uid c e, call_wf c -> client_submit f tx uid c = Err e ->
  class_of e = ReBadRequest /\ from_request_err (class_of e) = None.
Proof. exact submit_error_class. Qed.
Print Assumptions C04_submit_error_class.

(* No error of construction, encoding or decoding ends the session, whatever it is. *)
Theorem C04_codec_errors_keep_session : forall e, from_request_err (class_of e) = None.
Proof. exact codec_error_keeps_session. Qed.
Print Assumptions C04_codec_errors_keep_session.

(* Every framing failure is a BadFrame and ends the session (SessionError::BadFrame); an I/O error
   is Io and ends it (SessionError::IoError). `full_of_ferr` reads the framing models' error
   vocabulary (Base/Frame.v, used by C05, C06 and the C04_system theorems) in the code's types. *)
Theorem C04_frame_error_class : forall fe,
  class_of_full (from_frame_parse_error fe) = ReBadFrame /\ from_request_err (class_of_full (from_frame_parse_error fe)) = Some SeBadFrame.
Proof. exact frame_error_ends_session. Qed.
Print Assumptions C04_frame_error_class.

Theorem C04_reader_error_class : forall e, e <> Frame.InternalError ->
  class_of_full (full_of_ferr e) = ReBadFrame /\ from_request_err (class_of_full (full_of_ferr e)) = Some SeBadFrame.
Proof. exact ferr_class. Qed.
Print Assumptions C04_reader_error_class.

Theorem C04_io_error_class :
  class_of_full from_io_error = ReIo /\ from_request_err (class_of_full from_io_error) = Some SeIoError.
Proof. exact io_error_ends_session. Qed.
Print Assumptions C04_io_error_class.

Theorem C04_other_errors_keep_session :
  from_request_err ReResponseTimeout = None /\ from_request_err ReNoConnection = None /\ from_request_err ReShutdown = None /\
  from_request_err ReException = None /\ from_request_err ReBadResponse = None /\ from_request_err ReBadRequest = None /\
  from_request_err ReInternal = None.
Proof. exact other_errors_keep_session. Qed.
Print Assumptions C04_other_errors_keep_session.
