(* C04 at full strength (with C05 and C11): the client as a whole - bytes of one connection arriving
   in arbitrary read chunks, the production reader (ReadBuffer + MBAP parser + next_frame loop,
   Model/Reader.v), then the client task's execute_request loop (Model/ClientTask.v) with request
   r in flight under transaction id t, calling Request::handle_response (Model/ClientRequest.v) on
   the first frame that carries t - equals the reference of Spec/SystemClientSpec.v: cut the stream
   by the MBAP length field alone; the first frame with transaction id t decides (genuine reply ->
   its value; well-formed exception reply -> its code; otherwise bad reply); if the stream breaks
   the framing rules / ends / falls silent before such a frame, that is the outcome.
   Composition of C05_chunking (reader = ref_frames for every chunk schedule), C04_ok_iff /
   C04_exception_only / C04_exception / C04_total (handle_response = ref_reply / ref_exception) and
   C11_mismatch / C12_exact_frame / C10 (the task skips other ids, completes on the matching one,
   fails on a read error).  `st` is ANY task state with r in flight (whatever is queued, whatever
   the counters); `reqs` gives the Modbus content of each request id; all chunks arrive before the
   request's timer instant (no EvTimer is due: C12_exact_timer).
   Only statements, closed by `exact`, each followed by Print Assumptions. *)
From Coq Require Import NArith List.
From Rodbus Require Import Base.Outcome Gen.SessionErrors.
From Rodbus Require Base.Frame Base.ClientTypes Model.Reader Model.ClientRequest Model.ClientTask
  Spec.Framing Spec.ClientCodecSpec Spec.SystemClientSpec Model.SystemClient Proofs.C05Proofs Proofs.ClientSystemProofs.
Import ListNotations.
Module F := Rodbus.Base.Frame.
Module CT := Rodbus.Base.ClientTypes.
Module CS := Rodbus.Spec.ClientCodecSpec.
Module T := Rodbus.Model.ClientTask.
Module SS := Rodbus.Spec.SystemClientSpec.
Import SystemClient ClientSystemProofs.

(* EVERY byte stream s, EVERY cut of s into non-empty reads, every way the stream behaves after s:
   what the caller of r observes (the value handle_response produced for its promise, or the error
   the task failed it with) is the Spec's verdict, and the task model's own completion record for
   r is the class of that verdict *)
Theorem C04_system : forall cfg reqs st r t d,
  T.ph st = T.PInFlight r t d -> T.partial st = None -> CT.request_wf (reqs (T.rq_id r)) ->
  forall s chunks fi, concat chunks = s -> Forall (fun c => c <> []) chunks ->
  verdict_for (T.rq_id r) (client_system cfg reqs st chunks fi) = SS.ref_client_result (reqs (T.rq_id r)) t s fi /\
  first_completion (T.rq_id r) (snd (fst (client_system cfg reqs st chunks fi))) = task_class (SS.ref_client_result (reqs (T.rq_id r)) t s fi).
Proof. exact client_system_ref. Qed.
Print Assumptions C04_system.

(* the verdict, clause by clause (readings of the Spec; `first_with_tx t s fi` is the first frame
   with transaction id t among the frames the length fields cut from s) *)
Theorem C04_system_ok_iff : forall mr t s fi v, SS.ref_client_result mr t s fi = SS.VValue v <->
  exists f, first_with_tx t s fi = Some f /\ CS.ref_reply mr (F.f_pdu f) = Some v.
Proof. exact ref_ok_iff. Qed.
Print Assumptions C04_system_ok_iff.

Theorem C04_system_exception_iff : forall mr t s fi c, SS.ref_client_result mr t s fi = SS.VException c <->
  exists f, first_with_tx t s fi = Some f /\ CS.ref_reply mr (F.f_pdu f) = None /\ CS.ref_exception mr (F.f_pdu f) = Some c.
Proof. exact ref_exception_iff. Qed.
Print Assumptions C04_system_exception_iff.

Theorem C04_system_bad_frame_iff : forall mr t s fi, SS.ref_client_result mr t s fi = SS.VBadFrame <->
  first_with_tx t s fi = None /\ exists e, snd (Framing.ref_frames s fi) = F.EndBad e.
Proof. exact ref_bad_frame_iff. Qed.
Print Assumptions C04_system_bad_frame_iff.

(* a framing error (resp. EOF / I/O error) before a matching frame ends the connection: the run
   reports the end of the session with that reason *)
Theorem C04_system_connection_ends : forall cfg reqs st r t d,
  T.ph st = T.PInFlight r t d -> T.partial st = None -> CT.request_wf (reqs (T.rq_id r)) ->
  forall s chunks fi, concat chunks = s -> Forall (fun c => c <> []) chunks ->
  (SS.ref_client_result (reqs (T.rq_id r)) t s fi = SS.VBadFrame -> In (T.OEnd SeBadFrame) (snd (fst (client_system cfg reqs st chunks fi)))) /\
  (SS.ref_client_result (reqs (T.rq_id r)) t s fi = SS.VIo -> In (T.OEnd SeIoError) (snd (fst (client_system cfg reqs st chunks fi)))).
Proof. exact client_system_connection_ends. Qed.
Print Assumptions C04_system_connection_ends.

(* the result does not depend on how the network segments the stream *)
Theorem C04_system_chunking_independent : forall cfg reqs st r t d,
  T.ph st = T.PInFlight r t d -> T.partial st = None -> CT.request_wf (reqs (T.rq_id r)) ->
  forall c1 c2 fi, concat c1 = concat c2 -> Forall (fun c => c <> []) c1 -> Forall (fun c => c <> []) c2 ->
  verdict_for (T.rq_id r) (client_system cfg reqs st c1 fi) = verdict_for (T.rq_id r) (client_system cfg reqs st c2 fi).
Proof. exact client_system_chunking_independent. Qed.
Print Assumptions C04_system_chunking_independent.

(* non-vacuity: read 2 holding registers from 16, written with transaction id 7; the peer sends a
   stale reply (id 6), then the genuine one, cut into odd chunks *)
Example C04_system_nonvacuous :
  let cfg := {| T.cfg_cap := 4; T.cfg_res := 1 |} in
  let rq := {| T.rq_id := 3; T.rq_kind := T.KRead; T.rq_timeout := 1000 |} in
  let st := T.set_ph (T.init 1 None 5 9) (T.PInFlight rq 7 1000) in
  verdict_for 3 (client_system cfg (fun _ => CT.RReadHoldingRegisters (16, 2)%N) st
                   [[0;6;0;0;0;7;1;3;4]; [0;1;0;2;0;7;0]; [0;0;7;1;3;4;171]; [205;0;5]]%N F.FinPending)
  = SS.VValue (CT.RespRegisters [(16, 43981); (17, 5)]%N).
Proof. vm_compute. reflexivity. Qed.
