(* C13 read for TLS channels: the expected listener paths of Spec/TlsLifecycleSpec.v are paths of C13's own automaton
   (Spec/Lifecycle.v), whatever delays the wait states carry; and what the Spec demands of a TLS channel.
   Only statements, closed by `exact`, each followed by Print Assumptions. *)
From Coq Require Import NArith List Bool.
From Rodbus Require Import Spec.Lifecycle Spec.TlsLifecycleSpec Proofs.TlsLifecycleProofs.
Import ListNotations.

(* every listener path with the expected kinds is legal for C13 and ends with its only Shutdown *)
Theorem C13_Tls_expected_is_legal : forall l p, map kind_of p = expected_path l -> legal p = true /\ shutdown_last p = true.
Proof. exact expected_is_legal. Qed.
Print Assumptions C13_Tls_expected_is_legal.

(* Connected is announced only for attempts whose handshake was completed: as many times as there are such attempts
   before the channel is shut down *)
Theorem C13_Tls_connected_only_after_handshake : forall l,
  length (filter (lkind_eqb KConnected) (expected_path l)) = established_before_shutdown l.
Proof. exact connected_count. Qed.
Print Assumptions C13_Tls_connected_only_after_handshake.

(* a shutdown while the handshake is pending: Shutdown directly follows that Connecting, and nothing follows it *)
Theorem C13_Tls_shutdown_from_handshake : forall pre r,
  exists q, expected_path (pre ++ AHandshakePending MShutdown :: r) = q ++ [KConnecting; KShutdown].
Proof. exact shutdown_from_handshake. Qed.
Print Assumptions C13_Tls_shutdown_from_handshake.

(* the verdict function accepts exactly the legal paths of the expected kinds *)
Theorem C13_Tls_judge : forall l p, judge l p = true <-> map kind_of p = expected_path l.
Proof. exact judge_iff. Qed.
Print Assumptions C13_Tls_judge.

Example C13_Tls_nonvacuous :
  judge [ARefused; AHandshakePending MRequest; AEstablished true; AHandshakePending MDisable; AHandshakeFails]
        [LDisabled; LConnecting; LWaitFailed 20; LConnecting; LWaitFailed 40; LConnecting; LConnected; LWaitDisc 20;
         LConnecting; LDisabled; LConnecting; LWaitFailed 20; LConnecting; LShutdown] = true /\
  judge [AHandshakeFails] [LDisabled; LConnecting; LConnected; LWaitFailed 20; LConnecting; LShutdown] = false /\
  judge [AHandshakePending MShutdown] [LDisabled; LConnecting; LWaitFailed 20; LShutdown] = false.
Proof. vm_compute. repeat split. Qed.
