(* C19: registering a unit id that is already registered is refused without any effect.
   Only statements, closed by `exact`, each followed by Print Assumptions. *)
From Coq Require Import NArith List String Bool.
From Rodbus Require Import Base.ServerTypes Gen.LockScope Model.DbTypes Model.Database Model.FfiServer Spec.FfiWireSpec Model.FfiWire.
From Rodbus Require Proofs.RegistrationProofs.
Import ListNotations.
Module P := Rodbus.Proofs.RegistrationProofs.

(* In the composed model of a C-ABI server (any application, code model or reference server), a second
   rodbus_device_map_add_endpoint for unit 1 with ANY configure callback returns false and everything that follows -
   every reply, every transaction result, the callback count - is what it would have been without that call: the
   database served stays the FIRST (accepted) registration's. Over the statement order regenerated from
   device_map_add_endpoint (the contains_key check with its early return precedes the configure callback and the insert). *)
Theorem C19_refused_registration_no_effect : forall W model units tx ops rest,
  run_items W model units tx (IDup ops :: rest) =
  (let '(out, u') := run_items W model units tx rest in ("dup=F"%string :: out, u')).
Proof. exact P.refused_registration. Qed.
Print Assumptions C19_refused_registration_no_effect.

Theorem C19_duplicate_unit_refused_first : duplicate_unit_refused_before_any_effect = true.
Proof. exact P.refused_first. Qed.
Print Assumptions C19_duplicate_unit_refused_first.
