(* C02 - Application handlers see only valid, correctly decoded requests, exactly once.
   Only statements, closed by `exact`, each followed by Print Assumptions.

   log_of (handle_frame ..) is the ordered list of everything the application sees while one frame
   is handled; handler_events drops the authorization queries (C08). spec_calls (Spec/Modbus.v) is
   what the property allows: ONE write call with the decoded arguments for a valid, in-limit,
   permitted write to a configured unit (one per configured unit, in unit id order, for a broadcast
   write); the ascending prefix start .. first failing address for a valid, permitted read of a
   configured unit; nothing for anything else (malformed, over-limit, wrong unit, unknown function,
   denied, empty). A frame the reader never delivers (bad frame) causes no call because
   handle_frame is not reached (C05/C06). *)
From Coq Require Import NArith Arith List String.
From Rodbus Require Import Base.Outcome Base.ServerTypes Model.Server Model.ServerRender Model.ServerExec Spec.Modbus
  Proofs.ServerParse Proofs.ServerProofs Proofs.ServerProps Proofs.ServerTheorems Proofs.AuthzTies Proofs.ReaderTies.
Import ListNotations.
Local Open Scope N_scope.

Theorem C02_calls_frame : forall (St : Type) (H : handler St) l a units fr, frame_ok l fr ->
  handler_events (log_of (handle_frame H l a units fr)) = spec_calls H a units fr.
Proof. exact @calls_frame. Qed.
Print Assumptions C02_calls_frame.

(* sequences: the calls of a connection are the calls of its frames in order, each against the
   handler states its predecessors left (calls_seq threads the reference server's states) *)
Theorem C02_calls : forall (St : Type) (H : handler St) l a units frames, Forall (frame_ok l) frames ->
  handler_events (snd (fst (session H l a units frames))) = calls_seq H l a units frames.
Proof. exact @calls_session. Qed.
Print Assumptions C02_calls.

(* the iterator handed to a write-multiple handler yields exactly `count` items (start + i, v_i),
   v_i the transmitted values *)
Theorem C02_args_coils : forall (St : Type) (H : handler St) a units fr u s n items,
  In (EvWriteMultipleCoils u s n items) (spec_calls H a units fr) ->
  exists fc vs, decode (f_pdu fr) = Valid fc (WriteMultipleCoils s vs) /\ items = indexed s vs /\ N.of_nat (List.length vs) = n.
Proof. exact @args_coils. Qed.
Print Assumptions C02_args_coils.

Theorem C02_args_registers : forall (St : Type) (H : handler St) a units fr u s n items,
  In (EvWriteMultipleRegisters u s n items) (spec_calls H a units fr) ->
  exists fc vs, decode (f_pdu fr) = Valid fc (WriteMultipleRegisters s vs) /\ items = indexed s vs /\ N.of_nat (List.length vs) = n.
Proof. exact @args_registers. Qed.
Print Assumptions C02_args_registers.

Theorem C02_args_nth : forall (A : Type) (d : A) vs s i, (i < List.length vs)%nat ->
  List.nth i (indexed s vs) (0, d) = (s + N.of_nat i, List.nth i vs d).
Proof. exact @indexed_nth. Qed.
Print Assumptions C02_args_nth.

(* each read queries only addresses inside the requested range, on the handler object the addressed
   unit id maps to *)
Theorem C02_reads_in_range : forall (St : Type) (H : handler St) a units fr e k h addr,
  In e (spec_calls H a units fr) -> ev_read e = Some (k, h, addr) ->
  exists fc r u s n, decode (f_pdu fr) = Valid fc r /\ kind_of r = k /\ f_dest fr = DUnit u /\ lookup u (u_map units) = Some h /\
                     arg_of r = ARange s n /\ (s <= addr /\ addr < s + n).
Proof. exact @reads_in_range. Qed.
Print Assumptions C02_reads_in_range.

(* no call, no change of application state (same unit map, every handler object's state as before) *)
Theorem C02_no_effect : forall (St : Type) (H : handler St) l a units fr, frame_ok l fr ->
  spec_calls H a units fr = [] -> same_units (units_of (handle_frame H l a units fr)) units.
Proof. exact @no_effect_frame. Qed.
Print Assumptions C02_no_effect.

(* the handlers see the requests of the STREAM: the receive buffer's compaction moves the pending bytes before it
   rewinds both indices, next_frame keeps the parser state between calls and resets it when a framing error is
   returned (the same reader serves the re-opened RTU port). Regenerated from common/buffer.rs, common/frame.rs. *)
Theorem C02_reader_loop_shape :
  Gen.ReaderLoop.next_frame_resets_parser_on_entry = false /\ Gen.ReaderLoop.next_frame_resets_parser_on_error = true /\
  Gen.ReaderLoop.read_some_compaction =
    ["let length = self.len()"; "self.buffer.copy_within(self.begin..self.end, 0)"; "self.begin = 0"; "self.end = length"]%string.
Proof. exact reader_loop_shape. Qed.
Print Assumptions C02_reader_loop_shape.

(* on servers created through the C ABI the permission asked for is the one of the request's own kind: each
   method of the authorization adapter calls the C callback of its own name (regenerated table) *)
Theorem C02_ffi_wrapper_own_callback :
  Forall forwards_faithfully Gen.FfiTables.authz_wrappers /\
  map Gen.FfiTables.aw_method Gen.FfiTables.authz_wrappers =
    ["read_coils"; "read_discrete_inputs"; "read_holding_registers"; "read_input_registers";
     "write_single_coil"; "write_single_register"; "write_multiple_coils"; "write_multiple_registers"]%string /\
  Gen.FfiTables.authz_wrapper_fields = ["inner"]%string.
Proof. exact ffi_wrapper_forwards. Qed.
Print Assumptions C02_ffi_wrapper_own_callback.

(* non-vacuity: malformed / over-limit / wrong-unit / unknown-function frames cause no call; the
   write is seen once with its decoded items; the read stops at the failing address 2 *)
Example C02_nonvacuous :
  run_model (LTcp, [(1, 1)], [mku 1 3 5 [(0, 2, 4)] [] [] [] [] []], CNone,
             [mkf (Some 1) (DUnit 1) [15; 0; 16; 0; 10; 2; 205; 1]; mkf (Some 2) (DUnit 1) [15; 0; 16; 0; 10; 1; 205];
              mkf (Some 3) (DUnit 1) [1; 0; 0; 7; 209]; mkf (Some 4) (DUnit 2) [5; 0; 1; 255; 0];
              mkf (Some 5) (DUnit 1) [9; 9]; mkf (Some 6) (DUnit 1) [1; 0; 0; 0; 5]])
  = "000100000006010F0010000A,000200000003018F03,000300000003018103,-,000500000003018901,000600000003018104|wmc.1.16.10.16:1011001110;rc.1.0-2|open"%string.
Proof. vm_compute. reflexivity. Qed.
