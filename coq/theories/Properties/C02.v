(* C02 - placeholder until the proofs land *)
From Coq Require Import NArith List.
