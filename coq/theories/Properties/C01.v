(* C01 - Server replies exactly as the Modbus application protocol prescribes.
   Only statements, closed by `exact`, each followed by Print Assumptions.

   Model = Model/Server.v (transcription of server/task.rs, server/request.rs, common/serialize.rs,
   common/frame.rs, types.rs; replies formatted through Model/Format.v into the shared 260-byte
   buffer). Spec = Spec/Modbus.v (reference server written from the protocol text). Both take the
   application's point handlers H (ANY deterministic state machine), ANY unit map (unit id ->
   handler object, objects may be shared between unit ids; `ucfg`) and ANY authorization policy. A frame is what the reader delivers: optional transaction id, destination,
   PDU bytes; frame_ok says: PDU bytes are bytes, and a TCP frame carries a transaction id. *)
From Coq Require Import NArith Arith List String.
From Rodbus Require Import Base.Outcome Base.ServerTypes Model.Server Model.ServerRender Model.ServerExec Spec.Modbus
  Proofs.ServerParse Proofs.ServerProofs Proofs.ServerProps Proofs.ServerTheorems.
Import ListNotations.
Local Open Scope N_scope.

(* single frame: whatever the function code (the eight supported ones, any unsupported one, none),
   the payload, the handler state, the unit map and the policy, the code's reply bytes, new handler
   states and application-call log are exactly the reference server's - and formatting never fails
   (in-limit replies fit the 260-byte writer; partial bytes written before a handler exception
   are discarded by the exception fallback) *)
Theorem C01_frame : forall (St : Type) (H : handler St) l a units fr, frame_ok l fr ->
  handle_frame H l a units fr = lift3 (ref_handle_frame H l a units fr).
Proof. exact @handle_frame_refines. Qed.
Print Assumptions C01_frame.

(* sequences on one connection, MBAP framing: one entry per request, in request order *)
Theorem C01_tcp : forall (St : Type) (H : handler St) a frames units, Forall (frame_ok LTcp) frames ->
  session H LTcp a units frames =
    (let '(replies, units', log) := ref_session H LTcp a units frames in (replies, units', log, SOpen)).
Proof. exact (fun St H => @session_refines St H LTcp). Qed.
Print Assumptions C01_tcp.

(* the same over RTU framing. A frame here is one the RTU parser delivered, i.e. with one of the
   eight known function codes: an unknown function code on serial is a framing error that ends
   the session (C06), not an exception-01 reply. *)
Theorem C01_rtu : forall (St : Type) (H : handler St) a frames units, Forall (frame_ok LRtu) frames ->
  session H LRtu a units frames =
    (let '(replies, units', log) := ref_session H LRtu a units frames in (replies, units', log, SOpen)).
Proof. exact (fun St H => @session_refines St H LRtu). Qed.
Print Assumptions C01_rtu.

(* no request sequence can make reply formatting fail or panic: the session stays open *)
Theorem C01_never_fails : forall (St : Type) (H : handler St) l a units frames, Forall (frame_ok l) frames ->
  snd (session H l a units frames) = SOpen.
Proof. exact @session_never_fails. Qed.
Print Assumptions C01_never_fails.

(* every reply is nothing, or ONE ADU echoing the request's transaction id and unit id and carrying
   the request's function code with: packed bits, or big-endian registers, or the echoed write, or
   (function code with its top bit set, exception code) *)
Theorem C01_reply_shape : forall (St : Type) (H : handler St) l a units fr, frame_ok l fr ->
  reply_of (handle_frame H l a units fr) = Ok [] \/
  exists fc body pdu, f_pdu fr = fc :: body /\ pdu_shape fc pdu /\
    reply_of (handle_frame H l a units fr) = Ok (adu l (f_tx fr) (dest_value (f_dest fr)) pdu).
Proof. exact @reply_shape. Qed.
Print Assumptions C01_reply_shape.

(* packing is LSB first: value k of a bit read is bit (k mod 8) of data byte k / 8 *)
Theorem C01_pack_lsb_first : forall (bits : list bool) k, (k < List.length bits)%nat ->
  N.testbit (List.nth (k / 8)%nat (pack bits) 0) (N.of_nat (k mod 8)%nat) = List.nth k bits false.
Proof. exact pack_lsb_first. Qed.
Print Assumptions C01_pack_lsb_first.

(* the decoder of the code accepts exactly the protocol's valid requests *)
Theorem C01_parse : forall f body, Forall byte body ->
  match parse f body with
  | Some r => decode (Gen.Consts.fcode_value f :: body) = Valid (Gen.Consts.fcode_value f) (to_spec r) /\ req_wf r /\ get_function r = f
  | None => decode (Gen.Consts.fcode_value f :: body) = Invalid (Gen.Consts.fcode_value f)
  end.
Proof. exact parse_decode. Qed.
Print Assumptions C01_parse.

(* non-vacuity: a concrete TCP session against the programmable handler - read 10 coils, write a
   coil, read past the limit (exception 03), unknown function (exception 01), unconfigured unit
   (silence), read of a register whose handler raises exception 4 *)
Example C01_nonvacuous :
  run_model (LTcp, [(1, 1)], [mku 1 3 5 [(2, 1, 4)] [] [] [] [] []], CNone,
             [mkf (Some 1) (DUnit 1) [1; 0; 0; 0; 10]; mkf (Some 2) (DUnit 1) [5; 0; 7; 255; 0];
              mkf (Some 3) (DUnit 1) [1; 0; 0; 7; 209]; mkf (Some 4) (DUnit 1) [43; 14; 1; 0];
              mkf (Some 5) (DUnit 9) [1; 0; 0; 0; 1]; mkf (Some 6) (DUnit 1) [3; 0; 0; 0; 3]])
  = "0001000000050101026901,00020000000601050007FF00,000300000003018103,00040000000301AB01,-,000600000003018304|rc.1.0-9;wsc.1.7.1;rh.1.0-1|open"%string.
Proof. vm_compute. reflexivity. Qed.
