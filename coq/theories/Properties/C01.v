(* C01 - placeholder until the refinement proofs land *)
From Coq Require Import NArith List.
