(* C01, control-flow tie: the ORDER of the checks in SessionTask::handle_frame (empty -> unknown
   function -> parse error -> authorization -> unit lookup / broadcast), the guard, function field and
   exception code of every early reply, and the step sequence of every arm of Request::parse (range,
   limit constant, skipped byte-count byte, parse_all, expect_empty) are extracted from the Rust source
   by the translator on every run (Gen/ServerFlow.v). These theorems say that the hand-written model
   IS the interpreter of those regenerated skeletons - so a reordered check, a dropped guard, another
   limit constant in one arm or a missing expect_empty breaks a theorem here (besides being caught
   by the correspondence). Only statements, closed by `exact`, each followed by Print Assumptions. *)
From Coq Require Import NArith List String.
From Rodbus Require Import Base.Outcome Base.Cursor Base.ServerTypes Model.Server Model.ServerFlow Gen.Consts Gen.ServerFlow Proofs.ServerFlowProofs Proofs.ReaderTies.
Import ListNotations.
Local Open Scope N_scope.

Theorem C01_handle_frame_follows_flow : forall (St : Type) (H : handler St) l a units fr,
  handle_frame H l a units fr = run_flow H l a units fr fctx0 handle_frame_flow.
Proof. exact @handle_frame_follows_flow. Qed.
Print Assumptions C01_handle_frame_follows_flow.

Theorem C01_parse_follows_flow : forall f c, parse f c = run_pflow f (parse_flow f) c pctx0.
Proof. exact parse_follows_flow. Qed.
Print Assumptions C01_parse_follows_flow.

Theorem C01_error_reply_broadcast : forall l fr f ex, dest_is_broadcast (f_dest fr) = true ->
  reply_with_error_generic l fr f ex = if error_replies_suppressed_on_broadcast then Ok [] else format_ex l (f_tx fr) (f_dest fr) f ex.
Proof. exact error_reply_broadcast. Qed.
Print Assumptions C01_error_reply_broadcast.

(* below the frame level: next_frame keeps the parser state from call to call (a call dropped by select! when a command
   arrives is re-entered in the middle of a frame) and resets it only when it returns a framing error; the receive
   buffer's compaction moves the pending bytes BEFORE it rewinds both indices. Regenerated from common/frame.rs and
   common/buffer.rs; the behavioural side is the byte-stream correspondence of this check and C05/C06. *)
Theorem C01_reader_loop_shape :
  Gen.ReaderLoop.next_frame_resets_parser_on_entry = false /\ Gen.ReaderLoop.next_frame_resets_parser_on_error = true /\
  Gen.ReaderLoop.read_some_compaction =
    ["let length = self.len()"; "self.buffer.copy_within(self.begin..self.end, 0)"; "self.begin = 0"; "self.end = length"]%string.
Proof. exact reader_loop_shape. Qed.
Print Assumptions C01_reader_loop_shape.

(* the skeleton as extracted from the unchanged tree, for the record *)
Example C01_flow_as_extracted : handle_frame_flow =
  [ FReadFunction ASilent;
    FDecodeFunction (AException GServed FieldUnknown 1);
    FParse (AException GServed FieldException 3);
    FAuthorize (AException GNotBroadcast FieldException 1);
    FDispatch ASilent ].
Proof. reflexivity. Qed.
