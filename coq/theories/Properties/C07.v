(* C07 - No peer input can panic, wedge or silently kill a task.
   Only statements, closed by `exact`, each followed by Print Assumptions.
   "Panic" is an explicit outcome of the models (integer overflow with overflow checks on, slice
   indexing, unwrap/expect); the theorems say it is unreachable for ALL inputs. "Wedge" = the
   reader loop not consuming input (out of fuel). "Stops honouring shutdown" = the task models.
   (One module per layer only because the layers' models reuse constructor names.) *)
From Coq Require Import NArith List Bool Arith.
Import ListNotations.
From Rodbus Require Spec.Framing Base.Outcome Base.Frame Gen.Consts Gen.RtuLengths Model.Buffer Model.Mbap Model.Rtu Model.Reader Proofs.BufferProofs Proofs.MbapProofs Proofs.RtuProofs Proofs.ReaderGeneric Proofs.C05Proofs Base.ClientTypes Model.ClientRequest Proofs.ClientReplyProofs Proofs.ClientCodecProofs Base.ServerTypes Model.Server Proofs.ServerProofs Proofs.ServerTheorems Model.Retry Spec.Lifecycle Spec.ClientSpec Gen.SessionErrors Model.ClientTask Proofs.ClientBase Proofs.C13Proofs Proofs.C10Proofs.

Module Framing.
Import Base.Outcome Base.Frame Gen.Consts Gen.RtuLengths Spec.Framing Model.Buffer Model.Mbap Model.Rtu Model.Reader Proofs.BufferProofs Proofs.MbapProofs Proofs.RtuProofs Proofs.ReaderGeneric Proofs.C05Proofs.

(* ---- receive buffer: every cursor operation on a well-formed ReadBuffer returns Ok or Err ---- *)
Theorem C07_buffer_read_no_panic : forall n b, wf b -> snd (buf_read n b) <> Panic.
Proof. exact buf_read_no_panic. Qed.
Print Assumptions C07_buffer_read_no_panic.

Theorem C07_buffer_peek_no_panic : forall idx b, wf b -> snd (buf_peek_at idx b) <> Panic.
Proof. exact buf_peek_no_panic. Qed.
Print Assumptions C07_buffer_peek_no_panic.

Theorem C07_read_some_no_panic : forall b c, wf b -> snd (read_some b c) <> RsPanic.
Proof. exact read_some_no_panic. Qed.
Print Assumptions C07_read_some_no_panic.

(* ---- the two frame parsers, for every buffer content and every parser state ---- *)
Theorem C07_mbap_parse_no_panic : forall st b, wf b -> st_ok st -> snd (mbap_parse st b) <> Panic.
Proof. exact mbap_parse_no_panic. Qed.
Print Assumptions C07_mbap_parse_no_panic.

Theorem C07_rtu_parse_no_panic : forall p st b, wf b -> bytes (b_pend b) -> rst_ok st -> snd (rtu_parse p st b) <> Panic.
Proof. exact rtu_parse_no_panic. Qed.
Print Assumptions C07_rtu_parse_no_panic.

(* ---- the reader loop (FramedReader::next_frame), for every chunk schedule: never panics and never
   spins - with fuel just above the number of bytes still to come it always returns a frame, an
   error, EOF or "waiting for more bytes", i.e. every iteration consumes input (MBAP and RTU) ---- *)
Theorem C07_tcp_reader_no_panic_no_wedge : forall fuel st b n fi, wf b -> st_ok st -> length (concat n) < fuel ->
  snd (next_frame fuel (rd pstate PTcp st b) n fi) <> NfEnd EndPanic /\
  snd (next_frame fuel (rd pstate PTcp st b) n fi) <> NfEnd EndOutOfFuel.
Proof. exact mbap_nf_no_panic. Qed.
Print Assumptions C07_tcp_reader_no_panic_no_wedge.

Theorem C07_rtu_reader_no_panic_no_wedge : forall p fuel st b n fi, wf b -> bytes (b_pend b) -> Forall bytes n -> rst_ok st ->
  length (concat n) < fuel ->
  snd (next_frame fuel (rd rstate (PRtu p) st b) n fi) <> NfEnd EndPanic /\
  snd (next_frame fuel (rd rstate (PRtu p) st b) n fi) <> NfEnd EndOutOfFuel.
Proof. exact rtu_nf_no_panic. Qed.
Print Assumptions C07_rtu_reader_no_panic_no_wedge.

(* a parser that wants more bytes always leaves room for at least one (the 1.5.0 shift-bug class) *)
Theorem C07_never_full : forall st b st' b', wf b -> st_ok st -> mbap_parse st b = (st', b', Ok None) ->
  buf_len b' < cap /\
  forall c, c <> [] -> exists k b'', read_some b' c = (b'', RsOk k (skipn k c)) /\ 1 <= k <= length c.
Proof. exact tcp_never_full. Qed.
Print Assumptions C07_never_full.

End Framing.

Module ClientCodec.
Import Base.Outcome Base.ClientTypes Model.ClientRequest Proofs.ClientReplyProofs Proofs.ClientCodecProofs.

(* ---- client: handling ANY reply PDU for any well-formed request never panics ---- *)
Theorem C07_client_response_no_panic : forall r pdu, request_wf r -> handle_response r pdu <> Panic.
Proof. exact response_total. Qed.
Print Assumptions C07_client_response_no_panic.

End ClientCodec.

Module ServerSession.
Import Base.Outcome Base.ServerTypes Model.Server Proofs.ServerProofs Proofs.ServerTheorems.

(* ---- server: for every handler machine, framing, authorization policy, unit map and sequence of
   frames the reader can deliver, the session neither panics nor fails: it stays open ---- *)
Theorem C07_server_session_stays_open : forall (St : Type) (H : handler St) l a units frames, Forall (frame_ok l) frames ->
  snd (session H l a units frames) = SOpen.
Proof. exact @session_never_fails. Qed.
Print Assumptions C07_server_session_stays_open.

End ServerSession.

Module ClientTaskShutdown.
Import Model.Retry Spec.Lifecycle Spec.ClientSpec Gen.SessionErrors Model.ClientTask Proofs.ClientBase Proofs.C13Proofs Proofs.C10Proofs.
Local Open Scope N_scope.
Local Open Scope N_scope.

(* ---- shutdown stays enabled: from every client-task state that listens to its queue a Shutdown
   command (or the last handle dropped) ends the task; states that do not listen end by themselves
   when the in-flight request's timer fires ---- *)
Theorem C07_client_shutdown_enabled : forall cfg s, listens (ph s) = true ->
  (forall q, queue s = CShutdown :: q -> ph (fst (step cfg s EvRecv)) = PDone /\ listens_of (snd (step cfg s EvRecv)) = [LShutdown]) /\
  (queue s = [] -> closed s = true -> ph (fst (step cfg s EvRecv)) = PDone /\ listens_of (snd (step cfg s EvRecv)) = [LShutdown]).
Proof. exact c13_terminates. Qed.
Print Assumptions C07_client_shutdown_enabled.

Theorem C07_client_in_flight_ends : forall cfg s r tx d, ph s = PInFlight r tx d -> fire cfg d <= now s ->
  let s2 := fst (step cfg s EvTimer) in listens (ph s2) = true \/ ph s2 = PDone.
Proof. exact c13_in_flight_ends. Qed.
Print Assumptions C07_client_in_flight_ends.

(* a request whose transmission is parked (a peer that does not read) does not wedge the task either:
   at the bound of the write (write start + request timeout) it has either been transmitted, or it is
   completed (with the I/O error) - whatever the transport does, with no release needed (F14) *)
Theorem C07_client_parked_write_ends : forall cfg s r tx u, ph s = PWriting r tx u ->
  let s1 := fst (step cfg s (EvTick (fire cfg (wdl s) - now s))) in
  (exists d, ph (fst (step cfg s1 EvTimer)) = PInFlight r tx d) \/ In (rq_id r) (completed (snd (step cfg s1 EvTimer))).
Proof. exact writing_not_stuck. Qed.
Print Assumptions C07_client_parked_write_ends.
End ClientTaskShutdown.
