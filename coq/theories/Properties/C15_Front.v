(* C15 (with C16 and C09) - the SERVER FRONT-END as one composed model (Model/ServerFront.v):
   accept arm (filter guard on the generated shape, p5) -> tracker (p6) -> connection establishment
   raced with the command channel: TLS handshake / role extraction on the generated tables (p6) ->
   session step with the session's authorization type (p3). The layers are composed, not re-proved
   (Proofs/ServerFrontProofs.v): the tracker component is a run of Model/Tracker.v (projection),
   the guard is p5's C16 gate lemma, admission is the C09 admission lemma, the role of the
   authorization queries comes from p3's session lemmas (C08).
   Only statements, closed by `exact`, each followed by Print Assumptions.

   H = arbitrary application handlers, flt = arbitrary address filter, tr = plain TCP or TLS with
   any minimum version / certificate mode / optional authorization policy, m = any max_sessions,
   us = any unit configuration (unit id -> handler object -> state); evs = ANY list of front-end events (accepts from any address by peers that
   talk Modbus in clear, stay silent or start a TLS handshake with any offer and certificate;
   handshake completions; frames; session ends; commands; shutdown; handle drop). *)
From Coq Require Import NArith List Bool String.
From Rodbus Require Import Base.Outcome Base.ServerTypes Model.Filter Spec.FilterSpec Model.Tracker
  Spec.TlsSpec Gen.TlsVersions Gen.TlsModes Model.Tls Model.Server Proofs.ServerProofs Proofs.ServerProps
  Model.ServerFront Proofs.ServerFrontProofs.
Import ListNotations.
Local Open Scope N_scope.

(* Front_served, "only if": a Modbus frame of a connection is processed - and a handler or
   authorization call made on its behalf - only if the connection was accepted from an address the
   filter admits AND its establishment succeeded ... *)
Theorem Front_served_only_if : forall (St : Type) (H : handler St) flt tr m us evs f o id log reply,
  frun H flt tr (finit m us) evs = Some (f, o) -> In (Processed id log reply) o ->
  exists addr pk a, In (FAccept addr pk) evs /\ admits flt addr /\ establish tr pk = Some a.
Proof. exact @front_served_only_if. Qed.
Print Assumptions Front_served_only_if.

(* ... where establishment succeeds exactly for plain TCP, or for a TLS peer whose handshake the C09
   admission Spec accepts (valid certificate under the configured mode, offered version at or above
   the minimum, a single role extension in authorization mode); the session's authorization type is
   then the policy with exactly that role, or None without authorization *)
Theorem Front_establish_spec : forall tr pk a, establish tr pk = Some a ->
  match tr with
  | PlainTcp => a = NoAuth
  | TlsTransport min mode authz =>
      exists p v role, pk = PeerTls p /\
        expected (endpoint_of ServerSide min mode (is_some authz) false) p = Established v role /\
        a = match authz, role with Some pol, Some r => AuthHandler pol (bytes_of_string r) | _, _ => NoAuth end
  end.
Proof. exact establish_spec. Qed.
Print Assumptions Front_establish_spec.

(* Front_served, step level "iff": of all frames arriving, exactly those of connections that are being
   served AND are still running sessions of the tracker (not evicted, not shut down, not ended) are
   processed *)
Theorem Front_served_iff : forall (St : Type) (H : handler St) flt tr (f : front) id fr f' o,
  fstep H flt tr f (FFrame id fr) = Some (f', o) ->
  ((exists log reply, In (Processed id log reply) o) <->
   (alive (srv f) id = true /\ exists c a, find_conn id (conns f) = Some c /\ c_phase c = Serving a)).
Proof. exact @front_served_step. Qed.
Print Assumptions Front_served_iff.

(* ... and the "if" direction, in two steps: a connection from an admitted address arriving while the
   server runs gets a session of its own (also at the limit), waiting in the handshake (TLS) or served
   at once (plain TCP); when its handshake completes while it is still a running session and the
   admission Spec accepts the peer, it is served from then on with exactly that authorization (and by
   Front_served_iff every frame it sends while alive is processed) *)
Theorem Front_accept_admitted : forall (St : Type) (H : handler St) flt tr m us evs (f : front) o addr pk f' o',
  frun H flt tr (finit m us) evs = Some (f, o) -> running (srv f) = true -> admits flt addr ->
  fstep H flt tr f (FAccept addr pk) = Some (f', o') ->
  let id := next_id (trk (srv f)) in
  alive (srv f') id = true /\
  find_conn id (conns f') = Some {| c_id := id; c_addr := addr; c_peer := pk;
                                    c_phase := match tr with PlainTcp => Serving NoAuth | TlsTransport _ _ _ => Handshaking end |}.
Proof. exact @front_accept_admitted. Qed.
Print Assumptions Front_accept_admitted.

Theorem Front_handshake_establishes : forall (St : Type) (H : handler St) flt tr (f : front) id c a f' o,
  find_conn id (conns f) = Some c -> c_phase c = Handshaking -> c_peer c <> PeerSilent -> alive (srv f) id = true ->
  establish tr (c_peer c) = Some a -> fstep H flt tr f (FHandshakeDone id) = Some (f', o) ->
  srv f' = srv f /\ find_conn id (conns f') = Some {| c_id := c_id c; c_addr := c_addr c; c_peer := c_peer c; c_phase := Serving a |}.
Proof. exact @front_handshake_establishes. Qed.
Print Assumptions Front_handshake_establishes.

(* Front_role: every authorization query made on behalf of a connection carries exactly the role the
   handshake extracted from the certificate that connection presented; queries exist only in
   authorization mode (frames as the reader delivers them: frame_ok) *)
Theorem Front_role : forall (St : Type) (H : handler St) flt tr m us evs f o id log reply k u arg r,
  frames_ok evs -> frun H flt tr (finit m us) evs = Some (f, o) -> In (Processed id log reply) o -> In (EvAuth k u arg r) log ->
  exists min mode pol addr p v role,
    tr = TlsTransport min mode (Some pol) /\ In (FAccept addr (PeerTls p)) evs /\ admits flt addr /\
    expected (endpoint_of ServerSide min mode true false) p = Established v (Some role) /\ r = bytes_of_string role.
Proof. exact @front_role. Qed.
Print Assumptions Front_role.

(* Front_bound: at most max(1, max_sessions) sessions at any time, handshaking ones included (a
   connection the front-end works for is one of the tracker's running sessions) *)
Theorem Front_bound : forall (St : Type) (H : handler St) flt tr m us evs (f : front) o,
  frun H flt tr (finit m us) evs = Some (f, o) ->
  (List.length (sessions (trk (srv f))) <= Nat.max 1 m)%nat /\
  (List.length (live_ids (sessions (trk (srv f)))) <= Nat.max 1 m)%nat.
Proof. exact @front_bound. Qed.
Print Assumptions Front_bound.

Theorem Front_serving_is_tracked : forall (St : Type) (f : front (St := St)) id,
  alive (srv f) id = true -> In id (live_ids (sessions (trk (srv f)))).
Proof. exact @serving_is_tracked. Qed.
Print Assumptions Front_serving_is_tracked.

(* Front_shutdown: once the server has stopped nothing is alive and nothing is processed for any
   connection, whatever arrives afterwards; the stop itself closes every running session and the listener *)
Theorem Front_shutdown : forall (St : Type) (H : handler St) flt tr m us evs (f : front) o,
  frun H flt tr (finit m us) evs = Some (f, o) -> running (srv f) = false ->
  (forall id, alive (srv f) id = false) /\
  forall evs' f' o', frun H flt tr f evs' = Some (f', o') -> forall id log reply, ~ In (Processed id log reply) o'.
Proof. exact @front_shutdown. Qed.
Print Assumptions Front_shutdown.

Theorem Front_stop_closes : forall (St : Type) (H : handler St) flt tr (f : front) e f' o,
  running (srv f) = true -> (e = FShutdown \/ e = FHandleDropped) -> fstep H flt tr f e = Some (f', o) ->
  running (srv f') = false /\ (forall id, alive (srv f') id = false) /\
  (forall id, alive (srv f) id = true -> In (Track (Closed id)) o) /\ In (Track ListenerClosed) o.
Proof. exact @front_stop_closes. Qed.
Print Assumptions Front_stop_closes.

(* the tracker component of every composed run is a run of the tracker model, so every C15 theorem
   applies to it *)
Theorem Front_projects : forall (St : Type) (H : handler St) flt tr evs (f f' : front) o,
  frun H flt tr f evs = Some (f', o) -> exists tevs tos, Tracker.run (srv f) tevs = Some (srv f', tos).
Proof. exact @frun_projects. Qed.
Print Assumptions Front_projects.

(* non-vacuity: one TLS server with authorization, max_sessions 3, filter Any: a good peer, a peer with
   another role, a wrong-authority certificate, a role-less certificate, a silent peer, a peer talking
   Modbus in clear (its accept evicts the oldest session); after every operation every connection is
   probed - composed model and layer Specs give the same picture *)
From Rodbus Require Import Spec.FrontSpec Model.ServerFrontEval.
Example Front_nonvacuous :
  let ops := [OConnect 1 KGood; OConnect 2 KViewer; OConnect 1 KBad; OConnect 1 KRoleless; OConnect 1 KSilent; OConnect 1 KPlain] in
  model_trace Any TTlsAuthz 3 ops
    = "S:operator|S:operator,S:viewer|S:operator,S:viewer,-|S:operator,S:viewer,-,-|S:operator,S:viewer,-,-,-|-,S:viewer,-,-,-,-"%string
  /\ spec_trace FAny TTlsAuthz 3 ops = model_trace Any TTlsAuthz 3 ops.
Proof. vm_compute. split; reflexivity. Qed.
