(* C20 - Protocol decoding (logging) is purely observational.
   Only statements, closed by `exact`, each followed by Print Assumptions. *)
From Coq Require Import List String.
From Rodbus Require Import Model.LogLang Proofs.LogLangProofs Gen.DecodeUses.
Import ListNotations.

(* The language of Model/LogLang.v: level-independent steps, level-guarded log-only blocks, level
   changes. For EVERY program, state and pair of levels the observable result (final state and
   ordered outputs: wire bytes, request results, handler invocations) is the same. *)
Theorem C20_level_independent : forall (Level St Out Log : Type) (prog : list (stmt Level St Out Log)) lv lv' s,
  observable _ _ _ _ (run _ _ _ _ lv s prog) = observable _ _ _ _ (run _ _ _ _ lv' s prog).
Proof. exact level_independent. Qed.
Print Assumptions C20_level_independent.

(* Level changes at arbitrary positions (run-time changes through a client or server handle) never
   change, interrupt or reorder the observable effects: erasing them all gives the same observables. *)
Theorem C20_level_changes_unobservable : forall (Level St Out Log : Type) (prog : list (stmt Level St Out Log)) lv lv' s,
  observable _ _ _ _ (run _ _ _ _ lv s prog) = observable _ _ _ _ (run _ _ _ _ lv' s (erase _ _ _ _ prog)).
Proof. exact level_changes_unobservable. Qed.
Print Assumptions C20_level_changes_unobservable.

Theorem C20_insert_level_change : forall (Level St Out Log : Type) (p1 p2 : list (stmt Level St Out Log)) l lv s,
  observable _ _ _ _ (run _ _ _ _ lv s (p1 ++ SetLevel _ _ _ _ l :: p2)) = observable _ _ _ _ (run _ _ _ _ lv s (p1 ++ p2)).
Proof. exact insert_level_change. Qed.
Print Assumptions C20_insert_level_change.

(* The tie to the code: the translator inventories every place in rodbus/src where a decode level
   can influence control flow (predicate calls, comparisons, matches on a level) and classifies its
   context. Every one of them is a construct of the language above: a log-only block, a Display
   body, or an if/else running the same code with and without a tracing span. *)
Definition observational (k : use_kind) : bool :=
  match k with LogOnly | InDisplay | SpanOnly | Definition_ => true | OtherUse => false end.

Theorem C20_uses_observational : forallb (fun u => observational (snd u)) decode_uses = true.
Proof. vm_compute. reflexivity. Qed.
Print Assumptions C20_uses_observational.

(* non-vacuity: the inventory is not empty and contains log-only uses in both task loops *)
Example C20_inventory_nonempty :
  Nat.leb 10 (List.length decode_uses) = true /\
  existsb (fun u => match u with (f, _, _, LogOnly) => String.eqb f "server/task.rs" | _ => false end) decode_uses = true /\
  existsb (fun u => match u with (f, _, _, SpanOnly) => String.eqb f "client/task.rs" | _ => false end) decode_uses = true.
Proof. vm_compute. repeat split. Qed.

(* non-vacuity of the language theorem: a program that logs differently at two levels *)
Example C20_logs_differ_observables_equal :
  let prog := [LogIf bool nat nat nat (fun l => l) (fun _ s => s); Step _ _ _ _ (fun s => (S s, [s]))] in
  r_log _ _ _ _ (run _ _ _ _ true 5 prog) <> r_log _ _ _ _ (run _ _ _ _ false 5 prog) /\
  observable _ _ _ _ (run _ _ _ _ true 5 prog) = observable _ _ _ _ (run _ _ _ _ false 5 prog).
Proof. vm_compute. split; [discriminate|reflexivity]. Qed.
