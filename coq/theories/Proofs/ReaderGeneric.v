(* The reader loop refines a stream Spec, for ANY parser that satisfies four per-call lemmas
   (more bytes needed / frame / error / never panics) relative to a state-indexed Spec `ref_from`.
   Instantiated for the MBAP parser (MbapProofs.v) and both RTU parsers (RtuProofs.v).

   Main results (Section Generic):
     nf_ref    one next_frame call = one step of the Spec, for every chunk schedule, and it
               consumes at least `cons_need` bytes when it delivers a frame (progress)
     run_ref   run_reader (stop at first error) = the Spec's frame list and ending
     nf_no_panic / run_no_panic
   A schedule with an empty chunk is a stream that ends there with EOF (sbytes / sfin). *)
From Coq Require Import NArith List Bool Arith Lia.
From Rodbus Require Import Base.Outcome Base.Frame Gen.Consts Model.Buffer Model.Mbap Model.Reader Spec.Framing Proofs.BufferProofs.
Import ListNotations.

Fixpoint sbytes (n : net) : list N :=
  match n with [] => [] | [] :: _ => [] | c :: n' => c ++ sbytes n' end.
Fixpoint sfin (n : net) (fi : fin) : fin :=
  match n with [] => fi | [] :: _ => FinEof | _ :: n' => sfin n' fi end.
Lemma sched_stream_eq n fi : sched_stream n fi = (sbytes n, sfin n fi).
Proof. induction n as [|c n IH]; [reflexivity|]. destruct c; [reflexivity|]. cbn [sched_stream sbytes sfin]. now rewrite IH. Qed.
Lemma sbytes_le n : length (sbytes n) <= length (concat n).
Proof. induction n as [|c n IH]; [cbn; lia|]. destruct c; cbn [sbytes concat]; rewrite ?app_length; cbn [length]; lia. Qed.
Lemma sbytes_nonempty n : Forall (fun c => c <> []) n -> sbytes n = concat n /\ forall fi, sfin n fi = fi.
Proof.
  induction 1 as [|c n Hc Hn [IH1 IH2]]; [split; reflexivity|]. destruct c; [congruence|].
  cbn [sbytes sfin concat]. rewrite IH1. split; [reflexivity|exact IH2].
Qed.

Definition consf (f : frame) (r : list frame * ending) : list frame * ending := let '(fs, e) := r in (f :: fs, e).
Definition liftr (r : list frame * ending) : list item * ending := (map IFrame (fst r), snd r).
Lemma liftr_consf f r : liftr (consf f r) = (IFrame f :: fst (liftr r), snd (liftr r)).
Proof. destruct r; reflexivity. Qed.

Lemma end_of_eq fi : match fi with FinEof => EndIo UnexpectedEof | FinErr => EndIo IoOther | FinPending => EndPending end = end_of fi.
Proof. destruct fi; reflexivity. Qed.

(* more fuel does not change a result that did not run out of fuel (any parser, any reader) *)
Lemma nf_fuel_mono : forall f r n fi x, next_frame f r n fi = x -> snd x <> NfEnd EndOutOfFuel ->
  forall k, next_frame (f + k) r n fi = x.
Proof.
  induction f as [|f IH]; intros r n fi x E Hx k.
  - cbn [next_frame] in E. subst x. cbn [snd] in Hx. congruence.
  - cbn [next_frame Nat.add] in *. destruct (parser_parse (r_parser r) (r_buf r)) as [[p' b'] res].
    destruct res as [[fr|]|e|]; try exact E.
    destruct n as [|c n']; [exact E|].
    destruct (read_some b' c) as [b2 rs]. destruct rs as [j rest| |]; try exact E.
    destruct rest; apply IH; assumption.
Qed.

Lemma sbytes_app_le n1 n2 : length (sbytes (n1 ++ n2)) <= length (sbytes n1) + length (sbytes n2).
Proof. induction n1 as [|c n1 IH]; [cbn; lia|]. destruct c; cbn [app sbytes length]; [lia|]. rewrite !app_length. cbn [length]. lia. Qed.
(* a schedule without an empty chunk *)
Lemma sfin_pending_app n1 : sfin n1 FinPending = FinPending ->
  forall n2 fi, sbytes (n1 ++ n2) = sbytes n1 ++ sbytes n2 /\ sfin (n1 ++ n2) fi = sfin n2 fi.
Proof.
  induction n1 as [|c n1 IH]; intros H n2 fi; [split; reflexivity|]. destruct c; [discriminate|].
  cbn [sfin] in H. destruct (IH H n2 fi) as [E1 E2]. cbn [app sbytes sfin]. rewrite E1, E2, <- app_assoc. split; reflexivity.
Qed.

Lemma run_reader_st_snd : forall fuel r n fi, snd (run_reader_st fuel r n fi) = run_reader fuel false r n fi.
Proof.
  induction fuel as [|fuel IH]; intros r n fi; [reflexivity|]. cbn [run_reader_st run_reader].
  destruct (next_frame (nf_fuel n) r n fi) as [[r' n'] res]. destruct res as [f|e].
  - specialize (IH r' n' fi). destruct (run_reader_st fuel r' n' fi) as [r'' [l e]]. cbn [snd] in *. now rewrite <- IH.
  - destruct e; reflexivity.
Qed.

Section Generic.
Variable pst : Type.
Variable mk : pst -> parser.
Variable pp : pst -> buf -> pst * buf * presult.
Variable init : pst.
Variable st_ok : pst -> Prop.
Variable need : pst -> nat.
Variable cons_need : pst -> nat.
Variable rf : nat -> list N -> fin -> list frame * ending.
Variable ref_from : nat -> pst -> list N -> fin -> list frame * ending.

(* an invariant of the bytes (e.g. "every element is below 256"), closed under the list operations the reader performs *)
Variable okl : list N -> Prop.
Hypothesis okl_nil : okl [].
Hypothesis okl_app : forall a c, okl a -> okl c -> okl (a ++ c).
Hypothesis okl_firstn : forall k a, okl a -> okl (firstn k a).
Hypothesis okl_skipn : forall k a, okl a -> okl (skipn k a).

Hypothesis H_mk : forall st b, parser_parse (mk st) b = let '(st', b', r) := pp st b in (mk st', b', r).
Hypothesis H_reset : forall st, parser_reset (mk st) = mk init.
Hypothesis H_init_ok : st_ok init.
Hypothesis H_init : forall F s fi, ref_from F init s fi = rf F s fi.
Hypothesis H_cons_init : 1 <= cons_need init.
Hypothesis H_need_cap : forall st, st_ok st -> need st <= cap.
Hypothesis H_stuck : forall st p F fi, st_ok st -> length p < need st -> 0 < F -> ref_from F st p fi = ([], end_of fi).
Hypothesis H_none : forall st b st' b', wf b -> okl (b_pend b) -> st_ok st -> pp st b = (st', b', Ok None) ->
  st_ok st' /\ buf_len b' < need st' /\
  (exists k, b' = consume k b /\ k <= buf_len b /\ cons_need st <= k + cons_need st') /\
  (forall fut F fi, length (b_pend b ++ fut) < F -> ref_from F st (b_pend b ++ fut) fi = ref_from F st' (b_pend b' ++ fut) fi).
Hypothesis H_some : forall st b st' b' f, wf b -> okl (b_pend b) -> st_ok st -> pp st b = (st', b', Ok (Some f)) ->
  st' = init /\ (exists k, b' = consume k b /\ k <= buf_len b /\ cons_need st <= k) /\
  (forall fut F fi, length (b_pend b ++ fut) < F -> ref_from F st (b_pend b ++ fut) fi = consf f (rf F (b_pend b' ++ fut) fi)).
Hypothesis H_err : forall st b st' b' e, wf b -> okl (b_pend b) -> st_ok st -> pp st b = (st', b', Err e) ->
  (exists k, b' = consume k b /\ k <= buf_len b /\ cons_need st <= k) /\
  (forall fut F fi, length (b_pend b ++ fut) < F -> ref_from F st (b_pend b ++ fut) fi = ([], EndBad e)).
Hypothesis H_panic : forall st b st' b', wf b -> okl (b_pend b) -> st_ok st -> pp st b <> (st', b', Panic).

Definition rd (st : pst) (b : buf) : reader := {| r_parser := mk st; r_buf := b |}.

(* what one next_frame call means in terms of the stream *)
Definition nf_post (F : nat) (st : pst) (b : buf) (n : net) (fi : fin) (res : reader * net * nf_result) : Prop :=
  let s := b_pend b ++ sbytes n in
  match res with
  | (r', n', NfFrame f) =>
      exists b', r' = rd init b' /\ wf b' /\ okl (b_pend b') /\ Forall okl n' /\ sfin n' fi = sfin n fi /\
        ref_from F st s (sfin n fi) = consf f (rf F (b_pend b' ++ sbytes n') (sfin n fi)) /\
        length (b_pend b' ++ sbytes n') + cons_need st <= length s /\
        (exists consumed, s = consumed ++ b_pend b' ++ sbytes n')
  | (r', n', NfEnd (EndBad e)) =>
      ref_from F st s (sfin n fi) = ([], EndBad e) /\
      exists b', r' = rd init b' /\ wf b' /\ okl (b_pend b') /\ Forall okl n' /\ length (b_pend b' ++ sbytes n') + cons_need st <= length s /\
        (exists consumed, s = consumed ++ b_pend b' ++ sbytes n') /\ sfin n' fi = sfin n fi
  | (_, _, NfEnd e) => e <> EndPanic /\ e <> EndOutOfFuel /\ ref_from F st s (sfin n fi) = ([], e)
  end.

Lemma consume_pend_len k b : k <= buf_len b -> length (b_pend (consume k b)) = length (b_pend b) - k.
Proof. intros _. cbn [consume b_pend]. apply skipn_length. Qed.

Theorem nf_ref : forall fuel st b n fi F,
  wf b -> okl (b_pend b) -> Forall okl n -> st_ok st -> length (concat n) < fuel -> length (b_pend b ++ sbytes n) < F ->
  nf_post F st b n fi (next_frame fuel (rd st b) n fi).
Proof using All.
  induction fuel as [|fuel IH]; intros st b n fi F Hwf Hok Hokn Hst Hfuel HF; [lia|].
  assert (Hokc : forall k, okl (b_pend (consume k b))) by (intros k; cbn [consume b_pend]; now apply okl_skipn).
  cbn [next_frame rd r_parser r_buf]. rewrite H_mk. destruct (pp st b) as [[st' b'] r] eqn:Ep.
  destruct r as [[f|]|e|].
  - (* frame *)
    destruct (H_some _ _ _ _ _ Hwf Hok Hst Ep) as (-> & (k & -> & Hk & Hck) & Href).
    unfold nf_post. exists (consume k b). split; [reflexivity|]. split; [now apply consume_wf|]. split; [apply Hokc|]. split; [exact Hokn|]. split; [reflexivity|].
    split; [apply Href; exact HF|].
    split; [rewrite !app_length, consume_pend_len by assumption; unfold buf_len in Hk; lia|].
    exists (firstn k (b_pend b)). cbn [consume b_pend]. now rewrite app_assoc, firstn_skipn.
  - (* more bytes needed *)
    destruct (H_none _ _ _ _ Hwf Hok Hst Ep) as (Hst' & Hstuck & (k & -> & Hk & Hck) & Href).
    assert (Hwf' := consume_wf _ _ Hwf Hk).
    assert (Hlen' : length (b_pend (consume k b)) = length (b_pend b) - k) by now apply consume_pend_len.
    assert (Hcap : buf_len (consume k b) < cap) by (specialize (H_need_cap _ Hst'); lia).
    destruct n as [|c n'].
    + (* schedule used up *)
      destruct (read_some_nil _ Hwf') as (b2 & -> & _ & _). unfold nf_post. rewrite end_of_eq.
      cbn [sbytes sfin]. assert (He : forall fi, end_of fi <> EndPanic /\ end_of fi <> EndOutOfFuel) by (intros []; split; discriminate).
      assert (Hr : ref_from F st (b_pend b ++ []) fi = ([], end_of fi)).
      { rewrite (Href [] F fi HF). apply H_stuck; [assumption|rewrite app_nil_r; exact Hstuck|lia]. }
      destruct (He fi) as [He1 He2]. destruct (end_of fi) eqn:Ee; try (split; [assumption|split; assumption]).
      destruct fi; discriminate.
    + destruct c as [|x c].
      * (* an empty chunk: a 0-byte read *)
        destruct (read_some_nil _ Hwf') as (b2 & -> & _ & _). unfold nf_post. cbn [sbytes sfin].
        split; [discriminate|]. split; [discriminate|].
        rewrite (Href [] F FinEof HF). apply H_stuck; [assumption|rewrite app_nil_r; exact Hstuck|lia].
      * destruct (read_some_ok (consume k b) (x :: c) Hwf' Hcap ltac:(discriminate)) as (j & b'' & Hrs & Hj & Hp'' & Hwf'').
        rewrite Hrs.
        assert (Hsplit : forall tl, b_pend (consume k b) ++ (x :: c) ++ tl = b_pend b'' ++ skipn j (x :: c) ++ tl).
        { intros tl. rewrite Hp'', <- !app_assoc. f_equal. rewrite app_assoc, firstn_skipn. reflexivity. }
        assert (Hrest : length (skipn j (x :: c)) = length (x :: c) - j) by apply skipn_length.
        cbn [concat] in Hfuel. rewrite app_length in Hfuel.
        (* the recursive call sees the same stream *)
        assert (Hokx : okl (x :: c) /\ Forall okl n') by (inversion Hokn; subst; split; assumption).
        destruct Hokx as [Hokx Hokn'].
        assert (Hok'' : okl (b_pend b'')) by (rewrite Hp''; apply okl_app; [apply Hokc|now apply okl_firstn]).
        assert (Hgoal : forall n1, sbytes n1 = skipn j (x :: c) ++ sbytes n' -> sfin n1 fi = sfin n' fi ->
                  Forall okl n1 -> length (concat n1) < fuel ->
                  nf_post F st b ((x :: c) :: n') fi (next_frame fuel (rd st' b'') n1 fi)).
        { intros n1 Hs1 Hf1 Hok1 Hfu.
          assert (Heq : b_pend (consume k b) ++ sbytes ((x :: c) :: n') = b_pend b'' ++ sbytes n1).
          { change (sbytes ((x :: c) :: n')) with ((x :: c) ++ sbytes n'). rewrite Hs1. apply Hsplit. }
          assert (HF' : length (b_pend b'' ++ sbytes n1) < F).
          { rewrite <- Heq, app_length. rewrite app_length in HF. lia. }
          specialize (IH st' b'' n1 fi F Hwf'' Hok'' Hok1 Hst' Hfu HF').
          assert (Hlen : length (b_pend b'' ++ sbytes n1) + k = length (b_pend b ++ sbytes ((x :: c) :: n'))).
          { rewrite <- Heq. rewrite !app_length. unfold buf_len in Hk. lia. }
          assert (Hsf : sfin ((x :: c) :: n') fi = sfin n1 fi) by (cbn [sfin]; now rewrite Hf1).
          unfold nf_post in *. rewrite (Href _ F _ HF), Heq, Hsf.
          destruct (next_frame fuel (rd st' b'') n1 fi) as [[r1 n2] res]. destruct res as [f|e].
          - destruct IH as (b3 & -> & Hwf3 & Hok3 & Hokn3 & Hsf3 & Hr3 & Hl3 & (cs & Hcs)). exists b3. repeat split; try assumption; [lia|].
            exists (firstn k (b_pend b) ++ cs). rewrite <- app_assoc, <- Hcs, <- Heq. cbn [consume b_pend]. now rewrite !app_assoc, firstn_skipn.
          - destruct e; try exact IH.
            destruct IH as (Hr3 & b3 & -> & Hwf3 & Hok3 & Hokn3 & Hl3 & (cs & Hcs) & Hsf3). split; [exact Hr3|]. exists b3. repeat split; try assumption; [lia|].
            exists (firstn k (b_pend b) ++ cs). rewrite <- app_assoc, <- Hcs, <- Heq. cbn [consume b_pend]. now rewrite !app_assoc, firstn_skipn. }
        destruct (skipn j (x :: c)) as [|y rest] eqn:Erest.
        -- apply Hgoal; [reflexivity|reflexivity|exact Hokn'|]. cbn [length] in *. lia.
        -- apply Hgoal; [reflexivity|reflexivity| |].
           ++ constructor; [rewrite <- Erest; now apply okl_skipn|exact Hokn'].
           ++ cbn [concat]. rewrite app_length. cbn [length] in *. lia.
  - (* framing error *)
    destruct (H_err _ _ _ _ _ Hwf Hok Hst Ep) as ((k & -> & Hk & Hck) & Href).
    unfold nf_post. split; [apply Href; exact HF|]. exists (consume k b). rewrite H_reset. split; [reflexivity|].
    split; [now apply consume_wf|]. split; [apply Hokc|]. split; [exact Hokn|].
    split; [rewrite !app_length, consume_pend_len by assumption; unfold buf_len in Hk; lia|].
    split; [|reflexivity].
    exists (firstn k (b_pend b)). cbn [consume b_pend]. now rewrite app_assoc, firstn_skipn.
  - exfalso. exact (H_panic _ _ _ _ Hwf Hok Hst Ep).
Qed.

(* the whole session (stop at the first error) *)
Theorem run_ref : forall fuel b n fi F,
  wf b -> okl (b_pend b) -> Forall okl n -> length (b_pend b ++ sbytes n) < fuel -> length (b_pend b ++ sbytes n) < F ->
  run_reader fuel false (rd init b) n fi = liftr (rf F (b_pend b ++ sbytes n) (sfin n fi)).
Proof using All.
  induction fuel as [|fuel IH]; intros b n fi F Hwf Hok Hokn Hfu HF; [lia|].
  cbn [run_reader].
  pose proof (nf_ref (nf_fuel n) init b n fi F Hwf Hok Hokn H_init_ok ltac:(unfold nf_fuel; lia) HF) as Hnf.
  unfold nf_post in Hnf. cbv zeta in Hnf. rewrite H_init in Hnf. pose proof H_cons_init as Hci.
  destruct (next_frame (nf_fuel n) (rd init b) n fi) as [[r' n'] res]. destruct res as [f|e].
  - destruct Hnf as (b' & -> & Hwf' & Hok' & Hokn' & Hsf & Hr & Hl & _). rewrite Hr.
    rewrite (IH b' n' fi F Hwf' Hok' Hokn'); [|lia|lia]. rewrite Hsf. destruct (rf F (b_pend b' ++ sbytes n') (sfin n fi)) as [fs e]. reflexivity.
  - destruct e; try (destruct Hnf as (_ & _ & ->); reflexivity).
    destruct Hnf as (-> & _). reflexivity.
Qed.

(* no panic and no wedge, in both modes (stop at the first error / keep going after framing errors) *)
Theorem run_total : forall fuel resume b n fi,
  wf b -> okl (b_pend b) -> Forall okl n -> length (b_pend b ++ sbytes n) < fuel ->
  snd (run_reader fuel resume (rd init b) n fi) <> EndPanic /\ snd (run_reader fuel resume (rd init b) n fi) <> EndOutOfFuel.
Proof using All.
  induction fuel as [|fuel IH]; intros resume b n fi Hwf Hok Hokn Hfu; [lia|].
  cbn [run_reader].
  pose proof (nf_ref (nf_fuel n) init b n fi (S (length (b_pend b ++ sbytes n))) Hwf Hok Hokn H_init_ok ltac:(unfold nf_fuel; lia) ltac:(lia)) as Hnf.
  unfold nf_post in Hnf. cbv zeta in Hnf. pose proof H_cons_init as Hci.
  destruct (next_frame (nf_fuel n) (rd init b) n fi) as [[r' n'] res]. destruct res as [f|e].
  - destruct Hnf as (b' & -> & Hwf' & Hok' & Hokn' & _ & _ & Hl & _).
    specialize (IH resume b' n' fi Hwf' Hok' Hokn' ltac:(lia)). destruct (run_reader fuel resume (rd init b') n' fi) as [l e]. exact IH.
  - destruct e as [e| | | |]; try (destruct Hnf as (H1 & H2 & _); cbn [snd]; split; congruence).
    destruct Hnf as (_ & b' & -> & Hwf' & Hok' & Hokn' & Hl & _). destruct resume; [|cbn [snd]; split; discriminate].
    specialize (IH true b' n' fi Hwf' Hok' Hokn' ltac:(lia)). destruct (run_reader fuel true (rd init b') n' fi) as [l e']. exact IH.
Qed.

Corollary session_ref : forall n fi F, Forall okl n -> length (sbytes n) < F ->
  run_reader (run_fuel (rd init buf_new) n) false (rd init buf_new) n fi = liftr (rf F (sbytes n) (sfin n fi)).
Proof using All.
  intros n fi F Hokn HF. rewrite (run_ref _ buf_new n fi F); [reflexivity|apply wf_new|exact okl_nil|exact Hokn| |exact HF].
  unfold run_fuel, rd; cbn [r_buf buf_new b_pend buf_len app length]. pose proof (sbytes_le n). lia.
Qed.

(* ---- no panic, no wedge: for every schedule and every fuel that is large enough ---- *)
Corollary nf_no_panic fuel st b n fi : wf b -> okl (b_pend b) -> Forall okl n -> st_ok st -> length (concat n) < fuel ->
  snd (next_frame fuel (rd st b) n fi) <> NfEnd EndPanic /\ snd (next_frame fuel (rd st b) n fi) <> NfEnd EndOutOfFuel.
Proof using All.
  intros Hwf Hok Hokn Hst Hfu.
  pose proof (nf_ref fuel st b n fi (S (length (b_pend b ++ sbytes n))) Hwf Hok Hokn Hst Hfu ltac:(lia)) as H.
  unfold nf_post in H. destruct (next_frame fuel (rd st b) n fi) as [[r' n'] res]. cbn [snd].
  destruct res as [f|e]; [split; discriminate|]. destruct e; try (split; discriminate); destruct H as (H1 & H2 & _); congruence.
Qed.


(* ================================================================================================
   Compositionality and cancel-safety.
   next_frame is one branch of a tokio::select! in SessionTask::run_one, ClientLoop::poll and
   ClientLoop::execute_request: when another branch fires, the future is dropped while it waits
   for bytes and a NEW call starts later from the reader's state. An abandoned call is a call over
   a schedule that ends `FinPending` with result EndPending. Everything below holds for every
   split of a schedule at a chunk boundary.
   ================================================================================================ *)

(* a waiting parser asked again with the same pending bytes says "need more" again and changes nothing *)
Hypothesis H_stable : forall st b, wf b -> okl (b_pend b) -> st_ok st -> buf_len b < need st -> pp st b = (st, b, Ok None).

Lemma nf_enough fuel st b n fi : wf b -> okl (b_pend b) -> Forall okl n -> st_ok st -> length (concat n) < fuel ->
  snd (next_frame fuel (rd st b) n fi) <> NfEnd EndOutOfFuel.
Proof using All. intros. now apply nf_no_panic. Qed.

(* with enough fuel the result does not depend on the fuel *)
Lemma nf_fuel_indep f1 f2 st b n fi : wf b -> okl (b_pend b) -> Forall okl n -> st_ok st ->
  length (concat n) < f1 -> length (concat n) < f2 ->
  next_frame f1 (rd st b) n fi = next_frame f2 (rd st b) n fi.
Proof using All.
  intros Hwf Hok Hokn Hst H1 H2.
  destruct (Nat.le_ge_cases f1 f2) as [Hle|Hle].
  - replace f2 with (f1 + (f2 - f1)) by lia. symmetry. apply nf_fuel_mono; [reflexivity|now apply nf_enough].
  - replace f1 with (f2 + (f1 - f2)) by lia. apply nf_fuel_mono; [reflexivity|now apply nf_enough].
Qed.

(* the state a call is in while it waits for bytes *)
Definition waiting (r : reader) : Prop :=
  exists st b, r = rd st b /\ wf b /\ okl (b_pend b) /\ st_ok st /\ buf_len b < need st /\ prep b = b.

(* next_frame over n1 ++ n2: if the call over n1 alone would still be waiting at the end of n1, the
   call over n1 ++ n2 is the call over n2 started from the reader the abandoned call left behind;
   otherwise it already returned inside n1 and n2 is untouched *)
Theorem nf_app : forall fuel st b n1 n2 fi F2,
  wf b -> okl (b_pend b) -> Forall okl n1 -> Forall okl n2 -> st_ok st ->
  length (concat n1) < fuel -> length (concat n2) < F2 ->
  match next_frame fuel (rd st b) n1 FinPending with
  | (r1, n1', NfEnd EndPending) =>
      n1' = [] /\ waiting r1 /\
      (exists consumed, b_pend b ++ sbytes n1 = consumed ++ b_pend (r_buf r1)) /\
      sfin n1 FinPending = FinPending /\
      next_frame (fuel + F2) (rd st b) (n1 ++ n2) fi = next_frame F2 r1 n2 fi
  | (r1, n1', res) => next_frame (fuel + F2) (rd st b) (n1 ++ n2) fi = (r1, n1' ++ n2, res)
  end.
Proof using All.
  induction fuel as [|fuel IH]; intros st b n1 n2 fi F2 Hwf Hok Hokn1 Hokn2 Hst Hfuel HF2; [lia|].
  assert (Hokc : forall k, okl (b_pend (consume k b))) by (intros k; cbn [consume b_pend]; now apply okl_skipn).
  cbn [next_frame Nat.add rd r_parser r_buf]. rewrite H_mk. destruct (pp st b) as [[st' b'] r] eqn:Ep.
  destruct r as [[f|]|e|]; try reflexivity.
  destruct (H_none _ _ _ _ Hwf Hok Hst Ep) as (Hst' & Hstuck & (k & -> & Hk & Hck) & Href).
  assert (Hwf' := consume_wf _ _ Hwf Hk).
  assert (Hcap : buf_len (consume k b) < cap) by (specialize (H_need_cap _ Hst'); lia).
  destruct n1 as [|c n1'].
  - (* the call over n1 is abandoned here *)
    rewrite (read_some_nil_prep _ Hwf'). cbn [app].
    assert (Hw : waiting (rd st' (prep (consume k b)))).
    { exists st', (prep (consume k b)). split; [reflexivity|]. split; [now apply prep_wf|]. rewrite prep_pend. split; [apply Hokc|].
      split; [assumption|]. split; [unfold buf_len in *; now rewrite prep_pend|apply prep_idem]. }
    split; [reflexivity|]. split; [exact Hw|].
    split; [exists (firstn k (b_pend b)); cbn [sbytes rd r_buf]; rewrite prep_pend, app_nil_r; cbn [consume b_pend]; now rewrite firstn_skipn|].
    split; [reflexivity|].
    (* the fresh call: parse again (nothing happens), then the same read *)
    destruct F2 as [|F2]; [lia|]. cbn [next_frame rd r_parser r_buf]. rewrite H_mk.
    rewrite (H_stable st' (prep (consume k b))); [|now apply prep_wf|rewrite prep_pend; apply Hokc|assumption|unfold buf_len in *; now rewrite prep_pend].
    destruct n2 as [|c2 n2'].
    + rewrite ?(read_some_nil_prep _ Hwf'), (read_some_nil_prep _ (prep_wf _ Hwf')), prep_idem. reflexivity.
    + rewrite read_some_prep. destruct (read_some (consume k b) c2) as [b2 rs] eqn:Ers. destruct rs as [j rest| |]; try reflexivity.
      destruct c2 as [|x c2]; [rewrite (read_some_nil_prep _ Hwf') in Ers; discriminate|].
      destruct (read_some_ok (consume k b) (x :: c2) Hwf' Hcap ltac:(discriminate)) as (j' & b'' & Hrs & Hj & Hp'' & Hwf'').
      rewrite Hrs in Ers. inversion Ers; subst; clear Ers.
      assert (Hokx : okl (x :: c2) /\ Forall okl n2') by (inversion Hokn2; subst; split; assumption). destruct Hokx as [Hokx Hokn2'].
      assert (Hok'' : okl (b_pend b2)) by (rewrite Hp''; apply okl_app; [apply Hokc|now apply okl_firstn]).
      assert (Hrest : length (skipn j (x :: c2)) = length (x :: c2) - j) by apply skipn_length.
      cbn [concat] in HF2. rewrite app_length in HF2.
      destruct (skipn j (x :: c2)) as [|y rest] eqn:Erest.
      * apply nf_fuel_indep; try assumption; cbn [length] in *; lia.
      * apply nf_fuel_indep; try assumption.
        -- constructor; [rewrite <- Erest; now apply okl_skipn|assumption].
        -- cbn [concat]. rewrite app_length. cbn [length] in *. lia.
        -- cbn [concat]. rewrite app_length. cbn [length] in *. lia.
  - cbn [app]. destruct c as [|x c].
    + rewrite (read_some_nil_prep _ Hwf'). reflexivity.
    + destruct (read_some_ok (consume k b) (x :: c) Hwf' Hcap ltac:(discriminate)) as (j & b'' & Hrs & Hj & Hp'' & Hwf'').
      rewrite Hrs.
      assert (Hokx : okl (x :: c) /\ Forall okl n1') by (inversion Hokn1; subst; split; assumption). destruct Hokx as [Hokx Hokn1'].
      assert (Hok'' : okl (b_pend b'')) by (rewrite Hp''; apply okl_app; [apply Hokc|now apply okl_firstn]).
      assert (Hrest : length (skipn j (x :: c)) = length (x :: c) - j) by apply skipn_length.
      cbn [concat] in Hfuel. rewrite app_length in Hfuel.
      assert (Hsplit : forall tl, b_pend (consume k b) ++ (x :: c) ++ tl = b_pend b'' ++ skipn j (x :: c) ++ tl).
      { intros tl. rewrite Hp'', <- !app_assoc. f_equal. rewrite app_assoc, firstn_skipn. reflexivity. }
      assert (Hgoal : forall n1x, sbytes n1x = skipn j (x :: c) ++ sbytes n1' -> sfin n1x FinPending = sfin n1' FinPending -> Forall okl n1x -> length (concat n1x) < fuel ->
        match next_frame fuel (rd st' b'') n1x FinPending with
        | (r1, n1r, NfEnd EndPending) =>
            n1r = [] /\ waiting r1 /\
            (exists consumed, b_pend b ++ sbytes ((x :: c) :: n1') = consumed ++ b_pend (r_buf r1)) /\
            sfin ((x :: c) :: n1') FinPending = FinPending /\
            next_frame (fuel + F2) (rd st' b'') (n1x ++ n2) fi = next_frame F2 r1 n2 fi
        | (r1, n1r, res) => next_frame (fuel + F2) (rd st' b'') (n1x ++ n2) fi = (r1, n1r ++ n2, res)
        end).
      { intros n1x Hs Hsf Hokx1 Hfu. specialize (IH st' b'' n1x n2 fi F2 Hwf'' Hok'' Hokx1 Hokn2 Hst' Hfu HF2).
        destruct (next_frame fuel (rd st' b'') n1x FinPending) as [[r1 n1r] res]. destruct res as [f|e]; [exact IH|].
        destruct e; try exact IH. destruct IH as (-> & Hw & (cs & Hcs) & Hsf1 & Heq). repeat split; try assumption; [|cbn [sfin]; now rewrite <- Hsf].
        exists (firstn k (b_pend b) ++ cs). rewrite <- app_assoc, <- Hcs, Hs. change (sbytes ((x :: c) :: n1')) with ((x :: c) ++ sbytes n1').
        rewrite <- Hsplit. cbn [consume b_pend]. now rewrite !app_assoc, firstn_skipn. }
      destruct (skipn j (x :: c)) as [|y rest] eqn:Erest.
      * apply Hgoal; [reflexivity|reflexivity|assumption|]. cbn [length] in *. lia.
      * change ((y :: rest) :: n1' ++ n2) with (((y :: rest) :: n1') ++ n2). apply Hgoal; [reflexivity|reflexivity| |].
        -- constructor; [rewrite <- Erest; now apply okl_skipn|assumption].
        -- cbn [concat]. rewrite app_length. cbn [length] in *. lia.
Qed.

(* CANCEL-SAFETY, in the form the callers need it: a call over n1 that is abandoned while it waits,
   followed by a fresh call over n2 from the reader it left behind, returns what one
   uninterrupted call over n1 ++ n2 returns: same frame / error, same reader, same rest of the schedule *)
Corollary nf_cancel_safe : forall st b n1 n2 fi r1 n1' F1 F2 F,
  wf b -> okl (b_pend b) -> Forall okl n1 -> Forall okl n2 -> st_ok st ->
  length (concat n1) < F1 -> length (concat n2) < F2 -> length (concat (n1 ++ n2)) < F ->
  next_frame F1 (rd st b) n1 FinPending = (r1, n1', NfEnd EndPending) ->
  next_frame F2 r1 n2 fi = next_frame F (rd st b) (n1 ++ n2) fi /\ waiting r1.
Proof using All.
  intros st b n1 n2 fi r1 n1' F1 F2 F Hwf Hok Hokn1 Hokn2 Hst H1 H2 HF E.
  pose proof (nf_app F1 st b n1 n2 fi F2 Hwf Hok Hokn1 Hokn2 Hst H1 H2) as H. rewrite E in H.
  destruct H as (_ & Hw & _ & _ & Heq). split; [|exact Hw]. rewrite <- Heq.
  apply nf_fuel_indep; try assumption.
  - apply Forall_app; split; assumption.
  - rewrite concat_app, app_length in *. lia.
Qed.


(* ---- whole runs ---- *)
(* fuel a run needs from state st: one call per frame, each later frame takes >= 1 byte, one call for the ending *)
Definition rmeasure (st : pst) (b : buf) (n : net) : nat := length (b_pend b ++ sbytes n) + (1 - cons_need st).

Lemma run_st_fuel_indep : forall G1 G2 st b n fi, wf b -> okl (b_pend b) -> Forall okl n -> st_ok st ->
  rmeasure st b n < G1 -> rmeasure st b n < G2 ->
  run_reader_st G1 (rd st b) n fi = run_reader_st G2 (rd st b) n fi.
Proof using All.
  induction G1 as [|G1 IH]; intros G2 st b n fi Hwf Hok Hokn Hst H1 H2; [lia|]. destruct G2 as [|G2]; [lia|].
  cbn [run_reader_st].
  pose proof (nf_ref (nf_fuel n) st b n fi (S (length (b_pend b ++ sbytes n))) Hwf Hok Hokn Hst ltac:(unfold nf_fuel; lia) ltac:(lia)) as Hnf.
  unfold nf_post in Hnf. cbv zeta in Hnf. pose proof H_cons_init as Hci. unfold rmeasure in *.
  destruct (next_frame (nf_fuel n) (rd st b) n fi) as [[r' n'] res]. destruct res as [f|e]; [|reflexivity].
  destruct Hnf as (b' & -> & Hwf' & Hok' & Hokn' & _ & _ & Hl & _).
  rewrite (IH G2 init b' n' fi Hwf' Hok' Hokn' H_init_ok); [reflexivity|unfold rmeasure; lia|unfold rmeasure; lia].
Qed.

(* a run over n1 ++ n2 = the run over n1; if that one is still waiting at the end of n1, continued
   from the reader it left behind over n2 (frames concatenated); otherwise it ended inside n1 *)
Theorem run_st_app : forall G1 st b n1 n2 fi G2 G,
  wf b -> okl (b_pend b) -> Forall okl n1 -> Forall okl n2 -> st_ok st ->
  rmeasure st b n1 < G1 ->
  length (b_pend b ++ sbytes n1) + length (sbytes n2) + 1 < G2 ->
  rmeasure st b n1 + length (sbytes n2) + 1 < G ->
  run_reader_st G (rd st b) (n1 ++ n2) fi =
  match run_reader_st G1 (rd st b) n1 FinPending with
  | (r1, (l1, EndPending)) => let '(r2, (l2, e2)) := run_reader_st G2 r1 n2 fi in (r2, (l1 ++ l2, e2))
  | x => x
  end.
Proof using All.
  induction G1 as [|G1 IH]; intros st b n1 n2 fi G2 G Hwf Hok Hokn1 Hokn2 Hst H1 H2 HG; [lia|].
  destruct G as [|G]; [lia|]. cbn [run_reader_st].
  pose proof H_cons_init as Hci. unfold rmeasure in H1, HG.
  assert (Hokn : Forall okl (n1 ++ n2)) by (apply Forall_app; split; assumption).
  (* the first call of the combined run, through nf_app *)
  pose proof (nf_app (nf_fuel n1) st b n1 n2 fi (nf_fuel n2) Hwf Hok Hokn1 Hokn2 Hst ltac:(unfold nf_fuel; lia) ltac:(unfold nf_fuel; lia)) as Happ.
  rewrite (nf_fuel_indep (nf_fuel n1 + nf_fuel n2) (nf_fuel (n1 ++ n2)) st b (n1 ++ n2) fi Hwf Hok Hokn Hst) in Happ
    by (unfold nf_fuel; rewrite ?concat_app, ?app_length; lia).
  pose proof (nf_ref (nf_fuel n1) st b n1 FinPending (S (length (b_pend b ++ sbytes n1))) Hwf Hok Hokn1 Hst ltac:(unfold nf_fuel; lia) ltac:(lia)) as Hnf.
  unfold nf_post in Hnf. cbv zeta in Hnf.
  destruct (next_frame (nf_fuel n1) (rd st b) n1 FinPending) as [[r' n1'] res]. destruct res as [f|e].
  - (* a frame inside n1 *)
    rewrite Happ. destruct Hnf as (b' & -> & Hwf' & Hok' & Hokn' & _ & _ & Hl & _).
    rewrite (IH init b' n1' n2 fi G2 G Hwf' Hok' Hokn' Hokn2 H_init_ok); [|unfold rmeasure; lia|lia|unfold rmeasure; lia].
    destruct (run_reader_st G1 (rd init b') n1' FinPending) as [r1 [l1 e1]].
    destruct e1; try reflexivity. destruct (run_reader_st G2 r1 n2 fi) as [r2 [l2 e2]]. reflexivity.
  - destruct e as [e| | | |]; try (rewrite Happ; reflexivity).
    (* still waiting at the end of n1: the combined run goes on with the calls over n2 *)
    destruct Happ as (-> & Hw & (cs & Hcs) & _ & Happ). rewrite Happ. clear Happ.
    destruct Hw as (st1 & b1 & -> & Hwf1 & Hok1 & Hst1 & Hlt1 & _).
    destruct Hnf as (_ & _ & Hr).
    destruct G2 as [|G2]; [lia|]. cbn [run_reader_st app].
    pose proof (nf_ref (nf_fuel n2) st1 b1 n2 fi (S (length (b_pend b1 ++ sbytes n2))) Hwf1 Hok1 Hokn2 Hst1 ltac:(unfold nf_fuel; lia) ltac:(lia)) as Hnf2.
    unfold nf_post in Hnf2. cbv zeta in Hnf2.
    destruct (next_frame (nf_fuel n2) (rd st1 b1) n2 fi) as [[r2 n2'] res2]. destruct res2 as [f2|e2]; [|reflexivity].
    destruct Hnf2 as (b2 & -> & Hwf2 & Hok2 & Hokn2' & _ & _ & Hl2 & _).
    (* how much can be pending in b1: what was there plus all of n1 *)
    assert (Hb1 : length (b_pend b1) <= length (b_pend b ++ sbytes n1)).
    { cbn [rd r_buf] in Hcs. rewrite Hcs, app_length. lia. }
    rewrite (run_st_fuel_indep G G2 init b2 n2' fi Hwf2 Hok2 Hokn2' H_init_ok); [|unfold rmeasure; rewrite !app_length in *; lia|unfold rmeasure; rewrite !app_length in *; lia].
    destruct (run_reader_st G2 (rd init b2) n2' fi) as [r3 [l3 e3]]. reflexivity.
Qed.


(* the run from ANY reachable reader state is the state-indexed Spec (run_ref is the case st = init) *)
Theorem run_ref_from : forall G st b n fi F,
  wf b -> okl (b_pend b) -> Forall okl n -> st_ok st ->
  rmeasure st b n < G -> length (b_pend b ++ sbytes n) < F ->
  run_reader G false (rd st b) n fi = liftr (ref_from F st (b_pend b ++ sbytes n) (sfin n fi)).
Proof using All.
  intros G st b n fi F Hwf Hok Hokn Hst HG HF. destruct G as [|G]; [lia|]. cbn [run_reader].
  pose proof (nf_ref (nf_fuel n) st b n fi F Hwf Hok Hokn Hst ltac:(unfold nf_fuel; lia) HF) as Hnf.
  unfold nf_post in Hnf. cbv zeta in Hnf. pose proof H_cons_init as Hci. unfold rmeasure in HG.
  destruct (next_frame (nf_fuel n) (rd st b) n fi) as [[r' n'] res]. destruct res as [f|e].
  - destruct Hnf as (b' & -> & Hwf' & Hok' & Hokn' & Hsf & Hr & Hl & _). rewrite Hr.
    rewrite (run_ref G b' n' fi F Hwf' Hok' Hokn'); [|lia|lia]. rewrite Hsf.
    destruct (rf F (b_pend b' ++ sbytes n') (sfin n fi)) as [fs e]. reflexivity.
  - destruct e; try (destruct Hnf as (_ & _ & ->); reflexivity). destruct Hnf as (-> & _). reflexivity.
Qed.

(* a run that ends waiting: the reader it leaves behind, and nothing lost *)
Theorem run_st_pending : forall G st b n r1 l1,
  wf b -> okl (b_pend b) -> Forall okl n -> st_ok st -> rmeasure st b n < G ->
  run_reader_st G (rd st b) n FinPending = (r1, (l1, EndPending)) ->
  waiting r1 /\ sfin n FinPending = FinPending /\
  exists consumed, b_pend b ++ sbytes n = consumed ++ b_pend (r_buf r1).
Proof using All.
  induction G as [|G IH]; intros st b n r1 l1 Hwf Hok Hokn Hst HG E; [lia|]. cbn [run_reader_st] in E.
  pose proof H_cons_init as Hci. unfold rmeasure in HG.
  pose proof (nf_ref (nf_fuel n) st b n FinPending (S (length (b_pend b ++ sbytes n))) Hwf Hok Hokn Hst ltac:(unfold nf_fuel; lia) ltac:(lia)) as Hnf.
  pose proof (nf_app (nf_fuel n) st b n [] FinPending 1 Hwf Hok Hokn ltac:(constructor) Hst ltac:(unfold nf_fuel; lia) ltac:(cbn; lia)) as Happ.
  unfold nf_post in Hnf. cbv zeta in Hnf.
  destruct (next_frame (nf_fuel n) (rd st b) n FinPending) as [[r' n'] res]. destruct res as [f|e].
  - destruct Hnf as (b' & -> & Hwf' & Hok' & Hokn' & Hsf & _ & Hl & (cs & Hcs)).
    destruct (run_reader_st G (rd init b') n' FinPending) as [r2 [l2 e2]] eqn:E2. inversion E; subst.
    destruct (IH init b' n' r1 l2 Hwf' Hok' Hokn' H_init_ok ltac:(unfold rmeasure; lia) E2) as (Hw & Hs & (cs2 & Hcs2)).
    split; [exact Hw|]. split; [now rewrite <- Hsf|]. exists (cs ++ cs2). now rewrite Hcs, Hcs2, app_assoc.
  - destruct e; inversion E; subst. destruct Happ as (_ & Hw & Hc & Hs & _). repeat split; assumption.
Qed.


(* CANCEL-SAFETY of whole sessions: abandoning the waiting call at every chunk boundary changes nothing *)
Theorem run_cancel_eq : forall n st b fi G,
  wf b -> okl (b_pend b) -> Forall okl n -> st_ok st ->
  length (b_pend b) + length (concat n) + 2 < G ->
  run_cancel (rd st b) n fi = run_reader G false (rd st b) n fi.
Proof using All.
  induction n as [|c rest IH]; intros st b fi G Hwf Hok Hokn Hst HG; cbn [run_cancel].
  - rewrite <- !run_reader_st_snd. f_equal. apply run_st_fuel_indep; try assumption; unfold rmeasure, run_fuel; cbn [rd r_buf sbytes concat length]; rewrite app_nil_r; unfold buf_len; lia.
  - assert (Hokc : Forall okl [c]) by (inversion Hokn; subst; constructor; [assumption|constructor]).
    assert (Hokr : Forall okl rest) by (inversion Hokn; assumption).
    pose proof (sbytes_le [c]) as Hs1. pose proof (sbytes_le rest) as Hs2. cbn [concat] in HG, Hs1. rewrite app_length in HG. rewrite app_nil_r in Hs1.
    assert (Hm1 : rmeasure st b [c] < run_fuel (rd st b) [c]).
    { unfold rmeasure, run_fuel. cbn [rd r_buf concat]. rewrite app_nil_r, app_length. unfold buf_len. lia. }
    pose proof (run_st_app (run_fuel (rd st b) [c]) st b [c] rest fi G G Hwf Hok Hokc Hokr Hst Hm1
                  ltac:(rewrite app_length; lia) ltac:(unfold rmeasure; rewrite app_length; lia)) as Happ.
    change ([c] ++ rest) with (c :: rest) in Happ.
    rewrite <- (run_reader_st_snd G (rd st b) (c :: rest) fi), Happ.
    destruct (run_reader_st (run_fuel (rd st b) [c]) (rd st b) [c] FinPending) as [r1 [l1 e1]] eqn:E1.
    destruct e1; try reflexivity.
    destruct (run_st_pending _ st b [c] r1 l1 Hwf Hok Hokc Hst Hm1 E1) as (Hw & _ & (cs & Hcs)).
    destruct Hw as (st1 & b1 & -> & Hwf1 & Hok1 & Hst1 & _ & _). cbn [rd r_buf] in Hcs.
    assert (Hb1 : length (b_pend b1) <= length (b_pend b) + length c).
    { apply (f_equal (@length N)) in Hcs. rewrite !app_length in Hcs. lia. }
    rewrite (IH st1 b1 fi G Hwf1 Hok1 Hokr Hst1 ltac:(lia)).
    rewrite <- run_reader_st_snd. destruct (run_reader_st G (rd st1 b1) rest fi) as [r2 [l2 e2]]. reflexivity.
Qed.

(* ================================================================================================
   A reader that REPRESENTS a Spec leftover. `represents r t`: r is waiting, and from r the future
   looks exactly as it looks to the Spec after the unconsumed bytes t. A fresh reader represents [];
   a run that ends waiting leaves a reader that represents the Spec's leftover. This is the
   interface for sequences of exchanges on one connection.
   ================================================================================================ *)
Variable rtail : list N -> list N.           (* the Spec's incomplete last frame *)
Hypothesis H_rf_fuel : forall F1 F2 s fi, length s < F1 -> length s < F2 -> rf F1 s fi = rf F2 s fi.
Hypothesis H_rf_app : forall F s1 s2 fi, length (s1 ++ s2) < F ->
  rf F (s1 ++ s2) fi =
  match rf F s1 FinPending with
  | (fs1, EndPending) => (fs1 ++ fst (rf F (rtail s1 ++ s2) fi), snd (rf F (rtail s1 ++ s2) fi))
  | x => x
  end.
Hypothesis H_rtail_len : forall s, length (rtail s) <= length s.

Definition represents (r : reader) (t : list N) : Prop :=
  exists st b m, r = rd st b /\ wf b /\ okl (b_pend b) /\ st_ok st /\
    forall fut F fi, m + length fut < F -> okl fut -> ref_from F st (b_pend b ++ fut) fi = rf F (t ++ fut) fi.

Lemma represents_fresh : represents (rd init buf_new) [].
Proof using All.
  exists init, buf_new, 0. split; [reflexivity|]. split; [apply wf_new|]. split; [exact okl_nil|]. split; [exact H_init_ok|].
  intros fut F fi _ _. cbn [buf_new b_pend app]. apply H_init.
Qed.

Lemma liftr_inj r1 r2 : liftr r1 = liftr r2 -> r1 = r2.
Proof.
  destruct r1 as [l1 e1], r2 as [l2 e2]. unfold liftr. cbn [fst snd]. intros H. inversion H as [[Hm He]]. f_equal.
  clear -Hm. revert l2 Hm. induction l1 as [|x l1 IH]; intros [|y l2] Hm; try discriminate; [reflexivity|].
  cbn [map] in Hm. inversion Hm; subst. f_equal. now apply IH.
Qed.

Lemma okl_sbytes n : Forall okl n -> okl (sbytes n).
Proof using okl_nil okl_app.
  induction 1 as [|c n Hc Hn IH]; [exact okl_nil|]. destruct c; [exact okl_nil|]. cbn [sbytes]. now apply okl_app.
Qed.

(* from a representing reader the run over any schedule is the Spec on leftover ++ new bytes.
   G: any fuel above pending + new bytes + 1 (e.g. run_fuel r n); F: any Spec fuel above the stream length *)
Theorem run_represents : forall r t n fi G F,
  represents r t -> Forall okl n ->
  buf_len (r_buf r) + length (sbytes n) + 1 < G -> length (t ++ sbytes n) < F ->
  run_reader G false r n fi = liftr (rf F (t ++ sbytes n) (sfin n fi)).
Proof using All.
  intros r t n fi G F (st & b & m & -> & Hwf & Hok & Hst & Hrep) Hokn HG HF. cbn [rd r_buf] in HG. unfold buf_len in HG.
  set (F' := S (F + m + length (b_pend b ++ sbytes n) + length (t ++ sbytes n))).
  rewrite (run_ref_from G st b n fi F' Hwf Hok Hokn Hst); [|unfold rmeasure; rewrite app_length; lia|unfold F'; lia].
  rewrite Hrep; [|unfold F'; rewrite !app_length; lia|now apply okl_sbytes].
  rewrite (H_rf_fuel F' F); [reflexivity|unfold F'; lia|exact HF].
Qed.

(* ... and if that run ends waiting, the reader it leaves behind represents the Spec's new leftover;
   the frames delivered are the Spec's frames *)
Theorem represents_step : forall r t n G r1 l1,
  represents r t -> Forall okl n ->
  buf_len (r_buf r) + length (sbytes n) + 1 < G ->
  run_reader_st G r n FinPending = (r1, (l1, EndPending)) ->
  represents r1 (rtail (t ++ sbytes n)) /\
  l1 = map IFrame (fst (rf (S (length (t ++ sbytes n))) (t ++ sbytes n) FinPending)) /\
  snd (rf (S (length (t ++ sbytes n))) (t ++ sbytes n) FinPending) = EndPending.
Proof using All.
  intros r t n G r1 l1 Hrep Hokn HG E.
  pose proof Hrep as (st & b & m & -> & Hwf & Hok & Hst & Href). cbn [rd r_buf] in HG. unfold buf_len in HG.
  assert (Hm : rmeasure st b n < G) by (unfold rmeasure; rewrite !app_length in *; lia).
  destruct (run_st_pending G st b n r1 l1 Hwf Hok Hokn Hst Hm E) as (Hw & Hsf & (cs & Hcs)).
  pose proof (run_represents (rd st b) t n FinPending G (S (length (t ++ sbytes n))) Hrep Hokn ltac:(cbn [rd r_buf]; unfold buf_len; lia) ltac:(lia)) as Hrun.
  rewrite <- run_reader_st_snd, E in Hrun. cbn [snd] in Hrun. rewrite Hsf in Hrun.
  set (s1 := t ++ sbytes n) in *. set (F0 := S (length s1)) in *.
  destruct (rf F0 s1 FinPending) as [fs1 e1] eqn:Erf. unfold liftr in Hrun. cbn [fst snd] in Hrun. inversion Hrun as [[Hl1 He1]]. subst e1.
  split; [|split; reflexivity].
  destruct Hw as (st1 & b1 & -> & Hwf1 & Hok1 & Hst1 & Hlt1 & Hprep).
  assert (Hb1 : length (b_pend b1) <= length (b_pend b ++ sbytes n)) by (cbn [rd r_buf] in Hcs; rewrite Hcs, app_length; lia).
  exists st1, b1, (m + length s1 + length (b_pend b ++ sbytes n) + 3). split; [reflexivity|]. split; [assumption|]. split; [assumption|]. split; [assumption|].
  intros fut F fi HF Hokf.
  set (n2 := match fut with [] => [] | _ => [fut] end).
  assert (Hn2 : sbytes n2 = fut /\ sfin n2 fi = fi /\ Forall okl n2).
  { unfold n2. destruct fut; [repeat split; constructor|]. cbn [sbytes sfin]. rewrite app_nil_r. repeat split. constructor; [assumption|constructor]. }
  destruct Hn2 as (Hs2 & Hf2 & Hokn2).
  destruct (sfin_pending_app n Hsf n2 fi) as [Hsa Hfa].
  pose proof (H_rtail_len s1) as Htl.
  (* the run over n ++ n2, computed in two ways *)
  pose proof (run_st_app G st b n n2 fi F (S F) Hwf Hok Hokn Hokn2 Hst Hm
                ltac:(rewrite Hs2; lia) ltac:(unfold rmeasure; rewrite Hs2; lia)) as Happ.
  rewrite E in Happ.
  pose proof (run_reader_st_snd (S F) (rd st b) (n ++ n2) fi) as H1. rewrite Happ in H1.
  pose proof (run_reader_st_snd F (rd st1 b1) n2 fi) as H2.
  destruct (run_reader_st F (rd st1 b1) n2 fi) as [r2 [l2 e2]]. cbn [snd] in H1, H2.
  assert (Hokna : Forall okl (n ++ n2)) by (apply Forall_app; split; assumption).
  rewrite (run_represents (rd st b) t (n ++ n2) fi (S F) F Hrep Hokna) in H1;
    [|cbn [rd r_buf]; unfold buf_len; rewrite Hsa, Hs2, !app_length in *; lia|rewrite Hsa, Hs2, app_assoc; fold s1; rewrite app_length; lia].
  rewrite Hsa, Hfa, Hs2, Hf2, app_assoc in H1. fold s1 in H1.
  rewrite (H_rf_app F s1 fut fi) in H1 by (rewrite app_length; lia).
  rewrite (H_rf_fuel F F0 s1 FinPending) in H1 by (unfold F0; lia).
  rewrite Erf in H1.
  rewrite (run_ref_from F st1 b1 n2 fi F Hwf1 Hok1 Hokn2 Hst1) in H2
    by (unfold rmeasure; rewrite Hs2, !app_length in *; lia).
  rewrite Hs2, Hf2 in H2.
  destruct (rf F (rtail s1 ++ fut) fi) as [fs' e'] eqn:Erf'. cbn [fst snd] in H1.
  unfold liftr in H1. cbn [fst snd] in H1. rewrite map_app, <- Hl1 in H1. inversion H1 as [[Hl He]]. apply app_inv_head in Hl. subst l2 e2.
  symmetry in H2. change (map IFrame fs', e') with (liftr (fs', e')) in H2. now apply liftr_inj in H2.
Qed.

(* the same for a run that does not end waiting (EOF, I/O error, framing error): items and ending are the Spec's *)
Corollary run_st_represents : forall r t n fi G F,
  represents r t -> Forall okl n ->
  buf_len (r_buf r) + length (sbytes n) + 1 < G -> length (t ++ sbytes n) < F ->
  snd (run_reader_st G r n fi) = liftr (rf F (t ++ sbytes n) (sfin n fi)).
Proof using All. intros. rewrite run_reader_st_snd. now apply run_represents. Qed.


(* ================================================================================================
   Polling again after a framing error (resume = true): the RTU server keeps ONE reader across port
   re-opens. `rafter F s` = what the Spec says is left of the stream after its first framing error;
   `after_from` its state-indexed version. The run in resume mode is the Spec applied session after
   session, each from a clean parser, on what is left.
   ================================================================================================ *)
Variable rafter : nat -> list N -> list N.
Variable after_from : nat -> pst -> list N -> list N.
Hypothesis HA_init : forall F s, after_from F init s = rafter F s.
Hypothesis HA_none : forall st b st' b', wf b -> okl (b_pend b) -> st_ok st -> pp st b = (st', b', Ok None) ->
  forall fut F, length (b_pend b ++ fut) < F -> after_from F st (b_pend b ++ fut) = after_from F st' (b_pend b' ++ fut).
Hypothesis HA_some : forall st b st' b' f, wf b -> okl (b_pend b) -> st_ok st -> pp st b = (st', b', Ok (Some f)) ->
  forall fut F, length (b_pend b ++ fut) < F -> after_from F st (b_pend b ++ fut) = rafter F (b_pend b' ++ fut).
Hypothesis HA_err : forall st b st' b' e, wf b -> okl (b_pend b) -> st_ok st -> pp st b = (st', b', Err e) ->
  forall fut F, length (b_pend b ++ fut) < F -> after_from F st (b_pend b ++ fut) = b_pend b' ++ fut.

Theorem nf_after : forall fuel st b n fi F,
  wf b -> okl (b_pend b) -> Forall okl n -> st_ok st -> length (concat n) < fuel -> length (b_pend b ++ sbytes n) < F ->
  match next_frame fuel (rd st b) n fi with
  | (r', n', NfFrame _) => after_from F st (b_pend b ++ sbytes n) = rafter F (b_pend (r_buf r') ++ sbytes n')
  | (r', n', NfEnd (EndBad _)) => after_from F st (b_pend b ++ sbytes n) = b_pend (r_buf r') ++ sbytes n'
  | _ => True
  end.
Proof using All.
  induction fuel as [|fuel IH]; intros st b n fi F Hwf Hok Hokn Hst Hfuel HF; [lia|].
  assert (Hokc : forall k, okl (b_pend (consume k b))) by (intros k; cbn [consume b_pend]; now apply okl_skipn).
  cbn [next_frame rd r_parser r_buf]. rewrite H_mk. destruct (pp st b) as [[st' b'] r] eqn:Ep.
  destruct r as [[f|]|e|]; cbn [r_buf].
  - exact (HA_some _ _ _ _ _ Hwf Hok Hst Ep _ F HF).
  - destruct (H_none _ _ _ _ Hwf Hok Hst Ep) as (Hst' & Hstuck & (k & -> & Hk & Hck) & _).
    pose proof (HA_none _ _ _ _ Hwf Hok Hst Ep) as Ha.
    assert (Hwf' := consume_wf _ _ Hwf Hk).
    assert (Hlen' : length (b_pend (consume k b)) = length (b_pend b) - k) by now apply consume_pend_len.
    assert (Hcap : buf_len (consume k b) < cap) by (specialize (H_need_cap _ Hst'); lia).
    destruct n as [|c n'].
    + destruct (read_some (consume k b) []) as [b2 x]. destruct fi; exact I.
    + destruct c as [|x c].
      * destruct (read_some_nil _ Hwf') as (b2 & -> & _ & _). exact I.
      * destruct (read_some_ok (consume k b) (x :: c) Hwf' Hcap ltac:(discriminate)) as (j & b'' & Hrs & Hj & Hp'' & Hwf'').
        rewrite Hrs.
        assert (Hsplit : forall tl, b_pend (consume k b) ++ (x :: c) ++ tl = b_pend b'' ++ skipn j (x :: c) ++ tl).
        { intros tl. rewrite Hp'', <- !app_assoc. f_equal. rewrite app_assoc, firstn_skipn. reflexivity. }
        assert (Hrest : length (skipn j (x :: c)) = length (x :: c) - j) by apply skipn_length.
        cbn [concat] in Hfuel. rewrite app_length in Hfuel.
        assert (Hokx : okl (x :: c) /\ Forall okl n') by (inversion Hokn; subst; split; assumption). destruct Hokx as [Hokx Hokn'].
        assert (Hok'' : okl (b_pend b'')) by (rewrite Hp''; apply okl_app; [apply Hokc|now apply okl_firstn]).
        assert (Hgoal : forall n1, sbytes n1 = skipn j (x :: c) ++ sbytes n' -> Forall okl n1 -> length (concat n1) < fuel ->
          match next_frame fuel (rd st' b'') n1 fi with
          | (r', n2, NfFrame _) => after_from F st (b_pend b ++ sbytes ((x :: c) :: n')) = rafter F (b_pend (r_buf r') ++ sbytes n2)
          | (r', n2, NfEnd (EndBad _)) => after_from F st (b_pend b ++ sbytes ((x :: c) :: n')) = b_pend (r_buf r') ++ sbytes n2
          | _ => True
          end).
        { intros n1 Hs1 Hok1 Hfu.
          assert (Heq : b_pend (consume k b) ++ sbytes ((x :: c) :: n') = b_pend b'' ++ sbytes n1).
          { change (sbytes ((x :: c) :: n')) with ((x :: c) ++ sbytes n'). rewrite Hs1. apply Hsplit. }
          assert (HF' : length (b_pend b'' ++ sbytes n1) < F) by (rewrite <- Heq, app_length; rewrite app_length in HF; lia).
          specialize (IH st' b'' n1 fi F Hwf'' Hok'' Hok1 Hst' Hfu HF').
          rewrite (Ha _ F HF), Heq. exact IH. }
        destruct (skipn j (x :: c)) as [|y rest] eqn:Erest.
        -- apply Hgoal; [reflexivity|assumption|]. cbn [length] in *. lia.
        -- apply Hgoal; [reflexivity| |].
           ++ constructor; [rewrite <- Erest; now apply okl_skipn|assumption].
           ++ cbn [concat]. rewrite app_length. cbn [length] in *. lia.
  - exact (HA_err _ _ _ _ _ Hwf Hok Hst Ep _ F HF).
  - exact I.
Qed.

(* the Spec's view of a whole life: a session, its framing error, a clean start on what is left, ... *)
Fixpoint gres (fuel : nat) (F : nat) (s : list N) (fi : fin) : list item * ending :=
  match fuel with
  | O => ([], EndOutOfFuel)
  | S fuel =>
      let '(fs, e) := rf F s fi in
      match e with
      | EndBad err => let '(l, e') := gres fuel F (rafter F s) fi in (map IFrame fs ++ IErr err :: l, e')
      | _ => (map IFrame fs, e)
      end
  end.
Hypothesis HA_len : forall F s fi fs e, length s < F -> rf F s fi = (fs, EndBad e) -> length (rafter F s) < length s.

Lemma gres_fuel : forall G1 G2 F s fi, length s < F -> length s < G1 -> length s < G2 -> gres G1 F s fi = gres G2 F s fi.
Proof using All.
  induction G1 as [|G1 IH]; intros G2 F s fi HF H1 H2; [lia|]. destruct G2 as [|G2]; [lia|]. cbn [gres].
  destruct (rf F s fi) as [fs e] eqn:E. destruct e; try reflexivity.
  pose proof (HA_len F s fi fs e HF E) as Hl. rewrite (IH G2 F (rafter F s) fi); [reflexivity|lia|lia|lia].
Qed.

Theorem run_resume_ref : forall G b n fi F,
  wf b -> okl (b_pend b) -> Forall okl n ->
  length (b_pend b ++ sbytes n) < G -> length (b_pend b ++ sbytes n) < F ->
  run_reader G true (rd init b) n fi = gres G F (b_pend b ++ sbytes n) (sfin n fi).
Proof using All.
  induction G as [|G IH]; intros b n fi F Hwf Hok Hokn HG HF; [lia|]. cbn [run_reader].
  pose proof (nf_ref (nf_fuel n) init b n fi F Hwf Hok Hokn H_init_ok ltac:(unfold nf_fuel; lia) HF) as Hnf.
  pose proof (nf_after (nf_fuel n) init b n fi F Hwf Hok Hokn H_init_ok ltac:(unfold nf_fuel; lia) HF) as Haf.
  unfold nf_post in Hnf. cbv zeta in Hnf. rewrite H_init in Hnf. rewrite HA_init in Haf. pose proof H_cons_init as Hci.
  destruct (next_frame (nf_fuel n) (rd init b) n fi) as [[r' n'] res]. destruct res as [f|e].
  - destruct Hnf as (b' & -> & Hwf' & Hok' & Hokn' & Hsf & Hr & Hl & _). cbn [rd r_buf] in Haf.
    rewrite (IH b' n' fi F Hwf' Hok' Hokn') by lia. rewrite Hsf.
    rewrite (gres_fuel G (S G) F (b_pend b' ++ sbytes n') (sfin n fi)) by lia.
    cbn [gres]. rewrite Hr, Haf. destruct (rf F (b_pend b' ++ sbytes n') (sfin n fi)) as [fs e]. cbn [consf map app].
    destruct e; try reflexivity. destruct (gres G F (rafter F (b_pend b' ++ sbytes n')) (sfin n fi)) as [l e']. reflexivity.
  - destruct e as [e| | | |]; try (destruct Hnf as (_ & _ & Hr); cbn [gres]; rewrite Hr; reflexivity).
    destruct Hnf as (Hr & b' & -> & Hwf' & Hok' & Hokn' & Hl & _ & Hsf). cbn [rd r_buf] in Haf.
    rewrite (IH b' n' fi F Hwf' Hok' Hokn') by lia. rewrite Hsf.
    cbn [gres]. rewrite Hr, Haf. cbn [map app]. destruct (gres G F (b_pend b' ++ sbytes n') (sfin n fi)) as [l e']. reflexivity.
Qed.

End Generic.
