(* The reader loop refines a stream Spec, for ANY parser that satisfies four per-call lemmas
   (more bytes needed / frame / error / never panics) relative to a state-indexed Spec `ref_from`.
   Instantiated for the MBAP parser (MbapProofs.v) and both RTU parsers (RtuProofs.v).

   Main results (Section Generic):
     nf_ref    one next_frame call = one step of the Spec, for every chunk schedule, and it
               consumes at least `cons_need` bytes when it delivers a frame (progress)
     run_ref   run_reader (stop at first error) = the Spec's frame list and ending
     nf_no_panic / run_no_panic
   A schedule with an empty chunk is a stream that ends there with EOF (sbytes / sfin). *)
From Coq Require Import NArith List Bool Arith Lia.
From Rodbus Require Import Base.Outcome Base.Frame Gen.Consts Model.Buffer Model.Mbap Model.Reader Spec.Framing Proofs.BufferProofs.
Import ListNotations.

Fixpoint sbytes (n : net) : list N :=
  match n with [] => [] | [] :: _ => [] | c :: n' => c ++ sbytes n' end.
Fixpoint sfin (n : net) (fi : fin) : fin :=
  match n with [] => fi | [] :: _ => FinEof | _ :: n' => sfin n' fi end.
Lemma sched_stream_eq n fi : sched_stream n fi = (sbytes n, sfin n fi).
Proof. induction n as [|c n IH]; [reflexivity|]. destruct c; [reflexivity|]. cbn [sched_stream sbytes sfin]. now rewrite IH. Qed.
Lemma sbytes_le n : length (sbytes n) <= length (concat n).
Proof. induction n as [|c n IH]; [cbn; lia|]. destruct c; cbn [sbytes concat]; rewrite ?app_length; cbn [length]; lia. Qed.
Lemma sbytes_nonempty n : Forall (fun c => c <> []) n -> sbytes n = concat n /\ forall fi, sfin n fi = fi.
Proof.
  induction 1 as [|c n Hc Hn [IH1 IH2]]; [split; reflexivity|]. destruct c; [congruence|].
  cbn [sbytes sfin concat]. rewrite IH1. split; [reflexivity|exact IH2].
Qed.

Definition consf (f : frame) (r : list frame * ending) : list frame * ending := let '(fs, e) := r in (f :: fs, e).
Definition liftr (r : list frame * ending) : list item * ending := (map IFrame (fst r), snd r).
Lemma liftr_consf f r : liftr (consf f r) = (IFrame f :: fst (liftr r), snd (liftr r)).
Proof. destruct r; reflexivity. Qed.

Lemma end_of_eq fi : match fi with FinEof => EndIo UnexpectedEof | FinErr => EndIo IoOther | FinPending => EndPending end = end_of fi.
Proof. destruct fi; reflexivity. Qed.

Section Generic.
Variable pst : Type.
Variable mk : pst -> parser.
Variable pp : pst -> buf -> pst * buf * presult.
Variable init : pst.
Variable st_ok : pst -> Prop.
Variable need : pst -> nat.
Variable cons_need : pst -> nat.
Variable rf : nat -> list N -> fin -> list frame * ending.
Variable ref_from : nat -> pst -> list N -> fin -> list frame * ending.

(* an invariant of the bytes (e.g. "every element is below 256"), closed under the list operations the reader performs *)
Variable okl : list N -> Prop.
Hypothesis okl_nil : okl [].
Hypothesis okl_app : forall a c, okl a -> okl c -> okl (a ++ c).
Hypothesis okl_firstn : forall k a, okl a -> okl (firstn k a).
Hypothesis okl_skipn : forall k a, okl a -> okl (skipn k a).

Hypothesis H_mk : forall st b, parser_parse (mk st) b = let '(st', b', r) := pp st b in (mk st', b', r).
Hypothesis H_reset : forall st, parser_reset (mk st) = mk init.
Hypothesis H_init_ok : st_ok init.
Hypothesis H_init : forall F s fi, ref_from F init s fi = rf F s fi.
Hypothesis H_cons_init : 1 <= cons_need init.
Hypothesis H_need_cap : forall st, st_ok st -> need st <= cap.
Hypothesis H_stuck : forall st p F fi, st_ok st -> length p < need st -> 0 < F -> ref_from F st p fi = ([], end_of fi).
Hypothesis H_none : forall st b st' b', wf b -> okl (b_pend b) -> st_ok st -> pp st b = (st', b', Ok None) ->
  st_ok st' /\ buf_len b' < need st' /\
  (exists k, b' = consume k b /\ k <= buf_len b /\ cons_need st <= k + cons_need st') /\
  (forall fut F fi, length (b_pend b ++ fut) < F -> ref_from F st (b_pend b ++ fut) fi = ref_from F st' (b_pend b' ++ fut) fi).
Hypothesis H_some : forall st b st' b' f, wf b -> okl (b_pend b) -> st_ok st -> pp st b = (st', b', Ok (Some f)) ->
  st' = init /\ (exists k, b' = consume k b /\ k <= buf_len b /\ cons_need st <= k) /\
  (forall fut F fi, length (b_pend b ++ fut) < F -> ref_from F st (b_pend b ++ fut) fi = consf f (rf F (b_pend b' ++ fut) fi)).
Hypothesis H_err : forall st b st' b' e, wf b -> okl (b_pend b) -> st_ok st -> pp st b = (st', b', Err e) ->
  (exists k, b' = consume k b /\ k <= buf_len b /\ cons_need st <= k) /\
  (forall fut F fi, length (b_pend b ++ fut) < F -> ref_from F st (b_pend b ++ fut) fi = ([], EndBad e)).
Hypothesis H_panic : forall st b st' b', wf b -> okl (b_pend b) -> st_ok st -> pp st b <> (st', b', Panic).

Definition rd (st : pst) (b : buf) : reader := {| r_parser := mk st; r_buf := b |}.

(* what one next_frame call means in terms of the stream *)
Definition nf_post (F : nat) (st : pst) (b : buf) (n : net) (fi : fin) (res : reader * net * nf_result) : Prop :=
  let s := b_pend b ++ sbytes n in
  match res with
  | (r', n', NfFrame f) =>
      exists b', r' = rd init b' /\ wf b' /\ okl (b_pend b') /\ Forall okl n' /\ sfin n' fi = sfin n fi /\
        ref_from F st s (sfin n fi) = consf f (rf F (b_pend b' ++ sbytes n') (sfin n fi)) /\
        length (b_pend b' ++ sbytes n') + cons_need st <= length s /\
        (exists consumed, s = consumed ++ b_pend b' ++ sbytes n')
  | (r', n', NfEnd (EndBad e)) =>
      ref_from F st s (sfin n fi) = ([], EndBad e) /\
      exists b', r' = rd init b' /\ wf b' /\ okl (b_pend b') /\ Forall okl n' /\ length (b_pend b' ++ sbytes n') + cons_need st <= length s /\
        (exists consumed, s = consumed ++ b_pend b' ++ sbytes n')
  | (_, _, NfEnd e) => e <> EndPanic /\ e <> EndOutOfFuel /\ ref_from F st s (sfin n fi) = ([], e)
  end.

Lemma consume_pend_len k b : k <= buf_len b -> length (b_pend (consume k b)) = length (b_pend b) - k.
Proof. intros _. cbn [consume b_pend]. apply skipn_length. Qed.

Theorem nf_ref : forall fuel st b n fi F,
  wf b -> okl (b_pend b) -> Forall okl n -> st_ok st -> length (concat n) < fuel -> length (b_pend b ++ sbytes n) < F ->
  nf_post F st b n fi (next_frame fuel (rd st b) n fi).
Proof using All.
  induction fuel as [|fuel IH]; intros st b n fi F Hwf Hok Hokn Hst Hfuel HF; [lia|].
  assert (Hokc : forall k, okl (b_pend (consume k b))) by (intros k; cbn [consume b_pend]; now apply okl_skipn).
  cbn [next_frame rd r_parser r_buf]. rewrite H_mk. destruct (pp st b) as [[st' b'] r] eqn:Ep.
  destruct r as [[f|]|e|].
  - (* frame *)
    destruct (H_some _ _ _ _ _ Hwf Hok Hst Ep) as (-> & (k & -> & Hk & Hck) & Href).
    unfold nf_post. exists (consume k b). split; [reflexivity|]. split; [now apply consume_wf|]. split; [apply Hokc|]. split; [exact Hokn|]. split; [reflexivity|].
    split; [apply Href; exact HF|].
    split; [rewrite !app_length, consume_pend_len by assumption; unfold buf_len in Hk; lia|].
    exists (firstn k (b_pend b)). cbn [consume b_pend]. now rewrite app_assoc, firstn_skipn.
  - (* more bytes needed *)
    destruct (H_none _ _ _ _ Hwf Hok Hst Ep) as (Hst' & Hstuck & (k & -> & Hk & Hck) & Href).
    assert (Hwf' := consume_wf _ _ Hwf Hk).
    assert (Hlen' : length (b_pend (consume k b)) = length (b_pend b) - k) by now apply consume_pend_len.
    assert (Hcap : buf_len (consume k b) < cap) by (specialize (H_need_cap _ Hst'); lia).
    destruct n as [|c n'].
    + (* schedule used up *)
      destruct (read_some_nil _ Hwf') as (b2 & -> & _ & _). unfold nf_post. rewrite end_of_eq.
      cbn [sbytes sfin]. assert (He : forall fi, end_of fi <> EndPanic /\ end_of fi <> EndOutOfFuel) by (intros []; split; discriminate).
      assert (Hr : ref_from F st (b_pend b ++ []) fi = ([], end_of fi)).
      { rewrite (Href [] F fi HF). apply H_stuck; [assumption|rewrite app_nil_r; exact Hstuck|lia]. }
      destruct (He fi) as [He1 He2]. destruct (end_of fi) eqn:Ee; try (split; [assumption|split; assumption]).
      destruct fi; discriminate.
    + destruct c as [|x c].
      * (* an empty chunk: a 0-byte read *)
        destruct (read_some_nil _ Hwf') as (b2 & -> & _ & _). unfold nf_post. cbn [sbytes sfin].
        split; [discriminate|]. split; [discriminate|].
        rewrite (Href [] F FinEof HF). apply H_stuck; [assumption|rewrite app_nil_r; exact Hstuck|lia].
      * destruct (read_some_ok (consume k b) (x :: c) Hwf' Hcap ltac:(discriminate)) as (j & b'' & Hrs & Hj & Hp'' & Hwf'').
        rewrite Hrs.
        assert (Hsplit : forall tl, b_pend (consume k b) ++ (x :: c) ++ tl = b_pend b'' ++ skipn j (x :: c) ++ tl).
        { intros tl. rewrite Hp'', <- !app_assoc. f_equal. rewrite app_assoc, firstn_skipn. reflexivity. }
        assert (Hrest : length (skipn j (x :: c)) = length (x :: c) - j) by apply skipn_length.
        cbn [concat] in Hfuel. rewrite app_length in Hfuel.
        (* the recursive call sees the same stream *)
        assert (Hokx : okl (x :: c) /\ Forall okl n') by (inversion Hokn; subst; split; assumption).
        destruct Hokx as [Hokx Hokn'].
        assert (Hok'' : okl (b_pend b'')) by (rewrite Hp''; apply okl_app; [apply Hokc|now apply okl_firstn]).
        assert (Hgoal : forall n1, sbytes n1 = skipn j (x :: c) ++ sbytes n' -> sfin n1 fi = sfin n' fi ->
                  Forall okl n1 -> length (concat n1) < fuel ->
                  nf_post F st b ((x :: c) :: n') fi (next_frame fuel (rd st' b'') n1 fi)).
        { intros n1 Hs1 Hf1 Hok1 Hfu.
          assert (Heq : b_pend (consume k b) ++ sbytes ((x :: c) :: n') = b_pend b'' ++ sbytes n1).
          { change (sbytes ((x :: c) :: n')) with ((x :: c) ++ sbytes n'). rewrite Hs1. apply Hsplit. }
          assert (HF' : length (b_pend b'' ++ sbytes n1) < F).
          { rewrite <- Heq, app_length. rewrite app_length in HF. lia. }
          specialize (IH st' b'' n1 fi F Hwf'' Hok'' Hok1 Hst' Hfu HF').
          assert (Hlen : length (b_pend b'' ++ sbytes n1) + k = length (b_pend b ++ sbytes ((x :: c) :: n'))).
          { rewrite <- Heq. rewrite !app_length. unfold buf_len in Hk. lia. }
          assert (Hsf : sfin ((x :: c) :: n') fi = sfin n1 fi) by (cbn [sfin]; now rewrite Hf1).
          unfold nf_post in *. rewrite (Href _ F _ HF), Heq, Hsf.
          destruct (next_frame fuel (rd st' b'') n1 fi) as [[r1 n2] res]. destruct res as [f|e].
          - destruct IH as (b3 & -> & Hwf3 & Hok3 & Hokn3 & Hsf3 & Hr3 & Hl3 & (cs & Hcs)). exists b3. repeat split; try assumption; [lia|].
            exists (firstn k (b_pend b) ++ cs). rewrite <- app_assoc, <- Hcs, <- Heq. cbn [consume b_pend]. now rewrite !app_assoc, firstn_skipn.
          - destruct e; try exact IH.
            destruct IH as (Hr3 & b3 & -> & Hwf3 & Hok3 & Hokn3 & Hl3 & (cs & Hcs)). split; [exact Hr3|]. exists b3. repeat split; try assumption; [lia|].
            exists (firstn k (b_pend b) ++ cs). rewrite <- app_assoc, <- Hcs, <- Heq. cbn [consume b_pend]. now rewrite !app_assoc, firstn_skipn. }
        destruct (skipn j (x :: c)) as [|y rest] eqn:Erest.
        -- apply Hgoal; [reflexivity|reflexivity|exact Hokn'|]. cbn [length] in *. lia.
        -- apply Hgoal; [reflexivity|reflexivity| |].
           ++ constructor; [rewrite <- Erest; now apply okl_skipn|exact Hokn'].
           ++ cbn [concat]. rewrite app_length. cbn [length] in *. lia.
  - (* framing error *)
    destruct (H_err _ _ _ _ _ Hwf Hok Hst Ep) as ((k & -> & Hk & Hck) & Href).
    unfold nf_post. split; [apply Href; exact HF|]. exists (consume k b). rewrite H_reset. split; [reflexivity|].
    split; [now apply consume_wf|]. split; [apply Hokc|]. split; [exact Hokn|].
    split; [rewrite !app_length, consume_pend_len by assumption; unfold buf_len in Hk; lia|].
    exists (firstn k (b_pend b)). cbn [consume b_pend]. now rewrite app_assoc, firstn_skipn.
  - exfalso. exact (H_panic _ _ _ _ Hwf Hok Hst Ep).
Qed.

(* the whole session (stop at the first error) *)
Theorem run_ref : forall fuel b n fi F,
  wf b -> okl (b_pend b) -> Forall okl n -> length (b_pend b ++ sbytes n) < fuel -> length (b_pend b ++ sbytes n) < F ->
  run_reader fuel false (rd init b) n fi = liftr (rf F (b_pend b ++ sbytes n) (sfin n fi)).
Proof using All.
  induction fuel as [|fuel IH]; intros b n fi F Hwf Hok Hokn Hfu HF; [lia|].
  cbn [run_reader].
  pose proof (nf_ref (nf_fuel n) init b n fi F Hwf Hok Hokn H_init_ok ltac:(unfold nf_fuel; lia) HF) as Hnf.
  unfold nf_post in Hnf. cbv zeta in Hnf. rewrite H_init in Hnf. pose proof H_cons_init as Hci.
  destruct (next_frame (nf_fuel n) (rd init b) n fi) as [[r' n'] res]. destruct res as [f|e].
  - destruct Hnf as (b' & -> & Hwf' & Hok' & Hokn' & Hsf & Hr & Hl & _). rewrite Hr.
    rewrite (IH b' n' fi F Hwf' Hok' Hokn'); [|lia|lia]. rewrite Hsf. destruct (rf F (b_pend b' ++ sbytes n') (sfin n fi)) as [fs e]. reflexivity.
  - destruct e; try (destruct Hnf as (_ & _ & ->); reflexivity).
    destruct Hnf as (-> & _). reflexivity.
Qed.

(* no panic and no wedge, in both modes (stop at the first error / keep going after framing errors) *)
Theorem run_total : forall fuel resume b n fi,
  wf b -> okl (b_pend b) -> Forall okl n -> length (b_pend b ++ sbytes n) < fuel ->
  snd (run_reader fuel resume (rd init b) n fi) <> EndPanic /\ snd (run_reader fuel resume (rd init b) n fi) <> EndOutOfFuel.
Proof using All.
  induction fuel as [|fuel IH]; intros resume b n fi Hwf Hok Hokn Hfu; [lia|].
  cbn [run_reader].
  pose proof (nf_ref (nf_fuel n) init b n fi (S (length (b_pend b ++ sbytes n))) Hwf Hok Hokn H_init_ok ltac:(unfold nf_fuel; lia) ltac:(lia)) as Hnf.
  unfold nf_post in Hnf. cbv zeta in Hnf. pose proof H_cons_init as Hci.
  destruct (next_frame (nf_fuel n) (rd init b) n fi) as [[r' n'] res]. destruct res as [f|e].
  - destruct Hnf as (b' & -> & Hwf' & Hok' & Hokn' & _ & _ & Hl & _).
    specialize (IH resume b' n' fi Hwf' Hok' Hokn' ltac:(lia)). destruct (run_reader fuel resume (rd init b') n' fi) as [l e]. exact IH.
  - destruct e as [e| | | |]; try (destruct Hnf as (H1 & H2 & _); cbn [snd]; split; congruence).
    destruct Hnf as (_ & b' & -> & Hwf' & Hok' & Hokn' & Hl & _). destruct resume; [|cbn [snd]; split; discriminate].
    specialize (IH true b' n' fi Hwf' Hok' Hokn' ltac:(lia)). destruct (run_reader fuel true (rd init b') n' fi) as [l e']. exact IH.
Qed.

Corollary session_ref : forall n fi F, Forall okl n -> length (sbytes n) < F ->
  run_reader (run_fuel (rd init buf_new) n) false (rd init buf_new) n fi = liftr (rf F (sbytes n) (sfin n fi)).
Proof using All.
  intros n fi F Hokn HF. rewrite (run_ref _ buf_new n fi F); [reflexivity|apply wf_new|exact okl_nil|exact Hokn| |exact HF].
  unfold run_fuel, rd; cbn [r_buf buf_new b_pend buf_len app length]. pose proof (sbytes_le n). lia.
Qed.

(* ---- no panic, no wedge: for every schedule and every fuel that is large enough ---- *)
Corollary nf_no_panic fuel st b n fi : wf b -> okl (b_pend b) -> Forall okl n -> st_ok st -> length (concat n) < fuel ->
  snd (next_frame fuel (rd st b) n fi) <> NfEnd EndPanic /\ snd (next_frame fuel (rd st b) n fi) <> NfEnd EndOutOfFuel.
Proof using All.
  intros Hwf Hok Hokn Hst Hfu.
  pose proof (nf_ref fuel st b n fi (S (length (b_pend b ++ sbytes n))) Hwf Hok Hokn Hst Hfu ltac:(lia)) as H.
  unfold nf_post in H. destruct (next_frame fuel (rd st b) n fi) as [[r' n'] res]. cbn [snd].
  destruct res as [f|e]; [split; discriminate|]. destruct e; try (split; discriminate); destruct H as (H1 & H2 & _); congruence.
Qed.

End Generic.
