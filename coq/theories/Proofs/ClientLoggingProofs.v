(* The logging walks (Model/ClientLogging.v) never panic on well-formed data, write exactly the
   elements the decoder yields, and leave the result untouched - at every AppDecodeLevel. *)
From Coq Require Import NArith List Lia Bool Arith ZArith ZifyBool ZifyNat ZifyN.
From Rodbus Require Import Base.Outcome Base.Cursor Base.ClientTypes Model.Range Model.ClientRequest Model.ClientPaths
  Model.ClientLogging Spec.ClientCodecSpec Gen.DecodeLevels Proofs.ClientReplyProofs Proofs.ClientPathsProofs.
Import ListNotations.
Ltac Zify.zify_post_hook ::= Z.div_mod_to_equations.
Local Open Scope N_scope.
Arguments N.add : simpl never.
Arguments N.sub : simpl never.
Arguments N.mul : simpl never.
Arguments N.eqb : simpl never.
Arguments N.ltb : simpl never.
Arguments N.leb : simpl never.
Arguments N.div : simpl never.
Arguments N.modulo : simpl never.

(* what a display of `count` decoded elements must contain: the range, and at data_values every element *)
Definition bits_log (lv : app_level) (rg : N * N) (l : list (N * bool)) : list log_elem :=
  if al_data_values lv then LgRange rg :: map LgBit l else [LgRange rg].
Definition regs_log (lv : app_level) (rg : N * N) (l : list (N * N)) : list log_elem :=
  if al_data_values lv then LgRange rg :: map LgReg l else [LgRange rg].

Theorem bit_iter_display_spec lv bytes s n : range_wf (s, n) -> len bytes = bytes_for_bits n ->
  bit_iter_display lv bytes (s, n) = Ok (bits_log lv (s, n) (indexed s (bit_at bytes) n)).
Proof.
  unfold range_wf, is_u16, len. cbn [fst snd]. intros (Hs & Hn & H1 & Hov) Hl.
  unfold bit_iter_display, bits_log. cbn [fst snd]. destruct (al_data_values lv); [|reflexivity].
  rewrite (bit_collect_spec bytes s n) by (unfold is_u16; lia). reflexivity.
Qed.

Theorem reg_iter_display_spec lv bytes s n : range_wf (s, n) -> Forall is_u8 bytes -> len bytes = 2 * n ->
  reg_iter_display lv bytes (s, n) = Ok (regs_log lv (s, n) (indexed s (reg_at bytes) n)).
Proof.
  unfold range_wf, is_u16, len. cbn [fst snd]. intros (Hs & Hn & H1 & Hov) Hb Hl.
  unfold reg_iter_display, regs_log. cbn [fst snd]. destruct (al_data_values lv); [|reflexivity].
  rewrite (reg_next_collect_spec bytes s n) by (unfold is_u16; lia || assumption). reflexivity.
Qed.

(* WriteMultipleIterator: element k of the vector at address start + k *)
Fixpoint numbered {A} (start pos : N) (values : list A) : list (N * A) :=
  match values with [] => [] | v :: r => (start + pos, v) :: numbered start (pos + 1) r end.

Lemma wm_iter_spec {A} (values : list A) : forall start pos,
  start + pos + len values <= 65536 -> pos + len values <= 65535 ->
  wm_iter values start pos = Ok (numbered start pos values).
Proof.
  unfold len. induction values as [|v r IH]; intros start pos H1 H2; [reflexivity|].
  cbn [wm_iter numbered length] in *.
  destruct (N.ltb_spec 65535 (start + pos)); [lia|]. destruct (N.ltb_spec 65535 (pos + 1)); [lia|].
  rewrite IH by lia. reflexivity.
Qed.

Lemma numbered_length {A} (values : list A) : forall start pos, length (numbered start pos values) = length values.
Proof. induction values as [|v r IH]; intros; cbn; [reflexivity|now rewrite IH]. Qed.
Lemma numbered_nth {A} (values : list A) : forall start pos k d dv, (k < length values)%nat ->
  nth k (numbered start pos values) d = (start + pos + N.of_nat k, nth k values dv).
Proof.
  induction values as [|v r IH]; intros start pos k d dv H; [cbn in H; lia|].
  destruct k as [|k]; cbn [numbered nth]; [f_equal; lia|]. rewrite (IH start (pos + 1) k d dv) by (cbn in H; lia). f_equal. lia.
Qed.

(* "PDU TX": what is logged about a request the API constructed *)
Definition request_log (lv : app_level) (r : request) : list log_elem :=
  if negb (al_data_headers lv) then []
  else match r with
       | RReadCoils rg | RReadDiscreteInputs rg | RReadHoldingRegisters rg | RReadInputRegisters rg => [LgRange rg]
       | RWriteSingleCoil i v => [LgBit (i, v)]
       | RWriteSingleRegister i v => [LgReg (i, v)]
       | RWriteMultipleCoils rg vs => bits_log lv rg (numbered (fst rg) 0 vs)
       | RWriteMultipleRegisters rg vs => regs_log lv rg (numbered (fst rg) 0 vs)
       end.

Lemma build_values c r : build c = Ok r ->
  match r with
  | RWriteMultipleCoils rg vs => snd rg = len vs
  | RWriteMultipleRegisters rg vs => snd rg = len vs
  | _ => True
  end.
Proof.
  destruct c as [s n|s n|s n|s n|i v|i v|s vs|s vs]; cbn [build]; intros H.
  1,2: destruct (of_read_bits (s, n)); cbn in H; inversion H; exact I.
  1,2: destruct (of_read_registers (s, n)); cbn in H; inversion H; exact I.
  1,2: inversion H; exact I.
  1,2: unfold write_multiple_from in H; destruct (_ <? _); cbn [obind] in H; [discriminate|];
       unfold try_from in H; destruct (_ =? 0); cbn in H; [discriminate|]; destruct (_ <? s); cbn in H; [discriminate|];
       inversion H; reflexivity.
Qed.

Theorem request_display_spec lv c r : call_wf c -> build c = Ok r -> request_display lv r = Ok (request_log lv r).
Proof.
  intros Hwf Hb. pose proof (build_wf c r Hwf Hb) as Hr. pose proof (build_values c r Hb) as Hv.
  unfold request_display, request_log. destruct (negb (al_data_headers lv)); [reflexivity|].
  destruct r as [[s n]|[s n]|[s n]|[s n]|i x|i x|[s n] vs|[s n] vs]; try reflexivity;
    cbn [request_wf fst snd] in *; unfold range_wf, is_u16 in Hr; cbn [fst snd] in Hr; unfold bits_log, regs_log;
    (destruct (al_data_values lv); [|reflexivity]); rewrite wm_iter_spec by lia; reflexivity.
Qed.

(* "PDU RX": what is logged about a decoded reply *)
Definition response_log (lv : app_level) (r : request) (v : response) : list log_elem :=
  match r, v with
  | (RReadCoils rg | RReadDiscreteInputs rg), RespBits l => if al_enabled lv then bits_log lv rg l else []
  | (RReadHoldingRegisters rg | RReadInputRegisters rg), RespRegisters l => if al_enabled lv then regs_log lv rg l else []
  | _, _ => echo_log lv v
  end.

Lemma bits_logged_closed lv s n rest : range_wf (s, n) ->
  bits_response_logged lv (s, n) rest =
  match parse_bits_response (s, n) rest with
  | Ok v => Ok (v, match v with RespBits l => if al_enabled lv then bits_log lv (s, n) l else [] | _ => [] end)
  | Err e => Err e
  | Panic => Panic
  end.
Proof.
  intros Hwf. rewrite parse_bits_closed by assumption.
  unfold range_wf, is_u16 in Hwf. cbn [fst snd] in Hwf. destruct Hwf as (Hs & Hn & H1 & Hov).
  unfold bits_response_logged. destruct rest as [|bc data]; [reflexivity|].
  cbn [rd_u8 R of_option obind fst snd].
  rewrite (read_exact (N.to_nat (num_bytes_for_bits n)) data
             (fun bytes => obind (if al_enabled lv then bit_iter_display lv bytes (s, n) else Ok [])
                (fun lg => obind (bit_collect (N.to_nat n) bytes s n 0) (fun l => Ok (RespBits l, lg))))).
  unfold num_bytes_for_bits, len, bytes_for_bits in *.
  destruct (Nat.ltb_spec (length data) (N.to_nat ((n + 7) / 8))), (N.ltb_spec (N.of_nat (length data)) ((n + 7) / 8)); try lia; [reflexivity|].
  destruct (Nat.ltb_spec (N.to_nat ((n + 7) / 8)) (length data)), (N.ltb_spec ((n + 7) / 8) (N.of_nat (length data))); try lia; [reflexivity|].
  rewrite (bit_collect_spec data s n) by (unfold is_u16, bytes_for_bits; lia).
  destruct (al_enabled lv); [|reflexivity].
  rewrite bit_iter_display_spec by (unfold range_wf, is_u16, len, bytes_for_bits; cbn [fst snd]; lia). reflexivity.
Qed.

Lemma registers_logged_closed lv s n rest : range_wf (s, n) -> Forall is_u8 rest ->
  registers_response_logged lv (s, n) rest =
  match parse_registers_response (s, n) rest with
  | Ok v => Ok (v, match v with RespRegisters l => if al_enabled lv then regs_log lv (s, n) l else [] | _ => [] end)
  | Err e => Err e
  | Panic => Panic
  end.
Proof.
  intros Hwf Hb. rewrite parse_registers_closed by assumption.
  unfold range_wf, is_u16 in Hwf. cbn [fst snd] in Hwf. destruct Hwf as (Hs & Hn & H1 & Hov).
  unfold registers_response_logged. destruct rest as [|bc data]; [reflexivity|].
  inversion Hb as [|? ? _ Hd]; subst.
  cbn [rd_u8 R of_option obind fst snd].
  rewrite (read_exact (2 * N.to_nat n) data
             (fun bytes => obind (if al_enabled lv then reg_iter_display lv bytes (s, n) else Ok [])
                (fun lg => obind (reg_collect bytes s 0) (fun l => Ok (RespRegisters l, lg))))).
  unfold len.
  destruct (Nat.ltb_spec (length data) (2 * N.to_nat n)), (N.ltb_spec (N.of_nat (length data)) (2 * n)); try lia; [reflexivity|].
  destruct (Nat.ltb_spec (2 * N.to_nat n) (length data)), (N.ltb_spec (2 * n) (N.of_nat (length data))); try lia; [reflexivity|].
  rewrite (reg_collect_spec s (N.to_nat n)) by lia.
  assert (Hidx : map (fun k => (s + 0 + N.of_nat k, reg_at data k)) (seq 0 (N.to_nat n)) = indexed s (reg_at data) n).
  { unfold indexed. apply map_ext. intros k. f_equal. lia. }
  rewrite Hidx. destruct (al_enabled lv); [|reflexivity].
  rewrite reg_iter_display_spec by (unfold range_wf, is_u16, len; cbn [fst snd]; try assumption; lia). reflexivity.
Qed.

(* handle_response with its logging = handle_response, plus exactly the expected log; in
   particular the log walk never panics and never changes the result *)
Theorem handle_response_logged_spec lv r pdu : request_wf r -> Forall is_u8 pdu ->
  handle_response_logged lv r pdu =
  match handle_response r pdu with
  | Ok v => Ok (v, response_log lv r v)
  | Err e => Err e
  | Panic => Panic
  end.
Proof.
  intros Hwf Hb. unfold handle_response_logged, handle_response. destruct pdu as [|f rest]; [reflexivity|].
  inversion Hb as [|? ? _ Hr]; subst. cbn [rd_u8]. destruct (negb _); [reflexivity|].
  destruct r as [[s n]|[s n]|[s n]|[s n]|i x|i x|[s n] vs|[s n] vs];
    cbn [details_handle_response_logged details_handle_response request_wf] in *.
  1,2: rewrite bits_logged_closed by assumption; destruct (parse_bits_response (s, n) rest) as [v|e|] eqn:E; try reflexivity;
       rewrite parse_bits_closed in E by assumption; destruct rest as [|bc data]; [discriminate|];
       destruct (_ <? _); [discriminate|]; destruct (_ <? _); [discriminate|]; inversion E; reflexivity.
  1,2: rewrite registers_logged_closed by assumption; destruct (parse_registers_response (s, n) rest) as [v|e|] eqn:E; try reflexivity;
       rewrite parse_registers_closed in E by assumption; destruct rest as [|bc data]; [discriminate|];
       destruct (_ <? _); [discriminate|]; destruct (_ <? _); [discriminate|]; inversion E; reflexivity.
  - destruct (parse_single_coil i x rest) as [v|e|] eqn:E; cbn [obind]; reflexivity.
  - destruct (parse_single_register i x rest) as [v|e|] eqn:E; cbn [obind]; reflexivity.
  - destruct (parse_multiple (s, n) rest) as [v|e|] eqn:E; cbn [obind]; reflexivity.
  - destruct (parse_multiple (s, n) rest) as [v|e|] eqn:E; cbn [obind]; reflexivity.
Qed.

Corollary logging_no_panic lv r pdu : request_wf r -> Forall is_u8 pdu -> handle_response_logged lv r pdu <> Panic.
Proof.
  intros Hwf Hb. rewrite handle_response_logged_spec by assumption.
  pose proof (response_total r pdu Hwf) as Ht. destruct (handle_response r pdu); [discriminate|discriminate|contradiction].
Qed.

Corollary logging_no_effect lv lv' r pdu : request_wf r -> Forall is_u8 pdu ->
  omap fst (handle_response_logged lv r pdu) = omap fst (handle_response_logged lv' r pdu) /\
  omap fst (handle_response_logged lv r pdu) = handle_response r pdu.
Proof.
  intros Hwf Hb. rewrite !handle_response_logged_spec by assumption. destruct (handle_response r pdu); split; reflexivity.
Qed.

(* format_bytes prints every byte once, in order, 18 per line *)
Lemma format_bytes_aux_concat : forall fuel bytes, (length bytes <= fuel)%nat -> concat (format_bytes_aux fuel bytes) = bytes.
Proof.
  induction fuel as [|f IH]; intros bytes H; [destruct bytes; [reflexivity|cbn in H; lia]|].
  destruct bytes as [|b rest]; [reflexivity|].
  change (format_bytes_aux (S f) (b :: rest)) with (firstn 18 (b :: rest) :: format_bytes_aux f (skipn 18 (b :: rest))).
  cbn [concat]. rewrite IH; [apply firstn_skipn|]. rewrite skipn_length. cbn [length] in *. lia.
Qed.
Theorem format_bytes_concat bytes : concat (format_bytes bytes) = bytes.
Proof. apply format_bytes_aux_concat. lia. Qed.
