(* Proofs for C11: transaction ids, FIFO, one outstanding request, mismatch / idle drop. *)
From Coq Require Import NArith List Bool Arith Lia Permutation ZArith ZifyBool ZifyNat ZifyN.
From Rodbus Require Import Model.Retry Spec.Lifecycle Spec.ClientSpec Gen.SessionErrors Model.ClientTask Proofs.ClientBase.
Import ListNotations.
Local Open Scope N_scope.
Ltac Zify.zify_post_hook ::= Z.div_mod_to_equations.

(* ---------- TxId::next ---------- *)
Lemma txid_next_spec v : v < 65536 ->
  snd (txid_next v) = v /\ fst (txid_next v) = (v + 1) mod 65536 /\ fst (txid_next v) < 65536.
Proof.
  intros H. unfold txid_next, txid_max. destruct (N.eqb_spec v 65535) as [->|Hn]; cbn [fst snd].
  - repeat split; reflexivity.
  - rewrite N.mod_small by lia. repeat split; lia.
Qed.

(* for every n : N (no bound): n calls of next starting from 0 leave the counter at n mod 2^16 *)
Lemma txid_iter : forall n : N, N.iter n (fun v => fst (txid_next v)) 0 = txid_spec n.
Proof.
  intros n. unfold txid_spec. induction n using N.peano_ind.
  - reflexivity.
  - rewrite N.iter_succ, IHn.
    destruct (txid_next_spec (n mod 65536)) as (_ & E & _); [apply N.mod_upper_bound; lia|].
    rewrite E, N.add_mod_idemp_l by lia. f_equal. lia.
Qed.

Fixpoint count_from (v : N) (n : nat) : list N :=
  match n with O => [] | S n => v :: count_from ((v + 1) mod 65536) n end.
Lemma count_from_nth : forall n v k t, v < 65536 -> nth_error (count_from v n) k = Some t -> t = (v + N.of_nat k) mod 65536.
Proof.
  induction n as [|n IH]; intros v k t Hv; destruct k; cbn; try discriminate.
  - intros E; inversion E; subst. rewrite N.add_0_r, N.mod_small; lia.
  - intros E. apply IH in E; [|apply N.mod_upper_bound; lia]. rewrite E, N.add_mod_idemp_l by lia. f_equal. lia.
Qed.

(* ---------- Subseq ---------- *)
Lemma subseq_refl {A} (l : list A) : Subseq l l.
Proof. induction l; constructor; assumption. Qed.
Lemma subseq_app_l {A} (x a : list A) : Subseq a (x ++ a).
Proof. induction x; cbn; [apply subseq_refl|constructor; assumption]. Qed.
Lemma subseq_app_r {A} (a l m : list A) : Subseq a l -> Subseq a (l ++ m).
Proof. induction 1; cbn; constructor; assumption. Qed.
Lemma subseq_app_same {A} (a b c : list A) : Subseq a b -> Subseq (a ++ c) (b ++ c).
Proof. induction 1; cbn; [apply subseq_app_l|constructor; assumption|constructor; assumption]. Qed.
Lemma subseq_app_head {A} (w a b : list A) : Subseq a b -> Subseq (w ++ a) (w ++ b).
Proof. induction w; cbn; [auto|constructor; auto]. Qed.
Lemma subseq_trans {A} (a b c : list A) : Subseq a b -> Subseq b c -> Subseq a c.
Proof.
  intros Hab Hbc. revert a Hab. induction Hbc as [l|x b l Hbc IH|x b l Hbc IH]; intros a Hab.
  - inversion Hab; subst. constructor.
  - inversion Hab; subst; [constructor|constructor; auto|apply sub_skip; auto].
  - apply sub_skip; auto.
Qed.
Lemma subseq_nil_l {A} (l : list A) : Subseq [] l.
Proof. constructor. Qed.

(* ---------- per-step laws ---------- *)
Definition tx_law (s s' : state) (o : list output) : Prop :=
  (stamps o = [] /\ txid s' = txid s) \/
  (stamps o = [snd (txid_next (txid s))] /\ txid s' = fst (txid_next (txid s))).

Definition writing (p : phase) : list nat := match p with PWriting r _ _ => [rq_id r] | _ => [] end.
Definition waiting (s : state) : list nat := writing (ph s) ++ queued (queue s) ++ queued (blocked s).
Definition submitted_of (e : event) : list nat := match e with EvSubmit (CReq r) _ => [rq_id r] | _ => [] end.
Definition fifo_law (s s' : state) (o : list output) (new : list nat) : Prop :=
  Subseq (wire_ids o ++ waiting s') (waiting s ++ new).

(* at most one request is written per step, and only into PInFlight *)
Definition wire_law (s s' : state) (o : list output) : Prop :=
  wire_ids o = [] \/
  (exists r tx d, wire_ids o = [rq_id r] /\ ph s' = PInFlight r tx d /\ d = now s + rq_timeout r /\
                  (ph s = PIdle \/ exists u, ph s = PWriting r tx u) /\ completed o = [] /\
                  (forall tx' id', In (OWire tx' id') o -> tx' = tx /\ id' = rq_id r) /\
                  (ph s = PIdle -> In (OStamp tx (rq_id r)) o)).

Definition laws (s s' : state) (o : list output) (new : list nat) : Prop :=
  tx_law s s' o /\ fifo_law s s' o new /\ wire_law s s' o.

Lemma summary_laws s s' o ids new : summary s s' o ids -> laws s s' o new.
Proof.
  intros (Hi & Hw & Hs & Ht & Hh & H). split; [left; auto|]. split; [|left; exact Hw].
  unfold fifo_law, waiting. rewrite Hw. cbn [app].
  assert (Hwr : writing (ph s') = []) by (destruct (ph s'); try reflexivity; discriminate).
  rewrite Hwr. cbn [app]. apply subseq_app_r.
  destruct H as [(_ & -> & -> & _)|(_ & -> & -> & _)]; [apply subseq_app_l|constructor].
Qed.

Lemma laws_pre_state s0 s s' o new :
  txid s0 = txid s -> waiting s0 = waiting s -> ph s0 = ph s -> now s0 = now s -> laws s0 s' o new -> laws s s' o new.
Proof. unfold laws, tx_law, fifo_law, wire_law. intros -> -> -> ->. auto. Qed.

Section Laws.
Variable cfg : config.

Lemma transmit_laws s r : ph s = PIdle ->
  let '(s', o) := transmit s r in
  tx_law s s' o /\ Subseq (wire_ids o ++ waiting s') (rq_id r :: waiting s) /\ wire_law s s' o.
Proof.
  intros Hp. unfold transmit. destruct (txid_next (txid s)) as [v' tx] eqn:E.
  assert (Hw0 : waiting (set_txid s v') = waiting s) by reflexivity.
  assert (Hfin : forall s0 res pre, txid s0 = v' -> queue s0 = queue s -> blocked s0 = blocked s -> wire_ids pre = [] -> stamps pre = [tx] ->
            let '(s', o) := finish s0 r res in
            tx_law s s' (pre ++ o) /\ Subseq (wire_ids (pre ++ o) ++ waiting s') (rq_id r :: waiting s) /\ wire_law s s' (pre ++ o)).
  { intros s0 res pre Ht Hq Hb Hpw Hps. pose proof (finish_summary s0 r res) as H. destruct (finish s0 r res) as [s' o].
    destruct H as (Hi & Hw & Hs & Ht' & Hh & H). rewrite wire_ids_app, Hpw, Hw. split; [|split; [|left; rewrite wire_ids_app, Hpw, Hw; reflexivity]].
    - right. rewrite stamps_app, Hps, Hs, E. cbn. split; [reflexivity|congruence].
    - cbn [app]. apply sub_skip. unfold waiting. rewrite Hp. cbn [writing app].
      assert (Hwr : writing (ph s') = []) by (destruct (ph s'); try reflexivity; discriminate). rewrite Hwr. cbn [app].
      destruct H as [(_ & -> & -> & _)|(_ & -> & -> & _)]; [rewrite Hq, Hb; apply subseq_refl|constructor]. }
  destruct (rq_kind r).
  - destruct (wfail (set_txid s v')) eqn:Ef.
    + specialize (Hfin (set_wctl (set_txid s v') false 0) (RErr ReIo) [OStamp tx (rq_id r); OWireFail tx (rq_id r)]).
      destruct (finish _ r (RErr ReIo)) as [s' o]. apply Hfin; reflexivity.
    + destruct (write_now (set_txid s v')).
      * split; [right; rewrite E; split; reflexivity|]. split.
        -- unfold waiting. cbn. rewrite Hp. cbn. apply subseq_refl.
        -- right. exists r, tx, (now (set_txid s v') + rq_timeout r). split; [reflexivity|]. split; [reflexivity|]. split; [reflexivity|].
           split; [left; exact Hp|]. split; [reflexivity|]. split; [|intros _; left; reflexivity].
           intros tx' id' [X|[X|[]]]; [discriminate|inversion X; auto].
      * split; [right; rewrite E; split; reflexivity|]. split; [|left; reflexivity].
        unfold waiting. cbn. rewrite Hp. cbn. apply subseq_refl.
  - specialize (Hfin (set_txid s v') (RErr ReBadRequest) [OStamp tx (rq_id r)]).
    destruct (finish _ r (RErr ReBadRequest)) as [s' o]. apply Hfin; reflexivity.
Qed.

Lemma laws_quiet s s' : txid s' = txid s -> waiting s' = waiting s -> laws s s' [] [].
Proof.
  intros Ht Hw. split; [left; auto|]. split; [|left; reflexivity]. unfold fifo_law. rewrite Hw, app_nil_r. apply subseq_refl.
Qed.

Lemma laws_complete_only s s' o : txid s' = txid s -> waiting s' = waiting s -> wire_ids o = [] -> stamps o = [] -> laws s s' o [].
Proof.
  intros Ht Hw Hwi Hs. split; [left; auto|]. split; [|left; exact Hwi]. unfold fifo_law. rewrite Hw, Hwi, app_nil_r. apply subseq_refl.
Qed.

(* one command taken from the queue *)
Lemma take_laws s c : listens (ph s) = true ->
  let '(s', o) := take s c in
  tx_law s s' o /\ Subseq (wire_ids o ++ waiting s') (queued [c] ++ waiting s) /\ wire_law s s' o.
Proof.
  intros Hl. unfold take.
  assert (Hsum : forall s0 s' o ids, txid s0 = txid s -> queue s0 = queue s -> blocked s0 = blocked s -> writing (ph s) = [] ->
            summary s0 s' o ids -> tx_law s s' o /\ Subseq (wire_ids o ++ waiting s') (queued [c] ++ waiting s) /\ wire_law s s' o).
  { intros s0 s' o ids Ht Hq Hb Hwr (Hi & Hw & Hs & Ht' & Hh & H). split; [left; split; congruence|]. split; [|left; exact Hw].
    rewrite Hw. cbn [app]. unfold waiting. rewrite Hwr.
    assert (Hwr' : writing (ph s') = []) by (destruct (ph s'); try reflexivity; discriminate). rewrite Hwr'. cbn [app].
    destruct H as [(_ & -> & -> & _)|(_ & -> & -> & _)]; [rewrite Hq, Hb; apply subseq_app_l|constructor]. }
  assert (Hq0 : forall s' o, txid s' = txid s -> waiting s' = waiting s -> wire_ids o = [] -> stamps o = [] ->
            tx_law s s' o /\ Subseq (wire_ids o ++ waiting s') (queued [c] ++ waiting s) /\ wire_law s s' o).
  { intros s' o Ht Hw Hwi Hs. split; [left; auto|]. split; [|left; exact Hwi]. rewrite Hwi, Hw. apply subseq_app_l. }
  destruct (ph s) eqn:Eph; try discriminate.
  - (* PWaitEnabled *) destruct c as [r| | |l|].
    + apply Hq0; reflexivity.
    + cbn. apply Hq0; try reflexivity. unfold waiting. cbn. rewrite Eph. reflexivity.
    + cbn. apply Hq0; reflexivity.
    + cbn. destruct (enabled s); apply Hq0; try reflexivity. unfold waiting. cbn. rewrite Eph. reflexivity.
    + pose proof (terminate_summary s []) as H. destruct (terminate s []) as [s' o].
      apply (Hsum s s' o (completed []) eq_refl eq_refl eq_refl); [reflexivity|apply H; split; reflexivity].
  - (* PConnecting *) destruct c as [r| | |l|].
    + apply Hq0; reflexivity.
    + cbn. apply Hq0; reflexivity.
    + cbn. pose proof (loop_top_summary (set_enabled s false)) as H. destruct (loop_top _) as [s' o].
      apply (Hsum (set_enabled s false) s' o [] eq_refl eq_refl eq_refl); [reflexivity|exact H].
    + cbn. destruct (enabled s) eqn:Ee.
      * apply Hq0; reflexivity.
      * pose proof (loop_top_summary (set_decode s l)) as H. destruct (loop_top _) as [s' o].
        apply (Hsum (set_decode s l) s' o [] eq_refl eq_refl eq_refl); [reflexivity|exact H].
    + pose proof (terminate_summary s []) as H. destruct (terminate s []) as [s' o].
      apply (Hsum s s' o (completed []) eq_refl eq_refl eq_refl); [reflexivity|apply H; split; reflexivity].
  - (* PIdle *) destruct c as [r| | |l|].
    + pose proof (transmit_laws s r Eph) as H. destruct (transmit s r) as [s' o]. exact H.
    + cbn. apply Hq0; reflexivity.
    + cbn. pose proof (end_session_summary (set_enabled s false) SeDisabled) as H. destruct (end_session _ _) as [s' o].
      apply (Hsum (set_enabled s false) s' o [] eq_refl eq_refl eq_refl); [reflexivity|apply H; cbn; rewrite Eph; reflexivity].
    + cbn. destruct (enabled s) eqn:Ee.
      * apply Hq0; reflexivity.
      * pose proof (end_session_summary (set_decode s l) SeDisabled) as H. destruct (end_session _ _) as [s' o].
        apply (Hsum (set_decode s l) s' o [] eq_refl eq_refl eq_refl); [reflexivity|apply H; cbn; rewrite Eph; reflexivity].
    + pose proof (end_session_summary s SeShutdown) as H. destruct (end_session _ _) as [s' o].
      apply (Hsum s s' o [] eq_refl eq_refl eq_refl); [reflexivity|apply H; rewrite Eph; reflexivity].
  - (* PWaiting *) destruct c as [r| | |l|].
    + apply Hq0; reflexivity.
    + cbn. apply Hq0; reflexivity.
    + cbn. pose proof (loop_top_summary (set_enabled s false)) as H. destruct (loop_top _) as [s' o].
      apply (Hsum (set_enabled s false) s' o [] eq_refl eq_refl eq_refl); [reflexivity|exact H].
    + cbn. destruct (enabled s) eqn:Ee.
      * apply Hq0; reflexivity.
      * pose proof (loop_top_summary (set_decode s l)) as H. destruct (loop_top _) as [s' o].
        apply (Hsum (set_decode s l) s' o [] eq_refl eq_refl eq_refl); [reflexivity|exact H].
    + pose proof (terminate_summary s []) as H. destruct (terminate s []) as [s' o].
      apply (Hsum s s' o (completed []) eq_refl eq_refl eq_refl); [reflexivity|apply H; split; reflexivity].
Qed.


Lemma laws_nochange s s' o new : txid s' = txid s -> waiting s' = waiting s -> wire_ids o = [] -> stamps o = [] -> laws s s' o new.
Proof.
  intros Ht Hw Hwi Hs. split; [left; auto|]. split; [|left; exact Hwi]. unfold fifo_law. rewrite Hw, Hwi. cbn [app].
  apply subseq_app_r, subseq_refl.
Qed.

Ltac by_summary H := eapply summary_laws; exact H.

Lemma on_frame_laws s tx k : let '(s', o) := on_frame s tx k in laws s s' o [].
Proof.
  unfold on_frame. destruct (ph s) eqn:Eph; try (apply laws_nochange; reflexivity).
  destruct (tx =? tx0); [|apply laws_nochange; reflexivity].
  pose proof (finish_summary s r (respond k)) as H. destruct (finish s r (respond k)) as [s' o]. by_summary H.
Qed.

Lemma on_read_error_laws s e : let '(s', o) := on_read_error s e in laws s s' o [].
Proof.
  unfold on_read_error. destruct (ph s) eqn:Eph; try (apply laws_nochange; reflexivity).
  - destruct (from_request_err e) as [se|]; [|apply laws_nochange; reflexivity].
    pose proof (end_session_summary s se) as H. destruct (end_session s se) as [s' o]. rewrite Eph in H. by_summary (H eq_refl).
  - pose proof (finish_summary s r (RErr e)) as H. destruct (finish s r (RErr e)) as [s' o]. by_summary H.
Qed.

Lemma written_laws s r tx u : ph s = PWriting r tx u -> let '(s', o) := written s r tx in laws s s' o [].
Proof.
  intros Eph. unfold written. split; [left; split; reflexivity|]. split.
  * unfold fifo_law, waiting. cbn. rewrite Eph. cbn. rewrite app_nil_r. apply subseq_refl.
  * right. exists r, tx, (now s + rq_timeout r). split; [reflexivity|]. split; [reflexivity|]. split; [reflexivity|].
    split; [right; exists u; exact Eph|]. split; [reflexivity|]. split; [|intros X; rewrite Eph in X; discriminate].
    intros tx' id' [X|[]]. inversion X; auto.
Qed.

Theorem step_laws s e : let '(s', o) := step cfg s e in laws s s' o (submitted_of e).
Proof.
  destruct e as [c st| | |ok|tx k|tx k| | | | | |dt| |dt| | |k| ]; cbn [step submitted_of].
  - (* submit *)
    assert (Hsub : submitted_of (EvSubmit c st) = queued [c]) by (destruct c; reflexivity).
    cbn [submitted_of] in Hsub. rewrite Hsub. clear Hsub.
    assert (Hdrop : laws s s (drop_queue [c]) (queued [c])).
    { apply laws_nochange; try reflexivity; [apply wire_ids_drop|apply stamps_drop]. }
    assert (Hnone : laws s s [] (queued [c])) by (apply laws_nochange; reflexivity).
    assert (Hlive : (let '(s', o) :=
      if is_nil (blocked s) && Nat.ltb (length (queue s)) (cfg_cap cfg) then (set_chan s (queue s ++ [c]) (blocked s), [])
      else match st with SFfi => (s, drop_queue [c]) | _ => (set_chan s (queue s) (blocked s ++ [c]), []) end in laws s s' o (queued [c]))).
    { destruct (is_nil (blocked s) && Nat.ltb (length (queue s)) (cfg_cap cfg)) eqn:Eq.
      - apply andb_prop in Eq. destruct Eq as [Eb _]. destruct (blocked s) eqn:Ebl; [|discriminate].
        split; [left; split; reflexivity|]. split; [|left; reflexivity]. unfold fifo_law, waiting. cbn. rewrite Ebl.
        rewrite queued_app. change (queued []) with (@nil nat). rewrite !app_nil_r, <- app_assoc. apply subseq_refl.
      - assert (Hb : laws s (set_chan s (queue s) (blocked s ++ [c])) [] (queued [c])).
        { split; [left; split; reflexivity|]. split; [|left; reflexivity]. unfold fifo_law, waiting. cbn.
          rewrite queued_app, <- !app_assoc. apply subseq_refl. }
        destruct st; [exact Hb|exact Hb|exact Hdrop]. }
    destruct (Nat.eqb (handles s) 0); [exact Hnone|].
    destruct (ph s); try exact Hlive. exact Hdrop.
  - (* drop handle *) apply laws_nochange; reflexivity.
  - (* recv *)
    destruct (listens (ph s)) eqn:El; [|apply laws_nochange; reflexivity].
    destruct (queue s) as [|c q] eqn:Eq.
    + destruct (closed s); [|apply laws_nochange; reflexivity].
      destruct (ph s) eqn:Eph; try discriminate.
      1,2,4: (pose proof (terminate_summary s []) as H; destruct (terminate s []) as [s' o]; by_summary (H (conj eq_refl eq_refl))).
      pose proof (end_session_summary s SeShutdown) as H. destruct (end_session s SeShutdown) as [s' o]. rewrite Eph in H. by_summary (H eq_refl).
    + set (s1 := set_chan s (q ++ firstn 1 (blocked s)) (skipn 1 (blocked s))).
      pose proof (take_laws s1 c El) as H. destruct (take s1 c) as [s' o]. destruct H as (Ht & Hf & Hw).
      assert (Hwait : queued [c] ++ waiting s1 = waiting s).
      { unfold waiting, s1. cbn [ph queue blocked set_chan]. rewrite Eq.
        assert (Hwr : writing (ph s) = []) by (destruct (ph s); try reflexivity; discriminate).
        rewrite Hwr. cbn [app]. rewrite (queued_cons c q), queued_app, <- !app_assoc, firstn_skipn_queued.
        rewrite (queued_cons c []). change (queued []) with (@nil nat). rewrite app_nil_r. reflexivity. }
      split; [exact Ht|]. split; [|exact Hw]. unfold fifo_law. rewrite app_nil_r, <- Hwait. exact Hf.
  - (* connect *)
    destruct (ph s) eqn:Eph; try (apply laws_nochange; reflexivity). destruct ok.
    + destruct (retry_call s Reset) as [[s1 d]|] eqn:Er.
      * apply retry_call_frame in Er. destruct Er as (Hp & Hq & Hb & Ht & _).
        apply laws_nochange; try reflexivity; [exact Ht|]. unfold waiting. cbn. rewrite Hq, Hb, Eph. reflexivity.
      * pose proof (crash_summary s) as H. destruct (crash s) as [s' o]. by_summary H.
    + pose proof (wait_for_summary s LWaitFailed Fail []) as H. destruct (wait_for s LWaitFailed Fail []) as [s' o].
      rewrite Eph in H. by_summary (H eq_refl (conj eq_refl eq_refl)).
  - (* frame *)
    destruct (reading (ph s)); [|apply laws_nochange; reflexivity]. destruct (partial s); [apply laws_nochange; reflexivity|].
    apply on_frame_laws.
  - (* head *)
    destruct (reading (ph s)); [|apply laws_nochange; reflexivity]. destruct (partial s); apply laws_nochange; reflexivity.
  - (* tail *)
    destruct (reading (ph s)); [|apply laws_nochange; reflexivity]. destruct (partial s) as [[tx k]|]; [|apply laws_nochange; reflexivity].
    pose proof (on_frame_laws (set_partial s None) tx k) as H. destruct (on_frame (set_partial s None) tx k) as [s' o].
    eapply laws_pre_state; [| | | |exact H]; reflexivity.
  - (* garbage *)
    destruct (reading (ph s)); [|apply laws_nochange; reflexivity]. destruct (partial s); [apply laws_nochange; reflexivity|].
    apply on_read_error_laws.
  - destruct (reading (ph s)); [|apply laws_nochange; reflexivity]. apply on_read_error_laws.
  - destruct (reading (ph s)); [|apply laws_nochange; reflexivity]. apply on_read_error_laws.
  - apply laws_nochange; reflexivity.
  - apply laws_nochange; reflexivity.
  - (* timer *)
    destruct (ph s) eqn:Eph; try (apply laws_nochange; reflexivity).
    + destruct (Nat.eqb (wpark s) 0 && (fire cfg until <=? now s)); [apply (written_laws s r tx until Eph)|].
      destruct (fire cfg (wdl s) <=? now s); [|apply laws_nochange; reflexivity].
      pose proof (finish_summary s r (RErr write_timeout_error)) as H. destruct (finish s r (RErr write_timeout_error)) as [s' o]. by_summary H.
    + destruct (fire cfg deadline <=? now s); [|apply laws_nochange; reflexivity].
      pose proof (finish_summary s r (RErr deadline_error)) as H. destruct (finish s r (RErr deadline_error)) as [s' o]. by_summary H.
    + destruct (fire cfg until <=? now s); [|apply laws_nochange; reflexivity].
      pose proof (loop_top_summary s) as H. destruct (loop_top s) as [s' o]. by_summary H.
  - apply laws_nochange; reflexivity.
  - (* abort *)
    destruct (ph s) eqn:Eph; try (pose proof (crash_summary s) as H; destruct (crash s) as [s' o]; by_summary H).
    apply laws_nochange; reflexivity.
  - apply laws_nochange; reflexivity.
  - apply laws_nochange; reflexivity.
  - (* release *)
    destruct (wpark s) as [|n]; [apply laws_nochange; reflexivity|]. cbn [ph set_wpark].
    destruct (ph s) eqn:Eph; try (apply laws_nochange; reflexivity).
    destruct (Nat.eqb n 0 && _); [|apply laws_nochange; reflexivity].
    pose proof (written_laws (set_wpark s n) r tx until Eph) as H. destruct (written (set_wpark s n) r tx) as [s' o].
    eapply laws_pre_state; [| | | |exact H]; reflexivity.
Qed.


(* a request is in flight after a step only if it was already, or if this step wrote it *)
Definition enters (s s' : state) (o : list output) : Prop :=
  forall r tx d, ph s' = PInFlight r tx d -> ph s = PInFlight r tx d \/ wire_ids o = [rq_id r].

Lemma enters_same s s' o : ph s' = ph s -> enters s s' o.
Proof. intros Hp r tx d H. left. rewrite <- Hp. exact H. Qed.
Lemma enters_nil s s' o : inflight (ph s') = [] -> enters s s' o.
Proof. intros Hi r tx d H. rewrite H in Hi. discriminate. Qed.

Lemma transmit_enters s r : let '(s', o) := transmit s r in enters s s' o.
Proof.
  unfold transmit. destruct (txid_next (txid s)) as [v' tx]. destruct (rq_kind r).
  - destruct (wfail (set_txid s v')).
    + pose proof (finish_summary (set_wctl (set_txid s v') false 0) r (RErr ReIo)) as H. destruct (finish _ r (RErr ReIo)) as [s' o].
      apply enters_nil; exact (proj1 H).
    + destruct (write_now (set_txid s v')).
      * intros r0 tx0 d0 H. cbn in H. inversion H; subst. right. reflexivity.
      * intros r0 tx0 d0 H. discriminate H.
  - pose proof (finish_summary (set_txid s v') r (RErr ReBadRequest)) as H. destruct (finish _ r (RErr ReBadRequest)) as [s' o].
    apply enters_nil; exact (proj1 H).
Qed.

Lemma take_enters s0 s c : ph s0 = ph s -> listens (ph s) = true -> let '(s', o) := take s0 c in enters s s' o.
Proof.
  intros Hp Hl. unfold take. rewrite Hp.
  assert (Hterm : forall x pre, silent pre -> let '(s', o) := terminate x pre in enters s s' o).
  { intros x pre Hs. pose proof (terminate_summary x pre Hs) as H. destruct (terminate x pre) as [s' o]. apply enters_nil; exact (proj1 H). }
  assert (Hloop : forall x, let '(s', o) := loop_top x in enters s s' o).
  { intros x. pose proof (loop_top_summary x) as H. destruct (loop_top x) as [s' o]. apply enters_nil; exact (proj1 H). }
  assert (Hends : forall x se, inflight (ph x) = [] -> let '(s', o) := end_session x se in enters s s' o).
  { intros x se Hi. pose proof (end_session_summary x se Hi) as H. destruct (end_session x se) as [s' o]. apply enters_nil; exact (proj1 H). }
  assert (Hno : forall x o, listens (ph x) = true -> enters s x o).
  { intros x o Hx r tx d H. rewrite H in Hx. discriminate. }
  destruct (ph s) eqn:Eph; try discriminate.
  - destruct c as [r| | |l|]; cbn [change_setting].
    + apply Hno. rewrite Hp. reflexivity.
    + cbn [enabled set_enabled]. apply Hno. reflexivity.
    + cbn [enabled set_enabled]. apply Hno. cbn. rewrite Hp. reflexivity.
    + cbn [enabled set_decode]. destruct (enabled s0); apply Hno; cbn; rewrite ?Hp; reflexivity.
    + apply (Hterm s0 []). split; reflexivity.
  - destruct c as [r| | |l|]; cbn [change_setting].
    + apply Hno. rewrite Hp. reflexivity.
    + cbn [enabled set_enabled]. apply Hno. cbn. rewrite Hp. reflexivity.
    + cbn [enabled set_enabled]. apply Hloop.
    + cbn [enabled set_decode]. destruct (enabled s0); [apply Hno; cbn; rewrite Hp; reflexivity|apply Hloop].
    + apply (Hterm s0 []). split; reflexivity.
  - destruct c as [r| | |l|]; cbn [change_setting].
    + pose proof (transmit_enters s0 r) as H. destruct (transmit s0 r) as [s' o]. intros r0 tx d E. destruct (H r0 tx d E) as [H1|H1]; [|right; exact H1].
      rewrite Hp in H1. discriminate.
    + cbn [enabled set_enabled]. apply Hno. cbn. rewrite Hp. reflexivity.
    + cbn [enabled set_enabled]. apply Hends. cbn. rewrite Hp. reflexivity.
    + cbn [enabled set_decode]. destruct (enabled s0); [apply Hno; cbn; rewrite Hp; reflexivity|apply Hends; cbn; rewrite Hp; reflexivity].
    + apply Hends. rewrite Hp. reflexivity.
  - destruct c as [r| | |l|]; cbn [change_setting].
    + apply Hno. rewrite Hp. reflexivity.
    + cbn [enabled set_enabled]. apply Hno. cbn. rewrite Hp. reflexivity.
    + cbn [enabled set_enabled]. apply Hloop.
    + cbn [enabled set_decode]. destruct (enabled s0); [apply Hno; cbn; rewrite Hp; reflexivity|apply Hloop].
    + apply (Hterm s0 []). split; reflexivity.
Qed.

Theorem step_enters s e : let '(s', o) := step cfg s e in enters s s' o.
Proof.
  destruct e as [c st| | |ok|tx k|tx k| | | | | |dt| |dt| | |k| ]; cbn [step]; try (apply enters_same; reflexivity).
  - destruct (Nat.eqb (handles s) 0); [apply enters_same; reflexivity|].
    destruct (ph s) eqn:Eph; try (apply enters_same; reflexivity);
    (destruct (_ && _); [apply enters_same; reflexivity|]; destruct st; apply enters_same; reflexivity).
  - destruct (listens (ph s)) eqn:El; [|apply enters_same; reflexivity].
    destruct (queue s) as [|c q].
    + destruct (closed s); [|apply enters_same; reflexivity].
      destruct (ph s) eqn:Eph; try discriminate;
        try (pose proof (terminate_summary s [] (conj eq_refl eq_refl)) as H; destruct (terminate s []) as [s' o]; apply enters_nil; exact (proj1 H)).
    + apply take_enters; [reflexivity|exact El].
  - destruct (ph s) eqn:Eph; try (apply enters_same; reflexivity). destruct ok.
    + destruct (retry_call s Reset) as [[s1 d]|].
      * intros r tx d0 H. discriminate H.
      * pose proof (crash_summary s) as H. destruct (crash s) as [s' o]. apply enters_nil; exact (proj1 H).
    + pose proof (wait_for_summary s LWaitFailed Fail []) as H. destruct (wait_for s LWaitFailed Fail []) as [s' o].
      rewrite Eph in H. apply enters_nil; exact (proj1 (H eq_refl (conj eq_refl eq_refl))).
  - destruct (reading (ph s)); [|apply enters_same; reflexivity]. destruct (partial s); [apply enters_same; reflexivity|].
    unfold on_frame. destruct (ph s) eqn:Eph; try (apply enters_same; reflexivity).
    destruct (tx =? tx0); [|apply enters_same; reflexivity].
    pose proof (finish_summary s r (respond k)) as H. destruct (finish s r (respond k)) as [s' o]. apply enters_nil; exact (proj1 H).
  - destruct (reading (ph s)); [|apply enters_same; reflexivity]. destruct (partial s); apply enters_same; reflexivity.
  - destruct (reading (ph s)); [|apply enters_same; reflexivity]. destruct (partial s) as [[tx k]|]; [|apply enters_same; reflexivity].
    unfold on_frame. cbn [ph set_partial]. destruct (ph s) eqn:Eph; try (apply enters_same; reflexivity).
    destruct (tx =? tx0); [|apply enters_same; reflexivity].
    pose proof (finish_summary (set_partial s None) r (respond k)) as H. destruct (finish _ r (respond k)) as [s' o]. apply enters_nil; exact (proj1 H).
  - destruct (reading (ph s)); [|apply enters_same; reflexivity]. destruct (partial s); [apply enters_same; reflexivity|].
    unfold on_read_error. destruct (ph s) eqn:Eph; try (apply enters_same; reflexivity).
    + pose proof (end_session_summary s SeBadFrame) as H. cbn [from_request_err]. destruct (end_session s SeBadFrame) as [s' o]. rewrite Eph in H. apply enters_nil; exact (proj1 (H eq_refl)).
    + pose proof (finish_summary s r (RErr ReBadFrame)) as H. destruct (finish s r _) as [s' o]. apply enters_nil; exact (proj1 H).
  - destruct (reading (ph s)); [|apply enters_same; reflexivity].
    unfold on_read_error. destruct (ph s) eqn:Eph; try (apply enters_same; reflexivity).
    + pose proof (end_session_summary s SeIoError) as H. cbn [from_request_err]. destruct (end_session s SeIoError) as [s' o]. rewrite Eph in H. apply enters_nil; exact (proj1 (H eq_refl)).
    + pose proof (finish_summary s r (RErr ReIo)) as H. destruct (finish s r _) as [s' o]. apply enters_nil; exact (proj1 H).
  - destruct (reading (ph s)); [|apply enters_same; reflexivity].
    unfold on_read_error. destruct (ph s) eqn:Eph; try (apply enters_same; reflexivity).
    + pose proof (end_session_summary s SeIoError) as H. cbn [from_request_err]. destruct (end_session s SeIoError) as [s' o]. rewrite Eph in H. apply enters_nil; exact (proj1 (H eq_refl)).
    + pose proof (finish_summary s r (RErr ReIo)) as H. destruct (finish s r _) as [s' o]. apply enters_nil; exact (proj1 H).
  - destruct (ph s) eqn:Eph; try (apply enters_same; reflexivity).
    + destruct (Nat.eqb (wpark s) 0 && (fire cfg until <=? now s)); [intros r0 tx0 d0 H; cbn in H; inversion H; subst; right; reflexivity|].
      destruct (fire cfg (wdl s) <=? now s); [|apply enters_same; reflexivity].
      pose proof (finish_summary s r (RErr write_timeout_error)) as H. destruct (finish s r _) as [s' o]. apply enters_nil; exact (proj1 H).
    + destruct (fire cfg deadline <=? now s); [|apply enters_same; reflexivity].
      pose proof (finish_summary s r (RErr deadline_error)) as H. destruct (finish s r _) as [s' o]. apply enters_nil; exact (proj1 H).
    + destruct (fire cfg until <=? now s); [|apply enters_same; reflexivity].
      pose proof (loop_top_summary s) as H. destruct (loop_top s) as [s' o]. apply enters_nil; exact (proj1 H).
  - destruct (ph s) eqn:Eph; try (pose proof (crash_summary s) as H; destruct (crash s) as [s' o]; apply enters_nil; exact (proj1 H)).
    apply enters_same. reflexivity.
  - destruct (wpark s) as [|n]; [apply enters_same; reflexivity|]. cbn [ph set_wpark].
    destruct (ph s) eqn:Eph; try (apply enters_same; reflexivity).
    destruct (Nat.eqb n 0 && _); [|apply enters_same; reflexivity].
    intros r0 tx0 d0 H. cbn in H. inversion H; subst. right. reflexivity.
Qed.


(* a write is in progress after a step only if it was already, or if this step stamped the request *)
Definition entersw (s s' : state) (o : list output) : Prop :=
  forall r tx u, ph s' = PWriting r tx u -> ph s = PWriting r tx u \/ In (OStamp tx (rq_id r)) o.

Lemma entersw_same s s' o : ph s' = ph s -> entersw s s' o.
Proof. intros Hp r tx d H. left. rewrite <- Hp. exact H. Qed.
Lemma entersw_nil s s' o : inflight (ph s') = [] -> entersw s s' o.
Proof. intros Hi r tx d H. rewrite H in Hi. discriminate. Qed.

Lemma transmit_entersw s r : let '(s', o) := transmit s r in entersw s s' o.
Proof.
  unfold transmit. destruct (txid_next (txid s)) as [v' tx]. destruct (rq_kind r).
  - destruct (wfail (set_txid s v')).
    + pose proof (finish_summary (set_wctl (set_txid s v') false 0) r (RErr ReIo)) as H. destruct (finish _ r (RErr ReIo)) as [s' o].
      apply entersw_nil; exact (proj1 H).
    + destruct (write_now (set_txid s v')).
      * intros r0 tx0 d0 H. discriminate H.
      * intros r0 tx0 d0 H. cbn in H. inversion H; subst. right. left. reflexivity.
  - pose proof (finish_summary (set_txid s v') r (RErr ReBadRequest)) as H. destruct (finish _ r (RErr ReBadRequest)) as [s' o].
    apply entersw_nil; exact (proj1 H).
Qed.

Lemma take_entersw s0 s c : ph s0 = ph s -> listens (ph s) = true -> let '(s', o) := take s0 c in entersw s s' o.
Proof.
  intros Hp Hl. unfold take. rewrite Hp.
  assert (Hterm : forall x pre, silent pre -> let '(s', o) := terminate x pre in entersw s s' o).
  { intros x pre Hs. pose proof (terminate_summary x pre Hs) as H. destruct (terminate x pre) as [s' o]. apply entersw_nil; exact (proj1 H). }
  assert (Hloop : forall x, let '(s', o) := loop_top x in entersw s s' o).
  { intros x. pose proof (loop_top_summary x) as H. destruct (loop_top x) as [s' o]. apply entersw_nil; exact (proj1 H). }
  assert (Hends : forall x se, inflight (ph x) = [] -> let '(s', o) := end_session x se in entersw s s' o).
  { intros x se Hi. pose proof (end_session_summary x se Hi) as H. destruct (end_session x se) as [s' o]. apply entersw_nil; exact (proj1 H). }
  assert (Hno : forall x o, listens (ph x) = true -> entersw s x o).
  { intros x o Hx r tx d H. rewrite H in Hx. discriminate. }
  destruct (ph s) eqn:Eph; try discriminate.
  - destruct c as [r| | |l|]; cbn [change_setting].
    + apply Hno. rewrite Hp. reflexivity.
    + cbn [enabled set_enabled]. apply Hno. reflexivity.
    + cbn [enabled set_enabled]. apply Hno. cbn. rewrite Hp. reflexivity.
    + cbn [enabled set_decode]. destruct (enabled s0); apply Hno; cbn; rewrite ?Hp; reflexivity.
    + apply (Hterm s0 []). split; reflexivity.
  - destruct c as [r| | |l|]; cbn [change_setting].
    + apply Hno. rewrite Hp. reflexivity.
    + cbn [enabled set_enabled]. apply Hno. cbn. rewrite Hp. reflexivity.
    + cbn [enabled set_enabled]. apply Hloop.
    + cbn [enabled set_decode]. destruct (enabled s0); [apply Hno; cbn; rewrite Hp; reflexivity|apply Hloop].
    + apply (Hterm s0 []). split; reflexivity.
  - destruct c as [r| | |l|]; cbn [change_setting].
    + pose proof (transmit_entersw s0 r) as H. destruct (transmit s0 r) as [s' o]. intros r0 tx d E. destruct (H r0 tx d E) as [H1|H1]; [|right; exact H1].
      rewrite Hp in H1. discriminate.
    + cbn [enabled set_enabled]. apply Hno. cbn. rewrite Hp. reflexivity.
    + cbn [enabled set_enabled]. apply Hends. cbn. rewrite Hp. reflexivity.
    + cbn [enabled set_decode]. destruct (enabled s0); [apply Hno; cbn; rewrite Hp; reflexivity|apply Hends; cbn; rewrite Hp; reflexivity].
    + apply Hends. rewrite Hp. reflexivity.
  - destruct c as [r| | |l|]; cbn [change_setting].
    + apply Hno. rewrite Hp. reflexivity.
    + cbn [enabled set_enabled]. apply Hno. cbn. rewrite Hp. reflexivity.
    + cbn [enabled set_enabled]. apply Hloop.
    + cbn [enabled set_decode]. destruct (enabled s0); [apply Hno; cbn; rewrite Hp; reflexivity|apply Hloop].
    + apply (Hterm s0 []). split; reflexivity.
Qed.

Theorem step_entersw s e : let '(s', o) := step cfg s e in entersw s s' o.
Proof.
  destruct e as [c st| | |ok|tx k|tx k| | | | | |dt| |dt| | |k| ]; cbn [step]; try (apply entersw_same; reflexivity).
  - destruct (Nat.eqb (handles s) 0); [apply entersw_same; reflexivity|].
    destruct (ph s) eqn:Eph; try (apply entersw_same; reflexivity);
    (destruct (_ && _); [apply entersw_same; reflexivity|]; destruct st; apply entersw_same; reflexivity).
  - destruct (listens (ph s)) eqn:El; [|apply entersw_same; reflexivity].
    destruct (queue s) as [|c q].
    + destruct (closed s); [|apply entersw_same; reflexivity].
      destruct (ph s) eqn:Eph; try discriminate;
        try (pose proof (terminate_summary s [] (conj eq_refl eq_refl)) as H; destruct (terminate s []) as [s' o]; apply entersw_nil; exact (proj1 H)).
    + apply take_entersw; [reflexivity|exact El].
  - destruct (ph s) eqn:Eph; try (apply entersw_same; reflexivity). destruct ok.
    + destruct (retry_call s Reset) as [[s1 d]|].
      * intros r tx d0 H. discriminate H.
      * pose proof (crash_summary s) as H. destruct (crash s) as [s' o]. apply entersw_nil; exact (proj1 H).
    + pose proof (wait_for_summary s LWaitFailed Fail []) as H. destruct (wait_for s LWaitFailed Fail []) as [s' o].
      rewrite Eph in H. apply entersw_nil; exact (proj1 (H eq_refl (conj eq_refl eq_refl))).
  - destruct (reading (ph s)); [|apply entersw_same; reflexivity]. destruct (partial s); [apply entersw_same; reflexivity|].
    unfold on_frame. destruct (ph s) eqn:Eph; try (apply entersw_same; reflexivity).
    destruct (tx =? tx0); [|apply entersw_same; reflexivity].
    pose proof (finish_summary s r (respond k)) as H. destruct (finish s r (respond k)) as [s' o]. apply entersw_nil; exact (proj1 H).
  - destruct (reading (ph s)); [|apply entersw_same; reflexivity]. destruct (partial s); apply entersw_same; reflexivity.
  - destruct (reading (ph s)); [|apply entersw_same; reflexivity]. destruct (partial s) as [[tx k]|]; [|apply entersw_same; reflexivity].
    unfold on_frame. cbn [ph set_partial]. destruct (ph s) eqn:Eph; try (apply entersw_same; reflexivity).
    destruct (tx =? tx0); [|apply entersw_same; reflexivity].
    pose proof (finish_summary (set_partial s None) r (respond k)) as H. destruct (finish _ r (respond k)) as [s' o]. apply entersw_nil; exact (proj1 H).
  - destruct (reading (ph s)); [|apply entersw_same; reflexivity]. destruct (partial s); [apply entersw_same; reflexivity|].
    unfold on_read_error. destruct (ph s) eqn:Eph; try (apply entersw_same; reflexivity).
    + pose proof (end_session_summary s SeBadFrame) as H. cbn [from_request_err]. destruct (end_session s SeBadFrame) as [s' o]. rewrite Eph in H. apply entersw_nil; exact (proj1 (H eq_refl)).
    + pose proof (finish_summary s r (RErr ReBadFrame)) as H. destruct (finish s r _) as [s' o]. apply entersw_nil; exact (proj1 H).
  - destruct (reading (ph s)); [|apply entersw_same; reflexivity].
    unfold on_read_error. destruct (ph s) eqn:Eph; try (apply entersw_same; reflexivity).
    + pose proof (end_session_summary s SeIoError) as H. cbn [from_request_err]. destruct (end_session s SeIoError) as [s' o]. rewrite Eph in H. apply entersw_nil; exact (proj1 (H eq_refl)).
    + pose proof (finish_summary s r (RErr ReIo)) as H. destruct (finish s r _) as [s' o]. apply entersw_nil; exact (proj1 H).
  - destruct (reading (ph s)); [|apply entersw_same; reflexivity].
    unfold on_read_error. destruct (ph s) eqn:Eph; try (apply entersw_same; reflexivity).
    + pose proof (end_session_summary s SeIoError) as H. cbn [from_request_err]. destruct (end_session s SeIoError) as [s' o]. rewrite Eph in H. apply entersw_nil; exact (proj1 (H eq_refl)).
    + pose proof (finish_summary s r (RErr ReIo)) as H. destruct (finish s r _) as [s' o]. apply entersw_nil; exact (proj1 H).
  - destruct (ph s) eqn:Eph; try (apply entersw_same; reflexivity).
    + destruct (Nat.eqb (wpark s) 0 && (fire cfg until <=? now s)); [intros r0 tx0 d0 H; discriminate H|].
      destruct (fire cfg (wdl s) <=? now s); [|apply entersw_same; reflexivity].
      pose proof (finish_summary s r (RErr write_timeout_error)) as H. destruct (finish s r _) as [s' o]. apply entersw_nil; exact (proj1 H).
    + destruct (fire cfg deadline <=? now s); [|apply entersw_same; reflexivity].
      pose proof (finish_summary s r (RErr deadline_error)) as H. destruct (finish s r _) as [s' o]. apply entersw_nil; exact (proj1 H).
    + destruct (fire cfg until <=? now s); [|apply entersw_same; reflexivity].
      pose proof (loop_top_summary s) as H. destruct (loop_top s) as [s' o]. apply entersw_nil; exact (proj1 H).
  - destruct (ph s) eqn:Eph; try (pose proof (crash_summary s) as H; destruct (crash s) as [s' o]; apply entersw_nil; exact (proj1 H)).
    apply entersw_same. reflexivity.
  - destruct (wpark s) as [|n]; [apply entersw_same; reflexivity|]. cbn [ph set_wpark].
    destruct (ph s) eqn:Eph; try (apply entersw_same; reflexivity).
    destruct (Nat.eqb n 0 && _); [|apply entersw_same; reflexivity].
    intros r0 tx0 d0 H. discriminate H.
Qed.

End Laws.

(* ---------- lifted to runs (all event lists) ---------- *)
Fixpoint submitted (es : list event) : list nat :=
  match es with [] => [] | e :: r => submitted_of e ++ submitted r end.

Section Runs.
Variable cfg : config.

Lemma run_txid : forall es s, txid s < 65536 ->
  let o := snd (run cfg s es) in stamps o = count_from (txid s) (length (stamps o)).
Proof.
  induction es as [|e es IH]; intros s Hv; [reflexivity|]. cbn [run].
  pose proof (step_laws cfg s e) as H. destruct (step cfg s e) as [s1 o1]. destruct H as (Ht & _ & _).
  specialize (IH s1). destruct (run cfg s1 es) as [s2 o2]. cbn [snd] in *. rewrite stamps_app.
  destruct (txid_next_spec (txid s) Hv) as (E1 & E2 & E3).
  destruct Ht as [[Hs Ht]|[Hs Ht]]; rewrite Hs.
  - cbn [app]. rewrite <- Ht. apply IH. rewrite Ht. exact Hv.
  - cbn [app length count_from]. rewrite E1. f_equal. rewrite <- E2, <- Ht. apply IH. rewrite Ht. exact E3.
Qed.

Lemma run_fifo : forall es s w sub, Subseq (w ++ waiting s) sub ->
  let '(s', o) := run cfg s es in Subseq (w ++ wire_ids o ++ waiting s') (sub ++ submitted es).
Proof.
  induction es as [|e es IH]; intros s w sub H; cbn [run submitted].
  - cbn [wire_ids flat_map app]. rewrite app_nil_r. exact H.
  - pose proof (step_laws cfg s e) as L. destruct (step cfg s e) as [s1 o1]. destruct L as (_ & Hf & _).
    assert (H1 : Subseq ((w ++ wire_ids o1) ++ waiting s1) (sub ++ submitted_of e)).
    { rewrite <- app_assoc. eapply subseq_trans; [apply subseq_app_head; exact Hf|].
      rewrite app_assoc. apply subseq_app_same. exact H. }
    specialize (IH s1 (w ++ wire_ids o1) (sub ++ submitted_of e) H1). destruct (run cfg s1 es) as [s2 o2].
    rewrite wire_ids_app, <- !app_assoc in *. exact IH.
Qed.

Lemma inflight_progress s e r tx d : ph s = PInFlight r tx d ->
  let '(s', o) := step cfg s e in ph s' = PInFlight r tx d \/ In (rq_id r) (completed o).
Proof.
  intros Eph.
  assert (Hfin : forall s0 res, let '(s', o) := finish s0 r res in In (rq_id r) (completed o)).
  { intros s0 res. pose proof (finish_summary s0 r res) as H. destruct (finish s0 r res) as [s' o].
    destruct H as (_ & _ & _ & _ & _ & [(_ & _ & _ & ->)|(_ & _ & _ & ->)]); left; reflexivity. }
  destruct e as [c st| | |ok|tx' k|tx' k| | | | | |dt| |dt| | |k| ]; cbn [step]; rewrite ?Eph; cbn [listens reading]; auto.
  - destruct (Nat.eqb (handles s) 0); [auto|]. cbn [fst snd]. destruct (_ && _); [left; exact Eph|]. destruct st; left; exact Eph.
  - destruct (partial s); [auto|]. unfold on_frame. rewrite Eph. destruct (tx' =? tx); [|auto].
    specialize (Hfin s (respond k)). destruct (finish s r (respond k)). auto.
  - destruct (partial s); left; exact Eph.
  - destruct (partial s) as [[t k]|]; [|auto]. unfold on_frame. cbn [ph set_partial]. rewrite Eph. destruct (t =? tx); [|left; exact Eph].
    specialize (Hfin (set_partial s None) (respond k)). destruct (finish _ r (respond k)). auto.
  - destruct (partial s); [auto|]. unfold on_read_error. rewrite Eph. specialize (Hfin s (RErr ReBadFrame)). destruct (finish s r _). auto.
  - unfold on_read_error. rewrite Eph. specialize (Hfin s (RErr ReIo)). destruct (finish s r _). auto.
  - unfold on_read_error. rewrite Eph. specialize (Hfin s (RErr ReIo)). destruct (finish s r _). auto.
  - destruct (fire cfg d <=? now s); [|auto]. specialize (Hfin s (RErr deadline_error)). destruct (finish s r _). auto.
  - unfold crash. rewrite Eph. cbn. right. rewrite completed_cons. left. reflexivity.
  - destruct (wpark s) as [|n]; [auto|]. cbn [ph set_wpark]. rewrite Eph. auto.
Qed.

End Runs.

(* ---------- the statements of Properties/C11.v ---------- *)
Section Statements.
Variable cfg : config.

Lemma c11_one_outstanding s e r tx d : ph s = PInFlight r tx d -> wire_ids (snd (step cfg s e)) = [].
Proof.
  intros Eph. pose proof (step_laws cfg s e) as H. destruct (step cfg s e) as [s' o]. destruct H as (_ & _ & [H|(r' & tx' & d' & _ & _ & _ & [H|[u H]] & _)]);
  [exact H|rewrite Eph in H; discriminate|rewrite Eph in H; discriminate].
Qed.

Lemma c11_one_write_per_step s e : (length (wire_ids (snd (step cfg s e))) <= 1)%nat /\
  (forall id, In id (wire_ids (snd (step cfg s e))) -> exists r tx d, ph (fst (step cfg s e)) = PInFlight r tx d /\ rq_id r = id).
Proof.
  pose proof (step_laws cfg s e) as H. destruct (step cfg s e) as [s' o]. destruct H as (_ & _ & [H|(r & tx & d & H & Hp & _ & _)]); cbn [fst snd]; rewrite H.
  - split; [cbn; lia|intros id []].
  - split; [cbn; lia|]. intros id [<-|[]]. exists r, tx, d. auto.
Qed.

Lemma c11_fifo mt hn rmin rmax es : Subseq (wire_ids (snd (run cfg (init hn mt rmin rmax) es))) (submitted es).
Proof.
  pose proof (run_fifo cfg es (init hn mt rmin rmax) [] [] (sub_nil _)) as H. destruct (run cfg _ es) as [s' o]. cbn [app snd] in *.
  eapply subseq_trans; [|exact H]. rewrite <- (app_nil_r (wire_ids o)) at 1. apply subseq_app_head. constructor.
Qed.

Lemma c11_txid mt hn rmin rmax es k t :
  nth_error (stamps (snd (run cfg (init hn mt rmin rmax) es))) k = Some t -> t = txid_spec (N.of_nat k).
Proof.
  intros H. pose proof (run_txid cfg es (init hn mt rmin rmax)) as R. cbn zeta in R. rewrite R in H by (cbn; lia).
  apply count_from_nth in H; [|cbn; lia]. exact H.
Qed.

Lemma c11_distinct mt hn rmin rmax es k a b :
  let st := stamps (snd (run cfg (init hn mt rmin rmax) es)) in
  nth_error st k = Some a -> nth_error st (S k) = Some b -> a <> b.
Proof.
  intros st Ha Hb. apply c11_txid in Ha. apply c11_txid in Hb. subst. unfold txid_spec. rewrite Nat2N.inj_succ. lia.
Qed.

Lemma c11_mismatch s r t d tx k : ph s = PInFlight r t d -> tx <> t ->
  (partial s = None -> step cfg s (EvFrame tx k) = (s, [])) /\
  (partial s = Some (tx, k) -> step cfg s EvTail = (set_partial s None, [])).
Proof.
  intros Eph Hne. assert (E : (tx =? t) = false) by (apply N.eqb_neq; exact Hne).
  split; intros Hp; cbn [step]; rewrite Eph, Hp; cbn [reading]; unfold on_frame; cbn [ph set_partial]; rewrite Eph, E; reflexivity.
Qed.

Lemma c11_idle_drop s tx k : ph s = PIdle ->
  step cfg s (EvFrame tx k) = (s, []) /\
  (forall p, partial s = Some p -> step cfg s EvTail = (set_partial s None, [])).
Proof.
  intros Eph. split.
  - cbn [step]. rewrite Eph. cbn [reading]. destruct (partial s); [reflexivity|]. unfold on_frame. rewrite Eph. reflexivity.
  - intros [t k'] Hp. cbn [step]. rewrite Eph, Hp. cbn [reading]. unfold on_frame. cbn [ph set_partial]. rewrite Eph. reflexivity.
Qed.

End Statements.
