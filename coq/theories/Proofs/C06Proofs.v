(* C06: the statements of Properties/C06.v, assembled from RtuProofs / CrcProofs / ReaderGeneric. *)
From Coq Require Import NArith List Bool Arith Lia ZArith ZifyBool ZifyNat ZifyN.
From Rodbus Require Import Base.Outcome Base.Cursor Base.Frame Gen.Consts Gen.RtuLengths Model.Buffer Model.Crc Model.Mbap Model.Rtu Model.Reader Model.Format
  Spec.Framing Proofs.BufferProofs Proofs.ReaderGeneric Proofs.MbapProofs Proofs.CrcProofs Proofs.RtuProofs Proofs.C05Proofs.
Import ListNotations.
Ltac Zify.zify_post_hook ::= Z.div_mod_to_equations.

Definition kind_of (p : ptype) : framing_kind := match p with Request => KRtuRequest | Response => KRtuResponse end.

Lemma bytes_concat chunks : bytes (concat chunks) -> Forall bytes chunks.
Proof.
  induction chunks as [|c n IH]; intros H; [constructor|]. cbn [concat] in H. unfold bytes in H. apply Forall_app in H as [H1 H2].
  constructor; [exact H1|apply IH, H2].
Qed.

(* ---- chunking ---- *)
Theorem rtu_any_schedule : forall p chunks fi, Forall bytes chunks ->
  run_session (kind_of p) false chunks fi =
  lift_frames (ref_rtu_frames (role_of p) (fst (sched_stream chunks fi)) (snd (sched_stream chunks fi))).
Proof.
  intros p chunks fi Hb. rewrite sched_stream_eq. cbn [fst snd]. unfold run_session, ref_rtu_frames.
  pose proof (rtu_session_ref p chunks fi (S (length (sbytes chunks))) Hb ltac:(lia)) as H.
  destruct p; exact H.
Qed.

Theorem rtu_chunking : forall p s chunks fi,
  bytes s -> concat chunks = s -> nonempty_chunks chunks ->
  run_session (kind_of p) false chunks fi = lift_frames (ref_rtu_frames (role_of p) s fi).
Proof.
  intros p s chunks fi Hb Hs Hne. subst s. rewrite (rtu_any_schedule p chunks fi (bytes_concat _ Hb)), sched_stream_eq. cbn [fst snd].
  destruct (sbytes_nonempty chunks Hne) as [-> Hf]. now rewrite Hf.
Qed.

Corollary rtu_chunking_independent : forall p c1 c2 fi,
  bytes (concat c1) -> concat c1 = concat c2 -> nonempty_chunks c1 -> nonempty_chunks c2 ->
  run_session (kind_of p) false c1 fi = run_session (kind_of p) false c2 fi.
Proof.
  intros p c1 c2 fi Hb E H1 H2. rewrite (rtu_chunking p (concat c2) c1 fi) by (rewrite <- ?E; auto).
  rewrite (rtu_chunking p (concat c2) c2 fi) by (rewrite <- ?E; auto). reflexivity.
Qed.

(* ---- emission ---- *)
(* a body serializer only ever appends to the cursor (scursor::WriteCursor has no other operation
   that Serialize impls use) *)
Definition appends {E} (body : wcur -> outcome E wcur) : Prop :=
  forall w w', body w = Ok w' -> w_cap w' = w_cap w /\ exists bs, w_out w' = w_out w ++ bs.

Lemma wr_u8_some w b w' : wr_u8 w b = Some w' -> w_cap w' = w_cap w /\ w_out w' = w_out w ++ [b] /\ length (w_out w') <= w_cap w.
Proof.
  unfold wr_u8. destruct (Nat.ltb_spec (length (w_out w)) (w_cap w)); [|discriminate].
  intros Hq; inversion Hq; subst; cbn [w_cap w_out]. rewrite app_length; cbn [length]. repeat split; lia.
Qed.

Theorem rtu_emit : forall {E} (ew : E) cap dest fcv (body : wcur -> outcome E wcur) bs,
  appends body -> rtu_format ew cap dest fcv body = Ok bs ->
  exists pdu_body, bs = rtu_frame_of dest (fcv :: pdu_body) /\ length bs <= cap /\
                   (length (fcv :: pdu_body) <= 253 -> length bs <= 256).
Proof.
  intros E ew cap dest fcv body bs Happ. unfold rtu_format, obind, w, of_option.
  destruct (wr_u8 (wnew cap) dest) as [w1|] eqn:E1; [|discriminate].
  destruct (wr_u8 w1 fcv) as [w2|] eqn:E2; [|discriminate].
  destruct (body w2) as [w3| |] eqn:E3; try discriminate.
  unfold wr_u16_le. destruct (wr_u8 w3 (lo8 (crc (w_out w3)))) as [w4|] eqn:E4; [|discriminate].
  destruct (wr_u8 w4 (hi8 (crc (w_out w3)))) as [w5|] eqn:E5; [|discriminate].
  intros H; inversion H; subst; clear H.
  apply wr_u8_some in E1 as (C1 & O1 & _). apply wr_u8_some in E2 as (C2 & O2 & _).
  destruct (Happ _ _ E3) as (C3 & pb & O3). apply wr_u8_some in E4 as (C4 & O4 & _). apply wr_u8_some in E5 as (C5 & O5 & L5).
  cbn [wnew w_out w_cap app] in *. exists pb.
  assert (Hout3 : w_out w3 = dest :: fcv :: pb) by (rewrite O3, O2, O1; reflexivity).
  assert (Hbs : w_out w5 = rtu_frame_of dest (fcv :: pb)).
  { rewrite O5, O4, Hout3. unfold rtu_frame_of, lo8, hi8. cbn [app]. rewrite <- !app_assoc. reflexivity. }
  split; [exact Hbs|]. split; [lia|]. intros Hl. rewrite Hbs. unfold rtu_frame_of. cbn [length] in *. rewrite app_length. cbn [length]. lia.
Qed.

(* ---- detection: error patterns on byte strings ---- *)
Local Open Scope N_scope.

Lemma bits8_lxor a b : bits8 (N.lxor a b) = xorl (bits8 a) (bits8 b).
Proof. unfold bits8. cbn. now rewrite !N.lxor_spec. Qed.
Lemma bits8_length a : length (bits8 a) = 8%nat. Proof. reflexivity. Qed.
Lemma bits_of_length l : length (bits_of l) = (8 * length l)%nat.
Proof. induction l as [|a l IH]; [reflexivity|]. cbn [bits_of flat_map]. rewrite app_length, bits8_length. fold (bits_of l). rewrite IH. cbn [length]. lia. Qed.
Lemma xorl_app a1 : forall b1 a2 b2, length a1 = length b1 -> xorl (a1 ++ a2) (b1 ++ b2) = xorl a1 b1 ++ xorl a2 b2.
Proof. induction a1 as [|x a1 IH]; intros [|y b1] a2 b2 H; try discriminate; [reflexivity|]. cbn. f_equal. apply IH. now injection H. Qed.
Lemma bits_of_xor body : forall eb, length eb = length body -> bits_of (xor_bytes body eb) = xorl (bits_of body) (bits_of eb).
Proof.
  induction body as [|x body IH]; intros [|y eb] H; try discriminate; [reflexivity|].
  cbn [xor_bytes bits_of flat_map]. fold (bits_of (xor_bytes body eb)) (bits_of body) (bits_of eb).
  rewrite xorl_app by reflexivity. rewrite bits8_lxor, IH; [reflexivity|now injection H].
Qed.
Lemma xor_bytes_length a : forall b, length b = length a -> length (xor_bytes a b) = length a.
Proof. induction a as [|x a IH]; intros [|y b] H; try discriminate; [reflexivity|]. cbn. f_equal. apply IH. now injection H. Qed.

Lemma crc_bits l : bytes l -> crc l = run 65535 (bits_of l).
Proof. intros H. unfold crc. now apply crc_from_bits. Qed.

(* a corrupted frame (body xor eb, CRC word xor e) verifies iff the error pattern has zero syndrome *)
Theorem detect_iff_syndrome body eb e : bytes body -> length eb = length body -> e < W ->
  bytes (xor_bytes body eb) ->
  (N.lxor (crc body) e = crc (xor_bytes body eb) <-> syn (bits_of eb ++ bits16 e) = 0).
Proof.
  intros Hb Hl He Hx. rewrite (crc_bits body Hb), (crc_bits _ Hx), bits_of_xor by assumption.
  apply accept_iff_syndrome; [|assumption|reflexivity]. rewrite !bits_of_length. lia.
Qed.

Lemma single_detected a z : syn (zeros a ++ [true] ++ zeros z) <> 0.
Proof.
  unfold syn. rewrite !run_app, !run_zeros, pw_0. cbn [run fold_left]. unfold bstep. cbn [b2n]. rewrite N.lxor_0_l.
  intros E. apply pw_zero in E; [|apply step1_facts; reflexivity]. vm_compute in E. discriminate.
Qed.

(* ---- bursts shorter than 16 bits, anywhere in a frame of at least 16 bits ---- *)
(* a 16-element bit list is bits16 of a number below 2^16 *)
Fixpoint of_bits (l : list bool) : N := match l with [] => 0 | b :: l => b2n b + 2 * of_bits l end.
Lemma of_bits_lt l : of_bits l < 2 ^ N.of_nat (length l).
Proof.
  induction l as [|b l IH]; [reflexivity|]. cbn [of_bits length]. rewrite Nat2N.inj_succ, N.pow_succ_r'.
  destruct b; cbn [b2n]; lia.
Qed.
Lemma testbit_of_bits l : forall i, N.testbit (of_bits l) (N.of_nat i) = nth i l false.
Proof.
  induction l as [|b l IH]; intros i; [destruct i; reflexivity|]. cbn [of_bits]. destruct i as [|i].
  - cbn [nth N.of_nat]. destruct b; cbn [b2n]; [rewrite N.add_comm; apply N.testbit_odd_0 | rewrite N.add_0_l; apply N.testbit_even_0].
  - rewrite Nat2N.inj_succ. cbn [nth]. destruct b; cbn [b2n].
    + rewrite N.add_comm. rewrite N.testbit_odd_succ by lia. apply IH.
    + rewrite N.add_0_l. rewrite N.testbit_even_succ by lia. apply IH.
Qed.
Lemma bits16_of_bits l : length l = 16%nat -> bits16 (of_bits l) = l.
Proof.
  intros H. do 17 (destruct l as [|? l]; try discriminate). clear H.
  unfold bits16. cbn [seq map]. rewrite !testbit_of_bits. reflexivity.
Qed.
Lemma of_bits_zero l : of_bits l = 0 -> l = repeat false (length l).
Proof.
  induction l as [|b l IH]; [reflexivity|]. cbn [of_bits length repeat]. destruct b; cbn [b2n]; [lia|].
  intros H. f_equal. apply IH. lia.
Qed.

(* a burst of at most 16 bits: w starts anywhere, is at most 16 long and not all zero; the frame has at least 16 bits *)
Lemma zeros_app a c : zeros (a + c) = zeros a ++ zeros c.
Proof. unfold zeros. apply repeat_app. Qed.

Lemma skipn_zeros_app n (l : list bool) : skipn n (zeros n ++ l) = l.
Proof. induction n; [reflexivity|]. cbn. assumption. Qed.
Lemma firstn_app_exact {A} (l r : list A) : firstn (length l) (l ++ r) = l.
Proof. induction l; cbn; [reflexivity|]. now f_equal. Qed.

Theorem short_burst_is_window a w z :
  (length w <= 16)%nat -> w <> zeros (length w) -> (16 <= a + length w + z)%nat ->
  exists a' x z', x < 65536 /\ x <> 0 /\ zeros a ++ w ++ zeros z = zeros a' ++ bits16 x ++ zeros z'.
Proof.
  intros Hw Hnz Hlen. set (p := (16 - length w)%nat).
  (* pad to the right as far as z allows, the rest to the left *)
  set (pr := Nat.min p z). set (pl := (p - pr)%nat).
  exists (a - pl)%nat, (of_bits (zeros pl ++ w ++ zeros pr)), (z - pr)%nat.
  assert (Hl16 : length (zeros pl ++ w ++ zeros pr) = 16%nat).
  { rewrite !app_length. unfold zeros. rewrite !repeat_length. unfold pl, pr, p. lia. }
  split; [|split].
  - pose proof (of_bits_lt (zeros pl ++ w ++ zeros pr)) as H. rewrite Hl16 in H. exact H.
  - intros E. apply of_bits_zero in E. rewrite Hl16 in E. apply Hnz.
    (* the middle part of an all-zero list is all zero *)
    assert (Hm : w = firstn (length w) (skipn pl (zeros pl ++ w ++ zeros pr))).
    { rewrite skipn_zeros_app, firstn_app_exact. reflexivity. }
    rewrite Hm at 1. rewrite E.
    assert (forall n k, skipn k (repeat false n) = repeat false (n - k)) as Hs.
    { induction n; intros [|k]; cbn; auto. }
    assert (forall n k, firstn k (repeat false n) = repeat false (Nat.min k n)) as Hf.
    { induction n; intros [|k]; cbn; auto. f_equal. apply IHn. }
    rewrite Hs, Hf. unfold zeros. f_equal. unfold pl, pr, p. lia.
  - rewrite bits16_of_bits by exact Hl16. rewrite <- !app_assoc.
    assert (Hpl : (pl <= a)%nat) by (unfold pl, pr, p; lia).
    assert (Hpr : (pr <= z)%nat) by (unfold pr; lia).
    replace a with ((a - pl) + pl)%nat at 1 by lia. replace z with (pr + (z - pr))%nat at 1 by lia.
    rewrite !zeros_app, <- !app_assoc. reflexivity.
Qed.

(* the three error classes, as patterns over the bits of the whole frame in wire order
   (byte by byte, least significant bit first; the CRC trailer low byte first) *)
Lemma err_class_syn bs : err_class bs -> syn bs <> 0.
Proof.
  intros [(a & z & ->)|[(a & d & z & Hd & ->)|[(a & x & z & Hx & Hn & ->)|(a & w & z & Hw & Hnz & Hl & ->)]]].
  - apply single_detected.
  - now apply double_detected.
  - now apply burst_detected.
  - rewrite !app_length in Hl. unfold zeros in Hl. rewrite !repeat_length in Hl.
    destruct (short_burst_is_window a w z Hw Hnz ltac:(lia)) as (a' & x & z' & Hx & Hn & ->). now apply burst_detected.
Qed.

Theorem detect_word body eb e : bytes body -> length eb = length body -> e < W -> bytes (xor_bytes body eb) ->
  err_class (bits_of eb ++ bits16 e) -> N.lxor (crc body) e <> crc (xor_bytes body eb).
Proof. intros Hb Hl He Hx Hc H. apply (detect_iff_syndrome body eb e Hb Hl He Hx) in H. exact (err_class_syn _ Hc H). Qed.

(* ---- the trailer as two bytes ---- *)
Definition eqbl (a b : list bool) : bool := if list_eq_dec Bool.bool_dec a b then true else false.
Lemma bits16_split w : w < W -> bits16 w = bits8 (w mod 256) ++ bits8 (w / 256).
Proof.
  intros Hw. rewrite W_pow in Hw.
  pose proof (forall_below 16 (fun w => eqbl (bits16 w) (bits8 (w mod 256) ++ bits8 (w / 256))) ltac:(vm_compute; reflexivity) w Hw) as H.
  cbv beta in H. unfold eqbl in H. now destruct (list_eq_dec _ _ _).
Qed.
Lemma bits16_bytes a b : a < 256 -> b < 256 -> bits16 (a + 256 * b) = bits8 a ++ bits8 b.
Proof.
  intros Ha Hb. rewrite bits16_split by (unfold W; lia).
  replace ((a + 256 * b) mod 256) with a by lia. replace ((a + 256 * b) / 256) with b by lia. reflexivity.
Qed.
Lemma lxor_lt8 a b : a < 256 -> b < 256 -> N.lxor a b < 256.
Proof.
  intros Ha Hb. destruct (N.eq_dec (N.lxor a b) 0) as [->|Hn]; [reflexivity|].
  change 256 with (2 ^ 8) in *. apply N.log2_lt_pow2; [lia|].
  eapply N.le_lt_trans; [apply N.log2_lxor|]. apply N.max_lub_lt.
  - destruct (N.eq_dec a 0) as [->|]; [reflexivity|apply N.log2_lt_pow2; lia].
  - destruct (N.eq_dec b 0) as [->|]; [reflexivity|apply N.log2_lt_pow2; lia].
Qed.
Lemma word_lxor a b c d : a < 256 -> b < 256 -> c < 256 -> d < 256 ->
  N.lxor (a + 256 * b) (c + 256 * d) = N.lxor a c + 256 * N.lxor b d.
Proof.
  intros Ha Hb Hc Hd. pose proof (lxor_lt8 a c Ha Hc). pose proof (lxor_lt8 b d Hb Hd).
  apply bits16_inj; [apply lxor_lt; unfold W; lia|unfold W; lia|].
  rewrite bits16_lxor, !bits16_bytes by assumption. rewrite xorl_app by reflexivity. now rewrite !bits8_lxor.
Qed.
Lemma bytes_xor a : forall b, bytes a -> bytes b -> bytes (xor_bytes a b).
Proof.
  induction a as [|x a IH]; intros [|y b] Ha Hb; try constructor.
  - inversion Ha; inversion Hb; subst. now apply lxor_lt8.
  - inversion Ha; inversion Hb; subst. now apply IH.
Qed.
Lemma xor_bytes_app a1 : forall b1 a2 b2, length a1 = length b1 -> xor_bytes (a1 ++ a2) (b1 ++ b2) = xor_bytes a1 b1 ++ xor_bytes a2 b2.
Proof. induction a1 as [|x a1 IH]; intros [|y b1] a2 b2 H; try discriminate; [reflexivity|]. cbn. f_equal. apply IH. now injection H. Qed.
Lemma bits_of_app a b : bits_of (a ++ b) = bits_of a ++ bits_of b.
Proof. unfold bits_of. apply flat_map_app. Qed.

(* C06_detect: a valid frame (body ++ CRC low, high) hit by an error pattern of one of the three
   classes never verifies. Frame = any byte string; no length bound except the one the class carries *)
Theorem detect_frame body lo hi eb elo ehi :
  bytes (body ++ [lo; hi]) -> bytes (eb ++ [elo; ehi]) -> length eb = length body ->
  lo + 256 * hi = crc body ->
  err_class (bits_of (eb ++ [elo; ehi])) ->
  xor_bytes (body ++ [lo; hi]) (eb ++ [elo; ehi]) = xor_bytes body eb ++ [N.lxor lo elo; N.lxor hi ehi] /\
  N.lxor lo elo + 256 * N.lxor hi ehi <> crc (xor_bytes body eb).
Proof.
  intros HF HE Hl Hcrc Hcls. unfold bytes in HF, HE. apply Forall_app in HF as [Hb Ht]. apply Forall_app in HE as [Heb Het].
  inversion Ht as [|? ? Hlo Ht']; subst. inversion Ht' as [|? ? Hhi _]; subst.
  inversion Het as [|? ? Helo Het']; subst. inversion Het' as [|? ? Hehi _]; subst.
  split; [rewrite xor_bytes_app by (symmetry; exact Hl); reflexivity|].
  rewrite <- word_lxor by assumption. rewrite Hcrc.
  apply detect_word; [exact Hb|exact Hl|unfold W; lia|now apply bytes_xor|].
  rewrite bits_of_app in Hcls. cbn [bits_of flat_map] in Hcls. rewrite app_nil_r in Hcls. now rewrite bits16_bytes.
Qed.

(* ---- the gate ---- *)
Local Close Scope N_scope.

Lemma split_at_trailer (t : list N) plen : plen + 2 <= length t ->
  t = firstn plen t ++ [nth plen t 0%N; nth (plen + 1) t 0%N] ++ skipn (plen + 2) t.
Proof.
  intros H. rewrite <- (firstn_skipn plen t) at 1. f_equal.
  destruct (skipn plen t) as [|x [|y r]] eqn:E;
    try (apply (f_equal (@length N)) in E; rewrite skipn_length in E; cbn in E; lia).
  assert (Hx : nth plen t 0%N = x) by (rewrite <- (Nat.add_0_r plen), nth_skipn_add, E; reflexivity).
  assert (Hy : nth (plen + 1) t 0%N = y) by (rewrite nth_skipn_add, E; reflexivity).
  rewrite Hx, Hy. cbn [app]. do 2 f_equal. rewrite <- skipn_skipn', E. reflexivity.
Qed.

Definition carries (s : list N) (f : frame) : Prop :=
  exists pre post, s = pre ++ rtu_frame_of (f_dest f) (f_pdu f) ++ post.

Lemma body_gate k fi d plen t :
  (forall f, In f (fst (k (skipn (plen + 2) t))) -> carries (skipn (plen + 2) t) f) ->
  bytes t -> forall f, In f (fst (ref_rtu_body k fi d plen t)) -> carries (d :: t) f.
Proof.
  intros Hk Hb f. unfold ref_rtu_body. destruct (Nat.ltb 253 plen); [intros []|].
  destruct (Nat.ltb_spec (length t) (plen + 2)) as [|Hlen]; [intros []|].
  destruct (N.eqb_spec (nth plen t 0 + 256 * nth (plen + 1) t 0)%N (crc (d :: firstn plen t))) as [E|E]; [|intros []].
  destruct (k (skipn (plen + 2) t)) as [fs e] eqn:Ek. cbn [fst In]. intros [<-|Hin].
  - exists [], (skipn (plen + 2) t). cbn [app f_dest f_pdu]. unfold rtu_frame_of. cbn [app]. f_equal.
    rewrite (split_at_trailer t plen Hlen) at 1. rewrite <- !app_assoc. f_equal.
    pose proof (bytes_nth t plen Hb) as H1. pose proof (bytes_nth t (plen + 1) Hb) as H2.
    rewrite <- E. cbn [app]. f_equal; [lia|f_equal; lia].
  - destruct (Hk f Hin) as (pre & post & Hs). exists (d :: firstn (plen + 2) t ++ pre), post.
    cbn [app]. f_equal. rewrite <- app_assoc, <- Hs. now rewrite firstn_skipn.
Qed.

(* C06_gate at the Spec level: every frame the Spec accepts sits in the stream followed by the
   correct CRC of its address and PDU, low byte first *)
Lemma rref_gate p : forall F s fi, bytes s -> forall f, In f (fst (rref F (role_of p) s fi)) -> carries s f.
Proof.
  induction F as [|F IH]; intros s fi Hb f; [intros []|]. rewrite (rref_unfold p).
  destruct (Nat.ltb_spec (length s) 2) as [|H2]; [intros []|]. cbv zeta.
  destruct s as [|a t]; [cbn in H2; lia|]. cbn [skipn nth].
  assert (Hbt : bytes t) by (inversion Hb; assumption).
  assert (Hk : forall plen f, In f (fst (kont p F fi (skipn (plen + 2) t))) -> carries (skipn (plen + 2) t) f).
  { intros plen f0. unfold kont. apply IH. now apply bytes_skipn. }
  destruct (length_rule _ _); [apply body_gate; auto| |intros []].
  destruct (Nat.ltb _ _); [intros []|apply body_gate; auto].
Qed.

Theorem rtu_gate : forall p chunks fi f, Forall bytes chunks ->
  In (IFrame f) (fst (run_session (kind_of p) false chunks fi)) ->
  carries (fst (sched_stream chunks fi)) f.
Proof.
  intros p chunks fi f Hb. rewrite (rtu_any_schedule p chunks fi Hb), sched_stream_eq. cbn [fst snd lift_frames].
  rewrite in_map_iff. intros (f' & Hf & Hin). inversion Hf; subst.
  assert (Hbs : bytes (sbytes chunks)).
  { clear -Hb. induction Hb as [|c n Hc Hn IH]; [constructor|]. destruct c; [constructor|]. cbn [sbytes]. now apply bytes_app. }
  exact (rref_gate p _ _ _ Hbs _ Hin).
Qed.

(* ---- a delimited frame whose CRC does not verify: CrcValidationFailure, nothing delivered ---- *)
Lemma body_at_frame k fi addr pdu lo hi rest : length pdu <= 253 ->
  ref_rtu_body k fi addr (length pdu) (pdu ++ [lo; hi] ++ rest) =
  if N.eqb (lo + 256 * hi) (crc (addr :: pdu))
  then (let '(fs, e) := k rest in ({| f_tx := None; f_dest := addr; f_bcast := N.eqb addr 0; f_pdu := pdu |} :: fs, e))
  else ([], EndBad (CrcValidationFailure (lo + 256 * hi) (crc (addr :: pdu)))).
Proof.
  intros Hl. unfold ref_rtu_body. destruct (Nat.ltb_spec 253 (length pdu)); [lia|].
  destruct (Nat.ltb_spec (length (pdu ++ [lo; hi] ++ rest)) (length pdu + 2)) as [Hx|_];
    [rewrite !app_length in Hx; cbn [length] in Hx; lia|].
  rewrite firstn_app_le, firstn_all by lia.
  rewrite (app_nth2 pdu) by lia. rewrite (app_nth2 pdu) by lia.
  replace (length pdu - length pdu) with 0 by lia. replace (length pdu + 1 - length pdu) with 1 by lia. cbn [nth app].
  rewrite skipn_app, skipn_all2 by lia. replace (length pdu + 2 - length pdu) with 2 by lia. reflexivity.
Qed.

Lemma rref_one_frame r F addr pdu lo hi rest fi : delimited r pdu -> length pdu <= 253 ->
  rref (S F) r (addr :: pdu ++ [lo; hi] ++ rest) fi =
  if N.eqb (lo + 256 * hi) (crc (addr :: pdu))
  then (let '(fs, e) := rref F r rest fi in ({| f_tx := None; f_dest := addr; f_bcast := N.eqb addr 0; f_pdu := pdu |} :: fs, e))
  else ([], EndBad (CrcValidationFailure (lo + 256 * hi) (crc (addr :: pdu)))).
Proof.
  intros Hd Hl. destruct pdu as [|fcv body]; [destruct Hd|]. cbn [app rref]. cbn [delimited] in Hd.
  change (fcv :: body ++ lo :: hi :: rest) with ((fcv :: body) ++ [lo; hi] ++ rest).
  destruct (length_rule r fcv) as [n|off|]; [| |destruct Hd].
  - rewrite <- Hd. now apply body_at_frame.
  - destruct Hd as [Ho Hd]. rewrite app_length. destruct (Nat.ltb_spec (length (fcv :: body) + length ([lo; hi] ++ rest)) (1 + off)); [lia|].
    rewrite app_nth1 by lia. rewrite <- Hd. now apply body_at_frame.
Qed.

Theorem rtu_detect_session : forall p addr pdu lo hi rest chunks fi,
  bytes (addr :: pdu ++ [lo; hi] ++ rest) -> delimited (role_of p) pdu -> length pdu <= 253 ->
  (lo + 256 * hi)%N <> crc (addr :: pdu) ->
  concat chunks = addr :: pdu ++ [lo; hi] ++ rest -> nonempty_chunks chunks ->
  run_session (kind_of p) false chunks fi = ([], EndBad (CrcValidationFailure (lo + 256 * hi) (crc (addr :: pdu)))).
Proof.
  intros p addr pdu lo hi rest chunks fi Hb Hd Hl Hne Hs Hnc.
  rewrite (rtu_chunking p _ chunks fi Hb Hs Hnc). unfold ref_rtu_frames. rewrite rref_one_frame by assumption.
  destruct (N.eqb_spec (lo + 256 * hi) (crc (addr :: pdu))); [contradiction|reflexivity].
Qed.

(* ... and a delimited frame whose CRC verifies IS delivered (the gate is not vacuous) *)
Theorem rtu_accept : forall p addr pdu chunks fi,
  bytes (rtu_frame_of addr pdu) -> delimited (role_of p) pdu -> length pdu <= 253 ->
  concat chunks = rtu_frame_of addr pdu -> nonempty_chunks chunks ->
  run_session (kind_of p) false chunks fi =
  ([IFrame {| f_tx := None; f_dest := addr; f_bcast := N.eqb addr 0; f_pdu := pdu |}], end_of fi).
Proof.
  intros p addr pdu chunks fi Hb Hd Hl Hs Hnc.
  rewrite (rtu_chunking p _ chunks fi Hb Hs Hnc). unfold ref_rtu_frames, rtu_frame_of.
  change (addr :: pdu ++ [(crc (addr :: pdu) mod 256)%N; (crc (addr :: pdu) / 256)%N])
    with (addr :: pdu ++ [(crc (addr :: pdu) mod 256)%N; (crc (addr :: pdu) / 256)%N] ++ []).
  rewrite rref_one_frame by assumption.
  replace (crc (addr :: pdu) mod 256 + 256 * (crc (addr :: pdu) / 256))%N with (crc (addr :: pdu)) by lia.
  rewrite N.eqb_refl. cbn [length]. reflexivity.
Qed.

(* ---- detection at session level, in one statement ---- *)
(* a valid frame hit by a length-preserving error pattern of one of the classes: CrcValidationFailure,
   nothing delivered, whatever follows and however the bytes are cut into reads *)
Theorem rtu_corrupted_frame_rejected : forall p addr pdu lo hi ea epdu elo ehi rest chunks fi,
  bytes (addr :: pdu ++ [lo; hi]) -> bytes (ea :: epdu ++ [elo; ehi]) -> bytes rest -> length epdu = length pdu ->
  (lo + 256 * hi)%N = crc (addr :: pdu) ->
  err_class (bits_of (ea :: epdu ++ [elo; ehi])) ->
  delimited (role_of p) (xor_bytes pdu epdu) -> length pdu <= 253 ->
  concat chunks = xor_bytes (addr :: pdu ++ [lo; hi]) (ea :: epdu ++ [elo; ehi]) ++ rest -> nonempty_chunks chunks ->
  exists received expected, received <> expected /\
    run_session (kind_of p) false chunks fi = ([], EndBad (CrcValidationFailure received expected)).
Proof.
  intros p addr pdu lo hi ea epdu elo ehi rest chunks fi HF HE Hrest Hl Hcrc Hcls Hdel Hlen Hs Hnc.
  change (addr :: pdu ++ [lo; hi]) with ((addr :: pdu) ++ [lo; hi]) in *.
  change (ea :: epdu ++ [elo; ehi]) with ((ea :: epdu) ++ [elo; ehi]) in *.
  destruct (detect_frame (addr :: pdu) lo hi (ea :: epdu) elo ehi HF HE ltac:(cbn [length]; now rewrite Hl) Hcrc Hcls) as [Hx Hne].
  rewrite Hx in Hs. cbn [xor_bytes app] in Hs, Hne.
  exists (N.lxor lo elo + 256 * N.lxor hi ehi)%N, (crc (N.lxor addr ea :: xor_bytes pdu epdu)). split; [exact Hne|].
  apply (rtu_detect_session p (N.lxor addr ea) (xor_bytes pdu epdu) (N.lxor lo elo) (N.lxor hi ehi) rest chunks fi); try assumption.
  - assert (Hb : bytes (xor_bytes ((addr :: pdu) ++ [lo; hi]) ((ea :: epdu) ++ [elo; ehi]))) by (apply bytes_xor; assumption).
    rewrite Hx in Hb. cbn [xor_bytes app] in Hb. unfold bytes in *.
    inversion Hb as [|? ? HA HX]; subst. constructor; [exact HA|]. apply Forall_app in HX as [H1 H2].
    apply Forall_app; split; [exact H1|]. apply Forall_app; split; [exact H2|exact Hrest].
  - rewrite xor_bytes_length by assumption. exact Hlen.
  - rewrite Hs. cbn [app]. now rewrite <- app_assoc.
Qed.

(* ---- the RTU client: one reader for all (re)openings of the port, reset when a connection starts ---- *)
Definition is_rtu (p : ptype) (r : reader) : Prop := match r_parser r with PRtu q _ => q = p | _ => False end.

Lemma next_frame_rtu p : forall fuel r n fi, is_rtu p r -> is_rtu p (fst (fst (next_frame fuel r n fi))).
Proof.
  induction fuel as [|fuel IH]; intros r n fi Hr; [exact Hr|].
  destruct r as [[st|q st] b]; [destruct Hr|]. cbn [is_rtu r_parser] in Hr. subst q. cbn [next_frame parser_parse r_parser r_buf].
  destruct (rtu_parse p st b) as [[st' b'] res]. destruct res as [[f|]|e|]; try reflexivity.
  destruct n as [|c n'].
  - destruct (read_some b' []) as [b2 rs]. reflexivity.
  - destruct (read_some b' c) as [b2 rs]. destruct rs as [k rest| |]; try reflexivity.
    destruct rest; apply IH; reflexivity.
Qed.
Lemma run_reader_st_rtu p : forall fuel r n fi, is_rtu p r -> is_rtu p (fst (run_reader_st fuel r n fi)).
Proof.
  induction fuel as [|fuel IH]; intros r n fi Hr; [exact Hr|]. cbn [run_reader_st].
  pose proof (next_frame_rtu p (nf_fuel n) r n fi Hr) as H.
  destruct (next_frame (nf_fuel n) r n fi) as [[r' n'] res]. cbn [fst] in H. destruct res as [f|e]; [|exact H].
  specialize (IH r' n' fi H). destruct (run_reader_st fuel r' n' fi) as [r'' [l e]]. exact IH.
Qed.

Theorem rtu_client_every_connection_fresh : forall p conns r, is_rtu p r -> Forall (fun c => Forall bytes (fst c)) conns ->
  client_connections true r conns =
  map (fun c => lift_frames (ref_rtu_frames (role_of p) (fst (sched_stream (fst c) (snd c))) (snd (sched_stream (fst c) (snd c))))) conns.
Proof.
  intros p. induction conns as [|[n fi] conns IH]; intros r Hr Hb; [reflexivity|]. cbn [client_connections map fst snd].
  inversion Hb as [|? ? Hbn Hbc]; subst. cbn [fst] in Hbn.
  assert (Hreset : reader_reset r = reader_new (kind_of p)).
  { destruct r as [[st|q st] b]; [destruct Hr|]. cbn [is_rtu r_parser] in Hr. subst q. destruct p; reflexivity. }
  rewrite Hreset.
  assert (Hnew : is_rtu p (reader_new (kind_of p))) by (destruct p; reflexivity).
  pose proof (run_reader_st_snd (run_fuel (reader_new (kind_of p)) n) (reader_new (kind_of p)) n fi) as Hs.
  pose proof (run_reader_st_rtu p (run_fuel (reader_new (kind_of p)) n) (reader_new (kind_of p)) n fi Hnew) as Ht.
  destruct (run_reader_st (run_fuel (reader_new (kind_of p)) n) (reader_new (kind_of p)) n fi) as [r' res]. cbn [fst snd] in *.
  rewrite (IH r' Ht Hbc). f_equal. rewrite Hs. exact (rtu_any_schedule p n fi Hbn).
Qed.

(* ================================================================================================
   Cancel-safety and compositionality (RTU, both parser roles)
   ================================================================================================ *)
Definition rtu_rd (p : ptype) (st : rstate) (b : buf) : reader := {| r_parser := PRtu p st; r_buf := b |}.

Theorem rtu_cancel_safe : forall p st b n1 n2 fi r1 n1',
  wf b -> bytes (b_pend b) -> Forall bytes n1 -> Forall bytes n2 -> rst_ok st ->
  next_frame (nf_fuel n1) (rtu_rd p st b) n1 FinPending = (r1, n1', NfEnd EndPending) ->
  next_frame (nf_fuel n2) r1 n2 fi = next_frame (nf_fuel (n1 ++ n2)) (rtu_rd p st b) (n1 ++ n2) fi /\
  n1' = [] /\ exists st1 b1, r1 = rtu_rd p st1 b1 /\ wf b1 /\ bytes (b_pend b1) /\ rst_ok st1.
Proof.
  intros p st b n1 n2 fi r1 n1' Hwf Hb Hb1 Hb2 Hst E.
  destruct (rtu_nf_cancel_safe p st b n1 n2 fi r1 n1' (nf_fuel n1) (nf_fuel n2) (nf_fuel (n1 ++ n2)) Hwf Hb Hb1 Hb2 Hst
              ltac:(unfold nf_fuel; lia) ltac:(unfold nf_fuel; lia) ltac:(unfold nf_fuel; lia) E) as [Heq Hw].
  split; [exact Heq|].
  pose proof (rtu_nf_app p (nf_fuel n1) st b n1 [] FinPending 1 Hwf Hb Hb1 ltac:(constructor) Hst ltac:(unfold nf_fuel; lia) ltac:(cbn; lia)) as Happ.
  unfold rd, rtu_rd in *. rewrite E in Happ. destruct Happ as (Hn & _). split; [exact Hn|].
  destruct Hw as (st1 & b1 & -> & Hwf1 & Hok1 & Hst1 & _). exists st1, b1. repeat split; assumption.
Qed.

Theorem rtu_cancel_safe_session : forall p chunks fi, Forall bytes chunks ->
  run_cancel (reader_new (kind_of p)) chunks fi = run_session (kind_of p) false chunks fi.
Proof.
  intros p chunks fi Hb. unfold run_session. pose proof (sbytes_le chunks) as Hs.
  replace (reader_new (kind_of p)) with (rd rstate (PRtu p) Start buf_new) by (destruct p; reflexivity).
  set (G := run_fuel (rd rstate (PRtu p) Start buf_new) chunks).
  assert (HG : G = length (concat chunks) + 2) by reflexivity.
  rewrite <- (run_reader_st_snd G).
  rewrite (rtu_run_st_fuel_indep p G (S G) Start buf_new chunks fi wf_new bytes_nil Hb I);
    [|unfold rmeasure; cbn [buf_new b_pend app rcons_need]; lia|unfold rmeasure; cbn [buf_new b_pend app rcons_need]; lia].
  rewrite run_reader_st_snd.
  apply (rtu_run_cancel_eq p chunks Start buf_new fi (S G) wf_new bytes_nil Hb I). cbn [buf_new b_pend length]. lia.
Qed.

(* --- the Spec over s1 ++ s2 --- *)
Theorem ref_rtu_frames_app : forall r s1 s2 fi,
  ref_rtu_frames r (s1 ++ s2) fi =
  match ref_rtu_frames r s1 FinPending with
  | (fs1, EndPending) => (fs1 ++ fst (ref_rtu_frames r (rtu_tail r s1 ++ s2) fi), snd (ref_rtu_frames r (rtu_tail r s1 ++ s2) fi))
  | x => x
  end.
Proof.
  intros r s1 s2 fi. assert (Hp : exists p, r = role_of p) by (destruct r; [exists Request|exists Response]; reflexivity).
  destruct Hp as [p ->]. unfold ref_rtu_frames. pose proof (rtu_tail_len p s1) as Ht.
  rewrite (rtu_ref_app p (S (length (s1 ++ s2))) s1 s2 fi) by lia.
  rewrite (rref_fuel p (S (length (s1 ++ s2))) (S (length s1)) s1) by (rewrite ?app_length; lia).
  rewrite (rref_fuel p (S (length (s1 ++ s2))) (S (length (rtu_tail (role_of p) s1 ++ s2))) (rtu_tail (role_of p) s1 ++ s2)) by (rewrite ?app_length; lia).
  reflexivity.
Qed.

(* --- a connection / bus that goes on --- *)
Definition rtu_reader_represents (p : ptype) (r : reader) (t : list N) : Prop := rtu_represents p r t.

Theorem rtu_represents_fresh' : forall p, rtu_reader_represents p (reader_new (kind_of p)) [].
Proof. intros p. pose proof (rtu_represents_fresh p) as H. destruct p; exact H. Qed.

Theorem rtu_run_represents' : forall p r t n fi, rtu_reader_represents p r t -> Forall bytes n ->
  run_reader (run_fuel r n) false r n fi = lift_frames (ref_rtu_frames (role_of p) (t ++ sbytes n) (sfin n fi)) /\
  snd (run_reader_st (run_fuel r n) r n fi) = lift_frames (ref_rtu_frames (role_of p) (t ++ sbytes n) (sfin n fi)).
Proof.
  intros p r t n fi Hrep Hb. pose proof (sbytes_le n).
  assert (H1 : run_reader (run_fuel r n) false r n fi = lift_frames (ref_rtu_frames (role_of p) (t ++ sbytes n) (sfin n fi))).
  { unfold ref_rtu_frames. apply (rtu_run_represents p r t n fi (run_fuel r n) (S (length (t ++ sbytes n))) Hrep Hb); unfold run_fuel; lia. }
  split; [exact H1|]. now rewrite run_reader_st_snd.
Qed.

Theorem rtu_represents_step' : forall p r t n r1 l1, rtu_reader_represents p r t -> Forall bytes n ->
  run_reader_st (run_fuel r n) r n FinPending = (r1, (l1, EndPending)) ->
  rtu_reader_represents p r1 (rtu_tail (role_of p) (t ++ sbytes n)) /\
  l1 = map IFrame (fst (ref_rtu_frames (role_of p) (t ++ sbytes n) FinPending)) /\
  snd (ref_rtu_frames (role_of p) (t ++ sbytes n) FinPending) = EndPending.
Proof.
  intros p r t n r1 l1 Hrep Hb E. pose proof (sbytes_le n).
  exact (rtu_represents_step p r t n (run_fuel r n) r1 l1 Hrep Hb ltac:(unfold run_fuel; lia) E).
Qed.

(* ================================================================================================
   The RTU server across port re-opens (one reader for the life of the server)
   ================================================================================================ *)
Lemma gres_is_reopen p : forall G F s fi,
  gres (fun F s fi => rref F (role_of p) s fi) (fun F s => rref_after F (role_of p) s) G F s fi = rref_reopen G F (role_of p) s fi.
Proof.
  induction G as [|G IH]; intros F s fi; [reflexivity|]. cbn [gres rref_reopen].
  destruct (rref F (role_of p) s fi) as [fs e]. destruct e; try reflexivity. now rewrite IH.
Qed.

(* the reader polled again after framing errors (what the server does across re-opens) delivers exactly what
   the Spec prescribes: session after session, each from a clean parser on what is left of the stream *)
Theorem rtu_reopen : forall p chunks fi, Forall bytes chunks ->
  run_session (kind_of p) true chunks fi =
  ref_rtu_reopen (role_of p) (fst (sched_stream chunks fi)) (snd (sched_stream chunks fi)).
Proof.
  intros p chunks fi Hb. rewrite sched_stream_eq. cbn [fst snd]. unfold run_session, ref_rtu_reopen.
  pose proof (sbytes_le chunks) as Hs.
  replace (reader_new (kind_of p)) with (rd rstate (PRtu p) Start buf_new) by (destruct p; reflexivity).
  set (G := run_fuel (rd rstate (PRtu p) Start buf_new) chunks).
  assert (HG : G = length (concat chunks) + 2) by reflexivity.
  rewrite (rtu_run_resume_ref p G buf_new chunks fi (S (length (sbytes chunks))) wf_new bytes_nil Hb)
    by (cbn [buf_new b_pend app]; lia).
  cbn [buf_new b_pend app].
  rewrite (rtu_gres_fuel p G (S (length (sbytes chunks)))) by lia.
  apply gres_is_reopen.
Qed.

(* what is left after a framing error is a suffix of the stream *)
Lemma body_after_suffix k d plen t : (forall t', exists pre, t' = pre ++ k t') -> exists pre, t = pre ++ rtu_body_after k d plen t.
Proof.
  intros Hk. unfold rtu_body_after. destruct (Nat.ltb 253 plen); [exists []; reflexivity|].
  destruct (Nat.ltb _ _); [exists t; now rewrite app_nil_r|].
  destruct (N.eqb _ _).
  - destruct (Hk (skipn (plen + 2) t)) as [pre Hp]. exists (firstn (plen + 2) t ++ pre). rewrite <- app_assoc, <- Hp. now rewrite firstn_skipn.
  - exists (firstn (plen + 2) t). now rewrite firstn_skipn.
Qed.
Lemma rref_after_suffix r : forall F s, exists pre, s = pre ++ rref_after F r s.
Proof.
  induction F as [|F IH]; intros s; [exists s; cbn; now rewrite app_nil_r|].
  destruct s as [|a [|fcv rest]]; [exists []; reflexivity|exists [a]; reflexivity|]. cbn [rref_after].
  assert (Hb : forall plen, exists pre, a :: fcv :: rest = pre ++ rtu_body_after (rref_after F r) a plen (fcv :: rest)).
  { intros plen. destruct (body_after_suffix (rref_after F r) a plen (fcv :: rest) (IH)) as [pre Hp]. exists (a :: pre). cbn [app]. now rewrite <- Hp. }
  destruct (length_rule r fcv); [apply Hb| |exists [a]; reflexivity].
  destruct (Nat.ltb _ _); [exists (a :: fcv :: rest); now rewrite app_nil_r|apply Hb].
Qed.

(* C06_gate across re-opens: whatever reaches the handler sits in the received stream with ITS OWN address and the correct CRC *)
Lemma reopen_gate p : forall G F s fi f, bytes s -> In (IFrame f) (fst (rref_reopen G F (role_of p) s fi)) -> carries s f.
Proof.
  induction G as [|G IH]; intros F s fi f Hb; [intros []|]. cbn [rref_reopen].
  pose proof (rref_gate p F s fi Hb) as Hg. destruct (rref F (role_of p) s fi) as [fs e]. cbn [fst] in Hg.
  assert (Hfs : In (IFrame f) (map IFrame fs) -> carries s f).
  { rewrite in_map_iff. intros (f' & Hf & Hin). inversion Hf; subst. now apply Hg. }
  destruct e; try (cbn [fst]; exact Hfs).
  destruct (rref_reopen G F (role_of p) (rref_after F (role_of p) s) fi) as [l e'] eqn:Er. cbn [fst].
  rewrite in_app_iff. intros [H|H]; [now apply Hfs|]. destruct H as [H|H]; [discriminate|].
  destruct (rref_after_suffix (role_of p) F s) as [pre Hp].
  assert (Hb' : bytes (rref_after F (role_of p) s)) by (rewrite Hp in Hb; unfold bytes in *; apply Forall_app in Hb; tauto).
  specialize (IH F (rref_after F (role_of p) s) fi f Hb'). rewrite Er in IH. destruct (IH H) as (pre' & post & Hc).
  exists (pre ++ pre'), post. rewrite Hp at 1. rewrite Hc, <- app_assoc. reflexivity.
Qed.

Theorem rtu_reopen_gate : forall p chunks fi f, Forall bytes chunks ->
  In (IFrame f) (fst (run_session (kind_of p) true chunks fi)) -> carries (fst (sched_stream chunks fi)) f.
Proof.
  intros p chunks fi f Hb. rewrite (rtu_reopen p chunks fi Hb), sched_stream_eq. cbn [fst snd]. unfold ref_rtu_reopen.
  apply reopen_gate. clear -Hb. induction Hb as [|c n Hc Hn IH]; [constructor|]. destruct c; [constructor|]. cbn [sbytes]. now apply bytes_app.
Qed.
