(* Lemmas for C04 (client response handling). *)
From Coq Require Import NArith List Lia Bool Arith ZArith ZifyBool ZifyNat ZifyN.
From Rodbus Require Import Base.Outcome Base.Cursor Base.ClientTypes Model.Range
  Model.ClientRequest Spec.ClientCodecSpec Gen.Consts Gen.ClientTables.
Import ListNotations.
Ltac Zify.zify_post_hook ::= Z.div_mod_to_equations.
Local Open Scope N_scope.
Arguments N.add : simpl never.
Arguments N.sub : simpl never.
Arguments N.mul : simpl never.
Arguments N.eqb : simpl never.
Arguments N.ltb : simpl never.
Arguments N.leb : simpl never.
Arguments N.div : simpl never.
Arguments N.modulo : simpl never.

(* the Spec's function numbers are the code's *)
Lemma reply_fc_function r : function_of r = reply_fc r.
Proof. destruct r; reflexivity. Qed.

Lemma exception_reply r c :
  handle_response r [reply_fc r + 128; c] = Err (EException (excode_of_u8 c)).
Proof. destruct r; reflexivity. Qed.

Lemma excode_roundtrip c : u8_of_excode (excode_of_u8 c) = c.
Proof.
  unfold excode_of_u8.
  repeat (match goal with |- context [match ?x with _ => _ end] => destruct x; try reflexivity end).
Qed.
