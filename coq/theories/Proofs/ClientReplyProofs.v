(* Lemmas for C04 (client response handling). *)
From Coq Require Import NArith List Lia Bool Arith ZArith ZifyBool ZifyNat ZifyN.
From Rodbus Require Import Base.Outcome Base.Cursor Base.ClientTypes Model.Range
  Model.ClientRequest Spec.ClientCodecSpec Gen.Consts Gen.ClientTables.
Import ListNotations.
Ltac Zify.zify_post_hook ::= Z.div_mod_to_equations.
Local Open Scope N_scope.
Arguments N.add : simpl never.
Arguments N.sub : simpl never.
Arguments N.mul : simpl never.
Arguments N.eqb : simpl never.
Arguments N.ltb : simpl never.
Arguments N.leb : simpl never.
Arguments N.div : simpl never.
Arguments N.modulo : simpl never.

(* the Spec's function numbers are the code's *)
Lemma reply_fc_function r : function_of r = reply_fc r.
Proof. destruct r; reflexivity. Qed.

Lemma exception_reply r c :
  handle_response r [reply_fc r + 128; c] = Err (EException (excode_of_u8 c)).
Proof. destruct r; reflexivity. Qed.

Lemma excode_roundtrip c : u8_of_excode (excode_of_u8 c) = c.
Proof.
  unfold excode_of_u8.
  repeat (match goal with |- context [match ?x with _ => _ end] => destruct x; try reflexivity end).
Qed.

(* ---- requests built by the API are well-formed ---- *)
Lemma try_from_wf s n rg : is_u16 s -> is_u16 n -> try_from s n = inr rg -> range_wf rg.
Proof.
  unfold is_u16, try_from, range_wf. intros Hs Hn.
  destruct (N.eqb_spec n 0); [discriminate|]. destruct (N.ltb_spec (65535 - (n - 1)) s); [discriminate|].
  intros Heq; inversion Heq; subst; cbn [fst snd]. unfold is_u16. lia.
Qed.

Lemma build_wf c r : call_wf c -> build c = Ok r -> request_wf r.
Proof.
  destruct c as [s n|s n|s n|s n|i v|i v|s vs|s vs]; cbn [call_wf build]; intros Hwf H.
  1,2,3,4: destruct Hwf as [Hs Hn]; unfold of_read_bits, of_read_registers, limited_count in H; cbn [fst snd] in H;
    destruct (try_from s n) as [e|rg] eqn:E; cbn [of_range obind] in H; [discriminate|];
    destruct (_ <? snd rg); cbn [of_range obind] in H; [discriminate|];
    inversion H; subst; cbn [request_wf];
    assert (rg = (s, n)) as <- by (revert E; unfold try_from; destruct (n =? 0); [discriminate|]; destruct (_ <? s); [discriminate|]; now intros [= <-]);
    apply (try_from_wf s n); assumption.
  1,2: inversion H; exact I.
  1,2: unfold write_multiple_from in H; destruct (N.ltb_spec 65535 (N.of_nat (length vs))); cbn [obind] in H; [discriminate|];
    destruct (try_from s (N.of_nat (length vs))) as [e|rg] eqn:E; cbn [of_range obind] in H; [discriminate|];
    inversion H; subst; cbn [request_wf]; apply (try_from_wf s (N.of_nat (length vs))); try assumption; unfold is_u16 in *; try tauto; lia.
Qed.

(* ---- reading exactly n bytes and nothing more ---- *)
Lemma read_exact {A} n (c : rcur) (k : list N -> outcome req_err A) :
  obind (R (rd_bytes n c)) (fun '(bytes, c2) => obind (expect_empty c2) (fun _ => k bytes)) =
  if (length c <? n)%nat then Err EInsufficientBytes
  else if (n <? length c)%nat then Err ETrailingBytes else k c.
Proof.
  unfold rd_bytes, R. destruct (Nat.leb_spec n (length c)) as [Hle|Hgt]; cbn [of_option obind].
  - destruct (Nat.ltb_spec (length c) n); [lia|]. unfold expect_empty, rd_is_empty.
    pose proof (skipn_length n c) as Hs.
    destruct (skipn n c) eqn:E; cbn [length] in Hs; destruct (Nat.ltb_spec n (length c)); try lia; cbn [obind]; [|reflexivity].
    now rewrite firstn_all2 by lia.
  - destruct (Nat.ltb_spec (length c) n); [reflexivity|lia].
Qed.

(* ---- BitIterator: `value & (1 << bit) != 0` is the bit ---- *)
Lemma land_bit_test v i : negb (N.land v (N.shiftl 1 i) =? 0) = N.testbit v i.
Proof.
  rewrite N.shiftl_1_l.
  assert (H : N.land v (2 ^ i) = if N.testbit v i then 2 ^ i else 0).
  { apply N.bits_inj. intros j. rewrite N.land_spec, N.pow2_bits_eqb.
    destruct (N.eqb_spec i j) as [->|Hne].
    - destruct (N.testbit v j); [now rewrite N.pow2_bits_true|now rewrite N.bits_0].
    - rewrite andb_false_r. destruct (N.testbit v i); [now rewrite N.pow2_bits_false|now rewrite N.bits_0]. }
  rewrite H. destruct (N.testbit v i).
  - assert (2 ^ i <> 0) by (apply N.pow_nonzero; lia). destruct (N.eqb_spec (2 ^ i) 0); [contradiction|reflexivity].
  - reflexivity.
Qed.

Lemma bit_collect_spec bytes s n : is_u16 n -> s + n <= 65536 ->
  N.of_nat (length bytes) = bytes_for_bits n ->
  forall fuel pos, pos + N.of_nat fuel = n ->
  bit_collect fuel bytes s n pos =
  Ok (map (fun k => (s + N.of_nat k, bit_at bytes k)) (seq (N.to_nat pos) fuel)).
Proof.
  unfold is_u16, bytes_for_bits. intros Hn Hs Hlen. induction fuel as [|f IH]; intros pos Hp; [reflexivity|].
  cbn [bit_collect seq map].
  destruct (N.eqb_spec pos n); [lia|].
  assert (Hidx : (N.to_nat (pos / 8) < length bytes)%nat) by lia.
  destruct (nth_error bytes (N.to_nat (pos / 8))) as [value|] eqn:E; [|apply nth_error_None in E; lia].
  apply (nth_error_nth _ _ 0) in E.
  destruct (N.ltb_spec 65535 (s + pos)); [lia|]. destruct (N.ltb_spec 65535 (pos + 1)); [lia|].
  rewrite IH by lia. cbn [obind]. rewrite land_bit_test.
  replace (N.to_nat (pos + 1)) with (S (N.to_nat pos)) by lia.
  f_equal. f_equal. f_equal; [lia|].
  unfold bit_at. rewrite <- E. f_equal; [f_equal; lia|lia].
Qed.

Lemma parse_bits_closed s n rest : range_wf (s, n) ->
  parse_bits_response (s, n) rest =
  match rest with
  | [] => Err EInsufficientBytes
  | _ :: data => if len data <? bytes_for_bits n then Err EInsufficientBytes
                 else if bytes_for_bits n <? len data then Err ETrailingBytes
                 else Ok (RespBits (indexed s (bit_at data) n))
  end.
Proof.
  unfold range_wf, is_u16. cbn [fst snd]. intros (Hs & Hn & H1 & Hov).
  unfold parse_bits_response. destruct rest as [|bc data]; [reflexivity|].
  cbn [rd_u8 R of_option obind fst snd].
  rewrite (read_exact (N.to_nat (num_bytes_for_bits n)) data
             (fun bytes => obind (bit_collect (N.to_nat n) bytes s n 0) (fun l => Ok (RespBits l)))).
  unfold num_bytes_for_bits, len, bytes_for_bits in *.
  destruct (Nat.ltb_spec (length data) (N.to_nat ((n + 7) / 8))), (N.ltb_spec (N.of_nat (length data)) ((n + 7) / 8)); try lia; [reflexivity|].
  destruct (Nat.ltb_spec (N.to_nat ((n + 7) / 8)) (length data)), (N.ltb_spec ((n + 7) / 8) (N.of_nat (length data))); try lia; [reflexivity|].
  rewrite (bit_collect_spec data s n) by (unfold is_u16, bytes_for_bits; lia). reflexivity.
Qed.

(* ---- RegisterIterator::collect_vec ---- *)
Lemma reg_at_shift h l rest k : reg_at (h :: l :: rest) (S k) = reg_at rest k.
Proof. unfold reg_at. replace (2 * S k)%nat with (S (S (2 * k))) by lia. reflexivity. Qed.

Lemma reg_collect_spec s : forall m bytes i, length bytes = (2 * m)%nat ->
  s + i + N.of_nat m <= 65536 -> i + N.of_nat m <= 65536 ->
  reg_collect bytes s i = Ok (map (fun k => (s + i + N.of_nat k, reg_at bytes k)) (seq 0 m)).
Proof.
  induction m as [|m IH]; intros bytes i Hlen Hs Hi.
  - destruct bytes; [reflexivity|discriminate].
  - destruct bytes as [|h [|l rest]]; try (cbn in Hlen; lia).
    cbn [reg_collect]. rewrite (N.mod_small i 65536) by lia.
    destruct (N.ltb_spec 65535 (s + i)); [lia|].
    rewrite (IH rest (i + 1)) by (cbn [length] in *; lia). cbn [obind seq map].
    f_equal. f_equal; [f_equal; lia|].
    rewrite <- seq_shift, map_map. apply map_ext. intros k. rewrite reg_at_shift. f_equal. lia.
Qed.

Lemma parse_registers_closed s n rest : range_wf (s, n) ->
  parse_registers_response (s, n) rest =
  match rest with
  | [] => Err EInsufficientBytes
  | _ :: data => if len data <? 2 * n then Err EInsufficientBytes
                 else if 2 * n <? len data then Err ETrailingBytes
                 else Ok (RespRegisters (indexed s (reg_at data) n))
  end.
Proof.
  unfold range_wf, is_u16. cbn [fst snd]. intros (Hs & Hn & H1 & Hov).
  unfold parse_registers_response. destruct rest as [|bc data]; [reflexivity|].
  cbn [rd_u8 R of_option obind fst snd].
  rewrite (read_exact (2 * N.to_nat n) data
             (fun bytes => obind (reg_collect bytes s 0) (fun l => Ok (RespRegisters l)))).
  unfold len.
  destruct (Nat.ltb_spec (length data) (2 * N.to_nat n)), (N.ltb_spec (N.of_nat (length data)) (2 * n)); try lia; [reflexivity|].
  destruct (Nat.ltb_spec (2 * N.to_nat n) (length data)), (N.ltb_spec (2 * n) (N.of_nat (length data))); try lia; [reflexivity|].
  rewrite (reg_collect_spec s (N.to_nat n)) by lia. cbn [obind]. unfold indexed.
  f_equal. f_equal. apply map_ext. intros k. f_equal. lia.
Qed.

(* ---- the success direction: Ok v  <->  the Spec's genuine reply with data v ---- *)
Lemma ok_some {A} (x y : A) : Ok (E := req_err) x = Ok y <-> Some x = Some y.
Proof. split; intros H; inversion H; reflexivity. Qed.
Lemma err_none {A} (e : req_err) (y : A) : Err e = Ok y <-> None = Some y.
Proof. split; discriminate. Qed.

Ltac fin := first [apply ok_some | apply err_none].


Ltac wrong_fc Ef := repeat (match goal with |- context [match ?l with [] => _ | _ => _ end] => is_var l; destruct l end);
  cbn [ref_reply]; rewrite ?Ef; cbn [andb]; fin.
Ltac split_fc f :=
  match goal with |- context [negb (f =? ?k)] => destruct (f =? k) eqn:Ef;
    [apply N.eqb_eq in Ef; subst f; cbn [negb] | cbn [negb] ] end.

Ltac eqs := repeat match goal with
  | H : (_ =? _) = true |- _ => apply N.eqb_eq in H
  | H : (_ =? _) = false |- _ => apply N.eqb_neq in H end.
Ltac done := eqs; subst; first [fin | exfalso; lia].

Theorem ok_iff r pdu v : request_wf r ->
  (handle_response r pdu = Ok v <-> ref_reply r pdu = Some v).
Proof.
  intros Hwf. destruct pdu as [|f rest]; [destruct r as [[? ?]|[? ?]|[? ?]|[? ?]|? ?|? ?|[? ?] ?|[? ?] ?]; fin|].
  unfold handle_response. cbn [rd_u8].
  destruct r as [[s n]|[s n]|[s n]|[s n]|i x|i x|[s n] vs|[s n] vs]; cbn [request_wf] in Hwf;
    (change (function_of _) with 1 || change (function_of _) with 2 || change (function_of _) with 3
     || change (function_of _) with 4 || change (function_of _) with 5 || change (function_of _) with 6
     || change (function_of _) with 15 || change (function_of _) with 16);
    cbn [details_handle_response]; split_fc f.
  all: try (destruct rest as [|? [|? [|? [|? [|? ?]]]]]; cbn [ref_reply]; rewrite ?Ef; cbn [andb]; fin).
  1,2: rewrite parse_bits_closed by assumption; destruct rest as [|bc data]; [fin|]; cbn [ref_reply]; rewrite N.eqb_refl; cbn [andb];
    destruct (N.ltb_spec (len data) (bytes_for_bits n)), (N.eqb_spec (len data) (bytes_for_bits n)); try lia; try fin;
    destruct (N.ltb_spec (bytes_for_bits n) (len data)); try lia; fin.
  1,2: rewrite parse_registers_closed by assumption; destruct rest as [|bc data]; [fin|]; cbn [ref_reply]; rewrite N.eqb_refl; cbn [andb];
    destruct (N.ltb_spec (len data) (2 * n)), (N.eqb_spec (len data) (2 * n)); try lia; try fin;
    destruct (N.ltb_spec (2 * n) (len data)); try lia; fin.
  - destruct rest as [|i1 [|i0 [|v1 [|v0 tl]]]]; try fin.
    unfold parse_single_coil. cbn [rd_u16 R of_option obind]. unfold coil_from_u16, coil_on, coil_off, u16_of.
    destruct tl as [|t tl]; cbn [ref_reply]; unfold u16; rewrite ?N.eqb_refl; cbn [andb].
    + destruct x; destruct (v1 * 256 + v0 =? 65280) eqn:E1; destruct (v1 * 256 + v0 =? 0) eqn:E0;
        destruct (i1 * 256 + i0 =? i) eqn:Ei; cbn [obind expect_empty rd_is_empty andb Bool.eqb]; done.
    + destruct (v1 * 256 + v0 =? 65280) eqn:E1; destruct (v1 * 256 + v0 =? 0) eqn:E0;
        cbn [obind expect_empty rd_is_empty andb Bool.eqb]; done.
  - destruct rest as [|i1 [|i0 [|v1 [|v0 tl]]]]; try fin.
    unfold parse_single_register. cbn [rd_u16 R of_option obind]. unfold u16_of.
    destruct tl as [|t tl]; cbn [ref_reply]; unfold u16; rewrite ?N.eqb_refl; cbn [andb expect_empty rd_is_empty obind]; [|fin].
    destruct (v1 * 256 + v0 =? x) eqn:E1; destruct (i1 * 256 + i0 =? i) eqn:Ei; cbn [andb]; done.
  - destruct rest as [|s1 [|s0 [|n1 [|n0 tl]]]]; try fin;
    unfold parse_multiple; cbn [rd_u16 R of_option obind fst snd]; unfold u16_of, try_from;
    unfold range_wf, is_u16 in Hwf; cbn [fst snd] in Hwf;
    destruct tl as [|t tl]; cbn [ref_reply]; unfold u16; rewrite ?N.eqb_refl; cbn [andb];
    destruct (n1 * 256 + n0 =? 0) eqn:Ez; cbn [of_range obind fst snd of_range_err];
    try (destruct (65535 - (n1 * 256 + n0 - 1) <? s1 * 256 + s0) eqn:Eo; cbn [of_range obind fst snd of_range_err]);
    try (destruct (s1 * 256 + s0 =? s) eqn:Es; destruct (n1 * 256 + n0 =? n) eqn:En; cbn [andb negb expect_empty rd_is_empty obind]);
    try fin; try apply N.ltb_lt in Eo; try apply N.ltb_ge in Eo; done.
  - destruct rest as [|s1 [|s0 [|n1 [|n0 tl]]]]; try fin;
    unfold parse_multiple; cbn [rd_u16 R of_option obind fst snd]; unfold u16_of, try_from;
    unfold range_wf, is_u16 in Hwf; cbn [fst snd] in Hwf;
    destruct tl as [|t tl]; cbn [ref_reply]; unfold u16; rewrite ?N.eqb_refl; cbn [andb];
    destruct (n1 * 256 + n0 =? 0) eqn:Ez; cbn [of_range obind fst snd of_range_err];
    try (destruct (65535 - (n1 * 256 + n0 - 1) <? s1 * 256 + s0) eqn:Eo; cbn [of_range obind fst snd of_range_err]);
    try (destruct (s1 * 256 + s0 =? s) eqn:Es; destruct (n1 * 256 + n0 =? n) eqn:En; cbn [andb negb expect_empty rd_is_empty obind]);
    try fin; try apply N.ltb_lt in Eo; try apply N.ltb_ge in Eo; done.
Qed.

(* ---- no parser fabricates an exception, none panics ---- *)
Definition no_exc {A} (o : outcome req_err A) : Prop := forall ex, o <> Err (EException ex).
Definition no_panic {A} (o : outcome req_err A) : Prop := o <> Panic.
Definition quiet {A} (o : outcome req_err A) : Prop := no_exc o /\ no_panic o.

Lemma quiet_ok {A} (a : A) : quiet (Ok a).
Proof. split; [intros ex|]; discriminate. Qed.
Lemma quiet_err {A} e : ~ is_exception e -> quiet (@Err req_err A e).
Proof. intros H. split; [intros ex Heq; inversion Heq; subst; apply H; exact I|discriminate]. Qed.
Lemma quiet_bind {A B} (o : outcome req_err A) (f : A -> outcome req_err B) :
  quiet o -> (forall a, quiet (f a)) -> quiet (obind o f).
Proof.
  intros [He Hp] Hf. destruct o as [a|e|]; cbn [obind]; [apply Hf| |contradiction].
  split; [intros ex Heq; inversion Heq; subst; now apply (He ex)|discriminate].
Qed.
Lemma quiet_R {A} (o : option A) : quiet (R o).
Proof. destruct o; [apply quiet_ok|apply quiet_err; exact (fun x => x)]. Qed.
Lemma quiet_expect_empty c : quiet (expect_empty c).
Proof. unfold expect_empty. destruct (rd_is_empty c); [apply quiet_ok|apply quiet_err; exact (fun x => x)]. Qed.
Lemma quiet_of_range {A} (x : range_err + A) : quiet (of_range x).
Proof. destruct x as [[]|a]; [apply quiet_err; exact (fun x => x)..|apply quiet_ok]. Qed.
Lemma quiet_coil v : quiet (coil_from_u16 v).
Proof. unfold coil_from_u16. destruct (_ =? _); [apply quiet_ok|]. destruct (_ =? _); [apply quiet_ok|apply quiet_err; exact (fun x => x)]. Qed.

Lemma quiet_details r c : request_wf r -> quiet (details_handle_response r c).
Proof.
  intros Hwf. destruct r as [[s n]|[s n]|[s n]|[s n]|i x|i x|[s n] vs|[s n] vs]; cbn [request_wf details_handle_response] in *.
  1,2: rewrite parse_bits_closed by assumption; destruct c as [|bc data]; [apply quiet_err; exact (fun x => x)|];
       destruct (_ <? _); [apply quiet_err; exact (fun x => x)|]; destruct (_ <? _); [apply quiet_err; exact (fun x => x)|apply quiet_ok].
  1,2: rewrite parse_registers_closed by assumption; destruct c as [|bc data]; [apply quiet_err; exact (fun x => x)|];
       destruct (_ <? _); [apply quiet_err; exact (fun x => x)|]; destruct (_ <? _); [apply quiet_err; exact (fun x => x)|apply quiet_ok].
  - unfold parse_single_coil. apply quiet_bind; [apply quiet_R|intros [ri c1]].
    apply quiet_bind; [apply quiet_R|intros [raw c2]]. apply quiet_bind; [apply quiet_coil|intros rv].
    apply quiet_bind; [apply quiet_expect_empty|intros _]. destruct (_ && _); [apply quiet_ok|apply quiet_err; exact (fun x => x)].
  - unfold parse_single_register. apply quiet_bind; [apply quiet_R|intros [ri c1]].
    apply quiet_bind; [apply quiet_R|intros [rv c2]].
    apply quiet_bind; [apply quiet_expect_empty|intros _]. destruct (_ && _); [apply quiet_ok|apply quiet_err; exact (fun x => x)].
  - unfold parse_multiple. apply quiet_bind; [apply quiet_R|intros [rs c1]].
    apply quiet_bind; [apply quiet_R|intros [rn c2]]. apply quiet_bind; [apply quiet_of_range|intros rg].
    destruct (negb _); [apply quiet_err; exact (fun x => x)|]. apply quiet_bind; [apply quiet_expect_empty|intros _; apply quiet_ok].
  - unfold parse_multiple. apply quiet_bind; [apply quiet_R|intros [rs c1]].
    apply quiet_bind; [apply quiet_R|intros [rn c2]]. apply quiet_bind; [apply quiet_of_range|intros rg].
    destruct (negb _); [apply quiet_err; exact (fun x => x)|]. apply quiet_bind; [apply quiet_expect_empty|intros _; apply quiet_ok].
Qed.

Lemma as_error_value r : N.lor (function_of r) error_mask = reply_fc r + 128.
Proof. destruct r; reflexivity. Qed.

(* an exception result comes only from a well-formed exception reply, with exactly its code *)
Theorem exception_only r pdu ex : request_wf r ->
  handle_response r pdu = Err (EException ex) ->
  exists c, ref_exception r pdu = Some c /\ ex = excode_of_u8 c.
Proof.
  intros Hwf. unfold handle_response. destruct pdu as [|f rest]; cbn [rd_u8]; [discriminate|].
  destruct (negb (f =? function_of r)) eqn:Ef.
  - unfold get_error_for. rewrite as_error_value. destruct (N.eqb_spec f (reply_fc r + 128)) as [->|Hne]; [|discriminate].
    destruct rest as [|x [|y tl]]; cbn [rd_u8 rd_is_empty]; try discriminate.
    intros H. inversion H. exists x. cbn [ref_exception]. now rewrite N.eqb_refl.
  - intros H. exfalso. exact (proj1 (quiet_details r rest Hwf) ex H).
Qed.

Theorem response_total r pdu : request_wf r -> handle_response r pdu <> Panic.
Proof.
  intros Hwf. unfold handle_response. destruct pdu as [|f rest]; cbn [rd_u8]; [discriminate|].
  destruct (negb (f =? function_of r)); [discriminate|]. exact (proj2 (quiet_details r rest Hwf)).
Qed.

(* every other reply fails the request with an error that is not an exception *)
Theorem otherwise_error r pdu : request_wf r ->
  ref_reply r pdu = None -> ref_exception r pdu = None ->
  exists e, handle_response r pdu = Err e /\ ~ is_exception e.
Proof.
  intros Hwf Hr Hx. destruct (handle_response r pdu) as [v|e|] eqn:E.
  - apply (ok_iff r pdu v Hwf) in E. congruence.
  - exists e. split; [reflexivity|]. destruct e; try exact (fun x => x).
    destruct (exception_only r pdu ex Hwf E) as (c & Hc & _). congruence.
  - exfalso. exact (response_total r pdu Hwf E).
Qed.

(* the data of a genuine read reply: exactly count values, the k-th at address start + k *)
Lemma indexed_length {A} s (f : nat -> A) n : length (indexed s f n) = N.to_nat n.
Proof. unfold indexed. now rewrite map_length, seq_length. Qed.
Lemma indexed_nth {A} s (f : nat -> A) n k d : (k < N.to_nat n)%nat ->
  nth k (indexed s f n) d = (s + N.of_nat k, f k).
Proof.
  intros H. unfold indexed. rewrite (nth_indep _ d (s + N.of_nat 0, f 0%nat)) by (now rewrite map_length, seq_length).
  rewrite (map_nth (fun k => (s + N.of_nat k, f k)) (seq 0 (N.to_nat n)) 0%nat k). now rewrite seq_nth.
Qed.

(* readable form of the success case for the two bit reads and the two register reads *)
Theorem read_bits_data s n pdu v r : r = RReadCoils (s, n) \/ r = RReadDiscreteInputs (s, n) -> request_wf r ->
  handle_response r pdu = Ok v ->
  exists bc data l, pdu = reply_fc r :: bc :: data /\ len data = bytes_for_bits n /\ v = RespBits l /\
    length l = N.to_nat n /\
    forall k d, (k < N.to_nat n)%nat ->
      nth k l d = (s + N.of_nat k, N.testbit (nth (k / 8)%nat data 0) (N.of_nat (k mod 8)%nat)).
Proof.
  intros Hr Hwf H. apply (ok_iff r pdu v Hwf) in H.
  destruct Hr as [-> | ->]; cbn [ref_reply reply_fc] in *;
    (destruct pdu as [|f [|bc data]]; try discriminate;
     match type of H with context [f =? ?k] => destruct (N.eqb_spec f k) as [->|] end; cbn [andb] in H; try discriminate;
     destruct (N.eqb_spec (len data) (bytes_for_bits n)) as [Hl|]; try discriminate;
     inversion H; subst; exists bc, data, (indexed s (bit_at data) n);
     repeat split; try assumption; [apply indexed_length|intros k d Hk; now rewrite indexed_nth]).
Qed.

Theorem read_registers_data s n pdu v r : r = RReadHoldingRegisters (s, n) \/ r = RReadInputRegisters (s, n) -> request_wf r ->
  handle_response r pdu = Ok v ->
  exists bc data l, pdu = reply_fc r :: bc :: data /\ len data = 2 * n /\ v = RespRegisters l /\
    length l = N.to_nat n /\
    forall k d, (k < N.to_nat n)%nat ->
      nth k l d = (s + N.of_nat k, nth (2 * k)%nat data 0 * 256 + nth (2 * k + 1)%nat data 0).
Proof.
  intros Hr Hwf H. apply (ok_iff r pdu v Hwf) in H.
  destruct Hr as [-> | ->]; cbn [ref_reply reply_fc] in *;
    (destruct pdu as [|f [|bc data]]; try discriminate;
     match type of H with context [f =? ?k] => destruct (N.eqb_spec f k) as [->|] end; cbn [andb] in H; try discriminate;
     destruct (N.eqb_spec (len data) (2 * n)) as [Hl|]; try discriminate;
     inversion H; subst; exists bc, data, (indexed s (reg_at data) n);
     repeat split; try assumption; [apply indexed_length|intros k d Hk; now rewrite indexed_nth]).
Qed.

(* ---- round trip with the server-side encoding (Proofs/PackProofs.v) ---- *)
From Rodbus Require Import Proofs.PackProofs.

Lemma reg_at_flat_map regs : forall k, reg_at (flat_map be regs) k = nth k regs 0.
Proof.
  induction regs as [|v r IH]; intros k.
  - unfold reg_at. cbn [flat_map]. rewrite !nth_overflow by (cbn [length]; lia). lia.
  - cbn [flat_map be app]. destruct k as [|k]; [unfold reg_at; cbn [nth Nat.mul Nat.add]; lia|].
    rewrite reg_at_shift. cbn [nth]. apply IH.
Qed.

Theorem roundtrip_bits r s bits bc : r = RReadCoils (s, len bits) \/ r = RReadDiscreteInputs (s, len bits) -> request_wf r ->
  handle_response r (reply_fc r :: bc :: pack bits) = Ok (RespBits (indexed s (fun k => nth k bits false) (len bits))).
Proof.
  intros Hr Hwf. apply (ok_iff _ _ _ Hwf).
  destruct Hr as [-> | ->]; cbn [ref_reply reply_fc]; rewrite N.eqb_refl, pack_length, N.eqb_refl; cbn [andb];
    do 2 f_equal; unfold indexed; apply map_ext; intros k; f_equal; apply pack_bit.
Qed.

Lemma len_flat_map_be regs : len (flat_map be regs) = 2 * len regs.
Proof. unfold len. induction regs as [|v rs IH]; [reflexivity|]. cbn [flat_map]. rewrite app_length. cbn [be length]. lia. Qed.

Theorem roundtrip_registers r s regs bc : r = RReadHoldingRegisters (s, len regs) \/ r = RReadInputRegisters (s, len regs) -> request_wf r ->
  handle_response r (reply_fc r :: bc :: flat_map be regs) = Ok (RespRegisters (indexed s (fun k => nth k regs 0) (len regs))).
Proof.
  intros Hr Hwf. apply (ok_iff _ _ _ Hwf).
  pose proof (len_flat_map_be regs) as Hl.
  destruct Hr as [-> | ->]; cbn [ref_reply reply_fc]; rewrite N.eqb_refl, Hl, N.eqb_refl; cbn [andb];
    do 2 f_equal; unfold indexed; apply map_ext; intros k; f_equal; apply reg_at_flat_map.
Qed.
