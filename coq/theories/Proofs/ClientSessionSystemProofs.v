(* Composition for a sequence of requests on one connection: p2's "the connection goes on" lemmas
   (a reader that represents the leftover bytes: theorems C05_continue_fresh, _run, _step) + the single-exchange composition
   of Proofs/ClientSystemProofs.v. *)
From Coq Require Import NArith List Bool Arith Lia.
From Rodbus Require Import Base.Outcome Gen.SessionErrors.
From Rodbus Require Base.Frame Base.ClientTypes Model.Reader Model.ClientRequest Model.ClientTask
  Spec.Framing Spec.ClientCodecSpec Spec.SystemClientSpec Spec.SystemClientSessionSpec Model.SystemClient Model.SystemClientSession
  Proofs.ReaderGeneric Proofs.C05Proofs Proofs.ClientReplyProofs Proofs.ClientSystemProofs.
Import ListNotations.
Module F := Rodbus.Base.Frame.
Module CT := Rodbus.Base.ClientTypes.
Module CR := Rodbus.Model.ClientRequest.
Module T := Rodbus.Model.ClientTask.
Module SS := Rodbus.Spec.SystemClientSpec.
Module XS := Rodbus.Spec.SystemClientSessionSpec.
Import SystemClient SystemClientSession ClientSystemProofs.
Local Open Scope N_scope.

Section Sys.
Variable cfg : T.config.
Variable reqs : content.

(* the frames of an exchange, whatever cut them: the verdict for the request in flight *)
Lemma frames_verdict st r t d fs e :
  T.ph st = T.PInFlight r t d -> T.partial st = None -> CT.request_wf (reqs (T.rq_id r)) ->
  Forall (fun f => F.f_tx f <> None) fs ->
  (let '(s1, o1, d1) := deliver cfg reqs st fs in
   let '(s2, o2) := T.run cfg s1 (end_events e) in
   verdict_for (T.rq_id r) (s2, o1 ++ o2, d1)) =
  match find (SS.tx_is t) fs with
  | Some f => SS.ref_reply_verdict (reqs (T.rq_id r)) (F.f_pdu f)
  | None => SS.ref_end_verdict e
  end.
Proof.
  intros Hph Hp Hwf Htx. pose proof (deliver_inflight cfg reqs st r t d Hph Hp Hwf fs Htx) as D.
  destruct (find (SS.tx_is t) fs) as [f|].
  - destruct D as (s' & o' & d' & D). rewrite D. destruct (T.run cfg s' (end_events e)) as [s2 o2].
    cbn [verdict_for find fst]. rewrite Nat.eqb_refl. apply reply_verdict. exact Hwf.
  - rewrite D. pose proof (end_inflight cfg st r t d Hph Hp e) as E. destruct (T.run cfg st (end_events e)) as [s2 o2].
    cbn [snd app verdict_for find] in *. rewrite E. destruct e as [fe|k| | |]; reflexivity.
Qed.

(* ONE exchange from a reader that holds the leftover `left` of the connection so far *)
Theorem exchange_from_ref rd left st r t d chunks fi :
  C05Proofs.tcp_represents rd left ->
  T.ph st = T.PInFlight r t d -> T.partial st = None -> CT.request_wf (reqs (T.rq_id r)) ->
  Forall (fun c => c <> []) chunks ->
  let '(rd1, e, res) := exchange_from cfg reqs rd st chunks fi in
  verdict_for (T.rq_id r) res = SS.ref_client_result (reqs (T.rq_id r)) t (left ++ concat chunks) fi /\
  e = snd (Framing.ref_frames (left ++ concat chunks) fi) /\
  (fi = F.FinPending -> e = F.EndPending -> C05Proofs.tcp_represents rd1 (Framing.mbap_tail (left ++ concat chunks))).
Proof.
  intros Hrep Hph Hp Hwf Hne. unfold exchange_from.
  destruct (C05Proofs.tcp_run_represents rd left chunks fi Hrep) as [_ Hrun].
  destruct (ReaderGeneric.sbytes_nonempty chunks Hne) as [Hs Hf]. rewrite Hs, Hf in Hrun.
  destruct (Reader.run_reader_st (Reader.run_fuel rd chunks) rd chunks fi) as [rd1 [items e]] eqn:Est.
  cbn [snd] in Hrun. unfold C05Proofs.lift_frames in Hrun. injection Hrun as Hi He.
  rewrite Hi, He, frames_of_map.
  pose proof (ref_tx_some (S (length (left ++ concat chunks))) (left ++ concat chunks) fi) as Htx.
  pose proof (frames_verdict st r t d (fst (Framing.ref_frames (left ++ concat chunks) fi)) (snd (Framing.ref_frames (left ++ concat chunks) fi)) Hph Hp Hwf Htx) as V.
  destruct (deliver cfg reqs st (fst (Framing.ref_frames (left ++ concat chunks) fi))) as [[s1 o1] d1].
  destruct (T.run cfg s1 (end_events (snd (Framing.ref_frames (left ++ concat chunks) fi)))) as [s2 o2].
  split; [|split].
  - rewrite V. unfold SS.ref_client_result. destruct (Framing.ref_frames (left ++ concat chunks) fi) as [fs e']. reflexivity.
  - reflexivity.
  - intros Hfi Hend. subst fi. rewrite <- He in Hend. rewrite Hend in Est.
    destruct (C05Proofs.tcp_represents_step rd left chunks rd1 _ Hrep Est) as (R & _ & _). rewrite Hs in R. exact R.
Qed.

(* a SEQUENCE of exchanges *)
Definition exchange_ok (x : T.state * nat * Reader.net) : Prop :=
  let '(st, id, chunks) := x in
  (exists r t d, T.ph st = T.PInFlight r t d /\ T.rq_id r = id) /\ T.partial st = None /\
  CT.request_wf (reqs id) /\ Forall (fun c => c <> []) chunks.

Definition tx_of_state (st : T.state) : N := match T.ph st with T.PInFlight _ t _ => t | _ => 0 end.
Definition spec_exchange (x : T.state * nat * Reader.net) : XS.exchange :=
  let '(st, id, chunks) := x in (reqs id, tx_of_state st, concat chunks).

Theorem session_from_ref : forall xs rd left, C05Proofs.tcp_represents rd left -> Forall exchange_ok xs ->
  session_from cfg reqs rd xs = XS.ref_session left (map spec_exchange xs).
Proof.
  induction xs as [|[[st id] chunks] xs IH]; intros rd left Hrep Hok; [reflexivity|].
  inversion Hok as [|x xs' Hx Hrest]; subst. destruct Hx as ((r & t & d & Hph & Hid) & Hp & Hwf & Hne).
  cbn [session_from map spec_exchange XS.ref_session]. unfold tx_of_state. rewrite Hph. subst id.
  pose proof (exchange_from_ref rd left st r t d chunks F.FinPending Hrep Hph Hp Hwf Hne) as E.
  destruct (exchange_from cfg reqs rd st chunks F.FinPending) as [[rd1 e] res]. destruct E as (Hv & He & Hnext).
  rewrite Hv, <- He. f_equal. destruct e; try reflexivity. apply IH; [apply Hnext; reflexivity|exact Hrest].
Qed.

Corollary client_session_ref xs : Forall exchange_ok xs ->
  client_session cfg reqs xs = XS.ref_session [] (map spec_exchange xs).
Proof. intros H. unfold client_session. apply session_from_ref; [exact C05Proofs.tcp_represents_fresh|exact H]. Qed.

End Sys.

(* ---------- readings of the Spec ---------- *)
(* at a frame boundary nothing is left over: an exchange whose bytes are complete frames hands an
   empty leftover to the next one, which is then decided on its own bytes alone *)
Lemma ref_session_framed left fs r t rest :
  Framing.framed left fs ->
  XS.ref_session left ((r, t, []) :: rest) =
  SS.ref_client_result r t left F.FinPending :: XS.ref_session [] rest.
Proof.
  intros Hfr. cbn [XS.ref_session]. rewrite app_nil_r. f_equal.
  rewrite (C05Proofs.ref_frames_framed left fs F.FinPending Hfr). cbn [snd Framing.end_of].
  rewrite (C05Proofs.mbap_tail_framed left fs Hfr). reflexivity.
Qed.

(* the late remainder of a reply to a timed-out request is consumed as the rest of THAT frame: if
   exchange k ends inside a frame (leftover `left`) and the next bytes complete it, that frame is
   the first one of exchange k+1 and carries the OLD transaction id, so it is skipped *)
Lemma late_remainder_skipped r t left rest_of_frame fs s :
  Framing.framed (left ++ rest_of_frame) fs -> Forall (fun f => SS.tx_is t f = false) fs ->
  SS.ref_client_result r t (left ++ rest_of_frame ++ s) F.FinPending = SS.ref_client_result r t s F.FinPending.
Proof. intros Hfr Hno. rewrite app_assoc. exact (other_tx_skipped r t _ fs s F.FinPending Hfr Hno). Qed.

(* ---------- several connections: every connection is decided by its own bytes alone ---------- *)
Section Conns.
Variable cfg : T.config.
Variable reqs : content.

Definition xchg_ok (x : xchg) : Prop :=
  let '(st, id, chunks, fi) := x in
  (exists r t d, T.ph st = T.PInFlight r t d /\ T.rq_id r = id) /\ T.partial st = None /\
  CT.request_wf (reqs id) /\ Forall (fun c => c <> []) chunks.
Definition spec_xchg (x : xchg) : XS.exchange_fi :=
  let '(st, id, chunks, fi) := x in (reqs id, tx_of_state st, concat chunks, fi).

Lemma session_fi_ref : forall xs rd left, C05Proofs.tcp_represents rd left -> C05Proofs.is_tcp rd -> Forall xchg_ok xs ->
  snd (session_fi cfg reqs rd xs) = XS.ref_session_fi left (map spec_xchg xs) /\ C05Proofs.is_tcp (fst (session_fi cfg reqs rd xs)).
Proof.
  induction xs as [|[[[st id] chunks] fi] xs IH]; intros rd left Hrep Htcp Hok; [split; [reflexivity|exact Htcp]|].
  inversion Hok as [|x xs' Hx Hrest]; subst. destruct Hx as ((r & t & d & Hph & Hid) & Hp & Hwf & Hne).
  cbn [session_fi map spec_xchg XS.ref_session_fi]. unfold tx_of_state. rewrite Hph. subst id.
  pose proof (exchange_from_ref cfg reqs rd left st r t d chunks fi Hrep Hph Hp Hwf Hne) as E.
  assert (Htcp1 : C05Proofs.is_tcp (fst (fst (exchange_from cfg reqs rd st chunks fi)))).
  { unfold exchange_from. pose proof (C05Proofs.run_reader_st_tcp (Reader.run_fuel rd chunks) rd chunks fi Htcp) as H.
    destruct (Reader.run_reader_st (Reader.run_fuel rd chunks) rd chunks fi) as [rd1 [items e]].
    destruct (deliver cfg reqs st (Reader.frames_of items)) as [[s1 o1] d1]. destruct (T.run cfg s1 (end_events e)) as [s2 o2]. exact H. }
  destruct (exchange_from cfg reqs rd st chunks fi) as [[rd1 e] res]. cbn [fst] in Htcp1. destruct E as (Hv & He & Hnext).
  rewrite Hv.
  destruct fi; try (split; [reflexivity|exact Htcp1]).
  rewrite <- He. destruct e; try (split; [reflexivity|exact Htcp1]).
  destruct (IH rd1 _ (Hnext eq_refl eq_refl) Htcp1 Hrest) as [I1 I2].
  destruct (session_fi cfg reqs rd1 xs) as [rd2 vs]. cbn [fst snd] in *. rewrite I1. split; [reflexivity|exact I2].
Qed.

Theorem connections_ref : forall conns rd, C05Proofs.is_tcp rd -> Forall (Forall xchg_ok) conns ->
  connections_from cfg reqs rd conns = XS.ref_connections (map (map spec_xchg) conns).
Proof.
  induction conns as [|c conns IH]; intros rd Htcp Hok; [reflexivity|].
  inversion Hok as [|c' cs Hc Hrest]; subst. cbn [connections_from XS.ref_connections map].
  assert (Hreset : Reader.reader_reset rd = Reader.reader_new Reader.KTcp) by (destruct rd as [[st|t st] b]; [reflexivity|destruct Htcp]).
  rewrite Hreset.
  destruct (session_fi_ref c (Reader.reader_new Reader.KTcp) [] C05Proofs.tcp_represents_fresh I Hc) as [S1 S2].
  destruct (session_fi cfg reqs (Reader.reader_new Reader.KTcp) c) as [rd1 vs]. cbn [fst snd] in *.
  rewrite S1. f_equal. exact (IH rd1 S2 Hrest).
Qed.
End Conns.
