From Coq Require Import NArith List Lia Bool Arith ZArith ZifyBool ZifyNat ZifyN.
From Rodbus Require Import Model.Retry Spec.RetrySpec Proofs.RetryProofs Model.RetryTask.
Import ListNotations.
Local Open Scope N_scope.

(* ------------------------------------------------------------------ announced delay = armed delay *)
Lemma announce_then_arm v t e t' o k d : tstep v t e = Some (t', o) -> In (OAnnounce k d) o ->
  (exists pre, o = pre ++ [OAnnounce k d; OArm d]) /\ phase t' = Waiting d.
Proof.
  unfold tstep. destruct (phase t) as [|w|]; destruct e; intros H Hin;
    try (inversion H; subst; cbn in Hin; repeat (destruct Hin as [Hin|Hin]; try discriminate Hin); contradiction).
  - destruct (step (strat t) Fail) as [[s' [d0|]]|]; try discriminate. inversion H; subst. clear H.
    destruct v; cbn in Hin |- *.
    + destruct Hin as [Hin|[Hin|[Hin|[]]]]; try discriminate. inversion Hin; subst. split; [now exists [OAttempt]|reflexivity].
    + destruct Hin as [Hin|[Hin|[Hin|[]]]]; try discriminate. inversion Hin; subst. split; [now exists [OAttempt]|reflexivity].
    + destruct Hin as [Hin|[Hin|[]]]; discriminate.
  - destruct (step (strat t) Reset) as [[s' x]|]; try discriminate. inversion H; subst. clear H.
    destruct v; cbn in Hin; repeat (destruct Hin as [Hin|Hin]; try discriminate Hin); contradiction.
  - destruct (step (strat t) Disc) as [[s' [d0|]]|]; try discriminate. inversion H; subst. clear H.
    destruct v; cbn in Hin |- *.
    + destruct Hin as [Hin|[Hin|[]]]; try discriminate. inversion Hin; subst. split; [now exists []|reflexivity].
    + destruct Hin as [Hin|[Hin|[]]]; try discriminate. inversion Hin; subst. split; [now exists []|reflexivity].
    + destruct Hin as [Hin|[]]; discriminate.
Qed.

(* a client task never arms a timer it has not announced *)
Lemma arm_was_announced v t e t' o d : v <> RtuServer -> tstep v t e = Some (t', o) -> In (OArm d) o ->
  exists k pre, o = pre ++ [OAnnounce k d; OArm d].
Proof.
  intros Hv. unfold tstep. destruct (phase t) as [|w|]; destruct e; intros H Hin;
    try (inversion H; subst; cbn in Hin; repeat (destruct Hin as [Hin|Hin]; try discriminate Hin); contradiction).
  - destruct (step (strat t) Fail) as [[s' [d0|]]|]; try discriminate. inversion H; subst. clear H.
    destruct v; [| |contradiction]; cbn in Hin |- *;
      (destruct Hin as [Hin|[Hin|[Hin|[]]]]; try discriminate; inversion Hin; subst; exists AfterFailedConnect, [OAttempt]; reflexivity).
  - destruct (step (strat t) Reset) as [[s' x]|]; try discriminate. inversion H; subst. clear H.
    destruct v; cbn in Hin; repeat (destruct Hin as [Hin|Hin]; try discriminate Hin); contradiction.
  - destruct (step (strat t) Disc) as [[s' [d0|]]|]; try discriminate. inversion H; subst. clear H.
    destruct v; [| |contradiction]; cbn in Hin |- *;
      (destruct Hin as [Hin|[Hin|[]]]; try discriminate; inversion Hin; subst; exists AfterDisconnect, []; reflexivity).
Qed.

(* ------------------------------------------------------------------ nothing happens during a wait *)
Lemma waiting_is_quiet v t e t' o d : phase t = Waiting d -> tstep v t e = Some (t', o) ->
  (t' = t /\ o = []) \/
  (e = Elapsed /\ o = [OElapsed d] /\ phase t' = Idle /\ strat t' = strat t) \/
  (e = Interrupt /\ o = [ODisabled] /\ phase t' = Idle /\ strat t' = strat t).
Proof.
  unfold tstep. intros -> H. destruct e; inversion H; subst; cbn; auto.
  - right. left. auto.
  - right. right. auto.
Qed.

Lemma attempt_only_when_idle v t e t' o : tstep v t e = Some (t', o) -> In OAttempt o -> phase t = Idle.
Proof.
  unfold tstep. destruct (phase t) as [|w|]; destruct e; intros H Hin; try reflexivity;
    try (inversion H; subst; cbn in Hin; repeat (destruct Hin as [Hin|Hin]; try discriminate Hin); contradiction).
  destruct (step (strat t) Disc) as [[s' [d0|]]|]; try discriminate. inversion H; subst.
  destruct v; cbn in Hin; repeat (destruct Hin as [Hin|Hin]; try discriminate Hin); contradiction.
Qed.

(* ------------------------------------------------------------------ reset exactly on success *)
Lemma reset_iff_success v t e t' o : tstep v t e = Some (t', o) ->
  (In OReset o <-> (phase t = Idle /\ e = AttemptOk)) /\
  (In OReset o -> o = OAttempt :: on_success v /\ cur (strat t') = dmin (strat t') /\ phase t' = Up).
Proof.
  unfold tstep. destruct (phase t) as [|w|] eqn:Ep; destruct e; intros H;
    try (inversion H; subst; cbn; split; [split; [intros Hin; repeat (destruct Hin as [Hin|Hin]; try discriminate Hin); contradiction|intros [? ?]; discriminate]|
                                          intros Hin; repeat (destruct Hin as [Hin|Hin]; try discriminate Hin); contradiction]).
  - destruct (step (strat t) Fail) as [[s' [d0|]]|]; try discriminate. inversion H; subst.
    split; [split; [|intros [_ ?]; discriminate]|]; intros Hin; destruct v; cbn in Hin;
      repeat (destruct Hin as [Hin|Hin]; try discriminate Hin); contradiction.
  - cbn [step] in H. inversion H; subst. cbn. split; [split; [auto|]|auto].
    intros _. destruct v; cbn; auto.
  - destruct (step (strat t) Disc) as [[s' [d0|]]|]; try discriminate. inversion H; subst.
    split; [split; [|intros [? _]; discriminate]|]; intros Hin; destruct v; cbn in Hin;
      repeat (destruct Hin as [Hin|Hin]; try discriminate Hin); contradiction.
Qed.

Lemma up_iff_success v t e t' o : v <> RtuServer -> tstep v t e = Some (t', o) ->
  (In OUp o <-> In OReset o).
Proof.
  intros Hv. unfold tstep. destruct (phase t) as [|w|]; destruct e; intros H;
    try (inversion H; subst; cbn; split; intros Hin; repeat (destruct Hin as [Hin|Hin]; try discriminate Hin); contradiction).
  - destruct (step (strat t) Fail) as [[s' [d0|]]|]; try discriminate. inversion H; subst.
    destruct v; cbn; split; intros Hin; repeat (destruct Hin as [Hin|Hin]; try discriminate Hin); contradiction.
  - cbn [step] in H. inversion H; subst. destruct v; [| |contradiction]; cbn; tauto.
  - destruct (step (strat t) Disc) as [[s' [d0|]]|]; try discriminate. inversion H; subst.
    destruct v; cbn; split; intros Hin; repeat (destruct Hin as [Hin|Hin]; try discriminate Hin); contradiction.
Qed.

(* ------------------------------------------------------------------ the delays follow the strategy Spec *)
Definition kind_of (p : tphase) : kind := match p with Idle => KIdle | Waiting _ => KWaiting | Up => KUp end.

Lemma armed_app a b : armed (a ++ b) = armed a ++ armed b.
Proof. unfold armed. apply flat_map_app. Qed.
Lemma somes_app a b : somes (a ++ b) = somes a ++ somes b.
Proof. unfold somes. apply flat_map_app. Qed.
Lemma announced_app a b : announced (a ++ b) = announced a ++ announced b.
Proof. unfold announced. apply flat_map_app. Qed.

Lemma task_delays v mn mx : mn <= mx -> 2 * mx <= dur_max ->
  forall evs t k, dmin (strat t) = mn -> dmax (strat t) = mx -> cur (strat t) = delay_spec mn mx k ->
  exists t' o, trun v t evs = Some (t', o) /\
    armed o = somes (spec mn mx k (calls_of (kind_of (phase t)) evs)) /\
    (v <> RtuServer -> announced o = armed o).
Proof.
  intros Hle Hov. induction evs as [|e r IH]; intros t k Hmn Hmx Hc; cbn [trun calls_of].
  - exists t, []. repeat split; reflexivity.
  - assert (Hb : cur (strat t) <= mx) by (rewrite Hc; unfold delay_spec; lia).
    unfold tstep. destruct (phase t) as [|w|] eqn:Ep; destruct e; cbn [kind_of knext];
      try (destruct (IH t k Hmn Hmx Hc) as (t' & o & E & Ea & Eb); rewrite Ep in *; cbn [kind_of] in *;
           exists t', o; rewrite E; cbn [app]; auto; fail).
    + (* Idle, AttemptFails *)
      cbn [step]. destruct (N.ltb_spec dur_max (2 * cur (strat t))); [lia|].
      set (t1 := {| strat := {| dmin := dmin (strat t); dmax := dmax (strat t); cur := N.min (2 * cur (strat t)) (dmax (strat t)) |};
                    phase := Waiting (cur (strat t)) |}).
      destruct (IH t1 (S k)) as (t' & o & E & Ea & Eb); cbn [t1 strat dmin dmax cur]; try assumption.
      { rewrite Hmx, Hc. symmetry. now apply delay_succ. }
      exists t', ((OAttempt :: announce v AfterFailedConnect (cur (strat t)) ++ [OArm (cur (strat t))]) ++ o).
      rewrite E. split; [reflexivity|]. cbn [kind_of phase t1] in Ea. cbn [app spec].
      change (OAttempt :: (announce v AfterFailedConnect (cur (strat t)) ++ [OArm (cur (strat t))]) ++ o)
        with (([OAttempt] ++ announce v AfterFailedConnect (cur (strat t)) ++ [OArm (cur (strat t))]) ++ o).
      split.
      * rewrite !armed_app, Ea. destruct v; cbn; now rewrite Hc.
      * intros Hv. rewrite !armed_app, !announced_app, (Eb Hv). destruct v; [| |contradiction]; reflexivity.
    + (* Idle, AttemptOk *)
      cbn [step].
      set (t1 := {| strat := {| dmin := dmin (strat t); dmax := dmax (strat t); cur := dmin (strat t) |}; phase := Up |}).
      destruct (IH t1 0%nat) as (t' & o & E & Ea & Eb); cbn [t1 strat dmin dmax cur]; try assumption.
      { unfold delay_spec. cbn. rewrite Hmn. lia. }
      exists t', ((OAttempt :: on_success v) ++ o). rewrite E. split; [reflexivity|].
      cbn [kind_of phase t1] in Ea. cbn [app spec].
      change (OAttempt :: on_success v ++ o) with (([OAttempt] ++ on_success v) ++ o). split.
      * rewrite !armed_app, Ea. destruct v; reflexivity.
      * intros Hv. rewrite !armed_app, !announced_app, (Eb Hv). destruct v; reflexivity.
    + (* Waiting, Elapsed *)
      set (t1 := {| strat := strat t; phase := Idle |}).
      destruct (IH t1 k) as (t' & o & E & Ea & Eb); cbn [t1 strat]; try assumption.
      exists t', ([OElapsed w] ++ o). rewrite E. split; [reflexivity|]. cbn [app kind_of phase t1] in *.
      split; [exact Ea|]. intros Hv. cbn. exact (Eb Hv).
    + (* Waiting, Interrupt *)
      set (t1 := {| strat := strat t; phase := Idle |}).
      destruct (IH t1 k) as (t' & o & E & Ea & Eb); cbn [t1 strat]; try assumption.
      exists t', ([ODisabled] ++ o). rewrite E. split; [reflexivity|]. cbn [app kind_of phase t1] in *.
      split; [exact Ea|]. intros Hv. cbn. exact (Eb Hv).
    + (* Up, Lost *)
      cbn [step].
      set (t1 := {| strat := strat t; phase := Waiting (dmin (strat t)) |}).
      destruct (IH t1 k) as (t' & o & E & Ea & Eb); cbn [t1 strat]; try assumption.
      exists t', ((announce v AfterDisconnect (dmin (strat t)) ++ [OArm (dmin (strat t))]) ++ o). rewrite E.
      split; [reflexivity|]. cbn [kind_of phase t1] in Ea. cbn [app spec]. split.
      * rewrite !armed_app, Ea. destruct v; cbn; now rewrite Hmn.
      * intros Hv. rewrite !armed_app, !announced_app, (Eb Hv). destruct v; [| |contradiction]; reflexivity.
    + (* Up, Interrupt *)
      set (t1 := {| strat := strat t; phase := Idle |}).
      destruct (IH t1 k) as (t' & o & E & Ea & Eb); cbn [t1 strat]; try assumption.
      exists t', ([ODisabled] ++ o). rewrite E. split; [reflexivity|]. cbn [app kind_of phase t1] in *.
      split; [exact Ea|]. intros Hv. cbn. exact (Eb Hv).
Qed.

Lemma task_delays_from_init v mn mx : mn <= mx -> 2 * mx <= dur_max -> forall evs,
  exists t' o, trun v (tinit mn mx) evs = Some (t', o) /\
    armed o = somes (spec mn mx 0 (calls_of KIdle evs)) /\
    (v <> RtuServer -> announced o = armed o).
Proof.
  intros Hle Hov evs. apply (task_delays v mn mx Hle Hov evs (tinit mn mx) 0%nat); try reflexivity.
  unfold tinit, create, delay_spec; cbn. lia.
Qed.
