From Coq Require Import NArith List Lia Bool Arith ZArith ZifyBool ZifyNat ZifyN.
From Rodbus Require Import Model.Retry Spec.RetrySpec Proofs.RetryProofs Gen.RetryArms Model.RetryTask.
Import ListNotations.
Local Open Scope N_scope.

(* ------------------------------------------------------------------ the generated arm tables say what the Spec expects
   tstep is defined from Gen/RetryArms.v. Written out with the strategy calls the Spec's calls_of expects (a failed
   attempt = Fail, a success = Reset, EVERY kind of lost session = Disc, a disabled channel = no call) it is tstep_ref;
   the two agree for the tables generated from the unchanged source. A source in which some arm calls another
   strategy method regenerates the table and this lemma, with everything below, stops compiling. *)
Definition tstep_ref (v : variant) (t : task) (e : tevent) : option (task * list tout) :=
  match phase t, e with
  | Idle, AttemptFails =>
      match step (strat t) Fail with
      | Some (s', Some d) => Some ({| strat := s'; phase := Waiting d |}, OAttempt :: announce v AfterFailedConnect d ++ [OArm d])
      | _ => None
      end
  | Idle, AttemptOk =>
      match step (strat t) Reset with
      | Some (s', _) => Some ({| strat := s'; phase := Up |}, OAttempt :: on_success v)
      | None => None
      end
  | Up, Lost _ =>
      match step (strat t) Disc with
      | Some (s', Some d) => Some ({| strat := s'; phase := Waiting d |}, announce v AfterDisconnect d ++ [OArm d])
      | _ => None
      end
  | Up, Interrupt => Some ({| strat := strat t; phase := Idle |}, [ODisabled])
  | Waiting d, Elapsed => Some ({| strat := strat t; phase := Idle |}, [OElapsed d])
  | Waiting d, Interrupt => Some ({| strat := strat t; phase := Idle |}, [ODisabled])
  | _, _ => Some (t, [])
  end.

Lemma lost_arm_is_after_disconnect v k : session_arm v (end_of k) = ArmWait CallAfterDisconnect.
Proof. destruct v, k; reflexivity. Qed.
Lemma disabled_arm_does_not_wait v : session_arm v EndDisabled = ArmNoWait.
Proof. destruct v; reflexivity. Qed.
Lemma shutdown_arm_ends_the_task v : session_arm v EndShutdown = ArmShutdown.
Proof. destruct v; reflexivity. Qed.
Lemma failed_attempt_is_after_failed_connect v : failed_call v = CallAfterFailedConnect.
Proof. destruct v; reflexivity. Qed.
Lemma success_resets v : resets_on_success v = true.
Proof. destruct v; reflexivity. Qed.

Lemma tstep_eq v t e : tstep v t e = tstep_ref v t e.
Proof.
  unfold tstep, tstep_ref, session_ends, wait_with.
  destruct (phase t); destruct e; try reflexivity;
    rewrite ?lost_arm_is_after_disconnect, ?disabled_arm_does_not_wait, ?failed_attempt_is_after_failed_connect, ?success_resets; reflexivity.
Qed.

(* ------------------------------------------------------------------ announced delay = armed delay *)
Lemma announce_then_arm v t e t' o k d : tstep v t e = Some (t', o) -> In (OAnnounce k d) o ->
  (exists pre, o = pre ++ [OAnnounce k d; OArm d]) /\ phase t' = Waiting d.
Proof.
  rewrite tstep_eq; unfold tstep_ref. destruct (phase t) as [|w|]; destruct e; intros H Hin;
    try (inversion H; subst; cbn in Hin; repeat (destruct Hin as [Hin|Hin]; try discriminate Hin); contradiction).
  - destruct (step (strat t) Fail) as [[s' [d0|]]|]; try discriminate. inversion H; subst. clear H.
    destruct v; cbn in Hin |- *.
    + destruct Hin as [Hin|[Hin|[Hin|[]]]]; try discriminate. inversion Hin; subst. split; [now exists [OAttempt]|reflexivity].
    + destruct Hin as [Hin|[Hin|[Hin|[]]]]; try discriminate. inversion Hin; subst. split; [now exists [OAttempt]|reflexivity].
    + destruct Hin as [Hin|[Hin|[]]]; discriminate.
  - destruct (step (strat t) Reset) as [[s' x]|]; try discriminate. inversion H; subst. clear H.
    destruct v; cbn in Hin; repeat (destruct Hin as [Hin|Hin]; try discriminate Hin); contradiction.
  - destruct (step (strat t) Disc) as [[s' [d0|]]|]; try discriminate. inversion H; subst. clear H.
    destruct v; cbn in Hin |- *.
    + destruct Hin as [Hin|[Hin|[]]]; try discriminate. inversion Hin; subst. split; [now exists []|reflexivity].
    + destruct Hin as [Hin|[Hin|[]]]; try discriminate. inversion Hin; subst. split; [now exists []|reflexivity].
    + destruct Hin as [Hin|[]]; discriminate.
Qed.

(* a client task never arms a timer it has not announced *)
Lemma arm_was_announced v t e t' o d : v <> RtuServer -> tstep v t e = Some (t', o) -> In (OArm d) o ->
  exists k pre, o = pre ++ [OAnnounce k d; OArm d].
Proof.
  intros Hv. rewrite tstep_eq; unfold tstep_ref. destruct (phase t) as [|w|]; destruct e; intros H Hin;
    try (inversion H; subst; cbn in Hin; repeat (destruct Hin as [Hin|Hin]; try discriminate Hin); contradiction).
  - destruct (step (strat t) Fail) as [[s' [d0|]]|]; try discriminate. inversion H; subst. clear H.
    destruct v; [| |contradiction]; cbn in Hin |- *;
      (destruct Hin as [Hin|[Hin|[Hin|[]]]]; try discriminate; inversion Hin; subst; exists AfterFailedConnect, [OAttempt]; reflexivity).
  - destruct (step (strat t) Reset) as [[s' x]|]; try discriminate. inversion H; subst. clear H.
    destruct v; cbn in Hin; repeat (destruct Hin as [Hin|Hin]; try discriminate Hin); contradiction.
  - destruct (step (strat t) Disc) as [[s' [d0|]]|]; try discriminate. inversion H; subst. clear H.
    destruct v; [| |contradiction]; cbn in Hin |- *;
      (destruct Hin as [Hin|[Hin|[]]]; try discriminate; inversion Hin; subst; exists AfterDisconnect, []; reflexivity).
Qed.

(* ------------------------------------------------------------------ nothing happens during a wait *)
Lemma waiting_is_quiet v t e t' o d : phase t = Waiting d -> tstep v t e = Some (t', o) ->
  (t' = t /\ o = []) \/
  (e = Elapsed /\ o = [OElapsed d] /\ phase t' = Idle /\ strat t' = strat t) \/
  (e = Interrupt /\ o = [ODisabled] /\ phase t' = Idle /\ strat t' = strat t).
Proof.
  rewrite tstep_eq; unfold tstep_ref. intros -> H. destruct e; inversion H; subst; cbn; auto.
  - right. left. auto.
  - right. right. auto.
Qed.

Lemma attempt_only_when_idle v t e t' o : tstep v t e = Some (t', o) -> In OAttempt o -> phase t = Idle.
Proof.
  rewrite tstep_eq; unfold tstep_ref. destruct (phase t) as [|w|]; destruct e; intros H Hin; try reflexivity;
    try (inversion H; subst; cbn in Hin; repeat (destruct Hin as [Hin|Hin]; try discriminate Hin); contradiction).
  destruct (step (strat t) Disc) as [[s' [d0|]]|]; try discriminate. inversion H; subst.
  destruct v; cbn in Hin; repeat (destruct Hin as [Hin|Hin]; try discriminate Hin); contradiction.
Qed.

(* ------------------------------------------------------------------ reset exactly on success *)
Lemma reset_iff_success v t e t' o : tstep v t e = Some (t', o) ->
  (In OReset o <-> (phase t = Idle /\ e = AttemptOk)) /\
  (In OReset o -> o = OAttempt :: on_success v /\ cur (strat t') = dmin (strat t') /\ phase t' = Up).
Proof.
  rewrite tstep_eq; unfold tstep_ref. destruct (phase t) as [|w|] eqn:Ep; destruct e; intros H;
    try (inversion H; subst; cbn; split; [split; [intros Hin; repeat (destruct Hin as [Hin|Hin]; try discriminate Hin); contradiction|intros [? ?]; discriminate]|
                                          intros Hin; repeat (destruct Hin as [Hin|Hin]; try discriminate Hin); contradiction]).
  - destruct (step (strat t) Fail) as [[s' [d0|]]|]; try discriminate. inversion H; subst.
    split; [split; [|intros [_ ?]; discriminate]|]; intros Hin; destruct v; cbn in Hin;
      repeat (destruct Hin as [Hin|Hin]; try discriminate Hin); contradiction.
  - cbn [step] in H. inversion H; subst. cbn. split; [split; [auto|]|auto].
    intros _. destruct v; cbn; auto.
  - destruct (step (strat t) Disc) as [[s' [d0|]]|]; try discriminate. inversion H; subst.
    split; [split; [|intros [? _]; discriminate]|]; intros Hin; destruct v; cbn in Hin;
      repeat (destruct Hin as [Hin|Hin]; try discriminate Hin); contradiction.
Qed.

Lemma up_iff_success v t e t' o : v <> RtuServer -> tstep v t e = Some (t', o) ->
  (In OUp o <-> In OReset o).
Proof.
  intros Hv. rewrite tstep_eq; unfold tstep_ref. destruct (phase t) as [|w|]; destruct e; intros H;
    try (inversion H; subst; cbn; split; intros Hin; repeat (destruct Hin as [Hin|Hin]; try discriminate Hin); contradiction).
  - destruct (step (strat t) Fail) as [[s' [d0|]]|]; try discriminate. inversion H; subst.
    destruct v; cbn; split; intros Hin; repeat (destruct Hin as [Hin|Hin]; try discriminate Hin); contradiction.
  - cbn [step] in H. inversion H; subst. destruct v; [| |contradiction]; cbn; tauto.
  - destruct (step (strat t) Disc) as [[s' [d0|]]|]; try discriminate. inversion H; subst.
    destruct v; cbn; split; intros Hin; repeat (destruct Hin as [Hin|Hin]; try discriminate Hin); contradiction.
Qed.

(* ------------------------------------------------------------------ the delays follow the strategy Spec *)
Definition kind_of (p : tphase) : kind := match p with Idle => KIdle | Waiting _ => KWaiting | Up => KUp end.

Lemma armed_app a b : armed (a ++ b) = armed a ++ armed b.
Proof. unfold armed. apply flat_map_app. Qed.
Lemma somes_app a b : somes (a ++ b) = somes a ++ somes b.
Proof. unfold somes. apply flat_map_app. Qed.
Lemma announced_app a b : announced (a ++ b) = announced a ++ announced b.
Proof. unfold announced. apply flat_map_app. Qed.

Lemma task_delays v mn mx : mn <= mx -> 2 * mx <= dur_max ->
  forall evs t k, dmin (strat t) = mn -> dmax (strat t) = mx -> cur (strat t) = delay_spec mn mx k ->
  exists t' o, trun v t evs = Some (t', o) /\
    armed o = somes (spec mn mx k (calls_of (kind_of (phase t)) evs)) /\
    (v <> RtuServer -> announced o = armed o).
Proof.
  intros Hle Hov. induction evs as [|e r IH]; intros t k Hmn Hmx Hc; cbn [trun calls_of].
  - exists t, []. repeat split; reflexivity.
  - assert (Hb : cur (strat t) <= mx) by (rewrite Hc; unfold delay_spec; lia).
    rewrite tstep_eq; unfold tstep_ref. destruct (phase t) as [|w|] eqn:Ep; destruct e; cbn [kind_of knext];
      try (destruct (IH t k Hmn Hmx Hc) as (t' & o & E & Ea & Eb); rewrite Ep in *; cbn [kind_of] in *;
           exists t', o; rewrite E; cbn [app]; auto; fail).
    + (* Idle, AttemptFails *)
      cbn [step]. destruct (N.ltb_spec dur_max (2 * cur (strat t))); [lia|].
      set (t1 := {| strat := {| dmin := dmin (strat t); dmax := dmax (strat t); cur := N.min (2 * cur (strat t)) (dmax (strat t)) |};
                    phase := Waiting (cur (strat t)) |}).
      destruct (IH t1 (S k)) as (t' & o & E & Ea & Eb); cbn [t1 strat dmin dmax cur]; try assumption.
      { rewrite Hmx, Hc. symmetry. now apply delay_succ. }
      exists t', ((OAttempt :: announce v AfterFailedConnect (cur (strat t)) ++ [OArm (cur (strat t))]) ++ o).
      rewrite E. split; [reflexivity|]. cbn [kind_of phase t1] in Ea. cbn [app spec].
      change (OAttempt :: (announce v AfterFailedConnect (cur (strat t)) ++ [OArm (cur (strat t))]) ++ o)
        with (([OAttempt] ++ announce v AfterFailedConnect (cur (strat t)) ++ [OArm (cur (strat t))]) ++ o).
      split.
      * rewrite !armed_app, Ea. destruct v; cbn; now rewrite Hc.
      * intros Hv. rewrite !armed_app, !announced_app, (Eb Hv). destruct v; [| |contradiction]; reflexivity.
    + (* Idle, AttemptOk *)
      cbn [step].
      set (t1 := {| strat := {| dmin := dmin (strat t); dmax := dmax (strat t); cur := dmin (strat t) |}; phase := Up |}).
      destruct (IH t1 0%nat) as (t' & o & E & Ea & Eb); cbn [t1 strat dmin dmax cur]; try assumption.
      { unfold delay_spec. cbn. rewrite Hmn. lia. }
      exists t', ((OAttempt :: on_success v) ++ o). rewrite E. split; [reflexivity|].
      cbn [kind_of phase t1] in Ea. cbn [app spec].
      change (OAttempt :: on_success v ++ o) with (([OAttempt] ++ on_success v) ++ o). split.
      * rewrite !armed_app, Ea. destruct v; reflexivity.
      * intros Hv. rewrite !armed_app, !announced_app, (Eb Hv). destruct v; reflexivity.
    + (* Waiting, Elapsed *)
      set (t1 := {| strat := strat t; phase := Idle |}).
      destruct (IH t1 k) as (t' & o & E & Ea & Eb); cbn [t1 strat]; try assumption.
      exists t', ([OElapsed w] ++ o). rewrite E. split; [reflexivity|]. cbn [app kind_of phase t1] in *.
      split; [exact Ea|]. intros Hv. cbn. exact (Eb Hv).
    + (* Waiting, Interrupt *)
      set (t1 := {| strat := strat t; phase := Idle |}).
      destruct (IH t1 k) as (t' & o & E & Ea & Eb); cbn [t1 strat]; try assumption.
      exists t', ([ODisabled] ++ o). rewrite E. split; [reflexivity|]. cbn [app kind_of phase t1] in *.
      split; [exact Ea|]. intros Hv. cbn. exact (Eb Hv).
    + (* Up, Lost *)
      cbn [step].
      set (t1 := {| strat := strat t; phase := Waiting (dmin (strat t)) |}).
      destruct (IH t1 k) as (t' & o & E & Ea & Eb); cbn [t1 strat]; try assumption.
      exists t', ((announce v AfterDisconnect (dmin (strat t)) ++ [OArm (dmin (strat t))]) ++ o). rewrite E.
      split; [reflexivity|]. cbn [kind_of phase t1] in Ea. cbn [app spec]. split.
      * rewrite !armed_app, Ea. destruct v; cbn; now rewrite Hmn.
      * intros Hv. rewrite !armed_app, !announced_app, (Eb Hv). destruct v; [| |contradiction]; reflexivity.
    + (* Up, Interrupt *)
      set (t1 := {| strat := strat t; phase := Idle |}).
      destruct (IH t1 k) as (t' & o & E & Ea & Eb); cbn [t1 strat]; try assumption.
      exists t', ([ODisabled] ++ o). rewrite E. split; [reflexivity|]. cbn [app kind_of phase t1] in *.
      split; [exact Ea|]. intros Hv. cbn. exact (Eb Hv).
Qed.

Lemma task_delays_from_init v mn mx : mn <= mx -> 2 * mx <= dur_max -> forall evs,
  exists t' o, trun v (tinit mn mx) evs = Some (t', o) /\
    armed o = somes (spec mn mx 0 (calls_of KIdle evs)) /\
    (v <> RtuServer -> announced o = armed o).
Proof.
  intros Hle Hov evs. apply (task_delays v mn mx Hle Hov evs (tinit mn mx) 0%nat); try reflexivity.
  unfold tinit, create, delay_spec; cbn. lia.
Qed.

(* ------------------------------------------------------------------ whichever way the session was lost *)
Lemma after_any_loss v mn mx k : mn <= mx -> 2 * mx <= dur_max ->
  exists t' o, trun v (tinit mn mx) [AttemptFails; Elapsed; AttemptFails; Elapsed; AttemptOk; Lost k; Elapsed; AttemptFails; Elapsed; AttemptFails; Elapsed; AttemptFails] = Some (t', o) /\
    armed o = [mn; N.min (2 * mn) mx; mn; mn; N.min (2 * mn) mx; N.min (4 * mn) mx].
Proof.
  intros Hle Hov.
  destruct (task_delays_from_init v mn mx Hle Hov
              [AttemptFails; Elapsed; AttemptFails; Elapsed; AttemptOk; Lost k; Elapsed; AttemptFails; Elapsed; AttemptFails; Elapsed; AttemptFails])
    as (t' & o & E & Ea & _).
  exists t', o. split; [exact E|]. rewrite Ea. cbn [calls_of knext app spec somes flat_map].
  unfold delay_spec. change (2 ^ N.of_nat 0) with 1. change (2 ^ N.of_nat 1) with 2. change (2 ^ N.of_nat 2) with 4.
  rewrite N.mul_1_r, (N.min_l mn mx Hle), (N.mul_comm mn 2), (N.mul_comm mn 4). reflexivity.
Qed.
