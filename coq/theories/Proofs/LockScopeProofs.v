(* C19: the atomicity theorem applied to the step function selected by the lock scopes that the
   translator reads off the code (Gen/LockScope.v). If a reply or a transaction stops being one
   critical section, `code_step` becomes the per-point step, for which the statement is refuted
   (C19_atomic_needs_lock), and this file stops compiling. *)
From Coq Require Import NArith List Bool.
From Rodbus Require Import Gen.LockScope Spec.AtomicSpec Model.Atomic Proofs.AtomicProofs.
Import ListNotations.

Definition code_step : world -> nat -> world :=
  if reply_in_one_critical_section && reply_bytes_formatted_under_lock && locked_statement_is_synchronous
     && transaction_in_one_critical_section && wrapper_takes_no_lock
  then step else step_pp.
Definition code_run (w : world) (sched : list nat) : world := fold_left code_step sched w.

Lemma code_step_is_step : code_step = step.
Proof. reflexivity. Qed.

Theorem atomic_for_the_code : forall d0 jobs sched j t addrs,
  let w := code_run (init d0 jobs) sched in
  nth_error (threads w) j = Some t -> finished t = true -> tjob t = Req addrs ->
  atomic_obs d0 (committed w) addrs (obs t).
Proof. unfold code_run. rewrite code_step_is_step. exact C19_atomic. Qed.

(* what the translator established about the lock, as one statement *)
Theorem lock_scope_facts :
  reply_in_one_critical_section = true /\ reply_bytes_formatted_under_lock = true /\
  locked_statement_is_synchronous = true /\ socket_write_after_unlock = true /\
  authorization_before_lock = true /\ transaction_in_one_critical_section = true /\
  wrapper_takes_no_lock = true /\ broadcast_locks_each_unit_separately = true.
Proof. repeat split; reflexivity. Qed.
