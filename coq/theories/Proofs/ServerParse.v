(* Request::parse against the Spec's decode: for each of the eight function codes the parser
   accepts exactly the PDUs the protocol calls valid and produces the same request. *)
From Coq Require Import NArith List Lia Bool Arith ZArith ZifyBool ZifyNat ZifyN.
From Rodbus Require Import Base.Outcome Base.Cursor Base.ServerTypes Model.Range Model.Server Gen.Consts Spec.Modbus
  Proofs.ServerFormat Proofs.ServerBits.
Import ListNotations.
Ltac Zify.zify_post_hook ::= Z.div_mod_to_equations.
Local Open Scope N_scope.
Arguments N.add : simpl never. Arguments N.sub : simpl never. Arguments N.mul : simpl never.
Arguments N.eqb : simpl never. Arguments N.ltb : simpl never. Arguments N.leb : simpl never.
Arguments N.div : simpl never. Arguments N.modulo : simpl never. Arguments N.of_nat : simpl never.
Arguments N.to_nat : simpl never.

Definition byte (b : N) : Prop := b < 256.

(* the Spec request a decoded model request stands for *)
Definition to_spec (r : Server.request) : Modbus.request :=
  match r with
  | RReadCoils rg => Modbus.ReadCoils (fst rg) (snd rg)
  | RReadDiscreteInputs rg => Modbus.ReadDiscreteInputs (fst rg) (snd rg)
  | RReadHoldingRegisters rg => Modbus.ReadHoldingRegisters (fst rg) (snd rg)
  | RReadInputRegisters rg => Modbus.ReadInputRegisters (fst rg) (snd rg)
  | RWriteSingleCoil i b => Modbus.WriteSingleCoil i b
  | RWriteSingleRegister i v => Modbus.WriteSingleRegister i v
  | RWriteMultipleCoils rg bytes => Modbus.WriteMultipleCoils (fst rg) (bits_of (snd rg) bytes)
  | RWriteMultipleRegisters rg bytes => Modbus.WriteMultipleRegisters (fst rg) (regs_of bytes)
  end.

(* what the parser guarantees about a request it accepted *)
Definition req_wf (r : Server.request) : Prop :=
  match r with
  | RReadCoils rg | RReadDiscreteInputs rg => 1 <= snd rg <= 2000 /\ fst rg + snd rg <= 65536
  | RReadHoldingRegisters rg | RReadInputRegisters rg => 1 <= snd rg <= 125 /\ fst rg + snd rg <= 65536
  | RWriteSingleCoil _ _ | RWriteSingleRegister _ _ => True
  | RWriteMultipleCoils rg bytes =>
      1 <= snd rg <= 1968 /\ fst rg + snd rg <= 65536 /\ length bytes = N.to_nat ((snd rg + 7) / 8)
  | RWriteMultipleRegisters rg bytes =>
      1 <= snd rg <= 123 /\ fst rg + snd rg <= 65536 /\ length bytes = (2 * N.to_nat (snd rg))%nat /\ Forall byte bytes
  end.

Lemma try_from_spec s n : s < 65536 -> n < 65536 ->
  try_from s n = if (1 <=? n) && (s + n <=? 65536) then inr (s, n) else inl (if n =? 0 then CountOfZero else AddressOverflow).
Proof.
  intros Hs Hn. unfold try_from.
  destruct (N.eqb_spec n 0) as [->|Hz]; [reflexivity|].
  destruct (N.ltb_spec (65535 - (n - 1)) s), (N.leb_spec 1 n), (N.leb_spec (s + n) 65536); cbn [andb]; try reflexivity; lia.
Qed.

Lemma word_lt a b : byte a -> byte b -> word a b < 65536.
Proof. unfold byte, word. lia. Qed.

(* ---------------------------------------------------------------- the four reads *)
Lemma parse_read_spec lim limit mk body :
  (forall r, lim r = limited_count r limit) -> Forall byte body ->
  parse_read lim mk body =
    match body with
    | [s1; s0; n1; n0] => if range_ok (word s1 s0) (word n1 n0) limit then Some (mk (word s1 s0, word n1 n0)) else None
    | _ => None
    end.
Proof.
  intros Hlim Hb. unfold parse_read, parse_address_range, rd_u16.
  destruct body as [|s1 [|s0 [|n1 [|n0 rest]]]]; try reflexivity.
  inversion Hb as [|? ? B1 T1]; inversion T1 as [|? ? B2 T2]; inversion T2 as [|? ? B3 T3]; inversion T3 as [|? ? B4 T4]; subst.
  change (u16_of s1 s0) with (word s1 s0). change (u16_of n1 n0) with (word n1 n0).
  pose proof (word_lt _ _ B1 B2). pose proof (word_lt _ _ B3 B4).
  set (s := word s1 s0) in *. set (n := word n1 n0) in *.
  rewrite try_from_spec by assumption. unfold range_ok.
  destruct (N.leb_spec 1 n); cbn [andb].
  2:{ destruct rest; reflexivity. }
  destruct (N.leb_spec (s + n) 65536); cbn [andb].
  2:{ rewrite andb_false_r. destruct rest; reflexivity. }
  rewrite Hlim. unfold limited_count. cbn [fst snd]. rewrite try_from_spec by assumption.
  destruct (N.leb_spec 1 n); [|lia]. destruct (N.leb_spec (s + n) 65536); [|lia]. cbn [andb snd].
  destruct (N.ltb_spec limit n), (N.leb_spec n limit); try lia; cbn [andb]; destruct rest; reflexivity.
Qed.

(* ---------------------------------------------------------------- write multiple *)
Lemma parse_write_multiple_spec max nbytes mk body : max < 65536 -> Forall byte body ->
  parse_write_multiple max nbytes mk body =
    match body with
    | s1 :: s0 :: n1 :: n0 :: _ :: data =>
        if range_ok (word s1 s0) (word n1 n0) max && Nat.eqb (length data) (nbytes (word n1 n0))
        then Some (mk (word s1 s0, word n1 n0) data) else None
    | _ => None
    end.
Proof.
  intros Hmax Hb. unfold parse_write_multiple, parse_address_range, rd_u16, rd_u8.
  destruct body as [|s1 [|s0 [|n1 [|n0 rest]]]]; try reflexivity.
  inversion Hb as [|? ? B1 T1]; inversion T1 as [|? ? B2 T2]; inversion T2 as [|? ? B3 T3]; inversion T3 as [|? ? B4 T4]; subst.
  change (u16_of s1 s0) with (word s1 s0). change (u16_of n1 n0) with (word n1 n0).
  pose proof (word_lt _ _ B1 B2). pose proof (word_lt _ _ B3 B4).
  set (s := word s1 s0) in *. set (n := word n1 n0) in *.
  rewrite try_from_spec by assumption. unfold range_ok.
  destruct (N.leb_spec 1 n); cbn [andb].
  2:{ destruct rest; reflexivity. }
  destruct (N.leb_spec (s + n) 65536); cbn [andb].
  2:{ rewrite andb_false_r. destruct rest; reflexivity. }
  cbn [snd]. destruct (N.ltb_spec max n), (N.leb_spec n max); try lia; cbn [andb].
  { destruct rest; reflexivity. }
  destruct rest as [|bc data]; [reflexivity|].
  unfold parse_all, rd_bytes, expect_empty, rd_is_empty.
  destruct (Nat.leb_spec (nbytes n) (length data)) as [Hle|Hgt].
  - destruct (skipn (nbytes n) data) as [|y r] eqn:Esk.
    + assert (Hlen : length data = nbytes n).
      { pose proof (skipn_length (nbytes n) data) as L. rewrite Esk in L. cbn [length] in L. lia. }
      rewrite Hlen, Nat.eqb_refl. rewrite firstn_all2 by lia. reflexivity.
    + assert (Hlen : (length data > nbytes n)%nat).
      { pose proof (skipn_length (nbytes n) data) as L. rewrite Esk in L. cbn [length] in L. lia. }
      destruct (Nat.eqb_spec (length data) (nbytes n)); [lia|reflexivity].
  - destruct (Nat.eqb_spec (length data) (nbytes n)); [lia|reflexivity].
Qed.

(* ---------------------------------------------------------------- decode, one function code at a time *)
Lemma decode_1 body : decode (1 :: body) = match body with
  | [s1; s0; n1; n0] => if range_ok (word s1 s0) (word n1 n0) 2000 then Valid 1 (Modbus.ReadCoils (word s1 s0) (word n1 n0)) else Invalid 1
  | _ => Invalid 1 end.
Proof. reflexivity. Qed.
Lemma decode_2 body : decode (2 :: body) = match body with
  | [s1; s0; n1; n0] => if range_ok (word s1 s0) (word n1 n0) 2000 then Valid 2 (Modbus.ReadDiscreteInputs (word s1 s0) (word n1 n0)) else Invalid 2
  | _ => Invalid 2 end.
Proof. reflexivity. Qed.
Lemma decode_3 body : decode (3 :: body) = match body with
  | [s1; s0; n1; n0] => if range_ok (word s1 s0) (word n1 n0) 125 then Valid 3 (Modbus.ReadHoldingRegisters (word s1 s0) (word n1 n0)) else Invalid 3
  | _ => Invalid 3 end.
Proof. reflexivity. Qed.
Lemma decode_4 body : decode (4 :: body) = match body with
  | [s1; s0; n1; n0] => if range_ok (word s1 s0) (word n1 n0) 125 then Valid 4 (Modbus.ReadInputRegisters (word s1 s0) (word n1 n0)) else Invalid 4
  | _ => Invalid 4 end.
Proof. reflexivity. Qed.
Lemma decode_5 body : decode (5 :: body) = match body with
  | [a1; a0; v1; v0] =>
      if word v1 v0 =? 0xFF00 then Valid 5 (Modbus.WriteSingleCoil (word a1 a0) true)
      else if word v1 v0 =? 0 then Valid 5 (Modbus.WriteSingleCoil (word a1 a0) false) else Invalid 5
  | _ => Invalid 5 end.
Proof. reflexivity. Qed.
Lemma decode_6 body : decode (6 :: body) = match body with
  | [a1; a0; v1; v0] => Valid 6 (Modbus.WriteSingleRegister (word a1 a0) (word v1 v0))
  | _ => Invalid 6 end.
Proof. reflexivity. Qed.
Lemma decode_15 body : decode (15 :: body) = match body with
  | s1 :: s0 :: n1 :: n0 :: _ :: data =>
      if range_ok (word s1 s0) (word n1 n0) 1968 && (N.of_nat (length data) =? (word n1 n0 + 7) / 8)
      then Valid 15 (Modbus.WriteMultipleCoils (word s1 s0) (bits_of (word n1 n0) data)) else Invalid 15
  | _ => Invalid 15 end.
Proof. reflexivity. Qed.
Lemma decode_16 body : decode (16 :: body) = match body with
  | s1 :: s0 :: n1 :: n0 :: _ :: data =>
      if range_ok (word s1 s0) (word n1 n0) 123 && (N.of_nat (length data) =? 2 * word n1 n0)
      then Valid 16 (Modbus.WriteMultipleRegisters (word s1 s0) (regs_of data)) else Invalid 16
  | _ => Invalid 16 end.
Proof. reflexivity. Qed.

Lemma fcode_get_value fv f : fcode_get fv = Some f -> fv = fcode_value f.
Proof.
  intros E. destruct fv as [|p]; [discriminate|].
  do 6 (try (destruct p as [p|p|]; cbn in E; try discriminate E)); inversion E; reflexivity.
Qed.

Lemma decode_unsupported fv body : fcode_get fv = None -> decode (fv :: body) = Unsupported fv.
Proof.
  intros E. destruct fv as [|p]; [reflexivity|].
  do 6 (try (destruct p as [p|p|]; cbn in E; try discriminate E; try reflexivity)).
Qed.

Lemma range_ok_true s n limit : range_ok s n limit = true -> 1 <= n <= limit /\ s + n <= 65536.
Proof. unfold range_ok. intros H. apply andb_prop in H as [H H3]. apply andb_prop in H as [H1 H2]. lia. Qed.

(* ---------------------------------------------------------------- Request::parse = decode *)
Definition parse_rel (f : fcode) (body : list N) : Prop :=
  match parse f body with
  | Some r => decode (fcode_value f :: body) = Valid (fcode_value f) (to_spec r) /\ req_wf r /\ get_function r = f
  | None => decode (fcode_value f :: body) = Invalid (fcode_value f)
  end.

Ltac read_case dec lim body :=
  rewrite dec; erewrite parse_read_spec with (limit := lim); [|reflexivity|eassumption];
  destruct body as [|s1 [|s0 [|n1 [|n0 [|? ?]]]]]; try reflexivity;
  let R := fresh "R" in
  match goal with |- context [range_ok ?s ?n ?l] => destruct (range_ok s n l) eqn:R; [|reflexivity] end;
  apply range_ok_true in R; cbn [to_spec req_wf fst snd get_function]; repeat split; try reflexivity; lia.

Lemma parse_decode f body : Forall byte body -> parse_rel f body.
Proof.
  intros Hb. unfold parse_rel. destruct f; cbn [fcode_value parse].
  - read_case decode_1 2000 body.
  - read_case decode_2 2000 body.
  - read_case decode_3 125 body.
  - read_case decode_4 125 body.
  - rewrite decode_5. unfold parse_indexed_bool, rd_u16, expect_empty, rd_is_empty.
    destruct body as [|a1 [|a0 [|v1 [|v0 rest]]]]; try reflexivity.
    change (u16_of a1 a0) with (word a1 a0). change (u16_of v1 v0) with (word v1 v0).
    unfold coil_from_u16. change coil_on with 65280. change coil_off with 0.
    destruct (word v1 v0 =? 65280).
    + destruct rest; [cbn [to_spec req_wf get_function]; auto|reflexivity].
    + destruct (word v1 v0 =? 0); [|destruct rest; reflexivity].
      destruct rest; [cbn [to_spec req_wf get_function]; auto|reflexivity].
  - rewrite decode_6. unfold parse_indexed_u16, rd_u16, expect_empty, rd_is_empty.
    destruct body as [|a1 [|a0 [|v1 [|v0 rest]]]]; try reflexivity.
    destruct rest; [cbn [to_spec req_wf get_function]; auto|reflexivity].
  - rewrite decode_15. rewrite parse_write_multiple_spec by (try assumption; reflexivity).
    destruct body as [|s1 [|s0 [|n1 [|n0 [|bc data]]]]]; try reflexivity.
    change max_write_coils_count with 1968.
    destruct (range_ok (word s1 s0) (word n1 n0) 1968) eqn:R; cbn [andb]; [|reflexivity].
    apply range_ok_true in R. unfold num_bytes_for_bits.
    destruct (Nat.eqb_spec (length data) (N.to_nat ((word n1 n0 + 7) / 8))) as [E|E],
             (N.eqb_spec (N.of_nat (length data)) ((word n1 n0 + 7) / 8)) as [E'|E']; try lia; [|reflexivity].
    cbn [to_spec req_wf fst snd get_function]. repeat split; try reflexivity; try lia.
  - rewrite decode_16. rewrite parse_write_multiple_spec by (try assumption; reflexivity).
    destruct body as [|s1 [|s0 [|n1 [|n0 [|bc data]]]]]; try reflexivity.
    change max_write_registers_count with 123.
    destruct (range_ok (word s1 s0) (word n1 n0) 123) eqn:R; cbn [andb]; [|reflexivity].
    apply range_ok_true in R.
    destruct (Nat.eqb_spec (length data) (2 * N.to_nat (word n1 n0))) as [E|E],
             (N.eqb_spec (N.of_nat (length data)) (2 * word n1 n0)) as [E'|E']; try lia; [|reflexivity].
    cbn [to_spec req_wf fst snd get_function]. repeat split; try reflexivity; try lia.
    inversion Hb as [|? ? B1 T1]; inversion T1 as [|? ? B2 T2]; inversion T2 as [|? ? B3 T3]; inversion T3 as [|? ? B4 T4];
      inversion T4 as [|? ? B5 T5]; subst. exact T5.
Qed.
