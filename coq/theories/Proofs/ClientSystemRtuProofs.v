(* Composition on the RTU client side: RTU reader refinement (C06_chunking, role Responses) +
   reply decoding (C04) + the client task's frame handling (C12 / C10) = the RTU client as a whole
   equals the reference of Spec/SystemClientRtuSpec.v. The layers are used through their theorems
   (Proofs/C06Proofs.v, Proofs/ClientReplyProofs.v, Proofs/ClientSystemProofs.v), not re-proved. *)
From Coq Require Import NArith List Bool Arith Lia.
From Rodbus Require Import Base.Outcome Gen.SessionErrors Gen.ClientTables Gen.RtuLengths.
From Rodbus Require Base.Frame Base.ClientTypes Model.Reader Model.ClientRequest Model.ClientTask
  Spec.Framing Spec.ClientCodecSpec Spec.SystemClientSpec Spec.SystemClientRtuSpec Model.SystemClient Model.SystemClientRtu
  Proofs.RtuProofs Proofs.C06Proofs Proofs.ClientReplyProofs Proofs.ClientBase Proofs.C10Proofs Proofs.C12Proofs Proofs.ClientSystemProofs.
Import ListNotations.
Module F := Rodbus.Base.Frame.
Module CT := Rodbus.Base.ClientTypes.
Module CR := Rodbus.Model.ClientRequest.
Module CS := Rodbus.Spec.ClientCodecSpec.
Module T := Rodbus.Model.ClientTask.
Module SS := Rodbus.Spec.SystemClientSpec.
Module SR := Rodbus.Spec.SystemClientRtuSpec.
Import SystemClient SystemClientRtu ClientSystemProofs.
Local Open Scope N_scope.

(* ---------- layer 1 (framing): frames cut by the RTU rule carry no transaction id ---------- *)
Lemma rref_tx_none : forall fuel r s fi, Forall (fun f => F.f_tx f = None) (fst (Framing.rref fuel r s fi)).
Proof.
  induction fuel as [|fuel IH]; intros r s fi; [constructor|]. cbn [Framing.rref].
  destruct s as [|addr [|fc rest]]; try constructor.
  assert (Hb : forall plen t, Forall (fun f => F.f_tx f = None)
                 (fst (Framing.ref_rtu_body (fun s' => Framing.rref fuel r s' fi) fi addr plen t))).
  { intros plen t. unfold Framing.ref_rtu_body. destruct (Nat.ltb 253 plen); [constructor|].
    destruct (Nat.ltb (length t) (plen + 2)); [constructor|]. destruct (N.eqb _ _); [|constructor].
    specialize (IH r (skipn (plen + 2) t) fi). destruct (Framing.rref fuel r _ fi) as [fs e]. cbn [fst] in *.
    constructor; [reflexivity|exact IH]. }
  destruct (Framing.length_rule r fc); [apply Hb| |constructor].
  destruct (Nat.ltb _ _); [constructor|apply Hb].
Qed.

Section Sys.
Variable cfg : T.config.
Variable reqs : content.
Variables (st : T.state) (r : T.request) (t d : N).
Hypothesis Hph : T.ph st = T.PInFlight r t d.
Hypothesis Hpartial : T.partial st = None.
Notation mr := (reqs (T.rq_id r)).
Hypothesis Hwf : CT.request_wf mr.

(* ---------- layer 3 (the task): the first frame without a transaction id decides ---------- *)
Lemma deliver_inflight_rtu : forall fs, Forall (fun f => F.f_tx f = None) fs ->
  match fs with
  | [] => deliver cfg reqs st fs = (st, [], [])
  | f :: _ =>
      exists s' o' d',
        deliver cfg reqs st fs =
        (s', T.OComplete (T.rq_id r) (class_of_hresult (CR.handle_response mr (F.f_pdu f))) :: o',
         (T.rq_id r, CR.handle_response mr (F.f_pdu f)) :: d')
  end.
Proof.
  intros fs Hall. destruct fs as [|f fs]; [reflexivity|].
  inversion Hall as [|f' fs' Htx Hrest]; subst.
  cbn [deliver]. unfold frame_event. rewrite Hph, Htx, N.eqb_refl.
  destruct (kind_of (CR.handle_response mr (F.f_pdu f))) as [k|] eqn:Ek.
  - destruct (C12Proofs.frame_completes cfg st r t d k Hph Hpartial) as (o1 & Ho1 & _).
    destruct (T.step cfg st (T.EvFrame t k)) as [s1 o1']. cbn [snd] in Ho1. subst o1'.
    destruct (deliver cfg reqs s1 fs) as [[s2 o2] d2].
    rewrite (kind_class _ _ Ek). cbn [app]. eexists _, _, _. reflexivity.
  - exfalso. destruct (CR.handle_response mr (F.f_pdu f)) as [v|e|] eqn:E; [discriminate| destruct e; discriminate|].
    exact (ClientReplyProofs.response_total mr _ Hwf E).
Qed.

(* THE composition: for every byte stream and every cut into non-empty reads *)
Theorem client_system_rtu_ref s chunks fi :
  Framing.bytes s -> concat chunks = s -> Forall (fun c => c <> []) chunks ->
  verdict_for (T.rq_id r) (client_system_rtu cfg reqs st chunks fi) = SR.ref_client_result_rtu mr s fi /\
  first_completion (T.rq_id r) (snd (fst (client_system_rtu cfg reqs st chunks fi))) = task_class (SR.ref_client_result_rtu mr s fi).
Proof.
  intros Hb Hc Hne. unfold client_system_rtu, SR.ref_client_result_rtu.
  change Reader.KRtuResponse with (C06Proofs.kind_of Response).
  rewrite (C06Proofs.rtu_chunking Response s chunks fi Hb Hc Hne). cbv zeta. unfold C05Proofs.lift_frames. cbn [fst snd RtuProofs.role_of].
  rewrite frames_of_map.
  pose proof (rref_tx_none (S (length s)) Framing.Responses s fi) as Htx. unfold Framing.ref_rtu_frames.
  destruct (Framing.rref (S (length s)) Framing.Responses s fi) as [fs e]. cbn [fst snd] in *.
  pose proof (deliver_inflight_rtu fs Htx) as D.
  destruct fs as [|f fs].
  - rewrite D. pose proof (end_inflight cfg st r t d Hph Hpartial e) as E.
    destruct (T.run cfg st (end_events e)) as [s2 o2]. cbn [snd fst app verdict_for find] in *.
    split; [|exact E]. rewrite E. destruct e as [fe|k| | |]; reflexivity.
  - destruct D as (s' & o' & d' & D). rewrite D. destruct (T.run cfg s' (end_events e)) as [s2 o2].
    cbn [verdict_for fst snd app find first_completion]. rewrite Nat.eqb_refl. split.
    + apply reply_verdict. exact Hwf.
    + rewrite <- (reply_verdict mr (F.f_pdu f) Hwf). symmetry. apply class_verdict.
      intros E. exact (ClientReplyProofs.response_total mr _ Hwf E).
Qed.

Corollary client_system_rtu_chunking_independent c1 c2 fi :
  Framing.bytes (concat c1) -> concat c1 = concat c2 -> Forall (fun c => c <> []) c1 -> Forall (fun c => c <> []) c2 ->
  verdict_for (T.rq_id r) (client_system_rtu cfg reqs st c1 fi) = verdict_for (T.rq_id r) (client_system_rtu cfg reqs st c2 fi).
Proof.
  intros Hb Hc H1 H2. rewrite (proj1 (client_system_rtu_ref (concat c1) c1 fi Hb eq_refl H1)).
  rewrite (proj1 (client_system_rtu_ref (concat c1) c2 fi Hb (eq_sym Hc) H2)). reflexivity.
Qed.

(* a framing error (CRC failure included) or the end of the stream before the first frame ends the connection *)
Theorem client_system_rtu_connection_ends s chunks fi :
  Framing.bytes s -> concat chunks = s -> Forall (fun c => c <> []) chunks ->
  (SR.ref_client_result_rtu mr s fi = SS.VBadFrame -> In (T.OEnd SeBadFrame) (snd (fst (client_system_rtu cfg reqs st chunks fi)))) /\
  (SR.ref_client_result_rtu mr s fi = SS.VIo -> In (T.OEnd SeIoError) (snd (fst (client_system_rtu cfg reqs st chunks fi)))).
Proof.
  intros Hb Hc Hne. unfold client_system_rtu, SR.ref_client_result_rtu.
  change Reader.KRtuResponse with (C06Proofs.kind_of Response).
  rewrite (C06Proofs.rtu_chunking Response s chunks fi Hb Hc Hne). cbv zeta. unfold C05Proofs.lift_frames. cbn [fst snd RtuProofs.role_of].
  rewrite frames_of_map.
  pose proof (rref_tx_none (S (length s)) Framing.Responses s fi) as Htx. unfold Framing.ref_rtu_frames.
  destruct (Framing.rref (S (length s)) Framing.Responses s fi) as [fs e]. cbn [fst snd] in *.
  pose proof (deliver_inflight_rtu fs Htx) as D.
  destruct fs as [|f fs].
  - rewrite D.
    assert (Hend : forall e0 se, from_request_err e0 = Some se -> In (T.OEnd se) (snd (T.finish st r (T.RErr e0)))).
    { intros e0 se Hf. pose proof (C10Proofs.finish_completions st r (T.RErr e0)) as Fc. destruct (T.finish st r (T.RErr e0)) as [s' o].
      destruct Fc as [_ Fc]. exact (Fc e0 se eq_refl Hf). }
    destruct e as [fe|k| | |]; cbn [SS.ref_end_verdict end_events]; (split; [|]); try discriminate; intros _.
    + cbn [T.run T.step]. rewrite Hph, Hpartial. cbn [T.reading]. unfold T.on_read_error. rewrite Hph.
      specialize (Hend ReBadFrame SeBadFrame eq_refl). destruct (T.finish st r (T.RErr ReBadFrame)) as [s' o]. cbn [fst snd app] in *. rewrite app_nil_r. exact Hend.
    + destruct k; cbn [T.run T.step]; rewrite Hph; cbn [T.reading]; unfold T.on_read_error; rewrite Hph;
      specialize (Hend ReIo SeIoError eq_refl); destruct (T.finish st r (T.RErr ReIo)) as [s' o]; cbn [fst snd app] in *; rewrite app_nil_r; exact Hend.
  - unfold SS.ref_reply_verdict. destruct (CS.ref_reply mr (F.f_pdu f)); [split; discriminate|].
    destruct (CS.ref_exception mr (F.f_pdu f)); split; discriminate.
Qed.
End Sys.

(* ---------- the Spec's reading, clause by clause ---------- *)
Definition first_rtu_frame (s : list N) (fi : F.fin) : option F.frame := hd_error (fst (Framing.ref_rtu_frames Framing.Responses s fi)).

Lemma rtu_ref_ok_iff mr s fi v : SR.ref_client_result_rtu mr s fi = SS.VValue v <->
  exists f, first_rtu_frame s fi = Some f /\ CS.ref_reply mr (F.f_pdu f) = Some v.
Proof.
  unfold SR.ref_client_result_rtu, first_rtu_frame. destruct (Framing.ref_rtu_frames Framing.Responses s fi) as [fs e]. cbn [fst].
  destruct fs as [|f fs]; cbn [hd_error].
  - split; [destruct e; discriminate|intros (g & Hg & _); discriminate].
  - unfold SS.ref_reply_verdict. split.
    + destruct (CS.ref_reply mr (F.f_pdu f)) as [v'|] eqn:E; [intros H; inversion H; subst; eauto|].
      destruct (CS.ref_exception mr (F.f_pdu f)); discriminate.
    + intros (g & Hg & Hr). inversion Hg; subst. rewrite Hr. reflexivity.
Qed.

Lemma rtu_ref_exception_iff mr s fi c : SR.ref_client_result_rtu mr s fi = SS.VException c <->
  exists f, first_rtu_frame s fi = Some f /\ CS.ref_reply mr (F.f_pdu f) = None /\ CS.ref_exception mr (F.f_pdu f) = Some c.
Proof.
  unfold SR.ref_client_result_rtu, first_rtu_frame. destruct (Framing.ref_rtu_frames Framing.Responses s fi) as [fs e]. cbn [fst].
  destruct fs as [|f fs]; cbn [hd_error].
  - split; [destruct e; discriminate|intros (g & Hg & _); discriminate].
  - unfold SS.ref_reply_verdict. split.
    + destruct (CS.ref_reply mr (F.f_pdu f)) as [v'|] eqn:E; [discriminate|].
      destruct (CS.ref_exception mr (F.f_pdu f)) as [c'|] eqn:E2; [intros H; inversion H; subst; eauto|discriminate].
    + intros (g & Hg & Hr & Hx). inversion Hg; subst. rewrite Hr, Hx. reflexivity.
Qed.

Lemma rtu_ref_bad_frame_iff mr s fi : SR.ref_client_result_rtu mr s fi = SS.VBadFrame <->
  first_rtu_frame s fi = None /\ exists e, snd (Framing.ref_rtu_frames Framing.Responses s fi) = F.EndBad e.
Proof.
  unfold SR.ref_client_result_rtu, first_rtu_frame. destruct (Framing.ref_rtu_frames Framing.Responses s fi) as [fs e]. cbn [fst snd].
  destruct fs as [|f fs]; cbn [hd_error].
  - split.
    + destruct e; try discriminate. intros _. split; [reflexivity|eexists; reflexivity].
    + intros [_ [e' ->]]. reflexivity.
  - unfold SS.ref_reply_verdict. split; [|intros [H _]; discriminate].
    destruct (CS.ref_reply mr (F.f_pdu f)); [discriminate|]. destruct (CS.ref_exception mr (F.f_pdu f)); discriminate.
Qed.

(* a first frame whose CRC does not verify: BadFrame, whatever follows *)
Lemma rtu_ref_crc_failure mr addr pdu lo hi rest fi :
  Framing.bytes (addr :: pdu ++ [lo; hi] ++ rest) -> Framing.delimited Framing.Responses pdu -> (length pdu <= 253)%nat ->
  (lo + 256 * hi) <> Crc.crc (addr :: pdu) ->
  SR.ref_client_result_rtu mr (addr :: pdu ++ [lo; hi] ++ rest) fi = SS.VBadFrame.
Proof.
  intros Hb Hd Hl Hne. unfold SR.ref_client_result_rtu, Framing.ref_rtu_frames.
  rewrite C06Proofs.rref_one_frame by assumption.
  destruct (N.eqb_spec (lo + 256 * hi) (Crc.crc (addr :: pdu))); [contradiction|reflexivity].
Qed.

(* a first frame with a correct CRC decides by its PDU alone: the address byte is not compared
   with the unit the request was sent to *)
Lemma rtu_ref_first_frame mr addr pdu rest fi :
  Framing.bytes (Framing.rtu_frame_of addr pdu ++ rest) -> Framing.delimited Framing.Responses pdu -> (length pdu <= 253)%nat ->
  SR.ref_client_result_rtu mr (Framing.rtu_frame_of addr pdu ++ rest) fi = SS.ref_reply_verdict mr pdu.
Proof.
  intros Hb Hd Hl. unfold SR.ref_client_result_rtu, Framing.ref_rtu_frames, Framing.rtu_frame_of in *.
  cbn [app] in *. rewrite <- app_assoc in *.
  rewrite C06Proofs.rref_one_frame by assumption.
  replace (Crc.crc (addr :: pdu) mod 256 + 256 * (Crc.crc (addr :: pdu) / 256)) with (Crc.crc (addr :: pdu)) by lia.
  rewrite N.eqb_refl. destruct (Framing.rref _ _ _ _) as [fs e]. reflexivity.
Qed.
