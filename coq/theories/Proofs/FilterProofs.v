(* Proofs for C16: the wildcard parser accepts exactly the grammar, `matches` is membership, the
   accept arm serves only admitted peers, every constructor forwards the caller's filter. *)
From Coq Require Import NArith List Lia Bool String.
From Rodbus Require Import Gen.ServerCtors Model.Filter Spec.FilterSpec.
Import ListNotations.
Local Open Scope N_scope.

Arguments N.add : simpl never.
Arguments N.sub : simpl never.
Arguments N.mul : simpl never.
Arguments N.eqb : simpl never.
Arguments N.leb : simpl never.

(* ---------- split / join ---------- *)
Lemma is_dot_true c : is_dot c = true <-> c = 46.
Proof. unfold is_dot, ch_dot. apply N.eqb_eq. Qed.
Lemma is_dot_false c : is_dot c = false <-> c <> 46.
Proof. unfold is_dot, ch_dot. apply N.eqb_neq. Qed.

Lemma nodot_cons c f : nodot (c :: f) <-> c <> 46 /\ nodot f.
Proof. unfold nodot. cbn [In]. intuition congruence. Qed.

Lemma split_nonempty x : split x <> [].
Proof.
  destruct x as [|c r]; cbn [split]; [discriminate|].
  destruct (is_dot c); [discriminate|]. destruct (split r); discriminate.
Qed.

Lemma split_app_dot f r : nodot f -> split (f ++ 46 :: r) = f :: split r.
Proof.
  induction f as [|c f IH]; intros H.
  - cbn [app split]. replace (is_dot 46) with true by reflexivity. reflexivity.
  - apply nodot_cons in H as [Hc Hf]. cbn [app split].
    apply is_dot_false in Hc. rewrite Hc, IH by assumption. reflexivity.
Qed.

Lemma split_nodot f : nodot f -> split f = [f].
Proof.
  induction f as [|c f IH]; intros H; cbn [split]; [reflexivity|].
  apply nodot_cons in H as [Hc Hf]. apply is_dot_false in Hc. rewrite Hc, IH by assumption. reflexivity.
Qed.

Lemma split_join fs : fs <> [] -> Forall nodot fs -> split (join fs) = fs.
Proof.
  induction fs as [|f fs IH]; [congruence|]. intros _ Hall. inversion Hall as [|? ? Hf Hr]; subst.
  destruct fs as [|g fs]; [cbn [join]; now apply split_nodot|].
  change (join (f :: g :: fs)) with (f ++ 46 :: join (g :: fs)). rewrite split_app_dot by assumption.
  f_equal. apply IH; [discriminate|assumption].
Qed.

Lemma join_split x : join (split x) = x /\ Forall nodot (split x).
Proof.
  induction x as [|c r [IHj IHn]]; cbn [split]; [split; [reflexivity|repeat constructor; intros []]|].
  destruct (is_dot c) eqn:Ed.
  - apply is_dot_true in Ed. subst. split.
    + destruct (split r) as [|g gs] eqn:E; [exfalso; eapply split_nonempty; eauto|].
      change (join ([] :: g :: gs)) with ([] ++ 46 :: join (g :: gs)). now rewrite IHj.
    + constructor; [intros []|assumption].
  - destruct (split r) as [|f fs] eqn:E; [exfalso; eapply split_nonempty; eauto|]. split.
    + destruct fs as [|g fs].
      * cbn [join] in *. now rewrite IHj.
      * change (join ((c :: f) :: g :: fs)) with (c :: (f ++ 46 :: join (g :: fs))).
        change (join (f :: g :: fs)) with (f ++ 46 :: join (g :: fs)) in IHj. now rewrite IHj.
    + inversion IHn; subst. constructor; [|assumption]. apply nodot_cons. split; [now apply is_dot_false|assumption].
Qed.

(* ---------- one field ---------- *)
Lemma digit_spec c d : digit c = Some d <-> dec_digit c d.
Proof.
  unfold digit, dec_digit, ch_zero, ch_nine. split.
  - destruct (48 <=? c) eqn:E1; [|discriminate]. destruct (c <=? 57) eqn:E2; [|discriminate].
    cbn [andb]. intros H; inversion H; subst. apply N.leb_le in E1, E2. auto.
  - intros (H1 & H2 & ->). apply N.leb_le in H1, H2. now rewrite H1, H2.
Qed.

Lemma digit_none c : digit c = None <-> forall d, ~ dec_digit c d.
Proof.
  split.
  - intros H d Hd. apply digit_spec in Hd. congruence.
  - intros H. destruct (digit c) as [d|] eqn:E; [|reflexivity]. apply digit_spec in E. now apply H in E.
Qed.

Lemma value_ge ds : forall a, a <= value a ds.
Proof. induction ds as [|d r IH]; intros a; cbn [value]; [lia|]. specialize (IH (a * 10 + d)). lia. Qed.

Lemma digits_spec f : forall acc v,
  digits acc f = Some v <-> exists ds, Forall2 dec_digit f ds /\ v = value acc ds /\ (f = [] \/ v <= 255).
Proof.
  induction f as [|c r IH]; intros acc v; cbn [digits].
  - split.
    + intros H; inversion H; subst. exists []. cbn [value]. auto.
    + intros (ds & Hd & -> & _). inversion Hd; subst. reflexivity.
  - destruct (digit c) as [d|] eqn:Ed.
    + apply digit_spec in Ed. destruct (acc * 10 + d <=? 255) eqn:Hle.
      * apply N.leb_le in Hle. rewrite IH. split.
        -- intros (ds & Hd & -> & Hv). exists (d :: ds). cbn [value]. split; [constructor; assumption|].
           split; [reflexivity|]. right. destruct Hv as [->|Hv]; [|assumption].
           inversion Hd; subst. cbn [value]. assumption.
        -- intros (ds & Hd & -> & Hv). inversion Hd as [|? d' ? ds' Hc Hr]; subst.
           assert (d' = d) by (destruct Hc as (_ & _ & ->); destruct Ed as (_ & _ & ->); reflexivity). subst d'.
           exists ds'. split; [assumption|]. split; [reflexivity|]. right.
           destruct Hv as [|Hv]; [discriminate|exact Hv].
      * apply N.leb_gt in Hle. split; [discriminate|]. intros (ds & Hd & -> & Hv).
        inversion Hd as [|? d' ? ds' Hc Hr]; subst.
        assert (d' = d) by (destruct Hc as (_ & _ & ->); destruct Ed as (_ & _ & ->); reflexivity). subst d'.
        destruct Hv as [|Hv]; [discriminate|]. cbn [value] in Hv. pose proof (value_ge ds' (acc * 10 + d)). lia.
    + split; [discriminate|]. intros (ds & Hd & _). inversion Hd as [|? d' ? ds' Hc Hr]; subst.
      apply digit_spec in Hc. congruence.
Qed.

Lemma not_digit_plus d : ~ dec_digit 43 d.
Proof. unfold dec_digit. lia. Qed.
Lemma not_digit_star d : ~ dec_digit 42 d.
Proof. unfold dec_digit. lia. Qed.

Lemma is_star_true s : is_star s = true <-> s = [42].
Proof.
  unfold is_star, ch_star. destruct s as [|c [|c' r]]; split; try discriminate.
  - intros H. apply N.eqb_eq in H. now subst.
  - intros H. inversion H. reflexivity.
Qed.

Lemma parse_u8_spec f v :
  parse_u8 f = Some v <->
  (exists ds, f <> [] /\ Forall2 dec_digit f ds /\ v = value 0 ds /\ v <= 255) \/
  (exists g ds, f = 43 :: g /\ g <> [] /\ Forall2 dec_digit g ds /\ v = value 0 ds /\ v <= 255).
Proof.
  unfold parse_u8, ch_plus. destruct f as [|c r].
  - split; [discriminate|]. intros [(ds & H & _)|(g & ds & H & _)]; [congruence|discriminate].
  - destruct (N.eqb c 43) eqn:Ep.
    + apply N.eqb_eq in Ep. subst c. destruct r as [|c' r'].
      * split; [discriminate|]. intros [(ds & _ & Hd & _)|(g & ds & Hg & Hne & _)].
        -- inversion Hd; subst. exfalso. eapply not_digit_plus; eauto.
        -- inversion Hg; subst. congruence.
      * rewrite digits_spec. split.
        -- intros (ds & Hd & -> & [|Hv]); [discriminate|]. right. exists (c' :: r'), ds. repeat split; auto. discriminate.
        -- intros [(ds & _ & Hd & _)|(g & ds & Hg & Hne & Hd & -> & Hv)].
           ++ inversion Hd; subst. exfalso. eapply not_digit_plus; eauto.
           ++ inversion Hg; subst. exists ds. auto.
    + apply N.eqb_neq in Ep. rewrite digits_spec. split.
      * intros (ds & Hd & -> & [|Hv]); [discriminate|]. left. exists ds. repeat split; auto. discriminate.
      * intros [(ds & _ & Hd & -> & Hv)|(g & ds & Hg & _)]; [exists ds; auto|]. inversion Hg; subst. congruence.
Qed.

Lemma get_byte_spec f w : get_byte f = Some w <-> field f w.
Proof.
  unfold get_byte. destruct (is_star f) eqn:Es.
  - apply is_star_true in Es. subst f. split.
    + intros H; inversion H. constructor.
    + intros H. inversion H as [|g ds Hne Hd Hv|g ds Hne Hd Hv]; subst; [reflexivity|].
      inversion Hd; subst. exfalso. eapply not_digit_star; eauto.
  - assert (Hns : f <> [42]) by (intros ->; discriminate). split.
    + destruct (parse_u8 f) as [v|] eqn:Ep; [|discriminate]. cbn [option_map]. intros H; inversion H; subst.
      apply parse_u8_spec in Ep. destruct Ep as [(ds & Hne & Hd & -> & Hv)|(g & ds & -> & Hne & Hd & -> & Hv)].
      * now apply FNum.
      * now apply FPlus.
    + intros H. inversion H as [|g ds Hne Hd Hv|g ds Hne Hd Hv]; subst; [congruence| |].
      * assert (E : parse_u8 f = Some (value 0 ds)) by (apply parse_u8_spec; left; exists ds; auto).
        now rewrite E.
      * assert (E : parse_u8 (43 :: g) = Some (value 0 ds)) by (apply parse_u8_spec; right; exists g, ds; auto).
        now rewrite E.
Qed.

(* ---------- C16_parse ---------- *)
Lemma parse_wildcard_split s w :
  parse_wildcard s = Some w <->
  exists f3 f2 f1 f0, split s = [f3; f2; f1; f0] /\
    get_byte f3 = Some (b3 w) /\ get_byte f2 = Some (b2 w) /\ get_byte f1 = Some (b1 w) /\ get_byte f0 = Some (b0 w).
Proof.
  unfold parse_wildcard.
  destruct (split s) as [|f3 [|f2 [|f1 [|f0 [|f r]]]]];
    repeat match goal with
           | |- context [match get_byte ?f with _ => _ end] => destruct (get_byte f) eqn:?
           end;
    (split;
     [ intros H; try discriminate; inversion H; subst; cbn [b3 b2 b1 b0]; eauto 10
     | intros (g3 & g2 & g1 & g0 & E & H3 & H2 & H1 & H0); try discriminate; inversion E; subst;
       try congruence ]).
  rewrite H3 in *. rewrite H2 in *. rewrite H1 in *. rewrite H0 in *.
  repeat match goal with E : Some _ = Some _ |- _ => inversion E; clear E end. subst. destruct w; reflexivity.
Qed.

Theorem parse_iff s w : parse_wildcard s = Some w <-> wildcard_string s w.
Proof.
  rewrite parse_wildcard_split. unfold wildcard_string. split.
  - intros (f3 & f2 & f1 & f0 & E & H3 & H2 & H1 & H0).
    destruct (join_split s) as [Hj Hn]. rewrite E in Hj, Hn.
    inversion Hn as [|? ? N3 Hn2]; subst. inversion Hn2 as [|? ? N2 Hn1]; subst.
    inversion Hn1 as [|? ? N1 Hn0]; subst. inversion Hn0 as [|? ? N0 _]; subst.
    exists f3, f2, f1, f0. rewrite <- !get_byte_spec. auto 10.
  - intros (f3 & f2 & f1 & f0 & -> & N3 & N2 & N1 & N0 & H3 & H2 & H1 & H0).
    exists f3, f2, f1, f0. rewrite !get_byte_spec.
    rewrite split_join by (try discriminate; repeat constructor; assumption). auto 10.
Qed.

(* rejected strings: exactly those outside the grammar *)
Corollary parse_rejects s : parse_wildcard s = None <-> forall w, ~ wildcard_string s w.
Proof.
  split.
  - intros H w Hw. apply parse_iff in Hw. congruence.
  - intros H. destruct (parse_wildcard s) as [w|] eqn:E; [|reflexivity]. apply parse_iff in E. now apply H in E.
Qed.

(* the parsed octets are octets *)
Lemma field_octet f v : field f (Some v) -> v <= 255.
Proof. intros H. inversion H; subst; assumption. Qed.

Corollary parse_octets s w : parse_wildcard s = Some w ->
  forall v, In (Some v) [b3 w; b2 w; b1 w; b0 w] -> v <= 255.
Proof.
  intros H v Hin. apply parse_iff in H. destruct H as (f3 & f2 & f1 & f0 & _ & _ & _ & _ & _ & H3 & H2 & H1 & H0).
  cbn [In] in Hin. destruct Hin as [E|[E|[E|[E|[]]]]]; rewrite E in *; eauto using field_octet.
Qed.

(* ---------- C16_match ---------- *)
Lemma list_N_eqb_eq x : forall y, list_N_eqb x y = true <-> x = y.
Proof.
  induction x as [|a x IH]; intros [|b y]; cbn [list_N_eqb]; split; try discriminate; try reflexivity.
  - intros H. apply andb_prop in H as [H1 H2]. apply N.eqb_eq in H1. apply IH in H2. now subst.
  - intros H. inversion H; subst. rewrite N.eqb_refl. cbn [andb]. now apply IH.
Qed.

Lemma ip_eqb_eq x y : ip_eqb x y = true <-> x = y.
Proof.
  destruct x as [a b c d|s], y as [a' b' c' d'|s']; cbn [ip_eqb]; split; try discriminate.
  - intros H. repeat (apply andb_prop in H as [H ?]). apply N.eqb_eq in H. repeat match goal with E : N.eqb _ _ = true |- _ => apply N.eqb_eq in E end. now subst.
  - intros H. inversion H; subst. now rewrite !N.eqb_refl.
  - intros H. apply list_N_eqb_eq in H. now subst.
  - intros H. inversion H; subst. now apply list_N_eqb_eq.
Qed.

Lemma bm_spec a p : bm a p = true <-> octet_ok p a.
Proof.
  unfold bm, octet_ok. destruct p as [x|].
  - rewrite N.eqb_eq. split; [intros ->; now right|intros [H|H]; [discriminate|now inversion H]].
  - split; auto.
Qed.

Theorem matches_iff f peer : matches f peer = true <-> admits f peer.
Proof.
  destruct f as [|a|s|w]; cbn [matches admits].
  - split; auto.
  - rewrite ip_eqb_eq. split; congruence.
  - rewrite existsb_exists. split.
    + intros (x & Hin & He). apply ip_eqb_eq in He. now subst.
    + intros Hin. exists peer. split; [assumption|now apply ip_eqb_eq].
  - unfold wc_matches. destruct peer as [a3 a2 a1 a0|segs].
    + rewrite !andb_true_iff, !bm_spec. split.
      * intros (((H3 & H2) & H1) & H0). exists a3, a2, a1, a0. auto.
      * intros (x3 & x2 & x1 & x0 & E & H3 & H2 & H1 & H0). inversion E; subst. auto.
    + split; [discriminate|]. intros (x3 & x2 & x1 & x0 & E & _). discriminate.
Qed.

Corollary wildcard_never_matches_v6 w segs : matches (WildcardIpv4 w) (V6 segs) = false.
Proof. reflexivity. Qed.

(* ---------- C16_gate ---------- *)
(* by computation on the generated shape of the accept arm *)
Lemma gate_shape_ok :
  match accept_arm with
  | IfMatches then_ else_ => forallb (fun c => negb (uses_socket c)) else_ = true /\ In CallHandle then_
  | Unguarded _ => False
  end.
Proof. vm_compute. split; [reflexivity|]. tauto. Qed.

Theorem gate_served_only_if_admitted f peer c :
  In c (on_accept accept_arm f peer) -> uses_socket c = true -> admits f peer.
Proof.
  pose proof gate_shape_ok as G. unfold on_accept. destruct accept_arm as [t e|l]; [|contradiction].
  destruct G as [Ge _]. destruct (matches f peer) eqn:M.
  - intros _ _. now apply matches_iff.
  - intros Hin Hu. rewrite forallb_forall in Ge. apply Ge in Hin. rewrite Hu in Hin. discriminate.
Qed.

Theorem gate_admitted_is_handled f peer : admits f peer -> In CallHandle (on_accept accept_arm f peer).
Proof.
  pose proof gate_shape_ok as G. unfold on_accept. destruct accept_arm as [t e|l]; [|contradiction].
  destruct G as [_ Gt]. intros H. apply matches_iff in H. now rewrite H.
Qed.

(* ---------- the decision is a function of (filter, peer) only ---------- *)
Lemma guard_is_the_filter_test : accept_guard = [GMatches] /\ accept_guard_kind = ServeInThen
                              \/ accept_guard = [GNotMatches] /\ accept_guard_kind = RejectInThen.
Proof. left. split; reflexivity. Qed.

Theorem gate_decision o hist f peer : served accept_guard accept_guard_kind o hist f peer = matches f peer.
Proof.
  destruct guard_is_the_filter_test as [[-> ->]|[-> ->]]; cbn.
  - now rewrite Bool.andb_true_r.
  - rewrite Bool.andb_true_r. apply Bool.negb_involutive.
Qed.

Theorem gate_decision_admits o hist f peer : served accept_guard accept_guard_kind o hist f peer = true <-> admits f peer.
Proof. rewrite gate_decision. apply matches_iff. Qed.

Theorem gate_history_free o o' hist hist' f peer :
  served accept_guard accept_guard_kind o hist f peer = served accept_guard accept_guard_kind o' hist' f peer.
Proof. now rewrite !gate_decision. Qed.

Theorem gate_sequence o f peers : forall hist,
  serve_seq accept_guard accept_guard_kind o hist f peers = map (matches f) peers.
Proof.
  induction peers as [|p rest IH]; intro hist; cbn [serve_seq map]; [reflexivity|].
  now rewrite gate_decision, IH.
Qed.

Theorem gate_sequence_admits o f peers hist k p :
  nth_error peers k = Some p ->
  exists b, nth_error (serve_seq accept_guard accept_guard_kind o hist f peers) k = Some b /\ (b = true <-> admits f p).
Proof.
  intro H. rewrite gate_sequence. exists (matches f p). split.
  - now rewrite nth_error_map, H.
  - apply matches_iff.
Qed.

Theorem gate_callgraph :
  forallb (fun fn => negb (reach_unguarded 8 fn))
          ["handle"; "run_session"; "tokio::spawn"; "conn_handler.handle"; "tls_handshake"; "SessionTask::new"]%string = true
  /\ forallb (fun fn => match callers_of fn with [] => false | _ => true end)
          ["handle"; "run_session"; "tokio::spawn"; "conn_handler.handle"; "tls_handshake"; "SessionTask::new"]%string = true.
Proof. vm_compute. split; reflexivity. Qed.

(* ---------- C16_forward ---------- *)
Lemma all_calls_forward : forallb (fun c => match cc_arg c with Forwarded => true | _ => false end) ctor_calls = true.
Proof. vm_compute. reflexivity. Qed.

Theorem forward_table c : In c ctor_calls -> cc_arg c = Forwarded.
Proof.
  intros H. pose proof all_calls_forward as A. rewrite forallb_forall in A. apply A in H.
  destruct (cc_arg c); [reflexivity|discriminate|discriminate].
Qed.

(* every path from a constructor reaches the server task with exactly the caller's filter *)
Definition forwards (fn : string) : Prop :=
  forall f : afilter, effective 8 fn f <> [] /\ Forall (fun r => r = Some f) (effective 8 fn f).

Theorem forward_all : Forall forwards ctor_fns.
Proof.
  unfold ctor_fns. repeat (apply Forall_cons; [intros f; cbv; split; [discriminate|repeat constructor]|]).
  apply Forall_nil.
Qed.

Lemma public_are_ctors : forallb (fun p => existsb (String.eqb p) ctor_fns) public_ctors = true.
Proof. vm_compute. reflexivity. Qed.

Theorem forward_public fn : In fn public_ctors -> forwards fn.
Proof.
  intros H. pose proof public_are_ctors as P. rewrite forallb_forall in P. apply P in H.
  apply existsb_exists in H as (x & Hin & He). apply String.eqb_eq in He. subst x.
  pose proof forward_all as A. rewrite Forall_forall in A. now apply A.
Qed.

Theorem match_set s peer : matches (AnyOf s) peer = true <-> In peer s.
Proof. apply (matches_iff (AnyOf s) peer). Qed.

Theorem match_empty_set peer : matches (AnyOf []) peer = false.
Proof. destruct (matches (AnyOf []) peer) eqn:E; [|reflexivity]. apply match_set in E. destruct E. Qed.

Theorem sink_untransformed : sink_filter_rebindings = [] /\ sink_filter_field = "filter"%string.
Proof. split; reflexivity. Qed.

Theorem forward_misc : sink_stores_filter = true /\ ffi_filter_conversion_is_identity = true
  /\ (6 <= List.length public_ctors)%nat.
Proof. vm_compute. repeat split. repeat constructor. Qed.

(* ---------- the C-ABI filter string ---------- *)
Lemma digits_nonempty_not_star f v : digits 0 f = Some v -> f <> [] -> is_star f = false.
Proof.
  destruct f as [|c [|c' r]]; intros H Hne; try congruence; [|reflexivity].
  unfold is_star. destruct (N.eqb c ch_star) eqn:E; [|reflexivity].
  apply N.eqb_eq in E. subst. cbn in H. discriminate.
Qed.

Lemma parse_octet_get_byte f v : parse_octet f = Some v -> get_byte f = Some (Some v).
Proof.
  unfold parse_octet. destruct f as [|c r]; [discriminate|].
  destruct (N.eqb c ch_zero && negb match r with [] => true | _ => false end); [discriminate|].
  destruct (Nat.ltb 3 (List.length (c :: r))); [discriminate|].
  destruct (N.eqb c ch_plus) eqn:Ep; [discriminate|]. intros H.
  unfold get_byte. rewrite (digits_nonempty_not_star (c :: r) v H) by discriminate.
  unfold parse_u8. rewrite Ep, H. reflexivity.
Qed.

Theorem ipv4_literal_is_wildcard s a b c d :
  parse_ipv4 s = Some (V4 a b c d) ->
  parse_wildcard s = Some {| b3 := Some a; b2 := Some b; b1 := Some c; b0 := Some d |}.
Proof.
  unfold parse_ipv4. intros H. apply parse_wildcard_split.
  destruct (split s) as [|f3 [|f2 [|f1 [|f0 [|? ?]]]]]; try discriminate.
  destruct (parse_octet f3) eqn:E3; [|discriminate]. destruct (parse_octet f2) eqn:E2; [|discriminate].
  destruct (parse_octet f1) eqn:E1; [|discriminate]. destruct (parse_octet f0) eqn:E0; [|discriminate].
  inversion H; subst. exists f3, f2, f1, f0. cbn [b3 b2 b1 b0].
  repeat split; auto using parse_octet_get_byte.
Qed.

Lemma parse_ipv4_is_v4 s x : parse_ipv4 s = Some x -> exists a b c d, x = V4 a b c d.
Proof.
  unfold parse_ipv4. destruct (split s) as [|f3 [|f2 [|f1 [|f0 [|? ?]]]]]; try discriminate.
  destruct (parse_octet f3), (parse_octet f2), (parse_octet f1), (parse_octet f0); try discriminate.
  intros H; inversion H; eauto.
Qed.

(* an exact-address set and the all-literal wildcard admit the same peers *)
Lemma exact_set_vs_wildcard a b c d peer :
  matches (AnyOf [V4 a b c d]) peer = matches (WildcardIpv4 {| b3 := Some a; b2 := Some b; b1 := Some c; b0 := Some d |}) peer.
Proof.
  cbn [matches existsb wc_matches]. destruct peer as [x3 x2 x1 x0|segs]; cbn [ip_eqb bm b3 b2 b1 b0].
  - rewrite orb_false_r. rewrite (N.eqb_sym a), (N.eqb_sym b), (N.eqb_sym c), (N.eqb_sym d). reflexivity.
  - reflexivity.
Qed.

(* every (non-IPv6) filter string accepted by the C ABI denotes a well-formed wildcard string with the
   same set of admitted peers *)
Theorem ffi_filter_is_wildcard_semantics s f :
  ffi_filter_v4 s = Some f ->
  exists w, wildcard_string s w /\ forall peer, matches f peer = matches (WildcardIpv4 w) peer.
Proof.
  unfold ffi_filter_v4. destruct (parse_ipv4 s) as [x|] eqn:E.
  - destruct (parse_ipv4_is_v4 s x E) as (a & b & c & d & ->). intros H; inversion H; subst.
    eexists. split; [apply parse_iff; eapply ipv4_literal_is_wildcard; eassumption|].
    intros peer. apply exact_set_vs_wildcard.
  - destruct (parse_wildcard s) as [w|] eqn:Ew; [|discriminate]. intros H; inversion H; subst.
    exists w. split; [now apply parse_iff|reflexivity].
Qed.

(* ---------- strings with a colon; the C-ABI filter string in full ---------- *)
Definition wildcard_char (c : N) : Prop := c = 42 \/ c = 43 \/ c = 46 \/ (48 <= c /\ c <= 57).

Lemma field_chars f p : field f p -> Forall wildcard_char f.
Proof.
  intros H. inversion H as [|g ds Hne Hd Hv|g ds Hne Hd Hv]; subst.
  - repeat constructor.
  - clear - Hd. induction Hd as [|c d g ds Hc _ IH]; constructor; [|exact IH].
    destruct Hc as (H1 & H2 & _). right; right; right. split; assumption.
  - constructor; [right; left; reflexivity|]. clear - Hd.
    induction Hd as [|c d g ds Hc _ IH]; constructor; [|exact IH].
    destruct Hc as (H1 & H2 & _). right; right; right. split; assumption.
Qed.

Lemma wildcard_string_chars s w : wildcard_string s w -> Forall wildcard_char s.
Proof.
  intros (f3 & f2 & f1 & f0 & -> & _ & _ & _ & _ & H3 & H2 & H1 & H0).
  apply field_chars in H3, H2, H1, H0. cbn [join].
  repeat (apply Forall_app; split; [assumption|constructor; [right; right; left; reflexivity|]]). assumption.
Qed.

(* a string containing ':' (58) is never accepted by the wildcard parser, nor as an IPv4 literal *)
Theorem colon_never_wildcard s : In 58 s -> parse_wildcard s = None.
Proof.
  intros Hin. destruct (parse_wildcard s) as [w|] eqn:E; [|reflexivity].
  apply parse_iff in E. apply wildcard_string_chars in E. rewrite Forall_forall in E.
  specialize (E 58 Hin). unfold wildcard_char in E. lia.
Qed.

Theorem colon_never_ipv4 s : In 58 s -> parse_ipv4 s = None.
Proof.
  intros Hin. destruct (parse_ipv4 s) as [x|] eqn:E; [|reflexivity].
  destruct (parse_ipv4_is_v4 s x E) as (a & b & c & d & ->).
  apply ipv4_literal_is_wildcard in E. rewrite (colon_never_wildcard s Hin) in E. discriminate.
Qed.

(* ANY IPv6 literal parser that accepts only strings containing a colon (every textual IPv6 address has one) *)
Theorem ffi_filter_semantics (parse_v6 : str -> option ip) :
  (forall s a, parse_v6 s = Some a -> In 58 s) ->
  forall s f, ffi_filter parse_v6 s = Some f ->
  (exists w, wildcard_string s w /\ forall peer, matches f peer = matches (WildcardIpv4 w) peer) \/
  (exists a, parse_v6 s = Some a /\ parse_wildcard s = None /\ forall peer, matches f peer = true <-> peer = a).
Proof.
  intros v6_has_colon s f. unfold ffi_filter. destruct (parse_ipv4 s) as [x|] eqn:E4.
  - intros H. left. apply (ffi_filter_is_wildcard_semantics s f). unfold ffi_filter_v4. now rewrite E4.
  - destruct (parse_v6 s) as [a|] eqn:E6.
    + intros H; inversion H; subst. right. exists a. split; [reflexivity|]. split.
      * apply colon_never_wildcard. eapply v6_has_colon; eassumption.
      * intros peer. rewrite matches_iff. cbn [admits In]. intuition congruence.
    + intros H. left. apply (ffi_filter_is_wildcard_semantics s f). unfold ffi_filter_v4. now rewrite E4.
Qed.
