(* Composition of the reader refinement (C05/C06), the session refinement (C01) and the command
   layer: the server as a whole with its command channel. *)
From Coq Require Import NArith List Bool Arith Lia.
From Rodbus Require Import Base.Outcome Gen.RtuLengths.
From Rodbus Require Base.Frame Base.ServerTypes Base.ServerRun Model.Reader Model.Server Model.ServerRun Spec.Framing Spec.Modbus
  Model.SystemServer Model.SystemServerRun Spec.SystemSpec Proofs.C05Proofs Proofs.C06Proofs Proofs.RtuProofs
  Proofs.ServerProofs Proofs.ServerRunProofs Proofs.SystemProofs.
Import ListNotations.
Module F := Rodbus.Base.Frame.
Module S := Rodbus.Base.ServerTypes.
Module R := Rodbus.Base.ServerRun.
Import SystemServer SystemServerRun SystemSpec.

Notation bytes := Framing.bytes.

Lemma fill_ok l : forall cevs frames, Forall (ServerProofs.frame_ok l) frames ->
  ServerRunProofs.events_ok l (fst (fill frames cevs)).
Proof.
  unfold ServerRunProofs.events_ok.
  induction cevs as [|ev rest IH]; intros frames Hok; [constructor|].
  destruct ev; cbn [fill].
  - destruct frames as [|f fs]; [constructor|]. inversion Hok as [|? ? Hf Hfs]; subst.
    specialize (IH fs Hfs). destruct (fill fs rest) as [evs b]. cbn [fst] in *. constructor; assumption.
  - specialize (IH frames Hok). destruct (fill frames rest) as [evs b]. cbn [fst] in *. constructor; [exact I|assumption].
  - specialize (IH frames Hok). destruct (fill frames rest) as [evs b]. cbn [fst] in *. constructor; [exact I|assumption].
  - specialize (IH frames Hok). destruct (fill frames rest) as [evs b]. cbn [fst] in *. constructor; [exact I|assumption].
  - specialize (IH frames Hok). destruct (fill frames rest) as [evs b]. cbn [fst] in *. constructor; [exact I|assumption].
Qed.

Lemma fill_strip : forall cevs frames,
  fill frames (cstrip cevs) = (R.strip (fst (fill frames cevs)), snd (fill frames cevs)).
Proof.
  induction cevs as [|ev rest IH]; intros frames; [reflexivity|].
  destruct ev as [|[lvl|]| | |]; cbn [cstrip fill].
  - destruct frames as [|f fs]; [reflexivity|]. rewrite IH. destruct (fill fs rest) as [evs b]. reflexivity.
  - rewrite IH. destruct (fill frames rest) as [evs b]. reflexivity.
  - rewrite IH. destruct (fill frames rest) as [evs b]. reflexivity.
  - rewrite IH. destruct (fill frames rest) as [evs b]. reflexivity.
  - rewrite IH. destruct (fill frames rest) as [evs b]. reflexivity.
  - rewrite IH. destruct (fill frames rest) as [evs b]. reflexivity.
Qed.

Section Sys.
Context {St : Type}.
Variable H : S.handler St.

(* the reference: cut the stream by the framing rule alone, run the select! outcomes over the
   reference Modbus server *)
Definition ref_server_system_run (l : S.link) (a : S.auth) (units : S.ucfg St) (d : N) (s : list N) (fi : F.fin) (cevs : list cevent) :=
  let r := ref_cut l s fi in
  let '(evs, at_end) := fill (map to_server_frame (fst r)) cevs in
  (R.run (E := Server.serr) (fun u f => R.ok_result (Modbus.ref_handle_frame H l a u f)) units d R.MIdle evs,
   if at_end then Some (snd r) else None).

Theorem server_system_run_tcp a units d s chunks fi cevs :
  bytes s -> concat chunks = s -> Forall (fun c => c <> []) chunks ->
  server_system_run H S.LTcp a units d chunks fi cevs = ref_server_system_run S.LTcp a units d s fi cevs.
Proof.
  intros Hb Hc Hne. unfold server_system_run, ref_server_system_run, ref_cut, kind_of_link.
  rewrite (C05Proofs.tcp_chunking s chunks fi Hc Hne). cbv zeta. unfold C05Proofs.lift_frames. cbn [fst snd].
  rewrite SystemProofs.frames_of_map. unfold Framing.ref_frames.
  match goal with |- context [fill ?fr cevs] => pose proof (fill_ok S.LTcp cevs fr) as Hok end.
  specialize (Hok (SystemProofs.to_server_ok_tcp _ (SystemProofs.ref_good _ s fi Hb))).
  destruct (fill _ cevs) as [evs b]. cbn [fst] in Hok.
  rewrite (ServerRunProofs.session_run_refines H S.LTcp a units d evs Hok). reflexivity.
Qed.

Theorem server_system_run_rtu a units d s chunks fi cevs :
  bytes s -> concat chunks = s -> Forall (fun c => c <> []) chunks ->
  server_system_run H S.LRtu a units d chunks fi cevs = ref_server_system_run S.LRtu a units d s fi cevs.
Proof.
  intros Hb Hc Hne. unfold server_system_run, ref_server_system_run, ref_cut, kind_of_link.
  change Reader.KRtuRequest with (C06Proofs.kind_of Request).
  rewrite (C06Proofs.rtu_chunking Request s chunks fi Hb Hc Hne). cbv zeta. unfold C05Proofs.lift_frames. cbn [fst snd].
  rewrite SystemProofs.frames_of_map. unfold Framing.ref_rtu_frames. change (RtuProofs.role_of Request) with Framing.Requests.
  match goal with |- context [fill ?fr cevs] => pose proof (fill_ok S.LRtu cevs fr) as Hok end.
  specialize (Hok (SystemProofs.to_server_ok_rtu _ (SystemProofs.rref_good _ _ s fi Hb))).
  destruct (fill _ cevs) as [evs b]. cbn [fst] in Hok.
  rewrite (ServerRunProofs.session_run_refines H S.LRtu a units d evs Hok). reflexivity.
Qed.

Corollary server_system_run_chunking_independent l a units d c1 c2 fi cevs :
  bytes (concat c1) -> concat c1 = concat c2 -> Forall (fun c => c <> []) c1 -> Forall (fun c => c <> []) c2 ->
  server_system_run H l a units d c1 fi cevs = server_system_run H l a units d c2 fi cevs.
Proof.
  intros Hb Hc H1 H2. destruct l.
  - rewrite (server_system_run_tcp a units d (concat c1) c1 fi cevs Hb eq_refl H1).
    rewrite (server_system_run_tcp a units d (concat c1) c2 fi cevs Hb (eq_sym Hc) H2). reflexivity.
  - rewrite (server_system_run_rtu a units d (concat c1) c1 fi cevs Hb eq_refl H1).
    rewrite (server_system_run_rtu a units d (concat c1) c2 fi cevs Hb (eq_sym Hc) H2). reflexivity.
Qed.

(* decode level changes are unobservable for the server as a whole *)
Theorem server_system_run_unobservable l a units d d' chunks fi cevs :
  let x := server_system_run H l a units d chunks fi cevs in
  let y := server_system_run H l a units d' chunks fi (cstrip cevs) in
  R.observable (fst x) = R.observable (fst y) /\ snd x = snd y.
Proof.
  cbv zeta. unfold server_system_run. rewrite fill_strip.
  destruct (fill _ cevs) as [evs b]. cbn [fst snd]. split; [|reflexivity].
  apply ServerRunProofs.session_unobservable.
Qed.
End Sys.
