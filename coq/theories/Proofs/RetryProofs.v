From Coq Require Import NArith List Lia Bool Arith ZArith ZifyBool ZifyNat ZifyN.
From Rodbus Require Import Model.Retry Spec.RetrySpec.
Import ListNotations.
Ltac Zify.zify_post_hook ::= Z.div_mod_to_equations.
Local Open Scope N_scope.

Lemma delay_succ mn mx k : mn <= mx -> delay_spec mn mx (S k) = N.min (2 * delay_spec mn mx k) mx.
Proof.
  intros H. unfold delay_spec. rewrite Nat2N.inj_succ, N.pow_succ_r'.
  set (p := 2 ^ N.of_nat k). assert (mn * (2 * p) = 2 * (mn * p)) as -> by lia.
  destruct (N.min_spec (mn * p) mx) as [[? ->]|[? ->]]; lia.
Qed.

Lemma strategy_refines mn mx : mn <= mx -> 2 * mx <= dur_max ->
  forall ops k d, dmin d = mn -> dmax d = mx -> cur d = delay_spec mn mx k ->
  run d ops = Some (spec mn mx k ops).
Proof.
  intros Hle Hov. induction ops as [|o ops IH]; intros k d Hmn Hmx Hc; [reflexivity|].
  destruct o; cbn [run step spec].
  - assert (Hb : cur d <= mx) by (rewrite Hc; unfold delay_spec; lia).
    destruct (N.ltb_spec dur_max (2 * cur d)); [lia|].
    rewrite (IH (S k)); cbn; try assumption; [now rewrite Hc|]. rewrite Hmx, Hc. symmetry. now apply delay_succ.
  - rewrite (IH k d); try assumption. now rewrite Hmn.
  - rewrite (IH 0%nat); cbn; try assumption; [reflexivity|]. unfold delay_spec. cbn. rewrite Hmn. lia.
Qed.

Lemma strategy_from_create mn mx : mn <= mx -> 2 * mx <= dur_max ->
  forall ops, run (create mn mx) ops = Some (spec mn mx 0 ops).
Proof.
  intros Hle Hov ops. apply strategy_refines; try assumption; try reflexivity.
  unfold create, delay_spec; cbn [cur]. change (2 ^ N.of_nat 0) with 1. lia.
Qed.

(* never panics under the same hypotheses *)
Lemma strategy_no_panic mn mx : mn <= mx -> 2 * mx <= dur_max ->
  forall ops, run (create mn mx) ops <> None.
Proof. intros Hle Hov ops. rewrite strategy_from_create by assumption. discriminate. Qed.

(* the k-th consecutive failure (k >= 1) waits min * 2^(k-1) capped at max: closed form of delay_spec *)
Lemma delay_closed_form mn mx k : delay_spec mn mx k = N.min (mn * 2 ^ N.of_nat k) mx.
Proof. reflexivity. Qed.

(* delays never exceed max and never go below min (for min <= max) *)
Lemma delay_bounds mn mx k : mn <= mx -> mn <= delay_spec mn mx k <= mx.
Proof.
  intros H. unfold delay_spec. assert (2 ^ N.of_nat k <> 0) by (apply N.pow_nonzero; lia).
  split; [|lia]. apply N.min_glb; [|assumption]. nia.
Qed.
