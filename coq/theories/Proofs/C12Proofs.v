(* Proofs for C12: timeout exactly at the deadline, the consecutive-timeout counter. *)
From Coq Require Import NArith List Bool Arith Lia ZArith ZifyBool ZifyNat ZifyN.
From Rodbus Require Import Model.Retry Spec.Lifecycle Spec.ClientSpec Gen.SessionErrors Model.ClientTask Model.ClientEager Proofs.ClientBase Proofs.C11Proofs.
Import ListNotations.
Local Open Scope N_scope.
Ltac Zify.zify_post_hook ::= Z.div_mod_to_equations.

(* ---------- the counter, as run_one_request drives it ---------- *)
(* what one finished request does to the counter: (new counter, true = the session ends with MaxTimeouts) *)
Definition tc_step (t : tcounter) (o : outcome) : tcounter * bool :=
  if is_timeout o then tc_increment t else (tc_reset t, false).

(* index of the request at which the session ends *)
Fixpoint ends_at (t : tcounter) (os : list outcome) : option nat :=
  match os with
  | [] => None
  | o :: r => let '(t', stop) := tc_step t o in if stop then Some O else option_map S (ends_at t' r)
  end.

Lemma counter_spec m : 1 <= m -> m <= usize_max ->
  forall os c, c < m -> ends_at (TcEnabled c m) os = drop_index m c os.
Proof.
  intros H1 Hm. induction os as [|o os IH]; intros c Hc; [reflexivity|].
  cbn [ends_at drop_index]. unfold tc_step. destruct (is_timeout o).
  - cbn [tc_increment]. assert (E : N.min (c + 1) usize_max = c + 1) by lia. rewrite E.
    unfold counter_limit_reached. destruct (N.leb_spec m (c + 1)); [reflexivity|]. rewrite IH by lia. reflexivity.
  - cbn [tc_reset]. unfold counter_reset_value. rewrite IH by lia. reflexivity.
Qed.

Lemma counter_from_new m os : 1 <= m -> m <= usize_max -> ends_at (tc_new (Some m)) os = drop_index_opt (Some m) os.
Proof. intros H1 Hm. cbn. apply counter_spec; lia. Qed.

Lemma counter_unlimited : forall os, ends_at (tc_new None) os = drop_index_opt None os.
Proof.
  cbn. induction os as [|o os IH]; [reflexivity|]. cbn [ends_at]. unfold tc_step. destruct (is_timeout o); cbn; rewrite IH; reflexivity.
Qed.


(* ---------- the task uses exactly this counter ---------- *)
Definition outcome_result (o : outcome) : result :=
  match o with
  | Timeout => RErr ReResponseTimeout | Success => ROk | Exception => RErr ReException | BadReply => RErr ReBadResponse
  end.

Section Task.
Variable cfg : config.

(* run_one_request for a finished request with outcome oc: the counter makes one tc_step; the
   session ends with MaxTimeouts exactly when tc_step says so, otherwise the task is idle on the
   same connection and the only output is the completion *)
Lemma finish_counter s r oc :
  finish s r (outcome_result oc) =
  let '(t', stop) := tc_step (tcount s) oc in
  if stop then let '(s', o) := end_session (set_tc (set_ph s PIdle) t') SeMaxTimeouts in (s', [OComplete (rq_id r) (outcome_result oc)] ++ o)
  else (set_tc (set_ph s PIdle) t', [OComplete (rq_id r) (outcome_result oc)]).
Proof.
  unfold finish, tc_step. destruct oc; cbn [outcome_result is_timeout from_request_err request_error_beq counted_error success_resets_counter set_ph tcount].
  - destruct (tc_increment (tcount s)) as [t' stop]. destruct stop; reflexivity.
  - reflexivity.
  - reflexivity.
  - reflexivity.
Qed.

(* exact deadline, the timer side: the deadline branch completes the request with Timeout when (and
   only when) the timer for `d` has fired; before that instant the branch is not enabled *)
Lemma timer_exact s r tx d : ph s = PInFlight r tx d ->
  (fire cfg d <= now s -> exists o, snd (step cfg s EvTimer) = OComplete (rq_id r) (RErr ReResponseTimeout) :: o) /\
  (now s < fire cfg d -> step cfg s EvTimer = (s, [])).
Proof.
  intros Eph. cbn [step]. rewrite Eph. split; intros H.
  - destruct (N.leb_spec (fire cfg d) (now s)); [|lia]. change deadline_error with ReResponseTimeout.
    pose proof (finish_counter s r Timeout) as E. cbn [outcome_result] in E. rewrite E.
    destruct (tc_step (tcount s) Timeout) as [t' stop]. destruct stop; [|eexists; reflexivity].
    destruct (end_session _ _) as [s' o]. eexists. reflexivity.
  - destruct (N.leb_spec (fire cfg d) (now s)); [lia|reflexivity].
Qed.

(* the frame side: while the request is in flight a frame with its tx id completes it with the
   reply's result - never with Timeout *)
Lemma frame_completes s r tx d k : ph s = PInFlight r tx d -> partial s = None ->
  exists o, snd (step cfg s (EvFrame tx k)) = OComplete (rq_id r) (respond k) :: o /\ respond k <> RErr ReResponseTimeout.
Proof.
  intros Eph Hp. cbn [step]. rewrite Eph, Hp. cbn [reading]. unfold on_frame. rewrite Eph, N.eqb_refl.
  assert (Hk : exists oc, respond k = outcome_result oc /\ oc <> Timeout).
  { destruct k; [exists Success|exists Exception|exists BadReply]; split; try reflexivity; discriminate. }
  destruct Hk as (oc & -> & Hoc). rewrite finish_counter. unfold tc_step. destruct oc; try congruence; cbn [is_timeout];
  (eexists; split; [reflexivity|discriminate]).
Qed.

(* the deadline is the instant the write completed plus the request's own timeout: whenever a step
   puts a request on the wire, that request is in flight afterwards with deadline now + timeout *)
Lemma deadline_is_write_plus_timeout s e id : In id (wire_ids (snd (step cfg s e))) ->
  exists r tx, ph (fst (step cfg s e)) = PInFlight r tx (now s + rq_timeout r) /\ rq_id r = id.
Proof.
  pose proof (C11Proofs.step_laws cfg s e) as H. destruct (step cfg s e) as [s' o]. cbn [fst snd].
  destruct H as (_ & _ & [H|(r & tx & d & H & Hp & Hd & _)]); rewrite H; [intros []|].
  intros [<-|[]]. exists r, tx. subst d. auto.
Qed.

(* the first part of a reply completes nothing *)
Lemma head_is_silent s r tx d k : ph s = PInFlight r tx d -> partial s = None ->
  step cfg s (EvHead tx k) = (set_partial s (Some (tx, k)), []).
Proof. intros H1 H2. cbn [step]. rewrite H1, H2. reflexivity. Qed.

(* a timed-out request leaves the connection usable: unless the limit is reached, the only output
   is the completion and the task is idle on the same connection *)
Lemma timeout_usable s r tx d : ph s = PInFlight r tx d -> fire cfg d <= now s -> snd (tc_increment (tcount s)) = false ->
  step cfg s EvTimer = (set_tc (set_ph s PIdle) (fst (tc_increment (tcount s))), [OComplete (rq_id r) (RErr ReResponseTimeout)]).
Proof.
  intros Eph Hd Hs. cbn [step]. rewrite Eph. destruct (N.leb_spec (fire cfg d) (now s)); [|lia].
  change deadline_error with ReResponseTimeout. pose proof (finish_counter s r Timeout) as E. cbn [outcome_result] in E. rewrite E.
  unfold tc_step. cbn [is_timeout]. destruct (tc_increment (tcount s)) as [t' stop]. cbn [fst snd] in *. subst stop. reflexivity.
Qed.

(* the counter is cleared (and the reader reset) when a connection starts *)
Lemma reset_at_start s s1 d : ph s = PConnecting -> retry_call s Reset = Some (s1, d) ->
  let s' := fst (step cfg s (EvConnect true)) in
  ph s' = PIdle /\ tcount s' = tc_reset (tcount s) /\ partial s' = None.
Proof.
  intros Eph Er. cbn [step]. rewrite Eph, Er. cbn. apply retry_call_frame in Er. destruct Er as (_ & _ & _ & _ & _ & _ & _ & Ht & _).
  rewrite Ht. repeat split.
Qed.

(* ---------- the transmission is bounded, and its bound is not a response timeout ---------- *)
(* the bound is set when the write begins: write start + the request's timeout *)
Lemma write_bound_set s r : ph s = PIdle ->
  forall r' tx u, ph (fst (transmit s r)) = PWriting r' tx u -> r' = r /\ wdl (fst (transmit s r)) = now s + rq_timeout r.
Proof.
  intros Hp r' tx u. unfold transmit. destruct (txid_next (txid s)) as [v' t]. destruct (rq_kind r).
  - destruct (wfail (set_txid s v')).
    + pose proof (finish_summary (set_wctl (set_txid s v') false 0) r (RErr ReIo)) as H. destruct (finish _ r (RErr ReIo)) as [s' o].
      cbn [fst]. intros E. destruct H as (Hi & _). rewrite E in Hi. discriminate.
    + destruct (write_now (set_txid s v')); cbn [fst ph set_ph set_wdl set_wctl wdl]; intros E; [discriminate|]. inversion E. split; reflexivity.
  - pose proof (finish_summary (set_txid s v') r (RErr ReBadRequest)) as H. destruct (finish _ r (RErr ReBadRequest)) as [s' o].
    cbn [fst]. intros E. destruct H as (Hi & _). rewrite E in Hi. discriminate.
Qed.

(* ... and stays as it is while that write is in progress, whatever happens *)
Lemma write_bound_kept s e r tx u : ph s = PWriting r tx u ->
  forall r' tx' u', ph (fst (step cfg s e)) = PWriting r' tx' u' -> (r', tx', u') = (r, tx, u) /\ wdl (fst (step cfg s e)) = wdl s.
Proof.
  intros Eph r' tx' u'.
  assert (Hsame : forall s', ph s' = ph s -> wdl s' = wdl s -> ph s' = PWriting r' tx' u' -> (r', tx', u') = (r, tx, u) /\ wdl s' = wdl s).
  { intros s' H1 H2 H3. rewrite H1, Eph in H3. inversion H3. auto. }
  destruct e as [c st| | |ok|t k|t k| | | | | |dt| |dt| | |k| ]; cbn [step]; rewrite ?Eph; cbn [listens reading fst];
    try (apply Hsame; reflexivity).
  - destruct (Nat.eqb (handles s) 0); [apply Hsame; reflexivity|]. destruct (_ && _); [apply Hsame; reflexivity|]. destruct st; apply Hsame; reflexivity.
  - destruct (Nat.eqb (wpark s) 0 && (fire cfg u <=? now s)); [cbn [fst written ph set_ph]; intros E; discriminate|].
    destruct (fire cfg (wdl s) <=? now s); [|apply Hsame; reflexivity].
    pose proof (finish_summary s r (RErr write_timeout_error)) as H. destruct (finish s r _) as [s' o]. cbn [fst]. intros E.
    destruct H as (Hi & _). rewrite E in Hi. discriminate.
  - unfold crash. cbn [fst ph set_chan set_ph]. intros E. discriminate.
  - destruct (wpark s) as [|n]; [apply Hsame; reflexivity|]. cbn [ph set_wpark]. rewrite Eph.
    destruct (Nat.eqb n 0 && _); [cbn [fst written ph set_ph]; intros E; discriminate|apply Hsame; reflexivity].
Qed.

(* when the write is not done at the bound, the timer step fails the request with Io (payload TimedOut) and ends the
   session with IoError - whatever the timeout counter says, and without touching it: a transmission that timed out is
   not a response timeout.  Before that instant the branch is not enabled. *)
Lemma write_timeout_exact s r tx u : ph s = PWriting r tx u ->
  Nat.eqb (wpark s) 0 && (fire cfg u <=? now s) = false ->
  (fire cfg (wdl s) <= now s ->
     step cfg s EvTimer = (let '(s', o) := end_session (set_ph s PIdle) SeIoError in (s', [OComplete (rq_id r) (RErr ReIo)] ++ o))) /\
  (now s < fire cfg (wdl s) -> step cfg s EvTimer = (s, [])).
Proof.
  intros Eph Hw. cbn [step]. rewrite Eph, Hw. split; intros H.
  - destruct (N.leb_spec (fire cfg (wdl s)) (now s)); [|lia]. reflexivity.
  - destruct (N.leb_spec (fire cfg (wdl s)) (now s)); [lia|]. reflexivity.
Qed.

(* a write that can finish does: the request is in flight with its reply deadline counted from NOW (the end of the
   write), also at or after the transmission bound (tokio::time::timeout polls the write first) *)
Lemma write_done_first s r tx u : ph s = PWriting r tx u -> wpark s = 0%nat -> fire cfg u <= now s ->
  step cfg s EvTimer = (set_ph s (PInFlight r tx (now s + rq_timeout r)), [OWire tx (rq_id r)]).
Proof.
  intros Eph Hw Hu. cbn [step]. rewrite Eph, Hw. destruct (N.leb_spec (fire cfg u) (now s)); [reflexivity|lia].
Qed.

(* releasing the transport finishes a parked write at once *)
Lemma release_finishes s r tx u : ph s = PWriting r tx u -> wpark s = 1%nat -> fire cfg u <= now s ->
  step cfg s EvWriteRelease = (set_ph (set_wpark s 0) (PInFlight r tx (now s + rq_timeout r)), [OWire tx (rq_id r)]).
Proof.
  intros Eph Hw Hu. cbn [step]. rewrite Hw. cbn [ph set_wpark now]. rewrite Eph. cbn [Nat.eqb andb].
  destruct (N.leb_spec (fire cfg u) (now s)); [reflexivity|lia].
Qed.

(* ---------- the eager schedule never leaves a due timer behind ---------- *)
Lemma saturate_quiescent : forall fuel s, let '(s', o, ok) := saturate cfg fuel s in ok = true -> timer_due cfg s' = false /\ recv_ready s' = false.
Proof.
  induction fuel as [|f IH]; intros s; cbn [saturate].
  - intros H. apply negb_true_iff, orb_false_iff in H. exact H.
  - destruct (timer_due cfg s) eqn:Et.
    + destruct (step cfg s EvTimer) as [s1 o1]. specialize (IH s1). destruct (saturate cfg f s1) as [[s2 o2] ok]. exact IH.
    + destruct (recv_ready s) eqn:Er.
      * destruct (step cfg s EvRecv) as [s1 o1]. specialize (IH s1). destruct (saturate cfg f s1) as [[s2 o2] ok]. exact IH.
      * auto.
Qed.

Lemma eager_quiescent : forall es s, es <> [] ->
  let '(s', o, ok) := run_eager cfg s es in ok = true -> timer_due cfg s' = false.
Proof.
  induction es as [|e es IH]; intros s Hne; [congruence|]. cbn [run_eager].
  destruct (step cfg s e) as [s1 o1]. pose proof (saturate_quiescent (fuel_for s1) s1) as Hs.
  destruct (saturate cfg (fuel_for s1) s1) as [[s2 o2] ok2].
  destruct es as [|e' es'].
  - cbn [run_eager]. intros H. rewrite andb_true_r in H. apply Hs in H. tauto.
  - specialize (IH s2). destruct (run_eager cfg s2 (e' :: es')) as [[s3 o3] ok3]. intros H. apply andb_prop in H. apply IH; [discriminate|tauto].
Qed.

(* so, in an eager run, a request that is still in flight has not reached its (timer) deadline:
   every frame that completes it arrives strictly before that instant *)
Lemma eager_in_flight_before_deadline es s : es <> [] ->
  let '(s', o, ok) := run_eager cfg s es in ok = true ->
  forall r tx d, ph s' = PInFlight r tx d -> now s' < fire cfg d.
Proof.
  intros Hne. pose proof (eager_quiescent es s Hne) as H. destruct (run_eager cfg s es) as [[s' o] ok].
  intros Hok r tx d Eph. specialize (H Hok). unfold timer_due in H. rewrite Eph in H. apply N.leb_gt in H. exact H.
Qed.


(* the step-indexed run used for rendering is run_eager with one more label per output *)
Lemma run_eager_ix_erase : forall es i s,
  let '(s1, o1, ok1) := run_eager_ix cfg i s es in
  let '(s2, o2, ok2) := run_eager cfg s es in
  s1 = s2 /\ map (fun x => (fst (fst x), snd x)) o1 = o2 /\ ok1 = ok2.
Proof.
  induction es as [|e es IH]; intros i s; cbn [run_eager_ix run_eager]; [auto|].
  destruct (step cfg s e) as [s1 o1]. destruct (saturate cfg (fuel_for s1) s1) as [[s2 o2] ok2].
  specialize (IH (S i) s2). destruct (run_eager_ix cfg (S i) s2 es) as [[s3 o3] ok3]. destruct (run_eager cfg s2 es) as [[s4 o4] ok4].
  destruct IH as (-> & <- & ->). repeat split. rewrite map_app, app_assoc. f_equal.
  unfold stamp_ix. rewrite map_map. erewrite map_ext; [apply map_id|]. intros [t x]. reflexivity.
Qed.

End Task.

(* the timer instant: with resolution 1 it is the deadline itself; in general the first multiple of
   the resolution at or after the deadline *)
Lemma fires_at_exact d : fires_at 1 d = d.
Proof. unfold fires_at. cbn [N.eqb]. rewrite N.div_1_r. lia. Qed.
Lemma fires_at_bounds res d : 1 <= res -> d <= fires_at res d < d + res /\ fires_at res d mod res = 0.
Proof.
  intros H. unfold fires_at. destruct (N.eqb_spec res 0); [lia|].
  split; [|apply N.mod_mul; lia]. nia.
Qed.
