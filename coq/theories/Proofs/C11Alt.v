(* C11, run level: on the wire and in the completion log of ANY run, requests alternate - a request
   is written only when the previously written one has completed.  Uses the conservation law (C10)
   for "the outstanding request is not completed by somebody else" (request ids distinct). *)
From Coq Require Import NArith List Bool Arith Lia Permutation.
From Rodbus Require Import Model.Retry Spec.Lifecycle Spec.ClientSpec Gen.SessionErrors Model.ClientTask
  Proofs.ClientBase Proofs.C10Proofs Proofs.C11Proofs.
Import ListNotations.
Local Open Scope N_scope.

(* the request written and not yet completed, read off the phase ... *)
Definition wired (p : phase) : option nat := match p with PInFlight r _ _ => Some (rq_id r) | _ => None end.

(* ... and read off an output list: None = a second request was written while one was outstanding *)
Fixpoint scan (cur : option nat) (o : list output) : option (option nat) :=
  match o with
  | [] => Some cur
  | OWire _ id :: r => match cur with None => scan (Some id) r | Some _ => None end
  | OComplete id _ :: r =>
      match cur with
      | Some j => if Nat.eqb id j then scan None r else scan cur r
      | None => scan None r
      end
  | _ :: r => scan cur r
  end.

Lemma scan_app cur o1 o2 : scan cur (o1 ++ o2) = match scan cur o1 with Some c => scan c o2 | None => None end.
Proof.
  revert cur. induction o1 as [|x o1 IH]; intros cur; [reflexivity|]. cbn [app scan].
  destruct x; try apply IH.
  - destruct cur as [j|]; [destruct (Nat.eqb id j)|]; apply IH.
  - destruct cur; [reflexivity|apply IH].
Qed.

Lemma scan_no_wire : forall o cur, wire_ids o = [] ->
  scan cur o = Some (match cur with Some j => if in_dec Nat.eq_dec j (completed o) then None else Some j | None => None end).
Proof.
  induction o as [|x o IH]; intros cur Hw.
  - cbn. destruct cur; reflexivity.
  - destruct x; cbn [scan]; rewrite ?wire_ids_cons in Hw; cbn [app] in Hw; try discriminate;
    try (rewrite IH by exact Hw; destruct cur as [j|]; [|reflexivity];
         change (completed (_ :: o)) with (completed o); reflexivity).
    rewrite completed_cons. cbn [app]. destruct cur as [j|].
    + destruct (Nat.eqb_spec id j) as [->|Hne].
      * rewrite IH by exact Hw. destruct (in_dec Nat.eq_dec j (j :: completed o)) as [_|Hn]; [reflexivity|exfalso; apply Hn; left; reflexivity].
      * rewrite IH by exact Hw. destruct (in_dec Nat.eq_dec j (completed o)) as [Hi|Hn]; destruct (in_dec Nat.eq_dec j (id :: completed o)) as [Hi'|Hn']; try reflexivity.
        -- exfalso. apply Hn'. right. exact Hi.
        -- exfalso. destruct Hi' as [E|Hi']; [congruence|contradiction].
    + rewrite IH by exact Hw. reflexivity.
Qed.

Lemma scan_one_wire : forall o id, wire_ids o = [id] -> completed o = [] -> scan None o = Some (Some id).
Proof.
  induction o as [|x o IH]; intros id Hw Hc; [discriminate|].
  destruct x; cbn [scan]; rewrite ?wire_ids_cons, ?completed_cons in *; cbn [app] in *; try discriminate; try (apply IH; assumption).
  inversion Hw as [[E1 E2]]. rewrite scan_no_wire by exact E2. rewrite Hc. reflexivity.
Qed.

Section Alt.
Variable cfg : config.

Lemma NoDup_two_sides (l1 l2 : list nat) x : NoDup (l1 ++ l2) -> In x l1 -> In x l2 -> False.
Proof.
  induction l1 as [|y l1 IH]; cbn; intros Hn H1 H2; [contradiction|]. inversion Hn as [|z l Hnot Hn']; subst.
  destruct H1 as [->|H1]; [apply Hnot; apply in_or_app; right; exact H2|apply IH; assumption].
Qed.

Lemma step_scan s e : done_empty s -> NoDup (pending s ++ accepted s e) ->
  let '(s', o) := step cfg s e in scan (wired (ph s)) o = Some (wired (ph s')).
Proof.
  intros Hd Hnd.
  pose proof (step_laws cfg s e) as L. pose proof (step_enters cfg s e) as E. pose proof (step_conserve cfg s e Hd) as C.
  assert (P : forall r tx d, ph s = PInFlight r tx d -> let '(s', o) := step cfg s e in ph s' = PInFlight r tx d \/ In (rq_id r) (completed o))
    by (intros r tx d H; apply inflight_progress; exact H).
  destruct (step cfg s e) as [s' o]. destruct L as (_ & _ & W). destruct C as [C _].
  assert (Hnd' : NoDup (pending s' ++ completed o)) by (eapply Permutation_NoDup; [symmetry; exact C|exact Hnd]).
  destruct W as [W|(r & tx & d & W & Hp' & _ & Hps & Hc & _)].
  - rewrite scan_no_wire by exact W.
    destruct (ph s) eqn:Eph; cbn [wired];
    try (destruct (ph s') eqn:Eph'; cbn [wired]; try reflexivity;
         destruct (E _ _ _ Eph') as [X|X]; [rewrite Eph in X; discriminate|rewrite W in X; discriminate]).
    destruct (P r tx deadline eq_refl) as [Hsame|Hin].
    + rewrite Hsame. cbn [wired]. destruct (in_dec Nat.eq_dec (rq_id r) (completed o)) as [Hi|_]; [|reflexivity].
      exfalso. apply (NoDup_two_sides _ _ (rq_id r) Hnd'); [|exact Hi]. unfold pending. rewrite Hsame. left. reflexivity.
    + destruct (in_dec Nat.eq_dec (rq_id r) (completed o)) as [_|Hn]; [|contradiction].
      destruct (ph s') eqn:Eph'; cbn [wired]; try reflexivity.
      destruct (E _ _ _ Eph') as [X|X]; [|rewrite W in X; discriminate]. rewrite Eph in X. inversion X; subst.
      exfalso. apply (NoDup_two_sides _ _ (rq_id r0) Hnd'); [|exact Hin]. unfold pending. rewrite Eph'. left. reflexivity.
  - assert (Hn : wired (ph s) = None) by (destruct Hps as [->|[u ->]]; reflexivity). rewrite Hn, Hp'. cbn [wired].
    apply scan_one_wire; assumption.
Qed.

Lemma NoDup_drop_mid (a b c : list nat) : NoDup (a ++ b ++ c) -> NoDup (a ++ c).
Proof.
  intros H. induction a as [|x a IH]; cbn in *.
  - induction b as [|y b IHb]; cbn in *; [exact H|]. inversion H; auto.
  - inversion H as [|y l Hnot Hn]; subst. constructor; [|apply IH; exact Hn].
    intros Hin. apply Hnot. apply in_app_or in Hin. apply in_or_app. destruct Hin as [Hin|Hin]; [left; exact Hin|right; apply in_or_app; right; exact Hin].
Qed.

Theorem run_scan : forall es s, done_empty s -> NoDup (pending s ++ all_accepted cfg s es) ->
  exists c, scan (wired (ph s)) (snd (run cfg s es)) = Some c.
Proof.
  induction es as [|e es IH]; intros s Hd Hnd; cbn [run all_accepted] in *.
  - eexists. reflexivity.
  - assert (Hnd1 : NoDup (pending s ++ accepted s e)).
    { rewrite app_assoc in Hnd. revert Hnd. generalize (pending s ++ accepted s e) (all_accepted cfg (fst (step cfg s e)) es). intros l1 l2 H.
      induction l1 as [|x l1 IHl]; [constructor|]. cbn in H. inversion H as [|y l Hnot Hn]; subst. constructor; [|apply IHl; exact Hn].
      intros Hin. apply Hnot. apply in_or_app. left. exact Hin. }
    pose proof (step_scan s e Hd Hnd1) as S. pose proof (step_conserve cfg s e Hd) as C.
    destruct (step cfg s e) as [s1 o1]. cbn [fst] in *. destruct C as [C D1].
    assert (Hnd2 : NoDup (pending s1 ++ all_accepted cfg s1 es)).
    { apply (NoDup_drop_mid _ (completed o1)). rewrite app_assoc.
      eapply Permutation_NoDup; [|rewrite app_assoc in Hnd; exact Hnd]. apply Permutation_app_tail. symmetry. exact C. }
    destruct (IH s1 D1 Hnd2) as [c Hc]. destruct (run cfg s1 es) as [s2 o2]. cbn [snd] in *.
    exists c. rewrite scan_app, S. exact Hc.
Qed.

Theorem alternates hn mt rmin rmax es :
  NoDup (all_accepted cfg (init hn mt rmin rmax) es) ->
  scan None (snd (run cfg (init hn mt rmin rmax) es)) <> None.
Proof.
  intros H. destruct (run_scan es (init hn mt rmin rmax) (init_done_empty hn mt rmin rmax) H) as [c Hc].
  change (wired (ph (init hn mt rmin rmax))) with (@None nat) in Hc. rewrite Hc. discriminate.
Qed.

End Alt.

(* ---------- every request on the wire carries the transaction id it was stamped with ---------- *)
Lemma no_wire : forall o, wire_ids o = [] -> forall tx id, ~ In (OWire tx id) o.
Proof.
  induction o as [|x o IH]; intros Hw tx id H; [destruct H|]. rewrite wire_ids_cons in Hw.
  destruct H as [->|H]; [discriminate|]. destruct x; cbn [app] in Hw; try discriminate; exact (IH Hw tx id H).
Qed.

Section Stamped.
Variable cfg : config.

Lemma step_wire_src s e tx id : In (OWire tx id) (snd (step cfg s e)) ->
  In (OStamp tx id) (snd (step cfg s e)) \/ exists r u, ph s = PWriting r tx u /\ rq_id r = id.
Proof.
  pose proof (step_laws cfg s e) as L. destruct (step cfg s e) as [s' o]. cbn [snd]. destruct L as (_ & _ & W). intros H.
  destruct W as [W|(r & t & d & _ & _ & _ & Hps & _ & Hall & Hst)]; [exfalso; exact (no_wire o W tx id H)|].
  destruct (Hall tx id H) as [-> ->]. destruct Hps as [Hi|[u Hw]]; [left; exact (Hst Hi)|right; eauto].
Qed.

Theorem run_wire_stamped : forall es s o0,
  (forall r tx u, ph s = PWriting r tx u -> In (OStamp tx (rq_id r)) o0) ->
  (forall tx id, In (OWire tx id) o0 -> In (OStamp tx id) o0) ->
  forall tx id, In (OWire tx id) (o0 ++ snd (run cfg s es)) -> In (OStamp tx id) (o0 ++ snd (run cfg s es)).
Proof.
  induction es as [|e es IH]; intros s o0 Hw H0 tx id; cbn [run].
  - cbn [snd]. rewrite app_nil_r. apply H0.
  - pose proof (step_wire_src s e) as Hsrc. pose proof (step_entersw cfg s e) as Hent.
    destruct (step cfg s e) as [s1 o1]. cbn [snd] in Hsrc.
    specialize (IH s1 (o0 ++ o1)). destruct (run cfg s1 es) as [s2 o2]. cbn [snd] in *. rewrite app_assoc. apply IH.
    + intros r t u Hp. apply in_or_app. destruct (Hent r t u Hp) as [Hs|Hs]; [left; exact (Hw r t u Hs)|right; exact Hs].
    + intros t i Hin. apply in_app_or in Hin. apply in_or_app. destruct Hin as [Hin|Hin]; [left; exact (H0 t i Hin)|].
      destruct (Hsrc t i Hin) as [Hs|(r & u & Hp & <-)]; [right; exact Hs|left; exact (Hw r t u Hp)].
Qed.

Theorem wire_is_stamped hn mt rmin rmax es tx id :
  In (OWire tx id) (snd (run cfg (init hn mt rmin rmax) es)) -> In (OStamp tx id) (snd (run cfg (init hn mt rmin rmax) es)).
Proof.
  apply (run_wire_stamped es (init hn mt rmin rmax) []); [intros r t u H; discriminate H|intros t i []].
Qed.
End Stamped.
