(* Proofs for C10: the conservation law and its corollaries (exactly once), classification of
   completions, no request is stuck. *)
From Coq Require Import NArith List Bool Arith Lia Permutation.
From Rodbus Require Import Model.Retry Spec.Lifecycle Spec.ClientSpec Gen.SessionErrors Model.ClientTask Proofs.ClientBase.
Import ListNotations.
Local Open Scope N_scope.

Ltac perm := apply (Permutation_count_occ Nat.eq_dec); let x := fresh "x" in intro x; rewrite ?count_occ_app; lia.

Lemma queued_nil : queued [] = []. Proof. reflexivity. Qed.
Lemma completed_nil : completed [] = []. Proof. reflexivity. Qed.
Lemma completed_stamp t i o : completed (OStamp t i :: o) = completed o. Proof. reflexivity. Qed.
Lemma completed_wire t i o : completed (OWire t i :: o) = completed o. Proof. reflexivity. Qed.
Lemma completed_wirefail t i o : completed (OWireFail t i :: o) = completed o. Proof. reflexivity. Qed.
Lemma completed_listen l o : completed (OListen l :: o) = completed o. Proof. reflexivity. Qed.
Lemma completed_dial o : completed (ODial :: o) = completed o. Proof. reflexivity. Qed.
Lemma completed_end e o : completed (OEnd e :: o) = completed o. Proof. reflexivity. Qed.
Lemma completed_complete i r o : completed (OComplete i r :: o) = [i] ++ completed o. Proof. reflexivity. Qed.
Ltac cnorm := rewrite ?completed_stamp, ?completed_wire, ?completed_wirefail, ?completed_listen, ?completed_dial, ?completed_end,
                      ?completed_complete, ?completed_nil, ?app_nil_r, ?app_nil_l.

Ltac cnorm0 := rewrite ?completed_stamp, ?completed_wire, ?completed_wirefail, ?completed_listen, ?completed_dial, ?completed_end,
                      ?completed_complete, ?completed_nil.

Lemma queued_one c : queued [c] = match c with CReq r => [rq_id r] | _ => [] end.
Proof. rewrite queued_cons, queued_nil, app_nil_r. reflexivity. Qed.

(* request ids an event brings into the system: every Submit made through a live handle (or after
   the task is gone - then it completes at once) *)
Definition accepted (s : state) (e : event) : list nat :=
  match e with
  | EvSubmit c _ => if Nat.eqb (handles s) 0 then [] else queued [c]
  | _ => []
  end.

(* a terminated task holds nothing *)
Definition done_empty (s : state) : Prop := ph s = PDone -> queue s = [] /\ blocked s = [].

Definition conserves (s s' : state) (o : list output) (new : list nat) : Prop :=
  Permutation (pending s' ++ completed o) (pending s ++ new) /\ done_empty s'.

Lemma summary_perm s0 s' o ids : summary s0 s' o ids ->
  Permutation (pending s' ++ completed o) (ids ++ queued (queue s0) ++ queued (blocked s0)) /\ done_empty s'.
Proof.
  intros (Hi & _ & _ & _ & _ & H). unfold pending, done_empty. rewrite Hi.
  destruct H as [(Hn & -> & -> & ->)|(Hn & -> & -> & ->)]; (split; [|intros; tauto]); rewrite ?queued_nil; cbn [app]; perm.
Qed.

Section Conserve.
Variable cfg : config.

Lemma transmit_conserve s r : ph s = PIdle ->
  let '(s', o) := transmit s r in
  Permutation (pending s' ++ completed o) ([rq_id r] ++ queued (queue s) ++ queued (blocked s)) /\ done_empty s'.
Proof.
  intros Hp. unfold transmit. destruct (txid_next (txid s)) as [v' tx].
  assert (Hfin : forall s0 res pre, queue s0 = queue s -> blocked s0 = blocked s -> completed pre = [] ->
            let '(s', o) := finish s0 r res in
            Permutation (pending s' ++ completed (pre ++ o)) ([rq_id r] ++ queued (queue s) ++ queued (blocked s)) /\ done_empty s').
  { intros s0 res pre Hq Hb Hc. pose proof (finish_summary s0 r res) as H. destruct (finish s0 r res) as [s' o].
    rewrite completed_app, Hc. change ([] ++ completed o) with (completed o). rewrite <- Hq, <- Hb. apply summary_perm. exact H. }
  destruct (rq_kind r).
  - destruct (wfail (set_txid s v')).
    + specialize (Hfin (set_wctl (set_txid s v') false 0) (RErr ReIo) [OStamp tx (rq_id r); OWireFail tx (rq_id r)]).
      destruct (finish _ r (RErr ReIo)) as [s' o]. apply Hfin; reflexivity.
    + destruct (write_now (set_txid s v')); (split; [|intros E; discriminate E]); unfold pending;
      cbn [ph queue blocked set_ph set_txid set_wctl set_wdl inflight inflight_req map]; cnorm; perm.
  - specialize (Hfin (set_txid s v') (RErr ReBadRequest) [OStamp tx (rq_id r)]).
    destruct (finish _ r (RErr ReBadRequest)) as [s' o]. apply Hfin; reflexivity.
Qed.

Lemma take_conserve s c : listens (ph s) = true ->
  let '(s', o) := take s c in
  Permutation (pending s' ++ completed o) (queued [c] ++ queued (queue s) ++ queued (blocked s)) /\ done_empty s'.
Proof.
  intros Hl. unfold take.
  (* outcomes described by a summary of a state with the same queue *)
  assert (Hsum : forall s0 s' o, queue s0 = queue s -> blocked s0 = blocked s -> queued [c] = [] -> summary s0 s' o [] ->
            Permutation (pending s' ++ completed o) (queued [c] ++ queued (queue s) ++ queued (blocked s)) /\ done_empty s').
  { intros s0 s' o Hq Hb Hc H. rewrite Hc, <- Hq, <- Hb. apply (summary_perm s0 s' o [] H). }
  (* nothing happens to the queue; `ids` complete *)
  assert (Hsame : forall s' ids, inflight (ph s') = [] -> ph s' <> PDone -> queue s' = queue s -> blocked s' = blocked s -> queued [c] = ids ->
            Permutation (pending s' ++ ids) (queued [c] ++ queued (queue s) ++ queued (blocked s)) /\ done_empty s').
  { intros s' ids Hi Hn Hq Hb Hc. unfold pending, done_empty. rewrite Hi, Hq, Hb, Hc. split; [cbn [app]; perm|intros; tauto]. }
  destruct (ph s) eqn:Eph; try discriminate.
  - (* PWaitEnabled *) destruct c as [r| | |l|].
    + cnorm0. apply Hsame; rewrite ?Eph; try reflexivity; try discriminate.
    + cbn [change_setting enabled set_enabled]. unfold start_connecting. cnorm0. apply Hsame; cbn; try reflexivity; discriminate.
    + cbn. cnorm0. apply Hsame; cbn; rewrite ?Eph; try reflexivity; discriminate.
    + cbn [change_setting enabled set_decode]. destruct (enabled s); unfold start_connecting; cnorm0; apply Hsame; cbn; rewrite ?Eph; try reflexivity; discriminate.
    + pose proof (terminate_summary s []) as H. destruct (terminate s []) as [s' o]. apply (Hsum s); try reflexivity. apply H. split; reflexivity.
  - (* PConnecting *) destruct c as [r| | |l|].
    + cnorm0. apply Hsame; rewrite ?Eph; try reflexivity; try discriminate.
    + cbn. cnorm0. apply Hsame; cbn; rewrite ?Eph; try reflexivity; discriminate.
    + cbn. pose proof (loop_top_summary (set_enabled s false)) as H. destruct (loop_top _) as [s' o]. apply (Hsum (set_enabled s false)); try reflexivity. exact H.
    + cbn. destruct (enabled s).
      * cnorm0. apply Hsame; cbn; rewrite ?Eph; try reflexivity; discriminate.
      * pose proof (loop_top_summary (set_decode s l)) as H. destruct (loop_top _) as [s' o]. apply (Hsum (set_decode s l)); try reflexivity. exact H.
    + pose proof (terminate_summary s []) as H. destruct (terminate s []) as [s' o]. apply (Hsum s); try reflexivity. apply H. split; reflexivity.
  - (* PIdle *) destruct c as [r| | |l|].
    + pose proof (transmit_conserve s r Eph) as H. destruct (transmit s r) as [s' o]. rewrite queued_one. exact H.
    + cbn. cnorm0. apply Hsame; cbn; rewrite ?Eph; try reflexivity; discriminate.
    + cbn. pose proof (end_session_summary (set_enabled s false) SeDisabled) as H. destruct (end_session _ _) as [s' o].
      apply (Hsum (set_enabled s false)); try reflexivity. apply H. cbn. rewrite Eph. reflexivity.
    + cbn. destruct (enabled s).
      * cnorm0. apply Hsame; cbn; rewrite ?Eph; try reflexivity; discriminate.
      * pose proof (end_session_summary (set_decode s l) SeDisabled) as H. destruct (end_session _ _) as [s' o].
        apply (Hsum (set_decode s l)); try reflexivity. apply H. cbn. rewrite Eph. reflexivity.
    + pose proof (end_session_summary s SeShutdown) as H. destruct (end_session _ _) as [s' o].
      apply (Hsum s); try reflexivity. apply H. rewrite Eph. reflexivity.
  - (* PWaiting *) destruct c as [r| | |l|].
    + cnorm0. apply Hsame; rewrite ?Eph; try reflexivity; try discriminate.
    + cbn. cnorm0. apply Hsame; cbn; rewrite ?Eph; try reflexivity; discriminate.
    + cbn. pose proof (loop_top_summary (set_enabled s false)) as H. destruct (loop_top _) as [s' o]. apply (Hsum (set_enabled s false)); try reflexivity. exact H.
    + cbn. destruct (enabled s).
      * cnorm0. apply Hsame; cbn; rewrite ?Eph; try reflexivity; discriminate.
      * pose proof (loop_top_summary (set_decode s l)) as H. destruct (loop_top _) as [s' o]. apply (Hsum (set_decode s l)); try reflexivity. exact H.
    + pose proof (terminate_summary s []) as H. destruct (terminate s []) as [s' o]. apply (Hsum s); try reflexivity. apply H. split; reflexivity.
Qed.


Lemma conserves_frame s s' new ids o : ph s' = ph s -> queue s' = queue s -> blocked s' = blocked s -> done_empty s ->
  completed o = ids -> ids = new -> conserves s s' o new.
Proof.
  intros Hp Hq Hb Hd Hc <-. unfold conserves, pending, done_empty. rewrite Hp, Hq, Hb, Hc. split; [reflexivity|exact Hd].
Qed.

Ltac by_sum H Eph :=
  let P := fresh "P" in let D := fresh "D" in
  destruct (summary_perm _ _ _ _ H) as [P D]; split; [|exact D]; etransitivity; [exact P|]; unfold pending;
  cbn [queue blocked ph set_partial set_enabled set_decode set_chan]; rewrite ?Eph; cbn [inflight inflight_req map]; cnorm; perm.

Lemma on_frame_conserve s tx k : done_empty s -> let '(s', o) := on_frame s tx k in conserves s s' o [].
Proof.
  intros Hd. unfold on_frame. destruct (ph s) eqn:Eph; try (apply (conserves_frame s _ [] []); auto; fail).
  destruct (tx =? tx0); [|apply (conserves_frame s _ [] []); auto].
  pose proof (finish_summary s r (respond k)) as H. destruct (finish s r (respond k)) as [s' o]. by_sum H Eph.
Qed.

Lemma on_read_error_conserve s e : done_empty s -> let '(s', o) := on_read_error s e in conserves s s' o [].
Proof.
  intros Hd. unfold on_read_error. destruct (ph s) eqn:Eph; try (apply (conserves_frame s _ [] []); auto; fail).
  - destruct (from_request_err e) as [se|]; [|apply (conserves_frame s _ [] []); auto].
    pose proof (end_session_summary s se) as H. destruct (end_session s se) as [s' o]. rewrite Eph in H. specialize (H eq_refl). by_sum H Eph.
  - pose proof (finish_summary s r (RErr e)) as H. destruct (finish s r (RErr e)) as [s' o]. by_sum H Eph.
Qed.

Lemma conserves_pre s0 s s' o new : pending s0 = pending s -> conserves s0 s' o new -> conserves s s' o new.
Proof. unfold conserves. intros ->. auto. Qed.

Theorem step_conserve s e : done_empty s -> let '(s', o) := step cfg s e in conserves s s' o (accepted s e).
Proof.
  intros Hd. destruct e as [c st| | |ok|tx k|tx k| | | | | |dt| |dt| | |k| ]; cbn [step accepted].
  - (* submit *)
    assert (Hdrop : conserves s s (drop_queue [c]) (queued [c])).
    { apply (conserves_frame s s _ (queued [c])); auto. apply completed_drop. }
    assert (Hlive : ph s <> PDone -> (let '(s', o) :=
      if is_nil (blocked s) && Nat.ltb (length (queue s)) (cfg_cap cfg) then (set_chan s (queue s ++ [c]) (blocked s), [])
      else match st with SFfi => (s, drop_queue [c]) | _ => (set_chan s (queue s) (blocked s ++ [c]), []) end in
      conserves s s' o (queued [c]))).
    { intros Hn.
      destruct (is_nil (blocked s) && Nat.ltb (length (queue s)) (cfg_cap cfg)).
      - split; [|intros E; exfalso; apply Hn; exact E]. unfold pending. cbn [ph queue blocked set_chan]. rewrite queued_app. cnorm. perm.
      - assert (Hb : conserves s (set_chan s (queue s) (blocked s ++ [c])) [] (queued [c])).
        { split; [|intros E; exfalso; apply Hn; exact E]. unfold pending. cbn [ph queue blocked set_chan]. rewrite queued_app. cnorm. perm. }
        destruct st; [exact Hb|exact Hb|exact Hdrop]. }
    destruct (Nat.eqb (handles s) 0); [apply (conserves_frame s s [] []); auto|].
    destruct (ph s) eqn:Eph; try (apply Hlive; discriminate). exact Hdrop.
  - apply (conserves_frame s _ [] []); auto.
  - (* recv *)
    destruct (listens (ph s)) eqn:El; [|apply (conserves_frame s _ [] []); auto].
    destruct (queue s) as [|c q] eqn:Eq.
    + destruct (closed s); [|apply (conserves_frame s _ [] []); auto].
      destruct (ph s) eqn:Eph; try discriminate.
      1,2,4: (pose proof (terminate_summary s []) as H; destruct (terminate s []) as [s' o]; specialize (H (conj eq_refl eq_refl));
              destruct (summary_perm _ _ _ _ H) as [P D]; split; [|exact D]; etransitivity; [exact P|]; unfold pending; rewrite Eph, Eq; cbn [inflight inflight_req map]; cnorm; perm).
      pose proof (end_session_summary s SeShutdown) as H. destruct (end_session s SeShutdown) as [s' o]. rewrite Eph in H. specialize (H eq_refl).
      destruct (summary_perm _ _ _ _ H) as [P D]; split; [|exact D]; etransitivity; [exact P|]; unfold pending; rewrite Eph, Eq; cbn [inflight inflight_req map]; cnorm; perm.
    + set (s1 := set_chan s (q ++ firstn 1 (blocked s)) (skipn 1 (blocked s))).
      pose proof (take_conserve s1 c El) as H. destruct (take s1 c) as [s' o]. destruct H as [P D]. split; [|exact D].
      etransitivity; [exact P|]. unfold pending, s1. cbn [queue blocked set_chan]. rewrite Eq.
      assert (Hi : inflight (ph s) = []) by (destruct (ph s); try reflexivity; discriminate). rewrite Hi.
      rewrite (queued_cons c q), queued_one, queued_app. pose proof (firstn_skipn_queued (blocked s)) as F.
      apply (Permutation_count_occ Nat.eq_dec). intro x. apply (f_equal (fun l => count_occ Nat.eq_dec l x)) in F.
      rewrite ?count_occ_app in *. cbn [app]. rewrite ?count_occ_app. cbn [count_occ]. lia.
  - (* connect *)
    destruct (ph s) eqn:Eph; try (apply (conserves_frame s _ [] []); auto). destruct ok.
    + destruct (retry_call s Reset) as [[s1 d]|] eqn:Er.
      * apply retry_call_frame in Er. destruct Er as (Hp & Hq & Hb & _).
        split; [|intros E; discriminate E]. unfold pending. cbn [ph queue blocked set_partial set_tc set_ph]. rewrite Hq, Hb, Eph. cnorm. reflexivity.
      * pose proof (crash_summary s) as H. destruct (crash s) as [s' o]. by_sum H Eph.
    + pose proof (wait_for_summary s LWaitFailed Fail []) as H. destruct (wait_for s LWaitFailed Fail []) as [s' o].
      rewrite Eph in H. specialize (H eq_refl (conj eq_refl eq_refl)). by_sum H Eph.
  - destruct (reading (ph s)); [|apply (conserves_frame s _ [] []); auto]. destruct (partial s); [apply (conserves_frame s _ [] []); auto|].
    apply on_frame_conserve; exact Hd.
  - destruct (reading (ph s)); [|apply (conserves_frame s _ [] []); auto]. destruct (partial s); apply (conserves_frame s _ [] []); auto.
  - destruct (reading (ph s)); [|apply (conserves_frame s _ [] []); auto]. destruct (partial s) as [[tx k]|]; [|apply (conserves_frame s _ [] []); auto].
    pose proof (on_frame_conserve (set_partial s None) tx k Hd) as H. destruct (on_frame (set_partial s None) tx k) as [s' o].
    eapply conserves_pre; [|exact H]. reflexivity.
  - destruct (reading (ph s)); [|apply (conserves_frame s _ [] []); auto]. destruct (partial s); [apply (conserves_frame s _ [] []); auto|].
    apply on_read_error_conserve; exact Hd.
  - destruct (reading (ph s)); [|apply (conserves_frame s _ [] []); auto]. apply on_read_error_conserve; exact Hd.
  - destruct (reading (ph s)); [|apply (conserves_frame s _ [] []); auto]. apply on_read_error_conserve; exact Hd.
  - apply (conserves_frame s _ [] []); auto.
  - apply (conserves_frame s _ [] []); auto.
  - (* timer *)
    destruct (ph s) eqn:Eph; try (apply (conserves_frame s _ [] []); auto).
    + destruct (Nat.eqb (wpark s) 0 && (fire cfg until <=? now s)).
      * unfold written. split; [|intros E; discriminate E]. unfold pending. cbn [ph queue blocked set_ph]. rewrite Eph. cnorm. reflexivity.
      * destruct (fire cfg (wdl s) <=? now s); [|apply (conserves_frame s _ [] []); auto].
        pose proof (finish_summary s r (RErr write_timeout_error)) as H. destruct (finish s r (RErr write_timeout_error)) as [s' o]. by_sum H Eph.
    + destruct (fire cfg deadline <=? now s); [|apply (conserves_frame s _ [] []); auto].
      pose proof (finish_summary s r (RErr deadline_error)) as H. destruct (finish s r (RErr deadline_error)) as [s' o]. by_sum H Eph.
    + destruct (fire cfg until <=? now s); [|apply (conserves_frame s _ [] []); auto].
      pose proof (loop_top_summary s) as H. destruct (loop_top s) as [s' o]. by_sum H Eph.
  - apply (conserves_frame s _ [] []); auto.
  - (* abort *)
    destruct (ph s) eqn:Eph; try (pose proof (crash_summary s) as H; destruct (crash s) as [s' o]; by_sum H Eph).
    apply (conserves_frame s _ [] []); auto.
  - apply (conserves_frame s _ [] []); auto.
  - apply (conserves_frame s _ [] []); auto.
  - (* release *)
    destruct (wpark s) as [|n] eqn:Ew; [apply (conserves_frame s _ [] []); auto|].
    cbn [ph set_wpark]. destruct (ph s) eqn:Eph; try (apply (conserves_frame s _ [] []); auto; fail).
    destruct (Nat.eqb n 0 && (fire cfg until <=? now (set_wpark s n))); [|apply (conserves_frame s _ [] []); auto].
    unfold written. split; [|intros E; discriminate E]. unfold pending. cbn [ph queue blocked set_ph set_wpark]. rewrite Eph. cnorm. reflexivity.
Qed.

End Conserve.

(* ---------- lifted to runs ---------- *)
Section Runs.
Variable cfg : config.

Fixpoint all_accepted (s : state) (es : list event) : list nat :=
  match es with [] => [] | e :: r => accepted s e ++ all_accepted (fst (step cfg s e)) r end.

Theorem run_conserve : forall es s, done_empty s ->
  let '(s', o) := run cfg s es in
  Permutation (pending s' ++ completed o) (pending s ++ all_accepted s es) /\ done_empty s'.
Proof.
  induction es as [|e es IH]; intros s Hd; cbn [run all_accepted].
  - rewrite completed_nil, !app_nil_r. split; [reflexivity|exact Hd].
  - pose proof (step_conserve cfg s e Hd) as H1. destruct (step cfg s e) as [s1 o1]. cbn [fst]. destruct H1 as [P1 D1].
    specialize (IH s1 D1). destruct (run cfg s1 es) as [s2 o2]. destruct IH as [P2 D2]. split; [|exact D2].
    rewrite completed_app. apply (Permutation_count_occ Nat.eq_dec). intro x.
    apply (Permutation_count_occ Nat.eq_dec) with (x := x) in P1. apply (Permutation_count_occ Nat.eq_dec) with (x := x) in P2.
    rewrite ?count_occ_app in *. lia.
Qed.

Lemma init_done_empty hn mt rmin rmax : done_empty (init hn mt rmin rmax).
Proof. intros E. discriminate E. Qed.

Lemma NoDup_app_r {A} (a b : list A) : NoDup (a ++ b) -> NoDup b.
Proof. induction a as [|x a IH]; cbn; [auto|]. intros H. inversion H; auto. Qed.

(* exactly once: with distinct request ids no request completes twice, none is lost, nothing
   completes that was not submitted, and once nothing is pending - in particular once the task is
   gone - submitted and completed coincide *)
Theorem exactly_once hn mt rmin rmax es :
  let s0 := init hn mt rmin rmax in
  NoDup (all_accepted s0 es) ->
  let '(s', o) := run cfg s0 es in
  NoDup (completed o) /\
  (forall id, In id (all_accepted s0 es) -> In id (completed o) \/ In id (pending s')) /\
  (forall id, In id (completed o) -> In id (all_accepted s0 es)) /\
  (forall id, In id (completed o) -> ~ In id (pending s')) /\
  (pending s' = [] -> forall id, In id (all_accepted s0 es) <-> In id (completed o)) /\
  (ph s' = PDone -> pending s' = []).
Proof.
  intros s0 Hnd. pose proof (run_conserve es s0 (init_done_empty hn mt rmin rmax)) as H. destruct (run cfg s0 es) as [s' o].
  destruct H as [H D]. change (pending s0) with (@nil nat) in H. cbn [app] in H.
  assert (Hnd' : NoDup (pending s' ++ completed o)) by (eapply Permutation_NoDup; [symmetry; exact H|exact Hnd]).
  split; [eapply NoDup_app_r; exact Hnd'|]. split; [|split; [|split; [|split]]].
  - intros id Hin. eapply Permutation_in in Hin; [|symmetry; exact H]. apply in_app_or in Hin. tauto.
  - intros id Hin. eapply Permutation_in; [exact H|]. apply in_or_app. right. exact Hin.
  - intros id Hin Hp.
    revert Hnd' Hin Hp. generalize (pending s') (completed o). intros l1 l2 Hn H2 H1.
    induction l1 as [|x l1 IH]; [destruct H1|]. cbn in Hn. inversion Hn as [|y l Hnotin Hn']; subst. destruct H1 as [->|H1].
    + apply Hnotin. apply in_or_app. right. exact H2.
    + apply IH; assumption.
  - intros Hp id. rewrite Hp in H. cbn [app] in H. split; intros Hin.
    + eapply Permutation_in; [symmetry; exact H|exact Hin].
    + eapply Permutation_in; [exact H|exact Hin].
  - intros Hp. destruct (D Hp) as [Hq Hb]. unfold pending. rewrite Hp, Hq, Hb. reflexivity.
Qed.

(* ---------- nothing is stuck ---------- *)
(* an in-flight request has a finite deadline; once the clock reaches the timer instant the timer
   step completes it *)
Lemma inflight_not_stuck s r tx d : ph s = PInFlight r tx d ->
  let s1 := fst (step cfg s (EvTick (fire cfg d - now s))) in
  In (rq_id r) (completed (snd (step cfg s1 EvTimer))).
Proof.
  intros Eph. cbn [step fst]. cbn [ph set_now now]. rewrite Eph.
  assert (Hle : (fire cfg d <=? now s + (fire cfg d - now s)) = true) by (apply N.leb_le; lia). rewrite Hle.
  pose proof (finish_summary (set_now s (now s + (fire cfg d - now s))) r (RErr deadline_error)) as H.
  destruct (finish _ r (RErr deadline_error)) as [s' o]. cbn [snd].
  destruct H as (_ & _ & _ & _ & _ & [(_ & _ & _ & ->)|(_ & _ & _ & ->)]); left; reflexivity.
Qed.

(* a write in progress ends, however long the transport takes nothing: once the clock reaches the timer instant of
   the transmission bound (write start + request timeout) the timer step either finds the write done - the request
   is then in flight - or completes the request (write_timeout_error, i.e. Io) *)
Lemma writing_not_stuck s r tx u : ph s = PWriting r tx u ->
  let s1 := fst (step cfg s (EvTick (fire cfg (wdl s) - now s))) in
  (exists d, ph (fst (step cfg s1 EvTimer)) = PInFlight r tx d) \/ In (rq_id r) (completed (snd (step cfg s1 EvTimer))).
Proof.
  intros Eph. cbn [step fst]. cbn [ph set_now now wpark wdl]. rewrite Eph.
  destruct (Nat.eqb (wpark s) 0 && (fire cfg u <=? now s + (fire cfg (wdl s) - now s))); [left; eexists; reflexivity|].
  assert (Hle : (fire cfg (wdl s) <=? now s + (fire cfg (wdl s) - now s)) = true) by (apply N.leb_le; lia). rewrite Hle.
  right. pose proof (finish_summary (set_now s (now s + (fire cfg (wdl s) - now s))) r (RErr write_timeout_error)) as H.
  destruct (finish _ r (RErr write_timeout_error)) as [s' o]. cbn [snd].
  destruct H as (_ & _ & _ & _ & _ & [(_ & _ & _ & ->)|(_ & _ & _ & ->)]); left; reflexivity.
Qed.

(* a slow write on a transport that is not parked is done at its instant u: the request is then in flight *)
Lemma slow_write_done s r tx u : ph s = PWriting r tx u -> wpark s = 0%nat ->
  let s1 := fst (step cfg s (EvTick (fire cfg u - now s))) in
  exists d, ph (fst (step cfg s1 EvTimer)) = PInFlight r tx d.
Proof.
  intros Eph Hw. cbn [step fst]. cbn [ph set_now now wpark wdl]. rewrite Eph, Hw.
  assert (Hle : (fire cfg u <=? now s + (fire cfg u - now s)) = true) by (apply N.leb_le; lia). rewrite Hle.
  eexists. reflexivity.
Qed.

(* a listening phase with a request at the head of its queue: the recv step takes it - it completes
   or is in flight / being written afterwards *)
Lemma queued_not_stuck s r q : listens (ph s) = true -> queue s = CReq r :: q ->
  let '(s', o) := step cfg s EvRecv in In (rq_id r) (completed o) \/ inflight (ph s') = [rq_id r].
Proof.
  intros Hl Hq. cbn [step]. rewrite Hl, Hq.
  set (s1 := set_chan s (q ++ firstn 1 (blocked s)) (skipn 1 (blocked s))).
  unfold take. change (ph s1) with (ph s).
  destruct (ph s) eqn:Eph; try discriminate; try (left; left; reflexivity).
  unfold transmit. destruct (txid_next (txid s1)) as [v' tx].
  assert (Hfin : forall s0 res pre, let '(s', o) := finish s0 r res in In (rq_id r) (completed (pre ++ o))).
  { intros s0 res pre. pose proof (finish_summary s0 r res) as H. destruct (finish s0 r res) as [s' o]. rewrite completed_app. apply in_or_app. right.
    destruct H as (_ & _ & _ & _ & _ & [(_ & _ & _ & ->)|(_ & _ & _ & ->)]); left; reflexivity. }
  destruct (rq_kind r).
  - destruct (wfail (set_txid s1 v')).
    + specialize (Hfin (set_wctl (set_txid s1 v') false 0) (RErr ReIo) [OStamp tx (rq_id r); OWireFail tx (rq_id r)]).
      destruct (finish _ r (RErr ReIo)) as [s' o]. left. exact Hfin.
    + destruct (write_now (set_txid s1 v')); right; reflexivity.
  - specialize (Hfin (set_txid s1 v') (RErr ReBadRequest) [OStamp tx (rq_id r)]). destruct (finish _ r _) as [s' o]. left. exact Hfin.
Qed.

End Runs.

(* ---------- what a completion's error tells ---------- *)
Definition no_completion (o : list output) : Prop := forall id res, ~ In (OComplete id res) o.
Definition only_drops (s' : state) (o : list output) : Prop :=
  forall id res, In (OComplete id res) o -> res = RErr drop_error /\ ph s' = PDone.

Lemma in_drop_complete id res q : In (OComplete id res) (drop_queue q) -> res = RErr drop_error.
Proof. intros H. apply in_drop_queue in H. destruct H as [i E]. inversion E. reflexivity. Qed.

Lemma in_drop_one id res c : In (OComplete id res) (drop_queue [c]) -> exists r, c = CReq r /\ rq_id r = id /\ res = RErr drop_error.
Proof.
  intros H. destruct c as [r| | |l|]; with_strategy transparent [drop_queue] (cbn in H); try (destruct H; fail).
  destruct H as [H|[]]. inversion H. exists r. auto.
Qed.

Section Class.
Variable cfg : config.

Lemma terminate_drops s pre : no_completion pre -> let '(s', o) := terminate s pre in only_drops s' o.
Proof.
  intros Hp id res H. unfold terminate in *. cbn [fst snd] in *. apply in_app_or in H. destruct H as [H|H]; [exfalso; eapply Hp; exact H|].
  destruct H as [H|H]; [discriminate|]. apply in_drop_complete in H. split; [exact H|reflexivity].
Qed.

Lemma crash_drops s : let '(s', o) := crash s in only_drops s' o.
Proof.
  intros id res H. unfold crash in *. apply in_app_or in H. destruct H as [H|H].
  - apply in_map_iff in H. destruct H as (r & E & _). inversion E. split; reflexivity.
  - apply in_drop_complete in H. split; [exact H|reflexivity].
Qed.

Lemma loop_top_drops s : let '(s', o) := loop_top s in only_drops s' o.
Proof. unfold loop_top, start_connecting. destruct (enabled s); intros id res H; cbn in H; repeat (destruct H as [H|H]; try discriminate); destruct H. Qed.

Lemma wait_for_drops s l o pre : no_completion pre -> let '(s', out) := wait_for s l o pre in only_drops s' out.
Proof.
  intros Hp. unfold wait_for. destruct (retry_call s o) as [[s1 d]|].
  - intros id res H. apply in_app_or in H. destruct H as [H|H]; [exfalso; eapply Hp; exact H|]. destruct H as [H|[]]. discriminate.
  - pose proof (crash_drops s) as C. destruct (crash s) as [s' out]. intros id res H. apply in_app_or in H.
    destruct H as [H|H]; [exfalso; eapply Hp; exact H|]. exact (C _ _ H).
Qed.

Lemma no_completion_end e : no_completion [OEnd e].
Proof. intros id res [H|[]]. discriminate. Qed.

Lemma end_session_drops s e : let '(s', o) := end_session s e in only_drops s' o /\ In (OEnd e) o.
Proof.
  unfold end_session. destruct e.
  - pose proof (wait_for_drops s LWaitDisc Disc [OEnd SeIoError] (no_completion_end _)) as H. unfold wait_for in *.
    destruct (retry_call s Disc) as [[s1 d]|]; [|destruct (crash s)]; (split; [exact H|left; reflexivity]).
  - pose proof (wait_for_drops s LWaitDisc Disc [OEnd SeBadFrame] (no_completion_end _)) as H. unfold wait_for in *.
    destruct (retry_call s Disc) as [[s1 d]|]; [|destruct (crash s)]; (split; [exact H|left; reflexivity]).
  - pose proof (loop_top_drops s) as H. destruct (loop_top s) as [s' o]. split; [|left; reflexivity].
    intros id res [E|E]; [discriminate|]. exact (H _ _ E).
  - pose proof (wait_for_drops s LWaitDisc Disc [OEnd SeMaxTimeouts] (no_completion_end _)) as H. unfold wait_for in *.
    destruct (retry_call s Disc) as [[s1 d]|]; [|destruct (crash s)]; (split; [exact H|left; reflexivity]).
  - pose proof (terminate_drops s [OEnd SeShutdown] (no_completion_end _)) as H. unfold terminate in *. split; [exact H|left; reflexivity].
Qed.

Lemma finish_completions s r res : let '(s', o) := finish s r res in
  (forall id res', In (OComplete id res') o -> (id = rq_id r /\ res' = res) \/ (res' = RErr drop_error /\ ph s' = PDone)) /\
  (forall e se, res = RErr e -> from_request_err e = Some se -> In (OEnd se) o).
Proof.
  unfold finish.
  assert (Halive : forall t, let s' := set_tc (set_ph s PIdle) t in let o := [OComplete (rq_id r) res] in
            (forall id res', In (OComplete id res') o -> (id = rq_id r /\ res' = res) \/ (res' = RErr drop_error /\ ph s' = PDone))).
  { intros t s' o id res' [E|[]]. inversion E. left. auto. }
  assert (Hend : forall s0 se, let '(s', o) := end_session s0 se in
            (forall id res', In (OComplete id res') ([OComplete (rq_id r) res] ++ o) -> (id = rq_id r /\ res' = res) \/ (res' = RErr drop_error /\ ph s' = PDone)) /\
            In (OEnd se) ([OComplete (rq_id r) res] ++ o)).
  { intros s0 se. pose proof (end_session_drops s0 se) as H. destruct (end_session s0 se) as [s' o]. destruct H as [H1 H2]. split.
    - intros id res' [E|E]; [inversion E; left; auto|right; exact (H1 _ _ E)].
    - right. exact H2. }
  destruct res as [|e].
  - split; [apply Halive|intros e se E; discriminate E].
  - destruct (from_request_err e) as [se|] eqn:Ef.
    + specialize (Hend (set_ph s PIdle) se). destruct (end_session (set_ph s PIdle) se) as [s' o]. destruct Hend as [H1 H2].
      split; [exact H1|]. intros e' se' E1 E2. inversion E1; subst. rewrite Ef in E2. inversion E2; subst. exact H2.
    + assert (Hno : forall o, forall e' se', RErr e = RErr e' -> from_request_err e' = Some se' -> In (OEnd se') o).
      { intros o e' se' E1 E2. inversion E1; subst. rewrite Ef in E2. discriminate. }
      destruct (request_error_beq e counted_error); [|split; [apply Halive|apply Hno]].
      destruct (tc_increment (tcount (set_ph s PIdle))) as [t' stop]. destruct stop; [|split; [apply Halive|apply Hno]].
      specialize (Hend (set_tc (set_ph s PIdle) t') SeMaxTimeouts). destruct (end_session _ _) as [s' o]. destruct Hend as [H1 _].
      split; [exact H1|apply Hno].
Qed.

(* the reading of a completion (id, res) produced by the step s --e--> s' with outputs o *)
Definition explains (s : state) (e : event) (s' : state) (o : list output) (id : nat) (res : result) : Prop :=
  match res with
  | ROk | RErr ReException | RErr ReBadResponse =>
      (* a reply: the frame with the outstanding transaction id, for the outstanding request *)
      exists r tx d k, ph s = PInFlight r tx d /\ rq_id r = id /\ res = respond k /\
        ((e = EvFrame tx k /\ partial s = None) \/ (e = EvTail /\ partial s = Some (tx, k)))
  | RErr ReNoConnection =>
      (* taken from the queue while the channel was not connected *)
      e = EvRecv /\ connected (ph s) = false /\ listens (ph s) = true /\ exists r q, queue s = CReq r :: q /\ rq_id r = id
  | RErr ReResponseTimeout =>
      (* the deadline branch of the outstanding request *)
      e = EvTimer /\ exists r tx d, ph s = PInFlight r tx d /\ rq_id r = id /\ fire cfg d <= now s
  | RErr ReIo =>
      (* the I/O error that ended the connection: a read error / EOF while outstanding, the failed write, or the
         write that could not be finished in time *)
      In (OEnd SeIoError) o /\
      ((exists r tx d, ph s = PInFlight r tx d /\ rq_id r = id /\ (e = EvEof \/ e = EvIoErr)) \/
       (e = EvRecv /\ ph s = PIdle /\ wfail s = true /\ exists r q, queue s = CReq r :: q /\ rq_id r = id) \/
       (* the transmission that was not done when its bound (write start + request timeout) passed *)
       (e = EvTimer /\ exists r tx u, ph s = PWriting r tx u /\ rq_id r = id /\ fire cfg (wdl s) <= now s))
  | RErr ReBadFrame =>
      (* the framing error that ended the connection *)
      In (OEnd SeBadFrame) o /\ exists r tx d, ph s = PInFlight r tx d /\ rq_id r = id /\ e = EvGarbage
  | RErr ReShutdown =>
      (* only when the task is gone (terminated, aborted, or gone already), or when the submitting
         call itself was rejected (try_send on a full queue) *)
      ph s' = PDone \/ (exists r, e = EvSubmit (CReq r) SFfi /\ rq_id r = id /\ s' = s)
  | RErr ReBadRequest =>
      (* rejected by the encoder when it was taken from the queue while connected *)
      e = EvRecv /\ ph s = PIdle /\ exists r q, queue s = CReq r :: q /\ rq_id r = id /\ rq_kind r = KUnformattable
  | RErr ReInternal => False
  end.

Lemma explains_drop s e s' o id : ph s' = PDone -> explains s e s' o id (RErr drop_error).
Proof. intros H. left. exact H. Qed.

Ltac drops H Hin := let E := fresh in let P := fresh in destruct (H _ _ Hin) as [E P]; rewrite E; apply explains_drop; exact P.

Lemma on_frame_class s0 s tx k e id res : ph s0 = ph s ->
  (forall r t d, ph s = PInFlight r t d -> tx = t -> (e = EvFrame tx k /\ partial s = None) \/ (e = EvTail /\ partial s = Some (tx, k))) ->
  In (OComplete id res) (snd (on_frame s0 tx k)) ->
  explains s e (fst (on_frame s0 tx k)) (snd (on_frame s0 tx k)) id res.
Proof.
  intros Hp Hev. unfold on_frame. rewrite Hp. destruct (ph s) eqn:Eph; try (intros []).
  destruct (N.eqb_spec tx tx0) as [->|Hne]; [|intros []].
  pose proof (finish_completions s0 r (respond k)) as F. destruct (finish s0 r (respond k)) as [s' o]. destruct F as [F _].
  cbn [fst snd]. intros H. destruct (F _ _ H) as [[-> ->]|[-> P]]; [|apply explains_drop; exact P].
  specialize (Hev r tx0 deadline eq_refl eq_refl).
  destruct k; cbn [respond explains]; exists r, tx0, deadline; [exists RpGenuine|exists RpException|exists RpBad]; auto.
Qed.

Lemma on_read_error_class s err e id res :
  (err = ReIo /\ (e = EvEof \/ e = EvIoErr)) \/ (err = ReBadFrame /\ e = EvGarbage) ->
  In (OComplete id res) (snd (on_read_error s err)) ->
  explains s e (fst (on_read_error s err)) (snd (on_read_error s err)) id res.
Proof.
  intros Hev. unfold on_read_error. destruct (ph s) eqn:Eph; try (intros []).
  - destruct (from_request_err err) as [se|]; [|intros []].
    pose proof (end_session_drops s se) as T. destruct (end_session s se) as [s' o]. destruct T as [T _]. cbn [fst snd]. intros H. drops T H.
  - pose proof (finish_completions s r (RErr err)) as F. destruct (finish s r (RErr err)) as [s' o]. destruct F as [F1 F2].
    cbn [fst snd]. intros H. destruct (F1 _ _ H) as [[-> ->]|[-> P]]; [|apply explains_drop; exact P].
    destruct Hev as [[-> He]|[-> He]]; cbn [explains].
    + split; [apply (F2 ReIo SeIoError); reflexivity|]. left. exists r, tx, deadline. auto.
    + split; [apply (F2 ReBadFrame SeBadFrame); reflexivity|]. exists r, tx, deadline. auto.
Qed.

Theorem step_class s e id res : In (OComplete id res) (snd (step cfg s e)) ->
  explains s e (fst (step cfg s e)) (snd (step cfg s e)) id res.
Proof.
  destruct e as [c st| | |ok|tx k|tx k| | | | | |dt| |dt| | |k| ]; cbn [step].
  - (* submit *)
    assert (Hdone : ph s = PDone -> In (OComplete id res) (drop_queue [c]) -> explains s (EvSubmit c st) s (drop_queue [c]) id res).
    { intros Hp H. apply in_drop_complete in H. rewrite H. apply explains_drop. exact Hp. }
    assert (Hffi : In (OComplete id res) (drop_queue [c]) -> explains s (EvSubmit c SFfi) s (drop_queue [c]) id res).
    { intros H. apply in_drop_one in H. destruct H as (r & -> & <- & ->). right. exists r. auto. }
    destruct (Nat.eqb (handles s) 0); [intros []|].
    destruct (ph s) eqn:Eph; try (cbn [fst snd]; apply Hdone; reflexivity);
    (destruct (_ && _); [intros []|]; destruct st; try (intros []); exact Hffi).
  - intros [].
  - (* recv *)
    destruct (listens (ph s)) eqn:El; [|intros []].
    destruct (queue s) as [|c q] eqn:Eq.
    + destruct (closed s); [|intros []]. destruct (ph s) eqn:Eph; try discriminate.
      1,2,4: (pose proof (terminate_drops s [] (fun _ _ H => H)) as T; destruct (terminate s []) as [s' o]; cbn [fst snd]; intros H; drops T H).
      pose proof (end_session_drops s SeShutdown) as T. destruct (end_session s SeShutdown) as [s' o]. destruct T as [T _]. cbn [fst snd]. intros H. drops T H.
    + set (s1 := set_chan s (q ++ firstn 1 (blocked s)) (skipn 1 (blocked s))).
      assert (Hterm : forall s0, let '(s', o) := terminate s0 [] in In (OComplete id res) o -> explains s EvRecv s' o id res).
      { intros s0. pose proof (terminate_drops s0 [] (fun _ _ H => H)) as T. destruct (terminate s0 []) as [s' o]. intros H. drops T H. }
      assert (Hloop : forall s0, let '(s', o) := loop_top s0 in In (OComplete id res) o -> explains s EvRecv s' o id res).
      { intros s0. pose proof (loop_top_drops s0) as T. destruct (loop_top s0) as [s' o]. intros H. drops T H. }
      assert (Hends : forall s0 se, let '(s', o) := end_session s0 se in In (OComplete id res) o -> explains s EvRecv s' o id res).
      { intros s0 se. pose proof (end_session_drops s0 se) as T. destruct (end_session s0 se) as [s' o]. destruct T as [T _]. intros H. drops T H. }
      assert (Hnc : forall r0, connected (ph s) = false -> c = CReq r0 ->
                In (OComplete id res) [OComplete (rq_id r0) (RErr not_connected_error)] -> explains s EvRecv s1 [OComplete (rq_id r0) (RErr not_connected_error)] id res).
      { intros r0 Hc -> [H|[]]. inversion H; subst. cbn. repeat split; auto. exists r0, q. auto. }
      unfold take. change (ph s1) with (ph s).
      destruct (ph s) eqn:Eph; try discriminate.
      * destruct c as [r0| | |l|]; cbn [fst snd change_setting enabled set_enabled set_decode].
        -- apply (Hnc r0); reflexivity.
        -- unfold start_connecting. cbn [fst snd]. intros H. cbn in H. repeat (destruct H as [H|H]; try discriminate). destruct H.
        -- intros [].
        -- destruct (enabled _); unfold start_connecting; cbn [fst snd]; intros H; cbn in H; repeat (destruct H as [H|H]; try discriminate); destruct H.
        -- specialize (Hterm s1). destruct (terminate s1 []). exact Hterm.
      * destruct c as [r0| | |l|]; cbn [fst snd change_setting enabled set_enabled set_decode].
        -- apply (Hnc r0); reflexivity.
        -- intros [].
        -- specialize (Hloop (set_enabled s1 false)). destruct (loop_top _). exact Hloop.
        -- destruct (enabled _); [intros []|]. specialize (Hloop (set_decode s1 l)). destruct (loop_top _). exact Hloop.
        -- specialize (Hterm s1). destruct (terminate s1 []). exact Hterm.
      * destruct c as [r0| | |l|]; cbn [fst snd change_setting enabled set_enabled set_decode].
        -- unfold transmit. destruct (txid_next (txid s1)) as [v' tx].
           assert (Hfin : forall s0 res0 pre, no_completion pre ->
                     let '(s', o) := finish s0 r0 res0 in In (OComplete id res) (pre ++ o) ->
                     (id = rq_id r0 /\ res = res0 /\ (forall e se, res0 = RErr e -> from_request_err e = Some se -> In (OEnd se) (pre ++ o))) \/ (res = RErr drop_error /\ ph s' = PDone)).
           { intros s0 res0 pre Hp. pose proof (finish_completions s0 r0 res0) as F. destruct (finish s0 r0 res0) as [s' o]. destruct F as [F1 F2].
             intros H. apply in_app_or in H. destruct H as [H|H]; [exfalso; eapply Hp; exact H|].
             destruct (F1 _ _ H) as [[-> ->]|[-> P]]; [left|right; auto]. repeat split. intros e se E1 E2. apply in_or_app. right. eapply F2; eauto. }
           destruct (rq_kind r0) eqn:Ek.
           ++ destruct (wfail (set_txid s1 v')) eqn:Ew.
              ** specialize (Hfin (set_wctl (set_txid s1 v') false 0) (RErr ReIo) [OStamp tx (rq_id r0); OWireFail tx (rq_id r0)]).
                 destruct (finish _ r0 (RErr ReIo)) as [s' o]. cbn [fst snd]. intros H.
                 destruct Hfin as [(-> & -> & Hend)|[-> P]]; [intros i r [E|[E|[]]]; discriminate|exact H| |apply explains_drop; exact P].
                 split; [apply (Hend ReIo SeIoError); reflexivity|]. right. left. repeat split; auto. exists r0, q. auto.
              ** destruct (write_now (set_txid s1 v')); cbn [fst snd]; intros H; cbn in H; repeat (destruct H as [H|H]; try discriminate); destruct H.
           ++ specialize (Hfin (set_txid s1 v') (RErr ReBadRequest) [OStamp tx (rq_id r0)]).
              destruct (finish _ r0 (RErr ReBadRequest)) as [s' o]. cbn [fst snd]. intros H.
              destruct Hfin as [(-> & -> & Hend)|[-> P]]; [intros i r [E|[]]; discriminate|exact H| |apply explains_drop; exact P].
              repeat split; auto. exists r0, q. auto.
        -- intros [].
        -- specialize (Hends (set_enabled s1 false) SeDisabled). destruct (end_session _ _). exact Hends.
        -- destruct (enabled _); [intros []|]. specialize (Hends (set_decode s1 l) SeDisabled). destruct (end_session _ _). exact Hends.
        -- specialize (Hends s1 SeShutdown). destruct (end_session _ _). exact Hends.
      * destruct c as [r0| | |l|]; cbn [fst snd change_setting enabled set_enabled set_decode].
        -- apply (Hnc r0); reflexivity.
        -- intros [].
        -- specialize (Hloop (set_enabled s1 false)). destruct (loop_top _). exact Hloop.
        -- destruct (enabled _); [intros []|]. specialize (Hloop (set_decode s1 l)). destruct (loop_top _). exact Hloop.
        -- specialize (Hterm s1). destruct (terminate s1 []). exact Hterm.
  - (* connect *)
    destruct (ph s) eqn:Eph; try (intros []). destruct ok.
    + destruct (retry_call s Reset) as [[s1 d]|].
      * cbn [fst snd]. intros [H|[]]. discriminate.
      * pose proof (crash_drops s) as T. destruct (crash s) as [s' o]. cbn [fst snd]. intros H. drops T H.
    + pose proof (wait_for_drops s LWaitFailed Fail [] (fun _ _ H => H)) as T. destruct (wait_for s LWaitFailed Fail []) as [s' o].
      cbn [fst snd]. intros H. drops T H.
  - (* frame *)
    destruct (reading (ph s)) eqn:Er; [|intros []]. destruct (partial s) eqn:Epa; [intros []|].
    apply (on_frame_class s s tx k (EvFrame tx k)); [reflexivity|]. intros r t d Eph _. left. auto.
  - intros H. destruct (reading (ph s)); [|destruct H]. destruct (partial s); destruct H.
  - (* tail *)
    destruct (reading (ph s)) eqn:Er; [|intros []]. destruct (partial s) as [[tx k]|] eqn:Epa; [|intros []].
    apply (on_frame_class (set_partial s None) s tx k EvTail); [reflexivity|]. intros r t d Eph _. right. auto.
  - (* garbage *)
    destruct (reading (ph s)) eqn:Er; [|intros []]. destruct (partial s) eqn:Epa; [intros []|].
    apply (on_read_error_class s ReBadFrame EvGarbage). right. auto.
  - destruct (reading (ph s)) eqn:Er; [|intros []]. apply (on_read_error_class s ReIo EvEof). left. auto.
  - destruct (reading (ph s)) eqn:Er; [|intros []]. apply (on_read_error_class s ReIo EvIoErr). left. auto.
  - intros [].
  - intros [].
  - (* timer *)
    destruct (ph s) eqn:Eph; try (intros []).
    + destruct (Nat.eqb (wpark s) 0 && (fire cfg until <=? now s)); [cbn [fst snd]; intros [H|[]]; discriminate|].
      destruct (N.leb_spec (fire cfg (wdl s)) (now s)) as [Hle|Hlt]; [|intros []].
      pose proof (finish_completions s r (RErr write_timeout_error)) as F. destruct (finish s r (RErr write_timeout_error)) as [s' o]. destruct F as [F1 F2].
      cbn [fst snd]. intros H. destruct (F1 _ _ H) as [[-> ->]|[-> P]]; [|apply explains_drop; exact P].
      cbn. split; [apply (F2 ReIo SeIoError); reflexivity|]. right. right. split; [reflexivity|]. exists r, tx, until. auto.
    + destruct (N.leb_spec (fire cfg deadline) (now s)) as [Hle|Hlt]; [|intros []].
      pose proof (finish_completions s r (RErr deadline_error)) as F. destruct (finish s r (RErr deadline_error)) as [s' o]. destruct F as [F _].
      cbn [fst snd]. intros H. destruct (F _ _ H) as [[-> ->]|[-> P]]; [|apply explains_drop; exact P].
      cbn. split; [reflexivity|]. exists r, tx, deadline. auto.
    + destruct (fire cfg until <=? now s); [|intros []].
      pose proof (loop_top_drops s) as T. destruct (loop_top s) as [s' o]. cbn [fst snd]. intros H. drops T H.
  - intros [].
  - (* abort *)
    destruct (ph s) eqn:Eph; try (pose proof (crash_drops s) as T; destruct (crash s) as [s' o]; cbn [fst snd]; intros H; drops T H).
    intros [].
  - intros [].
  - intros [].
  - (* release *)
    destruct (wpark s) as [|n]; [intros []|]. cbn [ph set_wpark]. destruct (ph s); try (intros []).
    destruct (Nat.eqb n 0 && _); [cbn [fst snd]; intros [H|[]]; discriminate|intros []].
Qed.
End Class.

(* ---------- named corollaries ---------- *)
Section Corollaries.
Variable cfg : config.
Variables (hn : nat) (mt : option N) (rmin rmax : N).
Notation s0 := (init hn mt rmin rmax).

Lemma at_most_once es : NoDup (all_accepted cfg s0 es) -> NoDup (completed (snd (run cfg s0 es))).
Proof. intros H. pose proof (exactly_once cfg hn mt rmin rmax es H) as E. destruct (run cfg s0 es). tauto. Qed.

Lemma accounted es id : NoDup (all_accepted cfg s0 es) -> In id (all_accepted cfg s0 es) ->
  In id (completed (snd (run cfg s0 es))) \/ In id (pending (fst (run cfg s0 es))).
Proof. intros H. pose proof (exactly_once cfg hn mt rmin rmax es H) as E. destruct (run cfg s0 es). cbn [fst snd]. destruct E as (_ & E & _). apply E. Qed.

Lemma not_both es id : NoDup (all_accepted cfg s0 es) ->
  In id (completed (snd (run cfg s0 es))) -> ~ In id (pending (fst (run cfg s0 es))) /\ In id (all_accepted cfg s0 es).
Proof.
  intros H. pose proof (exactly_once cfg hn mt rmin rmax es H) as E. destruct (run cfg s0 es). cbn [fst snd].
  destruct E as (_ & _ & E1 & E2 & _). intros Hc. split; [apply E2|apply E1]; exact Hc.
Qed.

Lemma terminal es : NoDup (all_accepted cfg s0 es) ->
  (pending (fst (run cfg s0 es)) = [] -> forall id, In id (all_accepted cfg s0 es) <-> In id (completed (snd (run cfg s0 es)))) /\
  (ph (fst (run cfg s0 es)) = PDone -> pending (fst (run cfg s0 es)) = []).
Proof. intros H. pose proof (exactly_once cfg hn mt rmin rmax es H) as E. destruct (run cfg s0 es). cbn [fst snd]. tauto. Qed.

(* every Submit of a request made while a handle exists is accepted *)
Lemma submit_accepted s r st : (handles s > 0)%nat -> accepted s (EvSubmit (CReq r) st) = [rq_id r].
Proof.
  intros H. unfold accepted. rewrite queued_one. destruct (Nat.eqb_spec (handles s) 0); [lia|reflexivity].
Qed.
End Corollaries.

(* a reply result (success, exception, bad reply) only ever comes from the frame that carries the
   outstanding transaction id, and goes to the outstanding request *)
Lemma no_crosstalk cfg s e id res : In (OComplete id res) (snd (step cfg s e)) ->
  res = ROk \/ res = RErr ReException \/ res = RErr ReBadResponse ->
  exists r tx d k, ph s = PInFlight r tx d /\ rq_id r = id /\ res = respond k /\
    ((e = EvFrame tx k /\ partial s = None) \/ (e = EvTail /\ partial s = Some (tx, k))).
Proof.
  intros H Hr. apply step_class in H. destruct Hr as [-> | [-> | ->]]; exact H.
Qed.
