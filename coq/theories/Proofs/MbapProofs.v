(* C05: the MBAP parser model, call by call, against the stream Spec; then the reader-level
   theorems by instantiating ReaderGeneric. Ported from the prototype (DESIGN-prototypes 3, 4). *)
From Coq Require Import NArith List Bool Arith Lia.
From Rodbus Require Import Base.Outcome Base.Frame Gen.Consts Model.Buffer Model.Mbap Model.Reader Spec.Framing
  Proofs.BufferProofs Proofs.ReaderGeneric.
Import ListNotations.

(* ---------------------------------------------------------------- the parser in direct style *)
Definition mkf (tx u : N) (pdu : list N) : frame := {| f_tx := Some tx; f_dest := u; f_bcast := false; f_pdu := pdu |}.

(* the seven header bytes: (tx, unit, adu length) or the error, checks in the code's order *)
Definition hdr (h : list N) : (N * N * nat) + ferr :=
  match h with
  | [t1; t0; p1; p0; l1; l0; u] =>
      let proto := (p1 * 256 + p0)%N in
      let len := N.to_nat (l1 * 256 + l0)%N in
      if negb (N.eqb proto 0) then inr (UnknownProtocolId proto)
      else if Nat.ltb mbap_max_length_field len then inr (FrameLengthTooBig len mbap_max_length_field)
      else match len with O => inr MbapLengthZero | S n => inl ((t1 * 256 + t0)%N, u, n) end
  | _ => inr InternalError
  end.

Inductive sres := SNeed | SGot (f : frame) | SBad (e : ferr).
Definition lift_s (r : sres) : presult := match r with SNeed => Ok None | SGot f => Ok (Some f) | SBad e => Err e end.

Definition sbody (tx u : N) (n : nat) (b : buf) : pstate * buf * sres :=
  if Nat.ltb (buf_len b) n then (Header tx u n, b, SNeed)
  else (Begin, consume n b, SGot (mkf tx u (firstn n (b_pend b)))).
Definition sparse (st : pstate) (b : buf) : pstate * buf * sres :=
  match st with
  | Header tx u n => sbody tx u n b
  | Begin =>
      if Nat.ltb (buf_len b) 7 then (Begin, b, SNeed)
      else match hdr (firstn 7 (b_pend b)) with
           | inr e => (Begin, consume 7 b, SBad e)
           | inl (tx, u, n) => sbody tx u n (consume 7 b)
           end
  end.

Definition st_ok (st : pstate) : Prop := match st with Begin => True | Header _ _ n => n <= 253 end.
Definition need (st : pstate) : nat := match st with Begin => 7 | Header _ _ n => n end.
Definition cons_need (st : pstate) : nat := match st with Begin => 7 | Header _ _ _ => 0 end.

Lemma hdr_ok h tx u n : hdr h = inl (tx, u, n) -> n <= 253.
Proof.
  unfold hdr. destruct h as [|t1 [|t0 [|p1 [|p0 [|l1 [|l0 [|u0 [|x h]]]]]]]]; try discriminate.
  destruct (negb _); [discriminate|]. unfold mbap_max_length_field.
  destruct (Nat.ltb_spec 254 (N.to_nat (l1 * 256 + l0))) as [|Hle]; [discriminate|].
  destruct (N.to_nat (l1 * 256 + l0)) eqn:E; [discriminate|]. intros H; inversion H; subst. lia.
Qed.
Lemma hdr_internal h : length h = 7 -> hdr h <> inr InternalError.
Proof.
  destruct h as [|t1 [|t0 [|p1 [|p0 [|l1 [|l0 [|u0 [|x h]]]]]]]]; try discriminate. intros _. unfold hdr.
  destruct (negb _); [discriminate|]. destruct (Nat.ltb _ _); [discriminate|]. destruct (N.to_nat _); discriminate.
Qed.

(* ---------------------------------------------------------------- model = direct style *)
Lemma parse_header_eq b : wf b -> 7 <= buf_len b ->
  parse_header b = (consume 7 b, match hdr (firstn 7 (b_pend b)) with inl x => Ok x | inr e => Err e end).
Proof.
  intros Hwf H7. destruct b as [bb pp]. unfold buf_len in H7; cbn [b_pend] in *.
  destruct pp as [|t1 [|t0 [|p1 [|p0 [|l1 [|l0 [|u pp]]]]]]]; cbn [length] in H7; try lia.
  unfold parse_header, bind, ret.
  set (b0 := {| b_begin := bb; b_pend := t1 :: t0 :: p1 :: p0 :: l1 :: l0 :: u :: pp |}) in *.
  assert (L : forall k, k <= 7 -> wf (consume k b0)) by (intros k Hk; apply consume_wf; [assumption|unfold buf_len, b0; cbn [b_pend length]; lia]).
  rewrite (buf_read_u16_be_ok b0 t1 t0 _ Hwf eq_refl).
  rewrite (buf_read_u16_be_ok (consume 2 b0) p1 p0 _ (L 2 ltac:(lia)) eq_refl), consume_consume.
  rewrite (buf_read_u16_be_ok (consume (2 + 2) b0) l1 l0 _ (L (2 + 2) ltac:(lia)) eq_refl), consume_consume.
  rewrite (buf_read_u8_ok (consume (2 + 2 + 2) b0) u pp (L (2 + 2 + 2) ltac:(lia)) eq_refl), consume_consume.
  change (2 + 2 + 2 + 1) with 7. cbn [firstn b_pend b0 hdr].
  destruct (negb (N.eqb (p1 * 256 + p0) 0)); [reflexivity|].
  destruct (Nat.ltb mbap_max_length_field (N.to_nat (l1 * 256 + l0))); [reflexivity|].
  destruct (N.to_nat (l1 * 256 + l0)); reflexivity.
Qed.

Lemma frame_set_small d : length d <= 253 -> frame_set d = d.
Proof. intros H. unfold frame_set, max_adu_length. destruct (Nat.ltb_spec 253 (length d)); [lia|reflexivity]. Qed.

Lemma parse_in_header_eq tx u n b : wf b -> n <= 253 ->
  parse_in_header tx u n b = (let '(st, b', r) := sbody tx u n b in (st, b', lift_s r)).
Proof.
  intros Hwf Hn. unfold parse_in_header, sbody. destruct (Nat.ltb_spec (buf_len b) n); [reflexivity|].
  rewrite buf_read_ok by assumption. cbn [lift_s]. rewrite frame_set_small; [reflexivity|].
  rewrite firstn_length. lia.
Qed.

Theorem mbap_parse_eq st b : wf b -> st_ok st ->
  mbap_parse st b = (let '(st', b', r) := sparse st b in (st', b', lift_s r)).
Proof.
  intros Hwf Hst. destruct st as [|tx u n]; cbn [mbap_parse sparse].
  - unfold mbap_header_length. destruct (Nat.ltb_spec (buf_len b) 7); [reflexivity|].
    rewrite parse_header_eq by assumption. destruct (hdr (firstn 7 (b_pend b))) as [[[tx u] n]|e] eqn:Eh; [|reflexivity].
    apply parse_in_header_eq; [apply consume_wf; assumption|exact (hdr_ok _ _ _ _ Eh)].
  - apply parse_in_header_eq; assumption.
Qed.

(* the MBAP parser never panics and never reports an internal error, for every state a run can reach *)
Corollary mbap_parse_no_panic st b : wf b -> st_ok st -> snd (mbap_parse st b) <> Panic.
Proof. intros Hwf Hst. rewrite mbap_parse_eq by assumption. destruct (sparse st b) as [[st' b'] r]. destruct r; discriminate. Qed.

(* ---------------------------------------------------------------- the Spec, one header at a time *)
Definition ref_from (F : nat) (st : pstate) (s : list N) (fi : fin) : list frame * ending :=
  match st with
  | Begin => ref F s fi
  | Header tx u n =>
      if Nat.ltb (length s) n then ([], end_of fi)
      else consf (mkf tx u (firstn n s)) (ref F (skipn n s) fi)
  end.

Lemma ref_unfold F s fi : ref (S F) s fi =
  if Nat.ltb (length s) 7 then ([], end_of fi)
  else match hdr (firstn 7 s) with
       | inr e => ([], EndBad e)
       | inl (tx, u, n) => ref_from F (Header tx u n) (skipn 7 s) fi
       end.
Proof.
  destruct s as [|t1 [|t0 [|p1 [|p0 [|l1 [|l0 [|u s]]]]]]]; try reflexivity.
  cbn [ref length firstn skipn hdr]. destruct (Nat.ltb_spec (S (S (S (S (S (S (S (length s))))))) ) 7); [lia|].
  unfold be, mbap_max_length_field. destruct (negb _); [reflexivity|]. destruct (Nat.ltb 254 _); [reflexivity|].
  destruct (N.to_nat (l1 * 256 + l0)) as [|n]; [reflexivity|]. cbn [Nat.eqb ref_from]. replace (S n - 1) with n by lia.
  destruct (Nat.ltb (length s) n); reflexivity.
Qed.

Lemma ref_fuel : forall f1 f2 s fi, length s < f1 -> length s < f2 -> ref f1 s fi = ref f2 s fi.
Proof.
  induction f1 as [|f1 IH]; intros f2 s fi H1 H2; [lia|]. destruct f2 as [|f2]; [lia|]. rewrite !ref_unfold.
  destruct (Nat.ltb_spec (length s) 7) as [|E7]; [reflexivity|].
  destruct (hdr (firstn 7 s)) as [[[tx u] n]|e] eqn:Eh; [|reflexivity]. cbn [ref_from].
  destruct (Nat.ltb_spec (length (skipn 7 s)) n) as [|En]; [reflexivity|].
  rewrite (IH f2 (skipn n (skipn 7 s))); [reflexivity| |]; rewrite !skipn_length; lia.
Qed.

Lemma firstn_app_le {A} k (l1 l2 : list A) : k <= length l1 -> firstn k (l1 ++ l2) = firstn k l1.
Proof. intros H. rewrite firstn_app. replace (k - length l1) with 0 by lia. cbn. apply app_nil_r. Qed.
Lemma skipn_app_le {A} k (l1 l2 : list A) : k <= length l1 -> skipn k (l1 ++ l2) = skipn k l1 ++ l2.
Proof. intros H. rewrite skipn_app. replace (k - length l1) with 0 by lia. reflexivity. Qed.

(* unfolding the Spec one header, with the same fuel on both sides *)
Lemma ref_step F s fi tx u n :
  length s < F -> 7 <= length s -> hdr (firstn 7 s) = inl (tx, u, n) ->
  ref F s fi = ref_from F (Header tx u n) (skipn 7 s) fi.
Proof.
  intros HF H7 Hh. destruct F as [|F]; [lia|]. rewrite ref_unfold.
  destruct (Nat.ltb_spec (length s) 7); [lia|]. rewrite Hh. cbn [ref_from].
  destruct (Nat.ltb_spec (length (skipn 7 s)) n) as [|En]; [reflexivity|].
  rewrite (ref_fuel F (S F)); [reflexivity| |]; rewrite !skipn_length in *; lia.
Qed.
Lemma ref_bad F s fi e : 0 < F -> 7 <= length s -> hdr (firstn 7 s) = inr e -> ref F s fi = ([], EndBad e).
Proof. intros HF H7 Hh. destruct F; [lia|]. rewrite ref_unfold. destruct (Nat.ltb_spec (length s) 7); [lia|]. now rewrite Hh. Qed.
Lemma ref_short F s fi : 0 < F -> length s < 7 -> ref F s fi = ([], end_of fi).
Proof. intros HF H7. destruct F; [lia|]. rewrite ref_unfold. destruct (Nat.ltb_spec (length s) 7); [reflexivity|lia]. Qed.

(* ---------------------------------------------------------------- the three outcomes of one parse call *)
Lemma body_got tx u n b st' b' f fut F fi :
  sbody tx u n b = (st', b', SGot f) ->
  st' = Begin /\ b' = consume n b /\ n <= buf_len b /\
  ref_from F (Header tx u n) (b_pend b ++ fut) fi = consf f (ref F (b_pend b' ++ fut) fi).
Proof.
  unfold sbody. destruct (Nat.ltb_spec (buf_len b) n) as [|Hn]; [discriminate|].
  intros H; inversion H; subst; clear H. repeat split; [assumption|]. cbn [ref_from consume b_pend].
  rewrite app_length. unfold buf_len in Hn. destruct (Nat.ltb_spec (length (b_pend b) + length fut) n); [lia|].
  rewrite skipn_app_le, firstn_app_le by assumption. reflexivity.
Qed.
Lemma body_need tx u n b st' b' :
  sbody tx u n b = (st', b', SNeed) -> st' = Header tx u n /\ b' = b /\ buf_len b < n.
Proof. unfold sbody. destruct (Nat.ltb_spec (buf_len b) n); [|discriminate]. intros Hq; inversion Hq; subst; repeat split; assumption. Qed.
Lemma body_bad tx u n b st' b' e : sbody tx u n b <> (st', b', SBad e).
Proof. unfold sbody. destruct (Nat.ltb _ _); discriminate. Qed.

Lemma parse_got st b st' b' f :
  st_ok st -> sparse st b = (st', b', SGot f) ->
  st' = Begin /\ (exists k, b' = consume k b /\ k <= buf_len b /\ cons_need st <= k) /\
  forall fut F fi, length (b_pend b ++ fut) < F ->
    ref_from F st (b_pend b ++ fut) fi = consf f (ref F (b_pend b' ++ fut) fi).
Proof.
  intros Hst. destruct st as [|tx u n]; cbn [sparse].
  - destruct (Nat.ltb_spec (buf_len b) 7) as [|H7]; [discriminate|].
    destruct (hdr (firstn 7 (b_pend b))) as [[[tx u] n]|e] eqn:Eh; [|discriminate]. intros Hp.
    destruct (body_got _ _ _ _ _ _ _ [] 1 FinEof Hp) as (-> & -> & Hle & _). rewrite consume_len in Hle.
    split; [reflexivity|]. split.
    + exists (7 + n). rewrite consume_consume. split; [reflexivity|]. cbn [cons_need]. split; lia.
    + intros fut F fi HF. destruct (body_got _ _ _ _ _ _ _ fut F fi Hp) as (_ & _ & _ & Hr).
      cbn [ref_from]. rewrite app_length in HF. unfold buf_len in H7. rewrite (ref_step F _ fi tx u n).
      * cbn [consume b_pend] in Hr. rewrite skipn_app_le by lia. exact Hr.
      * rewrite app_length; lia.
      * rewrite app_length; lia.
      * rewrite firstn_app_le by lia. exact Eh.
  - intros Hp. destruct (body_got _ _ _ _ _ _ _ [] 1 FinEof Hp) as (-> & -> & Hle & _).
    split; [reflexivity|]. split; [exists n; cbn [cons_need]; repeat split; [assumption|lia]|].
    intros fut F fi _. now destruct (body_got _ _ _ _ _ _ _ fut F fi Hp) as (_ & _ & _ & Hr).
Qed.

Lemma parse_bad st b st' b' e :
  sparse st b = (st', b', SBad e) ->
  (exists k, b' = consume k b /\ k <= buf_len b /\ cons_need st <= k) /\
  forall fut F fi, 0 < F -> ref_from F st (b_pend b ++ fut) fi = ([], EndBad e).
Proof.
  destruct st as [|tx u n]; cbn [sparse].
  - destruct (Nat.ltb_spec (buf_len b) 7) as [|H7]; [discriminate|].
    destruct (hdr (firstn 7 (b_pend b))) as [[[tx u] n]|e0] eqn:Eh.
    + intros Hp. exfalso. eapply body_bad; eauto.
    + intros H; inversion H; subst. split; [exists 7; cbn [cons_need]; repeat split; [assumption|lia]|].
      intros fut F fi HF. cbn [ref_from]. unfold buf_len in H7. apply ref_bad; [assumption|rewrite app_length; lia|].
      rewrite firstn_app_le by lia. exact Eh.
  - intros Hp. exfalso. eapply body_bad; eauto.
Qed.

Lemma parse_need st b st' b' :
  st_ok st -> sparse st b = (st', b', SNeed) ->
  st_ok st' /\ buf_len b' < need st' /\
  (exists k, b' = consume k b /\ k <= buf_len b /\ cons_need st <= k + cons_need st') /\
  (forall fut F fi, length (b_pend b ++ fut) < F -> ref_from F st (b_pend b ++ fut) fi = ref_from F st' (b_pend b' ++ fut) fi).
Proof.
  intros Hst. destruct st as [|tx u n]; cbn [sparse].
  - destruct (Nat.ltb_spec (buf_len b) 7) as [Hlt|H7].
    + intros H; inversion H; subst. split; [exact I|]. split; [exact Hlt|]. split; [|reflexivity].
      exists 0. rewrite consume_0. split; [reflexivity|]. split; lia.
    + destruct (hdr (firstn 7 (b_pend b))) as [[[tx u] n]|e0] eqn:Eh; [|discriminate].
      pose proof (hdr_ok _ _ _ _ Eh) as Hn. intros Hp.
      destruct (body_need _ _ _ _ _ _ Hp) as (-> & -> & Hlt).
      split; [exact Hn|]. split; [exact Hlt|]. split.
      * exists 7. split; [reflexivity|]. cbn [cons_need]. split; lia.
      * intros fut F fi HF. cbn [ref_from]. rewrite app_length in HF. unfold buf_len in H7. rewrite (ref_step F _ fi tx u n).
        -- cbn [consume b_pend]. rewrite skipn_app_le by lia. reflexivity.
        -- rewrite app_length; lia.
        -- rewrite app_length; lia.
        -- rewrite firstn_app_le by lia. exact Eh.
  - intros Hp. destruct (body_need _ _ _ _ _ _ Hp) as (-> & -> & Hlt).
    split; [exact Hst|]. split; [exact Hlt|]. split; [|reflexivity].
    exists 0. rewrite consume_0. split; [reflexivity|]. split; lia.
Qed.

(* at a waiting state the stream ending here leaves exactly an incomplete frame *)
Lemma stuck_eof st p F fi : st_ok st -> length p < need st -> 0 < F -> ref_from F st p fi = ([], end_of fi).
Proof.
  intros _ Hn HF. destruct st as [|tx u n]; cbn [ref_from need] in *.
  - apply ref_short; assumption.
  - destruct (Nat.ltb_spec (length p) n); [reflexivity|lia].
Qed.

(* ---------------------------------------------------------------- instance of the generic reader theorem *)
Section Inst.
Let H_mk : forall st b, parser_parse (PTcp st) b = let '(st', b', r) := mbap_parse st b in (PTcp st', b', r).
Proof. reflexivity. Qed.

Local Ltac via_sparse Hwf Hst Ep st b :=
  rewrite (mbap_parse_eq st b Hwf Hst) in Ep;
  destruct (sparse st b) as [[st0 b0] r0] eqn:Es; destruct r0; inversion Ep; subst; clear Ep.

Lemma mbap_none st b st' b' : wf b -> st_ok st -> mbap_parse st b = (st', b', Ok None) ->
  st_ok st' /\ buf_len b' < need st' /\
  (exists k, b' = consume k b /\ k <= buf_len b /\ cons_need st <= k + cons_need st') /\
  (forall fut F fi, length (b_pend b ++ fut) < F -> ref_from F st (b_pend b ++ fut) fi = ref_from F st' (b_pend b' ++ fut) fi).
Proof. intros Hwf Hst Ep. via_sparse Hwf Hst Ep st b. eapply parse_need; eassumption. Qed.
Lemma mbap_some st b st' b' f : wf b -> st_ok st -> mbap_parse st b = (st', b', Ok (Some f)) ->
  st' = Begin /\ (exists k, b' = consume k b /\ k <= buf_len b /\ cons_need st <= k) /\
  (forall fut F fi, length (b_pend b ++ fut) < F -> ref_from F st (b_pend b ++ fut) fi = consf f (ref F (b_pend b' ++ fut) fi)).
Proof. intros Hwf Hst Ep. via_sparse Hwf Hst Ep st b. eapply parse_got; eassumption. Qed.
Lemma mbap_err st b st' b' e : wf b -> st_ok st -> mbap_parse st b = (st', b', Err e) ->
  (exists k, b' = consume k b /\ k <= buf_len b /\ cons_need st <= k) /\
  (forall fut F fi, 0 < F -> ref_from F st (b_pend b ++ fut) fi = ([], EndBad e)).
Proof. intros Hwf Hst Ep. via_sparse Hwf Hst Ep st b. eapply parse_bad; eassumption. Qed.
Lemma mbap_err' st b st' b' e : wf b -> st_ok st -> mbap_parse st b = (st', b', Err e) ->
  (exists k, b' = consume k b /\ k <= buf_len b /\ cons_need st <= k) /\
  (forall fut F fi, length (b_pend b ++ fut) < F -> ref_from F st (b_pend b ++ fut) fi = ([], EndBad e)).
Proof. intros Hwf Hst Ep. destruct (mbap_err _ _ _ _ _ Hwf Hst Ep) as (Hk & Hr). split; [exact Hk|]. intros fut F fi HF. apply Hr. lia. Qed.
Lemma mbap_panic st b st' b' : wf b -> st_ok st -> mbap_parse st b <> (st', b', Panic).
Proof. intros Hwf Hst Ep. pose proof (mbap_parse_no_panic st b Hwf Hst) as H. rewrite Ep in H. now apply H. Qed.
Lemma mbap_need_cap st : st_ok st -> need st <= cap.
Proof. destruct st; cbn; unfold cap, buffer_capacity; lia. Qed.

Lemma all_true (n : net) : Forall (fun _ : list N => True) n.
Proof. induction n; constructor; auto. Qed.
Definition mbap_nf_ref fuel st b n fi F Hwf := nf_ref pstate PTcp mbap_parse Begin st_ok need cons_need ref ref_from
  (fun _ => True) I (fun _ _ _ _ => I) (fun _ _ _ => I) (fun _ _ _ => I)
  H_mk (fun _ => eq_refl) I (fun _ _ _ => eq_refl) ltac:(cbn; lia) mbap_need_cap stuck_eof
  (fun st b st' b' Hwf _ => mbap_none st b st' b' Hwf) (fun st b st' b' f Hwf _ => mbap_some st b st' b' f Hwf)
  (fun st b st' b' e Hwf _ => mbap_err' st b st' b' e Hwf) (fun st b st' b' Hwf _ => mbap_panic st b st' b' Hwf) fuel st b n fi F Hwf I (all_true n).
Definition mbap_run_ref fuel b n fi F Hwf := run_ref pstate PTcp mbap_parse Begin st_ok need cons_need ref ref_from
  (fun _ => True) I (fun _ _ _ _ => I) (fun _ _ _ => I) (fun _ _ _ => I)
  H_mk (fun _ => eq_refl) I (fun _ _ _ => eq_refl) ltac:(cbn; lia) mbap_need_cap stuck_eof
  (fun st b st' b' Hwf _ => mbap_none st b st' b' Hwf) (fun st b st' b' f Hwf _ => mbap_some st b st' b' f Hwf)
  (fun st b st' b' e Hwf _ => mbap_err' st b st' b' e Hwf) (fun st b st' b' Hwf _ => mbap_panic st b st' b' Hwf) fuel b n fi F Hwf I (all_true n).
Definition mbap_session_ref n fi F := session_ref pstate PTcp mbap_parse Begin st_ok need cons_need ref ref_from
  (fun _ => True) I (fun _ _ _ _ => I) (fun _ _ _ => I) (fun _ _ _ => I)
  H_mk (fun _ => eq_refl) I (fun _ _ _ => eq_refl) ltac:(cbn; lia) mbap_need_cap stuck_eof
  (fun st b st' b' Hwf _ => mbap_none st b st' b' Hwf) (fun st b st' b' f Hwf _ => mbap_some st b st' b' f Hwf)
  (fun st b st' b' e Hwf _ => mbap_err' st b st' b' e Hwf) (fun st b st' b' Hwf _ => mbap_panic st b st' b' Hwf) n fi F (all_true n).
Definition mbap_run_total fuel resume b n fi Hwf := run_total pstate PTcp mbap_parse Begin st_ok need cons_need ref ref_from
  (fun _ => True) I (fun _ _ _ _ => I) (fun _ _ _ => I) (fun _ _ _ => I)
  H_mk (fun _ => eq_refl) I (fun _ _ _ => eq_refl) ltac:(cbn; lia) mbap_need_cap stuck_eof
  (fun st b st' b' Hwf _ => mbap_none st b st' b' Hwf) (fun st b st' b' f Hwf _ => mbap_some st b st' b' f Hwf)
  (fun st b st' b' e Hwf _ => mbap_err' st b st' b' e Hwf) (fun st b st' b' Hwf _ => mbap_panic st b st' b' Hwf) fuel resume b n fi Hwf I (all_true n).
Definition mbap_nf_no_panic fuel st b n fi Hwf := nf_no_panic pstate PTcp mbap_parse Begin st_ok need cons_need ref ref_from
  (fun _ => True) I (fun _ _ _ _ => I) (fun _ _ _ => I) (fun _ _ _ => I)
  H_mk (fun _ => eq_refl) I (fun _ _ _ => eq_refl) ltac:(cbn; lia) mbap_need_cap stuck_eof
  (fun st b st' b' Hwf _ => mbap_none st b st' b' Hwf) (fun st b st' b' f Hwf _ => mbap_some st b st' b' f Hwf)
  (fun st b st' b' e Hwf _ => mbap_err' st b st' b' e Hwf) (fun st b st' b' Hwf _ => mbap_panic st b st' b' Hwf) fuel st b n fi Hwf I (all_true n).
End Inst.

(* ---------------------------------------------------------------- the Spec over s1 ++ s2 *)
Lemma ref_tail_unfold F s : ref_tail (S F) s =
  if Nat.ltb (length s) 7 then s
  else match hdr (firstn 7 s) with
       | inr _ => s
       | inl (tx, u, n) => if Nat.ltb (length (skipn 7 s)) n then s else ref_tail F (skipn n (skipn 7 s))
       end.
Proof.
  destruct s as [|t1 [|t0 [|p1 [|p0 [|l1 [|l0 [|u s]]]]]]]; try reflexivity.
  cbn [ref_tail length firstn skipn hdr]. destruct (Nat.ltb_spec (S (S (S (S (S (S (S (length s))))))) ) 7); [lia|].
  unfold be, mbap_max_length_field. destruct (negb _); [reflexivity|]. destruct (Nat.ltb 254 _); [reflexivity|].
  destruct (N.to_nat (l1 * 256 + l0)) as [|n]; [reflexivity|]. cbn [Nat.eqb]. replace (S n - 1) with n by lia. reflexivity.
Qed.

Lemma ref_tail_len : forall F s, length (ref_tail F s) <= length s.
Proof.
  induction F as [|F IH]; intros s; [cbn; lia|]. rewrite ref_tail_unfold.
  destruct (Nat.ltb _ 7); [lia|]. destruct (hdr _) as [[[tx u] n]|e]; [|lia].
  destruct (Nat.ltb _ n); [lia|]. etransitivity; [apply IH|]. rewrite !skipn_length. lia.
Qed.
Lemma ref_tail_fuel : forall f1 f2 s, length s < f1 -> length s < f2 -> ref_tail f1 s = ref_tail f2 s.
Proof.
  induction f1 as [|f1 IH]; intros f2 s H1 H2; [lia|]. destruct f2 as [|f2]; [lia|]. rewrite !ref_tail_unfold.
  destruct (Nat.ltb_spec (length s) 7); [reflexivity|]. destruct (hdr _) as [[[tx u] n]|e]; [|reflexivity].
  destruct (Nat.ltb _ n); [reflexivity|]. apply IH; rewrite !skipn_length; lia.
Qed.

(* ref over s1 ++ s2, in terms of ref over s1 alone (as if the stream paused there) *)
Lemma ref_app_fuel : forall F s1 s2 fi, length (s1 ++ s2) < F ->
  ref F (s1 ++ s2) fi =
  match ref F s1 FinPending with
  | (fs1, EndPending) => (fs1 ++ fst (ref F (ref_tail F s1 ++ s2) fi), snd (ref F (ref_tail F s1 ++ s2) fi))
  | x => x
  end.
Proof.
  induction F as [|F IH]; intros s1 s2 fi HF; [lia|]. rewrite (ref_unfold F s1), ref_tail_unfold.
  assert (Htriv : (let x := ref (S F) (s1 ++ s2) fi in x = ([] ++ fst x, snd x))) by (cbv zeta; now destruct (ref (S F) (s1 ++ s2) fi)).
  cbv zeta in Htriv.
  destruct (Nat.ltb_spec (length s1) 7) as [|H7]; [exact Htriv|].
  destruct (hdr (firstn 7 s1)) as [[[tx u] n]|e] eqn:Eh.
  - cbn [ref_from]. destruct (Nat.ltb_spec (length (skipn 7 s1)) n) as [|Hn]; [exact Htriv|].
    rewrite app_length in HF. rewrite (ref_unfold F (s1 ++ s2)). rewrite app_length.
    destruct (Nat.ltb_spec (length s1 + length s2) 7); [lia|]. rewrite firstn_app_le by lia. rewrite Eh. cbn [ref_from].
    rewrite skipn_app_le by lia. rewrite app_length. destruct (Nat.ltb_spec (length (skipn 7 s1) + length s2) n); [lia|].
    rewrite skipn_app_le, firstn_app_le by lia.
    rewrite IH by (rewrite app_length, !skipn_length; lia).
    rewrite (ref_fuel (S F) F (ref_tail F (skipn n (skipn 7 s1)) ++ s2)).
    + destruct (ref F (skipn n (skipn 7 s1)) FinPending) as [fs1 e1]. cbn [consf]. destruct e1; reflexivity.
    + pose proof (ref_tail_len F (skipn n (skipn 7 s1))). rewrite app_length, !skipn_length in *. lia.
    + pose proof (ref_tail_len F (skipn n (skipn 7 s1))). rewrite app_length, !skipn_length in *. lia.
  - rewrite app_length in HF. rewrite (ref_unfold F (s1 ++ s2)), app_length.
    destruct (Nat.ltb_spec (length s1 + length s2) 7); [lia|]. rewrite firstn_app_le by lia. now rewrite Eh.
Qed.

Lemma mbap_ref_app F s1 s2 fi : length (s1 ++ s2) < F ->
  ref F (s1 ++ s2) fi =
  match ref F s1 FinPending with
  | (fs1, EndPending) => (fs1 ++ fst (ref F (mbap_tail s1 ++ s2) fi), snd (ref F (mbap_tail s1 ++ s2) fi))
  | x => x
  end.
Proof.
  intros HF. unfold mbap_tail. rewrite (ref_tail_fuel (S (length s1)) F s1) by (rewrite app_length in HF; lia). now apply ref_app_fuel.
Qed.
Lemma mbap_tail_len s : length (mbap_tail s) <= length s.
Proof. apply ref_tail_len. Qed.

(* a waiting parser asked again with the same pending bytes says "need more" again *)
Lemma mbap_stable st b : wf b -> st_ok st -> buf_len b < need st -> mbap_parse st b = (st, b, Ok None).
Proof.
  intros Hwf Hst Hlt. rewrite mbap_parse_eq by assumption. destruct st as [|tx u n]; cbn [sparse need] in *.
  - destruct (Nat.ltb_spec (buf_len b) 7); [reflexivity|lia].
  - unfold sbody. destruct (Nat.ltb_spec (buf_len b) n); [reflexivity|lia].
Qed.

(* ---------------------------------------------------------------- compositionality / cancel-safety: instances *)
Lemma mbap_H_mk : forall st b, parser_parse (PTcp st) b = let '(st', b', r) := mbap_parse st b in (PTcp st', b', r).
Proof. reflexivity. Qed.
Definition mbap_args_stable := fun st b Hwf (_ : True) => mbap_stable st b Hwf.

Definition mbap_nf_fuel_indep f1 f2 st b n fi Hwf := nf_fuel_indep pstate PTcp mbap_parse Begin st_ok need cons_need ref ref_from
  (fun _ => True) I (fun _ _ _ _ => I) (fun _ _ _ => I) (fun _ _ _ => I)
  mbap_H_mk (fun _ => eq_refl) I (fun _ _ _ => eq_refl) ltac:(cbn; lia) mbap_need_cap stuck_eof
  (fun st b st' b' Hwf _ => mbap_none st b st' b' Hwf) (fun st b st' b' f Hwf _ => mbap_some st b st' b' f Hwf)
  (fun st b st' b' e Hwf _ => mbap_err' st b st' b' e Hwf) (fun st b st' b' Hwf _ => mbap_panic st b st' b' Hwf) mbap_args_stable f1 f2 st b n fi Hwf I (all_true n).
Definition mbap_nf_app fuel st b n1 n2 fi F2 Hwf := nf_app pstate PTcp mbap_parse Begin st_ok need cons_need ref ref_from
  (fun _ => True) I (fun _ _ _ _ => I) (fun _ _ _ => I) (fun _ _ _ => I)
  mbap_H_mk (fun _ => eq_refl) I (fun _ _ _ => eq_refl) ltac:(cbn; lia) mbap_need_cap stuck_eof
  (fun st b st' b' Hwf _ => mbap_none st b st' b' Hwf) (fun st b st' b' f Hwf _ => mbap_some st b st' b' f Hwf)
  (fun st b st' b' e Hwf _ => mbap_err' st b st' b' e Hwf) (fun st b st' b' Hwf _ => mbap_panic st b st' b' Hwf) mbap_args_stable fuel st b n1 n2 fi F2 Hwf I (all_true n1) (all_true n2).
Definition mbap_nf_cancel_safe st b n1 n2 fi r1 n1' F1 F2 F Hwf := nf_cancel_safe pstate PTcp mbap_parse Begin st_ok need cons_need ref ref_from
  (fun _ => True) I (fun _ _ _ _ => I) (fun _ _ _ => I) (fun _ _ _ => I)
  mbap_H_mk (fun _ => eq_refl) I (fun _ _ _ => eq_refl) ltac:(cbn; lia) mbap_need_cap stuck_eof
  (fun st b st' b' Hwf _ => mbap_none st b st' b' Hwf) (fun st b st' b' f Hwf _ => mbap_some st b st' b' f Hwf)
  (fun st b st' b' e Hwf _ => mbap_err' st b st' b' e Hwf) (fun st b st' b' Hwf _ => mbap_panic st b st' b' Hwf) mbap_args_stable st b n1 n2 fi r1 n1' F1 F2 F Hwf I (all_true n1) (all_true n2).
Definition mbap_run_st_fuel_indep G1 G2 st b n fi Hwf := run_st_fuel_indep pstate PTcp mbap_parse Begin st_ok need cons_need ref ref_from
  (fun _ => True) I (fun _ _ _ _ => I) (fun _ _ _ => I) (fun _ _ _ => I)
  mbap_H_mk (fun _ => eq_refl) I (fun _ _ _ => eq_refl) ltac:(cbn; lia) mbap_need_cap stuck_eof
  (fun st b st' b' Hwf _ => mbap_none st b st' b' Hwf) (fun st b st' b' f Hwf _ => mbap_some st b st' b' f Hwf)
  (fun st b st' b' e Hwf _ => mbap_err' st b st' b' e Hwf) (fun st b st' b' Hwf _ => mbap_panic st b st' b' Hwf) mbap_args_stable G1 G2 st b n fi Hwf I (all_true n).
Definition mbap_run_st_app G1 st b n1 n2 fi G2 G Hwf := run_st_app pstate PTcp mbap_parse Begin st_ok need cons_need ref ref_from
  (fun _ => True) I (fun _ _ _ _ => I) (fun _ _ _ => I) (fun _ _ _ => I)
  mbap_H_mk (fun _ => eq_refl) I (fun _ _ _ => eq_refl) ltac:(cbn; lia) mbap_need_cap stuck_eof
  (fun st b st' b' Hwf _ => mbap_none st b st' b' Hwf) (fun st b st' b' f Hwf _ => mbap_some st b st' b' f Hwf)
  (fun st b st' b' e Hwf _ => mbap_err' st b st' b' e Hwf) (fun st b st' b' Hwf _ => mbap_panic st b st' b' Hwf) mbap_args_stable G1 st b n1 n2 fi G2 G Hwf I (all_true n1) (all_true n2).
Definition mbap_run_ref_from G st b n fi F Hwf := run_ref_from pstate PTcp mbap_parse Begin st_ok need cons_need ref ref_from
  (fun _ => True) I (fun _ _ _ _ => I) (fun _ _ _ => I) (fun _ _ _ => I)
  mbap_H_mk (fun _ => eq_refl) I (fun _ _ _ => eq_refl) ltac:(cbn; lia) mbap_need_cap stuck_eof
  (fun st b st' b' Hwf _ => mbap_none st b st' b' Hwf) (fun st b st' b' f Hwf _ => mbap_some st b st' b' f Hwf)
  (fun st b st' b' e Hwf _ => mbap_err' st b st' b' e Hwf) (fun st b st' b' Hwf _ => mbap_panic st b st' b' Hwf) mbap_args_stable G st b n fi F Hwf I (all_true n).
Definition mbap_run_st_pending G st b n r1 l1 Hwf := run_st_pending pstate PTcp mbap_parse Begin st_ok need cons_need ref ref_from
  (fun _ => True) I (fun _ _ _ _ => I) (fun _ _ _ => I) (fun _ _ _ => I)
  mbap_H_mk (fun _ => eq_refl) I (fun _ _ _ => eq_refl) ltac:(cbn; lia) mbap_need_cap stuck_eof
  (fun st b st' b' Hwf _ => mbap_none st b st' b' Hwf) (fun st b st' b' f Hwf _ => mbap_some st b st' b' f Hwf)
  (fun st b st' b' e Hwf _ => mbap_err' st b st' b' e Hwf) (fun st b st' b' Hwf _ => mbap_panic st b st' b' Hwf) mbap_args_stable G st b n r1 l1 Hwf I (all_true n).
Definition mbap_waiting := waiting pstate PTcp st_ok need (fun _ => True).
Definition mbap_represents := represents pstate PTcp st_ok ref ref_from (fun _ => True).
Definition mbap_represents_fresh := represents_fresh pstate PTcp mbap_parse Begin st_ok need cons_need ref ref_from
  (fun _ => True) I (fun _ _ _ _ => I) (fun _ _ _ => I) (fun _ _ _ => I)
  mbap_H_mk (fun _ => eq_refl) I (fun _ _ _ => eq_refl) ltac:(cbn; lia) mbap_need_cap stuck_eof
  (fun st b st' b' Hwf _ => mbap_none st b st' b' Hwf) (fun st b st' b' f Hwf _ => mbap_some st b st' b' f Hwf)
  (fun st b st' b' e Hwf _ => mbap_err' st b st' b' e Hwf) (fun st b st' b' Hwf _ => mbap_panic st b st' b' Hwf) mbap_args_stable mbap_tail ref_fuel mbap_ref_app mbap_tail_len.
Definition mbap_run_represents r t n fi G F Hrep := run_represents pstate PTcp mbap_parse Begin st_ok need cons_need ref ref_from
  (fun _ => True) I (fun _ _ _ _ => I) (fun _ _ _ => I) (fun _ _ _ => I)
  mbap_H_mk (fun _ => eq_refl) I (fun _ _ _ => eq_refl) ltac:(cbn; lia) mbap_need_cap stuck_eof
  (fun st b st' b' Hwf _ => mbap_none st b st' b' Hwf) (fun st b st' b' f Hwf _ => mbap_some st b st' b' f Hwf)
  (fun st b st' b' e Hwf _ => mbap_err' st b st' b' e Hwf) (fun st b st' b' Hwf _ => mbap_panic st b st' b' Hwf) mbap_args_stable mbap_tail ref_fuel mbap_ref_app mbap_tail_len r t n fi G F Hrep (all_true n).
Definition mbap_represents_step r t n G r1 l1 Hrep := represents_step pstate PTcp mbap_parse Begin st_ok need cons_need ref ref_from
  (fun _ => True) I (fun _ _ _ _ => I) (fun _ _ _ => I) (fun _ _ _ => I)
  mbap_H_mk (fun _ => eq_refl) I (fun _ _ _ => eq_refl) ltac:(cbn; lia) mbap_need_cap stuck_eof
  (fun st b st' b' Hwf _ => mbap_none st b st' b' Hwf) (fun st b st' b' f Hwf _ => mbap_some st b st' b' f Hwf)
  (fun st b st' b' e Hwf _ => mbap_err' st b st' b' e Hwf) (fun st b st' b' Hwf _ => mbap_panic st b st' b' Hwf) mbap_args_stable mbap_tail ref_fuel mbap_ref_app mbap_tail_len r t n G r1 l1 Hrep (all_true n).
Definition mbap_run_cancel_eq n st b fi G Hwf := run_cancel_eq pstate PTcp mbap_parse Begin st_ok need cons_need ref ref_from
  (fun _ => True) I (fun _ _ _ _ => I) (fun _ _ _ => I) (fun _ _ _ => I)
  mbap_H_mk (fun _ => eq_refl) I (fun _ _ _ => eq_refl) ltac:(cbn; lia) mbap_need_cap stuck_eof
  (fun st b st' b' Hwf _ => mbap_none st b st' b' Hwf) (fun st b st' b' f Hwf _ => mbap_some st b st' b' f Hwf)
  (fun st b st' b' e Hwf _ => mbap_err' st b st' b' e Hwf) (fun st b st' b' Hwf _ => mbap_panic st b st' b' Hwf) mbap_args_stable n st b fi G Hwf I (all_true n).
