(* Composition on the client side: reader refinement (C05) + reply decoding (C04) + the client
   task's frame handling (C11 / C12 / C10) = the client as a whole equals the reference of
   Spec/SystemClientSpec.v.  The layers are used through their theorems, not re-proved. *)
From Coq Require Import NArith List Bool Arith Lia.
From Rodbus Require Import Base.Outcome Gen.SessionErrors Gen.ClientTables.
From Rodbus Require Base.Frame Base.ClientTypes Model.Reader Model.ClientRequest Model.ClientTask Model.Format
  Spec.Framing Spec.ClientCodecSpec Spec.ClientSpec Spec.SystemClientSpec Model.SystemClient
  Proofs.MbapProofs Proofs.C05Proofs Proofs.ClientReplyProofs Proofs.ClientCodecProofs Proofs.ClientBase Proofs.C10Proofs Proofs.C11Proofs Proofs.C12Proofs.
Import ListNotations.
Module F := Rodbus.Base.Frame.
Module CT := Rodbus.Base.ClientTypes.
Module CR := Rodbus.Model.ClientRequest.
Module CS := Rodbus.Spec.ClientCodecSpec.
Module T := Rodbus.Model.ClientTask.
Module SS := Rodbus.Spec.SystemClientSpec.
Import SystemClient.
Local Open Scope N_scope.

(* ---------- layer 1 (framing): frames cut by the MBAP rule carry a transaction id ---------- *)
Lemma ref_tx_some : forall fuel s fi, Forall (fun f => F.f_tx f <> None) (fst (Framing.ref fuel s fi)).
Proof.
  induction fuel as [|fuel IH]; intros s fi; [constructor|]. cbn [Framing.ref].
  destruct s as [|t1 [|t0 [|p1 [|p0 [|l1 [|l0 [|u body]]]]]]]; try constructor.
  destruct (negb _); [constructor|]. destruct (Nat.ltb 254 _); [constructor|].
  destruct (Nat.eqb _ 0); [constructor|]. destruct (Nat.ltb (length body) _); [constructor|].
  specialize (IH (skipn (N.to_nat (Framing.be l1 l0) - 1) body) fi).
  destruct (Framing.ref fuel _ fi) as [fs e]. cbn [fst] in *. constructor; [cbn; discriminate|exact IH].
Qed.

Lemma frames_of_map fs : Reader.frames_of (map F.IFrame fs) = fs.
Proof. induction fs as [|f fs IH]; [reflexivity|]. cbn. unfold Reader.frames_of in IH. now rewrite IH. Qed.

(* ---------- layer 2 (reply decoding): handle_response means what the Spec says ---------- *)
Lemma ref_exception_inv r pdu c : CS.ref_exception r pdu = Some c -> pdu = [CS.reply_fc r + 128; c].
Proof.
  unfold CS.ref_exception. destruct pdu as [|f [|code [|x rest]]]; try discriminate.
  destruct (N.eqb_spec f (CS.reply_fc r + 128)); [|discriminate]. intros E. inversion E. subst. reflexivity.
Qed.

Lemma reply_verdict r pdu : CT.request_wf r ->
  verdict_of_hresult (CR.handle_response r pdu) = SS.ref_reply_verdict r pdu.
Proof.
  intros Hwf. unfold SS.ref_reply_verdict. destruct (CR.handle_response r pdu) as [v|e|] eqn:E.
  - apply (ClientReplyProofs.ok_iff r pdu v Hwf) in E. rewrite E. reflexivity.
  - assert (Hn : CS.ref_reply r pdu = None).
    { destruct (CS.ref_reply r pdu) as [v|] eqn:Er; [|reflexivity]. apply (ClientReplyProofs.ok_iff r pdu v Hwf) in Er. congruence. }
    rewrite Hn. destruct e; cbn [verdict_of_hresult];
    try (destruct (CS.ref_exception r pdu) as [c|] eqn:Ex; [|reflexivity];
         apply ref_exception_inv in Ex; subst pdu; rewrite ClientReplyProofs.exception_reply in E; discriminate).
    destruct (ClientReplyProofs.exception_only r pdu ex Hwf E) as (c & Hc & ->). rewrite Hc, ClientReplyProofs.excode_roundtrip. reflexivity.
  - exfalso. exact (ClientReplyProofs.response_total r pdu Hwf E).
Qed.

(* the class the task model reports for a handle_response result *)
Definition class_of_hresult (hr : hresult) : T.result :=
  match hr with
  | Ok _ => T.ROk
  | Err (CR.EException _) => T.RErr ReException
  | Err _ => T.RErr ReBadResponse
  | Panic => T.RErr drop_error
  end.
Lemma kind_class hr k : kind_of hr = Some k -> T.respond k = class_of_hresult hr.
Proof. destruct hr as [v|e|]; [|destruct e|]; cbn; intros E; inversion E; try reflexivity. Qed.
Lemma class_verdict hr : hr <> Panic -> task_class (verdict_of_hresult hr) = Some (class_of_hresult hr).
Proof. destruct hr as [v|e|]; [|destruct e|]; cbn; try reflexivity; intros H; congruence. Qed.

(* ---------- layer 3 (the task): frames while a request is in flight ---------- *)
Section Sys.
Variable cfg : T.config.
Variable reqs : content.

Lemma finish_head s r res : exists o', snd (T.finish s r res) = T.OComplete (T.rq_id r) res :: o'.
Proof.
  unfold T.finish. destruct res as [|e]; [eexists; reflexivity|].
  destruct (from_request_err e); [destruct (T.end_session _ _); eexists; reflexivity|].
  destruct (T.request_error_beq e counted_error); [|eexists; reflexivity].
  destruct (T.tc_increment _) as [t' stop]. destruct stop; [destruct (T.end_session _ _)|]; eexists; reflexivity.
Qed.

Variables (st : T.state) (r : T.request) (t d : N).
Hypothesis Hph : T.ph st = T.PInFlight r t d.
Hypothesis Hpartial : T.partial st = None.
Notation mr := (reqs (T.rq_id r)).
Hypothesis Hwf : CT.request_wf mr.

Lemma deliver_inflight : forall fs, Forall (fun f => F.f_tx f <> None) fs ->
  match find (SS.tx_is t) fs with
  | None => deliver cfg reqs st fs = (st, [], [])
  | Some f =>
      exists s' o' d',
        deliver cfg reqs st fs =
        (s', T.OComplete (T.rq_id r) (class_of_hresult (CR.handle_response mr (F.f_pdu f))) :: o',
         (T.rq_id r, CR.handle_response mr (F.f_pdu f)) :: d')
  end.
Proof.
  induction fs as [|f fs IH]; intros Hall; [reflexivity|].
  inversion Hall as [|f' fs' Htx Hrest]; subst. specialize (IH Hrest).
  cbn [find deliver]. unfold SS.tx_is at 1. unfold frame_event. rewrite Hph.
  destruct (F.f_tx f) as [x|] eqn:Ex; [|congruence].
  destruct (N.eqb_spec x t) as [->|Hne].
  - (* the matching frame: handle_response decides *)
    destruct (kind_of (CR.handle_response mr (F.f_pdu f))) as [k|] eqn:Ek.
    + destruct (C12Proofs.frame_completes cfg st r t d k Hph Hpartial) as (o1 & Ho1 & _).
      destruct (T.step cfg st (T.EvFrame t k)) as [s1 o1']. cbn [snd] in Ho1. subst o1'.
      destruct (deliver cfg reqs s1 fs) as [[s2 o2] d2].
      rewrite (kind_class _ _ Ek). cbn [app]. eexists _, _, _. reflexivity.
    + exfalso. destruct (CR.handle_response mr (F.f_pdu f)) as [v|e|] eqn:E; [discriminate| destruct e; discriminate|].
      exact (ClientReplyProofs.response_total mr _ Hwf E).
  - (* another transaction id: skipped, nothing changes *)
    destruct (C11Proofs.c11_mismatch cfg st r t d x T.RpBad Hph Hne) as [Hm _]. rewrite (Hm Hpartial).
    destruct (find (SS.tx_is t) fs) as [g|].
    + destruct IH as (s' & o' & d' & IH). rewrite IH. cbn [app]. eexists _, _, _. reflexivity.
    + rewrite IH. reflexivity.
Qed.

(* next_frame's failure while the request is in flight *)
Lemma end_inflight e :
  first_completion (T.rq_id r) (snd (T.run cfg st (end_events e))) = task_class (SS.ref_end_verdict e).
Proof.
  assert (Hfin : forall res, first_completion (T.rq_id r) (snd (T.finish st r res)) = Some res).
  { intros res. destruct (finish_head st r res) as [o' ->]. cbn. rewrite Nat.eqb_refl. reflexivity. }
  destruct e as [fe|k| | |]; cbn [end_events SS.ref_end_verdict task_class].
  - cbn [T.run T.step]. rewrite Hph, Hpartial. cbn [T.reading]. unfold T.on_read_error. rewrite Hph.
    specialize (Hfin (T.RErr ReBadFrame)). destruct (T.finish st r (T.RErr ReBadFrame)) as [s' o]. cbn [snd] in *. rewrite app_nil_r. exact Hfin.
  - destruct k; cbn [T.run T.step]; rewrite Hph; cbn [T.reading]; unfold T.on_read_error; rewrite Hph;
    specialize (Hfin (T.RErr ReIo)); destruct (T.finish st r (T.RErr ReIo)) as [s' o]; cbn [snd] in *; rewrite app_nil_r; exact Hfin.
  - reflexivity.
  - cbn [T.run T.step]. rewrite Hph. unfold T.crash. rewrite Hph. cbn. rewrite Nat.eqb_refl. reflexivity.
  - cbn [T.run T.step]. rewrite Hph. unfold T.crash. rewrite Hph. cbn. rewrite Nat.eqb_refl. reflexivity.
Qed.

(* THE composition: for every byte stream and every cut into non-empty reads *)
Theorem client_system_ref s chunks fi :
  concat chunks = s -> Forall (fun c => c <> []) chunks ->
  verdict_for (T.rq_id r) (client_system cfg reqs st chunks fi) = SS.ref_client_result mr t s fi /\
  first_completion (T.rq_id r) (snd (fst (client_system cfg reqs st chunks fi))) = task_class (SS.ref_client_result mr t s fi).
Proof.
  intros Hc Hne. unfold client_system, SS.ref_client_result.
  rewrite (C05Proofs.tcp_chunking s chunks fi Hc Hne). cbv zeta. unfold C05Proofs.lift_frames. cbn [fst snd]. rewrite frames_of_map.
  pose proof (ref_tx_some (S (length s)) s fi) as Htx. unfold Framing.ref_frames.
  destruct (Framing.ref (S (length s)) s fi) as [fs e]. cbn [fst snd] in *.
  pose proof (deliver_inflight fs Htx) as D.
  destruct (find (SS.tx_is t) fs) as [f|].
  - destruct D as (s' & o' & d' & D). rewrite D. destruct (T.run cfg s' (end_events e)) as [s2 o2].
    cbn [verdict_for fst snd app find first_completion]. rewrite Nat.eqb_refl. split.
    + apply reply_verdict. exact Hwf.
    + rewrite <- (reply_verdict mr (F.f_pdu f) Hwf). symmetry. apply class_verdict.
      intros E. exact (ClientReplyProofs.response_total mr _ Hwf E).
  - rewrite D. pose proof (end_inflight e) as E. destruct (T.run cfg st (end_events e)) as [s2 o2]. cbn [snd fst app verdict_for find] in *.
    split; [|exact E]. rewrite E. destruct e as [fe|k| | |]; reflexivity.
Qed.


(* a framing error (or the end of the stream) before a matching frame ends the connection: the
   session-end notification is in the same run, the task is no longer connected to this stream *)
Theorem client_system_connection_ends s chunks fi :
  concat chunks = s -> Forall (fun c => c <> []) chunks ->
  (SS.ref_client_result mr t s fi = SS.VBadFrame -> In (T.OEnd SeBadFrame) (snd (fst (client_system cfg reqs st chunks fi)))) /\
  (SS.ref_client_result mr t s fi = SS.VIo -> In (T.OEnd SeIoError) (snd (fst (client_system cfg reqs st chunks fi)))).
Proof.
  intros Hc Hne. unfold client_system, SS.ref_client_result.
  rewrite (C05Proofs.tcp_chunking s chunks fi Hc Hne). cbv zeta. unfold C05Proofs.lift_frames. cbn [fst snd]. rewrite frames_of_map.
  pose proof (ref_tx_some (S (length s)) s fi) as Htx. unfold Framing.ref_frames.
  destruct (Framing.ref (S (length s)) s fi) as [fs e]. cbn [fst snd] in *.
  pose proof (deliver_inflight fs Htx) as D.
  destruct (find (SS.tx_is t) fs) as [f|].
  - (* decided by a frame: the verdict is a reply verdict *)
    unfold SS.ref_reply_verdict. destruct (CS.ref_reply mr (F.f_pdu f)); [split; discriminate|].
    destruct (CS.ref_exception mr (F.f_pdu f)); split; discriminate.
  - rewrite D.
    assert (Hend : forall e0 se, from_request_err e0 = Some se -> In (T.OEnd se) (snd (T.finish st r (T.RErr e0)))).
    { intros e0 se Hf. pose proof (C10Proofs.finish_completions st r (T.RErr e0)) as Fc. destruct (T.finish st r (T.RErr e0)) as [s' o].
      destruct Fc as [_ Fc]. exact (Fc e0 se eq_refl Hf). }
    destruct e as [fe|k| | |]; cbn [SS.ref_end_verdict end_events]; (split; [|]); try discriminate; intros _.
    + cbn [T.run T.step]. rewrite Hph, Hpartial. cbn [T.reading]. unfold T.on_read_error. rewrite Hph.
      specialize (Hend ReBadFrame SeBadFrame eq_refl). destruct (T.finish st r (T.RErr ReBadFrame)) as [s' o]. cbn [fst snd app] in *. rewrite app_nil_r. exact Hend.
    + destruct k; cbn [T.run T.step]; rewrite Hph; cbn [T.reading]; unfold T.on_read_error; rewrite Hph;
      specialize (Hend ReIo SeIoError eq_refl); destruct (T.finish st r (T.RErr ReIo)) as [s' o]; cbn [fst snd app] in *; rewrite app_nil_r; exact Hend.
Qed.

(* the outcome does not depend on how the network segments the stream *)
Corollary client_system_chunking_independent c1 c2 fi :
  concat c1 = concat c2 -> Forall (fun c => c <> []) c1 -> Forall (fun c => c <> []) c2 ->
  verdict_for (T.rq_id r) (client_system cfg reqs st c1 fi) = verdict_for (T.rq_id r) (client_system cfg reqs st c2 fi).
Proof.
  intros Hc H1 H2. rewrite (proj1 (client_system_ref (concat c1) c1 fi eq_refl H1)).
  rewrite (proj1 (client_system_ref (concat c1) c2 fi (eq_sym Hc) H2)). reflexivity.
Qed.

End Sys.

(* ---------- the Spec's reading, clause by clause ---------- *)
Definition first_with_tx (t : N) (s : list N) (fi : F.fin) : option F.frame := find (SS.tx_is t) (fst (Framing.ref_frames s fi)).

Lemma ref_ok_iff mr t s fi v : SS.ref_client_result mr t s fi = SS.VValue v <->
  exists f, first_with_tx t s fi = Some f /\ CS.ref_reply mr (F.f_pdu f) = Some v.
Proof.
  unfold SS.ref_client_result, first_with_tx. destruct (Framing.ref_frames s fi) as [fs e]. cbn [fst].
  destruct (find (SS.tx_is t) fs) as [f|].
  - unfold SS.ref_reply_verdict. split.
    + destruct (CS.ref_reply mr (F.f_pdu f)) as [v'|] eqn:E; [intros H; inversion H; subst; eauto|].
      destruct (CS.ref_exception mr (F.f_pdu f)); discriminate.
    + intros (g & Hg & Hr). inversion Hg; subst. rewrite Hr. reflexivity.
  - split; [destruct e; discriminate|intros (g & Hg & _); discriminate].
Qed.

Lemma ref_exception_iff mr t s fi c : SS.ref_client_result mr t s fi = SS.VException c <->
  exists f, first_with_tx t s fi = Some f /\ CS.ref_reply mr (F.f_pdu f) = None /\ CS.ref_exception mr (F.f_pdu f) = Some c.
Proof.
  unfold SS.ref_client_result, first_with_tx. destruct (Framing.ref_frames s fi) as [fs e]. cbn [fst].
  destruct (find (SS.tx_is t) fs) as [f|].
  - unfold SS.ref_reply_verdict. split.
    + destruct (CS.ref_reply mr (F.f_pdu f)) as [v'|] eqn:E; [discriminate|].
      destruct (CS.ref_exception mr (F.f_pdu f)) as [c'|] eqn:E2; [intros H; inversion H; subst; eauto|discriminate].
    + intros (g & Hg & Hr & Hx). inversion Hg; subst. rewrite Hr, Hx. reflexivity.
  - split; [destruct e; discriminate|intros (g & Hg & _); discriminate].
Qed.

Lemma ref_bad_frame_iff mr t s fi : SS.ref_client_result mr t s fi = SS.VBadFrame <->
  first_with_tx t s fi = None /\ exists e, snd (Framing.ref_frames s fi) = F.EndBad e.
Proof.
  unfold SS.ref_client_result, first_with_tx. destruct (Framing.ref_frames s fi) as [fs e]. cbn [fst snd].
  destruct (find (SS.tx_is t) fs) as [f|].
  - unfold SS.ref_reply_verdict. split; [|intros [H _]; discriminate].
    destruct (CS.ref_reply mr (F.f_pdu f)); [discriminate|]. destruct (CS.ref_exception mr (F.f_pdu f)); discriminate.
  - split.
    + destruct e; try discriminate. intros _. split; [reflexivity|eexists; reflexivity].
    + intros [_ [e' ->]]. reflexivity.
Qed.

(* frames with other transaction ids change nothing: a prefix of complete frames none of which
   carries the request's id can be removed from the stream *)
Lemma find_app_none {A} (p : A -> bool) l1 l2 : Forall (fun x => p x = false) l1 -> find p (l1 ++ l2) = find p l2.
Proof. induction 1 as [|x l1 Hx _ IH]; [reflexivity|]. cbn. rewrite Hx. exact IH. Qed.

Lemma other_tx_skipped mr t pre fs s fi :
  C05Proofs.framed pre fs -> Forall (fun f => SS.tx_is t f = false) fs ->
  SS.ref_client_result mr t (pre ++ s) fi = SS.ref_client_result mr t s fi.
Proof.
  intros Hfr Hno. unfold SS.ref_client_result, Framing.ref_frames.
  pose proof (C05Proofs.framed_len pre fs Hfr) as Hlen.
  rewrite (C05Proofs.ref_framed pre fs Hfr (S (length (pre ++ s))) s fi) by lia.
  rewrite (MbapProofs.ref_fuel (S (length (pre ++ s)) - length fs) (S (length s)) s fi) by (rewrite ?app_length; lia).
  unfold C05Proofs.prepend. destruct (Framing.ref (S (length s)) s fi) as [gs e]. cbn [fst snd].
  rewrite (find_app_none _ _ _ Hno). reflexivity.
Qed.

(* ---------- the encode direction: C11_txid o C03_exact ---------- *)
Definition stamp_pairs (o : list T.output) : list (N * nat) :=
  flat_map (fun x => match x with T.OStamp tx id => [(tx, id)] | _ => [] end) o.
Lemma stamps_of_pairs o : T.stamps o = map fst (stamp_pairs o).
Proof. unfold T.stamps, stamp_pairs. induction o as [|x o IH]; [reflexivity|]. cbn [flat_map]. rewrite map_app, IH. destruct x; reflexivity. Qed.

(* the k-th request taken from the queue while connected (k = 0, 1, ...) is stamped tx; whatever
   that request is (unit id, call with u16 arguments), if the encoder accepts it the bytes handed
   to the transport are the protocol encoding with transaction id k mod 65536 *)
Theorem encode_kth cfg mt hn rmin rmax es k tx id uid c bs :
  nth_error (stamp_pairs (snd (T.run cfg (T.init hn mt rmin rmax) es))) k = Some (tx, id) ->
  CT.call_wf c -> CR.client_submit Format.Tcp tx uid c = Ok bs ->
  bs = CS.ref_encode_tcp (N.of_nat k mod 65536) uid c /\ CS.within_limits c.
Proof.
  intros Hk Hwf Hs.
  assert (Ht : tx = ClientSpec.txid_spec (N.of_nat k)).
  { apply (C11Proofs.c11_txid cfg mt hn rmin rmax es k tx). rewrite stamps_of_pairs. rewrite (map_nth_error fst k _ Hk). reflexivity. }
  unfold ClientSpec.txid_spec in Ht. subst tx.
  exact (ClientCodecProofs.submit_exact Format.Tcp _ uid c bs Hwf Hs).
Qed.
