From Coq Require Import NArith List Bool.
From Rodbus Require Import Spec.Lifecycle Spec.TlsLifecycleSpec.
Import ListNotations.

Definition startable (c : cstate) : bool :=
  match c with LDisabled | LWaitFailed _ | LWaitDisc _ => true | _ => false end.

Lemma edge_to_connecting c : startable c = true -> edge c LConnecting = true.
Proof. destruct c; cbn; congruence. Qed.

Ltac inv_kinds :=
  repeat match goal with
  | H : map kind_of ?p = _ :: _ |- _ =>
      destruct p as [|? ?]; [discriminate H|]; cbn [map] in H;
      let H1 := fresh "K" in let H2 := fresh "M" in injection H as H1 H2
  | H : map kind_of ?p = [] |- _ => destruct p; [|discriminate H]; clear H
  | H : kind_of ?c = _ |- _ => destruct c; try discriminate H; clear H
  end.

Lemma expected_ok : forall l p last, startable last = true -> map kind_of p = expected l ->
  path last p = true /\ shutdown_last p = true.
Proof.
  induction l as [|a r IH]; intros p last Hs Hm; cbn [expected] in Hm.
  - inv_kinds. cbn. rewrite (edge_to_connecting _ Hs). split; reflexivity.
  - destruct a as [| |m|b]; [| |destruct m|].
    all: try (inv_kinds; cbn [path shutdown_last]; rewrite (edge_to_connecting _ Hs); cbn [edge andb];
              match goal with M : map kind_of ?q = expected _ |- _ =>
                match goal with |- context [path ?c q] => destruct (IH q c eq_refl M) as [P S]; rewrite P; split; [reflexivity|exact S] end end).
    inv_kinds. cbn. rewrite (edge_to_connecting _ Hs). split; reflexivity.
Qed.

Lemma expected_is_legal : forall l p, map kind_of p = expected_path l -> legal p = true /\ shutdown_last p = true.
Proof.
  intros l p H. unfold expected_path in H. inv_kinds. cbn [legal shutdown_last].
  match goal with M : map kind_of ?q = expected l |- _ => exact (expected_ok l q LDisabled eq_refl M) end.
Qed.

Lemma lkind_eqb_eq a b : lkind_eqb a b = true <-> a = b.
Proof. destruct a, b; cbn; split; intros H; try reflexivity; try discriminate H. Qed.

Lemma kinds_eqb_eq : forall a b, kinds_eqb a b = true <-> a = b.
Proof.
  induction a as [|x a IH]; destruct b as [|y b]; cbn; split; intros H; try reflexivity; try discriminate H.
  - apply andb_true_iff in H. destruct H as [H1 H2]. apply lkind_eqb_eq in H1. apply IH in H2. now subst.
  - injection H as -> ->. apply andb_true_iff. split; [now apply lkind_eqb_eq|now apply IH].
Qed.

Lemma judge_iff : forall l p, judge l p = true <-> map kind_of p = expected_path l.
Proof.
  intros l p. unfold judge. split.
  - intros H. apply andb_true_iff in H. destruct H as [_ H]. now apply kinds_eqb_eq.
  - intros H. destruct (expected_is_legal l p H) as [L S]. rewrite L, S. cbn. now apply kinds_eqb_eq.
Qed.

Lemma connected_count_aux : forall l, length (filter (lkind_eqb KConnected) (expected l)) = established_before_shutdown l.
Proof.
  induction l as [|a r IH]; [reflexivity|]. destruct a as [| |m|b]; [| |destruct m|]; cbn; try exact IH; try reflexivity.
  now rewrite IH.
Qed.

Lemma connected_count : forall l, length (filter (lkind_eqb KConnected) (expected_path l)) = established_before_shutdown l.
Proof. intros l. unfold expected_path. cbn. apply connected_count_aux. Qed.

Lemma shutdown_from_handshake_aux : forall pre r, exists q, expected (pre ++ AHandshakePending MShutdown :: r) = q ++ [KConnecting; KShutdown].
Proof.
  induction pre as [|a pre IH]; intros r.
  - exists []. reflexivity.
  - destruct (IH r) as [q E]. cbn [app expected]. destruct a as [| |m|b]; [| |destruct m|]; rewrite ?E.
    + now exists (KConnecting :: KWaitFailed :: q).
    + now exists (KConnecting :: KWaitFailed :: q).
    + now exists (KConnecting :: KWaitFailed :: q).
    + now exists (KConnecting :: KWaitFailed :: q).
    + now exists (KConnecting :: KDisabled :: q).
    + now exists [].
    + now exists (KConnecting :: KConnected :: KWaitDisc :: q).
Qed.

Lemma shutdown_from_handshake : forall pre r, exists q, expected_path (pre ++ AHandshakePending MShutdown :: r) = q ++ [KConnecting; KShutdown].
Proof.
  intros pre r. destruct (shutdown_from_handshake_aux pre r) as [q E]. exists (KDisabled :: q). unfold expected_path. now rewrite E.
Qed.
