(* Proofs for C13: the listener trace is a legal path; fail fast; no dial while disabled;
   termination; disable closes the connection. *)
From Coq Require Import NArith List Bool Arith Lia.
From Rodbus Require Import Model.Retry Spec.Lifecycle Spec.ClientSpec Gen.SessionErrors Model.ClientTask Proofs.ClientBase.
Import ListNotations.
Local Open Scope N_scope.

Local Arguments edge : simpl never.
Local Arguments listens_of o : simpl nomatch.
Definition is_wait (l : cstate) : bool := match l with LWaitFailed _ | LWaitDisc _ => true | _ => false end.
Definition final (last : cstate) (l : list cstate) : cstate := fold_left (fun _ x => x) l last.

Lemma path_app a l1 l2 : path a (l1 ++ l2) = path a l1 && path (final a l1) l2.
Proof. revert a; induction l1 as [|x l1 IH]; intros a; cbn; [reflexivity|]. rewrite IH, andb_assoc. reflexivity. Qed.
Lemma final_app a l1 l2 : final a (l1 ++ l2) = final (final a l1) l2.
Proof. unfold final. apply fold_left_app. Qed.

(* what the listener last heard, given where the task is *)
Definition consistent (s : state) (last : cstate) : Prop :=
  match ph s with
  | PWaitEnabled => last = LDisabled /\ enabled s = false
  | PConnecting => last = LConnecting /\ enabled s = true
  | PIdle | PWriting _ _ _ | PInFlight _ _ _ => last = LConnected /\ enabled s = true
  | PWaiting _ => is_wait last = true /\ enabled s = true
  | PDone => True
  end.

Definition dials (o : list output) : Prop := In ODial o.

Definition good (last : cstate) (r : state * list output) : Prop :=
  path last (listens_of (snd r)) = true /\
  consistent (fst r) (final last (listens_of (snd r))) /\
  (dials (snd r) -> ph (fst r) = PConnecting).

Lemma no_dial_drop q : ~ dials (drop_queue q).
Proof. intros H. apply in_drop_queue in H. destruct H as [i E]. discriminate. Qed.

Section L.
Variable cfg : config.

(* steps that neither move the phase, nor touch `enabled`, nor talk to the listener, nor dial *)
Lemma quiet_good s s' o last :
  ph s' = ph s -> enabled s' = enabled s -> listens_of o = [] -> ~ dials o -> consistent s last -> good last (s', o).
Proof.
  intros Hp He Hl Hd Hc. unfold good, consistent in *. cbn [fst snd]. rewrite Hl, Hp, He. cbn. split; [reflexivity|]. split; [exact Hc|]. intros H. contradiction.
Qed.

Lemma crash_good s last : good last (crash s).
Proof.
  unfold good, crash. cbn [fst snd].
  assert (Hl : forall l, listens_of (map (fun r => OComplete (rq_id r) (RErr drop_error)) l) = [])
    by (induction l as [|x l IH]; [reflexivity|]; cbn [map]; rewrite listens_cons, IH; reflexivity).
  rewrite listens_app, Hl, listens_drop. cbn. split; [reflexivity|]. split; [exact I|]. intros H. apply in_app_or in H.
  destruct H as [H|H]; [apply in_map_iff in H; destruct H as (r & E & _); discriminate|exfalso; eapply no_dial_drop; exact H].
Qed.

Lemma terminate_good s pre last : last <> LShutdown -> listens_of pre = [] -> ~ dials pre -> good last (terminate s pre).
Proof.
  intros Ha Hp Hd. unfold good, terminate. cbn [fst snd]. rewrite !listens_app, listens_drop, Hp. cbn.
  split; [destruct last; try reflexivity; congruence|]. split; [exact I|]. intros H. apply in_app_or in H.
  destruct H as [H|[H|H]]; [contradiction|discriminate|exfalso; eapply no_dial_drop; exact H].
Qed.

Lemma start_connecting_good s last : (last = LDisabled \/ is_wait last = true) -> enabled s = true -> good last (start_connecting s).
Proof.
  intros Hl He. unfold good, start_connecting, consistent. cbn. rewrite He.
  split; [destruct Hl as [->|Hw]; [reflexivity|destruct last; try discriminate; reflexivity]|]. auto.
Qed.

Lemma loop_top_good s last :
  (enabled s = true -> last = LDisabled \/ is_wait last = true) ->
  (enabled s = false -> last = LConnecting \/ last = LConnected \/ is_wait last = true) ->
  good last (loop_top s).
Proof.
  intros H1 H2. unfold loop_top. destruct (enabled s) eqn:He.
  - apply start_connecting_good; auto.
  - unfold good, consistent. cbn. rewrite He. split; [|split; [auto|intros [H|[]]; discriminate]].
    destruct (H2 eq_refl) as [->|[->|Hw]]; try reflexivity. destruct last; try discriminate; reflexivity.
Qed.

Lemma wait_for_good s l o pre last : enabled s = true -> listens_of pre = [] -> ~ dials pre ->
  (forall d, edge last (l d) = true /\ is_wait (l d) = true) -> good last (wait_for s l o pre).
Proof.
  intros He Hp Hd Hl. unfold wait_for. destruct (retry_call s o) as [[s1 d]|] eqn:Er.
  - apply retry_call_frame in Er. destruct Er as (_ & _ & _ & _ & _ & He1 & _).
    unfold good, consistent. cbn [fst snd ph set_ph enabled]. rewrite listens_app, Hp. cbn. destruct (Hl d) as [E W]. rewrite E, W, He1, He.
    split; [reflexivity|]. split; [auto|]. intros H. apply in_app_or in H. destruct H as [H|[H|[]]]; [contradiction|discriminate].
  - pose proof (crash_good s last) as C. destruct (crash s) as [s' out]. unfold good in *. cbn [fst snd] in *.
    rewrite listens_app, Hp. cbn [app]. destruct C as (C1 & C2 & C3). split; [exact C1|]. split; [exact C2|].
    intros H. apply in_app_or in H. destruct H as [H|H]; [contradiction|auto].
Qed.

Lemma end_session_good s e : ph s = PIdle ->
  (e = SeDisabled -> enabled s = false) -> (e <> SeDisabled -> enabled s = true) ->
  good LConnected (end_session s e).
Proof.
  intros Hp H1 H2. unfold end_session.
  assert (Hw : forall se, se <> SeDisabled -> enabled s = true -> good LConnected (wait_for s LWaitDisc Disc [OEnd se])).
  { intros se _ He. apply wait_for_good; [exact He|reflexivity|intros [H|[]]; discriminate|intros d; split; reflexivity]. }
  destruct e.
  - apply Hw; [discriminate|apply H2; discriminate].
  - apply Hw; [discriminate|apply H2; discriminate].
  - pose proof (loop_top_good s LConnected) as G. destruct (loop_top s) as [s' o]. unfold good in *. cbn [fst snd] in *.
    rewrite listens_cons. cbn [app]. destruct G as (G1 & G2 & G3); [rewrite H1 by reflexivity; discriminate|auto|].
    split; [exact G1|]. split; [exact G2|]. intros [H|H]; [discriminate|auto].
  - apply Hw; [discriminate|apply H2; discriminate].
  - apply terminate_good; [discriminate|reflexivity|intros [H|[]]; discriminate].
Qed.

Lemma good_cons_silent last s' o x : listens_of [x] = [] -> x <> ODial -> good last (s', o) -> good last (s', x :: o).
Proof.
  intros Hx Hd (G1 & G2 & G3). unfold good in *. cbn [fst snd] in *.
  change (x :: o) with ([x] ++ o). rewrite listens_app, Hx. cbn [app]. split; [exact G1|]. split; [exact G2|].
  intros [H|H]; [congruence|auto].
Qed.

Lemma finish_good s r res : enabled s = true -> good LConnected (finish s r res).
Proof.
  intros He. unfold finish.
  assert (Halive : forall t, good LConnected (set_tc (set_ph s PIdle) t, [OComplete (rq_id r) res])).
  { intros t. unfold good, consistent. cbn. rewrite He. split; [reflexivity|]. split; [auto|]. intros [H|[]]. discriminate. }
  assert (Hend : forall s0 se, ph s0 = PIdle -> enabled s0 = true -> se <> SeDisabled ->
            good LConnected (let '(s', o) := end_session s0 se in (s', [OComplete (rq_id r) res] ++ o))).
  { intros s0 se Hp He0 Hn. pose proof (end_session_good s0 se Hp) as G. destruct (end_session s0 se) as [s' o].
    cbn [app]. apply good_cons_silent; [reflexivity|discriminate|]. apply G; [intros E; congruence|auto]. }
  destruct res as [|e]; [apply Halive|].
  destruct (from_request_err e) as [se|] eqn:Ef.
  - apply Hend; [reflexivity|exact He|]. destruct e; cbn in Ef; try discriminate; inversion Ef; discriminate.
  - destruct (request_error_beq e counted_error); [|apply Halive].
    destruct (tc_increment (tcount (set_ph s PIdle))) as [t' stop]. destruct stop; [|apply Halive].
    apply Hend; [reflexivity|exact He|discriminate].
Qed.

Lemma transmit_good s r : ph s = PIdle -> enabled s = true -> good LConnected (transmit s r).
Proof.
  intros Hp He. unfold transmit. destruct (txid_next (txid s)) as [v' tx].
  destruct (rq_kind r).
  - destruct (wfail (set_txid s v')).
    + pose proof (finish_good (set_wctl (set_txid s v') false 0) r (RErr ReIo) He) as G. destruct (finish _ r (RErr ReIo)) as [s' o].
      apply good_cons_silent; [reflexivity|discriminate|]. apply good_cons_silent; [reflexivity|discriminate|]. exact G.
    + destruct (write_now (set_txid s v')); unfold good, consistent; cbn; rewrite He; (split; [reflexivity|]); (split; [auto|]);
      intros H; repeat (destruct H as [H|H]; try discriminate); destruct H.
  - pose proof (finish_good (set_txid s v') r (RErr ReBadRequest) He) as G. destruct (finish _ r (RErr ReBadRequest)) as [s' o].
    apply good_cons_silent; [reflexivity|discriminate|]. exact G.
Qed.

Lemma consistent_alive s last : consistent s last -> ph s <> PDone -> last <> LShutdown.
Proof.
  unfold consistent. destruct (ph s); intros H Hn E; subst; try (destruct H as [H _]; discriminate); congruence.
Qed.

Lemma take_good s c last : consistent s last -> listens (ph s) = true -> good last (take s c).
Proof.
  intros Hc Hl. pose proof Hc as Hc0. unfold take. unfold consistent in Hc.
  assert (Hq : forall s' o, ph s' = ph s -> enabled s' = enabled s -> listens_of o = [] -> ~ dials o -> good last (s', o)).
  { intros s' o H1 H2 H3 H4. apply (quiet_good s); auto. }
  assert (Hnc : forall r, good last (s, [OComplete (rq_id r) (RErr not_connected_error)])).
  { intros r. apply Hq; auto. intros [H|[]]. discriminate. }
  assert (Hnil : good last (s, [])) by (apply Hq; auto; intros []).
  destruct (ph s) eqn:Eph; try discriminate.
  - (* PWaitEnabled *) destruct Hc as [-> He]. destruct c as [r| | |l|]; cbn [change_setting].
    + apply Hnc.
    + cbn [enabled set_enabled]. apply start_connecting_good; auto.
    + cbn [enabled set_enabled]. apply Hq; auto; intros [].
    + cbn [enabled set_decode]. rewrite He. apply Hq; auto; intros [].
    + apply terminate_good; [discriminate|reflexivity|intros []].
  - (* PConnecting *) destruct Hc as [-> He]. destruct c as [r| | |l|]; cbn [change_setting].
    + apply Hnc.
    + cbn [enabled set_enabled]. apply Hq; auto; intros [].
    + cbn [enabled set_enabled]. apply loop_top_good; cbn; [discriminate|auto].
    + cbn [enabled set_decode]. rewrite He. apply Hq; auto; intros [].
    + apply terminate_good; [discriminate|reflexivity|intros []].
  - (* PIdle *) destruct Hc as [-> He]. destruct c as [r| | |l|]; cbn [change_setting].
    + apply transmit_good; auto.
    + cbn [enabled set_enabled]. apply Hq; auto; intros [].
    + cbn [enabled set_enabled]. apply end_session_good; cbn; auto; congruence.
    + cbn [enabled set_decode]. rewrite He. apply Hq; auto; intros [].
    + apply end_session_good; auto; discriminate.
  - (* PWaiting *) destruct Hc as [Hw He]. destruct c as [r| | |l|]; cbn [change_setting].
    + apply Hnc.
    + cbn [enabled set_enabled]. apply Hq; auto; intros [].
    + cbn [enabled set_enabled]. apply loop_top_good; cbn; [discriminate|auto].
    + cbn [enabled set_decode]. rewrite He. apply Hq; auto; intros [].
    + apply terminate_good; [|reflexivity|intros []]. intros E. subst. discriminate.
Qed.


Lemma on_frame_good s tx k : consistent s LConnected -> ph s <> PDone -> connected (ph s) = true -> good LConnected (on_frame s tx k).
Proof.
  intros Hc Hn Hco. unfold on_frame. destruct (ph s) eqn:Eph; try (apply (quiet_good s); auto; intros []).
  destruct (tx =? tx0); [|apply (quiet_good s); auto; intros []].
  apply finish_good. unfold consistent in Hc. rewrite Eph in Hc. tauto.
Qed.

Lemma on_read_error_good s e : consistent s LConnected -> reading (ph s) = true -> good LConnected (on_read_error s e).
Proof.
  intros Hc Hr. pose proof Hc as Hc0. unfold on_read_error. unfold consistent in Hc. destruct (ph s) eqn:Eph; try discriminate.
  - destruct (from_request_err e) as [se|] eqn:Ef; [|apply (quiet_good s); auto; intros []].
    apply end_session_good; [exact Eph| |tauto]. intros ->. destruct e; cbn in Ef; discriminate.
  - apply finish_good. tauto.
Qed.

Lemma consistent_reading s last : consistent s last -> reading (ph s) = true -> last = LConnected.
Proof. unfold consistent. destruct (ph s); try discriminate; tauto. Qed.

Theorem step_good s e last : consistent s last -> ph s <> PDone -> good last (step cfg s e).
Proof.
  intros Hc Hnd. pose proof Hc as Hc0. unfold consistent in Hc.
  assert (Hq : forall s' o, ph s' = ph s -> enabled s' = enabled s -> listens_of o = [] -> ~ dials o -> good last (s', o)).
  { intros s' o H1 H2 H3 H4. apply (quiet_good s); auto. }
  assert (Hnil : good last (s, [])) by (apply Hq; auto; intros []).
  destruct e as [c st| | |ok|tx k|tx k| | | | | |dt| |dt| | |k| ]; cbn [step].
  - destruct (Nat.eqb (handles s) 0); [exact Hnil|].
    assert (Hdrop : good last (s, drop_queue [c])) by (apply Hq; auto; [apply listens_drop|apply no_dial_drop]).
    destruct (ph s) eqn:Eph; try congruence;
    (destruct (_ && _); [apply Hq; auto; intros []|]; destruct st; try exact Hdrop; apply Hq; auto; intros []).
  - apply Hq; auto; intros [].
  - destruct (listens (ph s)) eqn:El; [|exact Hnil].
    destruct (queue s) as [|c q] eqn:Eq.
    + destruct (closed s); [|exact Hnil]. pose proof (consistent_alive s last Hc0 Hnd) as Ha.
      destruct (ph s) eqn:Eph; try discriminate.
      1,2,4: (apply terminate_good; [exact Ha|reflexivity|intros []]).
      destruct Hc as [-> He]. apply end_session_good; auto; discriminate.
    + apply take_good; auto.
  - destruct (ph s) eqn:Eph; try exact Hnil. destruct Hc as [-> He]. destruct ok.
    + destruct (retry_call s Reset) as [[s1 d]|] eqn:Er; [|apply crash_good].
      apply retry_call_frame in Er. destruct Er as (_ & _ & _ & _ & _ & He1 & _).
      unfold good, consistent. cbn. rewrite He1, He. split; [reflexivity|]. split; [auto|]. intros [H|[]]. discriminate.
    + apply wait_for_good; [exact He|reflexivity|intros []|]. intros d. split; reflexivity.
  - destruct (reading (ph s)) eqn:Er; [|exact Hnil]. destruct (partial s); [exact Hnil|].
    rewrite (consistent_reading s last Hc0 Er) in *. apply on_frame_good; auto. destruct (ph s); try discriminate; reflexivity.
  - destruct (reading (ph s)) eqn:Er; [|exact Hnil]. destruct (partial s); [exact Hnil|]. apply Hq; auto; intros [].
  - destruct (reading (ph s)) eqn:Er; [|exact Hnil]. destruct (partial s) as [[tx k]|]; [|exact Hnil].
    rewrite (consistent_reading s last Hc0 Er) in *. apply on_frame_good; auto. cbn. destruct (ph s); try discriminate; reflexivity.
  - destruct (reading (ph s)) eqn:Er; [|exact Hnil]. destruct (partial s); [exact Hnil|].
    rewrite (consistent_reading s last Hc0 Er) in *. apply on_read_error_good; auto.
  - destruct (reading (ph s)) eqn:Er; [|exact Hnil]. rewrite (consistent_reading s last Hc0 Er) in *. apply on_read_error_good; auto.
  - destruct (reading (ph s)) eqn:Er; [|exact Hnil]. rewrite (consistent_reading s last Hc0 Er) in *. apply on_read_error_good; auto.
  - apply Hq; auto; intros [].
  - apply Hq; auto; intros [].
  - destruct (ph s) eqn:Eph; try exact Hnil.
    + destruct (Nat.eqb (wpark s) 0 && (fire cfg until <=? now s)).
      * destruct Hc as [-> He]. unfold good, consistent. cbn. rewrite He. split; [reflexivity|]. split; [auto|]. intros [H|[]]. discriminate.
      * destruct (fire cfg (wdl s) <=? now s); [|exact Hnil]. destruct Hc as [-> He]. apply finish_good. exact He.
    + destruct (fire cfg deadline <=? now s); [|exact Hnil]. destruct Hc as [-> He]. apply finish_good. exact He.
    + destruct (fire cfg until <=? now s); [|exact Hnil]. destruct Hc as [Hw He]. apply loop_top_good; [auto|congruence].
  - apply Hq; auto; intros [].
  - destruct (ph s) eqn:Eph; try congruence; apply crash_good.
  - apply Hq; auto; intros [].
  - exact Hnil.
  - destruct (wpark s) as [|n]; [exact Hnil|]. cbn [ph set_wpark].
    destruct (ph s) eqn:Eph; try (apply Hq; auto; intros []; fail).
    destruct (Nat.eqb n 0 && _); [|apply Hq; auto; intros []].
    destruct Hc as [-> He]. unfold good, consistent. cbn. rewrite He. split; [reflexivity|]. split; [auto|]. intros [H|[]]. discriminate.
Qed.

(* a terminated task stays terminated and tells the listener nothing more *)
Lemma done_silent s e : ph s = PDone -> ph (fst (step cfg s e)) = PDone /\ listens_of (snd (step cfg s e)) = [] /\ ~ dials (snd (step cfg s e)).
Proof.
  intros Hd. destruct e; cbn [step]; rewrite ?Hd; cbn [listens reading fst snd]; try (repeat split; auto; intros []; fail).
  - destruct (Nat.eqb (handles s) 0); cbn [fst snd]; [repeat split; auto; intros []|]. repeat split; [exact Hd|apply listens_drop|apply no_dial_drop].
  - destruct (wpark s) as [|n]; cbn [ph set_wpark fst snd]; rewrite ?Hd; cbn [fst snd]; repeat split; auto; intros [].
Qed.

(* lifted to runs *)
Theorem run_good : forall es s last, consistent s last -> ph s <> PDone ->
  let '(s', o) := run cfg s es in
  path last (listens_of o) = true /\ (ph s' <> PDone -> consistent s' (final last (listens_of o))).
Proof.
  assert (Hdone : forall es s, ph s = PDone -> let '(s', o) := run cfg s es in ph s' = PDone /\ listens_of o = []).
  { induction es as [|e es IH]; intros s Hd; cbn [run]; [auto|].
    destruct (done_silent s e Hd) as (H1 & H2 & _). destruct (step cfg s e) as [s1 o1]. cbn [fst snd] in *.
    specialize (IH s1 H1). destruct (run cfg s1 es) as [s2 o2]. destruct IH as [I1 I2]. rewrite listens_app, H2, I2. auto. }
  induction es as [|e es IH]; intros s last Hc Hnd; cbn [run].
  - cbn. auto.
  - pose proof (step_good s e last Hc Hnd) as (Hp & Hc' & _). destruct (step cfg s e) as [s1 o1]. cbn [fst snd] in *.
    destruct (ph s1) eqn:Eph1.
    7: { specialize (Hdone es s1 Eph1). destruct (run cfg s1 es) as [s2 o2]. destruct Hdone as [D1 D2].
         rewrite listens_app, D2, app_nil_r. split; [exact Hp|]. intros H. contradiction. }
    all: (specialize (IH s1 (final last (listens_of o1)) Hc'); destruct (run cfg s1 es) as [s2 o2];
          destruct IH as [I1 I2]; [rewrite Eph1; discriminate|];
          rewrite listens_app, path_app, final_app, Hp, I1; split; [reflexivity|exact I2]).
Qed.

End L.

(* ---------- the statements of Properties/C13.v ---------- *)
Lemma path_shutdown_last : forall l a, path a l = true -> shutdown_last l = true.
Proof.
  induction l as [|x l IH]; intros a H; [reflexivity|]. cbn [path] in H. apply andb_prop in H. destruct H as [_ H].
  destruct x; cbn [shutdown_last]; try (eapply IH; exact H).
  destruct l as [|y l]; [reflexivity|]. cbn [path] in H. destruct y; discriminate.
Qed.

Section Statements.
Variable cfg : config.
Variables (hn : nat) (mt : option N) (rmin rmax : N).
Notation s0 := (init hn mt rmin rmax).

Lemma init_consistent : consistent s0 LDisabled.
Proof. unfold consistent. cbn. auto. Qed.

Lemma c13_legal es : legal (listens_of (init_outputs ++ snd (run cfg s0 es))) = true.
Proof.
  pose proof (run_good cfg es s0 LDisabled init_consistent) as H. destruct (run cfg s0 es) as [s' o]. cbn [snd].
  destruct H as [H _]; [discriminate|]. rewrite listens_app. cbn. exact H.
Qed.

Lemma c13_shutdown_last es : shutdown_last (listens_of (init_outputs ++ snd (run cfg s0 es))) = true.
Proof.
  pose proof (c13_legal es) as H. destruct (listens_of _) as [|x l]; [reflexivity|]. cbn [legal] in H. destruct x; try discriminate.
  cbn [shutdown_last]. eapply path_shutdown_last. exact H.
Qed.

Lemma c13_no_dial es e : let s := fst (run cfg s0 es) in
  In ODial (snd (step cfg s e)) -> enabled (fst (step cfg s e)) = true.
Proof.
  pose proof (run_good cfg es s0 LDisabled init_consistent) as H. destruct (run cfg s0 es) as [s o]. cbn [fst].
  destruct H as [_ H]; [discriminate|]. intros Hd.
  assert (Hcase : ph s = PDone \/ ph s <> PDone) by (destruct (ph s); auto; right; discriminate).
  destruct Hcase as [Eph|Hn].
  - destruct (done_silent cfg s e Eph) as (_ & _ & Hn). contradiction.
  - specialize (H Hn). destruct (step_good cfg s e _ H Hn) as (_ & Hc & Hp). specialize (Hp Hd). unfold consistent in Hc. rewrite Hp in Hc. tauto.
Qed.

(* fail fast: a request taken while not connected completes at once with NoConnection; the phase
   does not change, nothing is written, no connection attempt is made *)
Lemma c13_fail_fast s r q : listens (ph s) = true -> connected (ph s) = false -> queue s = CReq r :: q ->
  step cfg s EvRecv = (set_chan s (q ++ firstn 1 (blocked s)) (skipn 1 (blocked s)), [OComplete (rq_id r) (RErr ReNoConnection)]).
Proof.
  intros Hl Hc Hq. cbn [step]. rewrite Hl, Hq. unfold take. cbn [ph set_chan]. destruct (ph s); try discriminate; reflexivity.
Qed.

(* shutdown from every state that listens to the queue: the Shutdown command, or the queue being
   closed and empty (all handles dropped), ends the task and tells the listener Shutdown exactly once *)
Lemma c13_terminates s : listens (ph s) = true ->
  (forall q, queue s = CShutdown :: q -> ph (fst (step cfg s EvRecv)) = PDone /\ listens_of (snd (step cfg s EvRecv)) = [LShutdown]) /\
  (queue s = [] -> closed s = true -> ph (fst (step cfg s EvRecv)) = PDone /\ listens_of (snd (step cfg s EvRecv)) = [LShutdown]).
Proof.
  intros Hl. split.
  - intros q Hq. cbn [step]. rewrite Hl, Hq. unfold take. cbn [ph set_chan].
    destruct (ph s); try discriminate; unfold end_session, terminate; cbn [fst snd ph set_ph set_chan]; rewrite ?listens_app, listens_drop; auto.
  - intros Hq Hc. cbn [step]. rewrite Hl, Hq, Hc.
    destruct (ph s); try discriminate; unfold end_session, terminate; cbn [fst snd ph set_ph set_chan]; rewrite ?listens_app, listens_drop; auto.
Qed.

(* ... and a request in flight ends at the latest when its timer fires: the task then listens to
   the queue again (or is gone) *)
Lemma c13_in_flight_ends s r tx d : ph s = PInFlight r tx d -> fire cfg d <= now s ->
  let s2 := fst (step cfg s EvTimer) in listens (ph s2) = true \/ ph s2 = PDone.
Proof.
  intros Hp Hf. cbn [step]. rewrite Hp. destruct (N.leb_spec (fire cfg d) (now s)) as [Hle|Hlt]; [|lia].
  pose proof (finish_summary s r (RErr deadline_error)) as Hs. destruct (finish s r (RErr deadline_error)) as [s' o]. cbn [fst].
  destruct Hs as (Hi & _). destruct (ph s'); try discriminate; auto.
Qed.

(* disable closes an open connection: taken while idle it ends the session, tells the listener
   Disabled and parks the task until the next enable; while a request is in flight the command
   stays queued (the task does not listen) and is taken right after that transaction *)
Lemma c13_disable_closes s q : ph s = PIdle -> queue s = CDisable :: q ->
  let s' := fst (step cfg s EvRecv) in
  snd (step cfg s EvRecv) = [OEnd SeDisabled; OListen LDisabled] /\ ph s' = PWaitEnabled /\ enabled s' = false.
Proof.
  intros Hp Hq. cbn [step]. rewrite Hp, Hq. cbn [listens]. unfold take. cbn [ph set_chan]. rewrite Hp. cbn [change_setting enabled set_enabled set_chan].
  unfold end_session, loop_top. cbn. auto.
Qed.

Lemma c13_disable_waits s r tx d : ph s = PInFlight r tx d -> step cfg s EvRecv = (s, []).
Proof. intros Hp. cbn [step]. rewrite Hp. reflexivity. Qed.

End Statements.

