(* Composition: reader refinement (C05/C06) + session refinement (C01) = the server as a whole
   equals the reference (cut the stream by the framing rule, apply the reference Modbus server). *)
From Coq Require Import NArith List Bool Arith Lia.
From Rodbus Require Import Base.Outcome Gen.RtuLengths.
From Rodbus Require Base.Frame Base.ServerTypes Model.Reader Model.Server Spec.Framing Spec.Modbus
  Model.SystemServer Spec.SystemSpec Proofs.C05Proofs Proofs.C06Proofs Proofs.RtuProofs Proofs.ServerParse Proofs.ServerFormat
  Proofs.ServerProofs Proofs.ServerTheorems.
Import ListNotations.
Module F := Rodbus.Base.Frame.
Module S := Rodbus.Base.ServerTypes.
Import SystemServer SystemSpec.

Definition bytes (l : list N) : Prop := Forall (fun x => (x < 256)%N) l.

Lemma bytes_firstn k a : bytes a -> bytes (firstn k a).
Proof. unfold bytes. revert k; induction a as [|x a IH]; intros k Hb; destruct k; cbn; auto. inversion Hb; subst. constructor; auto. Qed.
Lemma bytes_skipn k a : bytes a -> bytes (skipn k a).
Proof. unfold bytes. revert k; induction a as [|x a IH]; intros k Hb; destruct k; cbn; auto. inversion Hb; subst. auto. Qed.

Lemma frames_of_map fs : Reader.frames_of (map F.IFrame fs) = fs.
Proof. induction fs as [|f fs IH]; [reflexivity|]. cbn. unfold Reader.frames_of in IH. now rewrite IH. Qed.

(* frames cut from a byte stream by the MBAP rule carry a transaction id and byte PDUs *)
Definition good_tcp (f : F.frame) : Prop := F.f_tx f <> None /\ bytes (F.f_pdu f).

Lemma ref_good : forall fuel s fi, bytes s -> Forall good_tcp (fst (Framing.ref fuel s fi)).
Proof.
  induction fuel as [|fuel IH]; intros s fi Hb; [constructor|].
  cbn [Framing.ref].
  destruct s as [|t1 [|t0 [|p1 [|p0 [|l1 [|l0 [|u body]]]]]]]; try constructor.
  destruct (negb _); [constructor|].
  destruct (Nat.ltb 254 _); [constructor|].
  destruct (Nat.eqb _ 0); [constructor|].
  destruct (Nat.ltb (length body) _); [constructor|].
  assert (Hbody : bytes body).
  { unfold bytes in *. repeat match goal with H : Forall _ (_ :: _) |- _ => inversion H; clear H; subst end. assumption. }
  specialize (IH (skipn (N.to_nat (Framing.be l1 l0) - 1) body) fi (bytes_skipn _ _ Hbody)).
  destruct (Framing.ref fuel _ fi) as [fs e]. cbn [fst] in *.
  constructor; [|exact IH]. split; cbn; [discriminate|]. now apply bytes_firstn.
Qed.

Definition good_rtu (f : F.frame) : Prop := bytes (F.f_pdu f).

Lemma rref_good r : forall fuel s fi, bytes s -> Forall good_rtu (fst (Framing.rref fuel r s fi)).
Proof.
  induction fuel as [|fuel IH]; intros s fi Hb; [constructor|].
  cbn [Framing.rref].
  destruct s as [|addr [|fc rest]]; try constructor.
  assert (Ht : bytes (fc :: rest)) by (unfold bytes in *; inversion Hb; subst; assumption).
  assert (Hbody : forall plen, Forall good_rtu (fst (Framing.ref_rtu_body (fun s' => Framing.rref fuel r s' fi) fi addr plen (fc :: rest)))).
  { intros plen. unfold Framing.ref_rtu_body.
    destruct (Nat.ltb 253 plen); [constructor|].
    destruct (Nat.ltb _ _); [constructor|].
    destruct (N.eqb _ _); [|constructor].
    specialize (IH (skipn (plen + 2) (fc :: rest)) fi (bytes_skipn _ _ Ht)).
    destruct (Framing.rref fuel r _ fi) as [fs e]. cbn [fst] in *.
    constructor; [|exact IH]. unfold good_rtu; cbn. now apply bytes_firstn. }
  destruct (Framing.length_rule r fc); [apply Hbody| |constructor].
  destruct (Nat.ltb _ _); [constructor|apply Hbody].
Qed.

Section Sys.
Context {St : Type}.
Variable H : S.handler St.

Lemma to_server_ok_tcp fs : Forall good_tcp fs -> Forall (ServerProofs.frame_ok S.LTcp) (map to_server_frame fs).
Proof.
  induction 1 as [|f fs [Htx Hb] _ IH]; [constructor|]. cbn [map]. constructor; [|exact IH].
  split; cbn; [exact Htx|]. exact Hb.
Qed.
Lemma to_server_ok_rtu fs : Forall good_rtu fs -> Forall (ServerProofs.frame_ok S.LRtu) (map to_server_frame fs).
Proof.
  induction 1 as [|f fs Hb _ IH]; [constructor|]. cbn [map]. constructor; [|exact IH].
  split; cbn; [exact I|]. exact Hb.
Qed.

(* TCP / TLS: for EVERY byte stream, EVERY way of cutting it into non-empty reads, EVERY handler
   machine, authorization policy and unit map, the server's replies, handler calls and final
   handler state are those of the reference server applied to the frames the MBAP length field
   delimits, and the session ends exactly where and how the Spec's cut ends. *)
Theorem server_system_tcp a units s chunks fi :
  bytes s -> concat chunks = s -> Forall (fun c => c <> []) chunks ->
  server_system H S.LTcp a units chunks fi =
    (let '(replies, units', log) := ref_server_system_result H S.LTcp a units s fi in (replies, units', log, Server.SOpen),
     snd (ref_cut S.LTcp s fi)).
Proof.
  intros Hb Hc Hne. unfold server_system, ref_server_system_result, ref_server_system, ref_cut, kind_of_link.
  rewrite (C05Proofs.tcp_chunking s chunks fi Hc Hne). cbv zeta. unfold C05Proofs.lift_frames. cbn [fst snd]. rewrite frames_of_map.
  unfold Framing.ref_frames.
  rewrite (ServerProofs.session_refines H S.LTcp a _ units (to_server_ok_tcp _ (ref_good _ s fi Hb))).
  reflexivity.
Qed.

(* serial (RTU) server: the same with the RTU delimiting rule and the CRC gate *)
Theorem server_system_rtu a units s chunks fi :
  bytes s -> concat chunks = s -> Forall (fun c => c <> []) chunks ->
  server_system H S.LRtu a units chunks fi =
    (let '(replies, units', log) := ref_server_system_result H S.LRtu a units s fi in (replies, units', log, Server.SOpen),
     snd (ref_cut S.LRtu s fi)).
Proof.
  intros Hb Hc Hne. unfold server_system, ref_server_system_result, ref_server_system, ref_cut, kind_of_link.
  change Reader.KRtuRequest with (C06Proofs.kind_of Request).
  rewrite (C06Proofs.rtu_chunking Request s chunks fi Hb Hc Hne). cbv zeta. unfold C05Proofs.lift_frames. cbn [fst snd]. rewrite frames_of_map.
  unfold Framing.ref_rtu_frames. change (RtuProofs.role_of Request) with Framing.Requests.
  rewrite (ServerProofs.session_refines H S.LRtu a _ units (to_server_ok_rtu _ (rref_good _ _ s fi Hb))).
  reflexivity.
Qed.

(* corollary: the server's observable behaviour does not depend on how the network segments the stream *)
Corollary server_system_chunking_independent l a units c1 c2 fi :
  bytes (concat c1) -> concat c1 = concat c2 -> Forall (fun c => c <> []) c1 -> Forall (fun c => c <> []) c2 ->
  server_system H l a units c1 fi = server_system H l a units c2 fi.
Proof.
  intros Hb Hc H1 H2. destruct l.
  - rewrite (server_system_tcp a units (concat c1) c1 fi Hb eq_refl H1).
    rewrite (server_system_tcp a units (concat c1) c2 fi Hb (eq_sym Hc) H2). reflexivity.
  - rewrite (server_system_rtu a units (concat c1) c1 fi Hb eq_refl H1).
    rewrite (server_system_rtu a units (concat c1) c2 fi Hb (eq_sym Hc) H2). reflexivity.
Qed.
End Sys.
