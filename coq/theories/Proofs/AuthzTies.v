(* Structural ties for the authorization path outside the session task: the C-ABI adapter
   (ffi/rodbus-ffi/src/server.rs AuthorizationHandlerWrapper, table regenerated in Gen/FfiTables.v) and the
   TLS server's choice of the session's AuthorizationType (tcp/tls/server.rs, Gen/TlsAuthz.v). *)
From Coq Require Import List String.
From Rodbus Require Import Gen.FfiTables Gen.TlsAuthz.
Import ListNotations.
Local Open Scope string_scope.

Definition forwards_faithfully (w : authz_wrapper) : Prop :=
  aw_callback w = aw_method w /\ aw_role w = RoleOfThisCall /\ aw_unit w = "unit_id.value" /\ aw_result_into w = true /\ aw_unset_denies w = true.

(* every trait method of the adapter calls the C callback of ITS OWN name, with the unit id and the role
   string of this very call (nothing is remembered in the adapter: its only field is the callback struct);
   an unset callback denies *)
Lemma ffi_wrapper_forwards :
  Forall forwards_faithfully authz_wrappers /\
  map aw_method authz_wrappers =
    ["read_coils"; "read_discrete_inputs"; "read_holding_registers"; "read_input_registers";
     "write_single_coil"; "write_single_register"; "write_multiple_coils"; "write_multiple_registers"] /\
  authz_wrapper_fields = ["inner"].
Proof. unfold forwards_faithfully. repeat split; repeat constructor; reflexivity. Qed.

(* with a handler configured a TLS session either runs under that handler with the role of the client's
   certificate (exactly one role extension) or does not run at all *)
Lemma tls_role_required :
  tls_with_handler_on_role_failure = RefuseConnection /\ tls_with_handler_session_uses_certificate_role = true /\
  tls_role_requires_exactly_one_extension = true /\ tls_without_handler_is_unauthorized_mode = true.
Proof. repeat split. Qed.
