(* C04 through the C ABI: the completion callback's error for an exception reply. The value goes
   rodbus::ExceptionCode::from(u8) (exception.rs) -> RequestError::Exception ->
   `impl From<rodbus::ExceptionCode> for ffi::RequestError` (ffi/rodbus-ffi/src/helpers/
   conversions.rs), both regenerated into Gen/FfiTables.v; the result must be the Spec's name for
   the code byte the server sent. *)
From Coq Require Import NArith List String.
From Rodbus Require Import Base.Outcome Base.ClientTypes Model.ClientRequest Spec.ClientCodecSpec Spec.CAbiSpec
  Model.ClientCAbi Gen.ClientTables Gen.FfiTables Proofs.ClientReplyProofs.
Import ListNotations.
Local Open Scope N_scope.

Theorem cabi_exception_name_ok c : cabi_callback_exception c = cabi_exception_name c.
Proof.
  unfold cabi_callback_exception, cabi_exception_name, exception_standard_name, exception_from_u8.
  destruct c as [|p]; [reflexivity|].
  do 5 (destruct p as [p|p|]; try reflexivity).
Qed.

(* the two regenerated copies of exception.rs' From<u8> table (Gen/ClientTables.v used by the
   codec model, Gen/FfiTables.v used by the C-ABI model) agree on the byte *)
Lemma tables_agree c : exception_to_u8 (exception_from_u8 c) = u8_of_excode (excode_of_u8 c).
Proof.
  rewrite excode_roundtrip. unfold exception_from_u8. destruct c as [|p]; [reflexivity|].
  do 5 (destruct p as [p|p|]; try reflexivity).
Qed.

(* end to end: a well-formed exception reply with code byte c reaches the C callback as the Spec's name *)
Theorem cabi_exception_reply r c ex :
  handle_response r [reply_fc r + 128; c] = Err (EException ex) ->
  name_ffi_request_error (exception_to_ffi (exception_from_u8 (u8_of_excode ex))) = cabi_exception_name c.
Proof.
  rewrite exception_reply. intros H. inversion H; subst. rewrite excode_roundtrip. apply cabi_exception_name_ok.
Qed.

(* ------------------------------------------------------------------ C03 through the extern "C" layer *)
From Coq Require Import Bool Lia.
From Rodbus Require Import Model.Format Model.Range Model.ClientPaths Model.ClientSession Proofs.ClientCodecProofs Proofs.ClientPathsProofs Proofs.ClientSessionProofs.

(* a C-ABI call queues exactly the request the Channel API's `build` constructs, or nothing *)
Theorem cabi_queued_spec c : cabi_queued c = match build c with Ok r => Some r | _ => None end.
Proof.
  assert (Hr : forall s n (mk : N -> N -> call), (forall a b, mk a b = CReadCoils a b) \/ (forall a b, mk a b = CReadDiscreteInputs a b) \/
             (forall a b, mk a b = CReadHoldingRegisters a b) \/ (forall a b, mk a b = CReadInputRegisters a b) ->
             match try_from s n with inl _ => None | inr rg => match submit_via ViaFfi (mk (fst rg) (snd rg)) with Queued r => Some r | Rejected _ => None end end
             = match build (mk s n) with Ok r => Some r | _ => None end).
  { intros s n mk Hmk. destruct (try_from s n) as [e|rg] eqn:E.
    - destruct Hmk as [H|[H|[H|H]]]; rewrite H; cbn [build]; unfold of_read_bits, of_read_registers, limited_count; cbn [fst snd]; rewrite E; reflexivity.
    - assert (rg = (s, n)) as -> by (revert E; unfold try_from; destruct (n =? 0); [discriminate|]; destruct (_ <? s); [discriminate|]; now intros [= <-]).
      cbn [fst snd]. rewrite submit_via_spec. destruct (build (mk s n)); reflexivity. }
  destruct c as [s n|s n|s n|s n|i v|i v|s vs|s vs]; cbn [cabi_queued].
  - apply (Hr s n CReadCoils); auto.
  - apply (Hr s n CReadDiscreteInputs); auto.
  - apply (Hr s n CReadHoldingRegisters); auto.
  - apply (Hr s n CReadInputRegisters); auto.
  - reflexivity.
  - reflexivity.
  - rewrite submit_via_spec. destruct (build _); reflexivity.
  - rewrite submit_via_spec. destruct (build _); reflexivity.
Qed.

(* the code, as regenerated: both write-multiple functions leave the caller's list untouched *)
Lemma lists_kept : list_kept "write_multiple_coils" = true /\ list_kept "write_multiple_registers" = true.
Proof. split; vm_compute; reflexivity. Qed.

Lemma cabi_list_calls_kept {A} (mk : N -> list A -> call) : forall steps held,
  map (fun x => (snd (fst x), snd x)) (cabi_list_calls true mk held steps) = ref_list_calls mk held steps.
Proof.
  induction steps as [|[vs|[uid start]] rest IH]; intros held; cbn [cabi_list_calls ref_list_calls map fst snd]; [reflexivity|apply IH|].
  f_equal. apply IH.
Qed.

Lemma cabi_list_calls_wf {A} (mk : N -> list A -> call) (P : list A -> Prop) :
  (forall start l, start < 65536 -> P l -> call_wf (mk start l)) -> (forall a b, P a -> P b -> P (a ++ b)) ->
  forall steps held, P held -> Forall (fun st => match st with inl vs => P vs | inr (uid, start) => start < 65536 end) steps ->
  Forall (fun x => call_wf (snd x)) (cabi_list_calls true mk held steps).
Proof.
  intros Hmk Happ. induction steps as [|[vs|[uid start]] rest IH]; intros held Hh Hall; cbn [cabi_list_calls]; [constructor| |];
    inversion Hall as [|? ? H1 H2]; subst.
  - apply IH; [apply Happ; assumption|assumption].
  - constructor; [cbn [snd]; apply Hmk; assumption|apply IH; assumption].
Qed.

(* a caller-owned coil list through any sequence of add / write steps: the wire log is the Spec's -
   every write call transmits the values the list holds at call time (as far as within the limits),
   with transaction ids 0, 1, 2, ... *)
Theorem cabi_coil_list_wire_ref f steps :
  Forall (fun st => match st with inl _ => True | inr (uid, start) => start < 65536 end) steps ->
  cabi_coil_list_wire f steps = ref_session_wire (is_tcp f) 0 (ref_list_calls CWriteMultipleCoils [] steps).
Proof.
  intros Hall. unfold cabi_coil_list_wire. rewrite (proj1 lists_kept).
  rewrite session_wire_from_start.
  - unfold strip. rewrite cabi_list_calls_kept. reflexivity.
  - apply (cabi_list_calls_wf CWriteMultipleCoils (fun _ => True)); auto.
Qed.

Theorem cabi_register_list_wire_ref f steps :
  Forall (fun st => match st with inl vs => Forall is_u16 vs | inr (uid, start) => start < 65536 end) steps ->
  cabi_register_list_wire f steps = ref_session_wire (is_tcp f) 0 (ref_list_calls CWriteMultipleRegisters [] steps).
Proof.
  intros Hall. unfold cabi_register_list_wire. rewrite (proj2 lists_kept).
  rewrite session_wire_from_start.
  - unfold strip. rewrite cabi_list_calls_kept. reflexivity.
  - apply (cabi_list_calls_wf CWriteMultipleRegisters (Forall is_u16)); auto.
    + intros start l Hs Hl. cbn [call_wf]. split; assumption.
    + intros a b Ha Hb. apply Forall_app. split; assumption.
Qed.
