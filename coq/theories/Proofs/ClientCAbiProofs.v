(* C04 through the C ABI: the completion callback's error for an exception reply. The value goes
   rodbus::ExceptionCode::from(u8) (exception.rs) -> RequestError::Exception ->
   `impl From<rodbus::ExceptionCode> for ffi::RequestError` (ffi/rodbus-ffi/src/helpers/
   conversions.rs), both regenerated into Gen/FfiTables.v; the result must be the Spec's name for
   the code byte the server sent. *)
From Coq Require Import NArith List String.
From Rodbus Require Import Base.Outcome Base.ClientTypes Model.ClientRequest Spec.ClientCodecSpec Spec.CAbiSpec
  Model.ClientCAbi Gen.ClientTables Gen.FfiTables Proofs.ClientReplyProofs.
Import ListNotations.
Local Open Scope N_scope.

Theorem cabi_exception_name_ok c : cabi_callback_exception c = cabi_exception_name c.
Proof.
  unfold cabi_callback_exception, cabi_exception_name, exception_standard_name, exception_from_u8.
  destruct c as [|p]; [reflexivity|].
  do 5 (destruct p as [p|p|]; try reflexivity).
Qed.

(* the two regenerated copies of exception.rs' From<u8> table (Gen/ClientTables.v used by the
   codec model, Gen/FfiTables.v used by the C-ABI model) agree on the byte *)
Lemma tables_agree c : exception_to_u8 (exception_from_u8 c) = u8_of_excode (excode_of_u8 c).
Proof.
  rewrite excode_roundtrip. unfold exception_from_u8. destruct c as [|p]; [reflexivity|].
  do 5 (destruct p as [p|p|]; try reflexivity).
Qed.

(* end to end: a well-formed exception reply with code byte c reaches the C callback as the Spec's name *)
Theorem cabi_exception_reply r c ex :
  handle_response r [reply_fc r + 128; c] = Err (EException ex) ->
  name_ffi_request_error (exception_to_ffi (exception_from_u8 (u8_of_excode ex))) = cabi_exception_name c.
Proof.
  rewrite exception_reply. intros H. inversion H; subst. rewrite excode_roundtrip. apply cabi_exception_name_ok.
Qed.
