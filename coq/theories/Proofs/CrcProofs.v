(* C06: CRC-16/MODBUS algebra. Ported from DESIGN-prototypes 1 (linearity of the byte update),
   2 (bit-serial syndrome algebra; the three finite sweeps lifted with forallb_forall; ranges
   built by doubling) and 17 (byte/bit glue; a corrupted valid frame verifies iff the error
   pattern has zero syndrome). Definitions of the CRC itself are in Model/Crc.v. *)
From Coq Require Import NArith List Lia Bool Arith ZArith ZifyBool ZifyNat ZifyN.
From Rodbus Require Import Model.Crc Spec.Framing.
Import ListNotations.
Ltac Zify.zify_post_hook ::= Z.div_mod_to_equations.
Local Open Scope N_scope.

(* ================= 1. linearity ================= *)
Lemma step1_lin a b : step1 (N.lxor a b) = N.lxor (step1 a) (step1 b).
Proof.
  unfold step1. rewrite N.lxor_spec, N.shiftr_lxor.
  destruct (N.testbit a 0), (N.testbit b 0); cbn [xorb].
  - rewrite N.lxor_assoc, (N.lxor_comm poly), <- !N.lxor_assoc.
    rewrite (N.lxor_assoc _ poly poly), N.lxor_nilpotent, N.lxor_0_r. reflexivity.
  - rewrite !N.lxor_assoc. f_equal. apply N.lxor_comm.
  - rewrite N.lxor_assoc. reflexivity.
  - reflexivity.
Qed.
Lemma iter_lin n f : (forall a b, f (N.lxor a b) = N.lxor (f a) (f b)) ->
  forall a b, iter n f (N.lxor a b) = N.lxor (iter n f a) (iter n f b).
Proof. intros H. induction n as [|n IH]; intros a b; cbn [iter]; [reflexivity|]. rewrite H. apply IH. Qed.
Lemma upd_lin s1 s2 b1 b2 : upd (N.lxor s1 s2) (N.lxor b1 b2) = N.lxor (upd s1 b1) (upd s2 b2).
Proof.
  unfold upd. rewrite <- (iter_lin 8 step1 step1_lin). f_equal.
  rewrite !N.lxor_assoc. f_equal. rewrite <- !N.lxor_assoc. f_equal. apply N.lxor_comm.
Qed.

(* ================= 2. detection algebra ================= *)
(* ---------- all numbers below 2^k, by doubling (fast; no big nat) ---------- *)
Fixpoint below (k : nat) : list N :=
  match k with O => [0] | S k => flat_map (fun x => [2*x; 2*x+1]) (below k) end.
Lemma below_in k : forall x, x < 2 ^ N.of_nat k -> In x (below k).
Proof.
  induction k as [|k IH]; intros x Hx.
  - cbn in *. left. lia.
  - cbn [below]. apply in_flat_map. exists (x / 2). split.
    + apply IH. rewrite Nat2N.inj_succ, N.pow_succ_r' in Hx. apply N.div_lt_upper_bound; lia.
    + pose proof (N.div_mod x 2 ltac:(lia)) as E. pose proof (N.mod_upper_bound x 2 ltac:(lia)).
      clear Hx IH. cbn [In]. destruct (N.eq_dec (x mod 2) 0); [left|right;left]; lia.
Qed.
Lemma forall_below k (P : N -> bool) : forallb P (below k) = true -> forall x, x < 2 ^ N.of_nat k -> P x = true.
Proof. intros H x Hx. rewrite forallb_forall in H. apply H, below_in, Hx. Qed.

(* ---------- facts about step1 on 16-bit states, by sweep ---------- *)
Definition unstep1 (t : N) : N :=
  if N.testbit t 15 then N.lor (N.shiftl (N.lxor t poly) 1) 1 else N.shiftl t 1.
Definition W := 65536.
Lemma W_pow : W = 2 ^ N.of_nat 16. Proof. reflexivity. Qed.

Lemma step1_facts : forall s, s < W ->
  step1 s < W /\ unstep1 (step1 s) = s /\ (step1 s = 0 -> s = 0).
Proof.
  intros s Hs. rewrite W_pow in Hs.
  pose proof (forall_below 16 (fun s => (step1 s <? W) && (unstep1 (step1 s) =? s) && (negb (step1 s =? 0) || (s =? 0)))
               ltac:(vm_compute; reflexivity) s Hs) as H.
  cbv beta in H. apply andb_prop in H as [H H3]. apply andb_prop in H as [H1 H2].
  apply N.ltb_lt in H1. apply N.eqb_eq in H2. split; [assumption|]. split; [assumption|].
  intros E. rewrite E in H3. cbn in H3. now apply N.eqb_eq in H3.
Qed.
Lemma step1_inj a b : a < W -> b < W -> step1 a = step1 b -> a = b.
Proof. intros Ha Hb E. rewrite <- (proj1 (proj2 (step1_facts a Ha))), <- (proj1 (proj2 (step1_facts b Hb))). now f_equal. Qed.
Lemma step1_0 : step1 0 = 0. Proof. reflexivity. Qed.

Fixpoint pw (n : nat) (x : N) : N := match n with O => x | S n => pw n (step1 x) end.
Lemma pw_lt n : forall x, x < W -> pw n x < W.
Proof. induction n; intros x Hx; cbn [pw]; [assumption|]. apply IHn, step1_facts, Hx. Qed.
Lemma pw_zero n : forall x, x < W -> pw n x = 0 -> x = 0.
Proof. induction n; intros x Hx E; cbn [pw] in E; [assumption|]. apply step1_facts; [assumption|]. apply IHn; [apply step1_facts, Hx|assumption]. Qed.
Lemma pw_0 n : pw n 0 = 0. Proof. induction n; cbn [pw]; [reflexivity|]. rewrite step1_0. assumption. Qed.
Lemma pw_lin n : forall a b, pw n (N.lxor a b) = N.lxor (pw n a) (pw n b).
Proof. induction n; intros a b; cbn [pw]; [reflexivity|]. rewrite step1_lin. apply IHn. Qed.

(* ---------- bit-serial view ---------- *)
Definition b2n (b : bool) : N := if b then 1 else 0.
Definition bstep (s : N) (b : bool) : N := step1 (N.lxor s (b2n b)).
Definition run (s : N) (l : list bool) : N := fold_left bstep l s.
Definition syn (l : list bool) : N := run 0 l.

Lemma run_app s l1 l2 : run s (l1 ++ l2) = run (run s l1) l2. Proof. apply fold_left_app. Qed.
Lemma run_zeros n : forall s, run s (repeat false n) = pw n s.
Proof. induction n; intros s; cbn; [reflexivity|]. unfold bstep at 2. cbn [b2n]. rewrite N.lxor_0_r. apply IHn. Qed.
Lemma lxor1_lt : forall s, s < W -> N.lxor s 1 < W.
Proof.
  intros s Hs. rewrite W_pow in Hs.
  pose proof (forall_below 16 (fun s => N.lxor s 1 <? W) ltac:(vm_compute; reflexivity) s Hs) as H.
  now apply N.ltb_lt in H.
Qed.
Lemma bstep_lt s b : s < W -> bstep s b < W.
Proof. intros Hs. unfold bstep. apply step1_facts. destruct b; cbn [b2n]; [apply lxor1_lt, Hs|now rewrite N.lxor_0_r]. Qed.
Lemma run_lt l : forall s, s < W -> run s l < W.
Proof. induction l as [|b l IH]; intros s Hs; cbn [run fold_left]; [assumption|]. apply IH, bstep_lt, Hs. Qed.

Fixpoint xorl (a b : list bool) : list bool :=
  match a, b with x :: a, y :: b => xorb x y :: xorl a b | _, _ => [] end.
Lemma b2n_xor x y : b2n (xorb x y) = N.lxor (b2n x) (b2n y). Proof. destruct x, y; reflexivity. Qed.
Lemma run_lin : forall a b s t, length a = length b ->
  run (N.lxor s t) (xorl a b) = N.lxor (run s a) (run t b).
Proof.
  induction a as [|x a IH]; intros [|y b] s t Hl; try discriminate; cbn; [reflexivity|].
  injection Hl as Hl. change (run (bstep (N.lxor s t) (xorb x y)) (xorl a b) = N.lxor (run (bstep s x) a) (run (bstep t y) b)).
  rewrite <- IH by assumption. f_equal. unfold bstep. rewrite <- step1_lin. f_equal.
  rewrite b2n_xor, !N.lxor_assoc. f_equal. rewrite <- !N.lxor_assoc. f_equal. apply N.lxor_comm.
Qed.

(* ---------- the two sweeps that carry the algebra ---------- *)
(* (1) the sixteen vectors step1^t(1), t=0..15, are independent: every non-zero 16-bit window has non-zero syndrome *)
Lemma window_nonzero : forall x, x < W -> x <> 0 -> syn (bits16 x) <> 0.
Proof.
  intros x Hx Hn. rewrite W_pow in Hx.
  pose proof (forall_below 16 (fun x => (x =? 0) || negb (syn (bits16 x) =? 0)) ltac:(vm_compute; reflexivity) x Hx) as H.
  cbv beta in H. apply orb_prop in H as [H|H]; [apply N.eqb_eq in H; contradiction|].
  apply negb_true_iff, N.eqb_neq in H. assumption.
Qed.
(* (2) the orbit of 1 does not return to 1 within 2100 steps: two-bit errors up to 2100 bits apart *)
Fixpoint orbit_ok (n : nat) (x : N) : bool := match n with O => true | S n => negb (step1 x =? 1) && orbit_ok n (step1 x) end.
Lemma orbit_ok_spec n : forall x, orbit_ok n x = true -> forall d, (1 <= d <= n)%nat -> pw d x <> 1.
Proof.
  induction n as [|n IH]; intros x H d Hd; [lia|]. cbn in H. apply andb_prop in H as [H1 H2].
  destruct d as [|d]; [lia|]. cbn [pw]. destruct d as [|d].
  - cbn. apply negb_true_iff, N.eqb_neq in H1. assumption.
  - apply (IH (step1 x) H2 (S d)). lia.
Qed.
Lemma orbit_1 : forall d, (1 <= d <= 2100)%nat -> pw d 1 <> 1.
Proof. apply orbit_ok_spec. vm_compute. reflexivity. Qed.

(* ---------- error classes in structured form ---------- *)
(* burst: everything outside a 16-bit window is untouched, the window is not all-zero *)
Theorem burst_detected a x z : x < W -> x <> 0 -> syn (zeros a ++ bits16 x ++ zeros z) <> 0.
Proof.
  intros Hx Hn. unfold syn. rewrite !run_app, !run_zeros, pw_0. intros E.
  apply pw_zero in E; [|apply run_lt; reflexivity]. exact (window_nonzero x Hx Hn E).
Qed.
(* two flipped bits d apart *)
Theorem double_detected a d z : (1 <= d <= 2100)%nat -> syn (zeros a ++ [true] ++ zeros (d-1) ++ [true] ++ zeros z) <> 0.
Proof.
  intros Hd. unfold syn. rewrite !run_app, !run_zeros, pw_0. cbn [run fold_left].
  unfold bstep at 2. cbn [b2n]. rewrite N.lxor_0_l.
  change (pw (d-1) (step1 1)) with (pw (S (d-1)) 1). replace (S (d-1)) with d by lia.
  assert (Hlt : pw d 1 < W) by (apply pw_lt; reflexivity).
  intros E. apply pw_zero in E; [|apply bstep_lt, Hlt].
  unfold bstep in E. apply step1_facts in E; [|apply lxor1_lt, Hlt].
  cbn [b2n] in E. apply N.lxor_eq in E. exact (orbit_1 d Hd E).
Qed.

(* ---------- acceptance of a corrupted frame <-> zero syndrome of the error pattern ---------- *)
(* a frame, bit-serially: body bits then the 16 CRC bits (LSB first = wire order); valid iff the
   register after the body equals the transmitted CRC *)
Definition accepts (body crcbits : list bool) : Prop := exists c, c < W /\ crcbits = bits16 c /\ run 65535 body = c.

Lemma syn_bits16_inj c : c < W -> syn (bits16 c) = 0 -> c = 0.
Proof. intros Hc E. destruct (N.eq_dec c 0) as [|Hn]; [assumption|]. exfalso. exact (window_nonzero c Hc Hn E). Qed.


(* ================= 17. frames ================= *)
(* ---------- byte-wise update = eight bit-serial steps (LSB first = UART wire order) ---------- *)
Lemma iter_pw n : forall x, iter n step1 x = pw n x.
Proof. induction n; intros x; [reflexivity|]. cbn [iter pw]. apply IHn. Qed.
Lemma xorl_false_l l : xorl (repeat false (length l)) l = l.
Proof. induction l as [|a l IH]; cbn [length repeat xorl]; [reflexivity|]. rewrite xorb_false_l, IH. reflexivity. Qed.
Lemma upd_bits s b : b < 256 -> upd s b = run s (bits8 b).
Proof.
  intros Hb.
  assert (H0 : forall b, b < 256 -> upd 0 b = run 0 (bits8 b)).
  { intros x Hx. change 256 with (2 ^ N.of_nat 8) in Hx.
    pose proof (forall_below 8 (fun x => upd 0 x =? run 0 (bits8 x)) ltac:(vm_compute; reflexivity) x Hx) as H.
    now apply N.eqb_eq in H. }
  replace (upd s b) with (upd (N.lxor s 0) (N.lxor 0 b)) by (now rewrite N.lxor_0_r, N.lxor_0_l).
  rewrite upd_lin, (H0 b Hb).
  replace (run s (bits8 b)) with (run (N.lxor s 0) (xorl (repeat false (length (bits8 b))) (bits8 b)))
    by (now rewrite xorl_false_l, N.lxor_0_r).
  rewrite run_lin by (now rewrite repeat_length). f_equal.
  unfold upd. rewrite N.lxor_0_r, iter_pw. change (length (bits8 b)) with 8%nat. now rewrite run_zeros.
Qed.
Lemma crc_from_bits l : Forall (fun b => b < 256) l -> forall s, crc_from s l = run s (bits_of l).
Proof.
  induction 1 as [|b l Hb Hl IH]; intros s; [reflexivity|]. cbn [crc_from fold_left bits_of flat_map].
  rewrite run_app, <- upd_bits by assumption. apply IH.
Qed.

(* ---------- 16-bit words as bit lists ---------- *)
Lemma bits16_lxor a b : bits16 (N.lxor a b) = xorl (bits16 a) (bits16 b).
Proof. unfold bits16. cbn. now rewrite !N.lxor_spec. Qed.
Lemma xorl_cancel a : forall b c, length a = length b -> length a = length c -> xorl a b = xorl a c -> b = c.
Proof.
  induction a as [|x a IH]; intros [|y b] [|z c] Hb Hc H; try discriminate; [reflexivity|].
  cbn in H. injection H as Hx H. f_equal; [destruct x, y, z; try reflexivity; discriminate|]. apply IH; auto.
Qed.
Lemma lxor_lt a b : a < W -> b < W -> N.lxor a b < W.
Proof.
  intros Ha Hb. destruct (N.eq_dec (N.lxor a b) 0) as [->|Hn]; [reflexivity|].
  change W with (2 ^ 16) in *. apply N.log2_lt_pow2; [lia|].
  eapply N.le_lt_trans; [apply N.log2_lxor|]. apply N.max_lub_lt.
  - destruct (N.eq_dec a 0) as [->|]; [reflexivity|apply N.log2_lt_pow2; lia].
  - destruct (N.eq_dec b 0) as [->|]; [reflexivity|apply N.log2_lt_pow2; lia].
Qed.
Lemma xorl_self l : xorl l l = repeat false (length l).
Proof. induction l as [|y l IH]; cbn [xorl length repeat]; [reflexivity|]. now rewrite xorb_nilpotent, IH. Qed.
Lemma bits16_inj a b : a < W -> b < W -> bits16 a = bits16 b -> a = b.
Proof.
  intros Ha Hb E. apply N.lxor_eq. destruct (N.eq_dec (N.lxor a b) 0) as [|Hn]; [assumption|]. exfalso.
  apply (window_nonzero _ (lxor_lt _ _ Ha Hb) Hn). rewrite bits16_lxor, E, xorl_self. unfold syn. rewrite run_zeros. apply pw_0.
Qed.

(* feeding a register its own 16 bits clears it *)
Lemma absorb s : s < W -> run s (bits16 s) = 0.
Proof.
  intros Hs. rewrite W_pow in Hs.
  pose proof (forall_below 16 (fun s => run s (bits16 s) =? 0) ltac:(vm_compute; reflexivity) s Hs) as H.
  now apply N.eqb_eq in H.
Qed.
Lemma clears_iff s e : s < W -> e < W -> (run s (bits16 e) = 0 <-> e = s).
Proof.
  intros Hs He. split; [|intros ->; now apply absorb].
  intros H. replace (bits16 e) with (xorl (bits16 s) (bits16 (N.lxor s e))) in H
    by (rewrite <- bits16_lxor; f_equal; now rewrite <- N.lxor_assoc, N.lxor_nilpotent, N.lxor_0_l).
  replace s with (N.lxor s 0) in H at 1 by apply N.lxor_0_r.
  rewrite run_lin, absorb, N.lxor_0_l in H by (reflexivity || assumption).
  destruct (N.eq_dec (N.lxor s e) 0) as [Hz|Hn]; [symmetry; now apply N.lxor_eq|].
  exfalso. exact (window_nonzero _ (lxor_lt _ _ Hs He) Hn H).
Qed.

(* ---------- C06_detect at the bit level: a corrupted valid frame verifies iff the error pattern has zero syndrome ---------- *)
Theorem accept_iff_syndrome body eb c e :
  length eb = length body -> e < W -> c = run 65535 body ->
  (N.lxor c e = run 65535 (xorl body eb)  <->  syn (eb ++ bits16 e) = 0).
Proof.
  intros Hl He ->. set (C := run 65535 body).
  assert (HC : C < W) by (apply run_lt; reflexivity).
  replace (run 65535 (xorl body eb)) with (N.lxor C (syn eb)).
  2:{ unfold C, syn. rewrite <- run_lin by (now symmetry). now rewrite N.lxor_0_r. }
  unfold syn at 2. rewrite run_app. fold (syn eb).
  assert (Hs : syn eb < W) by (apply run_lt; reflexivity).
  rewrite (clears_iff _ _ Hs He). split.
  - intros H. apply (f_equal (N.lxor C)) in H. rewrite <- !N.lxor_assoc, N.lxor_nilpotent, !N.lxor_0_l in H. exact H.
  - intros ->. reflexivity.
Qed.

(* corollaries: the two error classes are never accepted (frame of any length for bursts; ≤ 2100 bits apart for pairs) *)
Corollary burst_never_accepted body c a x z eb e :
  c = run 65535 body -> x < W -> x <> 0 -> e < W -> length eb = length body ->
  eb ++ bits16 e = zeros a ++ bits16 x ++ zeros z -> N.lxor c e <> run 65535 (xorl body eb).
Proof. intros Hc Hx Hn He Hl Hpat H. apply (accept_iff_syndrome body eb c e Hl He Hc) in H. rewrite Hpat in H. exact (burst_detected a x z Hx Hn H). Qed.
Corollary double_never_accepted body c a d z eb e :
  c = run 65535 body -> (1 <= d <= 2100)%nat -> e < W -> length eb = length body ->
  eb ++ bits16 e = zeros a ++ [true] ++ zeros (d - 1) ++ [true] ++ zeros z -> N.lxor c e <> run 65535 (xorl body eb).
Proof. intros Hc Hd He Hl Hpat H. apply (accept_iff_syndrome body eb c e Hl He Hc) in H. rewrite Hpat in H. exact (double_detected a d z Hd H). Qed.
