(* C03 over a session: the wire log of a sequence of calls (Model/ClientSession.v) is the Spec's
   ref_session_wire (Spec/ClientCodecSpec.v). *)
From Coq Require Import NArith List Lia Bool Arith ZArith ZifyBool ZifyNat ZifyN.
From Rodbus Require Import Base.Outcome Base.ClientTypes Model.Format Model.Range Model.ClientRequest Model.ClientPaths
  Model.ClientSession Spec.ClientCodecSpec Gen.Consts Gen.SessionErrors Proofs.ClientCodecProofs Proofs.ClientPathsProofs.
From Rodbus Require Model.ClientTask Spec.ClientSpec.
Import ListNotations.
Module T := Rodbus.Model.ClientTask.
Ltac Zify.zify_post_hook ::= Z.div_mod_to_equations.
Local Open Scope N_scope.
Arguments N.add : simpl never.
Arguments N.sub : simpl never.
Arguments N.mul : simpl never.
Arguments N.eqb : simpl never.
Arguments N.ltb : simpl never.
Arguments N.leb : simpl never.
Arguments N.div : simpl never.
Arguments N.modulo : simpl never.

(* the task's counter: the k-th request gets k mod 65536 (= Spec/ClientSpec.v txid_spec, C11_txid) *)
Lemma txid_next_mod k : T.txid_next (k mod 65536) = ((k + 1) mod 65536, ClientSpec.txid_spec k).
Proof.
  unfold T.txid_next, txid_max, ClientSpec.txid_spec.
  destruct (N.eqb_spec (k mod 65536) 65535) as [E|E]; f_equal; lia.
Qed.

(* a call reaches the task iff its request can be constructed *)
Lemma build_reaches c : call_wf c ->
  match build c with Ok _ => reaches_task c = true | Err _ => reaches_task c = false | Panic => False end.
Proof.
  intros Hwf. destruct c as [s n|s n|s n|s n|i v|i v|s vs|s vs]; cbn [build reaches_task within_limits_b call_wf] in *; unfold is_u16 in *.
  1,2: unfold of_read_bits, max_read_coils_count; rewrite limited_count_spec by lia;
       destruct (range_ok s n); cbn [andb]; [|destruct (n =? 0); reflexivity];
       destruct (N.ltb_spec 2000 n), (N.leb_spec n 2000); try lia; reflexivity.
  1,2: unfold of_read_registers, max_read_registers_count; rewrite limited_count_spec by lia;
       destruct (range_ok s n); cbn [andb]; [|destruct (n =? 0); reflexivity];
       destruct (N.ltb_spec 125 n), (N.leb_spec n 125); try lia; reflexivity.
  1,2: reflexivity.
  1,2: unfold write_multiple_from; fold (len vs);
       (destruct (N.ltb_spec 65535 (len vs)); cbn [obind];
        [destruct (N.leb_spec (len vs) 65535); [lia|apply andb_false_r]|]);
       rewrite try_from_spec by (try tauto; lia); destruct (N.leb_spec (len vs) 65535); [|lia];
       destruct (range_ok s (len vs)); [reflexivity|destruct (len vs =? 0); reflexivity].
Qed.

Definition is_tcp (f : framing) : bool := match f with Tcp => true | Rtu => false end.
Definition strip (calls : list (path * N * call)) : list (N * call) := map (fun x => (snd (fst x), snd x)) calls.

Theorem session_wire_ref f : forall calls k, Forall (fun x => call_wf (snd x)) calls ->
  session_wire f (k mod 65536) calls = ref_session_wire (is_tcp f) k (strip calls).
Proof.
  induction calls as [|[[p uid] c] rest IH]; intros k Hall; [reflexivity|].
  inversion Hall as [|? ? Hwf Hrest]; subst. cbn [snd] in Hwf.
  cbn [session_wire strip map ref_session_wire fst snd]. fold (strip rest).
  rewrite submit_via_spec. pose proof (build_reaches c Hwf) as Hb.
  destruct (within_limits_b c) eqn:Hl.
  - pose proof (submit_within f (k mod 65536) uid c Hwf Hl) as Hs. unfold client_submit in Hs.
    destruct (build c) as [r|e|]; cbn [obind] in Hs; [|discriminate|contradiction].
    rewrite txid_next_mod. unfold ClientSpec.txid_spec, transmit. rewrite Hs. cbn [snd app].
    rewrite IH by assumption. destruct f; reflexivity.
  - assert (Hn : ~ within_limits c) by (unfold within_limits; congruence).
    destruct (submit_outside f (k mod 65536) uid c Hwf Hn) as (e & He & _). unfold client_submit in He.
    destruct (build c) as [r|e'|]; cbn [obind] in He; [| |contradiction].
    + rewrite Hb, txid_next_mod. unfold ClientSpec.txid_spec, transmit. rewrite He. cbn [snd app]. apply IH. assumption.
    + rewrite Hb. apply IH. assumption.
Qed.

Corollary session_wire_from_start f calls : Forall (fun x => call_wf (snd x)) calls ->
  session_wire f 0 calls = ref_session_wire (is_tcp f) 0 (strip calls).
Proof. intros H. exact (session_wire_ref f calls 0 H). Qed.

(* the API used for each call is irrelevant for the wire log *)
Corollary session_wire_paths f calls calls' v : map (fun x => (snd (fst x), snd x)) calls = map (fun x => (snd (fst x), snd x)) calls' ->
  session_wire f v calls = session_wire f v calls'.
Proof.
  revert calls' v. induction calls as [|[[p uid] c] rest IH]; intros calls' v H; destruct calls' as [|[[p' uid'] c'] rest']; try discriminate; [reflexivity|].
  cbn [map fst snd] in H. inversion H; subst. cbn [session_wire]. rewrite !submit_via_spec.
  destruct (build c'); [destruct (T.txid_next v); f_equal|..]; apply IH; assumption.
Qed.

(* ------------------------------------------------------------------ the complete byte stream, with a peer and a transport *)
Definition spec_fate (fate : tx_fate) (evs : list rx_event) : call_fate :=
  {| cut_after := match fate with TxCut k => Some k | TxAll => None end; connection_lost := rx_loses_connection evs |}.
Definition strip_fates (calls : list (path * N * call * tx_fate * list rx_event)) : list (N * call * call_fate) :=
  map (fun x => let '(p, uid, c, fate, evs) := x in (uid, c, spec_fate fate evs)) calls.

Theorem session_stream_ref f : forall calls k, Forall (fun x => call_wf (snd (fst (fst x)))) calls ->
  session_stream f (k mod 65536) calls = ref_session_stream (is_tcp f) k (strip_fates calls).
Proof.
  induction calls as [|[[[[p uid] c] fate] evs] rest IH]; intros k Hall; [reflexivity|].
  inversion Hall as [|? ? Hwf Hrest]; subst. cbn [snd fst] in Hwf.
  cbn [session_stream strip_fates map ref_session_stream]. fold (strip_fates rest).
  rewrite submit_via_spec. pose proof (build_reaches c Hwf) as Hb.
  destruct (within_limits_b c) eqn:Hl.
  - pose proof (submit_within f (k mod 65536) uid c Hwf Hl) as Hs. unfold client_submit in Hs.
    destruct (build c) as [r|e|]; cbn [obind] in Hs; [|discriminate|contradiction].
    rewrite txid_next_mod. unfold ClientSpec.txid_spec. rewrite Hs.
    assert (He : ref_encode f (k mod 65536) uid c = (if is_tcp f then ref_encode_tcp (k mod 65536) uid c else ref_encode_rtu uid c)) by (destruct f; reflexivity).
    rewrite <- He. unfold spec_fate. cbn [cut_after connection_lost]. rewrite IH by assumption.
    destruct fate; reflexivity.
  - assert (Hn : ~ within_limits c) by (unfold within_limits; congruence).
    destruct (submit_outside f (k mod 65536) uid c Hwf Hn) as (e & He & _). unfold client_submit in He.
    destruct (build c) as [r|e'|]; cbn [obind] in He; [| |contradiction].
    + rewrite Hb, txid_next_mod. unfold ClientSpec.txid_spec. rewrite He. apply IH. assumption.
    + rewrite Hb. apply IH. assumption.
Qed.

(* what the peer sends while a request waits is irrelevant for what the client writes, except that
   losing the connection ends the stream: frames with other transaction ids (stale replies,
   duplicates, foreign frames) can be inserted or removed at will *)
Lemma rx_skip_irrelevant evs1 evs2 : rx_loses_connection (evs1 ++ RxSkip :: evs2) = rx_loses_connection (evs1 ++ evs2).
Proof. induction evs1 as [|e r IH]; [reflexivity|]. destruct e; cbn [app rx_loses_connection]; try reflexivity. exact IH. Qed.

Theorem session_stream_peer_independent f v pre p uid c fate evs1 evs2 post :
  session_stream f v (pre ++ (p, uid, c, fate, evs1 ++ RxSkip :: evs2) :: post) =
  session_stream f v (pre ++ (p, uid, c, fate, evs1 ++ evs2) :: post).
Proof.
  revert v. induction pre as [|[[[[p' uid'] c'] fate'] evs'] pre IH]; intros v; cbn [app session_stream].
  - rewrite rx_skip_irrelevant. reflexivity.
  - destruct (submit_via p' c') as [r'|rj]; [|apply IH]. destruct (T.txid_next v) as [v' tx].
    destruct (client_encode f tx uid' r'); [|apply IH|apply IH]. rewrite IH. reflexivity.
Qed.

(* without transport stalls and without losing the connection the stream is the concatenation of
   the frames of session_wire: one serialisation per accepted call, nothing else *)
Theorem session_stream_concat f : forall calls v,
  Forall (fun x => snd (fst x) = TxAll /\ rx_loses_connection (snd x) = false) calls ->
  session_stream f v calls = concat (session_wire f v (map (fun x => fst (fst x)) calls)).
Proof.
  induction calls as [|[[[[p uid] c] fate] evs] rest IH]; intros v Hall; [reflexivity|].
  inversion Hall as [|? ? [Hf He] Hrest]; subst. cbn [fst snd] in Hf, He. subst fate.
  cbn [session_stream session_wire map fst snd]. destruct (submit_via p c) as [r'|rj]; [|apply IH; assumption].
  destruct (T.txid_next v) as [v' tx]. unfold transmit. destruct (client_encode f tx uid r'); cbn [snd app concat].
  - rewrite He, IH by assumption. reflexivity.
  - apply IH; assumption.
  - apply IH; assumption.
Qed.

(* a partial frame is the last thing on the connection: whatever calls follow, nothing more is written
   (the length of a frame does not depend on its transaction id) *)
Theorem ref_stream_cut_is_last (tcp : bool) (uid : N) (c : call) (j : nat) : forall pre k post,
  within_limits_b c = true ->
  (forall t, (j < length (if tcp then ref_encode_tcp t uid c else ref_encode_rtu uid c))%nat) ->
  ref_session_stream tcp k (pre ++ (uid, c, FateCut j) :: post) = ref_session_stream tcp k (pre ++ [(uid, c, FateCut j)]).
Proof.
  induction pre as [|[[u' c'] fate'] pre IH]; intros k post Hl Hj.
  - cbn [app ref_session_stream]. rewrite Hl. cbn [cut_after FateCut].
    destruct (Nat.ltb_spec j (length (if tcp then ref_encode_tcp (k mod 65536) uid c else ref_encode_rtu uid c))); [reflexivity|].
    specialize (Hj (k mod 65536)). lia.
  - cbn [app ref_session_stream]. rewrite !(IH _ post) by assumption. reflexivity.
Qed.
