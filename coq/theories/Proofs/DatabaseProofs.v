(* C19: the model of the C-ABI point database (Database.v) refines "one map per point type"
   (MapSpec.v), plus the individual characterisations of add / update / delete / get / read. *)
From Coq Require Import NArith List Lia Bool Arith ZArith ZifyBool ZifyNat ZifyN String.
From Rodbus Require Import Base.Show Model.DbTypes Model.Database Spec.MapSpec.
Import ListNotations.
Ltac Zify.zify_post_hook ::= Z.div_mod_to_equations.
Local Open Scope N_scope.
Arguments N.add : simpl never.
Arguments N.eqb : simpl never.

(* ------------------------------------------------------------------------------------------ *)
(* the generic helpers over one association list                                               *)
(* ------------------------------------------------------------------------------------------ *)

Definition keys {T} (m : list (N * T)) : list N := map fst m.

Definition occupied {T} (m : list (N * T)) (i : N) : bool :=
  match get_entry m i with Some _ => true | None => false end.

Section Entries.
Context {T : Type}.
Implicit Types (m : list (N * T)) (i j : N) (v : T).

Lemma get_entry_None m i : get_entry m i = None <-> ~ In i (keys m).
Proof.
  induction m as [|[k x] r IH]; cbn [get_entry keys map fst In]; [tauto|].
  destruct (N.eqb_spec k i) as [->|Hne].
  - split; [discriminate|]. intros H; exfalso; apply H; now left.
  - fold (keys r). rewrite IH. tauto.
Qed.

Lemma occupied_In m i : occupied m i = true <-> In i (keys m).
Proof.
  unfold occupied. destruct (get_entry m i) eqn:E.
  - split; [intros _|reflexivity]. destruct (in_dec N.eq_dec i (keys m)) as [Hin|Hn]; [assumption|].
    apply get_entry_None in Hn. congruence.
  - apply get_entry_None in E. split; [discriminate|tauto].
Qed.

(* with unique keys, get_entry is membership *)
Lemma get_entry_In m i v : NoDup (keys m) -> (get_entry m i = Some v <-> In (i, v) m).
Proof.
  induction m as [|[k x] r IH]; cbn [get_entry keys map fst In]; intros Hnd.
  - split; [discriminate|tauto].
  - fold (keys r) in Hnd. apply NoDup_cons_iff in Hnd as [Hk Hnd].
    destruct (N.eqb_spec k i) as [->|Hne].
    + split.
      * intros [= ->]. now left.
      * intros [[= ->]|Hin]; [reflexivity|]. exfalso. apply Hk.
        unfold keys. change i with (fst (i, v)). now apply in_map.
    + rewrite (IH Hnd). split; [tauto|]. intros [[= -> _]|Hin]; [congruence|assumption].
Qed.

(* --- add_entry --- *)
Lemma add_entry_snd m i v : snd (add_entry m i v) = negb (occupied m i).
Proof. unfold add_entry, occupied. now destruct (get_entry m i). Qed.

Lemma add_entry_get m i v j :
  get_entry (fst (add_entry m i v)) j
  = if negb (occupied m i) && N.eqb i j then Some v else get_entry m j.
Proof.
  unfold add_entry, occupied. destruct (get_entry m i); cbn [fst negb andb get_entry]; reflexivity.
Qed.

Lemma add_entry_unchanged m i v : occupied m i = true -> fst (add_entry m i v) = m.
Proof. unfold add_entry, occupied. now destruct (get_entry m i). Qed.

Lemma add_entry_nodup m i v : NoDup (keys m) -> NoDup (keys (fst (add_entry m i v))).
Proof.
  intros Hnd. unfold add_entry. destruct (get_entry m i) eqn:E; cbn [fst]; [assumption|].
  cbn [keys map fst]. apply NoDup_cons; [|assumption]. now apply get_entry_None.
Qed.

(* --- update_entry --- *)
Lemma update_entry_snd m i v : snd (update_entry m i v) = occupied m i.
Proof.
  unfold occupied. induction m as [|[k x] r IH]; cbn [update_entry get_entry snd]; [reflexivity|].
  destruct (N.eqb k i); [reflexivity|]. destruct (update_entry r i v) as [r' b]. exact IH.
Qed.

Lemma update_entry_get m i v j :
  get_entry (fst (update_entry m i v)) j
  = if occupied m i && N.eqb i j then Some v else get_entry m j.
Proof.
  unfold occupied. induction m as [|[k x] r IH]; cbn [update_entry get_entry fst andb]; [reflexivity|].
  destruct (N.eqb_spec k i) as [->|Hne]; cbn [fst get_entry andb].
  - destruct (N.eqb i j); reflexivity.
  - destruct (update_entry r i v) as [r' b]. cbn [fst get_entry] in *. rewrite IH.
    destruct (N.eqb_spec k j) as [->|Hne2]; [|reflexivity].
    destruct (N.eqb_spec i j); [congruence|]. now rewrite andb_false_r.
Qed.

Lemma update_entry_keys m i v : keys (fst (update_entry m i v)) = keys m.
Proof.
  induction m as [|[k x] r IH]; cbn [update_entry keys map fst]; [reflexivity|].
  destruct (N.eqb k i); [reflexivity|]. destruct (update_entry r i v) as [r' b].
  cbn [fst keys map] in *. unfold keys in IH. now rewrite IH.
Qed.

Lemma update_entry_unchanged m i v : occupied m i = false -> fst (update_entry m i v) = m.
Proof.
  unfold occupied. induction m as [|[k x] r IH]; cbn [update_entry get_entry fst]; [reflexivity|].
  destruct (N.eqb k i); [discriminate|]. intros H. destruct (update_entry r i v) as [r' b].
  cbn [fst] in *. now rewrite IH.
Qed.

(* --- remove_entry --- *)
Lemma remove_entry_snd m i : snd (remove_entry m i) = occupied m i.
Proof.
  unfold occupied. induction m as [|[k x] r IH]; cbn [remove_entry get_entry snd]; [reflexivity|].
  destruct (remove_entry r i) as [r' b]. destruct (N.eqb k i); [reflexivity|exact IH].
Qed.

Lemma remove_entry_get m i j :
  get_entry (fst (remove_entry m i)) j = if N.eqb i j then None else get_entry m j.
Proof.
  induction m as [|[k x] r IH]; cbn [remove_entry get_entry fst].
  - now destruct (N.eqb i j).
  - destruct (remove_entry r i) as [r' b]. cbn [fst] in IH.
    destruct (N.eqb_spec k i) as [->|Hne]; cbn [fst get_entry].
    + rewrite IH. now destruct (N.eqb i j).
    + rewrite IH. destruct (N.eqb_spec k j) as [->|Hne2]; [|reflexivity].
      destruct (N.eqb_spec i j); [congruence|reflexivity].
Qed.

Lemma remove_entry_keys m i :
  keys (fst (remove_entry m i)) = filter (fun k => negb (N.eqb k i)) (keys m).
Proof.
  induction m as [|[k x] r IH]; cbn [remove_entry keys map fst filter]; [reflexivity|].
  destruct (remove_entry r i) as [r' b]. cbn [fst] in IH. fold (keys r).
  destruct (N.eqb k i); cbn [negb fst keys map]; [exact IH|]. unfold keys in *. now rewrite IH.
Qed.

Lemma remove_entry_unchanged m i : occupied m i = false -> fst (remove_entry m i) = m.
Proof.
  unfold occupied. induction m as [|[k x] r IH]; cbn [remove_entry get_entry fst]; [reflexivity|].
  destruct (remove_entry r i) as [r' b]. cbn [fst] in IH.
  destruct (N.eqb k i); [discriminate|]. intros H. cbn [fst]. now rewrite IH.
Qed.

(* --- read_range: the first error wins, otherwise all values in order --- *)
Lemma read_range_spec (g : N -> T + N) count : forall start,
  match read_range g start count with
  | inl xs => map inl xs = map (fun k => g (start + N.of_nat k)) (seq 0 count)
  | inr e => exists k, (k < count)%nat /\ g (start + N.of_nat k) = inr e /\
                       forall n : nat, (n < k)%nat -> exists x, g (start + N.of_nat n) = inl x
  end.
Proof.
  induction count as [|c IH]; intros start; cbn [read_range seq map]; [reflexivity|].
  replace (start + N.of_nat 0) with start by lia.
  destruct (g start) as [x|e] eqn:Eg.
  - specialize (IH (start + 1)). destruct (read_range g (start + 1) c) as [xs|e].
    + cbn [map]. f_equal. rewrite IH, <- seq_shift, map_map. apply map_ext. intros k. f_equal. lia.
    + destruct IH as (k & Hk & Hg & Hlt). exists (S k). split; [lia|]. split.
      * rewrite <- Hg. f_equal. lia.
      * intros [|n] Hn; [exists x; now replace (start + N.of_nat 0) with start by lia|].
        destruct (Hlt n) as [y Hy]; [lia|]. exists y. rewrite <- Hy. f_equal. lia.
  - exists 0%nat. split; [lia|]. split; [now replace (start + N.of_nat 0) with start by lia|].
    intros n Hn. lia.
Qed.

End Entries.

(* ------------------------------------------------------------------------------------------ *)
(* abstraction and invariant                                                                   *)
(* ------------------------------------------------------------------------------------------ *)

(* what the database holds, as one partial function per point type *)
Definition abs (d : database) (t : ptype) (i : N) : option value :=
  match t with
  | Coil => option_map VBit (get_entry (coils d) i)
  | Discrete => option_map VBit (get_entry (discrete d) i)
  | Holding => option_map VReg (get_entry (holding d) i)
  | Input => option_map VReg (get_entry (input d) i)
  end.

(* every index is bound at most once in each map *)
Definition wf (d : database) : Prop :=
  NoDup (keys (coils d)) /\ NoDup (keys (discrete d)) /\
  NoDup (keys (holding d)) /\ NoDup (keys (input d)).

Definition op_ok_prop (o : op) : Prop := op_ok o = true.

Lemma present_map {T} (f : T -> value) (m : list (N * T)) i :
  present (option_map f (get_entry m i)) = occupied m i.
Proof. unfold occupied. now destruct (get_entry m i). Qed.

Lemma wf_empty : wf db_empty.
Proof. repeat split; constructor. Qed.

Lemma abs_empty t i : abs db_empty t i = None.
Proof. now destruct t. Qed.

(* under wf, abs is membership in the corresponding list: abs does not depend on lookup order *)
Lemma abs_In d : wf d -> forall t i v,
  abs d t i = Some v <->
  match t, v with
  | Coil, VBit b => In (i, b) (coils d)
  | Discrete, VBit b => In (i, b) (discrete d)
  | Holding, VReg r => In (i, r) (holding d)
  | Input, VReg r => In (i, r) (input d)
  | _, _ => False
  end.
Proof.
  intros (H1 & H2 & H3 & H4) t i v.
  destruct t, v; cbn [abs];
    try (split; [destruct (get_entry _ i); discriminate|tauto]).
  - rewrite <- (get_entry_In _ _ _ H1). destruct (get_entry (coils d) i); cbn; split; congruence.
  - rewrite <- (get_entry_In _ _ _ H2). destruct (get_entry (discrete d) i); cbn; split; congruence.
  - rewrite <- (get_entry_In _ _ _ H3). destruct (get_entry (holding d) i); cbn; split; congruence.
  - rewrite <- (get_entry_In _ _ _ H4). destruct (get_entry (input d) i); cbn; split; congruence.
Qed.
Print Assumptions abs_In.

(* abs only ever yields values of the right type *)
Lemma abs_typed d t i v : abs d t i = Some v -> value_ok t v = true.
Proof. destruct t; cbn [abs]; destruct (get_entry _ i); cbn; intros [= <-]; reflexivity. Qed.

(* ------------------------------------------------------------------------------------------ *)
(* each operation, described through abs                                                       *)
(* ------------------------------------------------------------------------------------------ *)

Ltac mutating Lsnd Lget p :=
  let m := fresh "m" in let r := fresh "r" in let E := fresh "E" in
  let Hs := fresh "Hs" in let Hg := fresh "Hg" in
  pose proof Lsnd as Hs; pose proof Lget as Hg;
  destruct p as [m r] eqn:E; cbn [fst snd] in Hs, Hg |- *;
  split; [now rewrite present_map, Hs|];
  intros t' i'; destruct t';
  cbn [abs set_coils set_discrete set_holding set_input coils discrete holding input
       ptype_eqb andb]; rewrite ?present_map, ?andb_false_r; try reflexivity;
  rewrite Hg.

Lemma exec_add d t i v : value_ok t v = true ->
  snd (exec d (Add t i v)) = RBool (negb (present (abs d t i))) /\
  forall t' i', abs (fst (exec d (Add t i v))) t' i'
              = if negb (present (abs d t i)) && (ptype_eqb t t' && N.eqb i i')
                then Some v else abs d t' i'.
Proof.
  destruct t, v; try discriminate; intros _; cbn [exec abs];
    unfold database_add_coil, database_add_discrete_input, database_add_holding_register,
           database_add_input_register, ret_bool.
  - mutating (@add_entry_snd bool (coils d) i b) (@add_entry_get bool (coils d) i b) (add_entry (coils d) i b).
    now destruct (negb (occupied (coils d) i) && N.eqb i i').
  - mutating (@add_entry_snd bool (discrete d) i b) (@add_entry_get bool (discrete d) i b) (add_entry (discrete d) i b).
    now destruct (negb (occupied (discrete d) i) && N.eqb i i').
  - mutating (@add_entry_snd N (holding d) i r) (@add_entry_get N (holding d) i r) (add_entry (holding d) i r).
    now destruct (negb (occupied (holding d) i) && N.eqb i i').
  - mutating (@add_entry_snd N (input d) i r) (@add_entry_get N (input d) i r) (add_entry (input d) i r).
    now destruct (negb (occupied (input d) i) && N.eqb i i').
Qed.

Lemma exec_update d t i v : value_ok t v = true ->
  snd (exec d (Update t i v)) = RBool (present (abs d t i)) /\
  forall t' i', abs (fst (exec d (Update t i v))) t' i'
              = if present (abs d t i) && (ptype_eqb t t' && N.eqb i i')
                then Some v else abs d t' i'.
Proof.
  destruct t, v; try discriminate; intros _; cbn [exec abs];
    unfold database_update_coil, database_update_discrete_input, database_update_holding_register,
           database_update_input_register, ret_bool.
  - mutating (@update_entry_snd bool (coils d) i b) (@update_entry_get bool (coils d) i b) (update_entry (coils d) i b).
    now destruct (occupied (coils d) i && N.eqb i i').
  - mutating (@update_entry_snd bool (discrete d) i b) (@update_entry_get bool (discrete d) i b) (update_entry (discrete d) i b).
    now destruct (occupied (discrete d) i && N.eqb i i').
  - mutating (@update_entry_snd N (holding d) i r) (@update_entry_get N (holding d) i r) (update_entry (holding d) i r).
    now destruct (occupied (holding d) i && N.eqb i i').
  - mutating (@update_entry_snd N (input d) i r) (@update_entry_get N (input d) i r) (update_entry (input d) i r).
    now destruct (occupied (input d) i && N.eqb i i').
Qed.

Lemma exec_delete d t i :
  snd (exec d (Delete t i)) = RBool (present (abs d t i)) /\
  forall t' i', abs (fst (exec d (Delete t i))) t' i'
              = if present (abs d t i) && (ptype_eqb t t' && N.eqb i i')
                then None else abs d t' i'.
Proof.
  destruct t; cbn [exec abs];
    unfold database_delete_coil, database_delete_discrete_input, database_delete_holding_register,
           database_delete_input_register, ret_bool.
  - mutating (@remove_entry_snd bool (coils d) i) (@remove_entry_get bool (coils d) i) (remove_entry (coils d) i).
    destruct (N.eqb_spec i i') as [<-|]; rewrite ?andb_false_r; [|reflexivity].
    unfold occupied. now destruct (get_entry (coils d) i).
  - mutating (@remove_entry_snd bool (discrete d) i) (@remove_entry_get bool (discrete d) i) (remove_entry (discrete d) i).
    destruct (N.eqb_spec i i') as [<-|]; rewrite ?andb_false_r; [|reflexivity].
    unfold occupied. now destruct (get_entry (discrete d) i).
  - mutating (@remove_entry_snd N (holding d) i) (@remove_entry_get N (holding d) i) (remove_entry (holding d) i).
    destruct (N.eqb_spec i i') as [<-|]; rewrite ?andb_false_r; [|reflexivity].
    unfold occupied. now destruct (get_entry (holding d) i).
  - mutating (@remove_entry_snd N (input d) i) (@remove_entry_get N (input d) i) (remove_entry (input d) i).
    destruct (N.eqb_spec i i') as [<-|]; rewrite ?andb_false_r; [|reflexivity].
    unfold occupied. now destruct (get_entry (input d) i).
Qed.

Lemma exec_get d t i : exec d (Get t i) = (d, RGet (abs d t i)).
Proof. now destruct t. Qed.

(* --- reads --- *)

Lemma cells_S (f : N -> option value) start c :
  map (fun k => f (start + N.of_nat k)) (seq 0 (S c))
  = f start :: map (fun k => f (start + 1 + N.of_nat k)) (seq 0 c).
Proof.
  cbn [seq map]. f_equal; [f_equal; lia|].
  rewrite <- seq_shift, map_map. apply map_ext. intros k. f_equal. lia.
Qed.

Lemma read_range_refine {T} (f : T -> value) (m : list (N * T)) count : forall start,
  reply_map f (read_range (read_point m) start count)
  = spec_read (fun a => option_map f (get_entry m a)) start count.
Proof.
  set (F := fun a : N => option_map f (get_entry m a)).
  induction count as [|c IH]; intros start; [reflexivity|].
  specialize (IH (start + 1)). unfold spec_read in *. rewrite cells_S.
  cbn [read_range forallb values flat_map]. unfold read_point at 1.
  assert (HF : F start = option_map f (get_entry m start)) by reflexivity. rewrite HF. clear HF.
  destruct (get_entry m start) as [x|]; cbn [option_map present andb reply_map]; [|reflexivity].
  fold (values (map (fun k => F (start + 1 + N.of_nat k)) (seq 0 c))).
  destruct (read_range (read_point m) (start + 1) c) as [xs|e]; cbn [reply_map] in *;
    destruct (forallb present _); try discriminate; [|assumption].
  injection IH as <-. reflexivity.
Qed.

Lemma read_reply_abs d t start count : read_reply d t start count = spec_read (abs d t) start count.
Proof. destruct t; cbn [read_reply]; apply read_range_refine. Qed.

Lemma spec_read_ext f g start count : (forall a, f a = g a) -> spec_read f start count = spec_read g start count.
Proof.
  intros H. unfold spec_read.
  now rewrite (map_ext (fun k => f (start + N.of_nat k)) (fun k => g (start + N.of_nat k))) by (intros; apply H).
Qed.

Lemma forallb_present_false l : forallb present l = false <-> In None l.
Proof.
  induction l as [|[v|] r IH]; cbn [forallb present andb In].
  - split; [discriminate|tauto].
  - rewrite IH. split; [tauto|]. intros [H|H]; [discriminate|assumption].
  - split; [now left|reflexivity].
Qed.

Lemma values_present l : forallb present l = true -> map Some (values l) = l.
Proof.
  induction l as [|[v|] r IH]; cbn [forallb present andb values flat_map app map]; intros H;
    [reflexivity| |discriminate].
  f_equal. now apply IH.
Qed.

Lemma map_Some_inj {A} (l l' : list A) : map Some l = map Some l' -> l = l'.
Proof.
  revert l'. induction l as [|x l IH]; intros [|y l']; cbn [map]; try discriminate; [reflexivity|].
  intros [= -> H]. f_equal. now apply IH.
Qed.

Lemma spec_read_exception f start count e :
  spec_read f start count = inr e <->
  e = 2 /\ exists k, (k < count)%nat /\ f (start + N.of_nat k) = None.
Proof.
  unfold spec_read. destruct (forallb present _) eqn:E.
  - split; [discriminate|]. intros (_ & k & Hk & Hf). exfalso.
    rewrite forallb_forall in E. specialize (E None). cbn in E.
    enough (false = true) by discriminate. apply E. apply in_map_iff. exists k. split; [assumption|].
    apply in_seq. lia.
  - apply forallb_present_false in E. apply in_map_iff in E as (k & Hf & Hin). apply in_seq in Hin.
    split.
    + intros [= <-]. split; [reflexivity|]. exists k. split; [lia|assumption].
    + intros (-> & _). reflexivity.
Qed.

Lemma spec_read_values f start count vs :
  spec_read f start count = inl vs <->
  map Some vs = map (fun k => f (start + N.of_nat k)) (seq 0 count).
Proof.
  unfold spec_read. destruct (forallb present _) eqn:E.
  - pose proof (values_present _ E) as Hv. split.
    + intros [= <-]. exact Hv.
    + intros H. f_equal. apply map_Some_inj. rewrite Hv. symmetry. exact H.
  - split; [discriminate|]. intros H. exfalso. apply forallb_present_false in E.
    rewrite <- H in E. apply in_map_iff in E as (? & ? & _). discriminate.
Qed.

(* ------------------------------------------------------------------------------------------ *)
(* the invariant is preserved                                                                  *)
(* ------------------------------------------------------------------------------------------ *)

Lemma ret_bool_fst {A} (p : A * bool) (f : A -> database) :
  fst (ret_bool (let (m, r) := p in (f m, r))) = f (fst p).
Proof. now destruct p. Qed.

Lemma remove_entry_nodup {T} (m : list (N * T)) i : NoDup (keys m) -> NoDup (keys (fst (remove_entry m i))).
Proof. intros H. rewrite remove_entry_keys. now apply NoDup_filter. Qed.

Lemma update_entry_nodup {T} (m : list (N * T)) i v : NoDup (keys m) -> NoDup (keys (fst (update_entry m i v))).
Proof. now rewrite update_entry_keys. Qed.

Lemma exec_wf d o : wf d -> wf (fst (exec d o)).
Proof.
  intros (H1 & H2 & H3 & H4).
  destruct o as [t i v|t i v|t i|t i|t s c]; [destruct t, v|destruct t, v|destruct t|destruct t|];
    cbn [exec fst]; try (repeat split; assumption);
    unfold database_add_coil, database_add_discrete_input, database_add_holding_register,
           database_add_input_register, database_update_coil, database_update_discrete_input,
           database_update_holding_register, database_update_input_register,
           database_delete_coil, database_delete_discrete_input, database_delete_holding_register,
           database_delete_input_register;
    rewrite ret_bool_fst; unfold wf;
    cbn [set_coils set_discrete set_holding set_input coils discrete holding input];
    repeat split; try assumption;
    first [now apply add_entry_nodup | now apply update_entry_nodup | now apply remove_entry_nodup].
Qed.
Print Assumptions exec_wf.

Lemma run_wf ops : forall d, wf d -> wf (fst (run d ops)).
Proof.
  induction ops as [|o r IH]; intros d H; cbn [run]; [exact H|].
  pose proof (exec_wf d o H) as H1. destruct (exec d o) as [d1 x]. cbn [fst] in H1.
  specialize (IH d1 H1). destruct (run d1 r) as [d2 xs]. exact IH.
Qed.
Print Assumptions run_wf.

(* ------------------------------------------------------------------------------------------ *)
(* refinement                                                                                  *)
(* ------------------------------------------------------------------------------------------ *)

Definition related (d : database) (s : spec_state) : Prop := forall t i, abs d t i = s t i.

Lemma related_empty : related db_empty spec_empty.
Proof. intros t i. apply abs_empty. Qed.

Lemma step_refine d s o : op_ok_prop o -> related d s ->
  snd (exec d o) = snd (spec_exec s o) /\ related (fst (exec d o)) (fst (spec_exec s o)).
Proof.
  unfold op_ok_prop, related. intros Hok H.
  destruct o as [t i v|t i v|t i|t i|t st c]; cbn [op_ok] in Hok; cbn [spec_exec].
  - destruct (exec_add d t i v Hok) as [Hr Ha]. rewrite Hr, <- (H t i).
    destruct (present (abs d t i)); cbn [negb fst snd andb] in *; (split; [reflexivity|]); intros t' i';
      rewrite Ha; [apply H|]. unfold spec_set. rewrite <- H. reflexivity.
  - destruct (exec_update d t i v Hok) as [Hr Ha]. rewrite Hr, <- (H t i).
    destruct (present (abs d t i)); cbn [negb fst snd andb] in *; (split; [reflexivity|]); intros t' i';
      rewrite Ha; [|apply H]. unfold spec_set. rewrite <- H. reflexivity.
  - destruct (exec_delete d t i) as [Hr Ha]. rewrite Hr, <- (H t i).
    destruct (present (abs d t i)); cbn [negb fst snd andb] in *; (split; [reflexivity|]); intros t' i';
      rewrite Ha; [|apply H]. unfold spec_set. rewrite <- H. reflexivity.
  - rewrite exec_get. cbn [fst snd]. rewrite (H t i). split; [reflexivity|exact H].
  - cbn [exec fst snd]. rewrite read_reply_abs, (spec_read_ext _ _ st c (H t)). split; [reflexivity|exact H].
Qed.

(* results identical and final abstract states pointwise equal, from any related pair *)
Theorem C19_refine_from : forall ops d s, related d s -> Forall op_ok_prop ops ->
  snd (run d ops) = snd (spec_run s ops) /\ related (fst (run d ops)) (fst (spec_run s ops)).
Proof.
  induction ops as [|o r IH]; intros d s Hrel Hok; cbn [run spec_run]; [split; [reflexivity|exact Hrel]|].
  inversion Hok as [|? ? Ho Hr]; subst.
  destruct (step_refine d s o Ho Hrel) as [Hx Hrel1].
  destruct (exec d o) as [d1 x]. destruct (spec_exec s o) as [s1 x']. cbn [fst snd] in Hx, Hrel1.
  specialize (IH d1 s1 Hrel1 Hr).
  destruct (run d1 r) as [d2 xs]. destruct (spec_run s1 r) as [s2 xs']. cbn [fst snd] in *.
  destruct IH as [-> IH]. subst x'. split; [reflexivity|exact IH].
Qed.
Print Assumptions C19_refine_from.

(* the version with the invariant: from any well-formed database related to a spec state *)
Theorem C19_refine_wf : forall ops d s, wf d -> related d s -> Forall op_ok_prop ops ->
  let (d', rs) := run d ops in
  let (s', rs') := spec_run s ops in
  rs = rs' /\ (forall t i, abs d' t i = s' t i) /\ wf d'.
Proof.
  intros ops d s Hwf Hrel Hok.
  pose proof (C19_refine_from ops d s Hrel Hok) as [H1 H2]. pose proof (run_wf ops d Hwf) as H3.
  destruct (run d ops) as [d' rs]. destruct (spec_run s ops) as [s' rs']. cbn [fst snd] in *.
  split; [exact H1|]. split; [exact H2|exact H3].
Qed.
Print Assumptions C19_refine_wf.

(* all operation sequences from the empty database *)
Theorem C19_refine : forall ops, Forall op_ok_prop ops ->
  let (d, rs) := run db_empty ops in
  let (s, rs') := spec_run spec_empty ops in
  rs = rs' /\ (forall t i, abs d t i = s t i) /\ wf d.
Proof. intros ops Hok. exact (C19_refine_wf ops db_empty spec_empty wf_empty related_empty Hok). Qed.
Print Assumptions C19_refine.

(* what the correspondence check compares *)
Corollary C19_refine_shown : forall ops, Forall op_ok_prop ops ->
  show_results (snd (run db_empty ops)) = show_results (snd (spec_run spec_empty ops)).
Proof. intros ops Hok. now rewrite (proj1 (C19_refine_from ops _ _ related_empty Hok)). Qed.
Print Assumptions C19_refine_shown.

(* ------------------------------------------------------------------------------------------ *)
(* the clauses of the property, one by one, against abs                                        *)
(* ------------------------------------------------------------------------------------------ *)

Lemma ptype_eqb_spec a b : reflect (a = b) (ptype_eqb a b).
Proof. destruct a, b; constructor; congruence. Qed.

Lemma present_false o : present o = false <-> o = None.
Proof. destruct o; cbn; split; congruence. Qed.
Lemma present_true o : present o = true <-> o <> None.
Proof. destruct o; cbn; split; congruence. Qed.

Lemma hit t i : ptype_eqb t t && N.eqb i i = true.
Proof. rewrite N.eqb_refl. now destruct t. Qed.
Lemma miss t i t' i' : (t', i') <> (t, i) -> ptype_eqb t t' && N.eqb i i' = false.
Proof.
  intros H. destruct (ptype_eqb_spec t t') as [<-|]; [|reflexivity].
  destruct (N.eqb_spec i i') as [<-|]; [congruence|reflexivity].
Qed.

(* add succeeds exactly for absent indices *)
Theorem C19_add_iff d t i v : value_ok t v = true ->
  (snd (exec d (Add t i v)) = RBool true <-> abs d t i = None).
Proof.
  intros Hok. rewrite (proj1 (exec_add d t i v Hok)), <- present_false.
  destruct (present (abs d t i)); cbn; split; congruence.
Qed.
Print Assumptions C19_add_iff.

Theorem C19_add_fail_iff d t i v : value_ok t v = true ->
  (snd (exec d (Add t i v)) = RBool false <-> abs d t i <> None).
Proof.
  intros Hok. rewrite (proj1 (exec_add d t i v Hok)), <- present_true.
  destruct (present (abs d t i)); cbn; split; congruence.
Qed.
Print Assumptions C19_add_fail_iff.

(* a successful add binds exactly (t, i) to v *)
Theorem C19_add_effect d t i v : value_ok t v = true -> abs d t i = None ->
  abs (fst (exec d (Add t i v))) t i = Some v /\
  forall t' i', (t', i') <> (t, i) -> abs (fst (exec d (Add t i v))) t' i' = abs d t' i'.
Proof.
  intros Hok Hn. destruct (exec_add d t i v Hok) as [_ Ha]. split; [|intros t' i' Hne]; rewrite Ha, Hn; cbn [present negb andb].
  - now rewrite hit.
  - now rewrite miss.
Qed.
Print Assumptions C19_add_effect.

(* update succeeds exactly for present indices *)
Theorem C19_update_iff d t i v : value_ok t v = true ->
  (snd (exec d (Update t i v)) = RBool true <-> abs d t i <> None).
Proof.
  intros Hok. rewrite (proj1 (exec_update d t i v Hok)), <- present_true.
  destruct (present (abs d t i)); cbn; split; congruence.
Qed.
Print Assumptions C19_update_iff.

Theorem C19_update_fail_iff d t i v : value_ok t v = true ->
  (snd (exec d (Update t i v)) = RBool false <-> abs d t i = None).
Proof.
  intros Hok. rewrite (proj1 (exec_update d t i v Hok)), <- present_false.
  destruct (present (abs d t i)); cbn; split; congruence.
Qed.
Print Assumptions C19_update_fail_iff.

Theorem C19_update_effect d t i v : value_ok t v = true -> abs d t i <> None ->
  abs (fst (exec d (Update t i v))) t i = Some v /\
  forall t' i', (t', i') <> (t, i) -> abs (fst (exec d (Update t i v))) t' i' = abs d t' i'.
Proof.
  intros Hok Hn. apply present_true in Hn. destruct (exec_update d t i v Hok) as [_ Ha].
  split; [|intros t' i' Hne]; rewrite Ha, Hn; cbn [andb].
  - now rewrite hit.
  - now rewrite miss.
Qed.
Print Assumptions C19_update_effect.

(* delete succeeds exactly for present indices *)
Theorem C19_delete_iff d t i :
  snd (exec d (Delete t i)) = RBool true <-> abs d t i <> None.
Proof.
  rewrite (proj1 (exec_delete d t i)), <- present_true.
  destruct (present (abs d t i)); cbn; split; congruence.
Qed.
Print Assumptions C19_delete_iff.

Theorem C19_delete_fail_iff d t i :
  snd (exec d (Delete t i)) = RBool false <-> abs d t i = None.
Proof.
  rewrite (proj1 (exec_delete d t i)), <- present_false.
  destruct (present (abs d t i)); cbn; split; congruence.
Qed.
Print Assumptions C19_delete_fail_iff.

(* after delete (successful or not) the index is absent; nothing else moves *)
Theorem C19_delete_effect d t i :
  abs (fst (exec d (Delete t i))) t i = None /\
  forall t' i', (t', i') <> (t, i) -> abs (fst (exec d (Delete t i))) t' i' = abs d t' i'.
Proof.
  destruct (exec_delete d t i) as [_ Ha]. split; [|intros t' i' Hne]; rewrite Ha.
  - rewrite hit, andb_true_r. destruct (abs d t i); reflexivity.
  - now rewrite miss, andb_false_r.
Qed.
Print Assumptions C19_delete_effect.

(* a failing add / update / delete leaves the abstract state as it was *)
Theorem C19_fail_unchanged d o : op_ok_prop o ->
  snd (exec d o) = RBool false -> forall t i, abs (fst (exec d o)) t i = abs d t i.
Proof.
  unfold op_ok_prop. destruct o as [t i v|t i v|t i|t i|t st c]; cbn [op_ok]; intros Hok Hf t' i'.
  - destruct (exec_add d t i v Hok) as [Hr Ha]. rewrite Ha. rewrite Hr in Hf.
    injection Hf as ->. reflexivity.
  - destruct (exec_update d t i v Hok) as [Hr Ha]. rewrite Ha. rewrite Hr in Hf.
    injection Hf as ->. reflexivity.
  - destruct (exec_delete d t i) as [Hr Ha]. rewrite Ha. rewrite Hr in Hf.
    injection Hf as ->. reflexivity.
  - now rewrite exec_get.
  - reflexivity.
Qed.
Print Assumptions C19_fail_unchanged.

(* ... and in fact leaves the database itself untouched ("else unchanged") *)
Lemma set_coils_id d : set_coils d (coils d) = d. Proof. now destruct d. Qed.
Lemma set_discrete_id d : set_discrete d (discrete d) = d. Proof. now destruct d. Qed.
Lemma set_holding_id d : set_holding d (holding d) = d. Proof. now destruct d. Qed.
Lemma set_input_id d : set_input d (input d) = d. Proof. now destruct d. Qed.

Theorem C19_fail_identical d o : op_ok_prop o -> snd (exec d o) = RBool false -> fst (exec d o) = d.
Proof.
  unfold op_ok_prop. intros Hok Hf.
  destruct o as [t i v|t i v|t i|t i|t st c]; cbn [op_ok] in Hok.
  - pose proof (proj1 (C19_add_fail_iff d t i v Hok) Hf) as Hp. apply present_true in Hp.
    destruct t, v; try discriminate; cbn [exec abs] in *; rewrite present_map in Hp;
      unfold database_add_coil, database_add_discrete_input, database_add_holding_register,
             database_add_input_register; rewrite ret_bool_fst, add_entry_unchanged by assumption;
      auto using set_coils_id, set_discrete_id, set_holding_id, set_input_id.
  - pose proof (proj1 (C19_update_fail_iff d t i v Hok) Hf) as Hp. apply present_false in Hp.
    destruct t, v; try discriminate; cbn [exec abs] in *; rewrite present_map in Hp;
      unfold database_update_coil, database_update_discrete_input, database_update_holding_register,
             database_update_input_register; rewrite ret_bool_fst, update_entry_unchanged by assumption;
      auto using set_coils_id, set_discrete_id, set_holding_id, set_input_id.
  - pose proof (proj1 (C19_delete_fail_iff d t i) Hf) as Hp. apply present_false in Hp.
    destruct t; cbn [exec abs] in *; rewrite present_map in Hp;
      unfold database_delete_coil, database_delete_discrete_input, database_delete_holding_register,
             database_delete_input_register; rewrite ret_bool_fst, remove_entry_unchanged by assumption;
      auto using set_coils_id, set_discrete_id, set_holding_id, set_input_id.
  - now rewrite exec_get.
  - reflexivity.
Qed.
Print Assumptions C19_fail_identical.

(* get returns the bound value and fails (ParamError::InvalidIndex) exactly for absent indices *)
Theorem C19_get d t i : exec d (Get t i) = (d, RGet (abs d t i)).
Proof. apply exec_get. Qed.
Print Assumptions C19_get.

Theorem C19_get_iff d t i : snd (exec d (Get t i)) = RGet None <-> abs d t i = None.
Proof. rewrite exec_get. cbn [snd]. split; congruence. Qed.
Print Assumptions C19_get_iff.

(* reads never change the database *)
Theorem C19_read_unchanged d t start count : fst (exec d (Read t start count)) = d.
Proof. reflexivity. Qed.
Print Assumptions C19_read_unchanged.

(* a read touching an absent point is answered with exception 02 *)
Theorem C19_read_absent d t start count :
  (exists k, (k < count)%nat /\ abs d t (start + N.of_nat k) = None) ->
  snd (exec d (Read t start count)) = RRead (inr 2).
Proof.
  intros H. cbn [exec snd]. rewrite read_reply_abs. f_equal. apply spec_read_exception. now split.
Qed.
Print Assumptions C19_read_absent.

(* ... and only such a read is; no other exception code is ever produced *)
Theorem C19_read_exception_iff d t start count e :
  snd (exec d (Read t start count)) = RRead (inr e) <->
  e = 2 /\ exists k, (k < count)%nat /\ abs d t (start + N.of_nat k) = None.
Proof.
  cbn [exec snd]. rewrite read_reply_abs, <- spec_read_exception. split; [now intros [= ->]|now intros ->].
Qed.
Print Assumptions C19_read_exception_iff.

(* a read of present points returns their values in ascending address order *)
Theorem C19_read_present d t start count :
  (forall k, (k < count)%nat -> abs d t (start + N.of_nat k) <> None) ->
  exists vs, snd (exec d (Read t start count)) = RRead (inl vs) /\
             map Some vs = map (fun k => abs d t (start + N.of_nat k)) (seq 0 count).
Proof.
  intros H. cbn [exec snd]. rewrite read_reply_abs.
  destruct (spec_read (abs d t) start count) as [vs|e] eqn:E.
  - exists vs. split; [reflexivity|]. now apply spec_read_values.
  - exfalso. apply spec_read_exception in E as (_ & k & Hk & Hn). exact (H k Hk Hn).
Qed.
Print Assumptions C19_read_present.

Theorem C19_read_values_iff d t start count vs :
  snd (exec d (Read t start count)) = RRead (inl vs) <->
  map Some vs = map (fun k => abs d t (start + N.of_nat k)) (seq 0 count).
Proof.
  cbn [exec snd]. rewrite read_reply_abs, <- spec_read_values. split; [now intros [= ->]|now intros ->].
Qed.
Print Assumptions C19_read_values_iff.

(* ------------------------------------------------------------------------------------------ *)
(* non-vacuity                                                                                 *)
(* ------------------------------------------------------------------------------------------ *)

Definition demo : list op :=
  [ Add Coil 1 (VBit true); Add Coil 1 (VBit false); Get Coil 1; Update Coil 2 (VBit true);
    Add Coil 2 (VBit false); Read Coil 1 2; Read Coil 1 3; Add Holding 7 (VReg 65535);
    Get Holding 7; Get Input 7; Get Discrete 1; Delete Coil 1; Delete Coil 1; Read Coil 1 2;
    Update Holding 7 (VReg 12); Read Holding 7 1; Add Input 0 (VReg 3); Add Discrete 9 (VBit true);
    Read Input 0 1; Read Discrete 9 1; Read Coil 5 0 ].

Local Open Scope string_scope.
Example demo_ok : Forall op_ok_prop demo.
Proof. repeat constructor. Qed.
Example demo_model : show_results (snd (run db_empty demo))
  = "T;F;b1;F;T;[b1,b0];E2;T;r65535;-;-;T;F;E2;T;[r12];T;T;[r3];[b1];[]".
Proof. vm_compute. reflexivity. Qed.
Example demo_spec : show_results (snd (spec_run spec_empty demo))
  = "T;F;b1;F;T;[b1,b0];E2;T;r65535;-;-;T;F;E2;T;[r12];T;T;[r3];[b1];[]".
Proof. vm_compute. reflexivity. Qed.
Example demo_state : fst (run db_empty demo)
  = {| coils := [(2, false)]; discrete := [(9, true)]; holding := [(7, 12)]; input := [(0, 3)] |}%N.
Proof. vm_compute. reflexivity. Qed.
(* the four maps are independent: the same index in another type is untouched *)
Example demo_independent :
  show_results (snd (run db_empty [Add Coil 4 (VBit true); Get Discrete 4; Get Holding 4; Get Input 4;
                                   Add Holding 4 (VReg 9); Delete Coil 4; Get Holding 4]))
  = "T;-;-;-;T;T;r9".
Proof. vm_compute. reflexivity. Qed.
(* the first absent address decides, whatever follows it *)
Example demo_first_absent :
  show_results (snd (run db_empty [Add Holding 10 (VReg 1); Add Holding 12 (VReg 3); Read Holding 10 3;
                                   Add Holding 11 (VReg 2); Read Holding 10 3]))
  = "T;T;E2;T;[r1,r2,r3]".
Proof. vm_compute. reflexivity. Qed.
(* op_ok is a real restriction: on an ill-typed operation (which the Rust API cannot express) the
   inert model and the untyped oracle differ, so the refinement theorem needs the hypothesis *)
Example ill_typed_differs :
  snd (exec db_empty (Add Coil 1 (VReg 5))) <> snd (spec_exec spec_empty (Add Coil 1 (VReg 5))).
Proof. vm_compute. discriminate. Qed.
