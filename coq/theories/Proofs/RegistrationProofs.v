(* A refused rodbus_device_map_add_endpoint (unit id already registered) has no effect. *)
From Coq Require Import NArith List String Bool.
From Rodbus Require Import Base.ServerTypes Gen.LockScope Model.DbTypes Model.Database Model.FfiServer Spec.FfiWireSpec Model.FfiWire.
Import ListNotations.

Theorem refused_registration W model units tx ops rest :
  run_items W model units tx (IDup ops :: rest) =
  (let '(out, u') := run_items W model units tx rest in ("dup=F"%string :: out, u')).
Proof. reflexivity. Qed.

Theorem refused_first : duplicate_unit_refused_before_any_effect = true.
Proof. reflexivity. Qed.
