From Coq Require Import List String Bool NArith Lia.
From Rodbus Require Import Base.Outcome Spec.TlsSpec Gen.TlsVersions Gen.TlsModes Model.Tls.
Import ListNotations.

(* ------------------------------------------------------------------ minimum version table *)
Lemma versions_correct : forall m v, enabled (versions_of m) v = true <-> vle (min_meaning m) v = true.
Proof. intros m v. destruct m, v; cbn; split; intros H; try reflexivity; try discriminate H. Qed.

Lemma never_below_minimum m p v : negotiate (versions_of m) p = Some v -> vle (min_meaning m) v = true /\ offered p v = true.
Proof.
  unfold negotiate. destruct (enabled (versions_of m) TLS13 && offers13 p) eqn:E3.
  - intros H; inversion H; subst. apply andb_prop in E3. destruct E3 as [E Ho]. split; [now apply versions_correct|exact Ho].
  - destruct (enabled (versions_of m) TLS12 && offers12 p) eqn:E2; [|discriminate].
    intros H; inversion H; subst. apply andb_prop in E2. destruct E2 as [E Ho]. split; [now apply versions_correct|exact Ho].
Qed.

Lemma always_at_or_above_minimum m p v :
  offered p v = true -> vle (min_meaning m) v = true -> exists v', negotiate (versions_of m) p = Some v'.
Proof.
  intros Ho Hv. apply versions_correct in Hv. unfold negotiate. destruct v; cbn in Ho.
  - destruct (enabled (versions_of m) TLS13 && offers13 p); [eauto|]. rewrite Hv, Ho. cbn. eauto.
  - rewrite Hv, Ho. cbn. eauto.
Qed.

(* ------------------------------------------------------------------ certificate mode tables *)
Section Modes.
  Variable cv nv sv : peer_cert -> bool.

  Lemma server_mode_correct m c :
    verifier_accepts cv nv sv (server_new m) c =
      match mode_meaning m with ModeAuthority => cv c | ModeSelfSigned => sv c end
    /\ snd (server_new m) = true.
  Proof. destruct m; cbn; split; try reflexivity; now rewrite andb_true_r. Qed.

  Lemma client_mode_correct m name_given c :
    verifier_accepts cv nv sv (client_use m name_given) c =
      match mode_meaning m with
      | ModeAuthority => cv c && (if name_given then nv c else true)
      | ModeSelfSigned => sv c
      end
    /\ snd (client_use m name_given) = true.
  Proof. destruct m, name_given; cbn; split; reflexivity. Qed.
End Modes.

Lemma legacy_client_new m : client_new m = client_use m true.
Proof. destruct m; reflexivity. Qed.

Lemma ffi_client_correct m name_given : ffi_client m name_given = (client_use m name_given, true).
Proof. destruct m; reflexivity. Qed.

Lemma ffi_tables_correct :
  ffi_min_tls_version = [("V12", "V1_2"); ("V13", "V1_3")]%string /\
  ffi_certificate_mode = [("AuthorityBased", "AuthorityBased"); ("SelfSigned", "SelfSigned")]%string /\
  ffi_server_forwards_min_version = true /\ ffi_server_forwards_certificate_mode = true /\
  ffi_server_with_authz_handler_spawns = "spawn_tls_server_task_with_authz"%string /\
  ffi_server_without_authz_handler_spawns = "spawn_tls_server_task"%string /\
  client_connects_with_configured_name = true.
Proof. repeat split; reflexivity. Qed.

(* ------------------------------------------------------------------ role extraction *)
Lemma roles_of_in r l : In r (roles_of l) <-> In (ModbusRole r) l.
Proof.
  induction l as [|x l IH]; [cbn; tauto|]. unfold roles_of in *. cbn [flat_map]. rewrite in_app_iff, IH.
  destruct x as [r'|t]; cbn; split.
  - intros [[->|[]]|H]; auto.
  - intros [H|H]; [inversion H; auto|auto].
  - intros [[]|H]; auto.
  - intros [H|H]; [discriminate|auto].
Qed.

Lemma role_exactly_one l r :
  extract_role (Some l) = Ok r <-> (In (ModbusRole r) l /\ role_count l = 1).
Proof.
  unfold extract_role, role_count. rewrite <- roles_of_in. destruct (roles_of l) as [|a [|b rest]]; cbn.
  - split; [discriminate|intros [[] _]].
  - split; [intros H; inversion H; auto|intros [[->|[]] _]; reflexivity].
  - split; [discriminate|intros [_ H]; discriminate].
Qed.

Lemma role_none_refused r : extract_role None <> Ok r.
Proof. discriminate. Qed.

Lemma role_agrees_with_spec c r : extract_role (cert_exts c) = Ok r <-> single_role c = Some r.
Proof.
  unfold extract_role, single_role. destruct (cert_exts c) as [l|]; [|split; discriminate].
  destruct (roles_of l) as [|a [|b rest]]; split; intros H; try discriminate; inversion H; reflexivity.
Qed.

(* ------------------------------------------------------------------ admission *)
Section Admission.
  Variable cv nv sv : peer_cert -> bool.
  Hypothesis cv_ok : forall c, cv c = chains_to_authority c && within_validity c.
  Hypothesis nv_ok : forall c, nv c = name_matches c.
  Hypothesis sv_ok : forall c, sv c = identical_to_configured c && within_validity c.

  Lemma server_admission min mode authz ng p :
    server_handshake cv nv sv min mode authz p = expected (endpoint_of ServerSide min mode authz ng) p.
  Proof.
    unfold server_handshake, expected, endpoint_of, cert_valid, needs_role, negotiate. cbn [e_side e_min e_mode e_authz e_expects_name].
    destruct (server_mode_correct cv nv sv mode (presented p)) as [-> _].
    rewrite cv_ok, sv_ok.
    pose proof (role_agrees_with_spec (presented p)) as Hr.
    destruct (single_role (presented p)) as [r|] eqn:Es.
    - assert (He : extract_role (cert_exts (presented p)) = Ok r) by (now apply Hr). rewrite He.
      destruct min, mode, authz, (offers12 p), (offers13 p), (chains_to_authority (presented p)),
        (identical_to_configured (presented p)), (within_validity (presented p)); reflexivity.
    - assert (He : forall r, extract_role (cert_exts (presented p)) <> Ok r) by (intros r H; apply Hr in H; discriminate).
      destruct (extract_role (cert_exts (presented p))) as [r| |]; [exfalso; now apply (He r)| |];
      destruct min, mode, authz, (offers12 p), (offers13 p), (chains_to_authority (presented p)),
        (identical_to_configured (presented p)), (within_validity (presented p)); reflexivity.
  Qed.

  Lemma client_admission min mode authz ng p :
    client_handshake cv nv sv min mode ng p = expected (endpoint_of ClientSide min mode authz ng) p.
  Proof.
    unfold client_handshake, expected, endpoint_of, cert_valid, needs_role, negotiate. cbn [e_side e_min e_mode e_authz e_expects_name].
    destruct (client_mode_correct cv nv sv mode ng (presented p)) as [-> _].
    rewrite cv_ok, sv_ok, nv_ok.
    destruct min, mode, ng, (offers12 p), (offers13 p), (chains_to_authority (presented p)),
      (identical_to_configured (presented p)), (within_validity (presented p)), (name_matches (presented p)); reflexivity.
  Qed.
End Admission.

Lemma admission s min mode authz ng p : handshake s min mode authz ng p = expected (endpoint_of s min mode authz ng) p.
Proof.
  destruct s; unfold handshake.
  - apply client_admission; intros; reflexivity.
  - apply server_admission; intros; reflexivity.
Qed.

(* the executable oracle is inside what the property allows *)
Lemma expected_allowed e p : allowed e p (expected e p).
Proof.
  unfold expected. destruct (cert_valid e (presented p)) eqn:Ec; [|cbn; auto].
  assert (Hmin13 : vle (e_min e) TLS13 = true) by (destruct (e_min e); reflexivity).
  destruct (offers13 p) eqn:E13.
  - destruct (needs_role e) eqn:En.
    + destruct (single_role (presented p)) as [r|] eqn:Es; cbn; [|auto].
      rewrite En, E13, Es. split; [exact Ec|]. split; [reflexivity|]. split; [exact Hmin13|]. split; [discriminate|reflexivity].
    + cbn. rewrite En, E13. split; [exact Ec|]. split; [reflexivity|]. split; [exact Hmin13|reflexivity].
  - destruct (offers12 p && vle (e_min e) TLS12) eqn:E12.
    + apply andb_prop in E12. destruct E12 as [Eo Ev]. destruct (needs_role e) eqn:En.
      * destruct (single_role (presented p)) as [r|] eqn:Es; cbn; [|auto].
        rewrite En, Eo, Es. split; [exact Ec|]. split; [reflexivity|]. split; [exact Ev|]. split; [discriminate|reflexivity].
      * cbn. rewrite En, Eo. split; [exact Ec|]. split; [reflexivity|]. split; [exact Ev|reflexivity].
    + cbn. right. left. intros v Ho. destruct v; cbn in Ho; [|congruence].
      rewrite Ho in E12. cbn in E12. exact E12.
Qed.

Lemma handshake_allowed s min mode authz ng p : allowed (endpoint_of s min mode authz ng) p (handshake s min mode authz ng p).
Proof. rewrite admission. apply expected_allowed. Qed.

(* ------------------------------------------------------------------ nothing before the handshake *)
Definition establishes (e : sevent) : bool := match e with HandshakeDone (Established _ _) => true | _ => false end.

Lemma quiet_until_established evs : forallb (fun e => negb (establishes e)) evs = true ->
  forall ph, (ph = AwaitHandshake \/ ph = Finished) ->
  (fst (srun ph evs) = AwaitHandshake \/ fst (srun ph evs) = Finished) /\
  forallb (fun l => negb (is_modbus_activity l)) (snd (srun ph evs)) = true.
Proof.
  induction evs as [|e r IH]; intros Hq ph Hph; cbn [srun]; [cbn; auto|].
  cbn [forallb] in Hq. apply andb_prop in Hq. destruct Hq as [He Hr].
  destruct (sstep ph e) as [ph1 l1] eqn:E1.
  assert (H1 : (ph1 = AwaitHandshake \/ ph1 = Finished) /\ forallb (fun l => negb (is_modbus_activity l)) l1 = true).
  { destruct Hph as [-> | ->]; destruct e as [n|[v role|]|]; cbn in E1, He; inversion E1; subst; try discriminate; cbn; auto. }
  destruct H1 as [Hph1 Hl1]. specialize (IH Hr ph1 Hph1). destruct (srun ph1 r) as [ph2 l2]. cbn [fst snd] in *.
  destruct IH as [IHp IHl]. split; [exact IHp|]. rewrite forallb_app, Hl1, IHl. reflexivity.
Qed.

Lemma srun_app ph a b : srun ph (a ++ b) = let '(p1, l1) := srun ph a in let '(p2, l2) := srun p1 b in (p2, l1 ++ l2).
Proof.
  revert ph. induction a as [|e r IH]; intros ph; cbn [app srun].
  - destruct (srun ph b); reflexivity.
  - destruct (sstep ph e) as [ph1 l1]. rewrite IH. destruct (srun ph1 r) as [p1 l1']. destruct (srun p1 b) as [p2 l2].
    now rewrite app_assoc.
Qed.

(* no frame is parsed and no handler / authorization call is logged before an event
   HandshakeDone (Established ..): for every split pre ++ post of every event list in which pre
   contains no such event, the log of the whole run starts with the log of pre, and that log
   contains no Modbus activity *)
Lemma no_bytes_before pre post :
  forallb (fun e => negb (establishes e)) pre = true ->
  (exists rest, snd (srun AwaitHandshake (pre ++ post)) = snd (srun AwaitHandshake pre) ++ rest) /\
  forall l, In l (snd (srun AwaitHandshake pre)) -> is_modbus_activity l = false.
Proof.
  intros Hq. split.
  - rewrite srun_app. destruct (srun AwaitHandshake pre) as [p1 l1]. destruct (srun p1 post) as [p2 l2]. now exists l2.
  - intros l Hin. destruct (quiet_until_established pre Hq AwaitHandshake (or_introl eq_refl)) as [_ Hall].
    rewrite forallb_forall in Hall. specialize (Hall l Hin). now destruct (is_modbus_activity l).
Qed.

(* the role an authorization call sees is the role of the handshake that opened the session *)
Lemma sstep_auth ph e role n : In (AuthCall role n) (snd (sstep ph e)) -> ph = InSession (Some role).
Proof.
  destruct ph as [|[ro|]|]; destruct e as [k|[v ro'|]|]; cbn; try tauto; intros H;
    repeat (destruct H as [H|H]; try discriminate H; try (inversion H; reflexivity)); try contradiction.
Qed.

Lemma sstep_into_session ph e role : fst (sstep ph e) = InSession (Some role) ->
  ph = InSession (Some role) \/ (ph = AwaitHandshake /\ exists v, e = HandshakeDone (Established v (Some role))).
Proof.
  destruct ph as [|ro|]; destruct e as [k|[v ro'|]|]; cbn; intros H; try discriminate; auto.
  inversion H; subst. right. split; [reflexivity|]. now exists v.
Qed.

Lemma sstep_await ph e : fst (sstep ph e) = AwaitHandshake -> ph = AwaitHandshake.
Proof. destruct ph as [|ro|]; destruct e as [k|[v ro'|]|]; cbn; intros H; try discriminate; reflexivity. Qed.

Lemma auth_role_is_handshake_role evs : forall ph role n,
  In (AuthCall role n) (snd (srun ph evs)) ->
  ph = InSession (Some role) \/
  (ph = AwaitHandshake /\ exists v, In (HandshakeDone (Established v (Some role))) evs).
Proof.
  induction evs as [|e r IH]; intros ph role n Hin; cbn [srun] in Hin; [destruct Hin|].
  destruct (sstep ph e) as [ph1 l1] eqn:E1. destruct (srun ph1 r) as [ph2 l2] eqn:E2. cbn [snd] in Hin.
  apply in_app_or in Hin. destruct Hin as [Hin|Hin].
  - left. apply (sstep_auth ph e role n). now rewrite E1.
  - assert (Hx : In (AuthCall role n) (snd (srun ph1 r))) by (rewrite E2; exact Hin).
    destruct (IH ph1 role n Hx) as [H1|[H1 (v & Hv)]].
    + assert (Hf : fst (sstep ph e) = InSession (Some role)) by (now rewrite E1).
      destruct (sstep_into_session _ _ _ Hf) as [H|[H (v & ->)]]; [now left|].
      right. split; [exact H|]. exists v. now left.
    + assert (Hf : fst (sstep ph e) = AwaitHandshake) by (now rewrite E1).
      right. split; [now apply (sstep_await ph e)|]. exists v. now right.
Qed.
