(* Model/FfiTls.v against Spec/FfiSpec.tls_client_spec / tls_server_spec. *)
From Coq Require Import NArith List String Bool.
From Rodbus Require Import Gen.FfiTables Spec.FfiSpec Model.FfiTls.
Import ListNotations.
Local Open Scope string_scope.

Theorem tls_client_call_is_spec : forall c, ffi_tls_client_call c = tls_client_spec (client_in c).
Proof.
  intros [mode dns wc pw mn]. unfold ffi_tls_client_call, tls_client_spec, client_in, opt_of_string.
  destruct mode, mn; cbn; unfold client_conj; cbn;
    destruct wc, (String.eqb dns "*"), (String.eqb pw ""); reflexivity.
Qed.

Theorem tls_server_call_is_spec : forall c, ffi_tls_server_call c = tls_server_spec (server_in c).
Proof.
  intros [mode pw mn]. unfold ffi_tls_server_call, tls_server_spec, server_in, opt_of_string.
  destruct mode, mn; cbn; destruct (String.eqb pw ""); reflexivity.
Qed.

Theorem tls_client_spec_total : forall c, exists call, tls_client_spec (client_in c) = Some call.
Proof. intros [[] dns wc pw []]; eexists; reflexivity. Qed.

Theorem tls_server_spec_total : forall c, exists call, tls_server_spec (server_in c) = Some call.
Proof. intros [[] pw []]; eexists; reflexivity. Qed.

Theorem tls_client_create_is_rust : forall R c, exists call,
  tls_client_spec (client_in c) = Some call /\ ffi_tls_client_create R c = Some (ffi_result (R call)).
Proof.
  intros R c. destruct (tls_client_spec_total c) as [call H]. exists call. split; [exact H|].
  unfold ffi_tls_client_create. now rewrite tls_client_call_is_spec, H.
Qed.

Theorem tls_server_config_is_rust : forall R c, exists call,
  tls_server_spec (server_in c) = Some call /\ ffi_tls_server_config R c = Some (ffi_result (R call)).
Proof.
  intros R c. destruct (tls_server_spec_total c) as [call H]. exists call. split; [exact H|].
  unfold ffi_tls_server_config. now rewrite tls_server_call_is_spec, H.
Qed.

(* the errors keep their names, success stays success *)
Theorem tls_result_same_named :
  ffi_result None = FPE_Ok /\ forall e, param_error_name_ok (name_rust_tls_error e) (name_ffi_param_error (ffi_result (Some e))) = true /\ ffi_result (Some e) <> FPE_Ok.
Proof. split; [reflexivity|]. intros []; split; try reflexivity; discriminate. Qed.

(* dns_name "*" without the flag is an ordinary expected name: the call is full_pki(Some "*", ..) *)
Theorem tls_wildcard_needs_flag : forall R dns wc pw mn,
  ffi_tls_client_create R {| cc_mode := FCM_AuthorityBased; cc_dns_name := dns; cc_wildcard := wc; cc_password := pw; cc_min := mn |}
  = Some (ffi_result (R {| tc_ctor := "full_pki"; tc_name := if wc && String.eqb dns "*" then None else Some dns; tc_files := tls_files;
                           tc_password := opt_of_string pw; tc_min := name_rust_min_tls_version (min_tls_from_ffi mn); tc_mode := None |})).
Proof.
  intros R dns wc pw mn. unfold ffi_tls_client_create. rewrite tls_client_call_is_spec.
  destruct mn; reflexivity.
Qed.
