(* Write cursor and frame formatting lemmas: a body that appends `bs` to the cursor and fits into
   the shared 260-byte buffer yields exactly the Spec's ADU, for both framings. *)
From Coq Require Import NArith List Lia Bool Arith ZArith ZifyBool ZifyNat ZifyN.
From Rodbus Require Import Base.Outcome Base.Cursor Base.ServerTypes Model.Crc Model.Format Model.Server Gen.Consts Spec.Modbus.
Import ListNotations.
Ltac Zify.zify_post_hook ::= Z.div_mod_to_equations.
Local Open Scope N_scope.
Arguments N.add : simpl never. Arguments N.sub : simpl never. Arguments N.mul : simpl never.
Arguments N.eqb : simpl never. Arguments N.ltb : simpl never. Arguments N.leb : simpl never.
Arguments N.div : simpl never. Arguments N.modulo : simpl never.
#[local] Opaque crc.

Ltac room := unfold Cursor.be16, Cursor.le16, be; cbn [w_out w_cap wnew length app]; unfold buffer_capacity; rewrite ?app_length; cbn [length]; lia.

Definition wapp (w : wcur) (bs : list N) : wcur := {| w_cap := w_cap w; w_out := w_out w ++ bs |}.

Lemma wapp_nil w : wapp w [] = w.
Proof. unfold wapp. rewrite app_nil_r. destruct w; reflexivity. Qed.
Lemma wapp_app w a b : wapp (wapp w a) b = wapp w (a ++ b).
Proof. unfold wapp. cbn. rewrite app_assoc. reflexivity. Qed.

Lemma wr_u8_ok w b : (length (w_out w) < w_cap w)%nat -> wr_u8 w b = Some (wapp w [b]).
Proof. intros H. unfold wr_u8. destruct (Nat.ltb_spec (length (w_out w)) (w_cap w)); [reflexivity|lia]. Qed.

Lemma wr_u16_be_ok w v : (length (w_out w) + 2 <= w_cap w)%nat -> wr_u16_be w v = Some (wapp w (Cursor.be16 v)).
Proof.
  intros H. unfold wr_u16_be. rewrite wr_u8_ok by lia.
  rewrite wr_u8_ok by (cbn; rewrite app_length; cbn; lia). rewrite wapp_app. reflexivity.
Qed.

Lemma wr_u16_le_ok w v : (length (w_out w) + 2 <= w_cap w)%nat -> wr_u16_le w v = Some (wapp w (Cursor.le16 v)).
Proof.
  intros H. unfold wr_u16_le. rewrite wr_u8_ok by lia.
  rewrite wr_u8_ok by (cbn; rewrite app_length; cbn; lia). rewrite wapp_app. reflexivity.
Qed.

Lemma be16_be v : Cursor.be16 v = be v.
Proof. reflexivity. Qed.

(* a serializer that appends bs *)
Definition appends (body : wcur -> outcome serr wcur) (w0 : wcur) (bs : list N) : Prop := body w0 = Ok (wapp w0 bs).

Definition tcp_hdr (tx d fv : N) : wcur := {| w_cap := buffer_capacity; w_out := be tx ++ [0; 0; 0; 0] ++ [d; fv] |}.
Definition rtu_hdr (d fv : N) : wcur := {| w_cap := buffer_capacity; w_out := [d; fv] |}.
Definition hdr_of (l : link) (tx d fv : N) : wcur := match l with LTcp => tcp_hdr tx d fv | LRtu => rtu_hdr d fv end.

Lemma hdr_cursor_ok l tx d fv : hdr_cursor l tx d fv = Ok (hdr_of l tx d fv).
Proof. destruct l; reflexivity. Qed.

Lemma hdr_len l tx d fv : (length (w_out (hdr_of l tx d fv)) <= 8)%nat /\ w_cap (hdr_of l tx d fv) = 260%nat.
Proof. destruct l; (split; [cbv [hdr_of tcp_hdr rtu_hdr be w_out app length]; lia | reflexivity]). Qed.

(* Model/Format.v hands the body exactly hdr_of and finishes the frame as the Spec's adu *)
Lemma frame_format_appends l tx d fv body bs :
  appends body (hdr_of l tx d fv) bs -> (length bs <= 252)%nat ->
  frame_format EWrite (fmt_of l) tx d fv body = Ok (adu l (Some tx) d (fv :: bs)).
Proof.
  intros Hb Hlen. destruct l; cbn [fmt_of frame_format].
  - unfold mbap_format, Format.w. cbn [wnew].
    rewrite wr_u16_be_ok by (unfold wapp; room). cbn [of_option obind].
    rewrite wr_u16_be_ok by (unfold wapp; room). cbn [of_option obind].
    rewrite wr_u16_be_ok by (unfold wapp; room). cbn [of_option obind].
    rewrite wr_u8_ok by (unfold wapp; room). cbn [of_option obind].
    rewrite wr_u8_ok by (unfold wapp; room). cbn [of_option obind].
    unfold appends, hdr_of, tcp_hdr in Hb.
    match goal with |- obind (body ?w) _ = _ => replace w with {| w_cap := buffer_capacity; w_out := be tx ++ [0; 0; 0; 0] ++ [d; fv] |} by reflexivity end.
    rewrite Hb. cbn [obind wapp w_out w_cap].
    f_equal. unfold patch_len, adu. cbn [be app firstn skipn length].
    unfold mbap_header_length.
    replace (S (S (S (S (S (S (S (S (length bs)))))))) - 7)%nat with (S (length bs)) by lia.
    rewrite (N.mod_small (N.of_nat (S (length bs)) + 1)) by lia. reflexivity.
  - unfold rtu_format, Format.w. cbn [wnew].
    rewrite wr_u8_ok by (unfold wapp; room). cbn [of_option obind].
    rewrite wr_u8_ok by (unfold wapp; room). cbn [of_option obind].
    unfold appends, hdr_of, rtu_hdr in Hb.
    match goal with |- obind (body ?w) _ = _ => replace w with {| w_cap := buffer_capacity; w_out := [d; fv] |} by reflexivity end.
    rewrite Hb. cbn [obind wapp w_out w_cap].
    rewrite wr_u16_le_ok by (unfold wapp; room). cbn [of_option obind wapp w_out].
    unfold adu, Cursor.le16, lo8, hi8. cbn [app]. try rewrite <- app_assoc. reflexivity.
Qed.

(* errors of the body pass through unchanged *)
Lemma frame_format_err l tx d fv body e :
  body (hdr_of l tx d fv) = Err e -> frame_format EWrite (fmt_of l) tx d fv body = Err e.
Proof.
  intros Hb. destruct l; cbn [fmt_of frame_format].
  - unfold mbap_format, Format.w. cbn [wnew].
    rewrite wr_u16_be_ok by (unfold wapp; room). cbn [of_option obind].
    rewrite wr_u16_be_ok by (unfold wapp; room). cbn [of_option obind].
    rewrite wr_u16_be_ok by (unfold wapp; room). cbn [of_option obind].
    rewrite wr_u8_ok by (unfold wapp; room). cbn [of_option obind].
    rewrite wr_u8_ok by (unfold wapp; room). cbn [of_option obind].
    unfold hdr_of, tcp_hdr in Hb.
    match goal with |- obind (body ?w) _ = _ => replace w with {| w_cap := buffer_capacity; w_out := be tx ++ [0; 0; 0; 0] ++ [d; fv] |} by reflexivity end.
    rewrite Hb. reflexivity.
  - unfold rtu_format, Format.w. cbn [wnew].
    rewrite wr_u8_ok by (unfold wapp; room). cbn [of_option obind].
    rewrite wr_u8_ok by (unfold wapp; room). cbn [of_option obind].
    unfold hdr_of, rtu_hdr in Hb.
    match goal with |- obind (body ?w) _ = _ => replace w with {| w_cap := buffer_capacity; w_out := [d; fv] |} by reflexivity end.
    rewrite Hb. reflexivity.
Qed.

(* the transaction id a frame must carry on its link *)
Definition tx_ok (l : link) (tx : option N) : Prop := match l with LTcp => tx <> None | LRtu => True end.
Definition txv (tx : option N) : N := match tx with Some t => t | None => 0 end.

Lemma adu_tx l tx d pdu : tx_ok l tx -> adu l (Some (txv tx)) d pdu = adu l tx d pdu.
Proof. destruct l, tx; cbn; intros; try reflexivity; congruence. Qed.

(* format_generic with an appending body *)
Lemma format_generic_appends l tx d f (body : lserializer) bs :
  tx_ok l tx ->
  fst (body (hdr_of l (txv tx) (dest_value d) (ffield_value f))) = Ok (wapp (hdr_of l (txv tx) (dest_value d) (ffield_value f)) bs) ->
  (length bs <= 252)%nat ->
  format_generic l tx d f body =
    (Ok (adu l tx (dest_value d) (ffield_value f :: bs)), snd (body (hdr_of l (txv tx) (dest_value d) (ffield_value f)))).
Proof.
  intros Htx Hb Hlen. unfold format_generic.
  assert (E : match l, tx with LTcp, None => False | _, _ => True end) by (destruct l, tx; cbn in *; auto).
  destruct l, tx; try contradiction; cbn [txv] in *;
    rewrite hdr_cursor_ok; (erewrite frame_format_appends; [|exact Hb|exact Hlen]); try reflexivity.
Qed.

Lemma format_generic_err l tx d f (body : lserializer) e :
  tx_ok l tx ->
  fst (body (hdr_of l (txv tx) (dest_value d) (ffield_value f))) = Err e ->
  format_generic l tx d f body = (Err e, snd (body (hdr_of l (txv tx) (dest_value d) (ffield_value f)))).
Proof.
  intros Htx Hb. unfold format_generic.
  assert (E : match l, tx with LTcp, None => False | _, _ => True end) by (destruct l, tx; cbn in *; auto).
  destruct l, tx; try contradiction; cbn [txv] in *;
    rewrite hdr_cursor_ok; (erewrite frame_format_err; [|exact Hb]); try reflexivity.
Qed.

(* FrameWriter::format_ex yields the exception ADU *)
Lemma format_ex_ok l tx d f ex : tx_ok l tx ->
  format_ex l tx d f ex =
    Ok (adu l tx (dest_value d)
          [ffield_value (match f with FValid x => FException x | FException x => FException x | FUnknown x => FUnknown x end); ex]).
Proof.
  intros Htx. unfold format_ex.
  erewrite format_generic_appends with (bs := [ex]); [reflexivity|exact Htx| |cbn; lia].
  unfold ser_exception. cbn [fst]. pose proof (hdr_len l (txv tx) (dest_value d)) as HL.
  rewrite wr_u8_ok; [reflexivity|]. edestruct HL as [H1 H2]. rewrite H2. lia.
Qed.
