(* RTU framing (no transaction id): the counterparts of C11_mismatch / C11_idle_drop / C12_exact_frame
   for rtu_step.  On a serial line the FIRST frame delivered while a request is in flight decides it. *)
From Coq Require Import NArith List Bool Arith Lia.
From Rodbus Require Import Model.Retry Spec.Lifecycle Spec.ClientSpec Gen.SessionErrors Model.ClientTask
  Proofs.ClientBase Proofs.C11Proofs Proofs.C12Proofs.
Import ListNotations.
Local Open Scope N_scope.

Section Rtu.
Variable cfg : config.

(* whatever label the frame event carries: the outstanding request completes with the frame's result *)
Lemma rtu_first_frame_decides s r t d tx k : ph s = PInFlight r t d -> partial s = None ->
  exists o, snd (rtu_step cfg s (EvFrame tx k)) = OComplete (rq_id r) (respond k) :: o /\ respond k <> RErr ReResponseTimeout.
Proof.
  intros Hp Hn. cbn [rtu_step]. unfold cur_tx. rewrite Hp. exact (frame_completes cfg s r t d k Hp Hn).
Qed.

(* a frame whose first part was received earlier (possibly while ANOTHER request was outstanding)
   completes against the request that is outstanding when its last byte arrives *)
Lemma rtu_tail_decides s r t d tx k : ph s = PInFlight r t d -> partial s = Some (tx, k) ->
  exists o, snd (rtu_step cfg s EvTail) = OComplete (rq_id r) (respond k) :: o.
Proof.
  intros Hp Hn. cbn [rtu_step]. unfold retag, cur_tx. rewrite Hn, Hp. cbn [step ph set_partial partial]. rewrite Hp. cbn [reading].
  unfold on_frame. cbn [ph set_partial]. rewrite Hp, N.eqb_refl.
  assert (Hk : exists oc, respond k = outcome_result oc) by (destruct k; [exists Spec.ClientSpec.Success|exists Spec.ClientSpec.Exception|exists Spec.ClientSpec.BadReply]; reflexivity).
  destruct Hk as (oc & ->). rewrite finish_counter. destruct (tc_step _ oc) as [t' stop]. destruct stop; [destruct (end_session _ _)|]; eexists; reflexivity.
Qed.

(* frames arriving while nothing is outstanding are dropped *)
Lemma rtu_idle_drop s tx k : ph s = PIdle -> rtu_step cfg s (EvFrame tx k) = (s, []).
Proof. intros Hp. cbn [rtu_step]. apply (proj1 (c11_idle_drop cfg s _ k Hp)). Qed.

(* everything else - the deadline branch, the queue, connects, errors - is untouched by the framing,
   so C12_exact_timer, C12_usable, C10, C13 apply verbatim *)
Lemma rtu_other s e : (forall tx k, e <> EvFrame tx k) -> e <> EvTail -> rtu_step cfg s e = step cfg s e.
Proof. intros H1 H2. destruct e; try reflexivity; [exfalso; eapply H1; reflexivity|congruence]. Qed.

End Rtu.
