(* Proofs for C18 over the generated tables of Gen/FfiTables.v: exhaustive case analysis on the
   generated inductives; a 256-value sweep for the exception bytes; the completion chain. *)
From Coq Require Import NArith ZArith List String Bool Lia ZifyBool ZifyNat ZifyN.
Ltac Zify.zify_post_hook ::= Z.div_mod_to_equations.
From Rodbus Require Import Gen.FfiTables Model.Ffi Spec.FfiSpec.
Import ListNotations.
Local Open Scope string_scope.

(* ---------- names: one lemma per conversion table ---------- *)
Lemma names_exception : forall e, exception_name_ok (name_rust_exception_code e) (name_ffi_request_error (exception_to_ffi e)) = true.
Proof. destruct e; reflexivity. Qed.

Lemma names_request_error : forall e,
  match e with
  | RRE_Exception x => exception_name_ok (name_rust_exception_code x) (name_ffi_request_error (request_error_to_ffi e))
  | _ => request_error_name_ok (name_rust_request_error e) (name_ffi_request_error (request_error_to_ffi e))
  end = true.
Proof. destruct e as [|x| | | | | | |]; try reflexivity. destruct x; reflexivity. Qed.

Lemma request_error_never_ok : forall e, request_error_to_ffi e <> FRE_Ok.
Proof. destruct e as [|x| | | | | | |]; try discriminate. destruct x; discriminate. Qed.

Lemma names_client_state : forall s, same_name (name_rust_client_state s) (name_ffi_client_state (client_state_to_ffi s)) = true.
Proof. destruct s; reflexivity. Qed.
Lemma names_port_state : forall s, same_name (name_rust_port_state s) (name_ffi_port_state (port_state_to_ffi s)) = true.
Proof. destruct s; reflexivity. Qed.
Lemma names_app : forall l, same_name (name_ffi_app_decode_level l) (name_rust_app_decode_level (app_decode_from_ffi l)) = true.
Proof. destruct l; reflexivity. Qed.
Lemma names_frame : forall l, same_name (name_ffi_frame_decode_level l) (name_rust_frame_decode_level (frame_decode_from_ffi l)) = true.
Proof. destruct l; reflexivity. Qed.
Lemma names_phys : forall l, same_name (name_ffi_phys_decode_level l) (name_rust_phys_decode_level (physical_decode_from_ffi l)) = true.
Proof. destruct l; reflexivity. Qed.
Lemma names_authorization : forall a, same_name (name_ffi_authorization a) (name_rust_authorization (authorization_from_ffi a)) = true.
Proof. destruct a; reflexivity. Qed.
Lemma names_min_tls : forall v, same_name (name_ffi_min_tls_version v) (name_rust_min_tls_version (min_tls_from_ffi v)) = true.
Proof. destruct v; reflexivity. Qed.
Lemma names_cert_mode : forall m, same_name (name_ffi_certificate_mode m) (name_rust_certificate_mode (cert_mode_from_ffi m)) = true.
Proof. destruct m; reflexivity. Qed.
Lemma names_data_bits : forall x, same_name (name_ffi_data_bits x) (name_rust_data_bits (data_bits_from_ffi x)) = true.
Proof. destruct x; reflexivity. Qed.
Lemma names_flow_control : forall x, same_name (name_ffi_flow_control x) (name_rust_flow_control (flow_control_from_ffi x)) = true.
Proof. destruct x; reflexivity. Qed.
Lemma names_parity : forall x, same_name (name_ffi_parity x) (name_rust_parity (parity_from_ffi x)) = true.
Proof. destruct x; reflexivity. Qed.
Lemma names_stop_bits : forall x, same_name (name_ffi_stop_bits x) (name_rust_stop_bits (stop_bits_from_ffi x)) = true.
Proof. destruct x; reflexivity. Qed.
Lemma names_tls_error : forall e, param_error_name_ok (name_rust_tls_error e) (name_ffi_param_error (tls_error_to_ffi e)) = true.
Proof. destruct e; reflexivity. Qed.
Lemma names_channel_error : forall e, param_error_name_ok (name_rust_ffi_channel_error e) (name_ffi_param_error (ffi_channel_error_to_ffi e)) = true.
Proof. destruct e; reflexivity. Qed.
Lemma names_try_send : try_send_error_to_channel_error TSE_Full = RFC_ChannelFull /\ try_send_error_to_channel_error TSE_Closed = RFC_ChannelClosed.
Proof. split; reflexivity. Qed.

(* injectivity where the property needs distinct values to stay distinct *)
Lemma client_state_injective : forall a b, client_state_to_ffi a = client_state_to_ffi b -> a = b.
Proof. destruct a, b; simpl; intros H; try reflexivity; discriminate. Qed.
Lemma request_error_injective_on_names : forall a b,
  request_error_to_ffi a = request_error_to_ffi b -> name_rust_request_error a = name_rust_request_error b.
Proof.
  destruct a as [|x| | | | | | |], b as [|y| | | | | | |]; simpl; intros H; try reflexivity; try discriminate;
    try (destruct x; discriminate); try (destruct y; discriminate).
Qed.

Theorem names_all :
  (forall e, exception_name_ok (name_rust_exception_code e) (name_ffi_request_error (exception_to_ffi e)) = true) /\
  (forall e, match e with
             | RRE_Exception x => exception_name_ok (name_rust_exception_code x) (name_ffi_request_error (request_error_to_ffi e))
             | _ => request_error_name_ok (name_rust_request_error e) (name_ffi_request_error (request_error_to_ffi e))
             end = true) /\
  (forall s, same_name (name_rust_client_state s) (name_ffi_client_state (client_state_to_ffi s)) = true) /\
  (forall s, same_name (name_rust_port_state s) (name_ffi_port_state (port_state_to_ffi s)) = true) /\
  (forall l, same_name (name_ffi_app_decode_level l) (name_rust_app_decode_level (app_decode_from_ffi l)) = true) /\
  (forall l, same_name (name_ffi_frame_decode_level l) (name_rust_frame_decode_level (frame_decode_from_ffi l)) = true) /\
  (forall l, same_name (name_ffi_phys_decode_level l) (name_rust_phys_decode_level (physical_decode_from_ffi l)) = true) /\
  (forall a, same_name (name_ffi_authorization a) (name_rust_authorization (authorization_from_ffi a)) = true) /\
  (forall v, same_name (name_ffi_min_tls_version v) (name_rust_min_tls_version (min_tls_from_ffi v)) = true) /\
  (forall m, same_name (name_ffi_certificate_mode m) (name_rust_certificate_mode (cert_mode_from_ffi m)) = true) /\
  (forall x, same_name (name_ffi_data_bits x) (name_rust_data_bits (data_bits_from_ffi x)) = true) /\
  (forall x, same_name (name_ffi_flow_control x) (name_rust_flow_control (flow_control_from_ffi x)) = true) /\
  (forall x, same_name (name_ffi_parity x) (name_rust_parity (parity_from_ffi x)) = true) /\
  (forall x, same_name (name_ffi_stop_bits x) (name_rust_stop_bits (stop_bits_from_ffi x)) = true) /\
  (forall e, param_error_name_ok (name_rust_tls_error e) (name_ffi_param_error (tls_error_to_ffi e)) = true) /\
  (forall e, param_error_name_ok (name_rust_ffi_channel_error e) (name_ffi_param_error (ffi_channel_error_to_ffi e)) = true).
Proof.
  repeat split; [apply names_exception|apply names_request_error|apply names_client_state|apply names_port_state|apply names_app
    |apply names_frame|apply names_phys|apply names_authorization|apply names_min_tls|apply names_cert_mode|apply names_data_bits
    |apply names_flow_control|apply names_parity|apply names_stop_bits|apply names_tls_error|apply names_channel_error].
Qed.

(* the generated list of conversion tables is exactly the set covered above *)
Lemma tables_covered : conversion_tables =
  ["data_bits_from_ffi"; "flow_control_from_ffi"; "parity_from_ffi"; "stop_bits_from_ffi"; "exception_to_ffi"; "request_error_to_ffi";
   "client_state_to_ffi"; "port_state_to_ffi"; "app_decode_from_ffi"; "frame_decode_from_ffi"; "physical_decode_from_ffi";
   "authorization_from_ffi"; "min_tls_from_ffi"; "cert_mode_from_ffi"; "tls_error_to_ffi"].
Proof. reflexivity. Qed.

(* ---------- all 256 exception bytes ---------- *)
Local Open Scope N_scope.
Fixpoint below (k : nat) : list N :=
  match k with
  | O => [0]
  | S k' => flat_map (fun x => [2 * x; 2 * x + 1]) (below k')
  end.

Lemma below_complete k : forall b, b < 2 ^ N.of_nat k -> In b (below k).
Proof.
  induction k as [|k IH]; intros b Hb.
  - change (2 ^ N.of_nat 0) with 1 in Hb. left. lia.
  - cbn [below]. apply in_flat_map. exists (b / 2). split.
    + apply IH. rewrite Nat2N.inj_succ, N.pow_succ_r' in Hb.
      apply N.div_lt_upper_bound; lia.
    + cbn [In]. assert (E : 2 * (b / 2) = b \/ 2 * (b / 2) + 1 = b) by lia. tauto.
Qed.

Definition byte_ok (b : N) : bool :=
  String.eqb (name_rust_exception_code (exception_from_u8 b)) (standard_exception_name b)
  && String.eqb (name_ffi_request_error (request_error_to_ffi (RRE_Exception (exception_from_u8 b))))
                ("ModbusException" ++ standard_exception_name b)
  && N.eqb (exception_to_u8 (exception_from_u8 b)) b.

Lemma bytes_sweep : forallb byte_ok (below 8) = true.
Proof. vm_compute. reflexivity. Qed.

Theorem exception_bytes : forall b, b < 256 ->
  name_rust_exception_code (exception_from_u8 b) = standard_exception_name b /\
  name_ffi_request_error (request_error_to_ffi (RRE_Exception (exception_from_u8 b))) = ("ModbusException" ++ standard_exception_name b)%string /\
  exception_to_u8 (exception_from_u8 b) = b.
Proof.
  intros b Hb. pose proof bytes_sweep as S. rewrite forallb_forall in S.
  specialize (S b (below_complete 8 b Hb)). unfold byte_ok in S.
  apply andb_prop in S as [S S3]. apply andb_prop in S as [S1 S2].
  apply String.eqb_eq in S1, S2. apply N.eqb_eq in S3. auto.
Qed.

(* the C-side enum values agree with the protocol codes of the same-named Rust variants *)
Lemma modbus_exception_values : forall e, e <> FME_Unknown ->
  exists r, convert_to_result false e 0 = Some r /\ exception_to_u8 r = ffi_modbus_exception_value e
            /\ name_rust_exception_code r = name_ffi_modbus_exception e.
Proof. destruct e; intros H; try congruence; eexists; repeat split; reflexivity. Qed.

(* ---------- write results ---------- *)
Lemma convert_spec : forall s e r,
  Some (reply_exception_byte (convert_to_result s e r)) = write_result_spec s (name_ffi_modbus_exception e) r.
Proof. intros [] e r; destruct e; reflexivity. Qed.

Lemma wrappers_shape :
  map ww_method write_wrappers = ["write_single_coil"; "write_single_register"; "write_multiple_coils"; "write_multiple_registers"]%string
  /\ forallb (fun w => String.eqb (ww_method w) (ww_callback w)) write_wrappers = true
  /\ forallb (fun w => match ww_some w with UsesConvertToResult => true | _ => false end) write_wrappers = true
  /\ forallb (fun w => match ww_none w with ErrException REC_IllegalFunction => true | _ => false end) write_wrappers = true.
Proof. vm_compute. repeat split; reflexivity. Qed.

Theorem write_result_forwarded : forall w, In w write_wrappers -> forall s e r,
  wrapper_result w (Some (s, e, r)) = Some (convert_to_result s e r) /\
  option_map reply_exception_byte (wrapper_result w (Some (s, e, r))) = write_result_spec s (name_ffi_modbus_exception e) r /\
  ww_callback w = ww_method w.
Proof.
  intros w Hin s e r. destruct wrappers_shape as (_ & Hcb & Hsome & _).
  rewrite forallb_forall in Hcb, Hsome. specialize (Hcb w Hin). specialize (Hsome w Hin).
  unfold wrapper_result. destruct (ww_some w); [|discriminate]. cbn [option_map].
  rewrite convert_spec. apply String.eqb_eq in Hcb. auto.
Qed.

Theorem write_result_callback_unset : forall w, In w write_wrappers ->
  wrapper_result w None = Some (Some REC_IllegalFunction).
Proof.
  intros w Hin. destruct wrappers_shape as (_ & _ & _ & Hnone). rewrite forallb_forall in Hnone. specialize (Hnone w Hin).
  unfold wrapper_result. destruct (ww_none w) as [e|]; [|discriminate]. destruct e; try discriminate. reflexivity.
Qed.

(* what the client decodes from the reply is the callback's exception again *)
Theorem write_result_roundtrip : forall e raw, raw < 256 ->
  match convert_to_result false e raw with
  | Some r => exception_from_u8 (exception_to_u8 r) =
              (if String.eqb (name_ffi_modbus_exception e) "Unknown" then exception_from_u8 raw else r)
  | None => False
  end.
Proof. intros e raw H. destruct e; reflexivity. Qed.

(* ---------- completion callbacks ---------- *)
Local Open Scope string_scope.
Definition shape_ok (ft : future_type) : Prop :=
  ft_on_drop ft = Some RRE_Shutdown /\ ft_complete_ok_calls_on_complete ft = true /\ ft_complete_err_calls_on_failure_into ft = true.

Lemma future_types_ok : forall ft, In ft future_types -> shape_ok ft.
Proof. intros ft H. cbn in H. destruct H as [<-|[<-|[<-|[]]]]; repeat split. Qed.

Lemma fire_ok ft r : shape_ok ft ->
  fire ft r = match r with ROk => OnComplete | RErr e => OnFailure (request_error_to_ffi e) end.
Proof. intros (_ & H1 & H2). unfold fire. rewrite H1, H2. destruct r; reflexivity. Qed.

Lemma drop_wrapped ft : shape_ok ft -> drop_stage ft Wrapped = [OnFailure FRE_Shutdown].
Proof.
  intros H. pose proof (fire_ok ft (RErr RRE_Shutdown) H) as F. destruct H as (H0 & _).
  cbn [drop_stage sfio_drop sfio_complete snd]. rewrite H0. cbn [sfio_complete snd]. rewrite F. reflexivity.
Qed.

Lemma promise_kinds_ok : forall k, In k ["write"; "read_bits"; "read_registers"] -> promise_drop_error k = Some RRE_Shutdown.
Proof. intros k H. cbn in H. destruct H as [<-|[<-|[<-|[]]]]; reflexivity. Qed.

Lemma complete_in_promise ft k r : shape_ok ft ->
  promise_complete ft (InPromise k) r = (Spent, [match r with ROk => OnComplete | RErr e => OnFailure (request_error_to_ffi e) end]).
Proof.
  intros H. unfold promise_complete, sfio_complete, sfio_drop. rewrite (fire_ok ft r H). reflexivity.
Qed.

Lemma drop_in_promise ft k : shape_ok ft -> promise_drop_error k = Some RRE_Shutdown ->
  drop_stage ft (InPromise k) = [OnFailure FRE_Shutdown].
Proof.
  intros H Hk. cbn [drop_stage]. rewrite Hk, (complete_in_promise ft k _ H). reflexivity.
Qed.

Lemma run_task_spent ft ops : run_task ft Spent ops = [].
Proof.
  induction ops as [|[r|] rest IH]; cbn [run_task drop_stage promise_complete]; [reflexivity| |reflexivity].
  cbn [app]. exact IH.
Qed.

(* an accepted command: whatever the client task does with it (complete it any number of times, drop
   it early, or never touch it), the C callback fires exactly once, with the first completion *)
Lemma run_task_once ft k ops : shape_ok ft -> promise_drop_error k = Some RRE_Shutdown ->
  run_task ft (InPromise k) ops = [fire ft (first_completion ops)].
Proof.
  intros H Hk. destruct ops as [|[r|] rest]; cbn [run_task first_completion].
  - rewrite (drop_in_promise ft k H Hk), (fire_ok ft _ H). reflexivity.
  - rewrite (complete_in_promise ft k r H), run_task_spent, (fire_ok ft r H). reflexivity.
  - rewrite (drop_in_promise ft k H Hk), (fire_ok ft _ H). reflexivity.
Qed.

Definition passes_validation (env : call_env) : Prop := null_args env = [] /\ failing_validation env = None.

(* expected outcome of a call that passed parameter validation *)
Definition expected (ft : future_type) (is_read : bool) (env : call_env) : ffi_param_error * list cb_event :=
  if is_read && over_limit env then (FPE_InvalidRange, [OnFailure FRE_Shutdown])
  else match send env with
       | Accepted => (FPE_Ok, [fire ft (first_completion (task env))])
       | QueueFull => (FPE_TooManyRequests, [OnFailure FRE_Shutdown])
       | ChannelClosed => (FPE_Shutdown, [OnFailure FRE_Shutdown])
       end.

Definition is_read (request : string) : bool :=
  String.eqb request "read_coils" || String.eqb request "read_discrete_inputs"
  || String.eqb request "read_holding_registers" || String.eqb request "read_input_registers".

Theorem once_all : forall rq, In rq client_calls -> forall ft, shape_ok ft -> forall env, passes_validation env ->
  ffi_call ft rq env = expected ft (is_read (fst rq)) env.
Proof.
  intros rq Hin ft Hft env (Hn & Hv).
  pose proof (drop_wrapped ft Hft) as DW.
  pose proof (fun k Hk => drop_in_promise ft k Hft (promise_kinds_ok k Hk)) as DP.
  pose proof (fun k ops Hk => run_task_once ft k ops Hft (promise_kinds_ok k Hk)) as RT.
  assert (Dw : drop_stage ft (InPromise "write") = [OnFailure FRE_Shutdown]) by (apply DP; cbn; auto).
  assert (Db : drop_stage ft (InPromise "read_bits") = [OnFailure FRE_Shutdown]) by (apply DP; cbn; auto).
  assert (Dr : drop_stage ft (InPromise "read_registers") = [OnFailure FRE_Shutdown]) by (apply DP; cbn; auto).
  assert (Tw : forall ops, run_task ft (InPromise "write") ops = [fire ft (first_completion ops)]) by (intros; apply RT; cbn; auto).
  assert (Tb : forall ops, run_task ft (InPromise "read_bits") ops = [fire ft (first_completion ops)]) by (intros; apply RT; cbn; auto).
  assert (Tr : forall ops, run_task ft (InPromise "read_registers") ops = [fire ft (first_completion ops)]) by (intros; apply RT; cbn; auto).
  assert (DS : drop_stage ft Spent = []) by reflexivity.
  unfold ffi_call, expected.
  cbn in Hin.
  repeat (destruct Hin as [<-|Hin]; [
    cbn [snd fst]; unfold is_read; cbn [String.eqb Ascii.eqb Bool.eqb orb andb];
    repeat (progress (cbn [run_call existsb]; rewrite ?Hn, ?Hv));
    unfold channel_steps, channel_method_of, promise_kind, channel_methods;
    cbn [find fst snd String.eqb Ascii.eqb Bool.eqb orb andb];
    cbn [run_channel]; unfold send_is_try_send; cbn [run_channel];
    destruct (over_limit env); destruct (send env);
    rewrite ?DW, ?Dw, ?Db, ?Dr, ?Tw, ?Tb, ?Tr;
    cbn [run_call ffi_channel_error_to_ffi try_send_error_to_channel_error];
    rewrite ?DS, ?app_nil_r; reflexivity |]).
  destruct Hin.
Qed.

Corollary once_exactly : forall rq, In rq client_calls -> forall ft, shape_ok ft -> forall env, passes_validation env ->
  exists ev, snd (ffi_call ft rq env) = [ev] /\ ev <> ShapeUnknown.
Proof.
  intros rq Hin ft Hft env Hp. rewrite (once_all rq Hin ft Hft env Hp). unfold expected.
  destruct (is_read (fst rq) && over_limit env); [eexists; split; [reflexivity|discriminate]|].
  destruct (send env); cbn [snd]; try (eexists; split; [reflexivity|discriminate]).
  exists (fire ft (first_completion (task env))). split; [reflexivity|]. rewrite (fire_ok ft _ Hft).
  destruct (first_completion (task env)); discriminate.
Qed.

(* calls rejected by parameter validation: the error code is returned and NO completion callback fires
   (observation of DESIGN.md section 7) *)
Theorem param_error_no_callback : forall rq, In rq client_calls -> forall ft env,
  (In "channel" (null_args env) -> ffi_call ft rq env = (FPE_NullParameter, [])) /\
  (null_args env = [] -> forall w, failing_validation env = Some w -> In (Validate w) (snd rq) ->
     ffi_call ft rq env = (validation_error w, []) /\ validation_error w <> FPE_Ok).
Proof.
  intros rq Hin ft env. cbn in Hin. split.
  - intros Hnull.
    assert (E : existsb (String.eqb "channel") (null_args env) = true)
      by (apply existsb_exists; exists "channel"; split; [assumption|apply String.eqb_refl]).
    repeat (destruct Hin as [<-|Hin]; [unfold ffi_call; cbn [snd run_call]; rewrite E; reflexivity|]). destruct Hin.
  - intros Hn w Hw Hval.
    repeat (destruct Hin as [<-|Hin]; [
      unfold ffi_call; cbn [snd] in *; cbn [In] in Hval; decompose [or] Hval; clear Hval;
      try match goal with H : False |- _ => destruct H end;
      match goal with H : _ = Validate w |- _ => try discriminate H; injection H as <- end;
      repeat (progress (cbn [run_call existsb]; rewrite ?Hn)); rewrite Hw;
      (split; [vm_compute; reflexivity|vm_compute; discriminate]) |]).
    destruct Hin.
Qed.

Lemma client_calls_are_the_eight : map fst client_calls =
  ["read_coils"; "read_discrete_inputs"; "read_holding_registers"; "read_input_registers";
   "write_single_coil"; "write_single_register"; "write_multiple_coils"; "write_multiple_registers"].
Proof. reflexivity. Qed.

(* ---------- plain data ---------- *)
Theorem fields_forwarded : field_forwarding = field_spec.
Proof. reflexivity. Qed.

(* ---------- constructors ---------- *)
Fixpoint dedup (l : list (string * string)) : list (string * string) :=
  match l with
  | [] => []
  | x :: r => if existsb (fun y => String.eqb (fst x) (fst y) && String.eqb (snd x) (snd y)) r then dedup r else x :: dedup r
  end.
Theorem ctor_plumbing_ok :
  forallb plumbing_row_ok ctor_plumbing = true /\
  forallb (fun c => existsb (fun row : string * string * string * string => let '(f, callee, _, _) := row in
                                String.eqb f (fst c) && String.eqb callee (snd c)) ctor_plumbing) ctor_spec = true /\
  List.length (dedup (map (fun row : string * string * string * string => let '(f, callee, _, _) := row in (f, callee)) ctor_plumbing))
    = List.length ctor_spec.
Proof. vm_compute. repeat split. Qed.
