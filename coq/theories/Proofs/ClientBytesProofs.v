(* C03: everything the client emits is a byte string (needs the 16-bit bound of the CRC model). *)
From Coq Require Import NArith List Lia Bool Arith ZArith ZifyBool ZifyNat ZifyN.
From Rodbus Require Import Base.Outcome Base.Cursor Base.ClientTypes Model.Crc Model.Format Model.Range
  Model.ClientRequest Spec.ClientCodecSpec Gen.Consts Gen.ClientTables Proofs.PackProofs Proofs.ClientCodecProofs.
Import ListNotations.
Ltac Zify.zify_post_hook ::= Z.div_mod_to_equations.
Local Open Scope N_scope.
Arguments N.add : simpl never.
Arguments N.mul : simpl never.
Arguments N.div : simpl never.
Arguments N.modulo : simpl never.

(* ---- the reference encoding is a byte string ---- *)
Lemma lt_pow2_bits a n : a < 2 ^ n <-> (forall m, n <= m -> N.testbit a m = false).
Proof.
  split.
  - intros H m Hm. destruct (N.eq_dec a 0) as [->|Hz]; [apply N.bits_0|].
    apply N.bits_above_log2. apply N.log2_lt_pow2 in H; lia.
  - intros H. destruct (N.eq_dec a 0) as [->|Hz]; [apply N.neq_0_lt_0, N.pow_nonzero; lia|].
    apply N.log2_lt_pow2; [lia|]. destruct (N.lt_ge_cases (N.log2 a) n) as [|Hge]; [assumption|].
    specialize (H _ Hge). rewrite N.bit_log2 in H by assumption. discriminate.
Qed.

Lemma lxor_lt_pow2 a b n : a < 2 ^ n -> b < 2 ^ n -> N.lxor a b < 2 ^ n.
Proof.
  rewrite !lt_pow2_bits. intros Ha Hb m Hm. now rewrite N.lxor_spec, Ha, Hb.
Qed.

Lemma step1_lt s : s < 65536 -> step1 s < 65536.
Proof.
  intros H. unfold step1. assert (Hs : N.shiftr s 1 < 65536) by (rewrite N.shiftr_div_pow2; change (2 ^ 1) with 2; lia).
  destruct (N.testbit s 0); [|assumption].
  change 65536 with (2 ^ 16) in *. apply lxor_lt_pow2; [assumption|]. unfold poly. reflexivity.
Qed.

Lemma upd_lt s b : s < 65536 -> b < 256 -> upd s b < 65536.
Proof.
  intros Hs Hb. unfold upd.
  assert (H0 : N.lxor s b < 65536) by (change 65536 with (2 ^ 16) in *; apply lxor_lt_pow2; [assumption|]; change (2 ^ 16) with 65536; lia).
  cbn [iter]. do 8 apply step1_lt. assumption.
Qed.

Lemma crc_lt l : Forall is_u8 l -> crc l < 65536.
Proof.
  unfold crc, crc_from. assert (H : 65535 < 65536) by lia. revert H. generalize 65535 at 1 2. intros s Hs Hl. revert s Hs.
  induction Hl as [|b r Hb Hr IH]; intros s Hs; cbn [fold_left]; [assumption|]. apply IH. now apply upd_lt.
Qed.

Lemma be_bytes v : v < 65536 -> Forall is_u8 (be v).
Proof. intros H. unfold be, is_u8. repeat constructor; lia. Qed.

Lemma pack_aux_bytes : forall fuel bits, Forall is_u8 (pack_aux fuel bits).
Proof.
  induction fuel as [|f IH]; intros bits; [constructor|].
  destruct (list_eq_dec Bool.bool_dec bits []) as [->|Hne]; [constructor|].
  rewrite pack_aux_step by assumption. constructor; [|apply IH].
  unfold is_u8. pose proof (byte_of_bits_lt (firstn 8 bits)) as H. rewrite firstn_length in H.
  specialize (H ltac:(lia)). eapply N.lt_le_trans; [exact H|]. change 256 with (2 ^ 8). apply N.pow_le_mono_r; lia.
Qed.

Lemma flat_map_be_bytes vs : Forall is_u16 vs -> Forall is_u8 (flat_map be vs).
Proof.
  induction 1 as [|v r Hv Hr IH]; [constructor|]. cbn [flat_map]. apply Forall_app. split; [now apply be_bytes|assumption].
Qed.

Lemma ref_pdu_bytes c : call_wf c -> within_limits c -> Forall is_u8 (ref_pdu c).
Proof.
  unfold within_limits. intros Hwf Hl.
  destruct c as [s n|s n|s n|s n|i v|i v|s vs|s vs]; cbn [call_wf within_limits_b ref_pdu] in *; unfold is_u16 in *.
  1,2,3,4: constructor; [unfold is_u8; lia|]; apply Forall_app; split; apply be_bytes; tauto.
  - constructor; [unfold is_u8; lia|]. apply Forall_app. split; [now apply be_bytes|]. destruct v; repeat constructor; unfold is_u8; lia.
  - constructor; [unfold is_u8; lia|]. apply Forall_app. split; apply be_bytes; tauto.
  - apply andb_prop in Hl as [Hr Hn]. apply range_ok_true in Hr. fold (len vs) in *.
    constructor; [unfold is_u8; lia|]. apply Forall_app. split; [now apply be_bytes|].
    apply Forall_app. split; [apply be_bytes; lia|]. apply Forall_app. split; [|apply pack_aux_bytes].
    constructor; [|constructor]. unfold is_u8, bytes_for_bits. lia.
  - destruct Hwf as [Hs Hvs]. apply andb_prop in Hl as [Hr Hn]. apply range_ok_true in Hr. fold (len vs) in *.
    constructor; [unfold is_u8; lia|]. apply Forall_app. split; [now apply be_bytes|].
    apply Forall_app. split; [apply be_bytes; lia|]. apply Forall_app. split; [|now apply flat_map_be_bytes].
    constructor; [|constructor]. unfold is_u8. lia.
Qed.

Theorem ref_encode_bytes f tx uid c : call_wf c -> within_limits c -> tx < 65536 -> uid < 256 ->
  Forall is_u8 (ref_encode f tx uid c).
Proof.
  intros Hwf Hl Htx Hu. pose proof (ref_pdu_bytes c Hwf Hl) as Hp.
  destruct (build_within c Hwf Hl) as (r & _ & Hpdu & _ & Hlen).
  destruct f; unfold ref_encode, ref_encode_tcp, ref_encode_rtu.
  - apply Forall_app. split; [now apply be_bytes|]. apply Forall_app. split; [repeat constructor; unfold is_u8; lia|].
    apply Forall_app. split; [apply be_bytes; rewrite Hpdu; unfold len; cbn [length]; lia|].
    constructor; assumption.
  - assert (Hb : Forall is_u8 (uid :: ref_pdu c)) by (constructor; assumption).
    cbv zeta. apply Forall_app. split; [assumption|]. pose proof (crc_lt _ Hb). repeat constructor; unfold is_u8; lia.
Qed.

Theorem submit_bytes f tx uid c bs : call_wf c -> tx < 65536 -> uid < 256 ->
  client_submit f tx uid c = Ok bs -> Forall is_u8 bs.
Proof.
  intros Hwf Htx Hu H. destruct (submit_exact f tx uid c bs Hwf H) as [-> Hl]. now apply ref_encode_bytes.
Qed.
