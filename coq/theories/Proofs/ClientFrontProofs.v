(* Proofs about the composed client front-end (Model/ClientFront.v). p4's task model is used through
   its step function; the facts needed about it (where request bytes can be written, how the phase
   becomes connected, which strategy call a step makes) are read off p4's definitions by case
   analysis; the strategy is C14's (Proofs/RetryProofs.v), admission is C09's (Proofs/TlsProofs.v). *)
From Coq Require Import NArith List Bool Lia.
From Rodbus Require Import Model.Retry Spec.RetrySpec Proofs.RetryProofs Spec.Lifecycle Spec.ClientSpec Gen.SessionErrors Proofs.C13Proofs Proofs.C13Live
  Model.ClientTask Proofs.ClientBase Spec.TlsSpec Gen.TlsVersions Gen.TlsModes Model.Tls Proofs.TlsProofs Model.ClientFront.
Import ListNotations.
Local Open Scope N_scope.

Ltac break_match :=
  match goal with
  | |- context [match ?x with _ => _ end] => destruct x eqn:?
  | H : context [match ?x with _ => _ end] |- _ => destruct x eqn:?
  end.

Ltac unfold_task :=
  unfold ClientTask.step, take, on_frame, on_read_error, finish, transmit, end_session, wait_for, loop_top, start_connecting,
    terminate, crash, retry_call, respond, change_setting in *.

(* ------------------------------------------------------------------ facts about p4's step *)
Lemma drop_no_traffic q : existsb is_traffic (drop_queue q) = false.
Proof.
  destruct (existsb is_traffic (drop_queue q)) eqn:E; [|reflexivity]. exfalso.
  apply existsb_exists in E. destruct E as (x & Hin & Hx). destruct (in_drop_queue _ _ Hin) as (id & ->). discriminate.
Qed.

Lemma existsb_cons_false {A} (f : A -> bool) x l : f x = false -> existsb f (x :: l) = existsb f l.
Proof. intros E. cbn. now rewrite E. Qed.

Section Task.
Variable cfg : ClientTask.config.
Notation step := (ClientTask.step cfg).

(* request bytes are written / reply frames interpreted only while a connection is up *)
Lemma traffic_needs_connection s e : existsb is_traffic (snd (step s e)) = true -> connected (ph s) = true.
Proof.
  destruct (connected (ph s)) eqn:Ec; [reflexivity|]. intros Ht. exfalso. revert Ht.
  destruct s as [p q b h en tx tc rt dc nw pa wf wd]. cbn [ph] in Ec.
  destruct p; try discriminate Ec; destruct e; cbn -[existsb drop_queue Retry.step]; try discriminate;
    unfold_task; cbn -[existsb drop_queue Retry.step];
    repeat (break_match; cbn -[existsb drop_queue Retry.step] in *; try discriminate);
    rewrite ?existsb_app, ?drop_no_traffic; cbn -[drop_queue]; rewrite ?drop_no_traffic; discriminate.
Qed.

(* the phase becomes connected only through EvConnect true *)
Lemma connected_only_via_connect s e : e <> EvConnect true ->
  connected (ph (fst (step s e))) = true -> connected (ph s) = true.
Proof.
  destruct (connected (ph s)) eqn:Ec; [reflexivity|]. intros Hne Ht. exfalso. revert Ht.
  destruct s as [p q b h en tx tc rt dc nw pa wf wd]. cbn [ph] in Ec.
  destruct p; try discriminate Ec; destruct e as [c st| | |ok| | | | | | | | | | | | | |]; try (destruct ok; [contradiction|]);
    cbn -[Retry.step]; try discriminate;
    unfold_task; cbn -[Retry.step];
    repeat (break_match; cbn -[Retry.step] in *; try discriminate).
Qed.

(* Connected is announced by exactly one kind of step *)
Lemma in_listens x o : In (OListen x) o -> In x (listens_of o).
Proof.
  induction o as [|y r IH]; [intros []|]. intros [->|Hin]; rewrite listens_cons; [now left|].
  apply in_or_app. right. now apply IH.
Qed.

Ltac invert_eqs :=
  match goal with
  | H : Some _ = Some _ |- _ => inversion H; subst; clear H
  | H : (_, _) = (_, _) |- _ => inversion H; subst; clear H
  | H : Some _ = None |- _ => discriminate H
  | H : None = Some _ |- _ => discriminate H
  end.

Ltac crunch :=
  repeat (first [ progress (unfold_task; cbn -[Retry.step drop_queue] in * )
                | invert_eqs
                | break_match ]; try discriminate).

Lemma connected_announced_iff s e :
  In (OListen LConnected) (snd (step s e)) <-> (e = EvConnect true /\ ph s = PConnecting).
Proof.
  split.
  - intros Hin. apply in_listens in Hin. destruct s as [p q b h en tx tc rt dc nw pa wf wd].
    destruct p; destruct e as [c st| | |ok| | | | | | | | | | | | | |]; try destruct ok; cbn -[Retry.step drop_queue] in Hin;
      try (now split); exfalso; revert Hin; crunch;
      rewrite ?listens_app, ?listens_drop, ?listens_cons; cbn -[Retry.step drop_queue];
      rewrite ?listens_app, ?listens_drop, ?listens_cons; cbn -[Retry.step drop_queue]; rewrite ?listens_drop; cbn;
      intros Hin; repeat (destruct Hin as [Hin|Hin]; try discriminate Hin); try contradiction.
  - intros [-> Hp]. unfold ClientTask.step. rewrite Hp. unfold retry_call. cbn [Retry.step]. now left.
Qed.

(* what the two outcomes of a connection attempt do *)
Lemma connect_true_effect s : ph s = PConnecting ->
  exists s', step s (EvConnect true) = (s', [OListen LConnected]) /\ ph s' = PIdle /\
    retry s' = {| dmin := dmin (retry s); dmax := dmax (retry s); cur := dmin (retry s) |}.
Proof.
  intros Hp. unfold ClientTask.step. rewrite Hp. unfold retry_call. cbn [Retry.step]. eexists. split; [reflexivity|]. split; reflexivity.
Qed.

Lemma connect_false_effect s : ph s = PConnecting -> 2 * cur (retry s) <= dur_max ->
  step s (EvConnect false) =
    (set_ph (set_retry s {| dmin := dmin (retry s); dmax := dmax (retry s); cur := N.min (2 * cur (retry s)) (dmax (retry s)) |})
            (PWaiting (now s + cur (retry s))),
     [OListen (LWaitFailed (cur (retry s)))]).
Proof.
  intros Hp Hov. unfold ClientTask.step. rewrite Hp. unfold wait_for, retry_call. cbn [Retry.step].
  destruct (N.ltb_spec dur_max (2 * cur (retry s))); [lia|]. reflexivity.
Qed.

(* ---- the strategy calls of a step, read off its listener announcements ---- *)
Definition sop_of (l : cstate) : list op :=
  match l with LConnected => [Reset] | LWaitFailed _ => [Fail] | LWaitDisc _ => [Disc] | _ => [] end.
Definition sops (l : list cstate) : list op := flat_map sop_of l.
Definition wait_of (l : cstate) : list N := match l with LWaitFailed d | LWaitDisc d => [d] | _ => [] end.
Definition waits (l : list cstate) : list N := flat_map wait_of l.

(* every step makes at most one strategy call; the announcement it makes carries the value returned,
   the strategy state moves accordingly, and nothing else touches the strategy *)
Lemma step_strategy s e :
  let s' := fst (step s e) in let l := listens_of (snd (step s e)) in
  (sops l = [] /\ waits l = [] /\ retry s' = retry s) \/
  (exists o v, sops l = [o] /\ Retry.step (retry s) o = Some (retry s', v) /\
     waits l = match v with Some d => [d] | None => [] end).
Proof.
  cbv zeta. destruct s as [p q b h en tx tc rt dc nw pa wf wd].
  destruct p; destruct e as [c st| | |ok| | | | | | | | | | | | | |]; try destruct ok; cbn -[Retry.step drop_queue];
    try (left; repeat split; reflexivity);
    crunch;
    rewrite ?listens_app, ?listens_drop, ?listens_cons; cbn -[Retry.step drop_queue]; rewrite ?listens_app, ?listens_drop, ?listens_cons; cbn -[Retry.step drop_queue]; rewrite ?listens_drop; cbn -[Retry.step];
    try (left; repeat split; reflexivity);
    try (right; eexists; eexists; split; [reflexivity|]; split; [eassumption|reflexivity]);
    try (exfalso; match goal with H : Retry.step _ _ = Some (_, None) |- _ => cbn [Retry.step] in H; repeat break_match; discriminate end).
Qed.
End Task.

(* ------------------------------------------------------------------ the composed model *)
Section Front.
Variable cfg : ClientTask.config.
Variable tr : ctransport.
Notation cstep := (cstep cfg tr).
Notation crun := (crun cfg tr).
Notation step := (ClientTask.step cfg).

Lemma handshake_ok_spec k : handshake_ok tr k = true <->
  exists min mode ng p v, tr = CTls min mode ng /\ k = SrvTls p /\
    expected (endpoint_of ClientSide min mode false ng) p = Established v None.
Proof.
  unfold handshake_ok. split.
  - destruct tr as [|min mode ng]; [discriminate|]. destruct k as [p| |]; try discriminate.
    rewrite admission. destruct (expected _ p) as [v role|] eqn:E; [|discriminate]. intros _.
    assert (role = None).
    { unfold expected, endpoint_of, needs_role in E. cbn [e_side] in E. repeat break_match; inversion E; reflexivity. }
    subst. now exists min, mode, ng, p, v.
  - intros (min & mode & ng & p & v & -> & -> & E). rewrite admission, E. reflexivity.
Qed.

Lemma connect_or_not ev : (exists b, ev = EvConnect b) \/ (forall b, ev <> EvConnect b).
Proof. destruct ev; try (right; intros; discriminate). left; eauto. Qed.

(* the composed step on an event of the task model, in closed form: p4's step on the core *)
Lemma cstep_CE f ev : (forall b, ev <> EvConnect b) ->
  cstep f (CE ev) =
    (let '(s', o) := step (core f) ev in
     ({| core := s'; hs := match hs f, ph s' with Some k, PConnecting => Some k | _, _ => None end; last_server := last_server f |}, o)).
Proof.
  intros Hne. unfold ClientFront.cstep. destruct ev; try reflexivity. exfalso. now apply (Hne ok).
Qed.

Lemma cstep_CE_connect f b : cstep f (CE (EvConnect b)) = (f, []).
Proof. reflexivity. Qed.

Definition finv (f : cfront) : Prop :=
  (forall k, hs f = Some k -> ph (core f) = PConnecting /\ tr <> CPlain) /\
  (connected (ph (core f)) = true -> hs f = None /\ admitted_server tr (last_server f)).

Lemma admitted_of_ok k : handshake_ok tr k = true -> admitted_server tr (Some k).
Proof.
  intros Hk. apply handshake_ok_spec in Hk. destruct Hk as (min & mode & ng & p & v & -> & -> & E).
  unfold admitted_server. now exists p, v.
Qed.

Lemma cstep_inv f e : finv f -> finv (fst (cstep f e)).
Proof.
  intros Hf. pose proof Hf as [I1 I2]. unfold ClientFront.cstep. destruct e as [ev|ok k|].
  - (* CE *)
    destruct (connect_or_not ev) as [(b & ->)|Hne]; [exact Hf|].
    fold (ClientFront.cstep cfg tr f (CE ev)). rewrite (cstep_CE f ev Hne).
    destruct (step (core f) ev) as [s' o] eqn:Es. cbn [fst]. unfold finv; cbn [core hs last_server]. split.
    + intros k0 E0. destruct (hs f) as [hk|] eqn:Eh; [|discriminate]. destruct (ph s') eqn:Ep; try discriminate.
      split; [reflexivity|]. exact (proj2 (I1 hk eq_refl)).
    + intros Hc. split.
      * destruct (hs f); [|reflexivity]. destruct (ph s'); try reflexivity. discriminate Hc.
      * apply I2. apply (connected_only_via_connect cfg (core f) ev); [apply Hne|rewrite Es; exact Hc].
  - (* CTcp *)
    destruct (hs f) as [k0|] eqn:Eh; [exact Hf|].
    destruct (ph (core f)) eqn:Ep; try (exact Hf).
    destruct ok.
    + destruct tr as [|min mode ng] eqn:Etr.
      * destruct (step (core f) (EvConnect true)) as [s' o]. cbn [fst core hs last_server].
        split; [intros k1 E1; discriminate|]. intros _. split; [reflexivity|]. unfold admitted_server. rewrite Etr. exact I.
      * cbn [fst core hs last_server]. unfold finv; cbn [core hs last_server]. split; [intros k1 E1; inversion E1; subst; split; [exact Ep|congruence]|].
        intros Hc. rewrite Ep in Hc. discriminate.
    + destruct (step (core f) (EvConnect false)) as [s' o] eqn:Es. cbn [fst core hs last_server].
      split; [intros k1 E1; discriminate|]. intros Hc. exfalso.
      assert (Hx : connected (ph (core f)) = true) by (apply (connected_only_via_connect cfg (core f) (EvConnect false)); [discriminate|rewrite Es; exact Hc]).
      rewrite Ep in Hx. discriminate.
  - (* CHandshake *)
    destruct (hs f) as [k|] eqn:Eh; [|exact Hf].
    destruct (I1 k eq_refl) as [Hp Htr].
    destruct k as [p| |]; try (exact Hf).
    + destruct (handshake_ok tr (SrvTls p)) eqn:Ek.
      * destruct (step (core f) (EvConnect true)) as [s' o]. cbn [fst core hs last_server].
        split; [intros k1 E1; discriminate|]. intros _. split; [reflexivity|now apply admitted_of_ok].
      * destruct (step (core f) (EvConnect false)) as [s' o] eqn:Es. cbn [fst core hs last_server].
        split; [intros k1 E1; discriminate|]. intros Hc. exfalso.
        assert (Hx : connected (ph (core f)) = true) by (apply (connected_only_via_connect cfg (core f) (EvConnect false)); [discriminate|rewrite Es; exact Hc]).
        rewrite Hp in Hx. discriminate.
    + assert (Ek : handshake_ok tr SrvCloses = false) by (unfold handshake_ok; destruct tr; reflexivity). rewrite Ek.
      destruct (step (core f) (EvConnect false)) as [s' o] eqn:Es. cbn [fst core hs last_server].
      split; [intros k1 E1; discriminate|]. intros Hc. exfalso.
      assert (Hx : connected (ph (core f)) = true) by (apply (connected_only_via_connect cfg (core f) (EvConnect false)); [discriminate|rewrite Es; exact Hc]).
      rewrite Hp in Hx. discriminate.
Qed.

Lemma cinit_inv h mt mn mx : finv (cinit h mt mn mx).
Proof. split; [intros k E; discriminate|intros Hc; discriminate]. Qed.

Lemma crun_inv es : forall f, finv f -> finv (fst (crun f es)).
Proof.
  induction es as [|e r IH]; intros f Hf; [exact Hf|]. cbn [ClientFront.crun].
  pose proof (cstep_inv f e Hf) as H1. destruct (cstep f e) as [f1 o1]. cbn [fst] in H1.
  specialize (IH f1 H1). destruct (crun f1 r) as [f2 o2]. exact IH.
Qed.

(* every step of the composed model is a step of p4's model on the core, or does nothing *)
Lemma cstep_is_step f e : (exists ev, (core (fst (cstep f e)), snd (cstep f e)) = step (core f) ev) \/
                          (core (fst (cstep f e)) = core f /\ snd (cstep f e) = []).
Proof.
  unfold ClientFront.cstep. destruct e as [ev|ok k|].
  - destruct (connect_or_not ev) as [(b & ->)|Hne]; [right; split; reflexivity|].
    fold (ClientFront.cstep cfg tr f (CE ev)). rewrite (cstep_CE f ev Hne).
    left; exists ev; destruct (step (core f) ev); reflexivity.
  - destruct (hs f); [right; split; reflexivity|]. destruct (ph (core f)); try (right; split; reflexivity).
    destruct ok; [destruct tr; [left; exists (EvConnect true); destruct (step (core f) (EvConnect true)); reflexivity|right; split; reflexivity]|].
    left; exists (EvConnect false); destruct (step (core f) (EvConnect false)); reflexivity.
  - destruct (hs f) as [[p| |]|]; try (right; split; reflexivity).
    + destruct (handshake_ok tr (SrvTls p)); [left; exists (EvConnect true)|left; exists (EvConnect false)];
        match goal with |- context [step (core f) ?ev] => destruct (step (core f) ev); reflexivity end.
    + destruct (handshake_ok tr SrvCloses); [left; exists (EvConnect true)|left; exists (EvConnect false)];
        match goal with |- context [step (core f) ?ev] => destruct (step (core f) ev); reflexivity end.
Qed.

(* ClientFront_no_bytes_before_handshake, step level: request bytes are written / reply frames
   interpreted only on a connection that is up, and that connection was admitted *)
Lemma traffic_only_when_admitted f e : finv f -> existsb is_traffic (snd (cstep f e)) = true ->
  connected (ph (core f)) = true /\ hs f = None /\ admitted_server tr (last_server f).
Proof.
  intros Hf Ht. destruct (cstep_is_step f e) as [(ev & E)|[_ E]]; [|rewrite E in Ht; discriminate].
  assert (Hc : connected (ph (core f)) = true).
  { apply (traffic_needs_connection cfg (core f) ev). rewrite <- E. exact Ht. }
  destruct Hf as [_ I2]. destruct (I2 Hc). auto.
Qed.

Lemma no_traffic_while_handshaking f e k : finv f -> hs f = Some k -> existsb is_traffic (snd (cstep f e)) = false.
Proof.
  intros Hf Hk. destruct (existsb is_traffic (snd (cstep f e))) eqn:Et; [|reflexivity].
  destruct (traffic_only_when_admitted f e Hf Et) as (_ & Hn & _). congruence.
Qed.

(* a failed handshake is handled exactly like a failed connect *)
Lemma failed_handshake_is_failed_connect f k : hs f = Some k -> k <> SrvStalls -> handshake_ok tr k = false ->
  cstep f CHandshake =
    (let '(s', o) := step (core f) (EvConnect false) in ({| core := s'; hs := None; last_server := last_server f |}, o)).
Proof.
  intros Hk Hns Hok. unfold ClientFront.cstep. rewrite Hk. destruct k; [| |contradiction]; rewrite Hok; reflexivity.
Qed.

Lemma failed_handshake_waits_next_delay f k : finv f -> hs f = Some k -> k <> SrvStalls -> handshake_ok tr k = false ->
  2 * cur (retry (core f)) <= dur_max ->
  snd (cstep f CHandshake) = [OListen (LWaitFailed (cur (retry (core f))))] /\
  retry (core (fst (cstep f CHandshake))) =
    {| dmin := dmin (retry (core f)); dmax := dmax (retry (core f)); cur := N.min (2 * cur (retry (core f))) (dmax (retry (core f))) |}.
Proof.
  intros [I1 _] Hk Hns Hok Hov. destruct (I1 k Hk) as [Hp _].
  rewrite (failed_handshake_is_failed_connect f k Hk Hns Hok), (connect_false_effect cfg (core f) Hp Hov). split; reflexivity.
Qed.

(* ClientFront_admits_iff: Connected is announced exactly when the TCP connect succeeded and, for a TLS
   client, the handshake succeeded *)
Lemma connected_front_iff f e : finv f ->
  (In (OListen LConnected) (snd (cstep f e)) <->
   ph (core f) = PConnecting /\
   ((tr = CPlain /\ hs f = None /\ exists k, e = CTcp true k) \/
    (exists k, hs f = Some k /\ e = CHandshake /\ handshake_ok tr k = true))).
Proof.
  intros [I1 I2]. unfold ClientFront.cstep. destruct e as [ev|ok k|].
  - (* no event of the task model announces Connected: EvConnect is refined away *)
    split; [|intros (_ & [(_ & _ & k & E)|(k & _ & E & _)]); discriminate].
    intros Hin. exfalso. destruct (connect_or_not ev) as [(b & ->)|Hne]; [destruct Hin|].
    fold (ClientFront.cstep cfg tr f (CE ev)) in Hin. rewrite (cstep_CE f ev Hne) in Hin.
    assert (Hno : ~ In (OListen LConnected) (snd (step (core f) ev))).
    { intros Hx. apply connected_announced_iff in Hx. destruct Hx as [Hx _]. now apply (Hne true). }
    destruct (step (core f) ev) as [s' o]; cbn [snd] in *; now apply Hno.
  - destruct (hs f) as [k0|] eqn:Eh.
    { split; [intros []|]. intros (_ & [(_ & E & _)|(k1 & _ & E & _)]); discriminate. }
    destruct (ph (core f)) eqn:Ep;
      try (split; [intros []|intros (E & _); discriminate]).
    destruct ok.
    + destruct tr as [|min mode ng] eqn:Etr.
      * destruct (step (core f) (EvConnect true)) as [s' o] eqn:Es. cbn [snd]. split.
        -- intros _. split; [reflexivity|]. left. split; [reflexivity|]. split; [reflexivity|now exists k].
        -- intros _. assert (Hx : In (OListen LConnected) (snd (step (core f) (EvConnect true)))) by (apply connected_announced_iff; now split).
           rewrite Es in Hx. exact Hx.
      * cbn [snd]. split; [intros []|]. intros (_ & [(E & _)|(k1 & E & _)]); discriminate.
    + destruct (step (core f) (EvConnect false)) as [s' o] eqn:Es. cbn [snd]. split.
      * intros Hin. exfalso. assert (Hx : In (OListen LConnected) (snd (step (core f) (EvConnect false)))) by (rewrite Es; exact Hin).
        apply connected_announced_iff in Hx. destruct Hx as [Hx _]. discriminate.
      * intros (_ & [(_ & _ & k1 & E)|(k1 & _ & E & _)]); discriminate.
  - destruct (hs f) as [k|] eqn:Eh.
    2:{ split; [intros []|]. intros (_ & [(_ & _ & k1 & E)|(k1 & E & _)]); discriminate. }
    destruct (I1 k eq_refl) as [Hp Htr].
    assert (Hgen : forall b, (let '(s', o) := step (core f) (EvConnect b) in o) = snd (step (core f) (EvConnect b))) by (intros b; destruct (step (core f) (EvConnect b)); reflexivity).
    destruct k as [p| |].
    + destruct (handshake_ok tr (SrvTls p)) eqn:Ek.
      * destruct (step (core f) (EvConnect true)) as [s' o] eqn:Es. cbn [snd]. split.
        -- intros _. split; [exact Hp|]. right. exists (SrvTls p). auto.
        -- intros _. assert (Hx : In (OListen LConnected) (snd (step (core f) (EvConnect true)))) by (apply connected_announced_iff; now split).
           rewrite Es in Hx. exact Hx.
      * destruct (step (core f) (EvConnect false)) as [s' o] eqn:Es. cbn [snd]. split.
        -- intros Hin. exfalso. assert (Hx : In (OListen LConnected) (snd (step (core f) (EvConnect false)))) by (rewrite Es; exact Hin).
           apply connected_announced_iff in Hx. destruct Hx as [Hx _]. discriminate.
        -- intros (_ & [(_ & E & _)|(k1 & E1 & _ & Ek1)]); [discriminate|]. inversion E1; subst. congruence.
    + assert (Ek : handshake_ok tr SrvCloses = false) by (unfold handshake_ok; destruct tr; reflexivity). rewrite Ek.
      destruct (step (core f) (EvConnect false)) as [s' o] eqn:Es. cbn [snd]. split.
      * intros Hin. exfalso. assert (Hx : In (OListen LConnected) (snd (step (core f) (EvConnect false)))) by (rewrite Es; exact Hin).
        apply connected_announced_iff in Hx. destruct Hx as [Hx _]. discriminate.
      * intros (_ & [(_ & E & _)|(k1 & E1 & _ & Ek1)]); [discriminate|]. inversion E1; subst. congruence.
    + cbn [snd]. split; [intros []|]. intros (_ & [(_ & E & _)|(k1 & E1 & _ & Ek1)]); [discriminate|].
      inversion E1; subst. unfold handshake_ok in Ek1. destruct tr; discriminate.
Qed.

End Front.

(* ------------------------------------------------------------------ ClientFront_retry *)
From Rodbus Require Import Model.RetryTask Proofs.RetryTaskProofs.

Fixpoint kafter (k : nat) (ops : list op) : nat :=
  match ops with
  | [] => k
  | Fail :: r => kafter (S k) r
  | Disc :: r => kafter k r
  | Reset :: r => kafter 0 r
  end.

Lemma spec_app mn mx a : forall k b, spec mn mx k (a ++ b) = spec mn mx k a ++ spec mn mx (kafter k a) b.
Proof.
  induction a as [|o a IH]; intros k b; [reflexivity|]. destruct o; cbn [app spec kafter]; now rewrite IH.
Qed.

Lemma kafter_app a : forall k b, kafter k (a ++ b) = kafter (kafter k a) b.
Proof. induction a as [|o a IH]; intros k b; [reflexivity|]. destruct o; cbn [app kafter]; apply IH. Qed.

Lemma sops_app a b : sops (a ++ b) = sops a ++ sops b.
Proof. unfold sops. apply flat_map_app. Qed.
Lemma waits_app a b : waits (a ++ b) = waits a ++ waits b.
Proof. unfold waits. apply flat_map_app. Qed.

Section Retry.
Variable mn mx : N.
Hypothesis Hle : mn <= mx.
Hypothesis Hov : 2 * mx <= dur_max.

Definition sinv (d : doubling) (k : nat) : Prop := dmin d = mn /\ dmax d = mx /\ cur d = delay_spec mn mx k.

Lemma retry_step_spec d k o d' v : sinv d k -> Retry.step d o = Some (d', v) ->
  sinv d' (kafter k [o]) /\ spec mn mx k [o] = [v].
Proof.
  intros (Hmn & Hmx & Hc) Hs. destruct o; cbn [kafter spec].
  - unfold Retry.step in Hs. destruct (dur_max <? 2 * cur d); [discriminate|]. inversion Hs; subst d' v. unfold sinv; cbn [dmin dmax cur].
    split; [|now rewrite Hc]. split; [exact Hmn|]. split; [exact Hmx|]. rewrite Hmx, Hc. symmetry. now apply delay_succ.
  - unfold Retry.step in Hs. inversion Hs; subst d' v. split; [now unfold sinv|now rewrite Hmn].
  - unfold Retry.step in Hs. inversion Hs; subst d' v. unfold sinv; cbn [dmin dmax cur]. split; [|reflexivity].
    split; [exact Hmn|]. split; [exact Hmx|]. rewrite Hmn. unfold delay_spec. change (2 ^ N.of_nat 0) with 1. lia.
Qed.

Lemma step_spec cfg s e k : sinv (retry s) k ->
  let l := listens_of (snd (ClientTask.step cfg s e)) in
  waits l = somes (spec mn mx k (sops l)) /\ sinv (retry (fst (ClientTask.step cfg s e))) (kafter k (sops l)).
Proof.
  intros Hi. cbv zeta. destruct (step_strategy cfg s e) as [(E1 & E2 & E3)|(o & v & E1 & E2 & E3)].
  - rewrite E1, E2, E3. split; [reflexivity|exact Hi].
  - rewrite E1, E3. destruct (retry_step_spec _ _ _ _ _ Hi E2) as [Hi' Hs]. rewrite Hs. split; [destruct v; reflexivity|exact Hi'].
Qed.

Lemma cstep_spec cfg tr f e k : sinv (retry (core f)) k ->
  let l := listens_of (snd (cstep cfg tr f e)) in
  waits l = somes (spec mn mx k (sops l)) /\ sinv (retry (core (fst (cstep cfg tr f e)))) (kafter k (sops l)).
Proof.
  intros Hi. cbv zeta. destruct (cstep_is_step cfg tr f e) as [(ev & E)|[E1 E2]].
  - pose proof (step_spec cfg (core f) ev k Hi) as Hs. cbv zeta in Hs. rewrite <- E in Hs. exact Hs.
  - rewrite E1, E2. split; [reflexivity|exact Hi].
Qed.

Lemma crun_spec cfg tr es : forall f k, sinv (retry (core f)) k ->
  let l := listens_of (snd (crun cfg tr f es)) in
  waits l = somes (spec mn mx k (sops l)) /\ sinv (retry (core (fst (crun cfg tr f es)))) (kafter k (sops l)).
Proof.
  induction es as [|e r IH]; intros f k Hi; cbv zeta; cbn [ClientFront.crun]; [split; [reflexivity|exact Hi]|].
  pose proof (cstep_spec cfg tr f e k Hi) as H1. cbv zeta in H1.
  destruct (cstep cfg tr f e) as [f1 o1]. cbn [fst snd] in H1. destruct H1 as [W1 I1].
  specialize (IH f1 _ I1). cbv zeta in IH. destruct (crun cfg tr f1 r) as [f2 o2]. cbn [fst snd] in *. destruct IH as [W2 I2].
  rewrite listens_app, waits_app, sops_app, spec_app, somes_app, kafter_app, W1, W2. split; [reflexivity|exact I2].
Qed.

(* ClientFront_retry *)
Lemma front_retry cfg tr h mt es :
  let l := listens_of (snd (crun cfg tr (cinit h mt mn mx) es)) in
  waits l = somes (spec mn mx 0 (sops l)).
Proof.
  cbv zeta. apply (crun_spec cfg tr es (cinit h mt mn mx) 0%nat).
  unfold sinv, cinit, init, create; cbn. repeat split. unfold delay_spec. cbn. lia.
Qed.
End Retry.

(* ------------------------------------------------------------------ the handshake is raced with the command queue *)
Section Raced.
Variable cfg : ClientTask.config.
Variable tr : ctransport.

(* while the handshake is pending, every event of the task model is handled exactly as p4's Connecting phase handles it *)
Lemma parked_is_connecting f ev : (forall b, ev <> EvConnect b) ->
  (core (fst (cstep cfg tr f (CE ev))), snd (cstep cfg tr f (CE ev))) = ClientTask.step cfg (core f) ev.
Proof. intros Hne. rewrite (cstep_CE cfg tr f ev Hne). destruct (ClientTask.step cfg (core f) ev); reflexivity. Qed.

(* Shutdown while the handshake is pending ends the task at once, with exactly one Shutdown notification,
   and the handshake (the socket) is dropped; a queued request fails at once with NoConnection *)
Lemma shutdown_during_handshake f k q : finv tr f -> hs f = Some k -> queue (core f) = CShutdown :: q ->
  let f' := fst (cstep cfg tr f (CE EvRecv)) in
  ph (core f') = PDone /\ hs f' = None /\ listens_of (snd (cstep cfg tr f (CE EvRecv))) = [LShutdown].
Proof.
  intros [I1 _] Hk Hq. destruct (I1 k Hk) as [Hp _]. cbv zeta.
  assert (Hl : listens (ph (core f)) = true) by (rewrite Hp; reflexivity).
  destruct (proj1 (c13_terminates cfg (core f) Hl) q Hq) as [Hd Hs].
  rewrite (cstep_CE cfg tr f EvRecv) by (intros b; discriminate).
  destruct (ClientTask.step cfg (core f) EvRecv) as [s' o]. cbn [fst snd core hs] in *. rewrite Hd.
  split; [reflexivity|]. split; [destruct (hs f); reflexivity|exact Hs].
Qed.

Lemma request_during_handshake_fails_fast f k r q : finv tr f -> hs f = Some k -> queue (core f) = CReq r :: q ->
  snd (cstep cfg tr f (CE EvRecv)) = [OComplete (rq_id r) (RErr ReNoConnection)] /\ hs (fst (cstep cfg tr f (CE EvRecv))) = Some k.
Proof.
  intros [I1 _] Hk Hq. destruct (I1 k Hk) as [Hp _].
  assert (Hl : listens (ph (core f)) = true) by (rewrite Hp; reflexivity).
  assert (Hc : connected (ph (core f)) = false) by (rewrite Hp; reflexivity).
  pose proof (c13_fail_fast cfg (core f) r q Hl Hc Hq) as Hs.
  rewrite (cstep_CE cfg tr f EvRecv) by (intros b; discriminate). rewrite Hs. cbn [fst snd core hs ph set_chan]. rewrite Hk, Hp. split; reflexivity.
Qed.

(* p4's liveness theorem now holds for the composed TLS client in EVERY state, the handshake included:
   the task's own steps (recv, timers, clock) on the composed model are p4's steps on its core *)
Lemma crun_internal es : forallb internal es = true -> forall f,
  core (fst (crun cfg tr f (map CE es))) = fst (ClientTask.run cfg (core f) es).
Proof.
  induction es as [|e r IH]; intros Hi f; [reflexivity|]. cbn [forallb] in Hi. apply andb_prop in Hi. destruct Hi as [He Hr].
  cbn [map ClientFront.crun ClientTask.run].
  assert (Hne : forall b, e <> EvConnect b) by (intros b E; subst; discriminate He).
  pose proof (parked_is_connecting f e Hne) as Hp.
  destruct (cstep cfg tr f (CE e)) as [f1 o1]. cbn [fst snd] in Hp.
  destruct (ClientTask.step cfg (core f) e) as [s1 p1]. inversion Hp; subst.
  specialize (IH Hr f1). destruct (crun cfg tr f1 (map CE r)) as [f2 o2]. cbn [fst] in *.
  destruct (ClientTask.run cfg (core f1) r) as [s2 p2]. cbn [fst] in *. exact IH.
Qed.

Lemma front_shutdown_from_every_state f :
  (queue (core f) = [] -> blocked (core f) = []) -> In CShutdown (queue (core f) ++ blocked (core f)) -> ph (core f) <> PDone ->
  exists es, forallb internal es = true /\ ph (core (fst (crun cfg tr f (map CE es)))) = PDone.
Proof.
  intros H1 H2 H3. destruct (shutdown_from_every_state cfg (core f) H1 H2 H3) as (es & Hi & Hd).
  exists es. split; [exact Hi|]. now rewrite (crun_internal es Hi f).
Qed.
End Raced.

(* the scenario that used to be the observation: a TLS server that accepts and stays silent *)
Lemma handshake_raced_witness :
  let cfg := {| cfg_cap := 4%nat; cfg_res := 1 |} in
  let tr := CTls V1_2 AuthorityBased true in
  let '(f, o) := crun cfg tr (cinit 1 None 20 70)
                   [CE (EvSubmit CEnable SFuture); CE EvRecv; CTcp true SrvStalls; CE (EvSubmit CShutdown SFuture); CE EvRecv] in
  hs f = None /\ ph (core f) = PDone /\ listens_of o = [LConnecting; LShutdown].
Proof. vm_compute. repeat split; reflexivity. Qed.
