(* The error CLASS a caller sees, computed from the code's own conversion tables (Gen/ErrorMaps.v,
   regenerated from the `From` impls of error.rs) and SessionError::from_request_err
   (Gen/SessionErrors.v): where each error of the codec model originates in the code, which
   RequestError it becomes, and whether it ends the session. *)
From Coq Require Import NArith List Lia Bool.
From Rodbus Require Import Base.Outcome Base.Cursor Base.ClientTypes Model.Format Model.Range Model.ClientRequest
  Spec.ClientCodecSpec Gen.Consts Gen.ClientTables Gen.SessionErrors Gen.ErrorMaps
  Proofs.ClientCodecProofs Proofs.ClientReplyProofs.
From Rodbus Require Base.Frame.
Import ListNotations.
Local Open Scope N_scope.

(* the origin of each error of Model/ClientRequest.v, as a value of the code's types:
   InvalidRange via `?` / `.into()` (From<InvalidRange>), InvalidRequest (From<InvalidRequest>),
   scursor WriteError (From<WriteError>), InternalError (From<InternalError>), scursor ReadError
   (From<ReadError>), scursor TrailingBytes (From<TrailingBytes>; get_error_for builds the same
   value directly), AduParseError (From<AduParseError> / built directly), ExceptionCode *)
Definition full_of (e : req_err) : request_error_full :=
  match e with
  | ECountOfZero => from_invalid_range IrCountOfZero
  | EAddressOverflow => from_invalid_range IrAddressOverflow
  | ECountTooLargeForType => from_invalid_range IrCountTooLargeForType
  | ECountTooBigForU16 => from_invalid_request IqCountTooBigForU16
  | ECountTooBigForType => from_invalid_request IqCountTooBigForType
  | EInsufficientWriteSpace => from_write_error WriteErrorWriteOverflow
  | EBadByteCount => from_internal_error InBadByteCount
  | EInsufficientBytes => from_read_error
  | ETrailingBytes => from_trailing_bytes
  | EReplyEchoMismatch => from_adu_parse_error ApReplyEchoMismatch
  | EUnknownResponseFunction => from_adu_parse_error ApUnknownResponseFunction
  | EUnknownCoilState => from_adu_parse_error ApUnknownCoilState
  | EException _ => from_exception_code
  end.
Definition class_of (e : req_err) : request_error := class_of_full (full_of e).

(* the model's flat names are the code's variants *)
Lemma full_of_table :
  full_of ECountOfZero = RqBadRequest (IqBadRange IrCountOfZero) /\
  full_of EAddressOverflow = RqBadRequest (IqBadRange IrAddressOverflow) /\
  full_of ECountTooLargeForType = RqBadRequest (IqBadRange IrCountTooLargeForType) /\
  full_of ECountTooBigForU16 = RqBadRequest IqCountTooBigForU16 /\
  full_of ECountTooBigForType = RqBadRequest IqCountTooBigForType /\
  full_of EInsufficientWriteSpace = RqInternal InInsufficientWriteSpace /\
  full_of EBadByteCount = RqInternal InBadByteCount /\
  full_of EInsufficientBytes = RqBadResponse ApInsufficientBytes /\
  full_of ETrailingBytes = RqBadResponse ApTrailingBytes /\
  full_of EReplyEchoMismatch = RqBadResponse ApReplyEchoMismatch /\
  full_of EUnknownResponseFunction = RqBadResponse ApUnknownResponseFunction /\
  full_of EUnknownCoilState = RqBadResponse ApUnknownCoilState /\
  (forall ex, full_of (EException ex) = RqException).
Proof. repeat split. Qed.

Lemma class_exception e : class_of e = ReException <-> is_exception e.
Proof. destruct e; cbn; split; intros H; try discriminate; try contradiction; try exact I; reflexivity. Qed.

(* no error of request construction, encoding or reply decoding ends the session *)
Lemma codec_error_keeps_session e : from_request_err (class_of e) = None.
Proof. destruct e; reflexivity. Qed.

(* ---- which errors reply decoding can produce ---- *)
Definition decode_err (e : req_err) : Prop :=
  match e with
  | EInsufficientBytes | ETrailingBytes | EReplyEchoMismatch | EUnknownResponseFunction | EUnknownCoilState
  | ECountOfZero | EAddressOverflow | EException _ => True
  | _ => False
  end.
Definition only {A} (P : req_err -> Prop) (o : outcome req_err A) : Prop := forall e, o = Err e -> P e.

Lemma only_ok {A} P (a : A) : only P (Ok a).
Proof. intros e H. discriminate. Qed.
Lemma only_panic {A} P : only P (@Panic req_err A).
Proof. intros e H. discriminate. Qed.
Lemma only_err {A} (P : req_err -> Prop) e : P e -> only P (@Err req_err A e).
Proof. intros H e' E. inversion E. now subst. Qed.
Lemma only_bind {A B} P (o : outcome req_err A) (f : A -> outcome req_err B) :
  only P o -> (forall a, only P (f a)) -> only P (obind o f).
Proof.
  intros Ho Hf. destruct o as [a|e|]; cbn [obind]; [apply Hf| |apply only_panic]. intros e' E. inversion E. subst. now apply Ho.
Qed.
Lemma only_R {A} (o : option A) : only decode_err (R o).
Proof. destruct o; [apply only_ok|apply only_err; exact I]. Qed.
Lemma only_expect_empty c : only decode_err (expect_empty c).
Proof. unfold expect_empty. destruct (rd_is_empty c); [apply only_ok|apply only_err; exact I]. Qed.
Lemma only_coil v : only decode_err (coil_from_u16 v).
Proof. unfold coil_from_u16. destruct (_ =? _); [apply only_ok|]. destruct (_ =? _); [apply only_ok|apply only_err; exact I]. Qed.
Lemma only_try_from s n : only decode_err (of_range (try_from s n)).
Proof. unfold try_from. destruct (n =? 0); [apply only_err; exact I|]. destruct (_ <? s); [apply only_err; exact I|apply only_ok]. Qed.

Lemma only_details r c : request_wf r -> only decode_err (details_handle_response r c).
Proof.
  intros Hwf. destruct r as [[s n]|[s n]|[s n]|[s n]|i x|i x|[s n] vs|[s n] vs]; cbn [request_wf details_handle_response] in *.
  1,2: rewrite parse_bits_closed by assumption; destruct c as [|bc data]; [apply only_err; exact I|];
       destruct (_ <? _); [apply only_err; exact I|]; destruct (_ <? _); [apply only_err; exact I|apply only_ok].
  1,2: rewrite parse_registers_closed by assumption; destruct c as [|bc data]; [apply only_err; exact I|];
       destruct (_ <? _); [apply only_err; exact I|]; destruct (_ <? _); [apply only_err; exact I|apply only_ok].
  - unfold parse_single_coil. apply only_bind; [apply only_R|intros [ri c1]].
    apply only_bind; [apply only_R|intros [raw c2]]. apply only_bind; [apply only_coil|intros rv].
    apply only_bind; [apply only_expect_empty|intros _]. destruct (_ && _); [apply only_ok|apply only_err; exact I].
  - unfold parse_single_register. apply only_bind; [apply only_R|intros [ri c1]].
    apply only_bind; [apply only_R|intros [rv c2]].
    apply only_bind; [apply only_expect_empty|intros _]. destruct (_ && _); [apply only_ok|apply only_err; exact I].
  - unfold parse_multiple. apply only_bind; [apply only_R|intros [rs c1]].
    apply only_bind; [apply only_R|intros [rn c2]]. apply only_bind; [apply only_try_from|intros rg].
    destruct (negb _); [apply only_err; exact I|]. apply only_bind; [apply only_expect_empty|intros _; apply only_ok].
  - unfold parse_multiple. apply only_bind; [apply only_R|intros [rs c1]].
    apply only_bind; [apply only_R|intros [rn c2]]. apply only_bind; [apply only_try_from|intros rg].
    destruct (negb _); [apply only_err; exact I|]. apply only_bind; [apply only_expect_empty|intros _; apply only_ok].
Qed.

Theorem decode_errors r pdu e : request_wf r -> handle_response r pdu = Err e -> decode_err e.
Proof.
  intros Hwf. unfold handle_response. destruct pdu as [|f rest]; cbn [rd_u8].
  - intros H; inversion H; exact I.
  - destruct (negb _).
    + intros H; inversion H. unfold get_error_for. destruct (_ =? _); [|exact I].
      destruct (rd_u8 rest) as [[x c1]|]; [|exact I]. destruct (rd_is_empty c1); exact I.
    + apply only_details. exact Hwf.
Qed.

(* every failure of reply decoding: an exception (exactly for a well-formed exception reply), or a
   BadResponse / BadRequest(BadRange) error - never Internal, BadFrame or Io - and it never ends the session *)
Theorem decode_error_class r pdu e : request_wf r -> handle_response r pdu = Err e ->
  (class_of e = ReException \/ class_of e = ReBadResponse \/ class_of e = ReBadRequest) /\
  from_request_err (class_of e) = None.
Proof.
  intros Hwf H. split; [|apply codec_error_keeps_session].
  pose proof (decode_errors r pdu e Hwf H) as D. destruct e; cbn in D; try contradiction; cbn; auto.
Qed.

(* every rejection of a call: BadRequest, before anything is sent; the session goes on.
   (same case analysis as ClientCodecProofs.submit_outside, keeping the error) *)
Lemma submit_outside_class f tx uid c : call_wf c -> ~ within_limits c ->
  exists e, client_submit f tx uid c = Err e /\ class_of e = ReBadRequest.
Proof.
  intros Hwf Hlim. unfold within_limits in Hlim. apply not_true_is_false in Hlim.
  unfold client_submit.
  destruct c as [s n|s n|s n|s n|i v|i v|s vs|s vs]; cbn [within_limits_b call_wf] in *; unfold is_u16 in *; try discriminate.
  1,2: cbn [build]; unfold of_read_bits, max_read_coils_count; rewrite limited_count_spec by lia; destruct (range_ok s n) eqn:Hr;
       [apply range_ok_true in Hr;
        destruct (N.ltb_spec 2000 n); [cbn; eauto|cbn [andb] in Hlim; lia]
       | destruct (n =? 0); cbn; eauto].
  1,2: cbn [build]; unfold of_read_registers, max_read_registers_count; rewrite limited_count_spec by lia; destruct (range_ok s n) eqn:Hr;
       [apply range_ok_true in Hr;
        destruct (N.ltb_spec 125 n); [cbn; eauto|cbn [andb] in Hlim; lia]
       | destruct (n =? 0); cbn; eauto].
  - cbn [build]. unfold write_multiple_from. fold (len vs) in *.
    destruct (N.ltb_spec 65535 (len vs)); [cbn; eauto|]. rewrite try_from_spec by lia.
    destruct (range_ok s (len vs)) eqn:Hr; [|destruct (len vs =? 0); cbn; eauto].
    cbn [of_range obind andb] in *. unfold client_encode.
    assert (Hser : forall w, serialize (RWriteMultipleCoils (s, len vs) vs) w = Err ECountTooBigForType).
    { intros w. cbn [serialize]. unfold ser_write_multiple_bool, max_write_coils_count. cbn [snd].
      destruct (N.ltb_spec 1968 (len vs)); [reflexivity|lia]. }
    destruct f; unfold frame_format, mbap_format, rtu_format, Format.w.
    + do 3 (rewrite wr_u16_be_ok by room; cbn [of_option obind]).
      do 2 (rewrite wr_u8_ok by room; cbn [of_option obind]). rewrite Hser. cbn; eauto.
    + do 2 (rewrite wr_u8_ok by room; cbn [of_option obind]). rewrite Hser. cbn; eauto.
  - destruct Hwf as [Hs _]. cbn [build]. unfold write_multiple_from. fold (len vs) in *.
    destruct (N.ltb_spec 65535 (len vs)); [cbn; eauto|]. rewrite try_from_spec by lia.
    destruct (range_ok s (len vs)) eqn:Hr; [|destruct (len vs =? 0); cbn; eauto].
    cbn [of_range obind andb] in *. unfold client_encode.
    assert (Hser : forall w, serialize (RWriteMultipleRegisters (s, len vs) vs) w = Err ECountTooBigForType).
    { intros w. cbn [serialize]. unfold ser_write_multiple_u16, max_write_registers_count. cbn [snd].
      destruct (N.ltb_spec 123 (len vs)); [reflexivity|lia]. }
    destruct f; unfold frame_format, mbap_format, rtu_format, Format.w.
    + do 3 (rewrite wr_u16_be_ok by room; cbn [of_option obind]).
      do 2 (rewrite wr_u8_ok by room; cbn [of_option obind]). rewrite Hser. cbn; eauto.
    + do 2 (rewrite wr_u8_ok by room; cbn [of_option obind]). rewrite Hser. cbn; eauto.
Qed.

Theorem submit_error_class f tx uid c e : call_wf c -> client_submit f tx uid c = Err e ->
  class_of e = ReBadRequest /\ from_request_err (class_of e) = None.
Proof.
  intros Hwf H. split; [|apply codec_error_keeps_session].
  destruct (within_dec c) as [Hl|Hl]; [rewrite (submit_within f tx uid c Hwf Hl) in H; discriminate|].
  destruct (submit_outside_class f tx uid c Hwf Hl) as (e' & He' & Hc). congruence.
Qed.

(* ---- framing and transport failures, on the code's tables ---- *)
Theorem frame_error_ends_session fe :
  class_of_full (from_frame_parse_error fe) = ReBadFrame /\ from_request_err (class_of_full (from_frame_parse_error fe)) = Some SeBadFrame.
Proof. destruct fe; split; reflexivity. Qed.

Theorem io_error_ends_session :
  class_of_full from_io_error = ReIo /\ from_request_err (class_of_full from_io_error) = Some SeIoError.
Proof. split; reflexivity. Qed.

(* the framing models' error vocabulary (Base/Frame.v ferr, used by Model/Mbap.v, Model/Rtu.v,
   Model/Reader.v) in the code's types *)
Definition full_of_ferr (e : Frame.ferr) : request_error_full :=
  match e with
  | Frame.UnknownProtocolId _ => from_frame_parse_error FpUnknownProtocolId
  | Frame.FrameLengthTooBig _ _ => from_frame_parse_error FpFrameLengthTooBig
  | Frame.MbapLengthZero => from_frame_parse_error FpMbapLengthZero
  | Frame.UnknownFunctionCode _ => from_frame_parse_error FpUnknownFunctionCode
  | Frame.CrcValidationFailure _ _ => from_frame_parse_error FpCrcValidationFailure
  | Frame.InternalError => from_internal_error InInsufficientBytesForRead
  end.

(* every framing error the readers can deliver (InternalError is unreachable: C05_reject / C07)
   is a BadFrame and ends the session; the unreachable one would be Internal and would not *)
Theorem ferr_class e : e <> Frame.InternalError ->
  class_of_full (full_of_ferr e) = ReBadFrame /\ from_request_err (class_of_full (full_of_ferr e)) = Some SeBadFrame.
Proof. destruct e; intros H; try (split; reflexivity). contradiction. Qed.

(* the other request errors: timeout, no connection, shutdown do not end the session by themselves *)
Theorem other_errors_keep_session :
  from_request_err ReResponseTimeout = None /\ from_request_err ReNoConnection = None /\ from_request_err ReShutdown = None /\
  from_request_err ReException = None /\ from_request_err ReBadResponse = None /\ from_request_err ReBadRequest = None /\
  from_request_err ReInternal = None.
Proof. repeat split. Qed.
