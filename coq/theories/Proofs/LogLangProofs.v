From Coq Require Import List.
From Rodbus Require Import Model.LogLang.
Import ListNotations.

Section P.
Variables (Level St Out Log : Type).
Notation stmt := (stmt Level St Out Log).
Notation run := (run Level St Out Log).
Notation observable := (observable Level St Out Log).
Notation erase := (erase Level St Out Log).
Notation steps_only := (steps_only Level St Out Log).

(* observable behaviour is that of the level-independent steps alone *)
Lemma observable_steps_only (prog : list stmt) : forall lv lv' s,
  observable (run lv s prog) = observable (run lv' s (steps_only prog)).
Proof.
  induction prog as [|c rest IH]; intros lv lv' s; [reflexivity|].
  destruct c as [f|p msg|l]; cbn [LogLang.run LogLang.steps_only].
  - destruct (f s) as [s' o]. specialize (IH lv lv' s'). unfold LogLang.observable in *. cbn.
    inversion IH as [[H1 H2]]. rewrite H1, H2. reflexivity.
  - rewrite <- (IH lv lv' s). reflexivity.
  - apply IH.
Qed.

(* identical inputs at any two initial levels: identical observables *)
Lemma level_independent (prog : list stmt) lv lv' s :
  observable (run lv s prog) = observable (run lv' s prog).
Proof. rewrite (observable_steps_only prog lv lv s), (observable_steps_only prog lv' lv s). reflexivity. Qed.

Lemma steps_only_erase (prog : list stmt) : steps_only (erase prog) = steps_only prog.
Proof. induction prog as [|c rest IH]; [reflexivity|]. destruct c; cbn; rewrite ?IH; reflexivity. Qed.

(* level changes injected at any positions never change, interrupt or reorder observable effects *)
Lemma level_changes_unobservable (prog : list stmt) lv lv' s :
  observable (run lv s prog) = observable (run lv' s (erase prog)).
Proof.
  rewrite (observable_steps_only prog lv lv s), (observable_steps_only (erase prog) lv' lv s), steps_only_erase.
  reflexivity.
Qed.

(* inserting a level change anywhere *)
Lemma insert_level_change (p1 p2 : list stmt) l lv s :
  observable (run lv s (p1 ++ SetLevel _ _ _ _ l :: p2)) = observable (run lv s (p1 ++ p2)).
Proof.
  rewrite (level_changes_unobservable (p1 ++ _ :: p2) lv lv s), (level_changes_unobservable (p1 ++ p2) lv lv s).
  f_equal. f_equal. clear. induction p1 as [|c r IH]; [reflexivity|]. destruct c; cbn; rewrite ?IH; reflexivity.
Qed.
End P.
