(* C19 atomicity: proofs. *)
From Coq Require Import NArith List Lia Bool Arith.
From Rodbus Require Import Spec.AtomicSpec Model.Atomic.
Import ListNotations.

(* ---------- list / upd_thread lemmas ---------- *)
Lemma upd_cons : forall a ts i t, upd_thread (a :: ts) (S i) t = a :: upd_thread ts i t.
Proof. reflexivity. Qed.
Lemma upd_zero : forall a ts t, upd_thread (a :: ts) 0 t = t :: ts.
Proof. reflexivity. Qed.

Lemma nth_error_upd_same : forall ts i t, i < length ts -> nth_error (upd_thread ts i t) i = Some t.
Proof.
  induction ts as [|a ts IH]; intros i t H; cbn [length] in H; [lia|].
  destruct i as [|i]; [reflexivity|].
  rewrite upd_cons. cbn [nth_error]. apply IH. lia.
Qed.

Lemma nth_error_upd_other : forall ts i j t, j <> i -> i < length ts ->
  nth_error (upd_thread ts i t) j = nth_error ts j.
Proof.
  induction ts as [|a ts IH]; intros i j t Hne H; cbn [length] in H; [lia|].
  destruct i as [|i].
  - rewrite upd_zero. destruct j as [|j]; [congruence|reflexivity].
  - rewrite upd_cons. destruct j as [|j]; [reflexivity|].
    cbn [nth_error]. apply IH; lia.
Qed.

Lemma length_upd : forall ts i t, i < length ts -> length (upd_thread ts i t) = length ts.
Proof.
  induction ts as [|a ts IH]; intros i t H; cbn [length] in H; [lia|].
  destruct i as [|i]; [reflexivity|].
  rewrite upd_cons. cbn [length]. rewrite IH; lia.
Qed.

Lemma nth_error_lt : forall (A : Type) (l : list A) i x, nth_error l i = Some x -> i < length l.
Proof. intros A l i x H. apply nth_error_Some. congruence. Qed.

Lemma firstn_S_nth : forall (A : Type) (l : list A) n x,
  nth_error l n = Some x -> firstn (S n) l = firstn n l ++ [x].
Proof.
  induction l as [|a l IH]; intros n x H.
  - destruct n; discriminate.
  - destruct n as [|n]; cbn [nth_error] in H.
    + injection H as ->. reflexivity.
    + change (firstn (S (S n)) (a :: l)) with (a :: firstn (S n) l).
      rewrite (IH _ _ H). reflexivity.
Qed.

Lemma firstn_nth_none : forall (A : Type) (l : list A) n,
  nth_error l n = None -> firstn n l = l.
Proof. intros A l n H. apply firstn_all2. apply nth_error_None. exact H. Qed.

Lemma firstn_app_le : forall (A : Type) (l l' : list A) k,
  k <= length l -> firstn k (l ++ l') = firstn k l.
Proof.
  intros A l l' k H. rewrite firstn_app.
  replace (k - length l) with 0 by lia. cbn [firstn]. apply app_nil_r.
Qed.

Lemma apply_txn_snoc : forall d ws a v, apply_txn d (ws ++ [(a, v)]) = set (apply_txn d ws) a v.
Proof. intros. unfold apply_txn. rewrite fold_left_app. reflexivity. Qed.

Lemma apply_all_snoc : forall d l ws, apply_all d (l ++ [ws]) = apply_txn (apply_all d l) ws.
Proof. intros. unfold apply_all. rewrite fold_left_app. reflexivity. Qed.

(* ---------- invariant ---------- *)
(* the holder's partial progress, relative to the committed state *)
Definition holder_ok (d0 : db) (w : world) (t : thread) : Prop :=
  match tjob t with
  | Txn ws => wdb w = apply_txn (apply_all d0 (committed w)) (firstn (pc t) ws)
  | Req addrs => wdb w = apply_all d0 (committed w) /\
                 obs t = map (lookup (apply_all d0 (committed w))) (firstn (pc t) addrs)
  end.

(* the database is what the committed transactions plus the holder's progress make it *)
Definition inv_lock (d0 : db) (w : world) : Prop :=
  match owner w with
  | None => wdb w = apply_all d0 (committed w) /\
            (forall j t, nth_error (threads w) j = Some t -> holding t = false)
  | Some i => exists t, nth_error (threads w) i = Some t /\ holding t = true /\ finished t = false /\
              (forall j t', j <> i -> nth_error (threads w) j = Some t' -> holding t' = false) /\
              snap t = length (committed w) /\ holder_ok d0 w t
  end.

(* every finished request observed exactly the state after the transactions committed before it
   took the lock *)
Definition inv_fin (d0 : db) (w : world) : Prop :=
  forall j t addrs, nth_error (threads w) j = Some t -> finished t = true -> tjob t = Req addrs ->
    snap t <= length (committed w) /\
    obs t = map (lookup (apply_all d0 (firstn (snap t) (committed w)))) addrs.

Definition inv (d0 : db) (w : world) : Prop := inv_lock d0 w /\ inv_fin d0 w.

Lemma inv_init : forall d0 jobs, inv d0 (init d0 jobs).
Proof.
  intros d0 jobs. split.
  - unfold inv_lock. cbn [init owner wdb committed threads]. split; [reflexivity|].
    intros j t H. apply nth_error_In in H. apply in_map_iff in H.
    destruct H as [x [<- _]]. reflexivity.
  - intros j t addrs H Hf. cbn [init threads] in H.
    apply nth_error_In in H. apply in_map_iff in H.
    destruct H as [x [<- _]]. discriminate.
Qed.

(* a thread that holds is the owner *)
Lemma holder_is_owner : forall d0 w i t, inv_lock d0 w ->
  nth_error (threads w) i = Some t -> holding t = true -> owner w = Some i.
Proof.
  intros d0 w i t HL Ei Eh. unfold inv_lock in HL.
  destruct (owner w) as [k|].
  - destruct HL as [t0 [_ [_ [_ [Hoth _]]]]].
    destruct (Nat.eq_dec i k) as [->|Hne]; [reflexivity|].
    rewrite (Hoth _ _ Hne Ei) in Eh. discriminate.
  - destruct HL as [_ Hall]. rewrite (Hall _ _ Ei) in Eh. discriminate.
Qed.

(* inv_fin is preserved when thread i is replaced by a non-finished thread and committed is kept *)
Lemma inv_fin_upd_unfinished : forall d0 w w' i t',
  inv_fin d0 w -> i < length (threads w) ->
  threads w' = upd_thread (threads w) i t' -> committed w' = committed w ->
  finished t' = false -> inv_fin d0 w'.
Proof.
  intros d0 w w' i t' HF Hi Ht Hc Hf j t addrs Hj Hfin Hjob.
  rewrite Ht in Hj. rewrite Hc.
  destruct (Nat.eq_dec j i) as [->|Hne].
  - rewrite nth_error_upd_same in Hj by exact Hi. injection Hj as <-. congruence.
  - rewrite nth_error_upd_other in Hj by assumption. exact (HF _ _ _ Hj Hfin Hjob).
Qed.

Lemma inv_start : forall d0 w i t, inv d0 w ->
  nth_error (threads w) i = Some t -> owner w = None -> inv d0 (start_job w i t).
Proof.
  intros d0 w i t [HL HF] Ei Eo.
  pose proof (nth_error_lt _ _ _ _ Ei) as Hi.
  unfold inv_lock in HL. rewrite Eo in HL. destruct HL as [Hdb Hall].
  split.
  - unfold inv_lock, start_job. cbn [owner threads wdb committed].
    eexists. split; [apply nth_error_upd_same; exact Hi|].
    cbn [holding finished snap].
        split; [reflexivity|]. split; [reflexivity|]. split; [|split].
    + intros j t' Hne Hj. rewrite nth_error_upd_other in Hj by assumption. eapply Hall; eassumption.
    + reflexivity.
    + unfold holder_ok. cbn [tjob pc obs wdb committed]. destruct (tjob t).
      * cbn [firstn]. exact Hdb.
      * split; [exact Hdb|reflexivity].
  - eapply inv_fin_upd_unfinished with (w := w) (i := i);
        [exact HF|exact Hi|reflexivity|reflexivity|reflexivity].
Qed.

Lemma inv_micro : forall d0 w i t, inv d0 w ->
  nth_error (threads w) i = Some t -> finished t = false -> holding t = true ->
  inv d0 (micro w i t).
Proof.
  intros d0 w i t [HL HF] Ei Ef Eh.
  pose proof (nth_error_lt _ _ _ _ Ei) as Hi.
  pose proof (holder_is_owner _ _ _ _ HL Ei Eh) as Eo.
  unfold inv_lock in HL. rewrite Eo in HL.
  destruct HL as [t0 [Ei0 [_ [_ [Hoth [Hsnap Hok]]]]]].
  rewrite Ei in Ei0. injection Ei0 as <-.
  unfold holder_ok in Hok. unfold micro.
  destruct (tjob t) as [ws|addrs] eqn:Ej.
  - (* transaction *)
    destruct (nth_error ws (pc t)) as [[a v]|] eqn:Epc.
    + (* one point write *)
      split.
      * unfold inv_lock. cbn [owner threads wdb committed]. rewrite Eo.
        eexists. split; [apply nth_error_upd_same; exact Hi|].
        cbn [holding finished snap].
        split; [reflexivity|]. split; [reflexivity|]. split; [|split].
        -- intros j t' Hne Hj. rewrite nth_error_upd_other in Hj by assumption.
           eapply Hoth; eassumption.
        -- exact Hsnap.
        -- unfold holder_ok. cbn [tjob pc obs wdb committed].
           rewrite (firstn_S_nth _ _ _ _ Epc), apply_txn_snoc, <- Hok. reflexivity.
      * eapply inv_fin_upd_unfinished with (w := w) (i := i);
        [exact HF|exact Hi|reflexivity|reflexivity|reflexivity].
    + (* release: the transaction commits *)
      rewrite (firstn_nth_none _ _ _ Epc) in Hok.
      split.
      * unfold inv_lock. cbn [owner threads wdb committed]. split.
        -- rewrite apply_all_snoc. exact Hok.
        -- intros j t' Hj. destruct (Nat.eq_dec j i) as [->|Hne].
           ++ rewrite nth_error_upd_same in Hj by exact Hi. injection Hj as <-. reflexivity.
           ++ rewrite nth_error_upd_other in Hj by assumption. eapply Hoth; eassumption.
      * intros j t' addrs Hj Hfin Hjob. cbn [threads committed] in *.
        destruct (Nat.eq_dec j i) as [->|Hne].
        -- rewrite nth_error_upd_same in Hj by exact Hi. injection Hj as <-.
           cbn [tjob] in Hjob. congruence.
        -- rewrite nth_error_upd_other in Hj by assumption.
           destruct (HF _ _ _ Hj Hfin Hjob) as [Hle Hobs].
           rewrite app_length, firstn_app_le by exact Hle. split; [lia|exact Hobs].
  - (* request *)
    destruct Hok as [Hdb Hobs].
    destruct (nth_error addrs (pc t)) as [a|] eqn:Epc.
    + (* one point read *)
      split.
      * unfold inv_lock. cbn [owner threads wdb committed]. rewrite Eo.
        eexists. split; [apply nth_error_upd_same; exact Hi|].
        cbn [holding finished snap].
        split; [reflexivity|]. split; [reflexivity|]. split; [|split].
        -- intros j t' Hne Hj. rewrite nth_error_upd_other in Hj by assumption.
           eapply Hoth; eassumption.
        -- exact Hsnap.
        -- unfold holder_ok. cbn [tjob pc obs wdb committed].
           split; [exact Hdb|].
           rewrite (firstn_S_nth _ _ _ _ Epc), map_app, <- Hobs, Hdb. reflexivity.
      * eapply inv_fin_upd_unfinished with (w := w) (i := i);
        [exact HF|exact Hi|reflexivity|reflexivity|reflexivity].
    + (* release: the reply is complete *)
      rewrite (firstn_nth_none _ _ _ Epc) in Hobs.
      split.
      * unfold inv_lock. cbn [owner threads wdb committed]. split; [exact Hdb|].
        intros j t' Hj. destruct (Nat.eq_dec j i) as [->|Hne].
        -- rewrite nth_error_upd_same in Hj by exact Hi. injection Hj as <-. reflexivity.
        -- rewrite nth_error_upd_other in Hj by assumption. eapply Hoth; eassumption.
      * intros j t' addrs' Hj Hfin Hjob. cbn [threads committed] in *.
        destruct (Nat.eq_dec j i) as [->|Hne].
        -- rewrite nth_error_upd_same in Hj by exact Hi. injection Hj as <-.
           cbn [tjob snap obs] in *. injection Hjob as <-.
           rewrite Hsnap, firstn_all. split; [lia|exact Hobs].
        -- rewrite nth_error_upd_other in Hj by assumption. exact (HF _ _ _ Hj Hfin Hjob).
Qed.

Theorem inv_step : forall d0 w i, inv d0 w -> inv d0 (step w i).
Proof.
  intros d0 w i H. unfold step.
  destruct (nth_error (threads w) i) as [t|] eqn:Ei; [|exact H].
  destruct (finished t) eqn:Ef; [exact H|].
  destruct (holding t) eqn:Eh; cbn [negb].
  - apply inv_micro; assumption.
  - destruct (owner w) eqn:Eo; [exact H|]. apply inv_start; assumption.
Qed.
Print Assumptions inv_init.
Print Assumptions inv_step.

Theorem inv_run : forall d0 sched w, inv d0 w -> inv d0 (run w sched).
Proof.
  intros d0 sched. induction sched as [|i sched IH]; intros w H; [exact H|].
  cbn [run fold_left]. apply IH. apply inv_step. exact H.
Qed.
Print Assumptions inv_run.

(* MAIN THEOREM: under the job-wide mutex, for every initial database, every list of jobs and every
   schedule, a finished request observed the database exactly as it is after a prefix of the
   complete transactions in commit order. *)
Theorem C19_atomic : forall d0 jobs sched j t addrs,
  let w := run (init d0 jobs) sched in
  nth_error (threads w) j = Some t -> finished t = true -> tjob t = Req addrs ->
  atomic_obs d0 (committed w) addrs (obs t).
Proof.
  intros d0 jobs sched j t addrs w Hj Hf Hjob.
  destruct (inv_run d0 sched _ (inv_init d0 jobs)) as [_ HF].
  destruct (HF _ _ _ Hj Hf Hjob) as [Hle Hobs].
  exists (snap t). split; assumption.
Qed.
Print Assumptions C19_atomic.

(* ---------- the commit order consists of complete transactions of the job list ---------- *)
(* finished threads are frozen *)
Lemma step_frozen : forall w i j t,
  nth_error (threads w) j = Some t -> finished t = true ->
  nth_error (threads (step w i)) j = Some t.
Proof.
  intros w i j t Hj Hf. unfold step.
  destruct (nth_error (threads w) i) as [ti|] eqn:Ei; [|exact Hj].
  pose proof (nth_error_lt _ _ _ _ Ei) as Hi.
  destruct (finished ti) eqn:Ef; [exact Hj|].
  assert (Hne : j <> i) by (intros ->; congruence).
  destruct (negb (holding ti)).
  - destruct (owner w); [exact Hj|].
    unfold start_job; cbn [threads]. rewrite nth_error_upd_other; assumption.
  - unfold micro. destruct (tjob ti) as [ws|addrs].
    + destruct (nth_error ws (pc ti)) as [[a v]|]; cbn [threads];
        rewrite nth_error_upd_other; assumption.
    + destruct (nth_error addrs (pc ti)); cbn [threads];
        rewrite nth_error_upd_other; assumption.
Qed.

(* the commit order only grows, by appending the write list of the thread that just finished *)
Lemma step_committed : forall w i,
  committed (step w i) = committed w \/
  exists ws t, committed (step w i) = committed w ++ [ws] /\
               nth_error (threads (step w i)) i = Some t /\ finished t = true /\ tjob t = Txn ws.
Proof.
  intros w i. unfold step.
  destruct (nth_error (threads w) i) as [ti|] eqn:Ei; [|left; reflexivity].
  pose proof (nth_error_lt _ _ _ _ Ei) as Hi.
  destruct (finished ti); [left; reflexivity|].
  destruct (negb (holding ti)).
  - destruct (owner w); left; reflexivity.
  - unfold micro. destruct (tjob ti) as [ws|addrs].
    + destruct (nth_error ws (pc ti)) as [[a v]|]; [left; reflexivity|].
      right. cbn [committed threads]. eexists; eexists.
      split; [reflexivity|]. split; [apply nth_error_upd_same; exact Hi|].
      split; reflexivity.
    + destruct (nth_error addrs (pc ti)); left; reflexivity.
Qed.

Definition inv_comm (w : world) : Prop :=
  forall ws, In ws (committed w) ->
    exists j t, nth_error (threads w) j = Some t /\ finished t = true /\ tjob t = Txn ws.

Lemma inv_comm_step : forall w i, inv_comm w -> inv_comm (step w i).
Proof.
  intros w i H ws Hin.
  destruct (step_committed w i) as [Hc|[ws' [t' [Hc [Hi [Hf Hj]]]]]]; rewrite Hc in Hin.
  - destruct (H _ Hin) as [j [t [Hj [Hf Hjob]]]].
    exists j, t. split; [apply step_frozen; assumption|]. split; assumption.
  - apply in_app_or in Hin. destruct Hin as [Hin|Hin].
    + destruct (H _ Hin) as [j [t [Hj' [Hf' Hjob]]]].
      exists j, t. split; [apply step_frozen; assumption|]. split; assumption.
    + destruct Hin as [<-|[]]. exists i, t'. split; [assumption|]. split; assumption.
Qed.

Lemma inv_comm_run : forall sched w, inv_comm w -> inv_comm (run w sched).
Proof.
  induction sched as [|i sched IH]; intros w H; [exact H|].
  cbn [run fold_left]. apply IH. apply inv_comm_step. exact H.
Qed.

(* the job of every thread never changes: thread j always runs job j of the job list *)
Lemma map_tjob_upd : forall ts i t t', nth_error ts i = Some t -> tjob t' = tjob t ->
  map tjob (upd_thread ts i t') = map tjob ts.
Proof.
  induction ts as [|a ts IH]; intros i t t' Hi Hj.
  - destruct i; discriminate.
  - destruct i as [|i].
    + cbn [nth_error] in Hi. injection Hi as ->. rewrite upd_zero. cbn [map]. rewrite Hj. reflexivity.
    + rewrite upd_cons. cbn [map]. rewrite (IH _ _ _ Hi Hj). reflexivity.
Qed.

Lemma step_jobs : forall w i, map tjob (threads (step w i)) = map tjob (threads w).
Proof.
  intros w i. unfold step.
  destruct (nth_error (threads w) i) as [ti|] eqn:Ei; [|reflexivity].
  destruct (finished ti); [reflexivity|].
  destruct (negb (holding ti)).
  - destruct (owner w); [reflexivity|].
    unfold start_job; cbn [threads]. eapply map_tjob_upd; [exact Ei|reflexivity].
  - unfold micro. destruct (tjob ti) as [ws|addrs] eqn:Ej.
    + destruct (nth_error ws (pc ti)) as [[a v]|]; cbn [threads];
        (eapply map_tjob_upd; [exact Ei|cbn [tjob]; congruence]).
    + destruct (nth_error addrs (pc ti)); cbn [threads];
        (eapply map_tjob_upd; [exact Ei|cbn [tjob]; congruence]).
Qed.

Lemma run_jobs : forall sched w, map tjob (threads (run w sched)) = map tjob (threads w).
Proof.
  induction sched as [|i sched IH]; intros w; [reflexivity|].
  cbn [run fold_left]. fold (run (step w i) sched). rewrite IH. apply step_jobs.
Qed.

Theorem run_init_jobs : forall d0 jobs sched,
  map tjob (threads (run (init d0 jobs) sched)) = jobs.
Proof.
  intros. rewrite run_jobs. cbn [init threads]. rewrite map_map. cbn [tjob]. apply map_id.
Qed.
Print Assumptions run_init_jobs.

(* every element of the commit order is the write list of a finished transaction thread, and that
   thread runs a job of the job list *)
Theorem C19_atomic_committed_are_txns : forall d0 jobs sched ws,
  let w := run (init d0 jobs) sched in
  In ws (committed w) ->
  exists j t, nth_error (threads w) j = Some t /\ finished t = true /\ tjob t = Txn ws /\
              nth_error jobs j = Some (Txn ws).
Proof.
  intros d0 jobs sched ws w Hin. subst w.
  assert (H0 : inv_comm (init d0 jobs)) by (intros x []).
  destruct (inv_comm_run sched _ H0 ws Hin) as [j [t [Hj [Hf Hjob]]]].
  exists j, t. repeat (split; [assumption|]).
  rewrite <- (run_init_jobs d0 jobs sched) at 1.
  rewrite nth_error_map, Hj. cbn [option_map]. rewrite Hjob. reflexivity.
Qed.
Print Assumptions C19_atomic_committed_are_txns.

(* ---------- per-point locking is not enough ---------- *)
Definition pp_d0 : db := [(0,1);(1,1);(2,1)]%N.
Definition pp_jobs : list job := [Txn [(0,7);(1,7);(2,7)]%N; Req [0;1;2]%N].
(* writer starts and writes point 0; reader runs to completion; writer completes *)
Definition pp_sched : list nat := [0;0;1;1;1;1;1;0;0;0].
Definition pp_reader : thread :=
  {| tjob := Req [0;1;2]%N; pc := 3; holding := false; finished := true;
     obs := [Some 7; Some 1; Some 1]%N; snap := 0 |}.

Example pp_run_threads :
  nth_error (threads (run_pp (init pp_d0 pp_jobs) pp_sched)) 1 = Some pp_reader.
Proof. vm_compute. reflexivity. Qed.
Example pp_run_committed :
  committed (run_pp (init pp_d0 pp_jobs) pp_sched) = [[(0,7);(1,7);(2,7)]%N].
Proof. vm_compute. reflexivity. Qed.
Example pp_run_all_finished :
  forallb finished (threads (run_pp (init pp_d0 pp_jobs) pp_sched)) = true.
Proof. vm_compute. reflexivity. Qed.

Theorem C19_atomic_needs_lock : exists d0 jobs sched j t addrs,
  let w := run_pp (init d0 jobs) sched in
  nth_error (threads w) j = Some t /\ finished t = true /\ tjob t = Req addrs /\
  ~ atomic_obs d0 (committed w) addrs (obs t).
Proof.
  exists pp_d0, pp_jobs, pp_sched, 1, pp_reader, [0;1;2]%N. cbv zeta.
  split; [exact pp_run_threads|]. split; [reflexivity|]. split; [reflexivity|].
  rewrite pp_run_committed. intros [k [Hk H]].
  cbn [length] in Hk.
  destruct k as [|[|k]]; [vm_compute in H; discriminate H|vm_compute in H; discriminate H|lia].
Qed.
Print Assumptions C19_atomic_needs_lock.

(* the same jobs, the same schedule, under the job-wide mutex: the reader sees all-or-nothing *)
Example pp_sched_with_lock :
  let w := run (init pp_d0 pp_jobs) (pp_sched ++ [1;1;1;1;1]) in
  map (fun t => (finished t, obs t, snap t)) (threads w) =
    [(true, [], 0); (true, [Some 7; Some 7; Some 7]%N, 1)] /\
  committed w = [[(0,7);(1,7);(2,7)]%N].
Proof. vm_compute. split; reflexivity. Qed.

(* ---------- non-vacuity: the prototype's adversarial example ---------- *)
Definition ex : world :=
  init [] [Txn [(0,7);(1,7);(2,7)]%N; Req [0;1;2]%N; Txn [(0,9);(1,9);(2,9)]%N].
Definition ex_sched : list nat := [0;1;0;1;2;0;1;0;0;1;1;1;1;2;2;2;2;2].

(* after the prototype schedule the reader has read [7;7;7] with snap = 1 (it still holds the
   lock, the second writer is blocked) *)
Example ex_adversarial :
  map (fun t => (obs t, snap t)) (threads (run ex ex_sched)) =
    [([], 0); ([Some 7; Some 7; Some 7]%N, 1); ([], 0)].
Proof. vm_compute. reflexivity. Qed.

(* letting the reader release and the second writer run: everything finishes, the reader's
   observation is unchanged and is the state after the first committed transaction *)
Example ex_finished :
  let w := run ex (ex_sched ++ [1;2;2;2;2;2]) in
  forallb finished (threads w) = true /\
  map (fun t => (obs t, snap t)) (threads w) =
    [([], 0); ([Some 7; Some 7; Some 7]%N, 1); ([], 1)] /\
  committed w = [[(0,7);(1,7);(2,7)]; [(0,9);(1,9);(2,9)]]%N /\
  map (lookup (wdb w)) [0;1;2]%N = [Some 9; Some 9; Some 9]%N.
Proof. vm_compute. repeat split; reflexivity. Qed.

(* C19_atomic instantiated on the example: hypotheses are satisfiable *)
Example ex_atomic_instance :
  let w := run ex (ex_sched ++ [1;2;2;2;2;2]) in
  exists t, nth_error (threads w) 1 = Some t /\ finished t = true /\
            atomic_obs [] (committed w) [0;1;2]%N (obs t).
Proof.
  cbv zeta. eexists. split; [vm_compute; reflexivity|]. split; [reflexivity|].
  eapply (C19_atomic [] _ (ex_sched ++ [1;2;2;2;2;2]) 1); [vm_compute; reflexivity|reflexivity|reflexivity].
Qed.
