(* C13, liveness of shutdown: from EVERY state whose command queue holds a Shutdown command, the
   task's own steps (recv, timers; the clock advancing) lead to termination, whatever is queued in
   front of it and whatever phase the task is in. *)
From Coq Require Import NArith List Bool Arith Lia.
From Rodbus Require Import Model.Retry Spec.Lifecycle Spec.ClientSpec Gen.SessionErrors Model.ClientTask Proofs.ClientBase.
Import ListNotations.
Local Open Scope N_scope.

Definition internal (e : event) : bool := match e with EvRecv | EvTimer | EvTick _ => true | _ => false end.

(* the channel is untouched, or the task is gone *)
Definition chan_or_done (s s' : state) : Prop :=
  ph s' = PDone \/ (queue s' = queue s /\ blocked s' = blocked s /\ ph s' <> PDone /\ handles s' = handles s).

Lemma summary_chan s0 s s' o ids : summary s0 s' o ids -> queue s0 = queue s -> blocked s0 = blocked s -> handles s0 = handles s -> chan_or_done s s'.
Proof.
  intros (_ & _ & _ & _ & Hh & H) Hq Hb Hh0. destruct H as [(Hn & H1 & H2 & _)|(Hd & _)]; [right|left; exact Hd].
  rewrite H1, H2, Hq, Hb, Hh, Hh0. auto.
Qed.

Section Live.
Variable cfg : config.

Lemma run_app : forall es1 es2 s, fst (run cfg s (es1 ++ es2)) = fst (run cfg (fst (run cfg s es1)) es2).
Proof.
  induction es1 as [|e es1 IH]; intros es2 s; [reflexivity|]. cbn [app run].
  destruct (step cfg s e) as [s1 o1]. specialize (IH es2 s1). destruct (run cfg s1 (es1 ++ es2)) as [s2 o2].
  destruct (run cfg s1 es1) as [s3 o3]. cbn [fst] in *. exact IH.
Qed.

(* one command taken by a listening phase *)
Lemma take_chan s c : listens (ph s) = true ->
  chan_or_done s (fst (take s c)) /\ (c = CShutdown -> ph (fst (take s c)) = PDone).
Proof.
  intros Hl. unfold take.
  assert (Hterm : forall pre, silent pre -> chan_or_done s (fst (terminate s pre)) /\ ph (fst (terminate s pre)) = PDone).
  { intros pre Hs. split; [left|]; reflexivity. }
  assert (Hloop : forall x, queue x = queue s -> blocked x = blocked s -> handles x = handles s -> chan_or_done s (fst (loop_top x))).
  { intros x Hq Hb Hh. pose proof (loop_top_summary x) as H. destruct (loop_top x) as [s' o]. eapply summary_chan; eauto. }
  assert (Hends : forall x se, inflight (ph x) = [] -> queue x = queue s -> blocked x = blocked s -> handles x = handles s -> chan_or_done s (fst (end_session x se))).
  { intros x se Hi Hq Hb Hh. pose proof (end_session_summary x se Hi) as H. destruct (end_session x se) as [s' o]. eapply summary_chan; eauto. }
  assert (Hsame : forall x, queue x = queue s -> blocked x = blocked s -> handles x = handles s -> ph x <> PDone -> chan_or_done s x).
  { intros x Hq Hb Hh Hn. right. auto. }
  destruct (ph s) eqn:Eph; try discriminate.
  - destruct c as [r| | |l|]; cbn [change_setting fst]; (split; [|try discriminate]).
    + apply Hsame; auto. rewrite Eph. discriminate.
    + cbn [enabled set_enabled]. apply Hsame; auto. cbn. discriminate.
    + cbn [enabled set_enabled]. apply Hsame; auto. cbn. rewrite Eph. discriminate.
    + cbn [enabled set_decode]. destruct (enabled s); apply Hsame; auto; cbn; rewrite ?Eph; discriminate.
    + left. reflexivity.
    + reflexivity.
  - destruct c as [r| | |l|]; cbn [change_setting fst]; (split; [|try discriminate]).
    + apply Hsame; auto. rewrite Eph. discriminate.
    + cbn [enabled set_enabled]. apply Hsame; auto. cbn. rewrite Eph. discriminate.
    + cbn [enabled set_enabled]. apply Hloop; reflexivity.
    + cbn [enabled set_decode]. destruct (enabled s); [apply Hsame; auto; cbn; rewrite Eph; discriminate|apply Hloop; reflexivity].
    + left. reflexivity.
    + reflexivity.
  - destruct c as [r| | |l|]; cbn [change_setting fst]; (split; [|try discriminate]).
    + unfold transmit. destruct (txid_next (txid s)) as [v' tx]. destruct (rq_kind r).
      * destruct (wfail (set_txid s v')).
        -- pose proof (finish_summary (set_wctl (set_txid s v') false 0) r (RErr ReIo)) as H. destruct (finish _ r (RErr ReIo)) as [s' o].
           cbn [fst]. eapply summary_chan; [exact H| | |]; reflexivity.
        -- destruct (write_now (set_txid s v')); cbn [fst]; apply Hsame; auto; cbn; discriminate.
      * pose proof (finish_summary (set_txid s v') r (RErr ReBadRequest)) as H. destruct (finish _ r (RErr ReBadRequest)) as [s' o].
        cbn [fst]. eapply summary_chan; [exact H| | |]; reflexivity.
    + cbn [enabled set_enabled]. apply Hsame; auto. cbn. rewrite Eph. discriminate.
    + cbn [enabled set_enabled]. apply Hends; try reflexivity. cbn. rewrite Eph. reflexivity.
    + cbn [enabled set_decode]. destruct (enabled s); [apply Hsame; auto; cbn; rewrite Eph; discriminate|apply Hends; try reflexivity; cbn; rewrite Eph; reflexivity].
    + apply Hends; try reflexivity. rewrite Eph. reflexivity.
    + reflexivity.
  - destruct c as [r| | |l|]; cbn [change_setting fst]; (split; [|try discriminate]).
    + apply Hsame; auto. rewrite Eph. discriminate.
    + cbn [enabled set_enabled]. apply Hsame; auto. cbn. rewrite Eph. discriminate.
    + cbn [enabled set_enabled]. apply Hloop; reflexivity.
    + cbn [enabled set_decode]. destruct (enabled s); [apply Hsame; auto; cbn; rewrite Eph; discriminate|apply Hloop; reflexivity].
    + left. reflexivity.
    + reflexivity.
Qed.

(* a phase that does not listen becomes a listening one (or the task ends) by its own timers *)
Lemma to_listening s : ph s <> PDone -> exists es, forallb internal es = true /\
  let s' := fst (run cfg s es) in chan_or_done s s' /\ (ph s' <> PDone -> listens (ph s') = true).
Proof.
  intros Hn.
  assert (Hfl : forall s0 r tx d, ph s0 = PInFlight r tx d -> exists es, forallb internal es = true /\
            let s' := fst (run cfg s0 es) in chan_or_done s0 s' /\ (ph s' <> PDone -> listens (ph s') = true)).
  { intros s0 r tx d Eph. exists [EvTick (fire cfg d - now s0); EvTimer]. split; [reflexivity|]. cbn [run step fst]. cbn [ph set_now now]. rewrite Eph.
    assert (Hle : (fire cfg d <=? now s0 + (fire cfg d - now s0)) = true) by (apply N.leb_le; lia). rewrite Hle.
    pose proof (finish_summary (set_now s0 (now s0 + (fire cfg d - now s0))) r (RErr deadline_error)) as H.
    destruct (finish _ r (RErr deadline_error)) as [s' o]. cbn [fst]. split; [eapply summary_chan; [exact H| | |]; reflexivity|].
    destruct H as (Hi & _). intros Hnd. destruct (ph s'); try reflexivity; try discriminate Hi; congruence. }
  destruct (ph s) eqn:Eph; try congruence.
  1,2,3,6: (exists []; split; [reflexivity|]; cbn [run fst]; split; [right; repeat split; rewrite ?Eph; discriminate|intros _; rewrite Eph; reflexivity]).
  - (* a write in progress: at the latest when its bound (write start + request timeout) is reached the write is done -
       the request is then in flight - or the request fails and the connection ends; no release is needed *)
    set (t := fire cfg (wdl s) - now s). set (s0 := set_now s (now s + t)).
    assert (Hle : (fire cfg (wdl s) <=? now s + t) = true) by (apply N.leb_le; unfold t; lia).
    destruct (Nat.eqb (wpark s) 0 && (fire cfg until <=? now s + t)) eqn:Ew.
    + set (s1 := set_ph s0 (PInFlight r tx (now s0 + rq_timeout r))).
      destruct (Hfl s1 r tx _ eq_refl) as (es & Hint & Hch & Hls).
      exists ([EvTick t; EvTimer] ++ es). split; [cbn [forallb app internal andb]; exact Hint|].
      rewrite run_app. cbn [run step fst]. cbn [ph set_now now wpark wdl]. rewrite Eph, Ew. unfold written. cbn [fst].
      fold s0. fold s1. split; [|exact Hls]. destruct Hch as [Hd|(Hq & Hb & Hnd & Hh)]; [left; exact Hd|right; auto].
    + exists [EvTick t; EvTimer]. split; [reflexivity|]. cbn [run step fst]. cbn [ph set_now now wpark wdl]. rewrite Eph, Ew, Hle.
      fold s0. pose proof (finish_summary s0 r (RErr write_timeout_error)) as H.
      destruct (finish s0 r (RErr write_timeout_error)) as [s' o]. cbn [fst]. split; [eapply summary_chan; [exact H| | |]; reflexivity|].
      destruct H as (Hi & _). intros Hnd. destruct (ph s'); try reflexivity; try discriminate Hi; congruence.
  - apply (Hfl s r tx deadline Eph).
Qed.

Definition wf (s : state) : Prop := queue s = [] -> blocked s = [].

Theorem shutdown_terminates : forall n s, (length (queue s ++ blocked s) <= n)%nat -> wf s ->
  In CShutdown (queue s ++ blocked s) -> ph s <> PDone ->
  exists es, forallb internal es = true /\ ph (fst (run cfg s es)) = PDone.
Proof.
  induction n as [|n IH]; intros s Hlen Hwf Hin Hn.
  - destruct (queue s ++ blocked s); [destruct Hin|cbn in Hlen; lia].
  - destruct (to_listening s Hn) as (es0 & Hint0 & Hch & Hls). set (s1 := fst (run cfg s es0)) in *.
    destruct Hch as [Hd|(Hq & Hb & Hn1 & Hh1)]; [exists es0; auto|].
    specialize (Hls Hn1).
    destruct (queue s1) as [|c q] eqn:Eq1.
    { exfalso. assert (E0 : queue s = []) by (symmetry; exact Hq). rewrite E0, (Hwf E0) in Hin. destruct Hin. }
    (* the recv step *)
    pose proof (take_chan (set_chan s1 (q ++ firstn 1 (blocked s1)) (skipn 1 (blocked s1))) c Hls) as [Hc Hsd].
    assert (Estep : fst (step cfg s1 EvRecv) = fst (take (set_chan s1 (q ++ firstn 1 (blocked s1)) (skipn 1 (blocked s1))) c)).
    { cbn [step]. rewrite Hls, Eq1. reflexivity. }
    set (s2 := fst (step cfg s1 EvRecv)) in *.
    assert (Hrun : forall es', fst (run cfg s (es0 ++ [EvRecv] ++ es')) = fst (run cfg s2 es')).
    { intros es'. rewrite run_app. fold s1. cbn [app run]. unfold s2. destruct (step cfg s1 EvRecv) as [sx ox]. cbn [fst].
      destruct (run cfg sx es') as [sy oy]. reflexivity. }
    destruct Hc as [Hd|(Hq2 & Hb2 & Hn2 & Hh2)].
    + exists (es0 ++ [EvRecv] ++ []). split; [rewrite forallb_app, Hint0; reflexivity|]. rewrite Hrun. cbn [run fst]. rewrite Estep. exact Hd.
    + rewrite <- Estep in Hq2, Hb2, Hn2, Hh2. cbn [queue blocked handles set_chan] in Hq2, Hb2, Hh2.
      assert (Hc_ne : c <> CShutdown) by (intros E; apply Hn2; rewrite Estep; apply Hsd; exact E).
      assert (Hall : queue s2 ++ blocked s2 = q ++ blocked s1) by (rewrite Hq2, Hb2, <- app_assoc, firstn_skipn; reflexivity).
      assert (Hqb : queue s ++ blocked s = c :: q ++ blocked s1) by (rewrite <- Hq, <- Hb; reflexivity).
      destruct (IH s2) as (es2 & Hint2 & Hd2).
      * rewrite Hall. rewrite Hqb in Hlen. cbn in Hlen. lia.
      * intros E. rewrite Hq2 in E. apply app_eq_nil in E. destruct E as [-> E2]. rewrite Hb2.
        destruct (blocked s1) as [|b bs]; [reflexivity|]. cbn in E2. discriminate.
      * rewrite Hall. rewrite Hqb in Hin. destruct Hin as [E|Hin]; [congruence|exact Hin].
      * exact Hn2.
      * exists (es0 ++ [EvRecv] ++ es2). split; [rewrite !forallb_app, Hint0, Hint2; reflexivity|]. rewrite Hrun. exact Hd2.
Qed.


(* the same when every handle has been dropped: the queue drains and the closed queue ends the task *)
Theorem closed_terminates : forall n s, (length (queue s) <= n)%nat -> handles s = 0%nat -> blocked s = [] -> ph s <> PDone ->
  exists es, forallb internal es = true /\ ph (fst (run cfg s es)) = PDone.
Proof.
  induction n as [|n IH]; intros s Hlen Hh Hb Hn;
  (destruct (to_listening s Hn) as (es0 & Hint0 & Hch & Hls); set (s1 := fst (run cfg s es0)) in *;
   destruct Hch as [Hd|(Hq & Hb1 & Hn1 & Hh1)]; [exists es0; auto|]; specialize (Hls Hn1)).
  - (* empty queue: the closed queue is seen by the recv step *)
    assert (Eq : queue s1 = []) by (rewrite Hq; destruct (queue s); [reflexivity|cbn in Hlen; lia]).
    exists (es0 ++ [EvRecv]). split; [rewrite forallb_app, Hint0; reflexivity|]. rewrite run_app. fold s1. cbn [run step].
    rewrite Hls, Eq. unfold closed. rewrite Hh1, Hh, Hb1, Hb. cbn [Nat.eqb is_nil andb].
    destruct (ph s1); try discriminate; reflexivity.
  - destruct (queue s1) as [|c q] eqn:Eq1.
    + exists (es0 ++ [EvRecv]). split; [rewrite forallb_app, Hint0; reflexivity|]. rewrite run_app. fold s1. cbn [run step].
      rewrite Hls, Eq1. unfold closed. rewrite Hh1, Hh, Hb1, Hb. cbn [Nat.eqb is_nil andb].
      destruct (ph s1); try discriminate; reflexivity.
    + pose proof (take_chan (set_chan s1 (q ++ firstn 1 (blocked s1)) (skipn 1 (blocked s1))) c Hls) as [Hc _].
      assert (Estep : fst (step cfg s1 EvRecv) = fst (take (set_chan s1 (q ++ firstn 1 (blocked s1)) (skipn 1 (blocked s1))) c)).
      { cbn [step]. rewrite Hls, Eq1. reflexivity. }
      set (s2 := fst (step cfg s1 EvRecv)) in *.
      assert (Hrun : forall es', fst (run cfg s (es0 ++ [EvRecv] ++ es')) = fst (run cfg s2 es')).
      { intros es'. rewrite run_app. fold s1. cbn [app run]. unfold s2. destruct (step cfg s1 EvRecv) as [sx ox]. cbn [fst].
        destruct (run cfg sx es') as [sy oy]. reflexivity. }
      destruct Hc as [Hd|(Hq2 & Hb2 & Hn2 & Hh2)].
      * exists (es0 ++ [EvRecv] ++ []). split; [rewrite forallb_app, Hint0; reflexivity|]. rewrite Hrun. cbn [run fst]. rewrite Estep. exact Hd.
      * rewrite <- Estep in Hq2, Hb2, Hn2, Hh2. cbn [queue blocked handles set_chan] in Hq2, Hb2, Hh2.
        rewrite Hb1, Hb in Hq2, Hb2. cbn in Hq2, Hb2. rewrite app_nil_r in Hq2.
        destruct (IH s2) as (es2 & Hint2 & Hd2).
        -- rewrite Hq2. assert (length (queue s) = S (length q)) by (rewrite <- Hq; reflexivity). lia.
        -- rewrite Hh2, Hh1. exact Hh.
        -- exact Hb2.
        -- exact Hn2.
        -- exists (es0 ++ [EvRecv] ++ es2). split; [rewrite !forallb_app, Hint0, Hint2; reflexivity|]. rewrite Hrun. exact Hd2.
Qed.

End Live.

Lemma shutdown_from_every_state cfg s :
  (queue s = [] -> blocked s = []) -> In CShutdown (queue s ++ blocked s) -> ph s <> PDone ->
  exists es, forallb internal es = true /\ ph (fst (run cfg s es)) = PDone.
Proof. exact (shutdown_terminates cfg (length (queue s ++ blocked s)) s (le_n _)). Qed.

Lemma drop_from_every_state cfg s :
  handles s = 0%nat -> blocked s = [] -> ph s <> PDone ->
  exists es, forallb internal es = true /\ ph (fst (run cfg s es)) = PDone.
Proof. exact (closed_terminates cfg (length (queue s)) s (le_n _)). Qed.
