(* Lemmas about Model/Buffer.v: under the representation invariant wf (end <= capacity) every
   accessor called within its guard returns Ok (never Err, never Panic), read_some always makes
   room for at least one byte when fewer than `cap` bytes are pending (C05_never_full), and it
   only ever appends a prefix of the offered chunk (no byte lost / duplicated). *)
From Coq Require Import NArith List Bool Arith Lia.
From Rodbus Require Import Base.Outcome Gen.Consts Model.Buffer.
Import ListNotations.

Definition wf (b : buf) : Prop := b_end b <= cap.

Ltac ucap := unfold wf, b_end, buf_len, cap, buffer_capacity, usize_safe in *.

Lemma wf_new : wf buf_new.
Proof. ucap. cbn. lia. Qed.

Lemma uadd_ok a c : a + c <= usize_safe -> uadd a c = Some (a + c).
Proof. intros H. unfold uadd. destruct (Nat.leb_spec (a + c) usize_safe); [reflexivity|lia]. Qed.

Lemma consume_0 b : consume 0 b = b.
Proof. destruct b as [bb pp]; unfold consume; cbn [b_begin b_pend skipn]. f_equal. lia. Qed.
Lemma consume_wf k b : wf b -> k <= buf_len b -> wf (consume k b).
Proof. ucap. unfold consume; cbn [b_begin b_pend]. rewrite skipn_length. lia. Qed.
Lemma skipn_skipn' {A} : forall a b (l : list A), skipn a (skipn b l) = skipn (b + a) l.
Proof. intros a b; revert a. induction b as [|b IH]; intros a l; [reflexivity|]. destruct l; cbn; [destruct a; reflexivity|apply IH]. Qed.
Lemma consume_consume a c b : consume c (consume a b) = consume (a + c) b.
Proof. unfold consume; cbn [b_begin b_pend]. rewrite skipn_skipn'. f_equal. lia. Qed.
Lemma consume_len k b : buf_len (consume k b) = buf_len b - k.
Proof. unfold buf_len, consume; cbn [b_pend]. apply skipn_length. Qed.

(* ---- accessors inside their guards ---- *)
Lemma buf_read_ok n b : wf b -> n <= buf_len b -> buf_read n b = (consume n b, Ok (firstn n (b_pend b))).
Proof.
  intros Hwf Hn. unfold buf_read. destruct (Nat.ltb_spec (buf_len b) n); [lia|].
  rewrite uadd_ok by (ucap; lia). destruct (Nat.ltb_spec cap (b_begin b + n)); [ucap; lia|reflexivity].
Qed.
Lemma buf_read_u8_ok b x r : wf b -> b_pend b = x :: r -> buf_read_u8 b = (consume 1 b, Ok x).
Proof.
  intros Hwf Hp. unfold buf_read_u8. rewrite Hp.
  destruct (Nat.leb_spec cap (b_begin b)); [ucap; rewrite Hp in Hwf; cbn in Hwf; lia|].
  rewrite uadd_ok by (ucap; lia). reflexivity.
Qed.
Lemma buf_peek_ok idx b : wf b -> idx < buf_len b -> buf_peek_at idx b = (b, Ok (nth idx (b_pend b) 0%N)).
Proof.
  intros Hwf Hi. unfold buf_peek_at. destruct (Nat.ltb_spec (buf_len b) idx); [lia|].
  rewrite !uadd_ok by (ucap; lia). destruct (Nat.leb_spec cap (b_begin b + idx)); [ucap; lia|].
  destruct (nth_error (b_pend b) idx) eqn:E.
  - now rewrite (nth_error_nth _ _ _ E).
  - apply nth_error_None in E. unfold buf_len in Hi. lia.
Qed.
Lemma buf_read_u16_be_ok b x y r : wf b -> b_pend b = x :: y :: r ->
  buf_read_u16_be b = (consume 2 b, Ok (x * 256 + y)%N).
Proof.
  intros Hwf Hp. unfold buf_read_u16_be, bind, ret. rewrite (buf_read_u8_ok b x (y :: r) Hwf Hp).
  assert (Hwf1 : wf (consume 1 b)) by (apply consume_wf; [assumption|unfold buf_len; rewrite Hp; cbn; lia]).
  rewrite (buf_read_u8_ok (consume 1 b) y r Hwf1) by (cbn [consume b_pend]; rewrite Hp; reflexivity).
  rewrite consume_consume. reflexivity.
Qed.
Lemma buf_read_u16_le_ok b x y r : wf b -> b_pend b = x :: y :: r ->
  buf_read_u16_le b = (consume 2 b, Ok (y * 256 + x)%N).
Proof.
  intros Hwf Hp. unfold buf_read_u16_le, bind, ret. rewrite (buf_read_u8_ok b x (y :: r) Hwf Hp).
  assert (Hwf1 : wf (consume 1 b)) by (apply consume_wf; [assumption|unfold buf_len; rewrite Hp; cbn; lia]).
  rewrite (buf_read_u8_ok (consume 1 b) y r Hwf1) by (cbn [consume b_pend]; rewrite Hp; reflexivity).
  rewrite consume_consume. reflexivity.
Qed.

(* ---- accessors never panic, whatever the arguments (C07) ---- *)
Lemma buf_read_no_panic n b : wf b -> snd (buf_read n b) <> Panic.
Proof.
  intros Hwf. unfold buf_read. destruct (Nat.ltb_spec (buf_len b) n); [cbn; discriminate|].
  rewrite uadd_ok by (ucap; lia). destruct (Nat.ltb _ _); cbn; discriminate.
Qed.
Lemma buf_read_u8_no_panic b : wf b -> snd (buf_read_u8 b) <> Panic.
Proof.
  intros Hwf. unfold buf_read_u8. destruct (b_pend b) eqn:E; [cbn; discriminate|].
  destruct (Nat.leb_spec cap (b_begin b)); [cbn; discriminate|]. rewrite uadd_ok by (ucap; lia). cbn; discriminate.
Qed.
Lemma buf_peek_no_panic idx b : wf b -> snd (buf_peek_at idx b) <> Panic.
Proof.
  intros Hwf. unfold buf_peek_at. destruct (Nat.ltb_spec (buf_len b) idx); [cbn; discriminate|].
  rewrite !uadd_ok by (ucap; lia). destruct (Nat.leb _ _); [cbn; discriminate|]. destruct (nth_error _ _); cbn; discriminate.
Qed.

(* ---- read_some ---- *)
(* C05_never_full / read_some_progress: with fewer than cap bytes pending a non-empty chunk always
   yields 1 <= k <= |c| bytes, appended after the pending ones; the leftover is the rest of c *)
Lemma read_some_ok b c :
  wf b -> buf_len b < cap -> c <> [] ->
  exists k b'', read_some b c = (b'', RsOk k (skipn k c)) /\ 1 <= k <= length c /\
                b_pend b'' = b_pend b ++ firstn k c /\ wf b''.
Proof.
  intros Hwf Hn Hc. unfold read_some.
  set (b1 := if buf_is_empty b then _ else b).
  assert (Hb1 : b_pend b1 = b_pend b /\ b_end b1 <= cap).
  { unfold b1, buf_is_empty. ucap. destruct (b_pend b) eqn:E; cbn [b_pend b_begin]; rewrite ?E; cbn [length]; split; auto; lia. }
  destruct Hb1 as [Hp1 He1].
  set (b2 := if Nat.eqb (b_end b1) cap then _ else b1).
  assert (Hb2 : b_pend b2 = b_pend b /\ b_end b2 < cap).
  { unfold b2. destruct (Nat.eqb_spec (b_end b1) cap) as [E|E]; cbn [b_pend]; split; auto.
    - unfold b_end; cbn [b_begin b_pend]. rewrite Hp1. unfold buf_len in Hn. lia.
    - lia. }
  destruct Hb2 as [Hp2 He2].
  destruct (Nat.ltb_spec cap (b_end b2)); [lia|].
  assert (Hlen : 1 <= length c) by (destruct c; [congruence|cbn; lia]).
  destruct (Nat.min (cap - b_end b2) (length c)) as [|k'] eqn:Ek; [lia|].
  rewrite uadd_ok by (ucap; lia).
  exists (S k'), {| b_begin := b_begin b2; b_pend := b_pend b2 ++ firstn (S k') c |}.
  split; [reflexivity|]. split; [lia|]. split; [cbn [b_pend]; now rewrite Hp2|].
  unfold wf, b_end in *; cbn [b_begin b_pend]. rewrite app_length, firstn_length. lia.
Qed.

(* a 0-byte read is UnexpectedEof and keeps the pending bytes *)
Lemma read_some_nil b : wf b -> exists b2, read_some b [] = (b2, RsEof) /\ b_pend b2 = b_pend b /\ wf b2.
Proof.
  intros Hwf. unfold read_some.
  set (b1 := if buf_is_empty b then _ else b).
  assert (Hb1 : b_pend b1 = b_pend b /\ b_end b1 <= cap).
  { unfold b1, buf_is_empty. ucap. destruct (b_pend b) eqn:E; cbn [b_pend b_begin]; rewrite ?E; cbn [length]; split; auto; lia. }
  destruct Hb1 as [Hp1 He1].
  set (b2 := if Nat.eqb (b_end b1) cap then _ else b1).
  assert (Hb2 : b_pend b2 = b_pend b /\ b_end b2 <= cap).
  { unfold b2. destruct (Nat.eqb_spec (b_end b1) cap) as [E|E]; cbn [b_pend]; split; auto.
    unfold b_end in *; cbn [b_begin b_pend]. lia. }
  destruct Hb2 as [Hp2 He2].
  destruct (Nat.ltb_spec cap (b_end b2)); [lia|]. cbn [length]. rewrite Nat.min_0_r.
  exists b2. repeat split; assumption.
Qed.

(* read_some never panics, whatever is pending and whatever is offered *)
Lemma read_some_no_panic b c : wf b -> snd (read_some b c) <> RsPanic.
Proof.
  intros Hwf. unfold read_some.
  set (b1 := if buf_is_empty b then _ else b).
  assert (Hb1 : b_pend b1 = b_pend b /\ b_end b1 <= cap).
  { unfold b1, buf_is_empty. ucap. destruct (b_pend b) eqn:E; cbn [b_pend b_begin]; rewrite ?E; cbn [length]; split; auto; lia. }
  destruct Hb1 as [_ He1].
  set (b2 := if Nat.eqb (b_end b1) cap then _ else b1).
  assert (He2 : b_end b2 <= cap).
  { unfold b2. destruct (Nat.eqb_spec (b_end b1) cap) as [E|E]; [|assumption]. unfold b_end in *; cbn [b_begin b_pend]. lia. }
  destruct (Nat.ltb_spec cap (b_end b2)); [lia|].
  destruct (Nat.min (cap - b_end b2) (length c)) as [|k'] eqn:Ek; [cbn; discriminate|].
  rewrite uadd_ok by (ucap; lia). cbn; discriminate.
Qed.

(* ---- what read_some does to the indices before it reads (reset when empty, compact when full) ---- *)
Definition prep (b : buf) : buf :=
  let b1 := if buf_is_empty b then {| b_begin := 0; b_pend := b_pend b |} else b in
  if Nat.eqb (b_end b1) cap then {| b_begin := 0; b_pend := b_pend b1 |} else b1.

Lemma prep_pend b : b_pend (prep b) = b_pend b.
Proof. unfold prep. destruct (buf_is_empty b); destruct (Nat.eqb _ _); reflexivity. Qed.

Lemma prep_idem b : prep (prep b) = prep b.
Proof.
  unfold prep, buf_is_empty. destruct b as [bb pp]. cbn [b_pend b_begin]. destruct pp as [|x pp].
  - unfold b_end; cbn [b_begin b_pend length]. destruct (Nat.eqb_spec (0 + 0) cap); cbn [b_pend b_begin];
      unfold b_end; cbn [b_begin b_pend length]; destruct (Nat.eqb_spec (0 + 0) cap); try reflexivity; contradiction.
  - unfold b_end; cbn [b_begin b_pend]. destruct (Nat.eqb_spec (bb + length (x :: pp)) cap) as [E|E]; cbn [b_pend b_begin].
    + destruct (Nat.eqb_spec (0 + length (x :: pp)) cap); reflexivity.
    + destruct (Nat.eqb_spec (bb + length (x :: pp)) cap); [contradiction|reflexivity].
Qed.

(* read_some only looks at the prepared buffer *)
Definition rs_body (b2 : buf) (c : list N) : buf * rs_result :=
  if Nat.ltb cap (b_end b2) then (b2, RsPanic)
  else
    let free := cap - b_end b2 in
    let k := Nat.min free (length c) in
    match k with
    | O => (b2, RsEof)
    | _ => match uadd (b_end b2) k with
           | None => (b2, RsPanic)
           | Some _ => ({| b_begin := b_begin b2; b_pend := b_pend b2 ++ firstn k c |}, RsOk k (skipn k c))
           end
    end.
Lemma read_some_body x c : read_some x c = rs_body (prep x) c.
Proof. reflexivity. Qed.
Lemma read_some_prep b c : read_some (prep b) c = read_some b c.
Proof. rewrite !read_some_body, prep_idem. reflexivity. Qed.

Lemma prep_wf b : wf b -> wf (prep b).
Proof.
  intros Hwf. unfold prep, buf_is_empty. ucap. destruct (b_pend b) eqn:E; cbn [b_pend b_begin length].
  - destruct (Nat.eqb _ _); cbn [b_pend b_begin length]; lia.
  - rewrite E. destruct (Nat.eqb_spec (b_begin b + length (n :: l)) 260); cbn [b_pend b_begin]; rewrite ?E; cbn [length] in *; lia.
Qed.

(* a read that meets the end of the script / a 0-byte read leaves exactly the prepared buffer *)
Lemma read_some_nil_prep b : wf b -> read_some b [] = (prep b, RsEof).
Proof.
  intros Hwf. pose proof (prep_wf b Hwf) as Hp. rewrite read_some_body. unfold rs_body.
  destruct (Nat.ltb_spec cap (b_end (prep b))); [unfold wf in Hp; lia|]. cbn [length]. now rewrite Nat.min_0_r.
Qed.
