(* The instrumented loop of Model/Reader.v computes exactly what the plain loop computes. *)
From Coq Require Import NArith List Bool Arith.
From Rodbus Require Import Base.Outcome Base.Frame Model.Buffer Model.Mbap Model.Reader.
Import ListNotations.

Lemma next_frame_tr_fst : forall fuel r n fi, fst (next_frame_tr fuel r n fi) = next_frame fuel r n fi.
Proof.
  induction fuel as [|fuel IH]; intros r n fi; [reflexivity|]. cbn [next_frame_tr next_frame].
  destruct (parser_parse (r_parser r) (r_buf r)) as [[p' b'] res]. destruct res as [[f|]|e|]; try reflexivity.
  destruct n as [|c n'].
  - destruct (read_some b' []) as [b2 x]. reflexivity.
  - destruct (read_some b' c) as [b2 rs]. destruct rs as [k rest| |]; try reflexivity.
    destruct rest as [|y rest].
    + specialize (IH {| r_parser := p'; r_buf := b2 |} n' fi). destruct (next_frame_tr fuel _ n' fi) as [x t]. exact IH.
    + specialize (IH {| r_parser := p'; r_buf := b2 |} ((y :: rest) :: n') fi). destruct (next_frame_tr fuel _ _ fi) as [x t]. exact IH.
Qed.

Theorem run_reader_tr_fst : forall fuel resume r n fi, fst (run_reader_tr fuel resume r n fi) = run_reader fuel resume r n fi.
Proof.
  induction fuel as [|fuel IH]; intros resume r n fi; [reflexivity|]. cbn [run_reader_tr run_reader].
  pose proof (next_frame_tr_fst (nf_fuel n) r n fi) as H. destruct (next_frame_tr (nf_fuel n) r n fi) as [[[r' n'] res] t].
  cbn [fst] in H. rewrite <- H. destruct res as [f|e].
  - specialize (IH resume r' n' fi). destruct (run_reader_tr fuel resume r' n' fi) as [[l e] t']. cbn [fst] in *. now rewrite <- IH.
  - destruct e; try reflexivity. destruct resume; [|reflexivity].
    specialize (IH true r' n' fi). destruct (run_reader_tr fuel true r' n' fi) as [[l e'] t']. cbn [fst] in *. now rewrite <- IH.
Qed.

Corollary run_session_tr_fst k resume n fi : fst (run_session_tr k resume n fi) = run_session k resume n fi.
Proof. apply run_reader_tr_fst. Qed.
