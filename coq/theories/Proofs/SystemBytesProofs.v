(* The byte-level session with commands against C01_System's server_system: dropping and
   re-entering next_frame at command arrivals loses nothing (reader cancel-safety, C05/C06), level
   changes are unobservable, Shutdown / a closed channel cut the run. *)
From Coq Require Import NArith List Bool Arith Lia.
From Rodbus Require Import Base.Outcome.
From Rodbus Require Base.Frame Base.ServerTypes Base.ServerRun Model.Reader Model.Server Model.SystemServer Model.SystemServerBytes Spec.Framing
  Proofs.C05Proofs Proofs.C06Proofs Proofs.ReaderGeneric.
Import ListNotations.
Module F := Rodbus.Base.Frame.
Module S := Rodbus.Base.ServerTypes.
Module R := Rodbus.Base.ServerRun.
Import SystemServer SystemServerBytes.

Section Sys.
Context {St : Type}.
Variable H : S.handler St.

(* the session over a concatenation of frame lists *)
Lemma session_app l a : forall fs1 fs2 units,
  Server.session H l a units (fs1 ++ fs2) =
    (let '(rs1, u1, lg1, e1) := Server.session H l a units fs1 in
     match e1 with
     | Server.SOpen => let '(rs2, u2, lg2, e2) := Server.session H l a u1 fs2 in (rs1 ++ rs2, u2, lg1 ++ lg2, e2)
     | _ => (rs1, u1, lg1, e1)
     end).
Proof.
  induction fs1 as [|f fs1 IH]; intros fs2 units.
  - cbn [app Server.session]. destruct (Server.session H l a units fs2) as [[[rs u] lg] e]. reflexivity.
  - cbn [app Server.session]. destruct (Server.handle_frame H l a units f) as [[[bytes|e|] units'] lg]; try reflexivity.
    rewrite IH. destruct (Server.session H l a units' fs1) as [[[rs1 u1] lg1] e1].
    destruct e1; try reflexivity.
    destruct (Server.session H l a u1 fs2) as [[[rs2 u2] lg2] e2]. rewrite <- app_assoc. reflexivity.
Qed.

Lemma frames_in_app i1 i2 : frames_in (i1 ++ i2) = frames_in i1 ++ frames_in i2.
Proof. unfold frames_in, Reader.frames_of. rewrite flat_map_app, map_app. reflexivity. Qed.

Definition no_end (evs : list bevent) : Prop :=
  Forall (fun ev => match ev with BCommand R.Shutdown | BClosed => False | _ => True end) evs.

(* with level changes only, the byte-level run is run_cancel on the chunks followed by the session:
   each level change drops the waiting next_frame, which is re-entered from the reader's state *)
Lemma run_bytes_cancel l a : forall evs r units d fi, no_end evs ->
  let '(rs, u, lg, _, se, b) := run_bytes H l a r units d evs (Some fi) in
  let '(items, e) := Reader.run_cancel r (chunks_of evs) fi in
  (rs, u, lg, se) = Server.session H l a units (frames_in items) /\ (se = Server.SOpen -> b = BReader e).
Proof.
  induction evs as [|ev rest IH]; intros r units d fi Hne.
  - cbn [run_bytes chunks_of flat_map Reader.run_cancel].
    destruct (Reader.run_reader (Reader.run_fuel r []) false r [] fi) as [items e].
    destruct (Server.session H l a units (frames_in items)) as [[[rs u] lg] se]. split; [reflexivity|].
    intros ->. reflexivity.
  - inversion Hne as [|? ? Hev Hrest]; subst. destruct ev as [c|[x|]|]; try contradiction.
    + cbn [run_bytes chunks_of flat_map app Reader.run_cancel]. fold (chunks_of rest).
      destruct (Reader.run_reader_st (Reader.run_fuel r [c]) r [c] F.FinPending) as [r1 [items e1]].
      destruct (Server.session H l a units (frames_in items)) as [[[rs u] lg] se] eqn:Es.
      destruct e1.
      all: try (destruct se; (split; [symmetry; exact Es|]); [intros _; reflexivity|discriminate|discriminate]).
      (* EndPending: the call waits; go on *)
      destruct se.
      * specialize (IH r1 u d fi Hrest).
        destruct (run_bytes H l a r1 u d rest (Some fi)) as [[[[[rs' u'] lg'] d'] se'] b'].
        destruct (Reader.run_cancel r1 (chunks_of rest) fi) as [l2 e2].
        destruct IH as [IH1 IH2]. rewrite frames_in_app, session_app, Es, <- IH1. split; [reflexivity|exact IH2].
      * destruct (Reader.run_cancel r1 (chunks_of rest) fi) as [l2 e2].
        rewrite frames_in_app, session_app, Es. split; [reflexivity|discriminate].
      * destruct (Reader.run_cancel r1 (chunks_of rest) fi) as [l2 e2].
        rewrite frames_in_app, session_app, Es. split; [reflexivity|discriminate].
    + cbn [run_bytes chunks_of flat_map app]. fold (chunks_of rest). apply IH. exact Hrest.
Qed.

(* level changes are unobservable at byte level *)
Lemma run_bytes_strip l a : forall evs r units d d' fi,
  let '(rs, u, lg, _, se, b) := run_bytes H l a r units d evs fi in
  let '(rs2, u2, lg2, _, se2, b2) := run_bytes H l a r units d' (bstrip evs) fi in
  (rs, u, lg, se, b) = (rs2, u2, lg2, se2, b2).
Proof.
  induction evs as [|ev rest IH]; intros r units d d' fi.
  - cbn [bstrip run_bytes]. destruct fi as [f|]; [|reflexivity].
    destruct (Reader.run_reader (Reader.run_fuel r []) false r [] f) as [items e].
    destruct (Server.session H l a units (frames_in items)) as [[[rs u] lg] se]. reflexivity.
  - destruct ev as [c|[x|]|]; cbn [bstrip run_bytes]; try reflexivity.
    + destruct (Reader.run_reader_st (Reader.run_fuel r [c]) r [c] F.FinPending) as [r1 [items e1]].
      destruct (Server.session H l a units (frames_in items)) as [[[rs u] lg] se].
      destruct se; try reflexivity. destruct e1; try reflexivity.
      specialize (IH r1 u d d' fi).
      destruct (run_bytes H l a r1 u d rest fi) as [[[[[rs' u'] lg'] dd] se'] b'].
      destruct (run_bytes H l a r1 u d' (bstrip rest) fi) as [[[[[rs2 u2] lg2] dd2] se2] b2].
      inversion IH; subst. reflexivity.
    + apply IH.
Qed.

(* Shutdown / closed channel: the run is cut there, whatever follows and however the stream ends *)
Definition cut (x : list (list N) * S.ucfg St * list S.event * N * Server.session_end * bend) :=
  let '(rs, u, lg, d, se, b) := x in (rs, u, lg, d, se, match b with BWaiting => BShutdown | other => other end).
Definition bends (ev : bevent) : Prop := ev = BCommand R.Shutdown \/ ev = BClosed.

Lemma run_bytes_shutdown l a ev post fi : bends ev -> forall pre r units d,
  run_bytes H l a r units d (pre ++ ev :: post) fi = cut (run_bytes H l a r units d pre None).
Proof.
  intros Hev. induction pre as [|e0 pre IH]; intros r units d.
  - cbn [app]. destruct Hev as [-> | ->]; reflexivity.
  - cbn [app]. destruct e0 as [c|[x|]|]; cbn [run_bytes]; try reflexivity.
    + destruct (Reader.run_reader_st (Reader.run_fuel r [c]) r [c] F.FinPending) as [r1 [items e1]].
      destruct (Server.session H l a units (frames_in items)) as [[[rs u] lg] se].
      destruct se; try reflexivity. destruct e1; try reflexivity.
      rewrite IH. destruct (run_bytes H l a r1 u d pre None) as [[[[[rs' u'] lg'] dd] se'] b']. reflexivity.
    + apply IH.
Qed.

(* ---------------------------------------------------------------- against C01_System *)
Definition obs4 (x : list (list N) * S.ucfg St * list S.event * N * Server.session_end * bend) :=
  let '(rs, u, lg, _, se, _) := x in (rs, u, lg, se).
Definition bend_of (x : list (list N) * S.ucfg St * list S.event * N * Server.session_end * bend) : bend :=
  let '(_, _, _, _, _, b) := x in b.

Theorem run_bytes_is_server_system_tcp a units d evs fi : no_end evs ->
  let x := run_bytes H S.LTcp a (Reader.reader_new Reader.KTcp) units d evs (Some fi) in
  let y := server_system H S.LTcp a units (chunks_of evs) fi in
  obs4 x = fst y /\ (snd (fst y) = Server.SOpen -> bend_of x = BReader (snd y)).
Proof.
  intros Hne. cbv zeta. pose proof (run_bytes_cancel S.LTcp a evs (Reader.reader_new Reader.KTcp) units d fi Hne) as L.
  unfold server_system, kind_of_link. rewrite <- (C05Proofs.tcp_cancel_safe_session (chunks_of evs) fi).
  destruct (run_bytes H S.LTcp a (Reader.reader_new Reader.KTcp) units d evs (Some fi)) as [[[[[rs u] lg] dd] se] b].
  destruct (Reader.run_cancel (Reader.reader_new Reader.KTcp) (chunks_of evs) fi) as [items e].
  destruct L as [L1 L2]. cbn [obs4 bend_of fst snd]. unfold frames_in in L1. rewrite <- L1. cbn [snd]. split; [reflexivity|exact L2].
Qed.

Theorem run_bytes_is_server_system_rtu a units d evs fi : no_end evs -> Forall Framing.bytes (chunks_of evs) ->
  let x := run_bytes H S.LRtu a (Reader.reader_new Reader.KRtuRequest) units d evs (Some fi) in
  let y := server_system H S.LRtu a units (chunks_of evs) fi in
  obs4 x = fst y /\ (snd (fst y) = Server.SOpen -> bend_of x = BReader (snd y)).
Proof.
  intros Hne Hb. cbv zeta. pose proof (run_bytes_cancel S.LRtu a evs (Reader.reader_new Reader.KRtuRequest) units d fi Hne) as L.
  unfold server_system, kind_of_link.
  change Reader.KRtuRequest with (C06Proofs.kind_of Gen.RtuLengths.Request) in *.
  rewrite <- (C06Proofs.rtu_cancel_safe_session Gen.RtuLengths.Request (chunks_of evs) fi Hb).
  destruct (run_bytes H S.LRtu a (Reader.reader_new (C06Proofs.kind_of Gen.RtuLengths.Request)) units d evs (Some fi)) as [[[[[rs u] lg] dd] se] b].
  destruct (Reader.run_cancel (Reader.reader_new (C06Proofs.kind_of Gen.RtuLengths.Request)) (chunks_of evs) fi) as [items e].
  destruct L as [L1 L2]. cbn [obs4 bend_of fst snd]. unfold frames_in in L1. rewrite <- L1. cbn [snd]. split; [reflexivity|exact L2].
Qed.
End Sys.
