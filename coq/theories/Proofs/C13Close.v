(* C13: every listener notification other than Connected is made with the connection closed (all event lists). *)
From Coq Require Import NArith List Bool Arith Lia.
From Rodbus Require Import Model.Retry Spec.Lifecycle Spec.ClientSpec Gen.SessionErrors Gen.ClientScope Model.ClientTask Model.SerialTask
  Model.ClientClose Proofs.ClientBase Proofs.C13Proofs Proofs.C13Serial.
Import ListNotations.
Local Open Scope N_scope.

(* ---- the generated tables: every arm closes the connection before it notifies or waits ---- *)
Lemma tcp_arms_close_first : forall e, closed_first (tcp_arm e) = true.
Proof. destruct e; reflexivity. Qed.
Lemma serial_arms_close_first : forall e, closed_first (serial_arm e) = true.
Proof. destruct e; reflexivity. Qed.

Ltac plain_tac := let x := fresh in let Hx := fresh in intros x Hx; cbn in Hx; repeat (destruct Hx as [<-|Hx]; [exact I|]); destruct Hx.

Section Close.
Variable cfg : config.
Variable arm : session_error -> list scope_effect.
Hypothesis Harm : forall e, closed_first (arm e) = true.

Lemma scan_app a : forall b open, scan arm open (a ++ b) =
  let '(o1, k1) := scan arm open a in let '(o2, k2) := scan arm o1 b in (o2, k1 && k2).
Proof.
  induction a as [|x a IH]; intros b open; cbn [app scan].
  - destruct (scan arm open b). reflexivity.
  - destruct x as [id r|tx id|tx id|tx id|l| |e]; try apply IH.
    + destruct l; try apply IH; rewrite IH; destruct (scan arm open a) as [o1 k1]; destruct (scan arm o1 b) as [o2 k2]; rewrite andb_assoc; reflexivity.
Qed.

Definition plain (o : list output) : Prop := forall x, In x o -> match x with OListen _ | OEnd _ => False | _ => True end.

Lemma scan_plain o : plain o -> forall open, scan arm open o = (open, true).
Proof.
  induction o as [|x o IH]; intros H open; [reflexivity|].
  assert (Hx := H x (or_introl eq_refl)). assert (Ho : plain o) by (intros y Hy; apply H; right; exact Hy).
  destruct x; try contradiction; cbn [scan]; apply IH; exact Ho.
Qed.

Lemma plain_drop q : plain (drop_queue q).
Proof. intros x H. apply in_drop_queue in H. destruct H as [i ->]. exact I. Qed.
Lemma plain_app a b : plain a -> plain b -> plain (a ++ b).
Proof. intros Ha Hb x H. apply in_app_or in H. destruct H as [H|H]; [apply Ha|apply Hb]; exact H. Qed.
Lemma plain_map_complete (l : list request) : plain (map (fun r => OComplete (rq_id r) (RErr drop_error)) l).
Proof. intros x H. apply in_map_iff in H. destruct H as (r & <- & _). exact I. Qed.

(* P open (s', o): scanning o from `open` finds every notification in order, and if the connection is open afterwards the
   task is in a connected phase (or gone without a word) *)
Definition P (open : bool) (r : state * list output) : Prop :=
  snd (scan arm open (snd r)) = true /\ (fst (scan arm open (snd r)) = true -> connected (ph (fst r)) = true \/ ph (fst r) = PDone).

Lemma P_plain open s' o : plain o -> (open = true -> connected (ph s') = true \/ ph s' = PDone) -> P open (s', o).
Proof. intros Hp Hi. unfold P. cbn [fst snd]. rewrite (scan_plain o Hp). cbn [fst snd]. auto. Qed.

Lemma P_cons_plain open s' o x : plain [x] -> P open (s', o) -> P open (s', x :: o).
Proof.
  intros Hx Hp. unfold P in *. cbn [fst snd] in *. change (x :: o) with ([x] ++ o). rewrite scan_app, (scan_plain [x] Hx).
  destruct (scan arm open o) as [o2 k2]. cbn [fst snd andb] in *. exact Hp.
Qed.

(* closed: the scan ends with the connection closed and no complaint *)
Definition C (open : bool) (o : list output) : Prop := scan arm open o = (false, true).

Lemma C_P open s' o : C open o -> P open (s', o).
Proof. intros H. unfold P, C in *. cbn [fst snd]. rewrite H. cbn. split; [reflexivity|discriminate]. Qed.

Lemma crash_plain s : plain (snd (crash s)).
Proof. unfold crash. cbn [snd]. apply plain_app; [apply plain_map_complete|apply plain_drop]. Qed.

Lemma terminate_C s pre : C false pre -> C false (snd (terminate s pre)).
Proof.
  intros H. unfold terminate, C in *. cbn [snd]. rewrite scan_app, H. cbn [app scan]. rewrite (scan_plain _ (plain_drop _)). reflexivity.
Qed.
Lemma loop_top_C s : C false (snd (loop_top s)).
Proof. unfold loop_top, start_connecting, C. destruct (enabled s); reflexivity. Qed.
Lemma wait_for_C s l o pre : (forall d, l d <> LConnected) -> C false pre -> C false (snd (wait_for s l o pre)).
Proof.
  intros Hl H. unfold wait_for, C in *. destruct (retry_call s o) as [[s1 d]|].
  - cbn [snd]. rewrite scan_app, H. specialize (Hl d). cbn [scan]. destruct (l d); try reflexivity. congruence.
  - pose proof (crash_plain s) as Hc. destruct (crash s) as [s' out]. cbn [snd] in *. rewrite scan_app, H, (scan_plain _ Hc). reflexivity.
Qed.
Lemma end_C open e : C open [OEnd e].
Proof. unfold C. cbn [scan]. rewrite Harm. rewrite andb_false_r. reflexivity. Qed.

Lemma end_session_C s e open : C open (snd (end_session s e)).
Proof.
  assert (Hpre : forall post, C false post -> C open (OEnd e :: post)).
  { intros post H. unfold C in *. cbn [scan]. rewrite Harm, andb_false_r. exact H. }
  assert (Hw : C open (snd (wait_for s LWaitDisc Disc [OEnd e]))).
  { unfold wait_for. destruct (retry_call s Disc) as [[s1 d]|].
    - cbn [snd app]. apply Hpre. reflexivity.
    - pose proof (crash_plain s) as Hc. destruct (crash s) as [s' out]. cbn [snd app] in *. apply Hpre. unfold C. apply scan_plain. exact Hc. }
  unfold end_session. destruct e; try exact Hw.
  - pose proof (loop_top_C s) as H. destruct (loop_top s) as [s' o]. cbn [snd] in *. apply Hpre. exact H.
  - unfold terminate. cbn [snd app]. apply Hpre. unfold C. cbn [scan]. rewrite (scan_plain _ (plain_drop _)). reflexivity.
Qed.

Lemma finish_P s r res open : P open (finish s r res).
Proof.
  unfold finish.
  assert (Halive : forall t, P open (set_tc (set_ph s PIdle) t, [OComplete (rq_id r) res])).
  { intros t. apply P_plain; [intros x [<-|[]]; exact I|]. intros _. left. reflexivity. }
  assert (Hend : forall s0 se, P open (let '(s', o) := end_session s0 se in (s', [OComplete (rq_id r) res] ++ o))).
  { intros s0 se. pose proof (end_session_C s0 se open) as H. destruct (end_session s0 se) as [s' o]. cbn [snd app] in *.
    apply P_cons_plain; [intros x [<-|[]]; exact I|]. apply C_P. exact H. }
  destruct res as [|e]; [apply Halive|]. destruct (from_request_err e) as [se|]; [apply Hend|].
  destruct (request_error_beq e counted_error); [|apply Halive].
  destruct (tc_increment (tcount (set_ph s PIdle))) as [t' stop]. destruct stop; [apply Hend|apply Halive].
Qed.

Lemma transmit_P s r open : P open (transmit s r).
Proof.
  unfold transmit. destruct (txid_next (txid s)) as [v' tx]. destruct (rq_kind r).
  - destruct (wfail (set_txid s v')).
    + pose proof (finish_P (set_wctl (set_txid s v') false 0) r (RErr ReIo) open) as H. destruct (finish _ r _) as [s' o].
      apply P_cons_plain; [intros x [<-|[]]; exact I|]. apply P_cons_plain; [intros x [<-|[]]; exact I|]. exact H.
    + destruct (write_now (set_txid s v')); (apply P_plain; [plain_tac|intros _; left; reflexivity]).
  - pose proof (finish_P (set_txid s v') r (RErr ReBadRequest) open) as H. destruct (finish _ r _) as [s' o].
    apply P_cons_plain; [intros x [<-|[]]; exact I|]. exact H.
Qed.

Lemma plain_nil : plain []. Proof. intros x []. Qed.
Lemma plain_one_complete id res : plain [OComplete id res]. Proof. intros x [<-|[]]. exact I. Qed.

(* a command taken from the queue *)
Lemma take_P s c open : (open = true -> connected (ph s) = true \/ ph s = PDone) -> listens (ph s) = true -> P open (take s c).
Proof.
  intros Hi Hl. unfold take.
  assert (Hclosed : connected (ph s) = false -> open = false).
  { intros Hc. destruct open; [|reflexivity]. destruct (Hi eq_refl) as [H|H]; [congruence|]. rewrite H in Hl. discriminate. }
  destruct (ph s) eqn:Eph; try discriminate.
  - (* PWaitEnabled *) rewrite (Hclosed eq_refl). destruct c as [r| | |l|]; cbn [change_setting].
    + apply P_plain; [apply plain_one_complete|discriminate].
    + cbn [enabled set_enabled]. apply C_P. reflexivity.
    + cbn [enabled set_enabled]. apply P_plain; [apply plain_nil|discriminate].
    + cbn [enabled set_decode]. destruct (enabled s); [apply C_P; reflexivity|apply P_plain; [apply plain_nil|discriminate]].
    + apply C_P. apply (terminate_C s []). reflexivity.
  - (* PConnecting *) rewrite (Hclosed eq_refl). destruct c as [r| | |l|]; cbn [change_setting].
    + apply P_plain; [apply plain_one_complete|discriminate].
    + cbn [enabled set_enabled]. apply P_plain; [apply plain_nil|discriminate].
    + cbn [enabled set_enabled]. apply C_P; first [apply loop_top_C|reflexivity].
    + cbn [enabled set_decode]. destruct (enabled s); [apply P_plain; [apply plain_nil|discriminate]|apply C_P; first [apply loop_top_C|reflexivity]].
    + apply C_P. apply (terminate_C s []). reflexivity.
  - (* PIdle *) destruct c as [r| | |l|]; cbn [change_setting].
    + apply transmit_P.
    + cbn [enabled set_enabled]. apply P_plain; [apply plain_nil|]. intros _. left. cbn. rewrite Eph. reflexivity.
    + apply C_P. exact (end_session_C (set_enabled s false) SeDisabled open).
    + cbn [enabled set_decode]. destruct (enabled s); [apply P_plain; [apply plain_nil|intros _; left; cbn; rewrite Eph; reflexivity]|].
      apply C_P. exact (end_session_C (set_decode s l) SeDisabled open).
    + apply C_P. exact (end_session_C s SeShutdown open).
  - (* PWaiting *) rewrite (Hclosed eq_refl). destruct c as [r| | |l|]; cbn [change_setting].
    + apply P_plain; [apply plain_one_complete|discriminate].
    + cbn [enabled set_enabled]. apply P_plain; [apply plain_nil|discriminate].
    + cbn [enabled set_enabled]. apply C_P; first [apply loop_top_C|reflexivity].
    + cbn [enabled set_decode]. destruct (enabled s); [apply P_plain; [apply plain_nil|discriminate]|apply C_P; first [apply loop_top_C|reflexivity]].
    + apply C_P. apply (terminate_C s []). reflexivity.
Qed.

Definition Inv (open : bool) (s : state) : Prop := open = true -> connected (ph s) = true \/ ph s = PDone.

Theorem step_P s e open : Inv open s -> P open (step cfg s e).
Proof.
  intros Hi.
  assert (Hsame : forall s' o, plain o -> ph s' = ph s -> P open (s', o)).
  { intros s' o Hp He. apply P_plain; [exact Hp|]. rewrite He. exact Hi. }
  assert (Hclosed : connected (ph s) = false -> ph s <> PDone -> open = false).
  { intros Hc Hn. destruct open; [|reflexivity]. destruct (Hi eq_refl); congruence. }
  assert (Hconn : forall s' o, plain o -> connected (ph s') = true -> P open (s', o)).
  { intros s' o Hp Hc. apply P_plain; auto. }
  assert (Hfr : forall s0 tx k, ph s0 = ph s -> P open (on_frame s0 tx k)).
  { intros s0 tx k E. unfold on_frame. rewrite E. destruct (ph s) eqn:Eph; try (apply Hsame; [apply plain_nil|first [exact E|rewrite E; reflexivity]]).
    destruct (tx =? tx0); [apply finish_P|apply Hsame; [apply plain_nil|first [exact E|rewrite E; reflexivity]]]. }
  assert (Hre : forall err, P open (on_read_error s err)).
  { intros err. unfold on_read_error. destruct (ph s) eqn:Eph; try (apply Hsame; [apply plain_nil|first [reflexivity|eassumption]]).
    - destruct (from_request_err err) as [se|]; [apply C_P; apply end_session_C|apply Hsame; [apply plain_nil|first [reflexivity|eassumption]]].
    - apply finish_P. }
  destruct e as [c st| | |ok|tx k|tx k| | | | | |dt| |dt| | |k| ]; cbn [step].
  - destruct (Nat.eqb (handles s) 0); [apply Hsame; [apply plain_nil|first [reflexivity|eassumption]]|].
    destruct (ph s) eqn:Eph; try (destruct (_ && _); [apply Hsame; [apply plain_nil|cbn; rewrite ?Eph; reflexivity]|];
      destruct st; apply Hsame; try apply plain_nil; try apply plain_drop; cbn; rewrite ?Eph; reflexivity).
    apply Hsame; [apply plain_drop|exact Eph].
  - apply Hsame; [apply plain_nil|first [reflexivity|eassumption]].
  - destruct (listens (ph s)) eqn:El; [|apply Hsame; [apply plain_nil|first [reflexivity|eassumption]]].
    destruct (queue s) as [|c q].
    + destruct (closed s); [|apply Hsame; [apply plain_nil|first [reflexivity|eassumption]]].
      destruct (ph s) eqn:Eph; try discriminate; try (rewrite (Hclosed eq_refl ltac:(discriminate)); apply C_P; apply (terminate_C s []); reflexivity).
      apply C_P. exact (end_session_C s SeShutdown open).
    + apply take_P; [exact Hi|exact El].
  - destruct (ph s) eqn:Eph; try (apply Hsame; [apply plain_nil|first [reflexivity|eassumption]]).
    rewrite (Hclosed eq_refl ltac:(discriminate)). destruct ok.
    + destruct (retry_call s Reset) as [[s1 d]|].
      * split; [reflexivity|]. intros _. left. reflexivity.
      * pose proof (crash_plain s) as Hc. destruct (crash s) as [s' o] eqn:Ec. apply P_plain; [exact Hc|discriminate].
    + apply C_P. apply wait_for_C; [discriminate|reflexivity].
  - destruct (reading (ph s)); [|apply Hsame; [apply plain_nil|first [reflexivity|eassumption]]]. destruct (partial s); [apply Hsame; [apply plain_nil|first [reflexivity|eassumption]]|].
    apply Hfr. reflexivity.
  - destruct (reading (ph s)); [|apply Hsame; [apply plain_nil|first [reflexivity|eassumption]]]. destruct (partial s); apply Hsame; try apply plain_nil; reflexivity.
  - destruct (reading (ph s)); [|apply Hsame; [apply plain_nil|first [reflexivity|eassumption]]]. destruct (partial s) as [[t k]|]; [|apply Hsame; [apply plain_nil|first [reflexivity|eassumption]]].
    apply Hfr. reflexivity.
  - destruct (reading (ph s)); [|apply Hsame; [apply plain_nil|first [reflexivity|eassumption]]]. destruct (partial s); [apply Hsame; [apply plain_nil|first [reflexivity|eassumption]]|]. apply Hre.
  - destruct (reading (ph s)); [|apply Hsame; [apply plain_nil|first [reflexivity|eassumption]]]. apply Hre.
  - destruct (reading (ph s)); [|apply Hsame; [apply plain_nil|first [reflexivity|eassumption]]]. apply Hre.
  - apply Hsame; [apply plain_nil|first [reflexivity|eassumption]].
  - apply Hsame; [apply plain_nil|first [reflexivity|eassumption]].
  - destruct (ph s) eqn:Eph; try (apply Hsame; [apply plain_nil|first [reflexivity|eassumption]]).
    + destruct (Nat.eqb (wpark s) 0 && (fire cfg until <=? now s)); [apply Hconn; [plain_tac|reflexivity]|].
      destruct (fire cfg (wdl s) <=? now s); [apply finish_P|apply Hsame; [apply plain_nil|first [reflexivity|eassumption]]].
    + destruct (fire cfg deadline <=? now s); [apply finish_P|apply Hsame; [apply plain_nil|first [reflexivity|eassumption]]].
    + destruct (fire cfg until <=? now s); [|apply Hsame; [apply plain_nil|first [reflexivity|eassumption]]].
      rewrite (Hclosed eq_refl ltac:(discriminate)). apply C_P. apply loop_top_C.
  - apply Hsame; [apply plain_nil|first [reflexivity|eassumption]].
  - destruct (ph s) eqn:Eph; try (pose proof (crash_plain s) as Hc; destruct (crash s) as [s' o] eqn:Ec; apply P_plain; [exact Hc|];
      intros _; right; unfold crash in Ec; inversion Ec; reflexivity).
    apply Hsame; [apply plain_nil|first [reflexivity|eassumption]].
  - apply Hsame; [apply plain_nil|first [reflexivity|eassumption]].
  - apply Hsame; [apply plain_nil|first [reflexivity|eassumption]].
  - destruct (wpark s) as [|n]; [apply Hsame; [apply plain_nil|first [reflexivity|eassumption]]|]. cbn [ph set_wpark].
    destruct (ph s) eqn:Eph; try (apply Hsame; [apply plain_nil|first [reflexivity|eassumption]]).
    destruct (Nat.eqb n 0 && _); [apply Hconn; [plain_tac|reflexivity]|apply Hsame; [apply plain_nil|first [reflexivity|eassumption]]].
Qed.

(* lifted to runs *)
Theorem run_scan : forall es s open, Inv open s ->
  snd (scan arm open (snd (run cfg s es))) = true /\ Inv (fst (scan arm open (snd (run cfg s es)))) (fst (run cfg s es)).
Proof.
  induction es as [|e es IH]; intros s open Hi; cbn [run]; [split; [reflexivity|exact Hi]|].
  pose proof (step_P s e open Hi) as [H1 H2]. destruct (step cfg s e) as [s1 o1]. cbn [fst snd] in *.
  specialize (IH s1 (fst (scan arm open o1)) H2). destruct (run cfg s1 es) as [s2 o2]. cbn [fst snd] in *.
  rewrite scan_app. destruct (scan arm open o1) as [op1 k1]. cbn [fst snd] in *. destruct (scan arm op1 o2) as [op2 k2]. cbn [fst snd] in *.
  destruct IH as [IH1 IH2]. rewrite H1, IH1. split; [reflexivity|exact IH2].
Qed.

Theorem notified_closed_run hn mt rmin rmax es :
  notified_closed arm (init_outputs ++ snd (run cfg (init hn mt rmin rmax) es)) = true.
Proof.
  unfold notified_closed, init_outputs. cbn [app scan negb andb].
  assert (Hi : Inv false (init hn mt rmin rmax)) by (intros E; discriminate E).
  destruct (run_scan es _ false Hi) as [H _]. destruct (scan arm false (snd (run cfg (init hn mt rmin rmax) es))) as [op k]. cbn [snd] in *. exact H.
Qed.

End Close.

(* the TCP / TLS task and the serial task, with the tables generated from their sources *)
Theorem tcp_notified_closed cfg hn mt rmin rmax es :
  notified_closed tcp_arm (init_outputs ++ snd (run cfg (init hn mt rmin rmax) es)) = true.
Proof. apply notified_closed_run. exact tcp_arms_close_first. Qed.

Theorem serial_notified_closed cfg hn rmin rmax es :
  notified_closed serial_arm (init_outputs ++ snd (srun cfg (sinit hn rmin rmax) es)) = true.
Proof.
  destruct (serial_is_tcp_run cfg es (sinit hn rmin rmax)) as [-> _]. cbn [ss sinit].
  apply notified_closed_run. exact serial_arms_close_first.
Qed.
